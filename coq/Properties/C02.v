(* C02 -- set-similarity joins return only qualifying pairs, once, with the true score. *)
From Coq Require Import ZArith Bool List String.
From SSJ Require Import F64 PyNum FilterUtilsGen TokenOrdering Measures Filters Joins Api JoinSpec
     SetBridge SetPair OverlapFacts OverlapMeasure MetaSpec ApiJoinSpec PartitionInst.
Import ListNotations.
Open Scope string_scope.
Open Scope Z_scope.

(* J/C/D: whatever candidate generation did, a reported score is the 4-decimal similarity of the
   two token SETS (ranks are injective) and satisfies the comparison; no envelope needed *)
Theorem C02_pair_jcd :
  forall m t q op all x y,
  is_jcd m = true -> NoDup x -> NoDup y ->
  (forall w, In w x -> In w all) -> (forall w, In w y -> In w all) ->
  forall s, ssj_pair {| fm := m; ft := PFloat t; fq := q |} op (order all x) (order all y) = Some [s] ->
  s = reported_score m x y /\ cmp_op op s (PFloat t) = true.
Proof. exact ssj_pair_sound. Qed.
Print Assumptions C02_pair_jcd.

Theorem C02_pair_at_most_one :
  forall m t q op all x y l,
  ssj_pair {| fm := m; ft := PFloat t; fq := q |} op (order all x) (order all y) = Some l ->
  l = [] \/ exists s, l = [s].
Proof. intros m t q op all x y. exact (ssj_pair_sound_shape m t q op all x y). Qed.
Print Assumptions C02_pair_at_most_one.

(* OVERLAP: each listed pair exists, satisfies the comparison, carries the overlap; once *)
Theorem C02_overlap :
  forall op T L R res,
  rows_nodup L -> rows_nodup R -> overlap_tables_core op (PInt T) L R = Some res ->
  forall c j s, In (c, j, s) res <->
    exists x y, nth_error L c = Some x /\ nth_error R j = Some y /\ 0 < overlap_sets x y /\
      cmp_op op (PInt (overlap_sets x y)) (PInt T) = true /\ s = PInt (overlap_sets x y).
Proof. exact overlap_tables_core_spec. Qed.
Print Assumptions C02_overlap.

Theorem C02_overlap_once :
  forall op size L R res, overlap_tables_core op size L R = Some res -> NoDup (map tkey res).
Proof. exact overlap_tables_core_once. Qed.
Print Assumptions C02_overlap_once.

(* OVERLAP COEFFICIENT: unrounded score, comparison holds, admitted empty pairs carry 1.0; once *)
Theorem C02_overlap_coefficient :
  forall t op ae L R res c j s,
  rows_nodup L -> rows_nodup R -> ovc_core t op ae L R = Some res -> In (c, j, s) res ->
  exists x y, nth_error L c = Some x /\ nth_error R j = Some y /\
    ((ae = true /\ x = [] /\ y = [] /\ s = PFloat f_one) \/
     (share x y = true /\ s = raw_score "OVERLAP_COEFFICIENT" x y /\
      qualifies "OVERLAP_COEFFICIENT" op t x y = true)).
Proof. exact ovc_core_sound. Qed.
Print Assumptions C02_overlap_coefficient.

Theorem C02_overlap_coefficient_once :
  forall t op ae L R res, ovc_core t op ae L R = Some res -> NoDup (map tkey res).
Proof. exact ovc_core_once. Qed.
Print Assumptions C02_overlap_coefficient_once.

(* API level: every output row names existing keys, occurs once per key pair, satisfies the
   comparison with the similarity recomputed from the two rows, and carries that score *)
Theorem C02_api :
  forall (c : jcase) (out : list out_row),
  valid_join_case c -> api_join c = Some out -> sound_spec c out = true.
Proof. intros c out Hv Ho. exact (proj1 (proj2 (api_join_spec hpart_cpus_bounded c out Hv Ho))). Qed.
Print Assumptions C02_api.

(* tie of the token order to the source: utils/token_ordering.py, as REGENERATED on this run,
   computes exactly the ranks of Model/TokenOrdering.v that the theorems above are about *)
From SSJ Require Import TokenOrderingGen OrderingGenFacts.
Theorem token_order_of_source_is_model :
  forall tables attr_list smt tokenize tk toks,
  tokenizes tables attr_list tokenize tk ->
  order_using_token_ordering (PList (map PInt toks))
    (gen_token_ordering_for_tables (PList (map PList tables)) attr_list smt tokenize)
  = PList (map PInt (order (tab_tokens tk 0 tables) toks)).
Proof. exact order_using_gen_tables. Qed.
Theorem pair_token_order_of_source_is_model :
  forall lists toks,
  order_using_token_ordering (PList (map PInt toks))
    (gen_token_ordering_for_lists (PList (map (fun l => PList (map PInt l)) lists)))
  = PList (map PInt (order (List.concat lists) toks)).
Proof. exact order_using_gen_lists. Qed.

(* tie of candidate generation to the source: index/position_index.py (build) and
   filter/position_filter.py (find_candidates), as REGENERATED on this run (Gen/IndexGen.v), compute
   for EVERY indexed row c and probe Y exactly the pairwise model's verdict pos_cand -- the
   inverted index over all rows, the eager overlap-threshold cache, the clamping of the size
   window to [min_length, max_length] and the early exit on an empty index are all immaterial *)
From SSJ Require Import IndexGen IndexPyFacts IndexBuildFacts IndexProbeFacts IndexRefine.
Theorem position_index_code_refines_model :
  forall (p : fparams) (attr ordering : pyval) (tokenize : pyval -> pyval) (rows : list pyval)
         (ordered : list (list Z)) (ce ct : bool),
  Forall2 (row_ok attr ordering tokenize) rows ordered ->
  (forall x, In x ordered -> exists kx, g_pl p (len x) = PInt kx) ->
  forall (Y : list Z) (lb ub k : Z),
  g_lb p (len Y) = PInt lb -> g_ub p (len Y) = PInt ub -> g_pl p (len Y) = PInt k ->
  (forall s, 0 <= s -> lb <= s <= ub -> num_of (g_ot p s (len Y)) <> None) ->
  exists (index size_cache : pyval) (mn mx : Z) (ret cands : pyval),
    position_index_build (PList rows) attr (PStr (fm p)) (ft p) ordering (PBool ce) (PBool ct)
                         (PInt (fq p)) tokenize
    = PTuple [index; size_cache; PInt mn; PInt mx; ret] /\
    position_filter_find_candidates (PStr (fm p)) (ft p) (pints Y) index size_cache (PInt mn) (PInt mx)
                                    (PInt (fq p)) = cands /\
    forall c : nat, (c < List.length ordered)%nat ->
      (0 < dict_val cands (Z.of_nat c) <-> exists v, pos_cand p (nth c ordered []) Y = Some v /\ 0 < v).
Proof. exact position_candidate_positive. Qed.
Print Assumptions position_index_code_refines_model.

(* tie of the per-chunk join loop to the source: join/set_sim_join.py, as REGENERATED on this run
   (Gen/JoinGen.v: attribute indices, token ordering, PositionIndex.build, PositionFilter.
   find_candidates, the allow_empty branch, verification round(sim,4) against comp_op, output rows,
   header), returns -- up to the order of rows -- exactly the triples of the hand model
   set_sim_join_core mapped through the declarative projection (Spec/ProjSpec.v), and the
   documented header.  The statement is that of JoinRefineProj.set_sim_join_rows_refines_proj
   (printed by the Check below); its hypotheses on the formulas are discharged for
   JACCARD/COSINE/DICE over all doubles in the envelope by IndexGlueArith (next theorems). *)
From SSJ Require Import JoinGen JoinGenFacts JoinGenLoop JoinRefine JoinRefineProj IndexGlue IndexGlueArith.
Theorem generated_join_loop_refines_model :
  ltac:(let t := type of set_sim_join_rows_refines_proj in exact t).
Proof. exact set_sim_join_rows_refines_proj. Qed.
Check generated_join_loop_refines_model.
Print Assumptions generated_join_loop_refines_model.
Theorem generated_candidates_end_to_end_jcd :
  ltac:(let t := type of position_candidates_jcd in exact t).
Proof. exact position_candidates_jcd. Qed.
Check generated_candidates_end_to_end_jcd.
Theorem generated_pair_verdict_end_to_end_jcd :
  ltac:(let t := type of ssj_pair_jcd in exact t).
Proof. exact ssj_pair_jcd. Qed.
Check generated_pair_verdict_end_to_end_jcd.
Print Assumptions generated_pair_verdict_end_to_end_jcd.
Theorem generated_formulas_total_jcd :
  forall m t q, is_jcd m = true -> env_t t = true ->
  formulas_ok {| fm := m; ft := PFloat t; fq := q |} size_bound.
Proof. exact formulas_ok_jcd. Qed.

(* ---- tie: the per-chunk functions generated from the source (Gen/JoinGen.v, regenerated every
   run) produce, up to a permutation, exactly the rows of the pairwise model + projection *)
From SSJ Require Import JoinGen SplitRefineBase SplitRefineOverlapFilter SplitRefineOvc SplitRefineFilterBase SplitRefineFilterSize SplitRefineFilterPrefix SplitRefineFilterPosition SplitRefineFilters SplitRefineEd SplitRefineProj SplitRefineProjAll SplitRefineOvcArith.
Theorem generated_overlap_coefficient_split_refines_model :
  ltac:(let t := type of overlap_coefficient_join_split_rows_refines_proj in exact t).
Proof. exact overlap_coefficient_join_split_rows_refines_proj. Qed.
Print Assumptions generated_overlap_coefficient_split_refines_model.

(* ---- tie: the remaining public wrappers as REGENERATED from the source on this run (Gen/WrapperGen.v,
   Gen/FilterWrapperGen.v over Model/Frame.v): overlap_coefficient_join_py, edit_distance_join_py,
   overlap_join_py and the filters' filter_tables compute header_spec + the rows of api_join (entry
   EJoin / EFilter / EOverlapFilter) through the declared projection, per chunk up to order *)
From SSJ Require Import Frame WrapperGen FilterWrapperGen WrapperBody WrapperApiLink WrapperEnd WrapperRefineOvc WrapperRefineEd FilterWrapperRefineOverlap FilterWrapperRefine FilterWrapperRefineClosed.
Theorem generated_overlap_coefficient_wrapper_refines_model :
  ltac:(let t := type of overlap_coefficient_join_rows_end_to_end_flat in exact t).
Proof. exact overlap_coefficient_join_rows_end_to_end_flat. Qed.
Print Assumptions generated_overlap_coefficient_wrapper_refines_model.
Theorem generated_overlap_join_wrapper_refines_model :
  ltac:(let t := type of overlap_join_rows_end_to_end_flat in exact t).
Proof. exact overlap_join_rows_end_to_end_flat. Qed.
Print Assumptions generated_overlap_join_wrapper_refines_model.

(* ==== the property stated DIRECTLY ABOUT THE CODE: the function regenerated from the Python source on this
   run (Gen/WrapperGen.v, Gen/FilterWrapperGen.v, Gen/MatcherGen.v), applied to any well-formed frames,
   returns a frame with header header_spec whose rows, read at key level (kview: left key, right key,
   score), satisfy complete_spec /\ sound_spec /\ missing_spec /\ empty_spec (Spec/JoinSpec.v, MetaSpec.v)
   -- composition of `generated code refines api_join` with `api_join satisfies the specs` *)
From SSJ Require Import CodeLevelBase CodeLevelJoins CodeLevelJoins2 CodeLevelFilters CodeLevelMatcher CodeLevelTight.
Theorem C02_code_jaccard :
  ltac:(let t := type of C01_C02_code_jaccard_tight in exact t).
Proof. exact C01_C02_code_jaccard_tight. Qed.
Print Assumptions C02_code_jaccard.
Theorem C02_code_cosine :
  ltac:(let t := type of C01_C02_code_cosine_tight in exact t).
Proof. exact C01_C02_code_cosine_tight. Qed.
Print Assumptions C02_code_cosine.
Theorem C02_code_dice :
  ltac:(let t := type of C01_C02_code_dice_tight in exact t).
Proof. exact C01_C02_code_dice_tight. Qed.
Print Assumptions C02_code_dice.
Theorem C02_code_overlap_coefficient :
  ltac:(let t := type of C01_C02_code_overlap_coefficient_tight in exact t).
Proof. exact C01_C02_code_overlap_coefficient_tight. Qed.
Print Assumptions C02_code_overlap_coefficient.
Theorem C02_code_overlap_join :
  ltac:(let t := type of C01_C02_code_overlap_join_tight in exact t).
Proof. exact C01_C02_code_overlap_join_tight. Qed.
Print Assumptions C02_code_overlap_join.

(* ---- tie: WHICH function verifies a candidate, as read from utils/simfunctions.py on this run
   (Gen/SimFunctionsGen.v): the py_stringmatching measures themselves (and the local set-intersection
   count for OVERLAP) -- a locally re-implemented measure would appear as "local:<name>" *)
From SSJ Require Import SimFunctionsGen.
Theorem sim_functions_of_source_are_library_measures :
  sim_function_table =
  [("COSINE", "py_stringmatching.similarity_measure.cosine.Cosine.get_raw_score");
   ("DICE", "py_stringmatching.similarity_measure.dice.Dice.get_raw_score");
   ("EDIT_DISTANCE", "py_stringmatching.similarity_measure.levenshtein.Levenshtein.get_raw_score");
   ("JACCARD", "py_stringmatching.similarity_measure.jaccard.Jaccard.get_raw_score");
   ("OVERLAP", "local:overlap");
   ("OVERLAP_COEFFICIENT", "py_stringmatching.similarity_measure.overlap_coefficient.OverlapCoefficient.get_raw_score")]%string.
Proof. reflexivity. Qed.
