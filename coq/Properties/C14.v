(* C14 -- filters prune what their technique promises to prune. *)
From Coq Require Import ZArith Bool List String Reals.
From SSJ Require Import F64 PyNum FilterUtilsGen TokenOrdering Measures Filters Joins Api JoinSpec
     FilterSpec ArithSpec F64Spec OverlapFacts FilterRefine ArithTight.
Import ListNotations.
Open Scope string_scope.
Open Scope Z_scope.

(* SizeFilter decides on the two token counts alone *)
Theorem C14_size_fn :
  forall p op op' ae am am' ls (l : list Z) rs (r : list Z) ls' (l' : list Z) rs' (r' : list Z),
  List.length l = List.length l' -> List.length r = List.length r' ->
  model_filter_pair (size_case p op ae am ls l rs r) =
  model_filter_pair (size_case p op' ae am' ls' l' rs' r').
Proof. exact FilterRefine.C14_size_fn. Qed.
Print Assumptions C14_size_fn.

(* tight: counts inside the window leave a best attainable similarity >= t - 1e-4 (reals), for
   every double threshold in the envelope and all counts < 2^20 ... *)
Theorem C14_size_tight_jaccard : F4_stmt "JACCARD" bestJ.
Proof. exact F4_J. Qed.
Print Assumptions C14_size_tight_jaccard.
Theorem C14_size_tight_cosine : F4_stmt "COSINE" bestC.
Proof. exact F4_C. Qed.
Theorem C14_size_tight_dice : F4_stmt "DICE" bestD.
Proof. exact F4_D. Qed.

(* ... i.e. every pair whose counts put the best attainable similarity more than 1e-4 below the
   threshold is dropped *)
Theorem C14_size_drops_jaccard :
  forall t q ae a b, env_t t = true -> 1 <= a < size_bound -> 1 <= b < size_bound ->
  (bestJ a b < FR t - 1 / 10000)%R -> size_filter_pair (setp "JACCARD" t q) ae a b = true.
Proof. exact F4_drop_J. Qed.
Print Assumptions C14_size_drops_jaccard.
Theorem C14_size_drops_cosine :
  forall t q ae a b, env_t t = true -> 1 <= a < size_bound -> 1 <= b < size_bound ->
  (bestC a b < FR t - 1 / 10000)%R -> size_filter_pair (setp "COSINE" t q) ae a b = true.
Proof. exact F4_drop_C. Qed.
Theorem C14_size_drops_dice :
  forall t q ae a b, env_t t = true -> 1 <= a < size_bound -> 1 <= b < size_bound ->
  (bestD a b < FR t - 1 / 10000)%R -> size_filter_pair (setp "DICE" t q) ae a b = true.
Proof. exact F4_drop_D. Qed.

(* edit distance: dropped iff the counts differ by more than the threshold *)
Theorem C14_size_edit_distance :
  forall (q tau a b : Z) (ae : bool), ~ (a = 0 /\ b = 0) ->
  (size_filter_pair (FilterRefine.edp q tau) ae a b = true <-> tau < Z.abs (a - b)).
Proof. exact F4_ED. Qed.
Print Assumptions C14_size_edit_distance.

(* Prefix / Position / Overlap filters keep no pair without a common token (any parameters) *)
Theorem C14_common_token_prefix :
  forall p ae l r, prefix_filter_pair p ae l r = Some false -> l <> [] \/ r <> [] -> share l r = true.
Proof. exact prefix_filter_pair_share. Qed.
Theorem C14_common_token_position :
  forall p ae l r, position_filter_pair p ae l r = Some false -> l <> [] \/ r <> [] -> share l r = true.
Proof. exact position_filter_pair_share. Qed.
Theorem C14_common_token_overlap :
  forall op T l r, overlap_filter_pair op (PInt T) false false l r = false -> 1 <= T -> lower_op op ->
  share l r = true.
Proof. exact overlap_filter_pair_share. Qed.
Theorem C14_common_token_tables :
  forall p all l r,
  (prefix_cand p (order all l) (order all r) = Some true -> share l r = true) /\
  (forall v, pos_cand p (order all l) (order all r) = Some v -> 0 < v -> share l r = true).
Proof. intros p all l r. split; [apply prefix_cand_share_tokens | apply pos_cand_share_tokens]. Qed.
Print Assumptions C14_common_token_tables.

(* PositionFilter candidates are PrefixFilter candidates and pass the SizeFilter window *)
Theorem C14_refine_prefix :
  forall p x y v, pos_cand p x y = Some v -> 0 < v -> prefix_cand p x y = Some true.
Proof. exact pos_cand_prefix_cand. Qed.
Print Assumptions C14_refine_prefix.
Theorem C14_refine_size_jcd :
  forall m, F5_stmt m -> forall t q x y v, env_t t = true -> len y < size_bound ->
  pos_cand (setp m t q) x y = Some v -> 0 < v -> size_cand (setp m t q) (len x) (len y) = true.
Proof. exact pos_cand_size_cand_set. Qed.
Theorem C14_refine_size_edit_distance :
  forall q tau x y v, 0 <= tau -> pos_cand (FilterRefine.edp q tau) x y = Some v -> 0 < v ->
  size_cand (FilterRefine.edp q tau) (len x) (len y) = true.
Proof. exact pos_cand_size_cand_ed. Qed.
Print Assumptions C14_refine_size_edit_distance.

(* API level: on the same tables and chunking, PositionFilter.filter_tables lists a subset of what
   PrefixFilter and SizeFilter list *)
From SSJ Require Import MetaSpec ApiFilterBase ApiFilterTables ApiFilterRefine ApiFilterClosed.
Theorem C14_api_refine :
  forall c m o1 o2 o3, thr3 c m ->
  api_join (with_entry c (EFilter KPosition m)) = Some o1 -> api_join (with_entry c (EFilter KPrefix m)) = Some o2 ->
  api_join (with_entry c (EFilter KSize m)) = Some o3 -> refine_filters_spec o1 o2 o3 = true.
Proof. exact C14_refine_filters. Qed.
Print Assumptions C14_api_refine.

(* API level: every pair filter_tables of Prefix / Position lists shares a token (sound_spec) *)
Theorem C14_api_common_token :
  forall c k m, j_entry c = EFilter k m -> k3 k -> size_ok c -> keys_ok c ->
  forall out, api_join c = Some out -> sound_spec c out = true /\ missing_spec c out = true /\ empty_spec c out = true.
Proof. exact C14_filter_tables_sound. Qed.

(* tie of the token order to the source: utils/token_ordering.py, as REGENERATED on this run,
   computes exactly the ranks of Model/TokenOrdering.v that the theorems above are about *)
From SSJ Require Import TokenOrderingGen OrderingGenFacts.
Theorem token_order_of_source_is_model :
  forall tables attr_list smt tokenize tk toks,
  tokenizes tables attr_list tokenize tk ->
  order_using_token_ordering (PList (map PInt toks))
    (gen_token_ordering_for_tables (PList (map PList tables)) attr_list smt tokenize)
  = PList (map PInt (order (tab_tokens tk 0 tables) toks)).
Proof. exact order_using_gen_tables. Qed.
Theorem pair_token_order_of_source_is_model :
  forall lists toks,
  order_using_token_ordering (PList (map PInt toks))
    (gen_token_ordering_for_lists (PList (map (fun l => PList (map PInt l)) lists)))
  = PList (map PInt (order (List.concat lists) toks)).
Proof. exact order_using_gen_lists. Qed.

(* tie of candidate generation to the source: index/position_index.py (build) and
   filter/position_filter.py (find_candidates), as REGENERATED on this run (Gen/IndexGen.v), compute
   for EVERY indexed row c and probe Y exactly the pairwise model's verdict pos_cand -- the
   inverted index over all rows, the eager overlap-threshold cache, the clamping of the size
   window to [min_length, max_length] and the early exit on an empty index are all immaterial *)
From SSJ Require Import IndexGen IndexPyFacts IndexBuildFacts IndexProbeFacts IndexRefine.
Theorem position_index_code_refines_model :
  forall (p : fparams) (attr ordering : pyval) (tokenize : pyval -> pyval) (rows : list pyval)
         (ordered : list (list Z)) (ce ct : bool),
  Forall2 (row_ok attr ordering tokenize) rows ordered ->
  (forall x, In x ordered -> exists kx, g_pl p (len x) = PInt kx) ->
  forall (Y : list Z) (lb ub k : Z),
  g_lb p (len Y) = PInt lb -> g_ub p (len Y) = PInt ub -> g_pl p (len Y) = PInt k ->
  (forall s, 0 <= s -> lb <= s <= ub -> num_of (g_ot p s (len Y)) <> None) ->
  exists (index size_cache : pyval) (mn mx : Z) (ret cands : pyval),
    position_index_build (PList rows) attr (PStr (fm p)) (ft p) ordering (PBool ce) (PBool ct)
                         (PInt (fq p)) tokenize
    = PTuple [index; size_cache; PInt mn; PInt mx; ret] /\
    position_filter_find_candidates (PStr (fm p)) (ft p) (pints Y) index size_cache (PInt mn) (PInt mx)
                                    (PInt (fq p)) = cands /\
    forall c : nat, (c < List.length ordered)%nat ->
      (0 < dict_val cands (Z.of_nat c) <-> exists v, pos_cand p (nth c ordered []) Y = Some v /\ 0 < v).
Proof. exact position_candidate_positive. Qed.
Print Assumptions position_index_code_refines_model.
From SSJ Require Import IndexPrefix IndexSize.
Theorem prefix_index_code_refines_model :
  forall (p : fparams) (attr ordering : pyval) (tokenize : pyval -> pyval) (rows : list pyval)
         (ordered : list (list Z)) (ce : bool) (Y : list Z) (k : Z),
  Forall2 (row_ok attr ordering tokenize) rows ordered ->
  (forall x, In x ordered -> exists kx, g_pl p (len x) = PInt kx) ->
  g_pl p (len Y) = PInt k ->
  exists (index ret : pyval) (d : sset),
    prefix_index_build (PList rows) attr (PStr (fm p)) (ft p) ordering (PBool ce) (PInt (fq p)) tokenize
    = PTuple [index; ret] /\
    prefix_filter_find_candidates (PStr (fm p)) (ft p) (pints Y) index (PInt (fq p)) = srepr d /\
    NoDup (map fst d) /\
    forall c : nat, (c < List.length ordered)%nat -> prefix_cand p (nth c ordered []) Y = Some (smem d (Z.of_nat c)).
Proof. exact prefix_find_candidates_refines. Qed.
Theorem size_index_code_refines_model :
  forall (p : fparams) (attr : pyval) (tokenize : pyval -> pyval) (rows : list pyval)
         (ns : list Z) (ce : bool) (ny lb ub : Z),
  Forall2 (zrow_ok attr tokenize) rows ns -> (forall n, In n ns -> 0 <= n) ->
  g_lb p ny = PInt lb -> g_ub p ny = PInt ub ->
  exists (index : pyval) (mn mx : Z) (ret : pyval) (d : sset),
    size_index_build (PList rows) attr (PBool ce) tokenize = PTuple [index; PInt mn; PInt mx; ret] /\
    size_filter_find_candidates (PStr (fm p)) (ft p) (PInt ny) index (PInt mn) (PInt mx) = srepr d /\
    forall c : nat, (c < List.length ns)%nat -> smem d (Z.of_nat c) = size_cand p (nth c ns 0) ny.
Proof. exact size_find_candidates_refines. Qed.
Print Assumptions size_index_code_refines_model.

(* tie of the pair-level path to the source: filter_pair of SizeFilter / PrefixFilter /
   PositionFilter / OverlapFilter, as REGENERATED on this run (Gen/FilterPairGen.v: missing-value
   test, tokenization, pair-level token ordering, prefix lengths, position loop, allow_empty /
   allow_missing handling, comp_op lookup), returns exactly the verdict of the hand model
   (Spec/FilterSpec.v model_filter_pair) -- no state may be kept on the filter object *)
From SSJ Require Import FilterPairGen FilterPairRefineBase FilterPairRefine FilterPairRefinePos FilterPairRefineSpec FilterPairRefineArith.
Theorem generated_filter_pair_refines_model :
  ltac:(let t := type of filter_pair_gen_refines_model in exact t).
Proof. exact filter_pair_gen_refines_model. Qed.
Check generated_filter_pair_refines_model.
Print Assumptions generated_filter_pair_refines_model.
Theorem generated_position_filter_pair_jcd :
  ltac:(let t := type of position_filter_pair_gen_jcd in exact t).
Proof. exact position_filter_pair_gen_jcd. Qed.
Print Assumptions generated_position_filter_pair_jcd.

(* ---- tie: the per-chunk functions generated from the source (Gen/JoinGen.v, regenerated every
   run) produce, up to a permutation, exactly the rows of the pairwise model + projection *)
From SSJ Require Import JoinGen SplitRefineBase SplitRefineOverlapFilter SplitRefineOvc SplitRefineFilterBase SplitRefineFilterSize SplitRefineFilterPrefix SplitRefineFilterPosition SplitRefineFilters SplitRefineEd SplitRefineProj SplitRefineProjAll SplitRefineOvcArith.
Theorem generated_size_filter_split_refines_model :
  ltac:(let t := type of size_filter_tables_split_rows_refines_proj in exact t).
Proof. exact size_filter_tables_split_rows_refines_proj. Qed.
Print Assumptions generated_size_filter_split_refines_model.
Theorem generated_prefix_filter_split_refines_model :
  ltac:(let t := type of prefix_filter_tables_split_rows_refines_proj in exact t).
Proof. exact prefix_filter_tables_split_rows_refines_proj. Qed.
Print Assumptions generated_prefix_filter_split_refines_model.
Theorem generated_position_filter_split_refines_model :
  ltac:(let t := type of position_filter_tables_split_rows_refines_proj in exact t).
Proof. exact position_filter_tables_split_rows_refines_proj. Qed.
Print Assumptions generated_position_filter_split_refines_model.

(* ---- tie: the remaining public wrappers as REGENERATED from the source on this run (Gen/WrapperGen.v,
   Gen/FilterWrapperGen.v over Model/Frame.v): overlap_coefficient_join_py, edit_distance_join_py,
   overlap_join_py and the filters' filter_tables compute header_spec + the rows of api_join (entry
   EJoin / EFilter / EOverlapFilter) through the declared projection, per chunk up to order *)
From SSJ Require Import Frame WrapperGen FilterWrapperGen WrapperBody WrapperApiLink WrapperEnd WrapperRefineOvc WrapperRefineEd FilterWrapperRefineOverlap FilterWrapperRefine FilterWrapperRefineClosed.
Theorem generated_filter_tables_wrappers_jcd :
  ltac:(let t := type of filter_tables_rows_end_to_end_jcd in exact t).
Proof. exact filter_tables_rows_end_to_end_jcd. Qed.
Print Assumptions generated_filter_tables_wrappers_jcd.
Theorem generated_filter_tables_wrappers_overlap :
  ltac:(let t := type of filter_tables_rows_end_to_end_overlap in exact t).
Proof. exact filter_tables_rows_end_to_end_overlap. Qed.
Print Assumptions generated_filter_tables_wrappers_overlap.
Theorem generated_filter_tables_wrappers_ed :
  ltac:(let t := type of filter_tables_rows_end_to_end_ed in exact t).
Proof. exact filter_tables_rows_end_to_end_ed. Qed.
Print Assumptions generated_filter_tables_wrappers_ed.


(* ---- float threshold under EDIT_DISTANCE (source repair: int(floor(threshold)) in the formulas):
   dropped iff the counts differ by more than f, Python's exact comparison  |a - b| > f *)
From SSJ Require Import ThresholdNorm ThresholdNormFloat.
Theorem C14_size_edit_distance_float :
  forall (q : Z) (f : f64), f_is_finite f = true -> forall (a b : Z) (ae : bool), ~ (a = 0 /\ b = 0) ->
  (size_filter_pair (edpf q f) ae a b = true <-> py_truth (py_gt (PInt (Z.abs (a - b))) (PFloat f)) = true).
Proof. exact F4_ED_float. Qed.
Print Assumptions C14_size_edit_distance_float.
