(* C14 -- filters prune what their technique promises to prune. *)
From Coq Require Import ZArith Bool List String Reals.
From SSJ Require Import F64 PyNum FilterUtilsGen TokenOrdering Measures Filters Joins Api JoinSpec
     FilterSpec ArithSpec F64Spec OverlapFacts FilterRefine ArithTight.
Import ListNotations.
Open Scope string_scope.
Open Scope Z_scope.

(* SizeFilter decides on the two token counts alone *)
Theorem C14_size_fn :
  forall p op op' ae am am' ls (l : list Z) rs (r : list Z) ls' (l' : list Z) rs' (r' : list Z),
  List.length l = List.length l' -> List.length r = List.length r' ->
  model_filter_pair (size_case p op ae am ls l rs r) =
  model_filter_pair (size_case p op' ae am' ls' l' rs' r').
Proof. exact FilterRefine.C14_size_fn. Qed.
Print Assumptions C14_size_fn.

(* tight: counts inside the window leave a best attainable similarity >= t - 1e-4 (reals), for
   every double threshold in the envelope and all counts < 2^20 ... *)
Theorem C14_size_tight_jaccard : F4_stmt "JACCARD" bestJ.
Proof. exact F4_J. Qed.
Print Assumptions C14_size_tight_jaccard.
Theorem C14_size_tight_cosine : F4_stmt "COSINE" bestC.
Proof. exact F4_C. Qed.
Theorem C14_size_tight_dice : F4_stmt "DICE" bestD.
Proof. exact F4_D. Qed.

(* ... i.e. every pair whose counts put the best attainable similarity more than 1e-4 below the
   threshold is dropped *)
Theorem C14_size_drops_jaccard :
  forall t q ae a b, env_t t = true -> 1 <= a < size_bound -> 1 <= b < size_bound ->
  (bestJ a b < FR t - 1 / 10000)%R -> size_filter_pair (setp "JACCARD" t q) ae a b = true.
Proof. exact F4_drop_J. Qed.
Print Assumptions C14_size_drops_jaccard.
Theorem C14_size_drops_cosine :
  forall t q ae a b, env_t t = true -> 1 <= a < size_bound -> 1 <= b < size_bound ->
  (bestC a b < FR t - 1 / 10000)%R -> size_filter_pair (setp "COSINE" t q) ae a b = true.
Proof. exact F4_drop_C. Qed.
Theorem C14_size_drops_dice :
  forall t q ae a b, env_t t = true -> 1 <= a < size_bound -> 1 <= b < size_bound ->
  (bestD a b < FR t - 1 / 10000)%R -> size_filter_pair (setp "DICE" t q) ae a b = true.
Proof. exact F4_drop_D. Qed.

(* edit distance: dropped iff the counts differ by more than the threshold *)
Theorem C14_size_edit_distance :
  forall (q tau a b : Z) (ae : bool), ~ (a = 0 /\ b = 0) ->
  (size_filter_pair (FilterRefine.edp q tau) ae a b = true <-> tau < Z.abs (a - b)).
Proof. exact F4_ED. Qed.
Print Assumptions C14_size_edit_distance.

(* Prefix / Position / Overlap filters keep no pair without a common token (any parameters) *)
Theorem C14_common_token_prefix :
  forall p ae l r, prefix_filter_pair p ae l r = Some false -> l <> [] \/ r <> [] -> share l r = true.
Proof. exact prefix_filter_pair_share. Qed.
Theorem C14_common_token_position :
  forall p ae l r, position_filter_pair p ae l r = Some false -> l <> [] \/ r <> [] -> share l r = true.
Proof. exact position_filter_pair_share. Qed.
Theorem C14_common_token_overlap :
  forall op T l r, overlap_filter_pair op (PInt T) false false l r = false -> 1 <= T -> lower_op op ->
  share l r = true.
Proof. exact overlap_filter_pair_share. Qed.
Theorem C14_common_token_tables :
  forall p all l r,
  (prefix_cand p (order all l) (order all r) = Some true -> share l r = true) /\
  (forall v, pos_cand p (order all l) (order all r) = Some v -> 0 < v -> share l r = true).
Proof. intros p all l r. split; [apply prefix_cand_share_tokens | apply pos_cand_share_tokens]. Qed.
Print Assumptions C14_common_token_tables.

(* PositionFilter candidates are PrefixFilter candidates and pass the SizeFilter window *)
Theorem C14_refine_prefix :
  forall p x y v, pos_cand p x y = Some v -> 0 < v -> prefix_cand p x y = Some true.
Proof. exact pos_cand_prefix_cand. Qed.
Print Assumptions C14_refine_prefix.
Theorem C14_refine_size_jcd :
  forall m, F5_stmt m -> forall t q x y v, env_t t = true -> len y < size_bound ->
  pos_cand (setp m t q) x y = Some v -> 0 < v -> size_cand (setp m t q) (len x) (len y) = true.
Proof. exact pos_cand_size_cand_set. Qed.
Theorem C14_refine_size_edit_distance :
  forall q tau x y v, 0 <= tau -> pos_cand (FilterRefine.edp q tau) x y = Some v -> 0 < v ->
  size_cand (FilterRefine.edp q tau) (len x) (len y) = true.
Proof. exact pos_cand_size_cand_ed. Qed.
Print Assumptions C14_refine_size_edit_distance.

(* API level: on the same tables and chunking, PositionFilter.filter_tables lists a subset of what
   PrefixFilter and SizeFilter list *)
From SSJ Require Import MetaSpec ApiFilterBase ApiFilterTables ApiFilterRefine ApiFilterClosed.
Theorem C14_api_refine :
  forall c m o1 o2 o3, thr3 c m ->
  api_join (with_entry c (EFilter KPosition m)) = Some o1 -> api_join (with_entry c (EFilter KPrefix m)) = Some o2 ->
  api_join (with_entry c (EFilter KSize m)) = Some o3 -> refine_filters_spec o1 o2 o3 = true.
Proof. exact C14_refine_filters. Qed.
Print Assumptions C14_api_refine.

(* API level: every pair filter_tables of Prefix / Position lists shares a token (sound_spec) *)
Theorem C14_api_common_token :
  forall c k m, j_entry c = EFilter k m -> k3 k -> size_ok c -> keys_ok c ->
  forall out, api_join c = Some out -> sound_spec c out = true /\ missing_spec c out = true /\ empty_spec c out = true.
Proof. exact C14_filter_tables_sound. Qed.

(* tie of the token order to the source: utils/token_ordering.py, as REGENERATED on this run,
   computes exactly the ranks of Model/TokenOrdering.v that the theorems above are about *)
From SSJ Require Import TokenOrderingGen OrderingGenFacts.
Theorem token_order_of_source_is_model :
  forall tables attr_list smt tokenize tk toks,
  tokenizes tables attr_list tokenize tk ->
  order_using_token_ordering (PList (map PInt toks))
    (gen_token_ordering_for_tables (PList (map PList tables)) attr_list smt tokenize)
  = PList (map PInt (order (tab_tokens tk 0 tables) toks)).
Proof. exact order_using_gen_tables. Qed.
Theorem pair_token_order_of_source_is_model :
  forall lists toks,
  order_using_token_ordering (PList (map PInt toks))
    (gen_token_ordering_for_lists (PList (map (fun l => PList (map PInt l)) lists)))
  = PList (map PInt (order (List.concat lists) toks)).
Proof. exact order_using_gen_lists. Qed.
