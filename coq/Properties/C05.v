(* C05 -- apply_matcher keeps exactly the candidate rows that satisfy the predicate.
   The similarity function, its value type and the tokenizer are ARBITRARY (section variables of
   Model/Matcher.v: `sim` is sim_function(tokenize l, tokenize r) on value ids).            *)
From Coq Require Import ZArith Bool List String.
From SSJ Require Import F64 PyNum HelperGen Filters Api Matcher MatcherFacts.
Import ListNotations.
Open Scope string_scope.
Open Scope Z_scope.

(* the result is the candidate set filtered IN ORDER, each kept row mapped to its output row *)
Theorem C05_rows :
  forall sim t op allow_missing with_score (L R : list mrow) (cand : list crow),
  matcher_split sim t op allow_missing with_score L R cand =
  map (out sim with_score L R) (filter (keep sim t op allow_missing L R) cand).
Proof. exact matcher_rows. Qed.
Print Assumptions C05_rows.

(* a row with both values present is kept iff comp_op holds for the similarity, carries its
   original _id and keys, and the score sim_function returned *)
Theorem C05_present :
  forall sim t op allow_missing with_score (L R : list mrow) id lk rk a b,
  lookup lk L = Some (Some a) -> lookup rk R = Some (Some b) ->
  keep sim t op allow_missing L R (id, lk, rk) = cmp_op op (sim a b) t /\
  out sim with_score L R (id, lk, rk) = (id, lk, rk, if with_score then sim a b else PNone).
Proof. exact keep_out_present. Qed.
Print Assumptions C05_present.

(* a row with a missing value on either side is kept iff allow_missing, with score NaN *)
Theorem C05_missing :
  forall sim t op allow_missing with_score (L R : list mrow) id lk rk lv rv,
  lookup lk L = Some lv -> lookup rk R = Some rv -> lv = None \/ rv = None ->
  keep sim t op allow_missing L R (id, lk, rk) = allow_missing /\
  out sim with_score L R (id, lk, rk) = (id, lk, rk, PNone).
Proof. exact keep_out_missing. Qed.
Print Assumptions C05_missing.

(* the six operators are Python's six comparisons *)
Theorem C05_operators : forall a b,
  cmp_op ">=" a b = py_truth (py_ge a b) /\ cmp_op ">" a b = py_truth (py_gt a b) /\
  cmp_op "<=" a b = py_truth (py_le a b) /\ cmp_op "<" a b = py_truth (py_lt a b) /\
  cmp_op "=" a b = py_truth (py_eq a b) /\ cmp_op "!=" a b = py_truth (py_ne a b).
Proof. exact cmp_op_six. Qed.
Print Assumptions C05_operators.

(* key lookup through the dictionaries built from the tables is by key, given unique keys *)
Theorem C05_lookup :
  forall (T : list mrow) k v, NoDup (map fst T) -> (lookup k T = Some v <-> In (k, v) T).
Proof. exact lookup_spec. Qed.
Print Assumptions C05_lookup.

(* the outcome does not depend on n_jobs: for every n_jobs / cpu count the model returns the
   unchunked, order-preserving result (uses the partition theorem about the GENERATED split_table) *)
From SSJ Require Import MatcherChunks.
Theorem C05_njobs :
  forall sim t op am ws L R njobs cpus cand, Z.of_nat (List.length cand) < 2^31 ->
  apply_matcher_model sim t op am ws L R njobs cpus cand = Some (matcher_split sim t op am ws L R cand).
Proof. exact apply_matcher_njobs_b. Qed.
Print Assumptions C05_njobs.

(* ---- tie: matcher/apply_matcher.py and Filter.filter_candset as REGENERATED from the source on this run
   (Gen/MatcherGen.v over Model/Frame.v) compute exactly apply_matcher_model / filter_candset_model
   (Model/Matcher.v) through the declared projection: key->row dictionaries, token cache, empty-candset
   shortcut, split_table on frames, per-chunk loop, concat *)
From SSJ Require Import Frame MatcherGen MatcherRefineBase MatcherRefineLoop MatcherRefineCandLoop MatcherRefineSplit MatcherRefinePar MatcherRefineChunks MatcherRefine MatcherRefineBridge MatcherRefineEnd MatcherRefineEndCand.
Theorem generated_apply_matcher_refines_model :
  ltac:(let t := type of apply_matcher_rows_end_to_end in exact t).
Proof. exact apply_matcher_rows_end_to_end. Qed.
Print Assumptions generated_apply_matcher_refines_model.

(* ==== the property stated DIRECTLY ABOUT THE CODE: the function regenerated from the Python source on this
   run (Gen/WrapperGen.v, Gen/FilterWrapperGen.v, Gen/MatcherGen.v), applied to any well-formed frames,
   returns a frame with header header_spec whose rows, read at key level (kview: left key, right key,
   score), satisfy complete_spec /\ sound_spec /\ missing_spec /\ empty_spec (Spec/JoinSpec.v, MetaSpec.v)
   -- composition of `generated code refines api_join` with `api_join satisfies the specs` *)
From SSJ Require Import CodeLevelBase CodeLevelJoins CodeLevelJoins2 CodeLevelFilters CodeLevelMatcher CodeLevelTight.
Theorem C05_code_apply_matcher :
  ltac:(let t := type of C05_code_apply_matcher_rows in exact t).
Proof. exact C05_code_apply_matcher_rows. Qed.
Print Assumptions C05_code_apply_matcher.
Theorem C05_code_keep_predicate :
  ltac:(let t := type of C05_code_keep in exact t).
Proof. exact C05_code_keep. Qed.
Print Assumptions C05_code_keep_predicate.
