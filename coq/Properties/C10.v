(* C10 -- results depend only on the rows and parameters, not on schedule or presentation. *)
From Coq Require Import ZArith Bool List String Permutation.
From SSJ Require Import F64 PyNum HelperGen TokenOrdering Filters Joins Api Matcher
     CoreLiftBase CoreLift ApiLift MatcherFacts SplitArith SplitFacts PartitionInst MatcherChunks ApiChunks EditJoin.
Import ListNotations.
Open Scope string_scope.
Open Scope Z_scope.

(* split_table (GENERATED text, binary64 arithmetic 1.0/k*n, round(i*s)) is a partition: for every
   table length < 2^31 and every number of splits 1 <= k < 2^31 the chunks, concatenated, are the
   table -- no row lost or duplicated at a chunk boundary *)
Theorem C10_split_partition :
  forall (A : Type) (l : list A) (k : Z), 1 <= k < 2^31 -> Z.of_nat (List.length l) < 2^31 ->
  bounds_of (split_bounds (PInt (Z.of_nat (List.length l))) (PInt k)) = Some (split_bs k (Z.of_nat (List.length l))) /\
  List.concat (map (slice_nat l) (split_bs k (Z.of_nat (List.length l)))) = l /\
  offsets_from 0 (map (fun ab => (fst ab, slice_nat l ab)) (split_bs k (Z.of_nat (List.length l)))) /\
  List.length (split_bs k (Z.of_nat (List.length l))) = Z.to_nat k.
Proof. exact split_partition. Qed.
Print Assumptions C10_split_partition.

(* ... for EVERY n_jobs (1, several, more than rows, zero, negative) and cpu count, after
   get_num_processes_to_launch (GENERATED) and min(n_jobs, rows) *)
Theorem C10_chunks_partition :
  forall (A : Type) (njobs cpus : Z) (Rp : list A), Z.of_nat (List.length Rp) < 2^31 ->
  exists chs, chunks_of njobs cpus Rp = Some chs /\ List.concat (map snd chs) = Rp /\ offsets_from 0 chs /\
              List.length chs = Z.to_nat (Z.max 1 (nchunks njobs cpus (List.length Rp))).
Proof. exact chunks_of_partition. Qed.
Print Assumptions C10_chunks_partition.

(* apply_matcher and filter_candset: the SAME result (order included) for every n_jobs *)
Theorem C10_apply_matcher :
  forall sim t op am ws L R n1 c1 n2 c2 cand, Z.of_nat (List.length cand) < 2^31 ->
  apply_matcher_model sim t op am ws L R n1 c1 cand = apply_matcher_model sim t op am ws L R n2 c2 cand.
Proof. exact apply_matcher_njobs_indep_b. Qed.
Theorem C10_filter_candset :
  forall dropped n1 c1 n2 c2 cand, Z.of_nat (List.length cand) < 2^31 ->
  filter_candset_model dropped n1 c1 cand = filter_candset_model dropped n2 c2 cand.
Proof. exact filter_candset_njobs_indep_b. Qed.
Print Assumptions C10_filter_candset.

(* joins / filter_tables whose per-chunk core does not look at the chunk's token order: same
   multiset of rows (operm = both fail or Permutation) for every n_jobs and every row order *)
Theorem C10_overlap_join_njobs :
  forall c n1 c1 n2 c2, j_entry c = EJoin "OVERLAP" -> Rbound c ->
  operm (api_join (with_njobs c n1 c1)) (api_join (with_njobs c n2 c2)).
Proof. exact ApiChunks.C10_overlap_join_njobs. Qed.
Theorem C10_overlap_coefficient_join_njobs :
  forall c n1 c1 n2 c2, j_entry c = EJoin "OVERLAP_COEFFICIENT" -> Rbound c ->
  operm (api_join (with_njobs c n1 c1)) (api_join (with_njobs c n2 c2)).
Proof. exact ApiChunks.C10_ovc_join_njobs. Qed.
Theorem C10_overlap_filter_njobs :
  forall c n1 c1 n2 c2, j_entry c = EOverlapFilter -> Rbound c ->
  operm (api_join (with_njobs c n1 c1)) (api_join (with_njobs c n2 c2)).
Proof. exact ApiChunks.C10_overlap_filter_njobs. Qed.
Theorem C10_size_filter_njobs :
  forall c m n1 c1 n2 c2, j_entry c = EFilter KSize m -> Rbound c ->
  operm (api_join (with_njobs c n1 c1)) (api_join (with_njobs c n2 c2)).
Proof. exact ApiChunks.C10_size_filter_njobs. Qed.
Print Assumptions C10_size_filter_njobs.
Theorem C10_overlap_join_rows :
  forall c L' R', j_entry c = EJoin "OVERLAP" -> Rbound c ->
  Permutation (j_L c) L' -> Permutation (j_R c) R' -> operm (api_join c) (api_join (with_rows c L' R')).
Proof. exact ApiChunks.C10_overlap_join_rows. Qed.
Theorem C10_size_filter_rows :
  forall c m L' R', j_entry c = EFilter KSize m -> Rbound c ->
  Permutation (j_L c) L' -> Permutation (j_R c) R' -> operm (api_join c) (api_join (with_rows c L' R')).
Proof. exact ApiChunks.C10_size_filter_rows. Qed.

(* edit-distance join: the verification step makes the result independent of the per-chunk token
   order (given the q-gram count filter for the rows, proved of q-gram bags in C03) *)
Theorem C10_edit_distance_join_njobs :
  forall c tau n1 c1 n2 c2, ed_case c tau -> cf_rows (j_q c) (j_L c) (j_R c) -> Rbound c ->
  operm (api_join (with_njobs c n1 c1)) (api_join (with_njobs c n2 c2)).
Proof. exact C10_ed_join_njobs. Qed.
Theorem C10_edit_distance_join_rows :
  forall c tau L' R', ed_case c tau -> cf_rows (j_q c) (j_L c) (j_R c) -> Rbound c ->
  Permutation (j_L c) L' -> Permutation (j_R c) R' -> operm (api_join c) (api_join (with_rows c L' R')).
Proof. exact C10_ed_join_rows. Qed.
Print Assumptions C10_edit_distance_join_rows.

(* the token order depends on the multiset of tokens only, not on the order of the rows *)
Theorem C10_order_permutation_invariant :
  forall all all' toks, Permutation all all' -> order all toks = order all' toks.
Proof. exact order_perm. Qed.
Print Assumptions C10_order_permutation_invariant.

(* the full-strength statement for JACCARD / COSINE / DICE joins is FALSE of the faithful model
   (known finding gray-pair-njobs): a gray pair (raw score 1/6 < t = 0.1667 <= rounded score) is
   returned with n_jobs = 1 and not with n_jobs = 3 *)
Definition gray_witness (nj : Z) : jcase :=
  {| j_entry := EJoin "JACCARD"; j_t := PFloat (mkF 6006000463061293 (-55)); j_q := 0; j_op := ">=";
     j_allow_empty := true; j_allow_missing := false; j_with_score := true; j_njobs := nj; j_cpus := 16;
     j_L := [(1, Some ([], [1; 2]))];
     j_R := [(1, Some ([], [1; 3; 4; 5; 6])); (2, Some ([], [2; 6])); (3, Some ([], [2; 6; 7]))] |}.
Definition gray_out1 := Eval vm_compute in api_join (gray_witness 1).
Definition gray_out3 := Eval vm_compute in api_join (gray_witness 3).
Theorem C10_jcd_njobs_refuted :
  api_join (gray_witness 1) = gray_out1 /\ api_join (gray_witness 3) = gray_out3 /\
  match gray_out1, gray_out3 with
  | Some o1, Some o3 => multiset_eqb o1 o3 = false /\ List.length o1 = 3%nat /\ List.length o3 = 2%nat
  | _, _ => False
  end.
Proof. split; [vm_compute; reflexivity|]. split; [vm_compute; reflexivity|]. vm_compute. repeat split. Qed.
Print Assumptions C10_jcd_njobs_refuted.

(* token_ordering.py itself (GENERATED code, regenerated every run) computes exactly the model's
   ranks: frequency first, then the token -- no dependence on row order, dict order or hashing *)
From SSJ Require Import TokenOrderingGen OrderingGenFacts.
Theorem C10_generated_token_order_is_model :
  forall lists toks,
  order_using_token_ordering (PList (map PInt toks))
    (gen_token_ordering_for_lists (PList (map (fun l => PList (map PInt l)) lists)))
  = PList (map PInt (order (List.concat lists) toks)).
Proof. exact order_using_gen_lists. Qed.
Print Assumptions C10_generated_token_order_is_model.
Theorem C10_generated_table_token_order_is_model :
  forall tables attr_list smt tokenize tk toks,
  tokenizes tables attr_list tokenize tk ->
  order_using_token_ordering (PList (map PInt toks))
    (gen_token_ordering_for_tables (PList (map PList tables)) attr_list smt tokenize)
  = PList (map PInt (order (tab_tokens tk 0 tables) toks)).
Proof. exact order_using_gen_tables. Qed.
Print Assumptions C10_generated_table_token_order_is_model.

(* the five set-similarity joins at API level, NO hypothesis about outputs: any two n_jobs / cpu
   counts give the same multiset of rows -- exactly for overlap / overlap-coefficient, with gray
   pairs set aside for Jaccard / cosine / Dice; same for permuted rows *)
From SSJ Require Import JoinSpec MetaSpec Laws ApiJoinSpec ModelScores ModelLaws.
Theorem C10_set_joins_njobs :
  forall c n1 k1 n2 k2 o1 o2,
  valid_join_case c -> j_with_score c = true -> 1 <= k1 -> 1 <= k2 ->
  api_join (with_njobs c n1 k1) = Some o1 -> api_join (with_njobs c n2 k2) = Some o2 ->
  same_rows_nongray_spec c o1 o2 = true /\ (no_gray_case c = true -> same_rows_spec c o1 o2 = true).
Proof. exact C10_model_njobs. Qed.
Print Assumptions C10_set_joins_njobs.
Theorem C10_set_joins_rows :
  forall c L' R' n k o1 o2,
  valid_join_case c -> j_with_score c = true -> 1 <= k ->
  Permutation (j_L c) L' -> Permutation (j_R c) R' ->
  api_join c = Some o1 -> api_join (with_rows (with_njobs c n k) L' R') = Some o2 ->
  same_rows_nongray_spec c o1 o2 = true /\ (no_gray_case c = true -> same_rows_spec c o1 o2 = true).
Proof. exact C10_model_rows. Qed.
Print Assumptions C10_set_joins_rows.

(* tie of candidate generation to the source: index/position_index.py (build) and
   filter/position_filter.py (find_candidates), as REGENERATED on this run (Gen/IndexGen.v), compute
   for EVERY indexed row c and probe Y exactly the pairwise model's verdict pos_cand -- the
   inverted index over all rows, the eager overlap-threshold cache, the clamping of the size
   window to [min_length, max_length] and the early exit on an empty index are all immaterial *)
From SSJ Require Import FilterUtilsGen Filters IndexGen IndexPyFacts IndexBuildFacts IndexProbeFacts IndexRefine.
Theorem position_index_code_refines_model :
  forall (p : fparams) (attr ordering : pyval) (tokenize : pyval -> pyval) (rows : list pyval)
         (ordered : list (list Z)) (ce ct : bool),
  Forall2 (row_ok attr ordering tokenize) rows ordered ->
  (forall x, In x ordered -> exists kx, g_pl p (len x) = PInt kx) ->
  forall (Y : list Z) (lb ub k : Z),
  g_lb p (len Y) = PInt lb -> g_ub p (len Y) = PInt ub -> g_pl p (len Y) = PInt k ->
  (forall s, 0 <= s -> lb <= s <= ub -> num_of (g_ot p s (len Y)) <> None) ->
  exists (index size_cache : pyval) (mn mx : Z) (ret cands : pyval),
    position_index_build (PList rows) attr (PStr (fm p)) (ft p) ordering (PBool ce) (PBool ct)
                         (PInt (fq p)) tokenize
    = PTuple [index; size_cache; PInt mn; PInt mx; ret] /\
    position_filter_find_candidates (PStr (fm p)) (ft p) (pints Y) index size_cache (PInt mn) (PInt mx)
                                    (PInt (fq p)) = cands /\
    forall c : nat, (c < List.length ordered)%nat ->
      (0 < dict_val cands (Z.of_nat c) <-> exists v, pos_cand p (nth c ordered []) Y = Some v /\ 0 < v).
Proof. exact position_candidate_positive. Qed.
Print Assumptions position_index_code_refines_model.

(* ---- tie: the public wrappers jaccard_join_py / cosine_join_py / dice_join_py as REGENERATED from the
   source on this run (Gen/WrapperGen.v: DataFrames as values of Model/Frame.v, validators and the
   tokenizer flag handled by the shape checks of harness/translate/wrappers.py) compute -- through
   dropna / projection / split_table / the per-chunk loop / concat / missing-value pairs / _id --
   a frame whose header is header_spec and whose rows are, up to the order within a chunk, the rows
   of api_join with the declared projection *)
From SSJ Require Import Frame WrapperGen WrapperRefineFrame WrapperRefineChunks WrapperRefineMissing WrapperRefineCore WrapperRefine WrapperRefineClosed WrapperRefineApi WrapperRefineEnd.
Theorem generated_jaccard_wrapper_refines_model :
  ltac:(let t := type of jaccard_join_rows_end_to_end in exact t).
Proof. exact jaccard_join_rows_end_to_end. Qed.
Print Assumptions generated_jaccard_wrapper_refines_model.
Theorem generated_cosine_wrapper_refines_model :
  ltac:(let t := type of cosine_join_rows_end_to_end in exact t).
Proof. exact cosine_join_rows_end_to_end. Qed.
Print Assumptions generated_cosine_wrapper_refines_model.
Theorem generated_dice_wrapper_refines_model :
  ltac:(let t := type of dice_join_rows_end_to_end in exact t).
Proof. exact dice_join_rows_end_to_end. Qed.
Print Assumptions generated_dice_wrapper_refines_model.
Theorem generated_split_table_code_chunks :
  ltac:(let t := type of split_table_chunks in exact t).
Proof. exact split_table_chunks. Qed.
Print Assumptions generated_split_table_code_chunks.

(* the relation evaluated on the implementation for Prefix / Position / Suffix filter_tables across
   schedules and presentations: both results list a REQUIRED pair or neither does; `required` is the
   guard of complete_spec, so two results related this way are complete together or not at all *)
From SSJ Require Import VariantSpec VariantFacts.
Theorem C10_same_required_transfers_completeness :
  forall c o0 ov, same_required_spec c o0 ov = true -> complete_spec c o0 = complete_spec c ov.
Proof. exact same_required_complete. Qed.
Print Assumptions C10_same_required_transfers_completeness.
Theorem C10_required_is_the_guard_of_complete_spec :
  forall c obs, lists_required c obs = complete_spec c obs.
Proof. exact lists_required_is_complete. Qed.
Print Assumptions C10_required_is_the_guard_of_complete_spec.

(* ==== the RELATIONAL property stated directly about the code: two (or three) calls of the functions
   regenerated from the Python source on this run, related through the key-level views of the frames they
   return (code_view); obtained by transferring the laws proved from the single-call specs (Laws*.v) along
   `generated code refines api_join` *)
From SSJ Require Import CodeLevelBase CodeLevelJoins CodeLevelJoins2 CodeLevelFilters CodeLevelMatcher CodeLevelTight CodeLevelRelBase CodeLevelRelCalls CodeLevelRel CodeLevelRel2 CodeLevelRel3 CodeLevelRel4 CodeLevelRel5 CodeLevelRel6.
Theorem C10_code_njobs_JCD :
  ltac:(let t := type of C10_code_njobs_jcd in exact t).
Proof. exact C10_code_njobs_jcd. Qed.
Print Assumptions C10_code_njobs_JCD.
Theorem C10_code_njobs_OVC :
  ltac:(let t := type of C10_code_njobs_overlap_coefficient_perm in exact t).
Proof. exact C10_code_njobs_overlap_coefficient_perm. Qed.
Print Assumptions C10_code_njobs_OVC.
Theorem C10_code_njobs_OVERLAP :
  ltac:(let t := type of C10_code_njobs_overlap_join_perm in exact t).
Proof. exact C10_code_njobs_overlap_join_perm. Qed.
Print Assumptions C10_code_njobs_OVERLAP.
Theorem C10_code_njobs_ED :
  ltac:(let t := type of C10_code_njobs_edit_distance_join in exact t).
Proof. exact C10_code_njobs_edit_distance_join. Qed.
Print Assumptions C10_code_njobs_ED.
Theorem C10_code_njobs_size_filter :
  ltac:(let t := type of C10_code_njobs_size_filter_tables in exact t).
Proof. exact C10_code_njobs_size_filter_tables. Qed.
Print Assumptions C10_code_njobs_size_filter.
Theorem C10_code_njobs_overlap_filter :
  ltac:(let t := type of C10_code_njobs_overlap_filter_tables in exact t).
Proof. exact C10_code_njobs_overlap_filter_tables. Qed.
Print Assumptions C10_code_njobs_overlap_filter.
Theorem C10_code_njobs_matcher :
  ltac:(let t := type of C10_code_njobs_apply_matcher in exact t).
Proof. exact C10_code_njobs_apply_matcher. Qed.
Print Assumptions C10_code_njobs_matcher.
Theorem C10_code_njobs_candset :
  ltac:(let t := type of C10_code_njobs_filter_candset in exact t).
Proof. exact C10_code_njobs_filter_candset. Qed.
Print Assumptions C10_code_njobs_candset.
