(* C03 -- edit-distance join: sound, exact distance, complete up to the documented gap. *)
From Coq Require Import ZArith Bool List String SpecFloat.
From SSJ Require Import F64 PyNum FilterUtilsGen TokenOrdering Filters Lev Qgram Joins Prefix
     LevFacts QgramFacts EditArith EditJoin.
Import ListNotations.
Open Scope string_scope.
Open Scope Z_scope.

(* the per-chunk core of edit_distance_join: only pairs whose Levenshtein distance satisfies the
   comparison, and the reported score IS that distance (0.0 for equal strings, as the library) *)
Theorem C03_sound :
  forall q tau op L R res, 0 <= tau -> 1 <= q -> ed_core q tau op L R = Some res ->
  forall c j d, In (c, j, d) res ->
  exists l r, nth_error L c = Some l /\ nth_error R j = Some r /\
    d = (if list_eqbZ (fst l) (fst r) then PFloat (S754_zero false) else PInt (lev (fst l) (fst r))) /\
    cmp_op op d (PInt tau) = true.
Proof. exact ed_core_sound. Qed.
Print Assumptions C03_sound.

Theorem C03_once :
  forall q tau op L R res, 0 <= tau -> 1 <= q -> ed_core q tau op L R = Some res -> NoDup (map fst res).
Proof. exact ed_core_once. Qed.
Print Assumptions C03_once.

(* the executable distance is the Levenshtein distance *)
Theorem C03_lev_is_levenshtein : forall s t, lev s t = Z.of_nat (lev_spec s t).
Proof. exact lev_dp_correct. Qed.
Print Assumptions C03_lev_is_levenshtein.

(* exact characterisation for q-gram rows (any q >= 1, padded or not, any injective interning of
   the q-grams): a pair is returned IFF its distance satisfies the comparison and the two q-gram
   bags share a q-gram -- whatever the other rows and the chunk's token order *)
Theorem C03_exact :
  forall tk f tau op L R res, (forall a b, f a = f b -> a = b) -> 0 <= tau -> 1 <= qq tk -> ed_op op ->
  Forall (qrow_ok tk f) L -> Forall (qrow_ok tk f) R -> ed_core (qq tk) tau op L R = Some res ->
  forall c j d, In (c, j, d) res <->
    exists l r, nth_error L c = Some l /\ nth_error R j = Some r /\
      share (qgram_bag tk (fst l)) (qgram_bag tk (fst r)) = true /\
      cmp_op op (ed_dist l r) (PInt tau) = true /\ d = ed_dist l r.
Proof. exact ed_core_char_qgram. Qed.
Print Assumptions C03_exact.

(* corollary with padding: every qualifying pair with max(len) >= q*tau - q + 2 is returned *)
Theorem C03_padded :
  forall tk f tau op L R res, (forall a b, f a = f b -> a = b) -> 0 <= tau -> 1 <= qq tk ->
  qpad tk = true -> ed_op op -> Forall (qrow_ok tk f) L -> Forall (qrow_ok tk f) R ->
  ed_core (qq tk) tau op L R = Some res ->
  forall c j l r, nth_error L c = Some l -> nth_error R j = Some r ->
  qq tk * tau - qq tk + 2 <= Z.max (len (fst l)) (len (fst r)) ->
  cmp_op op (ed_dist l r) (PInt tau) = true -> In (c, j, ed_dist l r) res.
Proof. exact EditJoin.C03_padded. Qed.
Print Assumptions C03_padded.

(* the q-gram count filter behind it: lev s t <= tau forces a large bag overlap *)
Theorem C03_count_filter :
  forall tk s t, 1 <= qq tk ->
  Z.max (Z.of_nat (List.length (qgram_bag tk s))) (Z.of_nat (List.length (qgram_bag tk t))) - qq tk * lev s t
  <= Z.of_nat (ovl (qgram_bag tk s) (qgram_bag tk t)).
Proof. exact count_filter_lev. Qed.
Print Assumptions C03_count_filter.

(* API level (dropna, chunking by the GENERATED split_table, per-chunk core, concat, missing
   pairs), any n_jobs, integral or non-integral threshold (floored), padding on/off: the call
   succeeds; sound, each key pair once, missing pairs as allow_missing says; and for q-gram rows
   the result is EXACTLY the pairs whose distance satisfies the comparison and that share a q-gram *)
From SSJ Require Import Api JoinSpec MetaSpec ApiFilterBase ApiFilterEdit ApiFilterClosed.
Theorem C03_api :
  forall c tau, valid_ed_case c tau ->
  (exists out, api_join c = Some out) /\
  forall out, api_join c = Some out ->
    sound_spec c out = true /\ missing_spec c out = true /\ empty_spec c out = true /\
    (cf_rows c -> complete_spec c out = true /\
       forall l r, In l (j_L c) -> In r (j_R c) -> present l = true -> present r = true ->
         has_pair (fst l) (fst r) out =
         cmp_op (j_op c) (JoinSpec.ed_dist l r) (PInt tau) && share (toks_of l) (toks_of r)).
Proof. exact C03_edit_distance_join. Qed.
Print Assumptions C03_api.

Theorem C03_api_qgram :
  forall tk f c tau, (forall a b, f a = f b -> a = b) -> j_q c = qq tk ->
  valid_ed_case c tau -> qgram_rows tk f c -> forall out, api_join c = Some out -> all_specs c out.
Proof. exact C03_edit_distance_join_qgram. Qed.
Print Assumptions C03_api_qgram.

(* tie of the token order to the source: utils/token_ordering.py, as REGENERATED on this run,
   computes exactly the ranks of Model/TokenOrdering.v that the theorems above are about *)
From SSJ Require Import TokenOrderingGen OrderingGenFacts.
Theorem token_order_of_source_is_model :
  forall tables attr_list smt tokenize tk toks,
  tokenizes tables attr_list tokenize tk ->
  order_using_token_ordering (PList (map PInt toks))
    (gen_token_ordering_for_tables (PList (map PList tables)) attr_list smt tokenize)
  = PList (map PInt (order (tab_tokens tk 0 tables) toks)).
Proof. exact order_using_gen_tables. Qed.
Theorem pair_token_order_of_source_is_model :
  forall lists toks,
  order_using_token_ordering (PList (map PInt toks))
    (gen_token_ordering_for_lists (PList (map (fun l => PList (map PInt l)) lists)))
  = PList (map PInt (order (List.concat lists) toks)).
Proof. exact order_using_gen_lists. Qed.

(* ---- tie: the per-chunk functions generated from the source (Gen/JoinGen.v, regenerated every
   run) produce, up to a permutation, exactly the rows of the pairwise model + projection *)
From SSJ Require Import JoinGen SplitRefineBase SplitRefineOverlapFilter SplitRefineOvc SplitRefineFilterBase SplitRefineFilterSize SplitRefineFilterPrefix SplitRefineFilterPosition SplitRefineFilters SplitRefineEd SplitRefineProj SplitRefineProjAll SplitRefineOvcArith.
Theorem generated_edit_distance_split_refines_model :
  ltac:(let t := type of edit_distance_join_split_rows_refines_proj in exact t).
Proof. exact edit_distance_join_split_rows_refines_proj. Qed.
Print Assumptions generated_edit_distance_split_refines_model.

(* ---- tie: the remaining public wrappers as REGENERATED from the source on this run (Gen/WrapperGen.v,
   Gen/FilterWrapperGen.v over Model/Frame.v): overlap_coefficient_join_py, edit_distance_join_py,
   overlap_join_py and the filters' filter_tables compute header_spec + the rows of api_join (entry
   EJoin / EFilter / EOverlapFilter) through the declared projection, per chunk up to order *)
From SSJ Require Import Frame WrapperGen FilterWrapperGen WrapperBody WrapperApiLink WrapperEnd WrapperRefineOvc WrapperRefineEd FilterWrapperRefineOverlap FilterWrapperRefine FilterWrapperRefineClosed.
Theorem generated_edit_distance_wrapper_refines_model :
  ltac:(let t := type of edit_distance_join_rows_end_to_end_flat in exact t).
Proof. exact edit_distance_join_rows_end_to_end_flat. Qed.
Print Assumptions generated_edit_distance_wrapper_refines_model.

(* ==== the property stated DIRECTLY ABOUT THE CODE: the function regenerated from the Python source on this
   run (Gen/WrapperGen.v, Gen/FilterWrapperGen.v, Gen/MatcherGen.v), applied to any well-formed frames,
   returns a frame with header header_spec whose rows, read at key level (kview: left key, right key,
   score), satisfy complete_spec /\ sound_spec /\ missing_spec /\ empty_spec (Spec/JoinSpec.v, MetaSpec.v)
   -- composition of `generated code refines api_join` with `api_join satisfies the specs` *)
From SSJ Require Import CodeLevelBase CodeLevelJoins CodeLevelJoins2 CodeLevelFilters CodeLevelMatcher CodeLevelTight.
Theorem C03_code_edit_distance :
  ltac:(let t := type of C03_code_edit_distance_exact in exact t).
Proof. exact C03_code_edit_distance_exact. Qed.
Print Assumptions C03_code_edit_distance.
Theorem C03_code_edit_distance_soundness :
  ltac:(let t := type of C03_code_edit_distance_sound in exact t).
Proof. exact C03_code_edit_distance_sound. Qed.
Print Assumptions C03_code_edit_distance_soundness.

(* ---- tie: WHICH function verifies a candidate, as read from utils/simfunctions.py on this run
   (Gen/SimFunctionsGen.v): the py_stringmatching measures themselves (and the local set-intersection
   count for OVERLAP) -- a locally re-implemented measure would appear as "local:<name>" *)
From SSJ Require Import SimFunctionsGen.
Theorem sim_functions_of_source_are_library_measures :
  sim_function_table =
  [("COSINE", "py_stringmatching.similarity_measure.cosine.Cosine.get_raw_score");
   ("DICE", "py_stringmatching.similarity_measure.dice.Dice.get_raw_score");
   ("EDIT_DISTANCE", "py_stringmatching.similarity_measure.levenshtein.Levenshtein.get_raw_score");
   ("JACCARD", "py_stringmatching.similarity_measure.jaccard.Jaccard.get_raw_score");
   ("OVERLAP", "local:overlap");
   ("OVERLAP_COEFFICIENT", "py_stringmatching.similarity_measure.overlap_coefficient.OverlapCoefficient.get_raw_score")]%string.
Proof. reflexivity. Qed.
