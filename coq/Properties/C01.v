(* C01 -- set-similarity joins return every qualifying pair.  Only closing statements here. *)
From Coq Require Import ZArith Bool List Sorted.
From SSJ Require Import F64 PyNum FilterUtilsGen TokenOrdering Filters Prefix PositionSafe.
Import ListNotations.
Open Scope Z_scope.

(* the position-filter loop of the joins counts every prefix/prefix match and never prunes a
   pair whose size window holds and whose required overlap does not exceed the real overlap *)
Theorem C01_position_loop_safe :
  forall (p : fparams) (XP XS Y : list Z) (al : Z),
    StronglySorted Z.lt (XP ++ XS) -> StronglySorted Z.lt Y ->
    in_window (g_lb p (len Y)) (g_ub p (len Y)) (len (XP ++ XS)) = true ->
    g_ot p (len (XP ++ XS)) (len Y) = PInt al ->
    al <= Z.of_nat (hits (XP ++ XS) Y) ->
    forall YP YS, Y = (YP ++ YS)%list ->
    pos_loop p (len (XP ++ XS)) (len Y) XP YP 0 0 = Z.of_nat (hits XP YP).
Proof. exact pos_loop_result. Qed.
Print Assumptions C01_position_loop_safe.
