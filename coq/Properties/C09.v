(* C09 -- empty token sets are admitted iff allow_empty, independent of threshold. *)
From Coq Require Import ZArith Bool List String.
From SSJ Require Import F64 PyNum Filters Joins Api JoinSpec MetaSpec FilterSpec ApiJoinSpec PartitionInst.
Import ListNotations.
Open Scope string_scope.
Open Scope Z_scope.

(* API-level model, the five set-similarity joins: a pair of two empty token sets is in the
   output iff allow_empty (never for overlap_join); a pair with exactly one empty side never is
   -- whatever the threshold, operator, other rows and n_jobs (empty_spec of Spec/MetaSpec.v) *)
Theorem C09_joins :
  forall (c : jcase) (out : list out_row),
  valid_join_case c -> api_join c = Some out -> empty_spec c out = true.
Proof. intros c out Hv Ho. exact (proj2 (proj2 (proj2 (api_join_spec hpart_cpus_bounded c out Hv Ho)))). Qed.
Print Assumptions C09_joins.

(* ... and such a pair carries score 1.0 (clause of sound_spec) *)
Theorem C09_score :
  forall (c : jcase) (out : list out_row),
  valid_join_case c -> api_join c = Some out -> sound_spec c out = true.
Proof. intros c out Hv Ho. exact (proj1 (proj2 (api_join_spec hpart_cpus_bounded c out Hv Ho))). Qed.

(* filter_pair of Size / Prefix / Position / Suffix: two empty token lists survive iff
   allow_empty under JACCARD / COSINE / DICE, never under OVERLAP (by computation on the model:
   the verdict does not look at the threshold) *)
Theorem C09_filter_pair :
  forall (w : fwhich) (p : fparams) op ae am ls rs,
  w <> FOverlap ->
  let c := {| fp_which := w; fp_p := p; fp_op := op; fp_allow_empty := ae; fp_allow_missing := am;
              fp_l := Some (ls, []); fp_r := Some (rs, []) |} in
  exists d, model_filter_pair c = Some d /\ fp_empty_spec c d = true.
Proof.
  intros w p op ae am ls rs Hw c. unfold c.
  destruct w; try congruence; cbn;
    unfold both_empty_verdict; destruct (String.eqb (fm p) "OVERLAP") eqn:E1;
    try (eexists; split; [reflexivity|]; cbn; rewrite ?E1; try reflexivity);
    destruct (String.eqb (fm p) "EDIT_DISTANCE") eqn:E2; cbn; rewrite ?E1, ?E2;
    try reflexivity; destruct ae; reflexivity.
Qed.
Print Assumptions C09_filter_pair.

(* filter_tables of Size / Prefix / Position under ANY measure and threshold: both-empty pairs
   iff allow_empty (never under OVERLAP / EDIT_DISTANCE), missing pairs as allow_missing says *)
From SSJ Require Import ApiFilterBase ApiFilterTables ApiFilterClosed.
Theorem C09_filter_tables :
  forall c k m, j_entry c = EFilter k m -> k3 k -> size_ok c -> keys_ok c ->
  forall out, api_join c = Some out -> sound_spec c out = true /\ missing_spec c out = true /\ empty_spec c out = true.
Proof. exact C14_filter_tables_sound. Qed.
Print Assumptions C09_filter_tables.

(* tie of candidate generation to the source: index/position_index.py (build) and
   filter/position_filter.py (find_candidates), as REGENERATED on this run (Gen/IndexGen.v), compute
   for EVERY indexed row c and probe Y exactly the pairwise model's verdict pos_cand -- the
   inverted index over all rows, the eager overlap-threshold cache, the clamping of the size
   window to [min_length, max_length] and the early exit on an empty index are all immaterial *)
From SSJ Require Import FilterUtilsGen Filters IndexGen IndexPyFacts IndexBuildFacts IndexProbeFacts IndexRefine.
Theorem position_index_code_refines_model :
  forall (p : fparams) (attr ordering : pyval) (tokenize : pyval -> pyval) (rows : list pyval)
         (ordered : list (list Z)) (ce ct : bool),
  Forall2 (row_ok attr ordering tokenize) rows ordered ->
  (forall x, In x ordered -> exists kx, g_pl p (len x) = PInt kx) ->
  forall (Y : list Z) (lb ub k : Z),
  g_lb p (len Y) = PInt lb -> g_ub p (len Y) = PInt ub -> g_pl p (len Y) = PInt k ->
  (forall s, 0 <= s -> lb <= s <= ub -> num_of (g_ot p s (len Y)) <> None) ->
  exists (index size_cache : pyval) (mn mx : Z) (ret cands : pyval),
    position_index_build (PList rows) attr (PStr (fm p)) (ft p) ordering (PBool ce) (PBool ct)
                         (PInt (fq p)) tokenize
    = PTuple [index; size_cache; PInt mn; PInt mx; ret] /\
    position_filter_find_candidates (PStr (fm p)) (ft p) (pints Y) index size_cache (PInt mn) (PInt mx)
                                    (PInt (fq p)) = cands /\
    forall c : nat, (c < List.length ordered)%nat ->
      (0 < dict_val cands (Z.of_nat c) <-> exists v, pos_cand p (nth c ordered []) Y = Some v /\ 0 < v).
Proof. exact position_candidate_positive. Qed.
Print Assumptions position_index_code_refines_model.

(* tie of the per-chunk join loop to the source: join/set_sim_join.py, as REGENERATED on this run
   (Gen/JoinGen.v: attribute indices, token ordering, PositionIndex.build, PositionFilter.
   find_candidates, the allow_empty branch, verification round(sim,4) against comp_op, output rows,
   header), returns -- up to the order of rows -- exactly the triples of the hand model
   set_sim_join_core mapped through the declarative projection (Spec/ProjSpec.v), and the
   documented header.  The statement is that of JoinRefineProj.set_sim_join_rows_refines_proj
   (printed by the Check below); its hypotheses on the formulas are discharged for
   JACCARD/COSINE/DICE over all doubles in the envelope by IndexGlueArith (next theorems). *)
From SSJ Require Import F64 PyNum FilterUtilsGen Measures Filters JoinSpec JoinGen JoinGenFacts JoinGenLoop JoinRefine JoinRefineProj IndexGlue IndexGlueArith.
Theorem generated_join_loop_refines_model :
  ltac:(let t := type of set_sim_join_rows_refines_proj in exact t).
Proof. exact set_sim_join_rows_refines_proj. Qed.
Check generated_join_loop_refines_model.
Print Assumptions generated_join_loop_refines_model.
Theorem generated_candidates_end_to_end_jcd :
  ltac:(let t := type of position_candidates_jcd in exact t).
Proof. exact position_candidates_jcd. Qed.
Check generated_candidates_end_to_end_jcd.
Theorem generated_pair_verdict_end_to_end_jcd :
  ltac:(let t := type of ssj_pair_jcd in exact t).
Proof. exact ssj_pair_jcd. Qed.
Check generated_pair_verdict_end_to_end_jcd.
Print Assumptions generated_pair_verdict_end_to_end_jcd.
Theorem generated_formulas_total_jcd :
  forall m t q, is_jcd m = true -> env_t t = true ->
  formulas_ok {| fm := m; ft := PFloat t; fq := q |} size_bound.
Proof. exact formulas_ok_jcd. Qed.

(* ==== the property stated DIRECTLY ABOUT THE CODE: the function regenerated from the Python source on this
   run (Gen/WrapperGen.v, Gen/FilterWrapperGen.v, Gen/MatcherGen.v), applied to any well-formed frames,
   returns a frame with header header_spec whose rows, read at key level (kview: left key, right key,
   score), satisfy complete_spec /\ sound_spec /\ missing_spec /\ empty_spec (Spec/JoinSpec.v, MetaSpec.v)
   -- composition of `generated code refines api_join` with `api_join satisfies the specs` *)
From SSJ Require Import CodeLevelBase CodeLevelJoins CodeLevelJoins2 CodeLevelFilters CodeLevelMatcher CodeLevelTight.
Theorem C09_code_jaccard :
  ltac:(let t := type of C01_C02_code_jaccard_tight in exact t).
Proof. exact C01_C02_code_jaccard_tight. Qed.
Print Assumptions C09_code_jaccard.
Theorem C09_code_cosine :
  ltac:(let t := type of C01_C02_code_cosine_tight in exact t).
Proof. exact C01_C02_code_cosine_tight. Qed.
Print Assumptions C09_code_cosine.
Theorem C09_code_dice :
  ltac:(let t := type of C01_C02_code_dice_tight in exact t).
Proof. exact C01_C02_code_dice_tight. Qed.
Print Assumptions C09_code_dice.
Theorem C09_code_overlap_coefficient :
  ltac:(let t := type of C01_C02_code_overlap_coefficient_tight in exact t).
Proof. exact C01_C02_code_overlap_coefficient_tight. Qed.
Print Assumptions C09_code_overlap_coefficient.
Theorem C09_code_filter_tables :
  ltac:(let t := type of C04_code_filter_tables_jcd in exact t).
Proof. exact C04_code_filter_tables_jcd. Qed.
Print Assumptions C09_code_filter_tables.
