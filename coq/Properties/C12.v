(* C12 -- calls leave inputs and tokenizer untouched; no call affects a later one.
   Statements about the control skeletons REGENERATED from the source of every entry point. *)
From Coq Require Import Bool List String.
From SSJ Require Import SkeletonLang SkeletonGen Skeleton.
Import ListNotations.

(* every exit (return, raise -- by a validation OR by any work statement, e.g. a pandas error or a
   tokenizer error in the middle of a join --, any combination of validation outcomes and early
   returns) of every entry point hands the tokenizer's return_set flag back as it was received *)
Theorem C12_flag_restored :
  forall name sk, In (name, sk) all_entry_points ->
  forall (o : oracle) (f0 s0 : bool) (w0 : nat),
    flag (snd (run o 0 {| flag := f0; saved := s0; work_done := w0 |} sk)) = f0.
Proof.
  intros name sk Hin. apply flag_safe_sound.
  assert (H : forallb (fun p => flag_safe (snd p)) all_entry_points = true) by (vm_compute; reflexivity).
  rewrite forallb_forall in H. exact (H (name, sk) Hin).
Qed.
Print Assumptions C12_flag_restored.

(* hence any sequence of calls sharing one tokenizer returns what each call returns in isolation *)
Theorem C12_history :
  forall (Res : Type) (cs : list (call Res)),
    Forall (preserves Res) cs ->
    forall f, run_seq Res cs f = (map (fun c => fst (c f)) cs, f).
Proof. exact history_independent. Qed.
Print Assumptions C12_history.

(* ... and the hypothesis of C12_history is discharged for the entry points themselves: any sequence of
   calls of the REGENERATED entry points (any names, order, length; per call any oracle of raising
   validations, raising work statements and early returns) sharing one tokenizer flag yields, call by
   call, the exit status of the call made in isolation, every call starts from the flag the history
   started from, and the flag after the history is that flag *)
From SSJ Require Import SkeletonHistory.
Theorem C12_history_of_entry_points :
  forall cs : list ep_call, Forall is_entry_point cs ->
  forall f, run_seq status (map call_of cs) f = (map (fun c => fst (call_of c f)) cs, f)
            /\ entry_flags cs f = map (fun _ => f) cs.
Proof.
  intros cs H f. split; [exact (entry_point_history cs H f) | exact (entry_point_history_entry_flags cs H f)].
Qed.
Print Assumptions C12_history_of_entry_points.

(* the only in-place operations whose target is a parameter are the flag flip covered above
   and the converters' documented inplace mode (syntactic effect summary of every entry point) *)
Theorem C12_no_param_mutation :
  forall name ms, In (name, ms) all_mutations -> forall m, In m ms -> mut_allowed name m = true.
Proof.
  intros name ms Hin m Hm.
  assert (H : forallb (fun p => forallb (mut_allowed (fst p)) (snd p)) all_mutations = true)
    by (vm_compute; reflexivity).
  rewrite forallb_forall in H. specialize (H (name, ms) Hin). simpl in H.
  rewrite forallb_forall in H. exact (H m Hm).
Qed.
Print Assumptions C12_no_param_mutation.

(* non-vacuity: a skeleton that really flips and restores, run with a raising validation *)
Example C12_nonvacuous :
  In ("overlap_join_py", sk_overlap_join_py) all_entry_points /\
  fst (run (fun n => Nat.eqb n 4) 0 {| flag := false; saved := false; work_done := 0 |} sk_overlap_join_py) = Raised /\
  flag (snd (run (fun n => Nat.eqb n 4) 0 {| flag := false; saved := false; work_done := 0 |} sk_overlap_join_py)) = false.
Proof. vm_compute. repeat split. right; right; right; right; left; reflexivity. Qed.

(* ---- tie: the public wrappers jaccard_join_py / cosine_join_py / dice_join_py as REGENERATED from the
   source on this run (Gen/WrapperGen.v: DataFrames as values of Model/Frame.v, validators and the
   tokenizer flag handled by the shape checks of harness/translate/wrappers.py) compute -- through
   dropna / projection / split_table / the per-chunk loop / concat / missing-value pairs / _id --
   a frame whose header is header_spec and whose rows are, up to the order within a chunk, the rows
   of api_join with the declared projection *)
From SSJ Require Import Frame WrapperGen WrapperRefineFrame WrapperRefineChunks WrapperRefineMissing WrapperRefineCore WrapperRefine WrapperRefineClosed WrapperRefineApi WrapperRefineEnd.
Theorem generated_jaccard_wrapper_refines_model :
  ltac:(let t := type of jaccard_join_rows_end_to_end in exact t).
Proof. exact jaccard_join_rows_end_to_end. Qed.
Print Assumptions generated_jaccard_wrapper_refines_model.
Theorem generated_cosine_wrapper_refines_model :
  ltac:(let t := type of cosine_join_rows_end_to_end in exact t).
Proof. exact cosine_join_rows_end_to_end. Qed.
Print Assumptions generated_cosine_wrapper_refines_model.
Theorem generated_dice_wrapper_refines_model :
  ltac:(let t := type of dice_join_rows_end_to_end in exact t).
Proof. exact dice_join_rows_end_to_end. Qed.
Print Assumptions generated_dice_wrapper_refines_model.
