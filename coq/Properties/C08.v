(* C08 -- missing join values are handled exactly as allow_missing says (API-level model). *)
From Coq Require Import ZArith Bool List String.
From SSJ Require Import F64 PyNum Filters Joins Api Matcher CoreLiftBase CoreLift ApiLift MatcherFacts.
Import ListNotations.
Open Scope string_scope.
Open Scope Z_scope.

(* allow_missing = False: no output row of any join / filter_tables involves a row whose
   join value is missing *)
Theorem C08_absent :
  forall (c : jcase) (out : list out_row),
  j_allow_missing c = false -> api_join c = Some out ->
  forall lk rk s, In (lk, rk, s) out ->
  exists l r, In l (j_L c) /\ In r (j_R c) /\ present l = true /\ present r = true /\
              fst l = lk /\ fst r = rk.
Proof. exact api_join_missing_absent. Qed.
Print Assumptions C08_absent.

(* allow_missing = True: the call succeeds exactly when the allow_missing = False call does,
   the part over present values is unchanged, and the missing pairs are appended *)
Theorem C08_present :
  forall c : jcase,
  api_join (with_missing c true) =
  option_map (fun out0 => out0 ++ missing_pairs (j_L c) (j_R c))%list (api_join (with_missing c false)).
Proof. exact api_join_missing_true. Qed.
Print Assumptions C08_present.

(* the appended rows: every pair with at least one missing side, NaN score ... *)
Theorem C08_missing_pairs :
  forall (L R : list row) lk rk s,
  In (lk, rk, s) (missing_pairs L R) <->
  s = PNone /\ exists l r, In l L /\ In r R /\ fst l = lk /\ fst r = rk /\
                           (present l = false \/ present r = false).
Proof. exact missing_pairs_spec. Qed.
Print Assumptions C08_missing_pairs.

(* ... each exactly once (keys are unique: validate_key_attr) *)
Theorem C08_missing_pairs_once :
  forall L R : list row, NoDup (map fst L) -> NoDup (map fst R) -> NoDup (map fst (missing_pairs L R)).
Proof. exact missing_pairs_keys_NoDup. Qed.
Print Assumptions C08_missing_pairs_once.

(* apply_matcher: rows with a missing side are kept iff allow_missing, score NaN *)
Theorem C08_matcher :
  forall sim t op allow_missing with_score (L R : list mrow) id lk rk lv rv,
  lookup lk L = Some lv -> lookup rk R = Some rv -> lv = None \/ rv = None ->
  keep sim t op allow_missing L R (id, lk, rk) = allow_missing /\
  out sim with_score L R (id, lk, rk) = (id, lk, rk, PNone).
Proof. exact keep_out_missing. Qed.
Print Assumptions C08_matcher.

Example C08_nonvacuous :
  let L := [(1, None); (2, Some ([], [5; 6]))] in
  let R := [(7, Some ([], [5])); (8, None)] in
  missing_pairs L R = [(1, 7, PNone); (1, 8, PNone); (2, 8, PNone)].
Proof. vm_compute. reflexivity. Qed.

(* every pair with a missing side occurs exactly once iff allow_missing, for EVERY entry of the
   API-level model (joins, filters' filter_tables, edit distance), any n_jobs *)
From SSJ Require Import MetaSpec ApiJoinSpec PartitionInst.
Theorem C08_exactly_once :
  forall (c : jcase) (out : list out_row),
  tables_ok c -> api_join c = Some out -> missing_spec c out = true.
Proof. exact (api_join_missing_spec hpart_cpus_bounded). Qed.
Print Assumptions C08_exactly_once.

(* tie of the pair-level path to the source: filter_pair of SizeFilter / PrefixFilter /
   PositionFilter / OverlapFilter, as REGENERATED on this run (Gen/FilterPairGen.v: missing-value
   test, tokenization, pair-level token ordering, prefix lengths, position loop, allow_empty /
   allow_missing handling, comp_op lookup), returns exactly the verdict of the hand model
   (Spec/FilterSpec.v model_filter_pair) -- no state may be kept on the filter object *)
From SSJ Require Import FilterPairGen FilterPairRefineBase FilterPairRefine FilterPairRefinePos FilterPairRefineSpec FilterPairRefineArith.
Theorem generated_filter_pair_refines_model :
  ltac:(let t := type of filter_pair_gen_refines_model in exact t).
Proof. exact filter_pair_gen_refines_model. Qed.
Check generated_filter_pair_refines_model.
Print Assumptions generated_filter_pair_refines_model.
Theorem generated_position_filter_pair_jcd :
  ltac:(let t := type of position_filter_pair_gen_jcd in exact t).
Proof. exact position_filter_pair_gen_jcd. Qed.
Print Assumptions generated_position_filter_pair_jcd.

(* ---- tie: the public wrappers jaccard_join_py / cosine_join_py / dice_join_py as REGENERATED from the
   source on this run (Gen/WrapperGen.v: DataFrames as values of Model/Frame.v, validators and the
   tokenizer flag handled by the shape checks of harness/translate/wrappers.py) compute -- through
   dropna / projection / split_table / the per-chunk loop / concat / missing-value pairs / _id --
   a frame whose header is header_spec and whose rows are, up to the order within a chunk, the rows
   of api_join with the declared projection *)
From SSJ Require Import Frame WrapperGen WrapperRefineFrame WrapperRefineChunks WrapperRefineMissing WrapperRefineCore WrapperRefine WrapperRefineClosed WrapperRefineApi WrapperRefineEnd.
Theorem generated_jaccard_wrapper_refines_model :
  ltac:(let t := type of jaccard_join_rows_end_to_end in exact t).
Proof. exact jaccard_join_rows_end_to_end. Qed.
Print Assumptions generated_jaccard_wrapper_refines_model.
Theorem generated_cosine_wrapper_refines_model :
  ltac:(let t := type of cosine_join_rows_end_to_end in exact t).
Proof. exact cosine_join_rows_end_to_end. Qed.
Print Assumptions generated_cosine_wrapper_refines_model.
Theorem generated_dice_wrapper_refines_model :
  ltac:(let t := type of dice_join_rows_end_to_end in exact t).
Proof. exact dice_join_rows_end_to_end. Qed.
Print Assumptions generated_dice_wrapper_refines_model.
Theorem generated_missing_pairs_code_refines_model :
  ltac:(let t := type of get_pairs_with_missing_value_eq in exact t).
Proof. exact get_pairs_with_missing_value_eq. Qed.
Print Assumptions generated_missing_pairs_code_refines_model.

(* ---- tie: the remaining public wrappers as REGENERATED from the source on this run (Gen/WrapperGen.v,
   Gen/FilterWrapperGen.v over Model/Frame.v): overlap_coefficient_join_py, edit_distance_join_py,
   overlap_join_py and the filters' filter_tables compute header_spec + the rows of api_join (entry
   EJoin / EFilter / EOverlapFilter) through the declared projection, per chunk up to order *)
From SSJ Require Import Frame WrapperGen FilterWrapperGen WrapperBody WrapperApiLink WrapperEnd WrapperRefineOvc WrapperRefineEd FilterWrapperRefineOverlap FilterWrapperRefine FilterWrapperRefineClosed.
Theorem generated_overlap_coefficient_wrapper_refines_model :
  ltac:(let t := type of overlap_coefficient_join_rows_end_to_end_flat in exact t).
Proof. exact overlap_coefficient_join_rows_end_to_end_flat. Qed.
Print Assumptions generated_overlap_coefficient_wrapper_refines_model.
Theorem generated_edit_distance_wrapper_refines_model :
  ltac:(let t := type of edit_distance_join_rows_end_to_end_flat in exact t).
Proof. exact edit_distance_join_rows_end_to_end_flat. Qed.
Print Assumptions generated_edit_distance_wrapper_refines_model.
Theorem generated_size_filter_tables_wrapper :
  ltac:(let t := type of size_filter_tables_rows_end_to_end_flat in exact t).
Proof. exact size_filter_tables_rows_end_to_end_flat. Qed.
Print Assumptions generated_size_filter_tables_wrapper.

(* ==== the property stated DIRECTLY ABOUT THE CODE: the function regenerated from the Python source on this
   run (Gen/WrapperGen.v, Gen/FilterWrapperGen.v, Gen/MatcherGen.v), applied to any well-formed frames,
   returns a frame with header header_spec whose rows, read at key level (kview: left key, right key,
   score), satisfy complete_spec /\ sound_spec /\ missing_spec /\ empty_spec (Spec/JoinSpec.v, MetaSpec.v)
   -- composition of `generated code refines api_join` with `api_join satisfies the specs` *)
From SSJ Require Import CodeLevelBase CodeLevelJoins CodeLevelJoins2 CodeLevelFilters CodeLevelMatcher CodeLevelTight.
Theorem C08_code_jaccard :
  ltac:(let t := type of C01_C02_code_jaccard_tight in exact t).
Proof. exact C01_C02_code_jaccard_tight. Qed.
Print Assumptions C08_code_jaccard.
Theorem C08_code_edit_distance :
  ltac:(let t := type of C03_code_edit_distance_exact in exact t).
Proof. exact C03_code_edit_distance_exact. Qed.
Print Assumptions C08_code_edit_distance.
Theorem C08_code_filter_tables :
  ltac:(let t := type of C04_code_filter_tables_jcd in exact t).
Proof. exact C04_code_filter_tables_jcd. Qed.
Print Assumptions C08_code_filter_tables.
