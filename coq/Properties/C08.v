(* C08 -- missing join values are handled exactly as allow_missing says (API-level model). *)
From Coq Require Import ZArith Bool List String.
From SSJ Require Import F64 PyNum Filters Joins Api Matcher CoreLiftBase CoreLift ApiLift MatcherFacts.
Import ListNotations.
Open Scope string_scope.
Open Scope Z_scope.

(* allow_missing = False: no output row of any join / filter_tables involves a row whose
   join value is missing *)
Theorem C08_absent :
  forall (c : jcase) (out : list out_row),
  j_allow_missing c = false -> api_join c = Some out ->
  forall lk rk s, In (lk, rk, s) out ->
  exists l r, In l (j_L c) /\ In r (j_R c) /\ present l = true /\ present r = true /\
              fst l = lk /\ fst r = rk.
Proof. exact api_join_missing_absent. Qed.
Print Assumptions C08_absent.

(* allow_missing = True: the call succeeds exactly when the allow_missing = False call does,
   the part over present values is unchanged, and the missing pairs are appended *)
Theorem C08_present :
  forall c : jcase,
  api_join (with_missing c true) =
  option_map (fun out0 => out0 ++ missing_pairs (j_L c) (j_R c))%list (api_join (with_missing c false)).
Proof. exact api_join_missing_true. Qed.
Print Assumptions C08_present.

(* the appended rows: every pair with at least one missing side, NaN score ... *)
Theorem C08_missing_pairs :
  forall (L R : list row) lk rk s,
  In (lk, rk, s) (missing_pairs L R) <->
  s = PNone /\ exists l r, In l L /\ In r R /\ fst l = lk /\ fst r = rk /\
                           (present l = false \/ present r = false).
Proof. exact missing_pairs_spec. Qed.
Print Assumptions C08_missing_pairs.

(* ... each exactly once (keys are unique: validate_key_attr) *)
Theorem C08_missing_pairs_once :
  forall L R : list row, NoDup (map fst L) -> NoDup (map fst R) -> NoDup (map fst (missing_pairs L R)).
Proof. exact missing_pairs_keys_NoDup. Qed.
Print Assumptions C08_missing_pairs_once.

(* apply_matcher: rows with a missing side are kept iff allow_missing, score NaN *)
Theorem C08_matcher :
  forall sim t op allow_missing with_score (L R : list mrow) id lk rk lv rv,
  lookup lk L = Some lv -> lookup rk R = Some rv -> lv = None \/ rv = None ->
  keep sim t op allow_missing L R (id, lk, rk) = allow_missing /\
  out sim with_score L R (id, lk, rk) = (id, lk, rk, PNone).
Proof. exact keep_out_missing. Qed.
Print Assumptions C08_matcher.

Example C08_nonvacuous :
  let L := [(1, None); (2, Some ([], [5; 6]))] in
  let R := [(7, Some ([], [5])); (8, None)] in
  missing_pairs L R = [(1, 7, PNone); (1, 8, PNone); (2, 8, PNone)].
Proof. vm_compute. reflexivity. Qed.

(* every pair with a missing side occurs exactly once iff allow_missing, for EVERY entry of the
   API-level model (joins, filters' filter_tables, edit distance), any n_jobs *)
From SSJ Require Import MetaSpec ApiJoinSpec PartitionInst.
Theorem C08_exactly_once :
  forall (c : jcase) (out : list out_row),
  tables_ok c -> api_join c = Some out -> missing_spec c out = true.
Proof. exact (api_join_missing_spec hpart_cpus_bounded). Qed.
Print Assumptions C08_exactly_once.
