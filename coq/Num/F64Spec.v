(* Bridge from the executable SpecFloat functions of F64.v to real numbers, through Flocq.
   No axioms of our own: `Print Assumptions` shows only what Flocq / the Reals library use. *)
From Coq Require Import ZArith Reals Lia Lra Psatz SpecFloat Bool.
From Flocq Require Import Core BinarySingleNaN Relative.
From SSJ Require Import F64.
Open Scope Z_scope.

#[export] Instance Hprec : FLX.Prec_gt_0 prec. Proof. reflexivity. Qed.
#[export] Instance Hmax : Prec_lt_emax prec emax. Proof. reflexivity. Qed.
Notation b64 := (binary_float prec emax).

(* ------------------------------------------------------------------ *)
(** * 1. SpecFloat operations = Flocq operations (syntactic bridge)    *)

Lemma round_nearest_even_equiv s m l :
  round_nearest_even m l = choice_mode mode_NE s m l.
Proof.
case l; [reflexivity|intro c].
case c; [ | reflexivity..].
now simpl; unfold Round.cond_incr; case Z.even.
Qed.

Lemma binary_round_aux_equiv sx mx ex lx :
  SpecFloat.binary_round_aux prec emax sx mx ex lx
  = binary_round_aux prec emax mode_NE sx mx ex lx.
Proof.
unfold SpecFloat.binary_round_aux, binary_round_aux.
set (mrse' := shr_fexp _ _ _ _ _).
case mrse'; intros mrs' e'; simpl.
now rewrite (round_nearest_even_equiv sx).
Qed.

Lemma binary_round_equiv s m e :
  SpecFloat.binary_round prec emax s m e =
  binary_round prec emax mode_NE s m e.
Proof.
unfold SpecFloat.binary_round, binary_round, shl_align_fexp.
set (mez := shl_align _ _ _); case mez as [mz ez].
apply binary_round_aux_equiv.
Qed.

Lemma binary_normalize_equiv m e szero :
  SpecFloat.binary_normalize prec emax m e szero
  = B2SF (binary_normalize prec emax Hprec Hmax mode_NE m e szero).
Proof.
case m as [ | p | p].
- now simpl.
- simpl; rewrite B2SF_SF2B; apply binary_round_equiv.
- simpl; rewrite B2SF_SF2B; apply binary_round_equiv.
Qed.

Theorem SFmul_bridge : forall x y : b64,
  SFmul prec emax (B2SF x) (B2SF y) = B2SF (Bmult mode_NE x y).
Proof.
intros [sx|sx| |sx mx ex Bx] [sy|sy| |sy my ey By]; try reflexivity.
simpl. rewrite B2SF_SF2B. apply binary_round_aux_equiv.
Qed.

Theorem SFdiv_bridge : forall x y : b64,
  SFdiv prec emax (B2SF x) (B2SF y) = B2SF (Bdiv mode_NE x y).
Proof.
intros [sx|sx| |sx mx ex Bx] [sy|sy| |sy my ey By]; try reflexivity.
simpl. rewrite B2SF_SF2B.
set (melz := SFdiv_core_binary _ _ _ _ _ _).
case melz as [[mz ez] lz].
apply binary_round_aux_equiv.
Qed.

Theorem SFadd_bridge : forall x y : b64,
  SFadd prec emax (B2SF x) (B2SF y) = B2SF (Bplus mode_NE x y).
Proof.
intros [sx|sx| |sx mx ex Bx] [sy|sy| |sy my ey By];
  [now (trivial || simpl; case Bool.eqb).. | ].
apply binary_normalize_equiv.
Qed.

Theorem SFsub_bridge : forall x y : b64,
  SFsub prec emax (B2SF x) (B2SF y) = B2SF (Bminus mode_NE x y).
Proof.
intros [sx|sx| |sx mx ex Bx] [sy|sy| |sy my ey By];
  [now (trivial || simpl; case Bool.eqb).. | ].
simpl.
unfold Zminus.
rewrite <- cond_Zopp_negb.
apply binary_normalize_equiv.
Qed.

Theorem SFsqrt_bridge : forall x : b64,
  SFsqrt prec emax (B2SF x) = B2SF (Bsqrt mode_NE x).
Proof.
intros [sx|sx| |sx mx ex Bx]; [now (trivial || case sx).. | ].
case sx; [reflexivity | ].
simpl.
rewrite B2SF_SF2B.
set (melz := SFsqrt_core_binary _ _ _ _).
case melz as [[mz ez] lz].
apply binary_round_aux_equiv.
Qed.

(* ------------------------------------------------------------------ *)
(** * 2. Real-number view: finite valid floats, RN                     *)

Open Scope R_scope.

Definition fexp64 : Z -> Z := FLT_exp (-1074) 53.
Definition RN (x : R) : R := round radix2 fexp64 ZnearestE x.
#[export] Instance fexp64_valid : Valid_exp fexp64.
Proof. unfold fexp64. apply FLT_exp_valid. reflexivity. Qed.
#[export] Instance fexp64_mono : Monotone_exp fexp64.
Proof. unfold fexp64. apply FLT_exp_monotone. Qed.

(* the real value of a spec_float (0 on non-finite ones) *)
Definition FR (x : f64) : R := SF2R radix2 x.
(* a genuine finite double *)
Definition fin (x : f64) : Prop := valid_binary prec emax x = true /\ f_is_finite x = true.

Lemma f_is_finite_SF x : f_is_finite x = is_finite_SF x.
Proof. now destruct x. Qed.

Lemma fin_B x : fin x -> exists b : b64, B2SF b = x /\ is_finite b = true /\ B2R b = FR x.
Proof.
intros [Hv Hf]. exists (SF2B x Hv).
rewrite B2SF_SF2B, is_finite_SF2B, B2R_SF2B, <- f_is_finite_SF. now repeat split.
Qed.

Lemma fin_of_B (b : b64) : is_finite b = true -> fin (B2SF b).
Proof.
intros H. split. apply valid_binary_B2SF.
now rewrite f_is_finite_SF, is_finite_SF_B2SF.
Qed.

Lemma FR_B (b : b64) : FR (B2SF b) = B2R b.
Proof. apply SF2R_B2SF. Qed.

Lemma RN_flocq x :
  round radix2 (SpecFloat.fexp prec emax) (round_mode mode_NE) x = RN x.
Proof. reflexivity. Qed.

Lemma fmul_spec x y : fin x -> fin y ->
  Rabs (RN (FR x * FR y)) < bpow radix2 1024 ->
  fin (fmul x y) /\ FR (fmul x y) = RN (FR x * FR y).
Proof.
intros Hx Hy Hov.
destruct (fin_B x Hx) as (bx & <- & Fx & Rx).
destruct (fin_B y Hy) as (by_ & <- & Fy & Ry).
unfold fmul. rewrite SFmul_bridge.
generalize (Bmult_correct prec emax _ _ mode_NE bx by_).
rewrite RN_flocq, Rx, Ry, Rlt_bool_true by exact Hov.
intros (H1 & H2 & _). split.
- apply fin_of_B. now rewrite H2, Fx, Fy.
- now rewrite FR_B.
Qed.

Lemma fdiv_spec x y : fin x -> fin y -> FR y <> 0 ->
  Rabs (RN (FR x / FR y)) < bpow radix2 1024 ->
  fin (fdiv x y) /\ FR (fdiv x y) = RN (FR x / FR y).
Proof.
intros Hx Hy Hy0 Hov.
destruct (fin_B x Hx) as (bx & <- & Fx & Rx).
destruct (fin_B y Hy) as (by_ & <- & Fy & Ry).
unfold fdiv. rewrite SFdiv_bridge.
rewrite <- Ry in Hy0.
generalize (Bdiv_correct prec emax _ _ mode_NE bx by_ Hy0).
rewrite RN_flocq, Rx, Ry, Rlt_bool_true by exact Hov.
intros (H1 & H2 & _). split.
- apply fin_of_B. now rewrite H2.
- now rewrite FR_B.
Qed.

Lemma fadd_spec x y : fin x -> fin y ->
  Rabs (RN (FR x + FR y)) < bpow radix2 1024 ->
  fin (fadd x y) /\ FR (fadd x y) = RN (FR x + FR y).
Proof.
intros Hx Hy Hov.
destruct (fin_B x Hx) as (bx & <- & Fx & Rx).
destruct (fin_B y Hy) as (by_ & <- & Fy & Ry).
unfold fadd. rewrite SFadd_bridge.
generalize (Bplus_correct prec emax _ _ mode_NE bx by_ Fx Fy).
rewrite RN_flocq, Rx, Ry, Rlt_bool_true by exact Hov.
intros (H1 & H2 & _). split.
- now apply fin_of_B.
- now rewrite FR_B.
Qed.

Lemma fsub_spec x y : fin x -> fin y ->
  Rabs (RN (FR x - FR y)) < bpow radix2 1024 ->
  fin (fsub x y) /\ FR (fsub x y) = RN (FR x - FR y).
Proof.
intros Hx Hy Hov.
destruct (fin_B x Hx) as (bx & <- & Fx & Rx).
destruct (fin_B y Hy) as (by_ & <- & Fy & Ry).
unfold fsub. rewrite SFsub_bridge.
generalize (Bminus_correct prec emax _ _ mode_NE bx by_ Fx Fy).
rewrite RN_flocq, Rx, Ry, Rlt_bool_true by exact Hov.
intros (H1 & H2 & _). split.
- now apply fin_of_B.
- now rewrite FR_B.
Qed.

(* sqrt never overflows; the argument must be a zero or a positive finite number *)
Lemma fsqrt_spec x : fin x -> 0 < FR x ->
  fin (fsqrt x) /\ FR (fsqrt x) = RN (sqrt (FR x)).
Proof.
intros Hx Hpos.
destruct (fin_B x Hx) as (bx & <- & Fx & Rx).
unfold fsqrt. rewrite SFsqrt_bridge.
generalize (Bsqrt_correct prec emax _ _ mode_NE bx).
rewrite RN_flocq, Rx.
intros (H1 & H2 & _). split.
- apply fin_of_B. rewrite H2.
  rewrite FR_B in Hpos.
  destruct bx as [s|s| |[|] m e B]; try reflexivity; try discriminate.
  exfalso. simpl in Hpos.
  assert (F2R (Float radix2 (Z.neg m) e) < 0) by now apply F2R_lt_0.
  lra.
- now rewrite FR_B.
Qed.

Lemma f_of_Z_spec n :
  Rabs (RN (IZR n)) < bpow radix2 1024 ->
  fin (f_of_Z n) /\ FR (f_of_Z n) = RN (IZR n).
Proof.
intros Hov. unfold f_of_Z. rewrite binary_normalize_equiv.
generalize (binary_normalize_correct prec emax _ _ mode_NE n 0 false).
cbv zeta.
replace (F2R (Float radix2 n 0)) with (IZR n) by (unfold F2R; simpl; ring).
rewrite RN_flocq, Rlt_bool_true by exact Hov.
intros (H1 & H2 & _). split.
- now apply fin_of_B.
- now rewrite FR_B.
Qed.
(* ------------------------------------------------------------------ *)
(** * 3. Generic facts about RN                                        *)

Lemma RN_le : forall x y, x <= y -> RN x <= RN y.
Proof. intros; apply round_le; [exact fexp64_valid | apply valid_rnd_N | assumption]. Qed.

Lemma RN_0 : RN 0 = 0.
Proof. unfold RN. apply round_0. apply valid_rnd_N. Qed.

Lemma RN_ge_0 : forall x, 0 <= x -> 0 <= RN x.
Proof. intros x Hx. rewrite <- RN_0. now apply RN_le. Qed.

Lemma RN_opp : forall x, RN (- x) = - RN x.
Proof. intros x. unfold RN. apply round_NE_opp. Qed.

Lemma format_RN : forall x, generic_format radix2 fexp64 (RN x).
Proof. intros x. unfold RN. apply generic_format_round. exact fexp64_valid. apply valid_rnd_N. Qed.

Lemma RN_id : forall x, generic_format radix2 fexp64 x -> RN x = x.
Proof. intros x Hx. unfold RN. apply round_generic; [apply valid_rnd_N | exact Hx]. Qed.

Lemma format_FR : forall x, fin x -> generic_format radix2 fexp64 (FR x).
Proof.
intros x Hx. destruct (fin_B x Hx) as (b & <- & _ & _).
rewrite FR_B. exact (generic_format_B2R prec emax b).
Qed.

Lemma format_bpow : forall e, (-1074 <= e)%Z -> generic_format radix2 fexp64 (bpow radix2 e).
Proof.
intros e He. apply generic_format_bpow. unfold fexp64, FLT_exp. lia.
Qed.

Lemma RN_no_overflow : forall x, Rabs x <= bpow radix2 1023 -> Rabs (RN x) < bpow radix2 1024.
Proof.
intros x Hx. apply Rle_lt_trans with (bpow radix2 1023).
- unfold RN. apply abs_round_le_generic; [exact fexp64_valid | apply valid_rnd_N | | exact Hx].
  apply format_bpow. lia.
- apply bpow_lt. lia.
Qed.

Lemma RN_int : forall n : Z, (Z.abs n <= 2^53)%Z -> RN (IZR n) = IZR n.
Proof.
intros n Hn. apply RN_id.
assert (Hc : (Z.abs n < 2^53 \/ Z.abs n = 2^53)%Z) by lia.
destruct Hc as [Hc|Hc].
- unfold fexp64. apply generic_format_FLT.
  exists (Float radix2 n 0).
  + unfold F2R; simpl. lra.
  + simpl. lia.
  + simpl. lia.
- assert (Hn' : (n = 2^53 \/ n = - 2^53)%Z) by lia.
  destruct Hn' as [-> | ->].
  + change (IZR (2^53)) with (bpow radix2 53). apply format_bpow. lia.
  + rewrite opp_IZR. apply generic_format_opp.
    change (IZR (2^53)) with (bpow radix2 53). apply format_bpow. lia.
Qed.

Lemma bpow_m53 : bpow radix2 (-53) = / 2 * bpow radix2 (- 53 + 1).
Proof. change (-53+1)%Z with (-52)%Z. change (-53)%Z with (-1 + -52)%Z. rewrite bpow_plus. simpl. lra. Qed.

Lemma RN_rel : forall x, bpow radix2 (-1022) <= Rabs x ->
  Rabs (RN x - x) <= bpow radix2 (-53) * Rabs x.
Proof.
intros x Hx. unfold RN, fexp64. rewrite bpow_m53.
apply relative_error_N_FLT; [reflexivity | exact Hx].
Qed.

Definition eps : R := bpow radix2 (-53).
Lemma eps_val : eps = / 9007199254740992.
Proof. unfold eps. simpl. lra. Qed.
Lemma eps_pos : 0 < eps.
Proof. apply bpow_gt_0. Qed.

Lemma RN_up : forall x, bpow radix2 (-1022) <= x -> RN x <= x * (1 + eps).
Proof. intros x Hx. assert (0 < bpow radix2 (-1022)) by apply bpow_gt_0.
 pose proof (RN_rel x) as H1. rewrite (Rabs_pos_eq x) in H1 by lra. specialize (H1 Hx).
 apply Rabs_le_inv in H1. unfold eps. lra. Qed.
Lemma RN_dn : forall x, bpow radix2 (-1022) <= x -> x * (1 - eps) <= RN x.
Proof. intros x Hx. assert (0 < bpow radix2 (-1022)) by apply bpow_gt_0.
 pose proof (RN_rel x) as H1. rewrite (Rabs_pos_eq x) in H1 by lra. specialize (H1 Hx).
 apply Rabs_le_inv in H1. unfold eps. lra. Qed.

(* a handy small lower bound: everything in our envelope is far above 2^-1022 *)
Lemma bpow_m1022_le : bpow radix2 (-1022) <= / 1267650600228229401496703205376. (* 2^-100 *)
Proof.
replace (/ 1267650600228229401496703205376) with (bpow radix2 (-100)) by (simpl; lra).
apply bpow_le. lia.
Qed.
Lemma bpow_1023_ge : 1267650600228229401496703205376 <= bpow radix2 1023.
Proof.
replace 1267650600228229401496703205376 with (bpow radix2 100) by (simpl; lra).
apply bpow_le. lia.
Qed.

(* the three forms used by the arithmetic proofs, for x in [2^-100, 2^100] *)
Lemma RN_up' : forall x, / 1267650600228229401496703205376 <= x -> RN x <= x * (1 + eps).
Proof. intros x Hx. apply RN_up. pose proof bpow_m1022_le. lra. Qed.
Lemma RN_dn' : forall x, / 1267650600228229401496703205376 <= x -> x * (1 - eps) <= RN x.
Proof. intros x Hx. apply RN_dn. pose proof bpow_m1022_le. lra. Qed.
Lemma RN_no_overflow' : forall x, 0 <= x <= 1267650600228229401496703205376 ->
  Rabs (RN x) < bpow radix2 1024.
Proof.
intros x Hx. apply RN_no_overflow. rewrite Rabs_pos_eq by lra.
pose proof bpow_1023_ge. lra.
Qed.
(* ------------------------------------------------------------------ *)
(** * 4. Integer parts                                                 *)

Lemma Zceil_div_pos : forall m d : Z, (0 < d)%Z ->
  Zceil (IZR m / IZR d) = ((m + d - 1) / d)%Z.
Proof.
intros m d Hd. unfold Zceil.
replace (- (IZR m / IZR d)) with (IZR (- m) / IZR d)
  by (rewrite opp_IZR; unfold Rdiv; ring).
rewrite Zfloor_div by lia.
apply Z.div_unique with (d - 1 - (- m) mod d)%Z.
- left. pose proof (Z.mod_pos_bound (- m) d Hd). lia.
- pose proof (Z.div_mod (- m) d). lia.
Qed.

Lemma FR_finite_neg : forall s m p,
  FR (S754_finite s m (Zneg p)) = IZR (cond_Zopp s (Zpos m)) / IZR (Z.pow_pos 2 p).
Proof. intros. reflexivity. Qed.

Lemma FR_finite_nonneg : forall s m e, (0 <= e)%Z ->
  FR (S754_finite s m e) = IZR (cond_Zopp s (Zpos m) * 2 ^ e).
Proof.
intros s m e He. unfold FR, SF2R, F2R. simpl Fnum. simpl Fexp.
rewrite mult_IZR. f_equal. symmetry. apply (IZR_Zpower radix2 e He).
Qed.

Lemma pow_pos_gt0 : forall p, (0 < Z.pow_pos 2 p)%Z.
Proof. intros p. change (Z.pow_pos 2 p) with (2 ^ Zpos p)%Z. apply Z.pow_pos_nonneg; lia. Qed.

Lemma Ropp_div_l : forall a b, - (a / b) = (- a) / b.
Proof. intros. unfold Rdiv. ring. Qed.

Lemma f_floor_spec : forall x, f_floor x = Zfloor (FR x).
Proof.
intros [s|s| |s m e]; try (symmetry; apply (Zfloor_IZR 0)).
destruct e as [|p|p].
- rewrite FR_finite_nonneg by lia. rewrite Zfloor_IZR. cbv beta iota zeta delta [f_floor]. destruct s; cbn [cond_Zopp]; [change (Z.neg m) with (- Z.pos m)%Z; ring | reflexivity].
- rewrite FR_finite_nonneg by lia. rewrite Zfloor_IZR. cbv beta iota zeta delta [f_floor]. destruct s; cbn [cond_Zopp]; [change (Z.neg m) with (- Z.pos m)%Z; ring | reflexivity].
- rewrite FR_finite_neg. pose proof (pow_pos_gt0 p) as Hd.
  cbv beta iota zeta delta [f_floor]. destruct s; simpl cond_Zopp.
  + change (Z.neg m) with (- Z.pos m)%Z. rewrite opp_IZR, <- Ropp_div_l.
    replace (Zfloor (- (IZR (Z.pos m) / IZR (Z.pow_pos 2 p))))
      with (- Zceil (IZR (Z.pos m) / IZR (Z.pow_pos 2 p)))%Z by (unfold Zceil; lia).
    now rewrite Zceil_div_pos.
  + rewrite Zfloor_div by lia. reflexivity.
Qed.

Lemma f_ceil_spec : forall x, f_ceil x = Zceil (FR x).
Proof.
intros [s|s| |s m e]; try (symmetry; apply (Zceil_IZR 0)).
destruct e as [|p|p].
- rewrite FR_finite_nonneg by lia. rewrite Zceil_IZR. cbv beta iota zeta delta [f_ceil]. destruct s; cbn [cond_Zopp]; [change (Z.neg m) with (- Z.pos m)%Z; ring | reflexivity].
- rewrite FR_finite_nonneg by lia. rewrite Zceil_IZR. cbv beta iota zeta delta [f_ceil]. destruct s; cbn [cond_Zopp]; [change (Z.neg m) with (- Z.pos m)%Z; ring | reflexivity].
- rewrite FR_finite_neg. pose proof (pow_pos_gt0 p) as Hd.
  cbv beta iota zeta delta [f_ceil]. destruct s; simpl cond_Zopp.
  + change (Z.neg m) with (- Z.pos m)%Z. rewrite opp_IZR, <- Ropp_div_l.
    unfold Zceil. rewrite Ropp_involutive. rewrite Zfloor_div by lia. reflexivity.
  + now rewrite Zceil_div_pos.
Qed.

Lemma f_trunc_spec : forall x, f_trunc x = Ztrunc (FR x).
Proof.
intros [s|s| |s m e]; try (symmetry; apply (Ztrunc_IZR 0)).
destruct e as [|p|p].
- rewrite FR_finite_nonneg by lia. rewrite Ztrunc_IZR. cbv beta iota zeta delta [f_trunc]. destruct s; cbn [cond_Zopp]; [change (Z.neg m) with (- Z.pos m)%Z; ring | reflexivity].
- rewrite FR_finite_nonneg by lia. rewrite Ztrunc_IZR. cbv beta iota zeta delta [f_trunc]. destruct s; cbn [cond_Zopp]; [change (Z.neg m) with (- Z.pos m)%Z; ring | reflexivity].
- pose proof (pow_pos_gt0 p) as Hd.
  assert (Hd' : 0 < IZR (Z.pow_pos 2 p)) by now apply IZR_lt.
  assert (Hq : 0 < IZR (Z.pos m) / IZR (Z.pow_pos 2 p)).
  { apply Rdiv_lt_0_compat; [now apply IZR_lt | exact Hd']. }
  destruct s.
  + rewrite Ztrunc_ceil.
    * rewrite <- f_ceil_spec. reflexivity.
    * rewrite FR_finite_neg. simpl cond_Zopp. change (Z.neg m) with (- Z.pos m)%Z.
      rewrite opp_IZR, <- Ropp_div_l. lra.
  + rewrite Ztrunc_floor.
    * rewrite <- f_floor_spec. reflexivity.
    * rewrite FR_finite_neg. simpl cond_Zopp. lra.
Qed.

(* ------------------------------------------------------------------ *)
(** * 5. Comparison                                                    *)

Lemma fleb_spec : forall x y, fin x -> fin y -> fleb x y = Rle_bool (FR x) (FR y).
Proof.
intros x y Hx Hy.
destruct (fin_B x Hx) as (bx & <- & Fx & Rx).
destruct (fin_B y Hy) as (by_ & <- & Fy & Ry).
rewrite <- Rx, <- Ry. exact (Bleb_correct prec emax bx by_ Fx Fy).
Qed.

Lemma fleb_true : forall x y, fin x -> fin y -> fleb x y = true -> FR x <= FR y.
Proof.
intros x y Hx Hy H. rewrite (fleb_spec x y Hx Hy) in H.
revert H. case Rle_bool_spec; [easy | discriminate].
Qed.

Lemma fleb_true_iff : forall x y, fin x -> fin y -> (fleb x y = true <-> FR x <= FR y).
Proof.
intros x y Hx Hy. split. now apply fleb_true.
intros H. rewrite (fleb_spec x y Hx Hy). now apply Rle_bool_true.
Qed.

Lemma fleb_nan_l : forall y, fleb S754_nan y = false.
Proof. reflexivity. Qed.
Lemma fleb_nan_r : forall x, fleb x S754_nan = false.
Proof. now intros [| | |]. Qed.

Lemma fltb_spec : forall x y, fin x -> fin y -> fltb x y = Rlt_bool (FR x) (FR y).
Proof.
intros x y Hx Hy.
destruct (fin_B x Hx) as (bx & <- & Fx & Rx).
destruct (fin_B y Hy) as (by_ & <- & Fy & Ry).
rewrite <- Rx, <- Ry. exact (Bltb_correct prec emax bx by_ Fx Fy).
Qed.

Lemma feqb_spec : forall x y, fin x -> fin y -> feqb x y = Req_bool (FR x) (FR y).
Proof.
intros x y Hx Hy.
destruct (fin_B x Hx) as (bx & <- & Fx & Rx).
destruct (fin_B y Hy) as (by_ & <- & Fy & Ry).
rewrite <- Rx, <- Ry. exact (Beqb_correct prec emax bx by_ Fx Fy).
Qed.
(* ------------------------------------------------------------------ *)
(** * 6. Python's round(x, nd)                                         *)

Lemma ZnearestE_opp : forall x, ZnearestE (- x) = (- ZnearestE x)%Z.
Proof.
intros x. rewrite Znearest_opp. f_equal.
unfold Znearest. case Rcompare; trivial.
apply (f_equal (fun (b : bool) => if b then Zceil x else Zfloor x)).
rewrite Bool.negb_involutive, Z.even_opp, Z.even_add.
now rewrite eqb_sym.
Qed.

Lemma ZnearestE_IZR : forall n, ZnearestE (IZR n) = n.
Proof. intros n. apply Znearest_imp. rewrite Rminus_diag_eq by reflexivity. rewrite Rabs_R0. lra. Qed.

Lemma ZnearestE_ge_0 : forall x, 0 <= x -> (0 <= ZnearestE x)%Z.
Proof.
intros x Hx. apply Z.le_trans with (Zfloor x).
- apply Zfloor_lub. exact Hx.
- apply Znearest_ge_floor.
Qed.

Lemma rne_div_spec : forall n d : Z, (0 < d)%Z ->
  rne_div n d = ZnearestE (IZR n / IZR d).
Proof.
intros n d Hd.
assert (Hd' : 0 < IZR d) by now apply IZR_lt.
pose proof (Z.div_mod n d ltac:(lia)) as Hn.
pose proof (Z.mod_pos_bound n d Hd) as Hr.
set (q := (n / d)%Z) in *. set (r := (n mod d)%Z) in *.
assert (Hx : IZR n / IZR d = IZR q + IZR r / IZR d).
{ rewrite Hn, plus_IZR, mult_IZR. field. lra. }
assert (Hr' : 0 <= IZR r < IZR d) by (split; [apply IZR_le | apply IZR_lt]; lia).
assert (Hfl : Zfloor (IZR n / IZR d) = q) by (apply Zfloor_div; lia).
unfold rne_div, Znearest. fold q r. rewrite Hfl.
replace (IZR n / IZR d - IZR q) with (IZR r / IZR d) by lra.
assert (Hce : (0 < r)%Z -> Zceil (IZR n / IZR d) = (q + 1)%Z).
{ intros Hr0. apply Zceil_imp. rewrite Hx, plus_IZR.
  replace (q + 1 - 1)%Z with q by lia.
  assert (0 < IZR r) by now apply IZR_lt.
  assert (0 < IZR r / IZR d) by now apply Rdiv_lt_0_compat.
  assert (IZR r / IZR d < 1).
  { apply Rmult_lt_reg_r with (IZR d). lra. unfold Rdiv.
    rewrite Rmult_assoc, Rinv_l by lra. lra. }
  lra. }
assert (Hcmp : Rcompare (IZR r / IZR d) (/ 2) = (2 * r ?= d)%Z).
{ assert (He : IZR r / IZR d - / 2 = (IZR (2 * r) - IZR d) * / (2 * IZR d)).
  { rewrite mult_IZR. field. lra. }
  assert (Hp : 0 < / (2 * IZR d)) by (apply Rinv_0_lt_compat; lra).
  case Z.compare_spec; intros Hc.
  - apply Rcompare_Eq. apply IZR_eq in Hc. rewrite Hc in He.
    assert (H0 : (IZR d - IZR d) * / (2 * IZR d) = 0) by ring. lra.
  - apply Rcompare_Lt. apply IZR_lt in Hc.
    assert ((IZR (2 * r) - IZR d) * / (2 * IZR d) < 0).
    { pose proof (Rmult_lt_compat_r _ (IZR (2 * r) - IZR d) 0 Hp ltac:(lra)). lra. }
    lra.
  - apply Rcompare_Gt. apply IZR_lt in Hc.
    assert (0 < (IZR (2 * r) - IZR d) * / (2 * IZR d)).
    { apply Rmult_lt_0_compat; lra. }
    lra. }
rewrite Hcmp.
case Z.compare_spec; intros Hc.
- rewrite Hce by lia. now destruct (Z.even q).
- reflexivity.
- rewrite Hce by lia. reflexivity.
Qed.

Lemma Rabs_FR_finite_neg : forall s m p,
  Rabs (FR (S754_finite s m (Zneg p))) = IZR (Zpos m) / IZR (Z.pow_pos 2 p).
Proof.
intros s m p. rewrite FR_finite_neg.
pose proof (pow_pos_gt0 p) as Hd. apply IZR_lt in Hd.
assert (0 < IZR (Z.pos m)) by now apply IZR_lt.
assert (0 < IZR (Z.pos m) / IZR (Z.pow_pos 2 p)) by now apply Rdiv_lt_0_compat.
destruct s; simpl cond_Zopp.
- change (Z.neg m) with (- Z.pos m)%Z. rewrite opp_IZR, <- Ropp_div_l, Rabs_Ropp.
  apply Rabs_pos_eq. lra.
- apply Rabs_pos_eq. lra.
Qed.

Lemma f_scaled_rne_spec : forall x nd, (0 <= nd)%Z ->
  f_scaled_rne x nd = ZnearestE (Rabs (FR x) * IZR (10 ^ nd)).
Proof.
intros [s|s| |s m e] nd Hnd;
  try (unfold FR; simpl SF2R; rewrite Rabs_R0, Rmult_0_l; symmetry; apply (ZnearestE_IZR 0)).
assert (Hnn : forall e', (0 <= e')%Z ->
  (Z.pos m * 10 ^ nd * 2 ^ e')%Z =
  ZnearestE (Rabs (FR (S754_finite s m e')) * IZR (10 ^ nd))).
{ intros e' He'. rewrite FR_finite_nonneg by exact He'.
  rewrite <- abs_IZR, <- mult_IZR, ZnearestE_IZR.
  assert (0 < 2 ^ e')%Z by (apply Z.pow_pos_nonneg; lia).
  destruct s; simpl cond_Zopp; nia. }
destruct e as [|p|p].
- apply (Hnn 0%Z). lia.
- apply (Hnn (Z.pos p)). lia.
- cbv beta iota zeta delta [f_scaled_rne].
  rewrite rne_div_spec by apply pow_pos_gt0.
  rewrite Rabs_FR_finite_neg, mult_IZR. f_equal.
  pose proof (pow_pos_gt0 p) as Hd. apply IZR_lt in Hd.
  field. lra.
Qed.
Lemma FR_finite_sign : forall s m e,
  FR (S754_finite s m e) = cond_Ropp s (Rabs (FR (S754_finite s m e))).
Proof.
intros s m e. unfold FR, SF2R. rewrite F2R_cond_Zopp, abs_cond_Ropp.
rewrite Rabs_pos_eq. reflexivity. apply Rlt_le. now apply F2R_gt_0.
Qed.

Lemma F2R_exp0 : forall n : Z, F2R (Float radix2 n 0) = IZR n.
Proof. intros n. unfold F2R. simpl. ring. Qed.

Lemma f_round_nd_spec : forall x nd, f_is_finite x = true -> (0 <= nd)%Z ->
  Rabs (RN (IZR (ZnearestE (FR x * IZR (10 ^ nd))) / IZR (10 ^ nd))) < bpow radix2 1024 ->
  fin (f_round_nd x nd) /\
  FR (f_round_nd x nd) = RN (IZR (ZnearestE (FR x * IZR (10 ^ nd))) / IZR (10 ^ nd)).
Proof.
intros x nd Hf Hnd.
assert (HT : (0 < 10 ^ nd)%Z) by (apply Z.pow_pos_nonneg; lia).
destruct x as [s|s| |s m e]; try discriminate.
- intros _. unfold FR at 2. simpl SF2R. rewrite Rmult_0_l.
  rewrite (ZnearestE_IZR 0). unfold Rdiv. rewrite Rmult_0_l, RN_0.
  split; [split; reflexivity | reflexivity].
- set (x := S754_finite s m e).
  pose proof (f_scaled_rne_spec x nd Hnd) as HN.
  assert (HN0 : (0 <= f_scaled_rne x nd)%Z).
  { rewrite HN. apply ZnearestE_ge_0. apply Rmult_le_pos. apply Rabs_pos.
    apply IZR_le. lia. }
  assert (Hs : ZnearestE (FR x * IZR (10 ^ nd)) = cond_Zopp s (f_scaled_rne x nd)).
  { rewrite HN. unfold x at 1. rewrite FR_finite_sign. fold x.
    destruct s; simpl cond_Ropp; simpl cond_Zopp.
    - rewrite <- Ropp_mult_distr_l. apply ZnearestE_opp.
    - reflexivity. }
  rewrite Hs. clear HN Hs.
  unfold f_round_nd. fold x.
  destruct (f_scaled_rne x nd) as [|P|P]; [ | | lia]; unfold x; cbv iota.
  + intros _. replace (cond_Zopp s 0) with 0%Z by now destruct s.
    unfold Rdiv. rewrite Rmult_0_l, RN_0.
    split; [split; reflexivity | reflexivity].
  + intros Hov.
    set (D := Z.to_pos (10 ^ nd)).
    assert (HD : Z.pos D = (10 ^ nd)%Z) by (unfold D; apply Z2Pos.id; exact HT).
    generalize (Bdiv_correct_aux prec emax Hprec Hmax mode_NE s P 0 false D 0).
    cbv zeta. rewrite !F2R_exp0. simpl (cond_Zopp false _).
    assert (HD' : IZR (Z.pos D) = IZR (10 ^ nd)) by now rewrite HD.
    rewrite HD'. clear HD'.
    unfold SFdiv.
    destruct (SFdiv_core_binary prec emax (Z.pos P) 0 (Z.pos D) 0) as [[mz ez] lz].
    rewrite binary_round_aux_equiv.
    set (z := binary_round_aux prec emax mode_NE (xorb s false) mz ez lz).
    rewrite RN_flocq, Rlt_bool_true by exact Hov.
    intros (H1 & H2 & H3 & _).
    split; [split | ].
    * exact H1.
    * rewrite f_is_finite_SF. exact H3.
    * exact H2.
Qed.

(* ------------------------------------------------------------------ *)
(** * 7. round(v, 4) at the real level and the two lemmas used everywhere *)

Definition R4 (v : R) : R := RN (IZR (ZnearestE (v * 10000)) / 10000).

Lemma f_round_4_spec : forall x, fin x ->
  Rabs (FR x) <= 633825300114114700748351602688 (* 2^99 *) ->
  fin (f_round_nd x 4) /\ FR (f_round_nd x 4) = R4 (FR x).
Proof.
intros x [_ Hf] Hx. unfold R4.
change 10000 with (IZR (10 ^ 4)).
apply f_round_nd_spec; [exact Hf | lia | ].
apply RN_no_overflow.
set (N := ZnearestE (FR x * IZR (10 ^ 4))).
pose proof (Znearest_half (fun n => negb (Z.even n)) (FR x * IZR (10 ^ 4))) as Hh.
fold N in Hh.
change (IZR (10 ^ 4)) with 10000 in *.
apply Rle_trans with 1267650600228229401496703205376; [ | apply bpow_1023_ge].
assert (Rabs (IZR N) <= Rabs (FR x) * 10000 + / 2).
{ replace (IZR N) with (FR x * 10000 - (FR x * 10000 - IZR N)) by ring.
  eapply Rle_trans. apply Rabs_triang. rewrite Rabs_Ropp.
  rewrite Rabs_mult, (Rabs_pos_eq 10000) by lra. lra. }
unfold Rdiv. rewrite Rabs_mult, (Rabs_pos_eq (/ 10000)) by lra. lra.
Qed.

Lemma R4_down : forall (k : Z) (v : R), (Z.abs k <= 2^31)%Z -> v < IZR k + /20000 -> R4 v <= IZR k.
Proof.
intros k v Hk Hv. unfold R4.
assert (HN : (ZnearestE (v * 10000) <= k * 10000)%Z).
{ pose proof (Znearest_half (fun n => negb (Z.even n)) (v * 10000)) as Hh.
  apply Rabs_le_inv in Hh.
  assert (IZR (ZnearestE (v * 10000)) < IZR (k * 10000 + 1)).
  { rewrite plus_IZR, mult_IZR. lra. }
  apply lt_IZR in H. lia. }
rewrite <- (RN_int k) by lia.
apply RN_le.
apply IZR_le in HN. rewrite mult_IZR in HN. lra.
Qed.

Lemma R4_up : forall (k : Z) (v : R), (Z.abs k <= 2^31)%Z -> IZR k - /20000 < v -> IZR k <= R4 v.
Proof.
intros k v Hk Hv. unfold R4.
assert (HN : (k * 10000 <= ZnearestE (v * 10000))%Z).
{ pose proof (Znearest_half (fun n => negb (Z.even n)) (v * 10000)) as Hh.
  apply Rabs_le_inv in Hh.
  assert (IZR (k * 10000 - 1) < IZR (ZnearestE (v * 10000))).
  { rewrite minus_IZR, mult_IZR. lra. }
  apply lt_IZR in H. lia. }
rewrite <- (RN_int k) by lia.
apply RN_le.
apply IZR_le in HN. rewrite mult_IZR in HN. lra.
Qed.

(* (R-down) and (R-up) in the form the arithmetic proofs consume *)
Lemma ceil_R4_le : forall (k : Z) (v : R), (Z.abs k <= 2^31)%Z ->
  v < IZR k + /20000 -> (Zceil (R4 v) <= k)%Z.
Proof. intros k v Hk Hv. apply Zceil_glb. now apply R4_down. Qed.

Lemma floor_R4_ge : forall (k : Z) (v : R), (Z.abs k <= 2^31)%Z ->
  IZR k - /20000 < v -> (k <= Zfloor (R4 v))%Z.
Proof. intros k v Hk Hv. apply Zfloor_lub. now apply R4_up. Qed.

Lemma R4_ge_0 : forall v, 0 <= v -> 0 <= R4 v.
Proof.
intros v Hv. unfold R4. apply RN_ge_0.
apply Rmult_le_pos; [ | lra].
apply IZR_le. apply ZnearestE_ge_0. lra.
Qed.

Lemma R4_le : forall u v, u <= v -> R4 u <= R4 v.
Proof.
intros u v H. unfold R4. apply RN_le.
apply Rmult_le_compat_r; [lra | ].
apply IZR_le. apply Zrnd_le; [apply valid_rnd_N | lra].
Qed.

(* ------------------------------------------------------------------ *)
(** * 8. Integers and a few constants                                  *)

Lemma f_of_Z_exact : forall n : Z, (Z.abs n <= 2^53)%Z ->
  fin (f_of_Z n) /\ FR (f_of_Z n) = IZR n.
Proof.
intros n Hn. destruct (f_of_Z_spec n) as [H1 H2].
- rewrite RN_int by exact Hn.
  apply Rle_lt_trans with (bpow radix2 53).
  + change (bpow radix2 53) with (IZR (2^53)). rewrite <- abs_IZR. now apply IZR_le.
  + apply bpow_lt. lia.
- rewrite RN_int in H2 by exact Hn. now split.
Qed.

Lemma FR_nonzero_not_zero : forall x, FR x <> 0 ->
  match x with S754_zero _ => False | _ => True end.
Proof. intros [s|s| |s m e] H; try exact I. now apply H. Qed.

Lemma mkF_spec : forall m e,
  Rabs (RN (F2R (Float radix2 m e))) < bpow radix2 1024 ->
  fin (mkF m e) /\ FR (mkF m e) = RN (F2R (Float radix2 m e)).
Proof.
intros m e Hov. unfold mkF. rewrite binary_normalize_equiv.
generalize (binary_normalize_correct prec emax _ _ mode_NE m e false).
cbv zeta.
rewrite RN_flocq, Rlt_bool_true by exact Hov.
intros (H1 & H2 & _). split.
- now apply fin_of_B.
- now rewrite FR_B.
Qed.

(* sign and zero tests of positive numbers *)
Lemma fin_pos_shape : forall x, fin x -> 0 < FR x ->
  f_sign x = false /\ f_is_nan x = false /\
  match x with S754_zero _ => false | _ => true end = true.
Proof.
intros [s|s| |s m e] [_ Hf] Hpos; try discriminate;
  try (unfold FR in Hpos; simpl in Hpos; lra).
destruct s; [ | now repeat split].
exfalso. unfold FR in Hpos. simpl in Hpos.
assert (F2R (Float radix2 (Z.neg m) e) < 0) by now apply F2R_lt_0.
lra.
Qed.

Print Assumptions fmul_spec.
Print Assumptions f_round_nd_spec.
Print Assumptions f_ceil_spec.
