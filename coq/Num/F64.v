(* Executable binary64 arithmetic on the standard library's SpecFloat (no proofs here).
   Everything is plain Z/positive computation: safe under vm_compute, no axioms.      *)
From Coq Require Import ZArith Bool List SpecFloat.
Import ListNotations.
Open Scope Z_scope.

Definition prec : Z := 53.
Definition emax : Z := 1024.
Notation f64 := spec_float.

Definition fmul : f64 -> f64 -> f64 := SFmul prec emax.
Definition fdiv : f64 -> f64 -> f64 := SFdiv prec emax.
Definition fadd : f64 -> f64 -> f64 := SFadd prec emax.
Definition fsub : f64 -> f64 -> f64 := SFsub prec emax.
Definition fsqrt : f64 -> f64 := SFsqrt prec emax.
Definition fneg : f64 -> f64 := SFopp.

(* float(int): correctly rounded (round to nearest even) *)
Definition f_of_Z (z : Z) : f64 := binary_normalize prec emax z 0 false.

(* literal from float.hex(): value = m * 2^e exactly (harness guarantees it is a double) *)
Definition mkF (m e : Z) : f64 := binary_normalize prec emax m e false.

Definition f_is_finite (x : f64) : bool :=
  match x with S754_zero _ | S754_finite _ _ _ => true | _ => false end.
Definition f_is_nan (x : f64) : bool :=
  match x with S754_nan => true | _ => false end.

Definition feqb (x y : f64) : bool := SFeqb x y.
Definition fltb (x y : f64) : bool := SFltb x y.
Definition fleb (x y : f64) : bool := SFleb x y.

(* exact integer parts. Only meaningful on finite values; callers test finiteness. *)
Definition f_floor (x : f64) : Z :=
  match x with
  | S754_finite s m e =>
      match e with
      | Zneg p => let d := Z.pow_pos 2 p in
                  if s then - ((Zpos m + d - 1) / d) else Zpos m / d
      | _ => let v := Zpos m * 2 ^ e in if s then - v else v
      end
  | _ => 0
  end.

Definition f_ceil (x : f64) : Z :=
  match x with
  | S754_finite s m e =>
      match e with
      | Zneg p => let d := Z.pow_pos 2 p in
                  if s then - (Zpos m / d) else (Zpos m + d - 1) / d
      | _ => let v := Zpos m * 2 ^ e in if s then - v else v
      end
  | _ => 0
  end.

(* int(float): truncation toward zero *)
Definition f_trunc (x : f64) : Z :=
  match x with
  | S754_finite s m e =>
      match e with
      | Zneg p => let d := Z.pow_pos 2 p in
                  if s then - (Zpos m / d) else Zpos m / d
      | _ => let v := Zpos m * 2 ^ e in if s then - v else v
      end
  | _ => 0
  end.

(* nearest integer, ties to even, of the non-negative rational n/d (d > 0) *)
Definition rne_div (n d : Z) : Z :=
  let q := n / d in
  let r := n mod d in
  match Z.compare (2 * r) d with
  | Lt => q
  | Gt => q + 1
  | Eq => if Z.even q then q else q + 1
  end.

(* |x| * 10^nd rounded half-even to an integer (x finite) *)
Definition f_scaled_rne (x : f64) (nd : Z) : Z :=
  match x with
  | S754_finite _ m e =>
      let n := Zpos m * 10 ^ nd in
      match e with
      | Zneg p => rne_div n (Z.pow_pos 2 p)
      | _ => n * 2 ^ e
      end
  | _ => 0
  end.

Definition f_sign (x : f64) : bool :=
  match x with
  | S754_zero s | S754_infinity s | S754_finite s _ _ => s
  | S754_nan => false
  end.

(* Python's round(x, nd) for a float x and nd >= 0:
   the double nearest to (x rounded half-even to nd decimals, computed exactly). *)
Definition f_round_nd (x : f64) (nd : Z) : f64 :=
  match x with
  | S754_finite s _ _ =>
      match f_scaled_rne x nd with
      | Zpos N => SFdiv prec emax (S754_finite s N 0) (S754_finite false (Z.to_pos (10 ^ nd)) 0)
      | _ => S754_zero s
      end
  | _ => x
  end.

(* Python's round(x) -> int, half even *)
Definition f_round_int (x : f64) : Z :=
  let n := f_scaled_rne x 0 in if f_sign x then - n else n.

Definition f_is_integer (x : f64) : bool :=
  match x with
  | S754_zero _ => true
  | S754_finite _ _ _ => Z.eqb (f_floor x) (f_ceil x)
  | _ => false
  end.

(* exact comparison of an integer with a finite float: compare z with (-1)^s m 2^e *)
Definition cmp_Z_f (z : Z) (x : f64) : option comparison :=
  match x with
  | S754_nan => None
  | S754_infinity s => Some (if s then Gt else Lt)
  | S754_zero _ => Some (Z.compare z 0)
  | S754_finite s m e =>
      let v := if s then Zneg m else Zpos m in
      match e with
      | Zneg p => Some (Z.compare (z * Z.pow_pos 2 p) v)
      | _ => Some (Z.compare z (v * 2 ^ e))
      end
  end.

(* canonical printable form for the harness: (sign, mantissa, exponent) with odd mantissa,
   zero -> (s,0,0), inf -> (s,-1,0), nan -> (false,-2,0) *)
Fixpoint strip_pos (fuel : nat) (m : positive) (e : Z) : positive * Z :=
  match fuel, m with
  | S k, xO m' => strip_pos k m' (e + 1)
  | _, _ => (m, e)
  end.
Definition f_canon (x : f64) : bool * Z * Z :=
  match x with
  | S754_zero s => (s, 0, 0)
  | S754_infinity s => (s, -1, 0)
  | S754_nan => (false, -2, 0)
  | S754_finite s m e => let '(m', e') := strip_pos 64 m e in (s, Zpos m', e')
  end.
