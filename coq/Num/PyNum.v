(* A dynamically typed value domain with CPython's semantics for the operations the
   translated functions use.  The translator (harness/translate) does no typing at all:
   int/float coercion, exceptions, truthiness are decided here, exactly as CPython does.
   Executable; no proofs in this file.                                                  *)
From Coq Require Import ZArith Bool List String Ascii SpecFloat.
From SSJ Require Import F64.
Import ListNotations.
Open Scope Z_scope.
Open Scope string_scope.

Inductive pyval :=
| PInt (z : Z)
| PFloat (f : f64)
| PStr (s : string)
| PBool (b : bool)
| PNone
| PList (l : list pyval)
| PTuple (l : list pyval)
| PDict (l : list pyval)      (* insertion-ordered; every element is PTuple [k; v] *)
| PExc (e : string).          (* a raised exception, by class name; strict propagation *)

Definition is_exc (v : pyval) : bool := match v with PExc _ => true | _ => false end.

(* bind: an exception value aborts (fail), anything else continues (k) *)
Definition bindx {A : Type} (e : pyval) (fail : pyval -> A) (k : pyval -> A) : A :=
  match e with PExc _ => fail e | _ => k e end.

(* strict application helpers *)
Definition strict1 (f : pyval -> pyval) (a : pyval) : pyval :=
  match a with PExc _ => a | _ => f a end.
Definition strict2 (f : pyval -> pyval -> pyval) (a b : pyval) : pyval :=
  match a with PExc _ => a | _ => match b with PExc _ => b | _ => f a b end end.

Inductive num := NI (z : Z) | NF (f : f64).
Definition num_of (v : pyval) : option num :=
  match v with
  | PInt z => Some (NI z)
  | PBool b => Some (NI (if b then 1 else 0))
  | PFloat f => Some (NF f)
  | _ => None
  end.
Definition to_f (n : num) : f64 := match n with NI z => f_of_Z z | NF f => f end.

Definition TypeError := PExc "TypeError".
Definition ValueError := PExc "ValueError".
Definition ZeroDivisionError := PExc "ZeroDivisionError".
Definition OverflowError := PExc "OverflowError".
Definition KeyError := PExc "KeyError".
Definition IndexError := PExc "IndexError".
Definition AssertionError := PExc "AssertionError".

Definition arith (fi : Z -> Z -> Z) (ff : f64 -> f64 -> f64) (a b : pyval) : pyval :=
  match num_of a, num_of b with
  | Some (NI x), Some (NI y) => PInt (fi x y)
  | Some x, Some y => PFloat (ff (to_f x) (to_f y))
  | _, _ => TypeError
  end.

Definition py_add : pyval -> pyval -> pyval :=
  strict2 (fun a b =>
    match a, b with
    | PStr x, PStr y => PStr (x ++ y)
    | PList x, PList y => PList (x ++ y)%list
    | _, _ => arith Z.add fadd a b
    end).
Definition py_sub : pyval -> pyval -> pyval := strict2 (arith Z.sub fsub).
Definition py_mul : pyval -> pyval -> pyval := strict2 (arith Z.mul fmul).

(* int / int: the correctly rounded quotient, as CPython computes it *)
Definition int_truediv (x y : Z) : f64 :=
  match x, y with
  | Z0, _ => S754_zero (Z.ltb y 0)
  | _, Z0 => S754_nan
  | _, _ => SFdiv prec emax
              (S754_finite (Z.ltb x 0) (Z.to_pos (Z.abs x)) 0)
              (S754_finite (Z.ltb y 0) (Z.to_pos (Z.abs y)) 0)
  end.

Definition f_is_zero (f : f64) : bool := match f with S754_zero _ => true | _ => false end.

Definition py_truediv : pyval -> pyval -> pyval :=
  strict2 (fun a b =>
    match num_of a, num_of b with
    | Some (NI x), Some (NI y) =>
        if Z.eqb y 0 then ZeroDivisionError else PFloat (int_truediv x y)
    | Some x, Some y =>
        if f_is_zero (to_f y) then ZeroDivisionError else PFloat (fdiv (to_f x) (to_f y))
    | _, _ => TypeError
    end).

Definition py_neg : pyval -> pyval :=
  strict1 (fun a => match num_of a with
                    | Some (NI x) => PInt (- x)
                    | Some (NF f) => PFloat (fneg f)
                    | None => TypeError end).

(* numeric comparison: exact, also for int vs float *)
Definition num_cmp (x y : num) : option comparison :=
  match x, y with
  | NI a, NI b => Some (Z.compare a b)
  | NF a, NF b => SFcompare a b
  | NI a, NF b => cmp_Z_f a b
  | NF a, NI b => option_map CompOpp (cmp_Z_f b a)
  end.

Fixpoint pv_eqb (a b : pyval) {struct a} : bool :=
  let fix go (xs ys : list pyval) {struct xs} : bool :=
      match xs, ys with
      | [], [] => true
      | x :: xs', y :: ys' => pv_eqb x y && go xs' ys'
      | _, _ => false
      end in
  match a, b with
  | PStr x, PStr y => String.eqb x y
  | PNone, PNone => true
  | PList x, PList y => go x y
  | PTuple x, PTuple y => go x y
  | PDict x, PDict y => go x y          (* order-sensitive: adequate for our uses *)
  | PExc x, PExc y => String.eqb x y
  | _, _ =>
      match num_of a, num_of b with
      | Some x, Some y => match num_cmp x y with Some Eq => true | _ => false end
      | _, _ => false
      end
  end.

Definition py_eq : pyval -> pyval -> pyval := strict2 (fun a b => PBool (pv_eqb a b)).
Definition py_ne : pyval -> pyval -> pyval := strict2 (fun a b => PBool (negb (pv_eqb a b))).

Definition ord_cmp (a b : pyval) : option (option comparison) :=
  (* None: unorderable types (TypeError); Some None: unordered (NaN) *)
  match a, b with
  | PStr x, PStr y => Some (Some (String.compare x y))
  | _, _ => match num_of a, num_of b with
            | Some x, Some y => Some (num_cmp x y)
            | _, _ => None
            end
  end.
Definition py_ord (test : comparison -> bool) : pyval -> pyval -> pyval :=
  strict2 (fun a b =>
    match ord_cmp a b with
    | None => TypeError
    | Some None => PBool false
    | Some (Some c) => PBool (test c)
    end).
Definition py_lt := py_ord (fun c => match c with Lt => true | _ => false end).
Definition py_le := py_ord (fun c => match c with Gt => false | _ => true end).
Definition py_gt := py_ord (fun c => match c with Gt => true | _ => false end).
Definition py_ge := py_ord (fun c => match c with Lt => false | _ => true end).

Definition py_truth (v : pyval) : bool :=
  match v with
  | PInt z => negb (Z.eqb z 0)
  | PFloat f => negb (f_is_zero f)
  | PStr s => negb (String.eqb s "")
  | PBool b => b
  | PNone => false
  | PList l | PTuple l | PDict l => match l with [] => false | _ => true end
  | PExc _ => false
  end.

(* `if c: a else: b` as an expression over values; a raised condition propagates *)
Definition py_if (c : pyval) (a b : pyval) : pyval :=
  match c with PExc _ => c | _ => if py_truth c then a else b end.
Definition py_not : pyval -> pyval := strict1 (fun a => PBool (negb (py_truth a))).
Definition py_and (a b : pyval) : pyval :=
  match a with PExc _ => a | _ => if py_truth a then b else a end.
Definition py_or (a b : pyval) : pyval :=
  match a with PExc _ => a | _ => if py_truth a then a else b end.
Definition py_is_none : pyval -> pyval :=
  strict1 (fun a => PBool (match a with PNone => true | _ => false end)).
Definition py_is_not_none : pyval -> pyval :=
  strict1 (fun a => PBool (match a with PNone => false | _ => true end)).

Definition py_int : pyval -> pyval :=
  strict1 (fun a => match a with
    | PInt z => PInt z
    | PBool b => PInt (if b then 1 else 0)
    | PFloat f => if f_is_finite f then PInt (f_trunc f)
                  else if f_is_nan f then ValueError else OverflowError
    | _ => TypeError end).
Definition py_float : pyval -> pyval :=
  strict1 (fun a => match num_of a with Some n => PFloat (to_f n) | None => TypeError end).
Definition py_ceil : pyval -> pyval :=
  strict1 (fun a => match num_of a with
    | Some (NI z) => PInt z
    | Some (NF f) => if f_is_finite f then PInt (f_ceil f)
                     else if f_is_nan f then ValueError else OverflowError
    | None => TypeError end).
Definition py_floor : pyval -> pyval :=
  strict1 (fun a => match num_of a with
    | Some (NI z) => PInt z
    | Some (NF f) => if f_is_finite f then PInt (f_floor f)
                     else if f_is_nan f then ValueError else OverflowError
    | None => TypeError end).
Definition py_sqrt : pyval -> pyval :=
  strict1 (fun a => match num_of a with
    | Some n => let f := to_f n in
                if f_is_nan f then PFloat f
                else if andb (f_sign f) (negb (f_is_zero f)) then ValueError
                else PFloat (fsqrt f)
    | None => TypeError end).
(* round(x, nd) *)
Definition py_round2 : pyval -> pyval -> pyval :=
  strict2 (fun a nd => match nd with
    | PInt k =>
        if Z.ltb k 0 then PExc "Unsupported" else
        match num_of a with
        | Some (NI z) => PInt z
        | Some (NF f) => PFloat (f_round_nd f k)
        | None => TypeError end
    | _ => TypeError end).
(* round(x) *)
Definition py_round1 : pyval -> pyval :=
  strict1 (fun a => match num_of a with
    | Some (NI z) => PInt z
    | Some (NF f) => if f_is_finite f then PInt (f_round_int f)
                     else if f_is_nan f then ValueError else OverflowError
    | None => TypeError end).

(* min(a, b) / max(a, b): CPython keeps the first argument on ties *)
Definition py_min (a b : pyval) : pyval :=
  match py_lt b a with PExc e => PExc e | c => if py_truth c then b else a end.
Definition py_max (a b : pyval) : pyval :=
  match py_gt b a with PExc e => PExc e | c => if py_truth c then b else a end.

Definition py_maxsize : pyval := PInt 9223372036854775807.

(* ---- containers ---- *)
Definition py_len : pyval -> pyval :=
  strict1 (fun a => match a with
    | PList l | PTuple l | PDict l => PInt (Z.of_nat (List.length l))
    | PStr s => PInt (Z.of_nat (String.length s))
    | _ => TypeError end).

Definition norm_index (n : nat) (i : Z) : option nat :=
  let i' := if Z.ltb i 0 then i + Z.of_nat n else i in
  if Z.ltb i' 0 then None else if Z.ltb i' (Z.of_nat n) then Some (Z.to_nat i') else None.

Fixpoint dict_lookup (d : list pyval) (k : pyval) : option pyval :=
  match d with
  | [] => None
  | PTuple [k'; v] :: d' => if pv_eqb k' k then Some v else dict_lookup d' k
  | _ :: d' => dict_lookup d' k
  end.
Fixpoint dict_store (d : list pyval) (k v : pyval) : list pyval :=
  match d with
  | [] => [PTuple [k; v]]
  | (PTuple [k'; _] as e) :: d' =>
      if pv_eqb k' k then PTuple [k'; v] :: d' else e :: dict_store d' k v
  | e :: d' => e :: dict_store d' k v
  end.

Definition py_getitem : pyval -> pyval -> pyval :=
  strict2 (fun a i => match a, i with
    | PList l, PInt k | PTuple l, PInt k =>
        match norm_index (List.length l) k with
        | Some n => nth n l IndexError
        | None => IndexError end
    | PDict d, _ => match dict_lookup d i with Some v => v | None => KeyError end
    | _, _ => TypeError end).
Definition py_dict_get3 : pyval -> pyval -> pyval -> pyval :=
  fun d k dflt => strict2 (fun d k => match d with
    | PDict l => match dict_lookup l k with Some v => v | None => dflt end
    | _ => TypeError end) d k.
Definition py_dict_get2 (d k : pyval) : pyval := py_dict_get3 d k PNone.
Definition py_setitem (d k v : pyval) : pyval :=   (* returns the updated container *)
  match d, k, v with
  | PExc _, _, _ => d | _, PExc _, _ => k | _, _, PExc _ => v
  | PDict l, _, _ => PDict (dict_store l k v)
  | _, _, _ => TypeError
  end.
Definition py_append : pyval -> pyval -> pyval :=
  strict2 (fun l x => match l with PList xs => PList (xs ++ [x])%list | _ => TypeError end).
Definition py_insert0 : pyval -> pyval -> pyval :=
  strict2 (fun l x => match l with PList xs => PList (x :: xs) | _ => TypeError end).

Fixpoint mem_pv (x : pyval) (l : list pyval) : bool :=
  match l with [] => false | y :: l' => pv_eqb y x || mem_pv x l' end.
Definition dict_keys (d : list pyval) : list pyval :=
  map (fun e => match e with PTuple (k :: _) => k | _ => PNone end) d.
Definition py_in : pyval -> pyval -> pyval :=
  strict2 (fun x c => match c with
    | PList l | PTuple l => PBool (mem_pv x l)
    | PDict d => PBool (mem_pv x (dict_keys d))
    | _ => TypeError end).
Definition py_not_in (x c : pyval) : pyval := py_not (py_in x c).

Fixpoint index_of (x : pyval) (l : list pyval) (i : Z) : option Z :=
  match l with
  | [] => None
  | y :: l' => if pv_eqb y x then Some i else index_of x l' (i + 1)
  end.
Definition py_index : pyval -> pyval -> pyval :=
  strict2 (fun c x => match c with
    | PList l | PTuple l => match index_of x l 0 with Some i => PInt i | None => ValueError end
    | _ => TypeError end).

Definition py_range (a b : pyval) : pyval :=
  match a, b with
  | PExc _, _ => a | _, PExc _ => b
  | PInt x, PInt y => PList (map (fun k => PInt (x + Z.of_nat k)) (seq 0 (Z.to_nat (y - x))))
  | _, _ => TypeError
  end.

(* iteration: the element sequence, or an exception *)
Definition py_iter (v : pyval) : list pyval + pyval :=
  match v with
  | PList l | PTuple l => inl l
  | PDict d => inl (dict_keys d)
  | PExc _ => inr v
  | _ => inr TypeError
  end.

Definition clamp (n : nat) (i : Z) : nat :=
  let i' := if Z.ltb i 0 then Z.max 0 (i + Z.of_nat n) else Z.min i (Z.of_nat n) in Z.to_nat i'.
Definition py_slice : pyval -> pyval -> pyval -> pyval :=
  fun l lo hi => match l, lo, hi with
    | PExc _, _, _ => l | _, PExc _, _ => lo | _, _, PExc _ => hi
    | PList xs, PInt a, PInt b =>
        let n := List.length xs in
        let a' := clamp n a in let b' := clamp n b in
        PList (firstn (b' - a') (skipn a' xs))
    | _, _, _ => TypeError end.

(* ---- strings ---- *)
Definition ascii_upper (c : ascii) : ascii :=
  let n := nat_of_ascii c in
  if andb (Nat.leb 97 n) (Nat.leb n 122) then ascii_of_nat (n - 32) else c.
Fixpoint str_upper (s : string) : string :=
  match s with EmptyString => EmptyString | String c s' => String (ascii_upper c) (str_upper s') end.
Definition py_upper : pyval -> pyval :=
  strict1 (fun a => match a with PStr s => PStr (str_upper s) | _ => PExc "AttributeError" end).

(* ---- list(), dict views, sorting ---- *)
Definition py_list : pyval -> pyval :=
  strict1 (fun a => match a with
    | PList l | PTuple l => PList l
    | PDict d => PList (dict_keys d)
    | _ => TypeError end).
Definition py_items : pyval -> pyval :=
  strict1 (fun a => match a with PDict d => PList d | _ => PExc "AttributeError" end).
Definition py_keys : pyval -> pyval :=
  strict1 (fun a => match a with PDict d => PList (dict_keys d) | _ => PExc "AttributeError" end).

Definition pv_leb (a b : pyval) : bool :=
  match ord_cmp a b with Some (Some Gt) => false | Some _ => true | None => true end.
Definition orderable_kind (v : pyval) : Z :=
  match v with PStr _ => 1 | PInt _ | PBool _ | PFloat _ => 2 | _ => 0 end.
Definition all_orderable (l : list pyval) : bool :=
  match l with
  | [] => true
  | x :: _ => let k := orderable_kind x in
              negb (Z.eqb k 0) && forallb (fun y => Z.eqb (orderable_kind y) k) l
  end.
(* stable insertion sort by key *)
Fixpoint ins_by (key : pyval -> pyval) (x : pyval) (l : list pyval) : list pyval :=
  match l with
  | [] => [x]
  | y :: l' => if pv_leb (key y) (key x) then y :: ins_by key x l' else x :: l
  end.
Definition sort_by (key : pyval -> pyval) (l : list pyval) : list pyval :=
  fold_left (fun acc x => ins_by key x acc) l [].
Definition item_key (k : Z) (v : pyval) : pyval :=
  match v with
  | PTuple l | PList l => match norm_index (List.length l) k with
                          | Some n => nth n l IndexError | None => IndexError end
  | _ => TypeError
  end.
Definition py_sorted_by (key : pyval -> pyval) : pyval -> pyval :=
  strict1 (fun a => match a with
    | PList l | PTuple l =>
        let ks := map key l in
        match find is_exc ks with
        | Some e => e
        | None => if all_orderable ks then PList (sort_by key l) else TypeError
        end
    | _ => TypeError end).
Definition py_sorted_item (k : Z) : pyval -> pyval := py_sorted_by (item_key k).
Definition py_sort : pyval -> pyval := py_sorted_by (fun x => x).

(* fold used by translated `for` loops: stops at the first state flagged as raised *)
Definition py_for {S : Type} (it : pyval) (raised : S -> bool) (fail : pyval -> S)
           (body : S -> pyval -> S) (s0 : S) : S :=
  match py_iter it with
  | inr e => fail e
  | inl xs => fold_left (fun s x => if raised s then s else body s x) xs s0
  end.
