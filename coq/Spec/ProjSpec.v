(* C11: declarative, executable specification of the output schema and of the projected cell
   values of a join / filter_tables result.  Written directly from the property text; it does
   NOT use the generated helpers (only the record `pcase` of Model/Projection.v).

   "A result has exactly the columns _id, prefixed left key, prefixed right key, the requested
    left output attributes, the requested right output attributes (each list with the key
    attribute and repeats removed, order kept, names prefixed), and _sim_score iff requested.
    In every row each projected value equals the value of that attribute in the source row."  *)
From Coq Require Import ZArith List String Bool.
From SSJ Require Import F64 PyNum Projection.
Import ListNotations.
Open Scope string_scope.

(* keep the first occurrence of every name, order kept *)
Fixpoint uniq (l : list string) : list string :=
  match l with
  | [] => []
  | a :: t => a :: filter (fun b => negb (String.eqb b a)) (uniq t)
  end.

(* [] for None; drop the key attribute; keep first occurrences; order kept *)
Definition dedupe_out (key : string) (attrs : option (list string)) : list string :=
  match attrs with
  | None => []
  | Some l => uniq (filter (fun a => negb (String.eqb a key)) l)
  end.

Definition header_spec (c : pcase) : list string :=
  "_id" :: (p_lpre c ++ p_lkey c) :: (p_rpre c ++ p_rkey c)
        :: (map (append (p_lpre c)) (dedupe_out (p_lkey c) (p_lout c))
            ++ map (append (p_rpre c)) (dedupe_out (p_rkey c) (p_rout c))
            ++ (if p_score c then ["_sim_score"] else []))%list.

(* the cell of the first column named a *)
Fixpoint cell_of (cols : list string) (row : list pyval) (a : string) : option pyval :=
  match cols, row with
  | c :: cs, v :: vs => if String.eqb c a then Some v else cell_of cs vs a
  | _, _ => None
  end.

(* key cells, then the requested cells, each by NAME lookup in the full source row *)
Definition cells_spec (c : pcase) (lrow rrow : list pyval) : option (list pyval) :=
  all_some (cell_of (p_lcols c) lrow (p_lkey c)
         :: cell_of (p_rcols c) rrow (p_rkey c)
         :: (map (cell_of (p_lcols c) lrow) (dedupe_out (p_lkey c) (p_lout c))
             ++ map (cell_of (p_rcols c) rrow) (dedupe_out (p_rkey c) (p_rout c)))%list).

(* ---- what argument validation guarantees ---- *)
Definition opt_list (o : option (list string)) : list string :=
  match o with None => [] | Some l => l end.

Record well_formed (c : pcase) : Prop := {
  wf_lkey  : In (p_lkey c) (p_lcols c);
  wf_ljoin : In (p_ljoin c) (p_lcols c);
  wf_lout  : forall a, In a (opt_list (p_lout c)) -> In a (p_lcols c);
  wf_rkey  : In (p_rkey c) (p_rcols c);
  wf_rjoin : In (p_rjoin c) (p_rcols c);
  wf_rout  : forall a, In a (opt_list (p_rout c)) -> In a (p_rcols c) }.

Definition mem_str (a : string) (l : list string) : bool := existsb (String.eqb a) l.
Definition well_formedb (c : pcase) : bool :=
  mem_str (p_lkey c) (p_lcols c) && mem_str (p_ljoin c) (p_lcols c)
  && forallb (fun a => mem_str a (p_lcols c)) (opt_list (p_lout c))
  && mem_str (p_rkey c) (p_rcols c) && mem_str (p_rjoin c) (p_rcols c)
  && forallb (fun a => mem_str a (p_rcols c)) (opt_list (p_rout c)).

(* a table cell is a value, never a raised exception *)
Definition row_ok (row : list pyval) : Prop := forall v, In v row -> is_exc v = false.
Definition row_okb (row : list pyval) : bool := forallb (fun v => negb (is_exc v)) row.

(* ---- boolean comparisons used by the harness ---- *)
Fixpoint list_eqb {A : Type} (eqb : A -> A -> bool) (x y : list A) : bool :=
  match x, y with
  | [], [] => true
  | a :: x', b :: y' => eqb a b && list_eqb eqb x' y'
  | _, _ => false
  end.

(* missing cells: None and NaN are the same thing for pandas *)
Definition is_missing (v : pyval) : bool :=
  match v with PNone => true | PFloat f => f_is_nan f | _ => false end.
(* Python == on the cell values (so 1 == 1.0 == True), missing == missing *)
Definition cell_eqb (a b : pyval) : bool :=
  if is_missing a then is_missing b else (negb (is_missing b) && pv_eqb a b).

Definition header_ok (c : pcase) (obs : list string) : bool :=
  list_eqb String.eqb (header_spec c) obs.
Definition cells_ok (c : pcase) (lrow rrow : list pyval) (obs : list pyval) : bool :=
  match cells_spec c lrow rrow with
  | Some l => list_eqb cell_eqb l obs
  | None => false
  end.
