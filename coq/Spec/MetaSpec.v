(* Declarative, executable specifications that RELATE observed results of several calls
   (metamorphic laws of C07, C10, C13, C14) or complete the single-call specs of JoinSpec.v
   (C08: missing pairs exactly once, C09: empty pairs iff allow_empty).  They are evaluated
   inside Coq on what the implementation returned.  No proofs here.                      *)
From Coq Require Import ZArith Bool List String SpecFloat.
From SSJ Require Import F64 PyNum FilterUtilsGen HelperGen TokenOrdering Measures Filters Lev Joins Api JoinSpec.
Import ListNotations.
Open Scope string_scope.
Open Scope Z_scope.

Definition forall_pairs (c : jcase) (f : row -> row -> bool) : bool :=
  forallb (fun l => forallb (f l) (j_R c)) (j_L c).

Definition both_empty (l r : row) : bool := (len (toks_of l) =? 0) && (len (toks_of r) =? 0).
Definition one_empty (l r : row) : bool :=
  negb (both_empty l r) && ((len (toks_of l) =? 0) || (len (toks_of r) =? 0)).

(* ------------------------------------------------------------------ C08 *)
(* every pair with a missing side occurs exactly once iff allow_missing, never otherwise *)
Definition missing_spec (c : jcase) (obs : list out_row) : bool :=
  forall_pairs c (fun l r =>
    if present l && present r then true
    else Nat.eqb (count_pair (fst l) (fst r) obs) (if j_allow_missing c then 1 else 0)).

(* the part of the result over present values does not depend on allow_missing:
   obs_true (allow_missing=True) = obs_false (allow_missing=False) + the missing pairs *)
Definition is_missing_row (c : jcase) (o : out_row) : bool :=
  match find_row (fst (fst o)) (j_L c), find_row (snd (fst o)) (j_R c) with
  | Some l, Some r => negb (present l && present r)
  | _, _ => false
  end.
Definition missing_split_spec (c : jcase) (obs_false obs_true : list out_row) : bool :=
  multiset_eqb obs_false (filter (fun o => negb (is_missing_row c o)) obs_true) &&
  forallb (fun o => negb (is_missing_row c o)) obs_false.

(* ------------------------------------------------------------------ C09 *)
Definition empty_expected (c : jcase) : option bool :=
  match j_entry c with
  | EJoin m => if String.eqb m "OVERLAP" then Some false
               else if String.eqb m "EDIT_DISTANCE" then None
               else Some (j_allow_empty c)
  | EFilter k m => if String.eqb m "OVERLAP" then Some false
                   else if String.eqb m "EDIT_DISTANCE" then None
                   else Some (j_allow_empty c)
  | EOverlapFilter => Some false
  end.
Definition is_set_join (c : jcase) : bool :=
  match j_entry c with
  | EJoin m => negb (String.eqb m "EDIT_DISTANCE")
  | _ => false
  end.
Definition empty_spec (c : jcase) (obs : list out_row) : bool :=
  forall_pairs c (fun l r =>
    if present l && present r then
      if both_empty l r then
        match empty_expected c with
        | Some b => Bool.eqb (has_pair (fst l) (fst r) obs) b
        | None => true
        end
      else if one_empty l r && is_set_join c then negb (has_pair (fst l) (fst r) obs)
      else true
    else true).

(* ------------------------------------------------------------------ exclusions *)
Definition row_pair (c : jcase) (o : out_row) : option (row * row) :=
  match find_row (fst (fst o)) (j_L c), find_row (snd (fst o)) (j_R c) with
  | Some l, Some r => Some (l, r)
  | _, _ => None
  end.
Definition measure_of (c : jcase) : string :=
  match j_entry c with EJoin m => m | EFilter _ m => m | EOverlapFilter => "OVERLAP" end.

(* gray for THIS case: raw and reported comparison disagree (J/C/D joins only) *)
Definition pair_gray (c : jcase) (l r : row) : bool :=
  match j_entry c with
  | EJoin m => is_jcd m && present l && present r && negb (both_empty l r) &&
               gray m (j_op c) (j_t c) (toks_of l) (toks_of r)
  | _ => false
  end.
(* gray for the pipeline of C07: the comparison on the score apply_matcher computes
   (matcher_raw_score: order-sensitive exact-match shortcut) and the comparison on the join's
   rounded score disagree (J/C/D joins only) *)
Definition pair_gray_pipe (c : jcase) (l r : row) : bool :=
  match j_entry c with
  | EJoin m => is_jcd m && present l && present r && negb (both_empty l r) &&
               gray_pipe m (j_op c) (j_t c) (toks_of l) (toks_of r)
  | _ => false
  end.
Definition row_excluded (cs : list jcase) (o : out_row) : bool :=
  existsb (fun c => match row_pair c o with
                    | Some (l, r) => (present l && present r && both_empty l r) || pair_gray c l r
                    | None => false
                    end) cs.
Definition keep_rows (cs : list jcase) (obs : list out_row) : list out_row :=
  filter (fun o => negb (row_excluded cs o)) obs.

Definition round_score (s : pyval) : pyval :=
  match s with PFloat f => PFloat (f_round_nd f 4) | _ => s end.
Definition round_rows (obs : list out_row) : list out_row :=
  map (fun o : out_row => (fst o, round_score (snd o))) obs.
Definition drop_scores (obs : list out_row) : list out_row :=
  map (fun o : out_row => (fst o, PNone)) obs.
Definition swap_rows (obs : list out_row) : list out_row :=
  map (fun o : out_row => (snd (fst o), fst (fst o), snd o)) obs.
Definition swap_case (c : jcase) : jcase :=
  {| j_entry := j_entry c; j_t := j_t c; j_q := j_q c; j_op := j_op c;
     j_allow_empty := j_allow_empty c; j_allow_missing := j_allow_missing c;
     j_with_score := j_with_score c; j_njobs := j_njobs c; j_cpus := j_cpus c;
     j_L := j_R c; j_R := j_L c |}.

Definition subset_rows (a b : list out_row) : bool :=
  forallb (fun o => has_pair (fst (fst o)) (snd (fst o)) b) a.

(* ------------------------------------------------------------------ C10 *)
(* two runs of the same call that differ in n_jobs / row order / index labels / extra
   columns: same multiset of rows; for J/C/D joins gray pairs are set aside (known finding) *)
Definition same_rows_spec (c : jcase) (obs1 obs2 : list out_row) : bool :=
  multiset_eqb obs1 obs2.
Definition same_rows_nongray_spec (c : jcase) (obs1 obs2 : list out_row) : bool :=
  multiset_eqb (filter (fun o => negb (match row_pair c o with
                                       | Some (l, r) => pair_gray c l r | None => false end)) obs1)
               (filter (fun o => negb (match row_pair c o with
                                       | Some (l, r) => pair_gray c l r | None => false end)) obs2).
(* a gray row differs between the two runs *)
Definition differ_only_gray (c : jcase) (obs1 obs2 : list out_row) : bool :=
  same_rows_nongray_spec c obs1 obs2 && negb (multiset_eqb obs1 obs2).

(* filter_tables of prefix / position / suffix: superfluous candidates may vary, qualifying
   pairs never: both runs list every qualifying pair (complete_spec) -- nothing to relate *)
Definition ids_ok (ids : list Z) : bool :=
  list_eqbZ ids (map Z.of_nat (seq 0 (List.length ids))).

(* ------------------------------------------------------------------ C13 *)
(* transposition: obs2 is the result of the call with the two tables swapped *)
Definition transpose_spec (c : jcase) (obs1 obs2 : list out_row) : bool :=
  multiset_eqb (keep_rows [c] obs1) (keep_rows [c] (swap_rows obs2)).

(* threshold refinement: c1 laxer, c2 stricter (edit distance: c2 has the smaller threshold);
   both with scores *)
Definition eff_threshold (c : jcase) : pyval :=
  match j_entry c with
  | EJoin m => if String.eqb m "EDIT_DISTANCE" then PInt (ed_tau (j_t c)) else j_t c
  | _ => j_t c
  end.
Definition refine_spec (c1 c2 : jcase) (obs1 obs2 : list out_row) : bool :=
  multiset_eqb
    (keep_rows [c1; c2] (filter (fun o => is_missing_row c1 o ||
                                          cmp_op (j_op c2) (snd o) (eff_threshold c2)) obs1))
    (keep_rows [c1; c2] obs2).

(* operator partition: obs_ge = obs_gt (+) obs_eq, exactly (candidate generation does not depend
   on the operator); pairs of two empty token sets are threshold-independent and set aside *)
Definition drop_empty_pairs (c : jcase) (obs : list out_row) : list out_row :=
  filter (fun o => match row_pair c o with
                   | Some (l, r) => negb (present l && present r && both_empty l r)
                   | None => true
                   end) obs.
Definition partition_spec (c : jcase) (obs_ge obs_gt obs_eq : list out_row) : bool :=
  multiset_eqb (drop_empty_pairs c obs_ge)
               (drop_empty_pairs c obs_gt ++ drop_empty_pairs c obs_eq)%list.

(* ------------------------------------------------------------------ C07 *)
(* obsJ = the join, obsP = apply_matcher(filter_tables(...)); scores compared after rounding *)
(* excluded: both-empty pairs and pairs whose raw and rounded score fall on different sides of the
   threshold, for the raw score of the join (pair_gray, in keep_rows) and for the raw score the
   matcher computes (pair_gray_pipe) *)
Definition pipe_excluded (c : jcase) (o : out_row) : bool :=
  match row_pair c o with Some (l, r) => pair_gray_pipe c l r | None => false end.
Definition keep_pipe (c : jcase) (obs : list out_row) : list out_row :=
  filter (fun o => negb (pipe_excluded c o)) (keep_rows [c] obs).
Definition pipeline_spec (c : jcase) (obsJ obsP : list out_row) : bool :=
  multiset_eqb (round_rows (keep_pipe c obsJ)) (round_rows (keep_pipe c obsP)).
Definition pipeline_ed_spec (c : jcase) (obsJ obsP : list out_row) : bool :=
  subset_rows obsJ obsP &&
  forall_pairs c (fun l r =>
    if present l && present r && share (toks_of l) (toks_of r)
    then Bool.eqb (has_pair (fst l) (fst r) obsJ) (has_pair (fst l) (fst r) obsP)
    else true).

(* ------------------------------------------------------------------ C14 *)
(* on the same tables and chunking: position candidates are prefix and size candidates *)
Definition refine_filters_spec (obs_pos obs_pre obs_size : list out_row) : bool :=
  subset_rows obs_pos obs_pre && subset_rows obs_pos obs_size.

(* SizeFilter tightness as a test on concrete counts (the theorem is F4 in ArithTight.v):
   a pair that is NOT dropped has best attainable similarity >= t - 1e-4 (computed in doubles
   with a 1e-9 slack); under EDIT_DISTANCE: dropped iff the counts differ by more than tau *)
Definition best_sim (m : string) (a b : Z) : f64 :=
  let lo := f_of_Z (Z.min a b) in let hi := f_of_Z (Z.max a b) in
  if String.eqb m "JACCARD" then fdiv lo hi
  else if String.eqb m "COSINE" then fsqrt (fdiv lo hi)
  else if String.eqb m "DICE" then fdiv (fmul f_two lo) (f_of_Z (a + b))
  else S754_nan.
Definition f_1em4 : f64 := fdiv (f_of_Z 1) (f_of_Z 10000).
Definition f_1em9 : f64 := fdiv (f_of_Z 1) (f_of_Z 1000000000).
Definition size_tight_spec (m : string) (t : pyval) (a b : Z) (dropped : bool) : bool :=
  if (a =? 0) || (b =? 0) then true
  else if is_jcd m then
    match py_float t with
    | PFloat tf => if dropped then true
                   else fleb (fsub (fsub tf f_1em4) f_1em9) (best_sim m a b)
    | _ => false
    end
  else if String.eqb m "EDIT_DISTANCE" then
    match t with
    | PInt tau => Bool.eqb dropped (tau <? Z.abs (a - b))
    | _ => true
    end
  else true.
