(* C10 for the filters whose candidate sets may legitimately differ in SUPERFLUOUS pairs between
   schedules / presentations (Prefix, Position, Suffix filter_tables): the two results must agree on
   every pair that the property requires to be listed.  `required c l r` is read off complete_spec
   itself (the pair is required iff complete_spec fails on the one-pair case with an empty result),
   so the two definitions cannot drift apart.  Executable definitions only.                    *)
From Coq Require Import ZArith Bool List String.
From SSJ Require Import F64 PyNum Api JoinSpec.
Import ListNotations.
Open Scope Z_scope.

Definition with_tables (c : jcase) (L R : list row) : jcase :=
  {| j_entry := j_entry c; j_t := j_t c; j_q := j_q c; j_op := j_op c;
     j_allow_empty := j_allow_empty c; j_allow_missing := j_allow_missing c;
     j_with_score := j_with_score c; j_njobs := j_njobs c; j_cpus := j_cpus c;
     j_L := L; j_R := R |}.

Definition required (c : jcase) (l r : row) : bool := negb (complete_spec (with_tables c [l] [r]) []).

(* every required pair is listed by both results or by neither *)
Definition same_required_spec (c : jcase) (o0 ov : list out_row) : bool :=
  forallb (fun l : row => forallb (fun r : row =>
    if required c l r
    then Bool.eqb (has_pair (fst l) (fst r) o0) (has_pair (fst l) (fst r) ov)
    else true) (j_R c)) (j_L c).

(* sanity: a result that lists every required pair satisfies complete_spec, and conversely *)
Definition lists_required (c : jcase) (obs : list out_row) : bool :=
  forallb (fun l : row => forallb (fun r : row =>
    if required c l r then has_pair (fst l) (fst r) obs else true) (j_R c)) (j_L c).
