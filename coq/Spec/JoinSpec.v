(* Declarative, executable specifications of the join/filter results, written against token
   SETS and the library's similarity definitions only (no index, no ordering, no chunking).
   They are (a) proved of the model and (b) evaluated inside Coq on the implementation's
   observed output by the correspondence harness.                                        *)
From Coq Require Import ZArith Bool List String SpecFloat.
From SSJ Require Import F64 PyNum FilterUtilsGen HelperGen TokenOrdering Measures Filters Lev Joins Api.
Import ListNotations.
Open Scope string_scope.
Open Scope Z_scope.

Definition is_jcd (m : string) : bool :=
  String.eqb m "JACCARD" || String.eqb m "COSINE" || String.eqb m "DICE".

(* the similarity of two token lists as the library defines it (raw) and as a join reports it *)
Definition raw_score (m : string) (x y : list Z) : pyval :=
  let a := len (dedup x) in let b := len (dedup y) in let o := overlap_sets x y in
  if is_jcd m then PFloat (sim_sizes m a b o)
  else if String.eqb m "OVERLAP_COEFFICIENT" then
         py_truediv (py_float (PInt o)) (py_float (PInt (Z.min a b)))
  else if String.eqb m "OVERLAP" then PInt o
  else PNone.
Definition reported_score (m : string) (x y : list Z) : pyval :=
  let a := len (dedup x) in let b := len (dedup y) in let o := overlap_sets x y in
  if is_jcd m then PFloat (score4 m a b o) else raw_score m x y.

(* "satisfies the comparison both as computed and as reported" (C01) *)
Definition qualifies (m op : string) (t : pyval) (x y : list Z) : bool :=
  cmp_op op (raw_score m x y) t && cmp_op op (reported_score m x y) t.
(* gray: the raw and the reported comparison disagree *)
Definition gray (m op : string) (t : pyval) (x y : list Z) : bool :=
  negb (Bool.eqb (cmp_op op (raw_score m x y) t) (cmp_op op (reported_score m x y) t)).

(* the similarity apply_matcher computes: py_stringmatching's get_raw_score called on the
   tokenizer's output LISTS (tokenizer order).  Its first check `if set1 == set2: return 1.0`
   compares the lists, so it is order-sensitive: equal SETS listed in different orders fall
   through to the formula (Jaccard / cosine / Dice).  The join calls the same function on lists
   sorted by the global token ordering, where equal sets are equal lists (raw_score above).
   One-empty pairs and OVERLAP / OVERLAP_COEFFICIENT: as raw_score.                        *)
Definition matcher_raw_score (m : string) (x y : list Z) : pyval :=
  if is_jcd m then
    let a := len (dedup x) in let b := len (dedup y) in let o := overlap_sets x y in
    if list_eqbZ x y then PFloat f_one
    else if Z.eqb o a && Z.eqb o b then PFloat (sim_formula m a b o)
    else raw_score m x y
  else raw_score m x y.
(* gray for the matcher path: the comparison on the matcher's raw score and the comparison on the
   join's reported (rounded) score disagree *)
Definition gray_pipe (m op : string) (t : pyval) (x y : list Z) : bool :=
  negb (Bool.eqb (cmp_op op (matcher_raw_score m x y) t) (cmp_op op (reported_score m x y) t)).

Definition find_row (k : Z) (T : list row) : option row := find (fun r => Z.eqb (fst r) k) T.
Definition has_pair (lk rk : Z) (obs : list out_row) : bool :=
  existsb (fun o : out_row => Z.eqb (fst (fst o)) lk && Z.eqb (snd (fst o)) rk) obs.
Definition count_pair (lk rk : Z) (obs : list out_row) : nat :=
  List.length (filter (fun o : out_row => Z.eqb (fst (fst o)) lk && Z.eqb (snd (fst o)) rk) obs).

Definition ed_tau (t : pyval) : Z := match py_int (py_floor t) with PInt z => z | _ => -1 end.
Definition ed_dist (l r : row) : pyval :=
  if list_eqbZ (str_of l) (str_of r) then PFloat (S754_zero false) else PInt (lev (str_of l) (str_of r)).

(* ---- completeness: every qualifying pair of present values is in the output (C01, C03) *)
Definition complete_spec (c : jcase) (obs : list out_row) : bool :=
  forallb (fun l : row => forallb (fun r : row =>
    if present l && present r then
      let x := toks_of l in let y := toks_of r in
      match j_entry c with
      | EJoin m =>
          if String.eqb m "EDIT_DISTANCE" then
            if cmp_op (j_op c) (ed_dist l r) (PInt (ed_tau (j_t c))) && share x y
            then has_pair (fst l) (fst r) obs else true
          else if (len x =? 0) && (len y =? 0) then true
          else if qualifies m (j_op c) (j_t c) x y then has_pair (fst l) (fst r) obs else true
      | EFilter k m =>
          if String.eqb m "EDIT_DISTANCE" then
            if cmp_op "<=" (ed_dist l r) (j_t c) && share x y
            then has_pair (fst l) (fst r) obs else true
          else if (len x =? 0) && (len y =? 0) then true
          else if qualifies m ">=" (j_t c) x y then has_pair (fst l) (fst r) obs else true
      | EOverlapFilter =>
          if (0 <? overlap_sets x y) && cmp_op (j_op c) (PInt (overlap_sets x y)) (j_t c)
          then has_pair (fst l) (fst r) obs else true
      end
    else true) (j_R c)) (j_L c).

(* ---- soundness: only qualifying pairs, once, with the true score (C02, C03) *)
Definition sound_row (c : jcase) (obs : list out_row) (o : out_row) : bool :=
  let '(lk, rk, s) := o in
  match find_row lk (j_L c), find_row rk (j_R c) with
  | Some l, Some r =>
      Nat.eqb (count_pair lk rk obs) 1 &&
      if present l && present r then
        let x := toks_of l in let y := toks_of r in
        match j_entry c with
        | EJoin m =>
            if String.eqb m "EDIT_DISTANCE" then
              cmp_op (j_op c) (ed_dist l r) (PInt (ed_tau (j_t c))) &&
              (if j_with_score c then score_same s (ed_dist l r) else true)
            else if (len x =? 0) && (len y =? 0) then
              j_allow_empty c && negb (String.eqb m "OVERLAP") &&
              (if j_with_score c then score_same s (PFloat f_one) else true)
            else
              cmp_op (j_op c) (reported_score m x y) (j_t c) &&
              (if j_with_score c then score_same s (reported_score m x y) else true)
        | EFilter k m =>
            (* C09 / C14: both-empty pairs only when admitted; prefix/position candidates share a token *)
            if (len x =? 0) && (len y =? 0) then
              j_allow_empty c && negb (String.eqb m "OVERLAP") && negb (String.eqb m "EDIT_DISTANCE")
            else match k with
                 | KPrefix | KPosition => share x y
                 | _ => true
                 end
        | EOverlapFilter =>
            (0 <? overlap_sets x y) && cmp_op (j_op c) (PInt (overlap_sets x y)) (j_t c) &&
            (if j_with_score c then score_same s (PInt (overlap_sets x y)) else true)
        end
      else j_allow_missing c && score_same s PNone
  | _, _ => false
  end.
Definition sound_spec (c : jcase) (obs : list out_row) : bool := forallb (sound_row c obs) obs.
