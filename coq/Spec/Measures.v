(* Similarity of two token sets as a function of the three sizes a=|x|, b=|y|, o=|x∩y|,
   computed exactly as py_stringmatching's get_raw_score does in binary64, and the
   "qualifies" predicate of properties C01/C04 (raw AND 4-decimal-rounded comparison).
   Executable; no proofs.                                                               *)
From Coq Require Import ZArith Bool List String SpecFloat.
From SSJ Require Import F64 PyNum FilterUtilsGen.
Import ListNotations.
Open Scope string_scope.
Open Scope Z_scope.

Definition f_one : f64 := f_of_Z 1.
Definition f_two : f64 := f_of_Z 2.

(* Jaccard: float(o) / float(|x ∪ y|);  Cosine: float(o) / (sqrt(float a) * sqrt(float b));
   Dice: 2.0 * float(o) / float(a + b).  All three return 1.0 first when the sets are equal. *)
Definition sim_formula (m : string) (a b o : Z) : f64 :=
  if String.eqb m "JACCARD" then fdiv (f_of_Z o) (f_of_Z (a + b - o))
  else if String.eqb m "COSINE" then
         fdiv (f_of_Z o) (fmul (fsqrt (f_of_Z a)) (fsqrt (f_of_Z b)))
  else if String.eqb m "DICE" then fdiv (fmul f_two (f_of_Z o)) (f_of_Z (a + b))
  else S754_nan.

Definition sim_sizes (m : string) (a b o : Z) : f64 :=
  if Z.eqb o a && Z.eqb o b then f_one else sim_formula m a b o.

(* the score a join reports for Jaccard / cosine / Dice *)
Definition score4 (m : string) (a b o : Z) : f64 := f_round_nd (sim_sizes m a b o) 4.

(* a pair qualifies for `>= t` when the comparison holds for the raw and for the rounded score *)
Definition qual_ge (m : string) (t : f64) (a b o : Z) : bool :=
  fleb t (sim_sizes m a b o) && fleb t (score4 m a b o).

(* the proof envelope for thresholds of the set measures: a double with 2^-30 <= t <= 1 *)
Definition env_t (t : f64) : bool :=
  valid_binary prec emax t && fleb (mkF 1 (-30)) t && fleb t f_one.
Definition size_bound : Z := 2 ^ 20.

(* the four generated formulas, read back as integers *)
Definition toZ (v : pyval) : option Z := match v with PInt z => Some z | _ => None end.
Definition lbZ (m : string) (t : pyval) (n : Z) : option Z :=
  toZ (get_size_lower_bound (PInt n) (PStr m) t).
Definition ubZ (m : string) (t : pyval) (n : Z) : option Z :=
  toZ (get_size_upper_bound (PInt n) (PStr m) t).
Definition plZ (m : string) (t : pyval) (q : Z) (n : Z) : option Z :=
  toZ (get_prefix_length (PInt n) (PStr m) t (PInt q)).
Definition otZ (m : string) (t : pyval) (q : Z) (a b : Z) : option Z :=
  toZ (get_overlap_threshold (PInt a) (PInt b) (PStr m) t (PInt q)).
