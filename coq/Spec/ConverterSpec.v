(* Declarative statement of property C16 (converters): one executable boolean per clause, over
   (call, input series/column, observed outcome = (result, given object afterwards)).
   A clause that does not apply to a call evaluates to true.  No proofs in this file.        *)
From Coq Require Import ZArith Bool List String SpecFloat.
From SSJ Require Import F64 PyNum Converter.
Import ListNotations.
Open Scope Z_scope.

(* ---- well-formed inputs: cells consistent with the dtype (NaN / None are CNull) ---- *)
Definition wf_cell (d : dtype) (c : cell) : bool :=
  match d, c with
  | DInt, CInt _ => true
  | DFloat, CNull => true
  | DFloat, CFloat f => negb (f_is_nan f)
  | DObject, CFloat f => negb (f_is_nan f)
  | DObject, _ => true
  | DStr, CNull | DStr, CStr _ | DStr, CStrOfInt _ | DStr, CStrOfFloat _ => true
  | DBool, CBool _ => true
  | _, _ => false
  end.
Definition wf (s : series) : bool := forallb (wf_cell (s_dtype s)) (s_cells s).

(* ---- classes of inputs and calls ---- *)
Definition numeric_col (s : series) : bool :=
  match s_dtype s with DInt | DFloat => true | _ => false end.
Definition string_col (s : series) : bool :=
  match s_dtype s with DObject | DStr => true | _ => false end.
(* the property speaks about int / float / object / string columns *)
Definition in_domain (s : series) : bool := numeric_col s || string_col s.
(* empty, or every value missing *)
Definition all_missing (s : series) : bool := forallb cell_isnull (s_cells s).

Definition is_inplace (c : call) : bool :=
  match c with CallSeries ip => ip | CallFrame ip _ => ip end.
(* inplace together with return_col *)
Definition rejected (c : call) : bool :=
  match c with CallFrame true true => true | _ => false end.
(* documented exception: series_to_str on an empty or all-NaN numeric series, inplace=True *)
Definition doc_exception (c : call) (s : series) : bool :=
  match c with CallSeries true => numeric_col s && all_missing s | _ => false end.

(* where the converted column is to be found: the given object for an inplace call that
   returned True, the returned series / the column of the returned frame otherwise *)
Definition converted_col (c : call) (s : series) (o : outcome) : option series :=
  if rejected c then None
  else if doc_exception c s then
    match fst o with RSeries r => Some r | _ => None end
  else if is_inplace c then
    match fst o with RTrue => Some (snd o) | _ => None end
  else
    match c, fst o with
    | CallSeries _, RSeries r => Some r
    | CallFrame _ true, RSeries r => Some r
    | CallFrame _ false, RFrame r => Some r
    | _, _ => None
    end.

Fixpoint all2 {A B : Type} (p : A -> B -> bool) (l1 : list A) (l2 : list B) : bool :=
  match l1, l2 with
  | [], [] => true
  | a :: l1', b :: l2' => p a b && all2 p l1' l2'
  | _, _ => false
  end.

(* the whole column is integral: every present float value is a whole number *)
Definition col_integral (s : series) : bool :=
  forallb (fun c => match c with CFloat f => f_is_nan f || f_is_integer f | _ => true end) (s_cells s).

(* a present numeric value becomes its string form: str(int) for ints, str(int(v)) for the
   floats of an integral column, str(v) for the floats of any other column *)
Definition want_cell (integral : bool) (c out : cell) : bool :=
  match c with
  | CInt z => cell_eqb out (CStrOfInt z)
  | CFloat f => if f_is_nan f then true
                else if integral then cell_eqb out (CStrOfInt (f_trunc f))
                else cell_eqb out (CStrOfFloat f)
  | _ => true
  end.
(* a missing value stays missing (in particular it is not the string 'nan') *)
Definition keep_missing (c out : cell) : bool :=
  if cell_isnull c then cell_isnull out else true.

(* clause 1: every present numeric value is turned into its string form (object column) *)
Definition cl_values (c : call) (s : series) (o : outcome) : bool :=
  if numeric_col s && negb (rejected c) then
    match converted_col c s o with
    | Some r => dtype_eqb (s_dtype r) DObject && all2 (want_cell (col_integral s)) (s_cells s) (s_cells r)
    | None => false
    end
  else true.

(* clause 2: every missing value is left missing *)
Definition cl_missing (c : call) (s : series) (o : outcome) : bool :=
  if in_domain s && negb (rejected c) then
    match converted_col c s o with
    | Some r => all2 keep_missing (s_cells s) (s_cells r)
    | None => false
    end
  else true.

(* clause 3: string columns are returned unchanged (values) *)
Definition cl_strings (c : call) (s : series) (o : outcome) : bool :=
  if string_col s && negb (rejected c) then
    match converted_col c s o with
    | Some r => cells_eqb (s_cells r) (s_cells s)
    | None => false
    end
  else true.
(* clause 3', strict reading: ... and keep their dtype *)
Definition cl_strings_dtype (c : call) (s : series) (o : outcome) : bool :=
  if string_col s && negb (rejected c) then
    match converted_col c s o with
    | Some r => dtype_eqb (s_dtype r) (s_dtype s)
    | None => false
    end
  else true.

(* clause 4: with inplace=True, True is returned (the given object being converted is clauses
   1-3 through converted_col) *)
Definition cl_inplace_true (c : call) (s : series) (o : outcome) : bool :=
  if in_domain s && is_inplace c && negb (rejected c) && negb (doc_exception c s) then
    match fst o with RTrue => true | _ => false end
  else true.

(* clause 5: otherwise the input is left unmodified and a copy of the right kind is returned:
   a series from series_to_str and with return_col, a frame from dataframe_column_to_str *)
Definition cl_unmodified (c : call) (s : series) (o : outcome) : bool :=
  if in_domain s && (negb (is_inplace c) || doc_exception c s) then series_eqb (snd o) s else true.
Definition cl_return_kind (c : call) (s : series) (o : outcome) : bool :=
  if in_domain s && negb (is_inplace c) then
    match c, fst o with
    | CallSeries _, RSeries _ => true
    | CallFrame _ true, RSeries _ => true
    | CallFrame _ false, RFrame _ => true
    | _, _ => false
    end
  else true.

(* clause 6: inplace together with return_col is rejected (and nothing is modified) *)
Definition cl_rejected (c : call) (s : series) (o : outcome) : bool :=
  if rejected c then result_eqb (fst o) (RExc "AssertionError") && series_eqb (snd o) s else true.

(* clause 7: the documented exception returns an object-typed copy *)
Definition cl_doc_exception (c : call) (s : series) (o : outcome) : bool :=
  if doc_exception c s then
    match fst o with
    | RSeries r => dtype_eqb (s_dtype r) DObject && cells_eqb (s_cells r) (s_cells s)
    | _ => false
    end
  else true.

Definition all_clauses (c : call) (s : series) (o : outcome) : bool :=
  cl_values c s o && cl_missing c s o && cl_strings c s o && cl_inplace_true c s o &&
  cl_unmodified c s o && cl_return_kind c s o && cl_rejected c s o && cl_doc_exception c s o.

(* ---- the calls on which the faithful model violates the property text ---- *)
(* B1: series_to_str(numeric series with a present value, inplace=True): Series.update cannot
       change the dtype under pandas 3 -> TypeError.
   (The former class B2 -- empty series of pandas' string dtype with inplace=True returning a
   copy instead of True -- was repaired in the source: the empty-series branch now tests
   `col_type == object or isinstance(col_type, pd.StringDtype)`.)                            *)
Definition is_dstr (s : series) : bool := match s_dtype s with DStr => true | _ => false end.
Definition is_empty (s : series) : bool := match s_cells s with [] => true | _ => false end.
Definition bad_class (c : call) (s : series) : bool :=
  match c with
  | CallSeries true => numeric_col s && negb (all_missing s)
  | _ => false
  end.

(* strict dtype reading of clause 3 additionally fails on: empty string-dtype columns through
   every call that returns / installs a copy (all non-rejected calls except
   series_to_str(inplace=True), which returns True and leaves the series alone) and all-missing
   (in particular empty) string-dtype columns through dataframe_column_to_str(inplace=True) *)
Definition bad_class_dtype (c : call) (s : series) : bool :=
  is_dstr s && negb (rejected c) &&
  match c with
  | CallSeries true => false
  | CallFrame true false => all_missing s
  | _ => is_empty s
  end.
