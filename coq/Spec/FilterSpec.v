(* filter_pair: model dispatch and the declarative specs of C04 / C06 / C08 / C09 / C14,
   evaluated inside Coq on the verdict the real filter_pair returned.                    *)
From Coq Require Import ZArith Bool List String SpecFloat.
From SSJ Require Import F64 PyNum FilterUtilsGen HelperGen TokenOrdering Measures Filters Suffix Lev Joins Api JoinSpec.
Import ListNotations.
Open Scope string_scope.
Open Scope Z_scope.

Inductive fwhich := FSize | FPrefix | FPosition | FSuffix | FOverlap.

(* a value handed to filter_pair: None = missing; else (code points, tokens) *)
Definition fval := option (list Z * list Z).

Record fpcase := {
  fp_which : fwhich;
  fp_p : fparams;             (* measure / threshold (overlap_size for FOverlap) / qval *)
  fp_op : string;             (* OverlapFilter's comp_op *)
  fp_allow_empty : bool;
  fp_allow_missing : bool;
  fp_l : fval;
  fp_r : fval }.

(* the model's verdict: Some true = dropped *)
Definition model_filter_pair (c : fpcase) : option bool :=
  match fp_l c, fp_r c with
  | Some (ls, lt), Some (rs, rt) =>
      match fp_which c with
      | FSize => Some (size_filter_pair (fp_p c) (fp_allow_empty c) (len lt) (len rt))
      | FPrefix => prefix_filter_pair (fp_p c) (fp_allow_empty c) lt rt
      | FPosition => position_filter_pair (fp_p c) (fp_allow_empty c) lt rt
      | FSuffix => suffix_filter_pair (fp_p c) (fp_allow_empty c) lt rt
      | FOverlap => Some (overlap_filter_pair (fp_op c) (ft (fp_p c)) (len ls =? 0) (len rs =? 0) lt rt)
      end
  | _, _ => Some (negb (fp_allow_missing c))
  end.

Definition fp_agrees (c : fpcase) (dropped : bool) : bool :=
  match model_filter_pair c with Some d => Bool.eqb d dropped | None => false end.

(* does the pair meet the filter's threshold? (C04) *)
Definition fp_qualifies (c : fpcase) : bool :=
  match fp_l c, fp_r c with
  | Some (ls, lt), Some (rs, rt) =>
      let m := fm (fp_p c) in
      match fp_which c with
      | FOverlap => negb (len ls =? 0) && negb (len rs =? 0) &&
                    cmp_op (fp_op c) (PInt (overlap_sets lt rt)) (ft (fp_p c))
      | _ =>
          if String.eqb m "EDIT_DISTANCE" then
            cmp_op "<=" (if list_eqbZ ls rs then PFloat (S754_zero false) else PInt (lev ls rs)) (ft (fp_p c))
            && share lt rt
          else if (len lt =? 0) && (len rt =? 0) then false
          else qualifies m ">=" (ft (fp_p c)) lt rt
      end
  | _, _ => false
  end.

(* C04: a qualifying pair is never dropped *)
Definition fp_safe_spec (c : fpcase) (dropped : bool) : bool :=
  if fp_qualifies c then negb dropped else true.

(* C06: OverlapFilter is exact *)
Definition fp_overlap_exact_spec (c : fpcase) (dropped : bool) : bool :=
  match fp_which c, fp_l c, fp_r c with
  | FOverlap, Some _, Some _ => Bool.eqb dropped (negb (fp_qualifies c))
  | _, _, _ => true
  end.

(* C08: a pair with a missing side survives iff allow_missing *)
Definition fp_missing_spec (c : fpcase) (dropped : bool) : bool :=
  match fp_l c, fp_r c with
  | Some _, Some _ => true
  | _, _ => Bool.eqb dropped (negb (fp_allow_missing c))
  end.

(* C09: two empty token lists survive iff allow_empty (J/C/D), never under OVERLAP *)
Definition fp_empty_spec (c : fpcase) (dropped : bool) : bool :=
  match fp_which c, fp_l c, fp_r c with
  | FOverlap, _, _ => true
  | _, Some (_, lt), Some (_, rt) =>
      if (len lt =? 0) && (len rt =? 0) then
        let m := fm (fp_p c) in
        if String.eqb m "OVERLAP" then dropped
        else if String.eqb m "EDIT_DISTANCE" then true
        else Bool.eqb dropped (negb (fp_allow_empty c))
      else true
  | _, _, _ => true
  end.

(* C14: prefix / position / overlap filters keep no pair without a common token
   (unless both sides are empty); the size filter looks at the two counts only *)
Definition fp_common_token_spec (c : fpcase) (dropped : bool) : bool :=
  match fp_which c, fp_l c, fp_r c with
  | (FPrefix | FPosition | FOverlap), Some (_, lt), Some (_, rt) =>
      if dropped then true
      else if (len lt =? 0) && (len rt =? 0) then true
      else share lt rt
  | _, _, _ => true
  end.
