(* The arithmetic facts about the GENERATED filter_utils formulas that make size, prefix and
   position pruning safe.  Only statements (Definitions of Props); the proofs live in
   Proofs/Arith*.v and are re-checked against Gen/FilterUtilsGen.v on every run.          *)
From Coq Require Import ZArith Bool List String SpecFloat.
From SSJ Require Import F64 PyNum FilterUtilsGen Measures.
Open Scope string_scope.
Open Scope Z_scope.

Definition sizes_ok (a b o : Z) : Prop :=
  1 <= o /\ o <= a /\ o <= b /\ a < size_bound /\ b < size_bound.

(* F1: a qualifying pair passes the size window, whichever side is the probe *)
Definition F1_stmt (m : string) : Prop :=
  forall (t : f64) (a b o : Z),
    env_t t = true -> sizes_ok a b o -> qual_ge m t a b o = true ->
    exists lb ub lb' ub',
      lbZ m (PFloat t) b = Some lb /\ ubZ m (PFloat t) b = Some ub /\ lb <= a <= ub /\
      lbZ m (PFloat t) a = Some lb' /\ ubZ m (PFloat t) a = Some ub' /\ lb' <= b <= ub'.

(* F2: the required overlap computed from the two sizes never exceeds the real overlap *)
Definition F2_stmt (m : string) : Prop :=
  forall (t : f64) (q a b o : Z),
    env_t t = true -> sizes_ok a b o -> qual_ge m t a b o = true ->
    exists al al', otZ m (PFloat t) q a b = Some al /\ al <= o /\
                   otZ m (PFloat t) q b a = Some al' /\ al' <= o.

(* F3: both prefixes are long enough: the suffix left out is shorter than the overlap *)
Definition F3_stmt (m : string) : Prop :=
  forall (t : f64) (q a b o : Z),
    env_t t = true -> sizes_ok a b o -> qual_ge m t a b o = true ->
    exists pa pb, plZ m (PFloat t) q a = Some pa /\ a - pa + 1 <= o /\
                  plZ m (PFloat t) q b = Some pb /\ b - pb + 1 <= o.

(* F5: totality and range of the formulas on every size (not only qualifying ones) *)
Definition F5_stmt (m : string) : Prop :=
  forall (t : f64) (q n : Z),
    env_t t = true -> 1 <= n < size_bound ->
    exists lb ub p, lbZ m (PFloat t) n = Some lb /\ ubZ m (PFloat t) n = Some ub /\
                    plZ m (PFloat t) q n = Some p /\
                    0 <= lb <= n /\ n <= ub /\ 1 <= p <= n + 1.
