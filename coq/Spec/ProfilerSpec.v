(* Declarative statement of property C17 (profiler), as executable booleans over observed
   behaviour and as Prop statements about the model.  No proofs in this file.             *)
From Coq Require Import ZArith Bool List String SpecFloat.
From SSJ Require Import F64 PyNum Profiler.
Import ListNotations.
Open Scope Z_scope.

(* ---- what "number of distinct values" and "number of missing values" mean ---- *)
Definition oz_dec : forall a b : option Z, {a = b} + {a <> b}.
Proof. decide equality. apply Z.eq_dec. Defined.

(* u is the number of distinct values of the column, a missing value counting as one value *)
Definition distinct_count (col : column) (u : Z) : Prop :=
  exists l : list (option Z),
    NoDup l /\ (forall x, In x l <-> In x col) /\ u = Z.of_nat (List.length l).
Definition missing_count (col : column) (m : Z) : Prop :=
  m = Z.of_nat (count_occ oz_dec col None).

(* executable reference counts (standard-library functions, independent of the model's) *)
Definition spec_unique (col : column) : Z := Z.of_nat (List.length (nodup oz_dec col)).
Definition spec_missing (col : column) : Z := Z.of_nat (count_occ oz_dec col None).

(* ---- the comment clauses, over the true counts and the observed comment kind ---- *)
Definition is_key (k : comment) : bool := match k with CmtKey => true | _ => false end.
Definition is_warn (k : comment) : bool := match k with CmtMissing => true | _ => false end.

(* recommended as key exactly when all values are distinct and none is missing *)
Definition spec_key (n u m : Z) (k : comment) : bool :=
  Bool.eqb (is_key k) (Z.eqb u n && Z.eqb m 0).
(* warns about ignored rows exactly when at least one value is missing *)
Definition spec_warn (n u m : Z) (k : comment) : bool :=
  Bool.eqb (is_warn k) (Z.ltb 0 m).

(* reported counts are the exact counts *)
Definition spec_counts (u m : Z) (obs_u obs_m : Z) : bool := Z.eqb obs_u u && Z.eqb obs_m m.

(* percentage to two decimals: | p - 100 c / n | <= 0.005 + 1e-9, decided exactly in Z on the
   binary expansion of the double p *)
Definition pct_tol_num : Z := 5000001.        (* 0.005000001 = pct_tol_num / pct_tol_den *)
Definition pct_tol_den : Z := 1000000000.
Definition spec_pct (n c : Z) (p : f64) : bool :=
  match p with
  | S754_zero _ => Z.leb (Z.abs (100 * c) * pct_tol_den) (pct_tol_num * n)
  | S754_finite s mt e =>
      let v := if s then Zneg mt else Zpos mt in
      match e with
      | Zneg q => let d := Z.pow_pos 2 q in
                  Z.leb (Z.abs (v * n - 100 * c * d) * pct_tol_den) (pct_tol_num * n * d)
      | _ => let w := v * 2 ^ e in
             Z.leb (Z.abs (w * n - 100 * c) * pct_tol_den) (pct_tol_num * n)
      end
  | _ => false
  end.

(* all clauses for one observed row, given the true counts *)
Definition spec_row (n u m : Z) (r : prow) : bool :=
  spec_counts u m (p_u r) (p_m r) && spec_pct n u (p_upct r) && spec_pct n m (p_mpct r) &&
  spec_key n u m (p_cmt r) && spec_warn n u m (p_cmt r).

(* one row per profiled attribute, indexed by attribute name, in the requested order *)
Definition spec_index (tbl : list (Z * column)) (attrs : option (list Z)) (rows : list (Z * prow)) : bool :=
  let want := match attrs with None => map fst tbl | Some l => l end in
  (fix same (a b : list Z) : bool :=
     match a, b with
     | [], [] => true
     | x :: a', y :: b' => Z.eqb x y && same a' b'
     | _, _ => false
     end) want (map fst rows).

(* every row of an observed output satisfies the row clauses w.r.t. the reference counts *)
Definition spec_rows (nrows : Z) (tbl : list (Z * column)) (rows : list (Z * prow)) : bool :=
  forallb (fun ar => match lookup_col (fst ar) tbl with
                     | Some col => spec_row nrows (spec_unique col) (spec_missing col) (snd ar)
                     | None => false end) rows.

(* ---- Prop statements about the model ---- *)
Definition counts_range (n u m : Z) : Prop :=
  1 <= n < 2 ^ 31 /\ 0 <= m <= n /\ 1 <= u <= n.

Definition C17_comments_stmt : Prop :=
  forall n u m, counts_range n u m ->
    let k := p_cmt (profile_counts n u m) in
    (k = CmtKey <-> (u = n /\ m = 0)) /\ (k = CmtMissing <-> m > 0).

Definition C17_counts_stmt : Prop :=
  forall nrows col,
    distinct_count col (p_u (profile_column nrows col)) /\
    missing_count col (p_m (profile_column nrows col)).
