(* PrefixIndex.build / PrefixFilter.find_candidates (GENERATED: prefix_index_build,
   prefix_filter_find_candidates in Gen/IndexGen.v) refine the hand model Filters.prefix_cand:
   row c is in the returned candidate set  <->  prefix_cand p (row c) probe = Some true.
   (Sets are modelled as dicts with PNone values, see the header of Gen/IndexGen.v.)
   Axiom-free.                                                                            *)
From Coq Require Import ZArith Bool List String Lia.
From SSJ Require Import F64 PyNum FilterUtilsGen TokenOrderingGen IndexGen TokenOrdering Filters
     IndexPyFacts IndexBuildFacts IndexProbeFacts IndexInverted.
Import ListNotations.
Open Scope Z_scope.

(* ------------------------------------------------------------------ sets of ints *)
Definition sset := list (Z * unit).
Definition srepr (d : sset) : pyval := PDict (drepr (fun _ : unit => PNone) d).
Definition smem (d : sset) (c : Z) : bool := match aget d c with Some _ => true | None => false end.
Definition sadd (d : sset) (c : Z) : sset := aset d c tt.

Lemma py_set_add_srepr d c : py_set_add (srepr d) (PInt c) = srepr (sadd d c).
Proof. exact (py_setitem_drepr (fun _ : unit => PNone) d c tt eq_refl). Qed.
Lemma py_set_update_srepr l : forall d,
  py_set_update (srepr d) (pints l) = srepr (fold_left sadd l d).
Proof.
  unfold py_set_update, srepr at 1. cbn [py_iter pints].
  induction l as [|c l IH]; intros d; cbn [map fold_left]; [reflexivity|].
  fold (srepr d). rewrite py_set_add_srepr. unfold srepr at 1. apply IH.
Qed.
Lemma smem_sadd d k c : smem (sadd d k) c = (k =? c) || smem d c.
Proof. unfold smem, sadd. rewrite aget_aset. destruct (k =? c); reflexivity. Qed.
Lemma smem_fold l : forall d c, smem (fold_left sadd l d) c = smem d c || existsb (Z.eqb c) l.
Proof.
  induction l as [|h t IH]; intros d c; cbn [fold_left existsb]; [now rewrite orb_false_r|].
  rewrite IH, smem_sadd, (Z.eqb_sym h c). destruct (c =? h), (smem d c); reflexivity.
Qed.
Lemma sadd_keys_nodup l : forall d, NoDup (map fst d) -> NoDup (map fst (fold_left sadd l d)).
Proof.
  induction l as [|h t IH]; intros d Hd; cbn [fold_left]; [exact Hd|].
  apply IH. apply aset_nodup. exact Hd.
Qed.

(* ------------------------------------------------------------------ build *)
Record pstate := { p_rid : Z; p_idx : iidx_t; p_empty : list Z }.
Definition padd_row (p : fparams) (ce : bool) (a : pstate) (x : list Z) : pstate :=
  {| p_rid := p_rid a + 1;
     p_idx := fold_left (fun idx w => iidx_add idx w (p_rid a)) (slice0z (plen p (len x)) x) (p_idx a);
     p_empty := if ce && (len x =? 0) then (p_empty a ++ [p_rid a])%list else p_empty a |}.
Definition p_init : pstate := {| p_rid := 0; p_idx := []; p_empty := [] |}.
Definition pbuild_abs p ce (L : list (list Z)) : pstate := fold_left (padd_row p ce) L p_init.
Definition pbuild_result (a : pstate) : pyval :=
  PTuple [iidx_repr (p_idx a); PDict [PTuple [PStr "empty_records"%string; pints (p_empty a)]]].

Definition Ipbuild (a : pstate)
  (s : pyval * (pyval * (pyval * (pyval * (pyval * (pyval * (pyval * (pyval * pyval)))))))) : Prop :=
  exists t1 t2 t3 t4 t5,
    s = (PNone, (t1, (t2, (t3, (t4, (t5, (iidx_repr (p_idx a), (pints (p_empty a), PInt (p_rid a))))))))).

Theorem prefix_index_build_eq : forall p attr ordering tokenize rows ordered ce,
  Forall2 (row_ok attr ordering tokenize) rows ordered ->
  (forall x, In x ordered -> exists k, g_pl p (len x) = PInt k) ->
  prefix_index_build (PList rows) attr (PStr (fm p)) (ft p) ordering (PBool ce) (PInt (fq p)) tokenize
  = pbuild_result (pbuild_abs p ce ordered).
Proof.
  intros p attr ordering tokenize rows ordered ce Hrows Hpl.
  unfold prefix_index_build. cbv zeta.
  destruct (forall2_combine _ _ _ Hrows) as (Er & Eo & Hrow).
  set (l := combine rows ordered) in *. clearbody l.
  assert (Hb : pbuild_abs p ce ordered
               = fold_left (fun a (rb : pyval * list Z) => padd_row p ce a (snd rb)) l p_init).
  { unfold pbuild_abs. rewrite Eo at 1. clear. generalize p_init.
    induction l as [|b l' IH]; intros a0; cbn [map fold_left]; [reflexivity | apply IH]. }
  rewrite Er, Hb.
  match goal with |- context [py_for (PList (map fst l)) ?r ?f ?b ?s0] =>
    pose proof (py_for_inv _ _ _ fst Ipbuild r f b
                  (fun a (rb : pyval * list Z) => padd_row p ce a (snd rb)) l s0 p_init) as HI end.
  lapply HI; [clear HI; intros HI|].
  2:{ unfold Ipbuild. do 5 eexists. reflexivity. }
  lapply HI; [clear HI; intros HI|].
  2:{ intros a s (t1 & t2 & t3 & t4 & t5 & ->). reflexivity. }
  lapply HI; [clear HI; intros HI|].
  - destruct HI as (t1 & t2 & t3 & t4 & t5 & ->). reflexivity.
  - clear HI. intros a s [row x] Hin (t1 & t2 & t3 & t4 & t5 & ->).
    cbv beta iota. cbn [fst snd].
    destruct (Hrow _ Hin) as [Hne Hord]. cbn [fst snd] in Hne, Hord.
    rewrite (bindx_ok row) by (eapply getitem_not_exc; exact Hne).
    rewrite (bindx_ok (py_getitem row attr)) by exact Hne.
    rewrite Hord. rewrite (bindx_ok (pints x)) by reflexivity.
    rewrite py_len_pints. cbn [bindx].
    change (get_prefix_length (PInt (len x)) (PStr (fm p)) (ft p) (PInt (fq p))) with (g_pl p (len x)).
    destruct (Hpl x) as [k Hk].
    { rewrite Eo. apply (in_map snd l (row, x)). exact Hin. }
    rewrite Hk. cbn [bindx]. rewrite py_slice_pints. unfold pints at 1.
    change (PNone, iidx_repr (p_idx a)) with (Riinner (p_idx a)).
    match goal with |- context [py_for (PList (map PInt ?xp)) ?r ?f ?b (Riinner ?a0)] =>
      rewrite (py_for_eq _ _ _ PInt Riinner r f b (fun idx w => iidx_add idx w (p_rid a)) xp a0) end.
    2:{ reflexivity. }
    2:{ intros idx w _. unfold Riinner. cbv beta iota. cbn [bindx].
        rewrite py_dict_get2_iidx. unfold iidx_add, iidx_get.
        destruct (aget idx w) as [ps|] eqn:E.
        - unfold pints at 1. cbn [py_is_none strict1 py_truth bindx].
          rewrite py_dict_get2_iidx, E, py_append_pints.
          unfold iidx_repr. rewrite py_setitem_drepr by reflexivity. reflexivity.
        - cbn [py_is_none strict1 py_truth bindx].
          change (PList []) with (pints []). unfold iidx_repr at 1.
          rewrite py_setitem_drepr by reflexivity. cbn [bindx]. fold (iidx_repr (aset idx w [])).
          rewrite py_dict_get2_iidx, aget_aset, Z.eqb_refl, py_append_pints.
          unfold iidx_repr. rewrite py_setitem_drepr by reflexivity. rewrite aset_aset. reflexivity. }
    assert (Hplen : plen p (len x) = k) by (unfold plen; now rewrite Hk).
    unfold Riinner, padd_row. rewrite Hplen. cbv beta iota zeta. cbn [bindx].
    rewrite py_eq_int_val.
    destruct ce; cbn [py_and py_truth andb]; cbv beta iota; cbn [bindx py_truth];
      destruct (len x =? 0); cbv beta iota; cbn [bindx py_truth];
      rewrite ?py_append_pints, ?(bindx_ok (pints _)) by reflexivity;
      rewrite py_add_int; cbn [bindx];
      do 5 eexists; reflexivity.
Qed.

(* postings: row c occurs once per occurrence of w in its prefix *)
Definition pref (p : fparams) (x : list Z) : list Z := slice0z (plen p (len x)) x.
Fixpoint pposts_from (p : fparams) (w c : Z) (xs : list (list Z)) : list Z :=
  match xs with
  | [] => []
  | x :: xs' => (repeat c (Z.to_nat (countZ w (pref p x))) ++ pposts_from p w (c + 1) xs')%list
  end.

Lemma pbuild_from p ce : forall xs a0 w,
  let a := fold_left (padd_row p ce) xs a0 in
  p_rid a = p_rid a0 + nrows xs /\
  p_empty a = (if ce then p_empty a0 ++ empty_from (p_rid a0) xs else p_empty a0)%list /\
  iidx_get (p_idx a) w = (iidx_get (p_idx a0) w ++ pposts_from p w (p_rid a0) xs)%list.
Proof.
  induction xs as [|x xs IH]; intros a0 w; cbn [fold_left pposts_from empty_from].
  - unfold nrows. cbn [List.length Z.of_nat]. rewrite Z.add_0_r.
    repeat split; destruct ce; now rewrite ?app_nil_r.
  - cbv zeta in IH. destruct (IH (padd_row p ce a0 x) w) as (H1 & H2 & H3).
    rewrite H1, H2, H3. unfold padd_row. cbn [p_rid p_idx p_empty].
    rewrite iadd_tokens_get. repeat split.
    + unfold nrows. cbn [List.length]. lia.
    + destruct ce; cbn [andb]; [|reflexivity].
      destruct (len x =? 0); [now rewrite <- app_assoc | reflexivity].
    + unfold pref. now rewrite <- app_assoc.
Qed.
Lemma pbuild_postings p ce L w : iidx_get (p_idx (pbuild_abs p ce L)) w = pposts_from p w 0 L.
Proof. destruct (pbuild_from p ce L p_init w) as (_ & _ & H). exact H. Qed.
Lemma pbuild_empty p ce L : p_empty (pbuild_abs p ce L) = if ce then empty_from 0 L else [].
Proof. destruct (pbuild_from p ce L p_init 0) as (_ & H & _). exact H. Qed.

(* ------------------------------------------------------------------ find_candidates *)
Definition pprobe_abs (idx : iidx_t) (yp : list Z) : sset :=
  fold_left (fun d w => fold_left sadd (iidx_get idx w) d) yp [].
Definition Rpouter (d : sset) : pyval * pyval := (PNone, srepr d).

Lemma pprobe_nil idx yp : (forall w, iidx_get idx w = []) -> pprobe_abs idx yp = [].
Proof.
  intros Hnil. unfold pprobe_abs. induction yp as [|w yp IH]; cbn [fold_left]; [reflexivity|].
  rewrite Hnil. cbn [fold_left]. exact IH.
Qed.

Theorem prefix_find_candidates_eq p idx Y k :
  g_pl p (len Y) = PInt k ->
  prefix_filter_find_candidates (PStr (fm p)) (ft p) (pints Y) (iidx_repr idx) (PInt (fq p))
  = srepr (pprobe_abs idx (slice0z k Y)).
Proof.
  intros Hk. unfold prefix_filter_find_candidates.
  assert (Hnot : py_not (iidx_repr idx) = PBool (match idx with [] => true | _ => false end))
    by (destruct idx; reflexivity).
  rewrite Hnot. cbn [bindx py_truth].
  destruct idx as [|e0 idx'] eqn:Eidx.
  { rewrite pprobe_nil by reflexivity. reflexivity. }
  rewrite <- Eidx. clear Hnot Eidx e0 idx'.
  rewrite py_len_pints. cbn [bindx].
  change (get_prefix_length (PInt (len Y)) (PStr (fm p)) (ft p) (PInt (fq p))) with (g_pl p (len Y)).
  rewrite Hk. cbn [bindx]. rewrite py_slice_pints. unfold pints at 1.
  change (PNone, PDict []) with (Rpouter []).
  match goal with |- context [py_for (PList (map PInt ?l)) ?r ?f ?b (Rpouter ?a0)] =>
    rewrite (py_for_eq _ _ _ PInt Rpouter r f b
               (fun d w => fold_left sadd (iidx_get idx w) d) l a0) end.
  - reflexivity.
  - reflexivity.
  - intros d w _. unfold Rpouter. cbv beta iota. cbn [bindx].
    rewrite py_dict_get3_iidx, py_set_update_srepr. reflexivity.
Qed.

(* ------------------------------------------------------------------ refinement *)
Lemma memZ_count w x : memZ w x = (0 <? countZ w x).
Proof.
  unfold memZ. induction x as [|h t IH]; cbn [existsb countZ]; [reflexivity|].
  rewrite IH. pose proof (countZ_nonneg w t).
  destruct (w =? h); cbn [orb]; [|reflexivity]. symmetry. apply Z.ltb_lt. lia.
Qed.
Lemma existsb_repeat a c n : existsb (Z.eqb a) (repeat c n) = (a =? c) && negb (Nat.eqb n 0).
Proof.
  induction n as [|n IH]; cbn [repeat existsb]; [now rewrite andb_false_r|].
  rewrite IH. cbn [Nat.eqb negb]. destruct (a =? c), n; reflexivity.
Qed.

Lemma mem_pposts p w (C : nat) L : forall xs (c0 : nat),
  (forall n, (n < List.length xs)%nat -> nth n xs [] = nth (c0 + n) L []) ->
  existsb (Z.eqb (Z.of_nat C)) (pposts_from p w (Z.of_nat c0) xs)
  = (c0 <=? C)%nat && (C <? c0 + List.length xs)%nat && memZ w (pref p (nth C L [])).
Proof.
  induction xs as [|x xs IH]; intros c0 Hnth; cbn [pposts_from existsb List.length].
  - replace ((c0 <=? C)%nat && (C <? c0 + 0)%nat) with false; [reflexivity|].
    symmetry. apply andb_false_iff.
    destruct (Nat.leb_spec c0 C); [right; apply Nat.ltb_ge; lia | left; reflexivity].
  - rewrite existsb_app. replace (Z.of_nat c0 + 1) with (Z.of_nat (S c0)) by lia.
    rewrite IH.
    2:{ intros n Hn. specialize (Hnth (S n)). cbn [nth] in Hnth.
        rewrite Hnth by (cbn [List.length]; lia). f_equal. lia. }
    assert (Hx : x = nth c0 L []).
    { specialize (Hnth O). cbn [nth] in Hnth. rewrite Hnth by (cbn [List.length]; lia). f_equal. lia. }
    rewrite existsb_repeat, memZ_count. pose proof (countZ_nonneg w (pref p x)).
    destruct (Nat.eq_dec c0 C) as [->|Hne].
    + rewrite Z.eqb_refl, <- Hx.
      replace ((S C <=? C)%nat) with false by (symmetry; apply Nat.leb_gt; lia).
      replace ((C <=? C)%nat && (C <? C + S (List.length xs))%nat) with true
        by (symmetry; apply andb_true_iff; split; [apply Nat.leb_le | apply Nat.ltb_lt]; lia).
      cbn [andb orb]. rewrite orb_false_r.
      destruct (Z.ltb_spec 0 (countZ w (pref p x))) as [Hpos|Hz].
      * destruct (Nat.eqb_spec (Z.to_nat (countZ w (pref p x))) 0); [lia | reflexivity].
      * destruct (Nat.eqb_spec (Z.to_nat (countZ w (pref p x))) 0); [reflexivity | lia].
    + destruct (Z.eqb_spec (Z.of_nat C) (Z.of_nat c0)); [lia|]. cbn [andb orb].
      f_equal.
      destruct (Nat.leb_spec (S c0) C), (Nat.leb_spec c0 C),
        (Nat.ltb_spec C (S c0 + List.length xs)), (Nat.ltb_spec C (c0 + S (List.length xs)));
        try reflexivity; lia.
Qed.

Theorem prefix_find_candidates_refines : forall p attr ordering tokenize rows ordered ce Y k,
  Forall2 (row_ok attr ordering tokenize) rows ordered ->
  (forall x, In x ordered -> exists kx, g_pl p (len x) = PInt kx) ->
  g_pl p (len Y) = PInt k ->
  exists index ret d,
    prefix_index_build (PList rows) attr (PStr (fm p)) (ft p) ordering (PBool ce) (PInt (fq p)) tokenize
      = PTuple [index; ret] /\
    prefix_filter_find_candidates (PStr (fm p)) (ft p) (pints Y) index (PInt (fq p)) = srepr d /\
    NoDup (map fst d) /\
    forall c, (c < List.length ordered)%nat ->
      prefix_cand p (nth c ordered []) Y = Some (smem d (Z.of_nat c)).
Proof.
  intros p attr ordering tokenize rows ordered ce Y k Hrows Hplx Hk.
  set (a := pbuild_abs p ce ordered).
  exists (iidx_repr (p_idx a)), (PDict [PTuple [PStr "empty_records"%string; pints (p_empty a)]]),
    (pprobe_abs (p_idx a) (slice0z k Y)).
  split; [exact (prefix_index_build_eq p attr ordering tokenize rows ordered ce Hrows Hplx)|].
  split; [apply prefix_find_candidates_eq; exact Hk|].
  split.
  { unfold pprobe_abs. generalize (slice0z k Y) as yp.
    assert (H0 : NoDup (map fst ([] : sset))) by constructor. revert H0. generalize ([] : sset) as d.
    intros d H0 yp. revert d H0. induction yp as [|w yp IH]; intros d H0; cbn [fold_left]; [exact H0|].
    apply IH. apply sadd_keys_nodup. exact H0. }
  intros c Hc. unfold prefix_cand.
  destruct (Hplx (nth c ordered [])) as [kx Hkx]; [apply nth_In; exact Hc|].
  rewrite Hkx, Hk, !slice0_PInt. f_equal.
  assert (G : forall yp d, smem (fold_left (fun d w => fold_left sadd (iidx_get (p_idx a) w) d) yp d)
                                (Z.of_nat c)
                         = smem d (Z.of_nat c) || share yp (pref p (nth c ordered []))).
  { induction yp as [|w yp IH]; intros d; unfold share; cbn [fold_left existsb]; [now rewrite orb_false_r|].
    rewrite IH, smem_fold. unfold a. rewrite pbuild_postings. change 0 with (Z.of_nat 0).
    rewrite (mem_pposts p w c ordered ordered 0) by (intros n _; reflexivity).
    replace ((0 <=? c)%nat && (c <? 0 + List.length ordered)%nat) with true
      by (symmetry; apply andb_true_iff; split; [apply Nat.leb_le | apply Nat.ltb_lt]; lia).
    cbn [andb]. unfold share. now rewrite orb_assoc. }
  unfold pprobe_abs. rewrite G. cbn [smem aget orb]. unfold pref, plen. rewrite Hkx. reflexivity.
Qed.

Print Assumptions prefix_index_build_eq.
Print Assumptions prefix_find_candidates_refines.
