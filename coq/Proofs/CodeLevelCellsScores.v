(* C11 about the generated code, part 2: what the LAST cell (the `_sim_score` column) of a row computed by a
   per-chunk core is, for each model core of Model/Joins.v, and the rows of the empty-set branch.

   * `ssj_core_scores`  (JACCARD / COSINE / DICE): a double;
   * `ovc_core_scores`  (OVERLAP_COEFFICIENT, token counts < 2^50): a double;
   * `ovl_core_scores`  (OVERLAP join / OverlapFilter): an integer;
   * `ed_core_scores`   (EDIT_DISTANCE): an integer, or the double 0.0 for equal strings;
   * `ft_core_scores`   (Size / Prefix / Position / Suffix filter): None -- filter_tables has no score column.
   * `ssj_core_empty_branch` / `ovc_core_empty_branch` / `ft_core_empty_branch`: with allow_empty, a triple of the
     core whose right token list is empty has an empty left token list too (and score 1.0 for the joins): the rows of
     the empty-set branch are ordinary triples of the core, so CodeLevelCells.core_row covers them.
   The OVERLAP_COEFFICIENT lemma uses the float fact f_of_Z n <> 0 for 0 < n < 2^50 (SplitRefineOvcArith: the Reals
   axioms); everything else is axiom-free.                                                                  *)
From Coq Require Import ZArith Bool List String Lia Permutation SpecFloat.
From SSJ Require Import F64 PyNum TokenOrdering Measures Filters Suffix Lev Joins
     OrderingFacts CoreLiftBase CoreLift SplitRefineOvc SplitRefineOvcArith.
Import ListNotations.
Open Scope string_scope.
Open Scope list_scope.
Open Scope Z_scope.

Definition float_score (s : pyval) : Prop := exists f, s = PFloat f.
Definition int_score (s : pyval) : Prop := exists z, s = PInt z.
Definition ed_score (s : pyval) : Prop := s = PFloat (S754_zero false) \/ exists d, s = PInt d.
(* a number, in any case *)
Definition num_score (s : pyval) : Prop := float_score s \/ int_score s.

Lemma ed_score_num s : ed_score s -> num_score s.
Proof. intros [->|[d ->]]; [left; eexists; reflexivity | right; eexists; reflexivity]. Qed.

(* ------------------------------------------------------------------ JACCARD / COSINE / DICE *)
Lemma ssj_pair_scores p op x y l s : ssj_pair p op x y = Some l -> In s l -> float_score s.
Proof.
  unfold ssj_pair. intros H Hs. destruct (pos_cand p x y) as [v|]; [|discriminate H].
  destruct (0 <? v); [|injection H as <-; destruct Hs].
  destruct (cmp_op op _ (ft p)); injection H as <-; [|destruct Hs].
  destruct Hs as [<-|[]]. eexists. reflexivity.
Qed.

Theorem ssj_core_scores p op ae L R T tr :
  set_sim_join_core p op ae L R = Some T -> In tr T -> float_score (snd tr).
Proof.
  intros H Htr. destruct tr as [[a b] s]. cbn [snd].
  apply (set_sim_join_core_In p op ae L R T H) in Htr. destruct Htr as (xraw & yraw & _ & _ & Hc).
  cbv zeta in Hc. destruct (ae && _).
  - destruct Hc as [_ ->]. eexists. reflexivity.
  - destruct Hc as (l & E & Hs). exact (ssj_pair_scores p op _ _ l s E Hs).
Qed.

Lemma nth_error_nth_nil {A} (l : list (list A)) n x : nth_error l n = Some x -> nth n l [] = x.
Proof. intros H. now apply nth_error_nth. Qed.

Lemma order_nil all : order all [] = [].
Proof. apply order_nil_iff; [intros w [] | reflexivity]. Qed.

(* the allow_empty branch: right token list empty -> left token list empty, score 1.0 *)
Theorem ssj_core_empty_branch p op L R T a b s :
  set_sim_join_core p op true L R = Some T -> In (a, b, s) T -> nth b R [] = [] ->
  nth a L [] = [] /\ s = PFloat f_one.
Proof.
  intros H Htr Hy.
  apply (set_sim_join_core_In p op true L R T H) in Htr. destruct Htr as (xraw & yraw & Ex & Ey & Hc).
  cbv zeta in Hc. rewrite (nth_error_nth_nil _ _ _ Ey) in Hy. subst yraw.
  rewrite order_nil in Hc. cbn [andb len List.length Z.of_nat Z.eqb] in Hc. destruct Hc as [Hx ->].
  split; [|reflexivity]. rewrite (nth_error_nth_nil _ _ _ Ex).
  assert (Hin : forall w, In w xraw -> In w (List.concat L ++ List.concat R)).
  { intros w Hw. apply in_or_app. left. apply in_concat. exists xraw. split; [|exact Hw].
    eapply nth_error_In. exact Ex. }
  apply (order_nil_iff _ _ Hin).
  destruct (order (List.concat L ++ List.concat R) xraw) as [|z l]; [reflexivity|].
  unfold len in Hx. cbn [List.length] in Hx. lia.
Qed.

(* ------------------------------------------------------------------ OVERLAP_COEFFICIENT *)
Theorem ovc_core_scores t op ae L R T tr :
  (forall x, In x L \/ In x R -> len x < 2^50) ->
  ovc_core t op ae L R = Some T -> In tr T -> float_score (snd tr).
Proof.
  intros Hb H Htr. destruct tr as [[a b] s]. cbn [snd].
  apply (ovc_core_In t op ae L R T H) in Htr. destruct Htr as (x & y & Ex & Ey & Hs).
  unfold ovc_pair in Hs. destruct (ae && (len y =? 0)).
  - destruct (len x =? 0); [|destruct Hs]. destruct Hs as [<-|[]]. eexists. reflexivity.
  - destruct (0 <? overlap_count x y) eqn:Ho; [|destruct Hs].
    destruct (cmp_op op _ t); [|destruct Hs]. destruct Hs as [<-|[]].
    apply Z.ltb_lt in Ho. destruct (overlap_count_pos x y Ho) as [Hx Hy].
    change (CoreLift.ovc_score x y) with (SplitRefineOvc.ovc_score (overlap_count x y) (len y) (len x)).
    apply ovc_score_float.
    destruct (Z.min_spec (len y) (len x)) as [[_ ->]|[_ ->]].
    + apply (ovc_float_sizes L R Hb y); [right; eapply nth_error_In; exact Ey | exact Hy].
    + apply (ovc_float_sizes L R Hb x); [left; eapply nth_error_In; exact Ex | exact Hx].
Qed.

Theorem ovc_core_empty_branch t op L R T a b s :
  ovc_core t op true L R = Some T -> In (a, b, s) T -> nth b R [] = [] ->
  nth a L [] = [] /\ s = PFloat f_one.
Proof.
  intros H Htr Hy.
  apply (ovc_core_In t op true L R T H) in Htr. destruct Htr as (x & y & Ex & Ey & Hs).
  rewrite (nth_error_nth_nil _ _ _ Ey) in Hy. subst y. rewrite (nth_error_nth_nil _ _ _ Ex).
  unfold ovc_pair in Hs. cbn [andb len List.length Z.of_nat Z.eqb] in Hs.
  destruct (len x =? 0) eqn:E; [|destruct Hs]. destruct Hs as [<-|[]].
  split; [|reflexivity]. apply Z.eqb_eq in E. unfold len in E.
  destruct x; [reflexivity | cbn [List.length] in E; lia].
Qed.

(* ------------------------------------------------------------------ OVERLAP (join and OverlapFilter) *)
Theorem ovl_core_scores op size L R T tr :
  overlap_tables_core op size L R = Some T -> In tr T -> int_score (snd tr).
Proof.
  intros H Htr. destruct tr as [[a b] s]. cbn [snd].
  apply (overlap_tables_core_In op size L R T H) in Htr. destruct Htr as (x & y & _ & _ & Hs).
  unfold ovl_pair in Hs. destruct (_ && _); [|destruct Hs]. destruct Hs as [<-|[]]. eexists. reflexivity.
Qed.

(* ------------------------------------------------------------------ EDIT_DISTANCE *)
Theorem ed_core_scores q tau op L R T tr :
  ed_core q tau op L R = Some T -> In tr T -> ed_score (snd tr).
Proof.
  intros H Htr. destruct tr as [[a b] s]. cbn [snd].
  apply (ed_core_In q tau op L R T H) in Htr. destruct Htr as (xr & yr & l & _ & _ & Hc).
  cbv zeta in Hc. destruct Hc as [E Hs]. unfold ed_pair in E.
  destruct (prefix_cand _ _ _) as [[|]|]; [| injection E as <-; destruct Hs | discriminate E].
  destruct (_ && _); [|injection E as <-; destruct Hs].
  destruct (cmp_op op _ _); injection E as <-; [|destruct Hs].
  destruct Hs as [<-|[]]. unfold ed_dist_of. destruct (list_eqbZ _ _); [left; reflexivity | right; eexists; reflexivity].
Qed.

(* ------------------------------------------------------------------ the filters: no score *)
Theorem ft_core_scores k p ae L R T tr :
  filter_tables_core k p ae L R = Some T -> In tr T -> snd tr = PNone.
Proof.
  intros H Htr. destruct tr as [[a b] s]. cbn [snd].
  apply (filter_tables_core_In k p ae L R T H) in Htr. destruct Htr as (xraw & yraw & _ & _ & E & _). exact E.
Qed.

Theorem ft_core_empty_branch k p ae L R T a b s :
  filter_tables_core k p ae L R = Some T -> In (a, b, s) T -> ft_handle_empty p ae = true -> nth b R [] = [] ->
  nth a L [] = [].
Proof.
  intros H Htr He Hy.
  apply (filter_tables_core_In k p ae L R T H) in Htr. destruct Htr as (xraw & yraw & Ex & Ey & _ & Hc).
  cbv zeta in Hc. rewrite (nth_error_nth_nil _ _ _ Ey) in Hy. subst yraw.
  rewrite order_nil, He in Hc. cbn [andb len List.length Z.of_nat Z.eqb] in Hc.
  rewrite (nth_error_nth_nil _ _ _ Ex).
  assert (Hin : forall w, In w xraw -> In w (List.concat L ++ List.concat R)).
  { intros w Hw. apply in_or_app. left. apply in_concat. exists xraw. split; [|exact Hw].
    eapply nth_error_In. exact Ex. }
  apply (order_nil_iff _ _ Hin).
  destruct (order (List.concat L ++ List.concat R) xraw) as [|z l]; [reflexivity|].
  unfold len in Hc. cbn [List.length] in Hc. lia.
Qed.

Print Assumptions ssj_core_scores.
Print Assumptions ssj_core_empty_branch.
Print Assumptions ovc_core_scores.
Print Assumptions ovc_core_empty_branch.
Print Assumptions ovl_core_scores.
Print Assumptions ed_core_scores.
Print Assumptions ft_core_scores.
Print Assumptions ft_core_empty_branch.
