(* Closing theorems for the filters' filter_tables and the edit-distance join at the API level
   of the model, WITHOUT a partition hypothesis: `part_hyp` of ApiFilterBase.v is discharged by
   SplitFacts.chunks_of_partition (which is proved of the generated split_table text with the
   double-precision arithmetic of SplitArith.v, hence the Reals/Flocq axioms below).        *)
From Coq Require Import ZArith Bool List String Lia.
From SSJ Require Import F64 PyNum HelperGen TokenOrdering Measures Filters Lev Qgram Joins Api JoinSpec
                        MetaSpec EditJoin SplitArith SplitFacts
                        ApiFilterBase ApiFilterOverlap ApiFilterTables ApiFilterJCD ApiFilterEdit
                        ApiFilterEditPos.
Import ListNotations.
Open Scope string_scope.
Open Scope list_scope.
Open Scope Z_scope.

Theorem part_hyp_holds : part_hyp.
Proof.
  intros A njobs cpus Rp Hl. destruct (chunks_of_partition A njobs cpus Rp Hl) as [chs [E [Hc _]]].
  exists chs. split; assumption.
Qed.

Definition all_specs (c : jcase) (out : list out_row) : Prop :=
  complete_spec c out = true /\ sound_spec c out = true /\
  missing_spec c out = true /\ empty_spec c out = true.

(* ---- OverlapFilter.filter_tables (C06, C08, C09) ---- *)
Theorem C06_overlap_filter_tables : forall c, valid_ovf_case c ->
  (exists out, api_join c = Some out) /\
  forall out, api_join c = Some out ->
    all_specs c out /\
    forall l r, In l (j_L c) -> In r (j_R c) -> present l = true -> present r = true ->
      has_pair (fst l) (fst r) out =
      cmp_op (j_op c) (PInt (overlap_sets (toks_of l) (toks_of r))) (j_t c).
Proof.
  intros c Hv. pose proof part_hyp_holds as Hp. split; [apply (ovf_total Hp c Hv)|].
  intros out H. split; [|apply (ovf_exact Hp c Hv out H)].
  split; [apply (ovf_complete Hp c Hv out H)|]. split; [apply (ovf_sound Hp c Hv out H)|].
  split; [apply (ovf_missing Hp c Hv out H)|apply (ovf_empty Hp c Hv out H)].
Qed.

(* ---- Size / Prefix / Position filter_tables, J/C/D and OVERLAP (C04, C08, C09, C14) ---- *)
Theorem C04_filter_tables : forall c k m, valid_filter_case c k m ->
  (exists out, api_join c = Some out) /\
  forall out, api_join c = Some out -> all_specs c out.
Proof.
  intros c k m Hv. pose proof part_hyp_holds as Hp. split; [apply (filter_total Hp c k m Hv)|].
  intros out H. split; [apply (filter_complete Hp c k m Hv out H)|].
  split; [apply (filter_sound_v Hp c k m Hv out H)|].
  split; [apply (filter_missing_v Hp c k m Hv out H)|apply (filter_empty_v Hp c k m Hv out H)].
Qed.

(* soundness / missing / empty for ANY measure and threshold (C08, C09, C14) *)
Theorem C14_filter_tables_sound : forall c k m, j_entry c = EFilter k m -> k3 k -> size_ok c -> keys_ok c ->
  forall out, api_join c = Some out ->
    sound_spec c out = true /\ missing_spec c out = true /\ empty_spec c out = true.
Proof.
  intros c k m He Hk Hsz Hkeys out H. pose proof part_hyp_holds as Hp.
  split; [apply (filter_sound Hp c k m He Hk Hsz Hkeys out H)|].
  split; [apply (filter_missing Hp c Hsz Hkeys out H)|apply (filter_empty Hp c k m He Hk Hsz Hkeys out H)].
Qed.

(* ---- edit_distance_join (C03, C08) ---- *)
Theorem C03_edit_distance_join : forall c tau, valid_ed_case c tau ->
  (exists out, api_join c = Some out) /\
  forall out, api_join c = Some out ->
    sound_spec c out = true /\ missing_spec c out = true /\ empty_spec c out = true /\
    (cf_rows c ->
       complete_spec c out = true /\
       forall l r, In l (j_L c) -> In r (j_R c) -> present l = true -> present r = true ->
         has_pair (fst l) (fst r) out =
         cmp_op (j_op c) (JoinSpec.ed_dist l r) (PInt tau) && share (toks_of l) (toks_of r)).
Proof.
  intros c tau Hv. pose proof part_hyp_holds as Hp. split; [apply (ed_join_total Hp c tau Hv)|].
  intros out H. split; [apply (ed_join_sound Hp c tau Hv out H)|].
  split; [apply (ed_join_missing Hp c tau Hv out H)|]. split; [apply (ed_join_empty Hp c tau Hv out H)|].
  intros Hcf. split; [apply (ed_join_complete Hp c tau Hv Hcf out H)|apply (ed_join_exact Hp c tau Hv Hcf out H)].
Qed.

Corollary C03_edit_distance_join_qgram : forall tk f c tau,
  (forall a b, f a = f b -> a = b) -> j_q c = qq tk -> valid_ed_case c tau -> qgram_rows tk f c ->
  forall out, api_join c = Some out -> all_specs c out.
Proof.
  intros tk f c tau Hinj Eq Hv Hrows out H.
  destruct (C03_edit_distance_join c tau Hv) as [_ Hs]. destruct (Hs out H) as [H2 [H3 [H4 H1]]].
  assert (Hcf : cf_rows c).
  { apply (qgram_rows_cf tk f c Hinj Eq); [|exact Hrows]. rewrite <- Eq. exact (proj1 (proj2 Hv)). }
  split; [apply (H1 Hcf)|]. auto.
Qed.

(* ---- Size / Prefix / Position filter_tables under EDIT_DISTANCE (C04) ---- *)
Theorem C04_filter_tables_edit : forall c k tau, valid_edf_case c k tau ->
  (exists out, api_join c = Some out) /\
  forall out, api_join c = Some out ->
    sound_spec c out = true /\ missing_spec c out = true /\ empty_spec c out = true /\
    (edf_rows c -> complete_spec c out = true).
Proof.
  intros c k tau Hv. pose proof part_hyp_holds as Hp. split; [apply (edf_total Hp c k tau Hv)|].
  intros out H. split; [apply (edf_sound Hp c k tau Hv out H)|].
  split; [apply (edf_missing Hp c k tau Hv out H)|]. split; [apply (edf_empty Hp c k tau Hv out H)|].
  intros Hrows. apply (edf_complete k (proj1 (proj2 Hv)) Hp c tau Hv Hrows out H).
Qed.

Corollary C04_filter_tables_edit_qgram : forall tk f c k tau,
  (forall a b, f a = f b -> a = b) -> j_q c = qq tk -> valid_edf_case c k tau -> qgram_rows tk f c ->
  forall out, api_join c = Some out -> all_specs c out.
Proof.
  intros tk f c k tau Hinj Eq Hv Hrows out H.
  destruct (C04_filter_tables_edit c k tau Hv) as [_ Hs]. destruct (Hs out H) as [H2 [H3 [H4 H1]]].
  assert (Hq : 1 <= qq tk) by (rewrite <- Eq; exact (proj1 (proj2 (proj2 (proj2 (proj2 Hv)))))).
  split; [apply H1; apply (qgram_rows_edf tk f c Hinj Eq Hq Hrows)|]. auto.
Qed.

Print Assumptions part_hyp_holds.
Print Assumptions C06_overlap_filter_tables.
Print Assumptions C04_filter_tables.
Print Assumptions C14_filter_tables_sound.
Print Assumptions C03_edit_distance_join.
Print Assumptions C03_edit_distance_join_qgram.
Print Assumptions C04_filter_tables_edit.
Print Assumptions C04_filter_tables_edit_qgram.
