(* C07 about the MODEL ITSELF: for a valid JACCARD / COSINE / DICE / OVERLAP join case, the pipeline
     filter_tables (Size / Prefix / Position filter, API-level model `api_join` with entry EFilter)
     followed by apply_matcher (Model/Matcher.v, similarity = the measure's raw score on the values
     found by key, same threshold / operator / allow_missing / n_jobs)
   is defined and its result is related to the join's result by `pipeline_spec` (same key pairs,
   same scores after rounding to 4 decimals; both-empty and gray pairs aside -- gray for the
   join's raw score or for the matcher's raw score, which differ on equal token sets listed in
   different orders: matcher_raw_score, Proofs/CosSelf.v).  No hypothesis
   about outputs: the filter stage's completeness / soundness come from C04_filter_tables, the
   matcher stage from apply_matcher_rows_b, the join from api_join_spec, the scores from
   ModelScores / ModelArith.                                                                *)
From Coq Require Import ZArith Bool List String Lia SpecFloat PeanoNat.
From SSJ Require Import F64 PyNum HelperGen TokenOrdering Measures Filters Joins Api Matcher JoinSpec MetaSpec
     OverlapFacts ApiLift ApiJoinPairs ApiJoinSpec PartitionInst
     ApiFilterTables ApiFilterJCD ApiFilterRefine ApiFilterClosed MatcherFacts MatcherChunks
     LawsBase LawsScore LawsSpec Laws LawsPipe ModelScores ModelArith CosSelf.
Import ListNotations.
Open Scope string_scope.
Open Scope list_scope.
Open Scope Z_scope.

(* ================================================================== the model pipeline *)
(* the matcher's view of a table: key -> value id (the key itself: keys are unique) or missing *)
Definition mrows_of (T : list row) : list mrow :=
  map (fun r : row => (fst r, if present r then Some (fst r) else None)) T.
(* sim_function(tokenize(l value), tokenize(r value)): get_raw_score on the tokenizer's LISTS *)
Definition sim_of (m : string) (L R : list row) (a b : Z) : pyval :=
  match find_row a L, find_row b R with
  | Some l, Some r => matcher_raw_score m (toks_of l) (toks_of r)
  | _, _ => PNone
  end.
(* the candidate set: _id = position, the two key columns of the filter's output *)
Definition cand_of (cands : list out_row) : list crow :=
  map (fun io : nat * out_row => (PInt (Z.of_nat (fst io)), fst (fst (snd io)), snd (fst (snd io))))
      (enumerate cands).
Definition strip (r : pyval * Z * Z * pyval) : out_row := (snd (fst (fst r)), snd (fst r), snd r).

Definition filter_stage (c : jcase) (k : fkind) (m : string) : option (list out_row) :=
  api_join (with_entry c (EFilter k m)).
Definition matcher_stage (c : jcase) (m : string) (cands : list out_row) : option (list out_row) :=
  option_map (map strip)
    (apply_matcher_model (sim_of m (j_L c) (j_R c)) (j_t c) (j_op c) (j_allow_missing c) (j_with_score c)
       (mrows_of (j_L c)) (mrows_of (j_R c)) (j_njobs c) (j_cpus c) (cand_of cands)).
Definition pipeline_model (c : jcase) (k : fkind) (m : string) : option (list out_row) :=
  match filter_stage c k m with Some cands => matcher_stage c m cands | None => None end.

(* ================================================================== pipeline_law on the rows *)
(* round_agrees_rows, pipeline_law_rows: Proofs/LawsPipe.v *)

(* rounding the join's score again gives the rounded score of the matcher (J/C/D, token sets in
   the envelope): on equal lists and on different sets the matcher's score is the join's raw
   score; on equal sets listed differently it is the formula at o = a = b, which rounds to 1.0 *)
Lemma round_agrees_sets_matcher x y m op t : toks_ok x -> toks_ok y ->
  is_jcd m = true -> lower_op op -> cmp_op op (reported_score m x y) t = true ->
  score_same (round_score (reported_score m x y)) (round_score (matcher_raw_score m x y)) = true.
Proof.
  intros Hx Hy Hm Hop Hc.
  destruct (matcher_raw_cases m x y) as [E|(_ & El & E1 & E2 & _ & E)]; rewrite E.
  - exact (round_agrees_sets_jcd x y Hx Hy m op t Hm Hop Hc).
  - destruct Hx as [Nx Bx]. destruct Hy as [Ny By].
    rewrite (dedup_id x Nx) in *. rewrite (dedup_id y Ny) in *.
    assert (Ha : 1 <= len x < size_bound).
    { split; [|exact Bx]. destruct x as [|w x]; [|unfold len; cbn [List.length]; lia].
      exfalso. destruct y as [|w y]; [discriminate El|].
      rewrite E1 in E2. unfold len in E2. cbn [List.length] in E2. lia. }
    unfold reported_score, score4, sim_sizes. rewrite Hm. cbv zeta.
    rewrite (dedup_id x Nx), (dedup_id y Ny), <- E2, E1, !Z.eqb_refl. cbn [andb round_score].
    rewrite (self_round4 m (len x) (jcd_cases' m Hm) Ha), !round4_one. reflexivity.
Qed.

(* ================================================================== the matcher stage, id-free *)
Lemma lookup_mrows T k : NoDup (map fst T) ->
  lookup k (mrows_of T) =
  option_map (fun r : row => if present r then Some (fst r) else None) (find_row k T).
Proof.
  unfold find_row. induction T as [|x T IH]; intros Hn; [reflexivity|].
  simpl in Hn. inversion Hn as [|? ? Hx Hn']; subst. cbn [mrows_of map lookup find].
  fold (mrows_of T). destruct (Z.eqb_spec (fst x) k) as [E|E].
  - assert (lookup k (mrows_of T) = None) as ->.
    { apply lookup_None. unfold mrows_of. rewrite map_map. cbn [fst]. rewrite <- E. exact Hx. }
    rewrite <- E, Z.eqb_refl. reflexivity.
  - rewrite (IH Hn'). destruct (find _ T); [reflexivity|].
    cbn [option_map]. destruct (Z.eqb_spec k (fst x)) as [E'|_]; [congruence | reflexivity].
Qed.

Lemma strip_ids {A B C} (h : nat * A -> B) (p : B -> bool) (g : B -> C) (p' : A -> bool) (g' : A -> C) :
  (forall i a, p (h (i, a)) = p' a) -> (forall i a, g (h (i, a)) = g' a) ->
  forall (l : list A) (idx : list nat), List.length idx = List.length l ->
  map g (filter p (map h (combine idx l))) = map g' (filter p' l).
Proof.
  intros Hp Hg. induction l as [|a l IH]; intros idx Hlen.
  - destruct idx; reflexivity.
  - destruct idx as [|i idx]; [discriminate Hlen|]. cbn [combine map filter].
    rewrite Hp. destruct (p' a); cbn [map]; rewrite ?Hg, (IH idx) by (simpl in Hlen; lia); reflexivity.
Qed.

Section Stage.
Variables (c : jcase) (m : string).
Local Notation Lm := (mrows_of (j_L c)).
Local Notation Rm := (mrows_of (j_R c)).
Local Notation sim := (sim_of m (j_L c) (j_R c)).

(* keep / output of a candidate, without its _id *)
Definition kp (o : out_row) : bool :=
  keep sim (j_t c) (j_op c) (j_allow_missing c) Lm Rm (PNone, fst (fst o), snd (fst o)).
Definition gp (o : out_row) : out_row :=
  strip (out sim (j_with_score c) Lm Rm (PNone, fst (fst o), snd (fst o))).

Lemma cand_of_length cands : List.length (cand_of cands) = List.length cands.
Proof. unfold cand_of, enumerate. rewrite map_length, combine_length, seq_length. apply Nat.min_id. Qed.

Theorem matcher_stage_eq cands : Z.of_nat (List.length cands) < 2 ^ 31 ->
  matcher_stage c m cands = Some (map gp (filter kp cands)).
Proof.
  intros Hlen. unfold matcher_stage.
  rewrite apply_matcher_rows_b by (rewrite cand_of_length; exact Hlen).
  cbn [option_map]. f_equal. rewrite map_map. unfold cand_of, enumerate.
  apply (strip_ids _ _ (fun x => strip (out sim (j_with_score c) Lm Rm x)) kp gp).
  - intros i [[lk rk] s]. reflexivity.
  - intros i [[lk rk] s]. unfold gp, out. cbn [fst snd].
    destruct (lookup lk Lm) as [[a|]|]; destruct (lookup rk Rm) as [[b|]|]; reflexivity.
  - apply seq_length.
Qed.

Hypothesis HkL : NoDup (map fst (j_L c)).
Hypothesis HkR : NoDup (map fst (j_R c)).

(* on a candidate whose keys exist: the comparison on the matcher's score of the two values *)
Lemma kp_gp_found o l r :
  find_row (fst (fst o)) (j_L c) = Some l -> find_row (snd (fst o)) (j_R c) = Some r ->
  kp o = (if present l && present r
          then cmp_op (j_op c) (matcher_raw_score m (toks_of l) (toks_of r)) (j_t c) else j_allow_missing c) /\
  gp o = (fst o, if present l && present r
                 then (if j_with_score c then matcher_raw_score m (toks_of l) (toks_of r) else PNone) else PNone).
Proof.
  intros Hl Hr. destruct o as [[lk rk] s]. cbn [fst snd] in *.
  destruct (find_row_some _ _ _ Hl) as [_ El]. destruct (find_row_some _ _ _ Hr) as [_ Er].
  assert (Es : sim (fst l) (fst r) = matcher_raw_score m (toks_of l) (toks_of r)).
  { unfold sim_of. rewrite El, Er, Hl, Hr. reflexivity. }
  unfold kp, gp, keep, out. cbn [fst snd].
  rewrite (lookup_mrows (j_L c) lk HkL), (lookup_mrows (j_R c) rk HkR), Hl, Hr. cbn [option_map].
  destruct (present l), (present r); cbn [andb strip fst snd]; rewrite ?Es; split; reflexivity.
Qed.
End Stage.

(* ================================================================== the filter stage *)
Lemma toks_missing (r : row) : present r = false -> toks_of r = [].
Proof. unfold present, toks_of. destruct (snd r); [discriminate | reflexivity]. Qed.

Lemma valid_rows_ok c : tables_ok c -> rows_ok c.
Proof.
  intros [_ [_ [HL [HR _]]]]. split; intros x Hx.
  - destruct (present x) eqn:P; [exact (HL x Hx P)|]. rewrite (toks_missing x P).
    split; [constructor | reflexivity].
  - destruct (present x) eqn:P; [exact (HR x Hx P)|]. rewrite (toks_missing x P).
    split; [constructor | reflexivity].
Qed.

Definition pipe_measure (m : string) : Prop := is_jcd m = true \/ m = "OVERLAP".

Lemma valid_filter_of_join c k m : valid_join_case c -> j_entry c = EJoin m -> pipe_measure m -> k3 k ->
  valid_filter_case (with_entry c (EFilter k m)) k m.
Proof.
  intros [Htab [_ [m' [He' Hp]]]] He Hpm Hk. rewrite He in He'. injection He' as <-.
  split; [reflexivity|]. split; [exact Hk|].
  split; [exact (proj2 (proj2 (proj2 (proj2 (proj2 (proj2 Htab))))))|].
  split; [split; [exact (proj1 Htab) | exact (proj1 (proj2 Htab))]|].
  split; [exact (valid_rows_ok c Htab)|].
  cbn [with_entry j_t].
  destruct Hp as [[Hj [t [Et Henv]]]|[[-> [_ [T [ET HT]]]]|[-> _]]].
  - exact (thr_jcd m (j_t c) t Hj Et Henv).
  - exact (thr_ov "OVERLAP" (j_t c) T eq_refl ET HT).
  - destruct Hpm as [Hj|Hj]; discriminate Hj.
Qed.

(* what soundness of the filter stage says about a candidate *)
Lemma cands_view c k m cands : sound_spec (with_entry c (EFilter k m)) cands = true ->
  forall o, In o cands ->
  exists l r, find_row (fst (fst o)) (j_L c) = Some l /\ find_row (snd (fst o)) (j_R c) = Some r /\
              count_pair (fst (fst o)) (snd (fst o)) cands = 1%nat /\
              (present l && present r = false -> j_allow_missing c = true).
Proof.
  intros Hs [[lk rk] s] Ho. unfold sound_spec in Hs. rewrite forallb_forall in Hs.
  specialize (Hs _ Ho). unfold sound_row in Hs. cbn [with_entry j_L j_R j_entry j_allow_missing] in Hs.
  cbn [fst snd].
  destruct (find_row lk (j_L c)) as [l|]; [|discriminate Hs].
  destruct (find_row rk (j_R c)) as [r|]; [|discriminate Hs].
  apply andb_true_iff in Hs. destruct Hs as [Hc Hrest]. apply Nat.eqb_eq in Hc.
  exists l, r. repeat split; try assumption.
  intros Ep. rewrite Ep in Hrest. apply andb_true_iff in Hrest. exact (proj1 Hrest).
Qed.

(* comparisons with a lower operator imply the >= comparison *)
Lemma cmp_lower_ge op a t : lower_op op -> scalar_score a = true ->
  cmp_op op a t = true -> cmp_op ">=" a t = true.
Proof.
  intros [-> | [-> | ->]] Ha H; [exact H| |]; rewrite (cmp_ge_split a t Ha), H; [reflexivity | apply orb_true_r].
Qed.

Lemma raw_scalar m x y : set_measure m = true -> scalar_score (raw_score m x y) = true.
Proof.
  intros Hm. pose proof (raw_score_shape m x y Hm) as S. destruct (String.eqb m "OVERLAP").
  - rewrite S. reflexivity.
  - destruct S as [[f ->]|[e ->]]; reflexivity.
Qed.

Lemma reported_scalar m x y : set_measure m = true -> scalar_score (reported_score m x y) = true.
Proof.
  intros Hm. destruct (is_jcd m) eqn:Ej.
  - unfold reported_score. rewrite Ej. reflexivity.
  - rewrite (reported_not_jcd m x y Ej). exact (raw_scalar m x y Hm).
Qed.

Lemma qualifies_lower_ge m op t x y : set_measure m = true -> lower_op op ->
  qualifies m op t x y = true -> qualifies m ">=" t x y = true.
Proof.
  intros Hm Hop H. unfold qualifies in *. apply andb_true_iff in H. destruct H as [H1 H2].
  rewrite (cmp_lower_ge op _ t Hop (raw_scalar m x y Hm) H1),
          (cmp_lower_ge op _ t Hop (reported_scalar m x y Hm) H2). reflexivity.
Qed.

Lemma count_pair_map_keys (g : out_row -> out_row) lk rk a :
  (forall o, fst (g o) = fst o) -> count_pair lk rk (map g a) = count_pair lk rk a.
Proof.
  intros Hg. rewrite !count_pair_keyb. induction a as [|o a IH]; [reflexivity|]. cbn [map filter].
  assert (keyb lk rk (g o) = keyb lk rk o) as -> by (unfold keyb; rewrite Hg; reflexivity).
  destruct (keyb lk rk o); cbn [List.length]; rewrite IH; reflexivity.
Qed.

Lemma count_pair_filter_le (p : out_row -> bool) lk rk a :
  (count_pair lk rk (filter p a) <= count_pair lk rk a)%nat.
Proof.
  rewrite !count_pair_keyb. induction a as [|o a IH]; [simpl; lia|]. cbn [filter].
  destruct (p o); cbn [filter]; destruct (keyb lk rk o); cbn [List.length]; lia.
Qed.

(* ================================================================== the pipeline's result *)
Section Pipeline.
Variables (c : jcase) (k : fkind) (m : string) (cands : list out_row).
Hypothesis Hv : valid_join_case c.
Hypothesis He : j_entry c = EJoin m.
Hypothesis Hpm : pipe_measure m.
Hypothesis Hk : k3 k.
Hypothesis Hcands : filter_stage c k m = Some cands.

Local Notation cf := (with_entry c (EFilter k m)).
Local Notation outP := (map (gp c m) (filter (kp c m) cands)).

Lemma pl_keys : NoDup (map fst (j_L c)) /\ NoDup (map fst (j_R c)).
Proof. destruct Hv as [[H1 [H2 _]] _]. split; assumption. Qed.

Lemma pl_lower : lower_op (j_op c).
Proof. exact (proj1 (proj2 Hv)). Qed.

Lemma pl_set_measure : set_measure m = true.
Proof.
  destruct Hpm as [Hj| ->]; [|reflexivity]. unfold set_measure. rewrite Hj. reflexivity.
Qed.

Lemma pl_filter_specs : all_specs cf cands.
Proof.
  destruct (C04_filter_tables cf k m (valid_filter_of_join c k m Hv He Hpm Hk)) as [_ H].
  exact (H cands Hcands).
Qed.

Lemma pl_view o : In o cands ->
  exists l r, find_row (fst (fst o)) (j_L c) = Some l /\ find_row (snd (fst o)) (j_R c) = Some r /\
              count_pair (fst (fst o)) (snd (fst o)) cands = 1%nat /\
              (present l && present r = false -> j_allow_missing c = true).
Proof. destruct pl_filter_specs as [_ [Hs _]]. exact (cands_view c k m cands Hs o). Qed.

Lemma pl_uniq_cands : uniq cands.
Proof. apply count_uniq. intros o Ho. destruct (pl_view o Ho) as [l [r [_ [_ [H _]]]]]. exact H. Qed.

Lemma pl_gp_key o : fst (gp c m o) = fst o.
Proof.
  destruct o as [[lk rk] s]. unfold gp, out, strip. cbn [fst snd].
  destruct (lookup lk (mrows_of (j_L c))) as [[a|]|]; destruct (lookup rk (mrows_of (j_R c))) as [[b|]|]; reflexivity.
Qed.

Lemma pl_keys_out : keys outP = keys (filter (kp c m) cands).
Proof. unfold keys, okey. rewrite map_map. apply map_ext. intros o. apply pl_gp_key. Qed.

Lemma pl_uniq_out : uniq outP.
Proof. unfold uniq. rewrite pl_keys_out. apply uniq_filter. exact pl_uniq_cands. Qed.

(* the candidate count fits the matcher's chunking envelope *)
Lemma pl_cands_length :
  Z.of_nat (List.length cands) <= Z.of_nat (List.length (j_L c)) * Z.of_nat (List.length (j_R c)).
Proof.
  rewrite <- Nat2Z.inj_mul. apply Nat2Z.inj_le.
  assert (E1 : List.length (map fst (j_L c)) = List.length (j_L c)) by apply map_length.
  assert (E2 : List.length (map fst (j_R c)) = List.length (j_R c)) by apply map_length.
  assert (E3 : List.length (map okey cands) = List.length cands) by apply map_length.
  rewrite <- E1, <- E2, <- E3, <- prod_length. apply NoDup_incl_length; [exact pl_uniq_cands|].
  intros [lk rk] Hin. apply in_map_iff in Hin. destruct Hin as [o [Eo Ho]].
  destruct (pl_view o Ho) as [l [r [Hl [Hr _]]]]. unfold okey in Eo.
  destruct (find_row_some _ _ _ Hl) as [Il El]. destruct (find_row_some _ _ _ Hr) as [Ir Er].
  destruct o as [[a b] s]. cbn [fst snd] in *. injection Eo as <- <-.
  apply in_prod; apply in_map_iff; eauto.
Qed.

Hypothesis Hsmall : Z.of_nat (List.length (j_L c)) * Z.of_nat (List.length (j_R c)) < 2 ^ 31.

Theorem pl_matcher : matcher_stage c m cands = Some outP.
Proof. apply matcher_stage_eq. pose proof pl_cands_length. lia. Qed.

Corollary pl_pipeline : pipeline_model c k m = Some outP.
Proof. unfold pipeline_model. rewrite Hcands. exact pl_matcher. Qed.

(* membership in the pipeline's result *)
Lemma pl_out_In o' : In o' outP <-> exists o, In o cands /\ kp c m o = true /\ o' = gp c m o.
Proof.
  rewrite in_map_iff. split.
  - intros [o [E Ho]]. apply filter_In in Ho. exists o. intuition.
  - intros [o [Ho [Hkp E]]]. exists o. split; [symmetry; exact E | apply filter_In; tauto].
Qed.

Hypothesis Hws : j_with_score c = true.

Theorem pl_sound_raw : pipeline_sound_raw c outP = true.
Proof.
  destruct pl_keys as [HkL HkR].
  unfold pipeline_sound_raw. apply forallb_forall. intros o' Ho'.
  pose proof (uniq_count outP o' pl_uniq_out Ho') as Hcnt.
  apply pl_out_In in Ho'. destruct Ho' as [o [Ho [Hkp ->]]].
  destruct (pl_view o Ho) as [l [r [Hl [Hr [_ Ham]]]]].
  destruct (kp_gp_found c m HkL HkR o l r Hl Hr) as [Ekp Egp].
  unfold pipe_row. rewrite Egp in *. cbn [fst snd] in Hcnt |- *. rewrite Hl, Hr, Hcnt. cbn [Nat.eqb andb].
  rewrite Ekp in Hkp. destruct (present l && present r) eqn:Ep.
  - destruct (both_empty l r); [reflexivity|]. rewrite He, Hkp, Hws. cbn [andb].
    pose proof (matcher_raw_shape m (toks_of l) (toks_of r) pl_set_measure) as S.
    destruct (String.eqb m "OVERLAP").
    + rewrite S. apply score_same_int.
    + destruct S as [[f Ef]|[e Ee]]; rewrite ?Ef, ?Ee in *.
      * exact (cmp_true_same_float _ _ _ pl_lower Hkp).
      * rewrite (cmp_exc_false _ _ _ pl_lower) in Hkp. discriminate.
  - rewrite (Ham eq_refl). reflexivity.
Qed.

Theorem pl_complete_raw : pipeline_complete_raw c outP = true.
Proof.
  destruct pl_keys as [HkL HkR]. destruct pl_filter_specs as [Hc _].
  unfold pipeline_complete_raw, forall_pairs. apply forallb_forall. intros l Hl.
  apply forallb_forall. intros r Hr.
  destruct (present l && present r) eqn:Ep; [|reflexivity].
  destruct (both_empty l r) eqn:Eb; [reflexivity|]. rewrite He.
  destruct (qualifies m (j_op c) (j_t c) (toks_of l) (toks_of r)) eqn:Eq; [|reflexivity].
  destruct (cmp_op (j_op c) (matcher_raw_score m (toks_of l) (toks_of r)) (j_t c)) eqn:Em; [|reflexivity].
  cbn [andb].
  (* the filter stage lists the pair *)
  unfold complete_spec in Hc. rewrite forallb_forall in Hc. specialize (Hc l Hl).
  rewrite forallb_forall in Hc. specialize (Hc r Hr). cbn [with_entry j_entry j_t j_L j_R] in Hc.
  rewrite Ep in Hc. cbv zeta in Hc. unfold both_empty in Eb. rewrite Eb in Hc.
  assert (Hned : String.eqb m "EDIT_DISTANCE" = false) by (apply set_measure_not_ed; exact pl_set_measure).
  rewrite Hned, (qualifies_lower_ge m (j_op c) (j_t c) _ _ pl_set_measure pl_lower Eq) in Hc.
  apply LawsBase.has_pair_In in Hc. destruct Hc as [s0 Ho].
  (* the matcher keeps it *)
  assert (Hfl : find_row (fst l) (j_L c) = Some l) by (apply find_row_unique; auto).
  assert (Hfr : find_row (fst r) (j_R c) = Some r) by (apply find_row_unique; auto).
  destruct (kp_gp_found c m HkL HkR (fst l, fst r, s0) l r Hfl Hfr) as [Ekp Egp].
  rewrite Ep in Ekp, Egp. rewrite Em in Ekp.
  apply LawsBase.has_pair_In. eexists. apply pl_out_In. exists (fst l, fst r, s0).
  split; [exact Ho|]. split; [exact Ekp|]. rewrite Egp. reflexivity.
Qed.

Theorem pl_missing : missing_spec c outP = true.
Proof.
  destruct pl_keys as [HkL HkR]. destruct pl_filter_specs as [_ [_ [Hm _]]].
  unfold missing_spec, forall_pairs in *. apply forallb_forall. intros l Hl.
  apply forallb_forall. intros r Hr.
  rewrite forallb_forall in Hm. specialize (Hm l Hl). rewrite forallb_forall in Hm. specialize (Hm r Hr).
  cbn [with_entry j_allow_missing j_L j_R] in Hm.
  destruct (present l && present r) eqn:Ep; [reflexivity|].
  apply Nat.eqb_eq in Hm. apply Nat.eqb_eq.
  rewrite (count_pair_map_keys (gp c m) _ _ _ pl_gp_key).
  pose proof (count_pair_filter_le (kp c m) (fst l) (fst r) cands) as Hle.
  destruct (j_allow_missing c) eqn:Eam; [|lia].
  assert (0 < count_pair (fst l) (fst r) (filter (kp c m) cands))%nat; [|lia].
  apply count_pair_has. apply LawsBase.has_pair_In.
  assert (has_pair (fst l) (fst r) cands = true) as Hh by (apply count_pair_has; lia).
  apply LawsBase.has_pair_In in Hh. destruct Hh as [s0 Ho]. exists s0. apply filter_In. split; [exact Ho|].
  assert (Hfl : find_row (fst l) (j_L c) = Some l) by (apply find_row_unique; auto).
  assert (Hfr : find_row (fst r) (j_R c) = Some r) by (apply find_row_unique; auto).
  destruct (kp_gp_found c m HkL HkR (fst l, fst r, s0) l r Hfl Hfr) as [Ekp _].
  rewrite Ep, Eam in Ekp. exact Ekp.
Qed.

Theorem pl_typed : typed_scores c outP = true.
Proof.
  destruct pl_keys as [HkL HkR].
  unfold typed_scores. apply forallb_forall. intros o' Ho'.
  apply pl_out_In in Ho'. destruct Ho' as [o [Ho [Hkp ->]]].
  destruct (pl_view o Ho) as [l [r [Hl [Hr _]]]].
  destruct (kp_gp_found c m HkL HkR o l r Hl Hr) as [Ekp Egp]. rewrite Egp. cbn [snd].
  rewrite Ekp in Hkp. rewrite (int_case_join c m He).
  destruct (present l && present r); [|reflexivity]. rewrite Hws.
  pose proof (matcher_raw_shape m (toks_of l) (toks_of r) pl_set_measure) as S.
  destruct (String.eqb m "OVERLAP").
  - rewrite S. reflexivity.
  - destruct S as [[f ->]|[e Ee]]; [reflexivity|].
    rewrite Ee, (cmp_exc_false _ _ _ pl_lower) in Hkp. discriminate.
Qed.

(* rounding the join's score again gives the rounded raw score, on the rows of the tables *)
Lemma pl_round_agrees : round_agrees_rows c m.
Proof.
  intros l r Hl Hr Pl Pr Hc. destruct Hpm as [Hj| ->].
  - destruct Hv as [[_ [_ [HL [HR _]]]] _].
    exact (round_agrees_sets_matcher (toks_of l) (toks_of r) m (j_op c) (j_t c) (HL l Hl Pl) (HR r Hr Pr)
             Hj pl_lower Hc).
  - exact (round_agrees_overlap c (toks_of l) (toks_of r) Hc).
Qed.

Theorem pl_pipeline_spec outJ : api_join c = Some outJ -> pipeline_spec c outJ outP = true.
Proof.
  intros HJ. destruct (model_call c outJ Hv HJ) as (A1 & A2 & A3 & _ & A5 & _).
  apply (pipeline_law_rows c m outJ outP He pl_set_measure Hws
           pl_sound_raw pl_complete_raw pl_missing pl_typed A1 A2 A3 A5 pl_round_agrees).
Qed.
End Pipeline.

(* ================================================================== closing theorems *)
(* the pipeline of the model is defined ... *)
Theorem C07_pipeline_model_total : forall c k m,
  valid_join_case c -> j_entry c = EJoin m -> pipe_measure m -> k3 k ->
  Z.of_nat (List.length (j_L c)) * Z.of_nat (List.length (j_R c)) < 2 ^ 31 ->
  exists outP, pipeline_model c k m = Some outP.
Proof.
  intros c k m Hv He Hpm Hk Hsmall.
  destruct (C04_filter_tables _ k m (valid_filter_of_join c k m Hv He Hpm Hk)) as [[cands Hc] _].
  eexists. exact (pl_pipeline c k m cands Hv He Hpm Hk Hc Hsmall).
Qed.

(* ... its result is sound and complete w.r.t. the raw score ... *)
Theorem C07_pipeline_model_raw : forall c k m outP,
  valid_join_case c -> j_entry c = EJoin m -> pipe_measure m -> k3 k -> j_with_score c = true ->
  Z.of_nat (List.length (j_L c)) * Z.of_nat (List.length (j_R c)) < 2 ^ 31 ->
  pipeline_model c k m = Some outP ->
  pipeline_sound_raw c outP = true /\ pipeline_complete_raw c outP = true /\
  missing_spec c outP = true /\ typed_scores c outP = true.
Proof.
  intros c k m outP Hv He Hpm Hk Hws Hsmall HP.
  destruct (C04_filter_tables _ k m (valid_filter_of_join c k m Hv He Hpm Hk)) as [[cands Hc] _].
  rewrite (pl_pipeline c k m cands Hv He Hpm Hk Hc Hsmall) in HP. injection HP as <-.
  split; [exact (pl_sound_raw c k m cands Hv He Hpm Hk Hc Hws)|].
  split; [exact (pl_complete_raw c k m cands Hv He Hpm Hk Hc)|].
  split; [exact (pl_missing c k m cands Hv He Hpm Hk Hc)|].
  exact (pl_typed c k m cands Hv He Hpm Hk Hc Hws).
Qed.

(* ... and the join equals the pipeline (C07): same key pairs, same scores after rounding to four
   decimals, both-empty and gray pairs aside *)
Theorem C07_pipeline_model : forall c k m outJ outP,
  valid_join_case c -> j_entry c = EJoin m -> pipe_measure m -> k3 k -> j_with_score c = true ->
  Z.of_nat (List.length (j_L c)) * Z.of_nat (List.length (j_R c)) < 2 ^ 31 ->
  api_join c = Some outJ -> pipeline_model c k m = Some outP ->
  pipeline_spec c outJ outP = true.
Proof.
  intros c k m outJ outP Hv He Hpm Hk Hws Hsmall HJ HP.
  destruct (C04_filter_tables _ k m (valid_filter_of_join c k m Hv He Hpm Hk)) as [[cands Hc] _].
  rewrite (pl_pipeline c k m cands Hv He Hpm Hk Hc Hsmall) in HP. injection HP as <-.
  exact (pl_pipeline_spec c k m cands Hv He Hpm Hk Hc Hws outJ HJ).
Qed.

Corollary C07_pipeline_model_jcd : forall c k m outJ outP,
  valid_join_case c -> j_entry c = EJoin m -> is_jcd m = true -> k3 k -> j_with_score c = true ->
  Z.of_nat (List.length (j_L c)) * Z.of_nat (List.length (j_R c)) < 2 ^ 31 ->
  api_join c = Some outJ -> pipeline_model c k m = Some outP ->
  pipeline_spec c outJ outP = true.
Proof. intros c k m outJ outP Hv He Hj. exact (C07_pipeline_model c k m outJ outP Hv He (or_introl Hj)). Qed.

(* ================================================================== non-vacuity *)
Definition pipe_check (c : jcase) (k : fkind) (m : string) : bool :=
  match api_join c, pipeline_model c k m with
  | Some outJ, Some outP =>
      pipeline_spec c outJ outP && pipeline_sound_raw c outP && pipeline_complete_raw c outP &&
      negb (Nat.eqb (List.length outP) 0)
  | _, _ => false
  end.

Example ex3_pipeline_checks :
  forallb (fun k => pipe_check (ex3 "JACCARD" (PFloat (mkF 1 (-1))) true 2) k "JACCARD" &&
                    pipe_check (ex3 "COSINE" (PFloat (mkF 1 (-1))) true 3) k "COSINE" &&
                    pipe_check (ex3 "DICE" (PFloat (mkF 1 (-1))) false 1) k "DICE" &&
                    pipe_check (ex3 "OVERLAP" (PInt 2) false 3) k "OVERLAP")
          [KSize; KPrefix; KPosition] = true /\
  option_map (map fst) (pipeline_model (ex3 "JACCARD" (PFloat (mkF 1 (-1))) true 2) KPosition "JACCARD") =
  Some [(1, 7); (2, 8); (1, 9); (3, 7); (3, 8); (3, 9)].
Proof. vm_compute. split; reflexivity. Qed.

Example ex3_pipeline_theorem : forall k outJ outP, k3 k ->
  api_join (ex3 "JACCARD" (PFloat (mkF 1 (-1))) true 2) = Some outJ ->
  pipeline_model (ex3 "JACCARD" (PFloat (mkF 1 (-1))) true 2) k "JACCARD" = Some outP ->
  pipeline_spec (ex3 "JACCARD" (PFloat (mkF 1 (-1))) true 2) outJ outP = true.
Proof.
  intros k outJ outP Hk HJ HP.
  apply (C07_pipeline_model_jcd _ k "JACCARD" outJ outP ex3_valid_jaccard); try reflexivity; assumption.
Qed.

Print Assumptions pipeline_law_rows.
Print Assumptions matcher_stage_eq.
Print Assumptions C07_pipeline_model_total.
Print Assumptions C07_pipeline_model_raw.
Print Assumptions C07_pipeline_model.
