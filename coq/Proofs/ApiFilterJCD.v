(* C04 / C08 / C09 / C14 at the API level of the model for filter_tables of SizeFilter /
   PrefixFilter / PositionFilter: the JACCARD / COSINE / DICE instance of ApiFilterTables.v
   (uses the double-precision arithmetic of Proofs/Arith{J,C,D}.v through FilterPairJCD.v,
   hence the Reals/Flocq axioms in totality and completeness) and the closing theorems over
   `valid_filter_case`.                                                                     *)
From Coq Require Import ZArith Bool List String Lia.
From SSJ Require Import F64 PyNum HelperGen TokenOrdering Measures ArithSpec Filters Joins Api JoinSpec
                        MetaSpec OrderingFacts OverlapFacts OverlapMeasure FilterRefine SetBridge SetPair
                        FilterPairJCD CoreLiftBase CoreLift ApiLift ApiFilterBase ApiFilterTables.
Import ListNotations.
Open Scope string_scope.
Open Scope list_scope.
Open Scope Z_scope.

Lemma slices_ok_jcd m t q : is_jcd m = true -> env_t t = true ->
  slices_ok {| fm := m; ft := PFloat t; fq := q |}.
Proof.
  intros Hm Ht n l Hn. destruct (jcd_F m Hm) as [_ [_ [_ H5]]]. apply (slice_total m H5 t q Ht n l Hn).
Qed.

Lemma cand_complete_jcd k m t q : k3 k -> is_jcd m = true -> env_t t = true ->
  cand_complete k {| fm := m; ft := PFloat t; fq := q |}.
Proof.
  intros Hk Hm Ht all x y Hx Hy Hxa Hya Ha Hb Hne Hq. cbn [fm ft] in Hq.
  pose proof (filter_cand_safe_jcd m t q k all x y Hm Ht Hk Hx Hy Hxa Hya Ha Hb Hne Hq) as H.
  cbv zeta in H. destruct H as [H1 [_ [H3 _]]]. split; [exact H1|].
  intros ->. rewrite order_nil in H3. apply prefix_cand_share in H3.
  rewrite share_nil_r in H3. discriminate.
Qed.

(* ------------------------------------------------------------------ valid cases *)
Inductive thr_ok (m : string) (t : pyval) : Prop :=
| thr_jcd tf : is_jcd m = true -> t = PFloat tf -> env_t tf = true -> thr_ok m t
| thr_ov T : m = "OVERLAP" -> t = PInt T -> 1 <= T -> thr_ok m t.

Definition valid_filter_case (c : jcase) (k : fkind) (m : string) : Prop :=
  j_entry c = EFilter k m /\ k3 k /\ size_ok c /\ keys_ok c /\ rows_ok c /\ thr_ok m (j_t c).

Lemma thr_ok_not_ed m t : thr_ok m t -> String.eqb m "EDIT_DISTANCE" = false.
Proof. intros [tf Hm _ _ | T -> _ _]; [apply is_jcd_not_ed; exact Hm|reflexivity]. Qed.

Section FilterCases.
  Hypothesis Hpart : part_hyp.
  Variable c : jcase.
  Variable k : fkind.
  Variable m : string.
  Hypothesis Hv : valid_filter_case c k m.

  Lemma valid_slices : slices_ok (jparams c m).
  Proof.
    destruct Hv as [_ [_ [_ [_ [_ Ht]]]]]. unfold jparams.
    destruct Ht as [tf Hm -> Henv | T -> -> HT]; [apply slices_ok_jcd; assumption|].
    apply (slices_ok_overlap T (j_q c)).
  Qed.

  Lemma valid_cand : cand_complete k (jparams c m).
  Proof.
    destruct Hv as [_ [Hk [_ [_ [_ Ht]]]]]. unfold jparams.
    destruct Ht as [tf Hm -> Henv | T -> -> HT]; [apply cand_complete_jcd; assumption|].
    apply (cand_complete_overlap k T (j_q c) Hk HT).
  Qed.

  Theorem filter_total : exists out, api_join c = Some out.
  Proof.
    destruct Hv as [He [Hk [Hsz [Hkeys [Hrows _]]]]].
    apply (filter_total_gen Hpart c k m He Hk Hsz Hrows valid_slices).
  Qed.

  (* C04: every pair that meets the threshold is listed *)
  Theorem filter_complete : forall out, api_join c = Some out -> complete_spec c out = true.
  Proof.
    destruct Hv as [He [Hk [Hsz [Hkeys [Hrows Ht]]]]].
    apply (filter_complete_gen Hpart c k m He Hsz Hkeys Hrows (thr_ok_not_ed _ _ Ht) valid_cand).
  Qed.

  Theorem filter_sound_v : forall out, api_join c = Some out -> sound_spec c out = true.
  Proof. destruct Hv as [He [Hk [Hsz [Hkeys _]]]]. apply (filter_sound Hpart c k m He Hk Hsz Hkeys). Qed.

  Theorem filter_missing_v : forall out, api_join c = Some out -> missing_spec c out = true.
  Proof. destruct Hv as [_ [_ [Hsz [Hkeys _]]]]. apply (filter_missing Hpart c Hsz Hkeys). Qed.

  Theorem filter_empty_v : forall out, api_join c = Some out -> empty_spec c out = true.
  Proof. destruct Hv as [He [Hk [Hsz [Hkeys _]]]]. apply (filter_empty Hpart c k m He Hk Hsz Hkeys). Qed.

  Theorem filter_tables_specs :
    exists out, api_join c = Some out /\
      complete_spec c out = true /\ sound_spec c out = true /\
      missing_spec c out = true /\ empty_spec c out = true.
  Proof.
    destruct filter_total as [out H]. exists out. split; [exact H|].
    split; [apply filter_complete; exact H|]. split; [apply filter_sound_v; exact H|].
    split; [apply filter_missing_v; exact H|apply filter_empty_v; exact H].
  Qed.
End FilterCases.

(* ------------------------------------------------------------------ example *)
Definition fj_ex (k : fkind) (m : string) : jcase :=
  {| j_entry := EFilter k m; j_t := PFloat (mkF 1 (-1)); j_q := 0; j_op := ">="; j_allow_empty := true;
     j_allow_missing := true; j_with_score := false; j_njobs := 2; j_cpus := 4;
     j_L := [(1, Some ([], [1; 2; 3])); (2, None); (3, Some ([], [])); (4, Some ([], [5; 2; 1]))];
     j_R := [(7, Some ([], [2; 1; 9])); (8, Some ([], [])); (9, None); (6, Some ([], [3; 5]))] |}.

Example fj_ex_valid k m : k3 k -> is_jcd m = true -> valid_filter_case (fj_ex k m) k m.
Proof.
  intros Hk Hm. split; [reflexivity|]. split; [exact Hk|]. split; [vm_compute; reflexivity|].
  split; [split; nodup_c|]. split.
  - split; intros x Hx; simpl in Hx;
      repeat (destruct Hx as [<-|Hx]; [split; [nodup_c|vm_compute; reflexivity]|]); destruct Hx.
  - apply (thr_jcd m _ (mkF 1 (-1))); [exact Hm|reflexivity|vm_compute; reflexivity].
Qed.

Example fj_ex_check :
  forallb (fun m => forallb (fun k =>
     match api_join (fj_ex k m) with
     | Some out => complete_spec (fj_ex k m) out && sound_spec (fj_ex k m) out &&
                   missing_spec (fj_ex k m) out && empty_spec (fj_ex k m) out &&
                   has_pair 1 7 out && has_pair 4 7 out && has_pair 3 8 out && has_pair 2 9 out
     | None => false
     end) [KSize; KPrefix; KPosition]) ["JACCARD"; "COSINE"; "DICE"] = true.
Proof. vm_compute. reflexivity. Qed.

Print Assumptions filter_total.
Print Assumptions filter_complete.
Print Assumptions filter_sound_v.
Print Assumptions filter_missing_v.
Print Assumptions filter_empty_v.
Print Assumptions filter_tables_specs.
