(* Evaluation lemmas used to reason about the GENERATED index / find_candidates code
   (Gen/IndexGen.v): loops with invariants, Python operators on ints, dicts keyed by ints.
   Integer / list reasoning only; axiom-free.                                            *)
From Coq Require Import ZArith Bool List String Lia.
From SSJ Require Import F64 PyNum TokenOrdering Filters.
Import ListNotations.
Open Scope Z_scope.

(* ---------------------------------------------------------------- loops *)
Lemma py_for_PList' : forall (S : Type) (l : list pyval) raised fail body (s0 : S),
  py_for (PList l) raised fail body s0
  = fold_left (fun s x => if raised s then s else body s x) l s0.
Proof. reflexivity. Qed.

(* invariant form: I relates an abstract state to the concrete loop state; components of the
   concrete state that hold temporaries can be quantified away inside I *)
Lemma py_for_inv : forall (S A B : Type) (f : B -> pyval) (I : A -> S -> Prop)
                          (raised : S -> bool) fail body (step : A -> B -> A) (l : list B) s0 a0,
  I a0 s0 ->
  (forall a s, I a s -> raised s = false) ->
  (forall a s b, In b l -> I a s -> I (step a b) (body s (f b))) ->
  I (fold_left step l a0) (py_for (PList (map f l)) raised fail body s0).
Proof.
  intros S A B f I raised fail body step l s0 a0 H0 Hr Hb.
  rewrite py_for_PList'. revert s0 a0 H0.
  induction l as [|b l IH]; intros s0 a0 H0; cbn [fold_left map]; [exact H0|].
  rewrite (Hr _ _ H0). apply IH.
  - intros a s b' Hb'. apply Hb. right; exact Hb'.
  - apply Hb; [left; reflexivity | exact H0].
Qed.

(* equational form (no temporaries) *)
Lemma py_for_eq : forall (S A B : Type) (f : B -> pyval) (R : A -> S) (raised : S -> bool) fail body
                         (step : A -> B -> A) (l : list B) (a0 : A),
  (forall a, raised (R a) = false) ->
  (forall a b, In b l -> body (R a) (f b) = R (step a b)) ->
  py_for (PList (map f l)) raised fail body (R a0) = R (fold_left step l a0).
Proof.
  intros S A B f R raised fail body step l a0 Hr Hb.
  apply (py_for_inv S A B f (fun a s => s = R a)); [reflexivity | intros a s ->; apply Hr |].
  intros a s b Hin ->. apply Hb; exact Hin.
Qed.

(* ---------------------------------------------------------------- ints *)
Definition pints (l : list Z) : pyval := PList (map PInt l).

Lemma py_lt_int_val a b : py_lt (PInt a) (PInt b) = PBool (a <? b).
Proof.
  unfold py_lt, py_ord, strict2, ord_cmp, num_of, num_cmp.
  destruct (Z.compare_spec a b); destruct (Z.ltb_spec a b); try reflexivity; lia.
Qed.
Lemma py_gt_int_val a b : py_gt (PInt a) (PInt b) = PBool (b <? a).
Proof.
  unfold py_gt, py_ord, strict2, ord_cmp, num_of, num_cmp.
  destruct (Z.compare_spec a b); destruct (Z.ltb_spec b a); try reflexivity; lia.
Qed.
Lemma py_le_int_val' a b : py_le (PInt a) (PInt b) = PBool (a <=? b).
Proof.
  unfold py_le, py_ord, strict2, ord_cmp, num_of, num_cmp.
  destruct (Z.compare_spec a b); destruct (Z.leb_spec a b); try reflexivity; lia.
Qed.
Lemma py_eq_int_val a b : py_eq (PInt a) (PInt b) = PBool (a =? b).
Proof.
  unfold py_eq, strict2, pv_eqb, num_of, num_cmp.
  destruct (Z.compare_spec a b); destruct (Z.eqb_spec a b); try reflexivity; lia.
Qed.
Lemma py_ne_int_val a b : py_ne (PInt a) (PInt b) = PBool (negb (a =? b)).
Proof.
  unfold py_ne, strict2, pv_eqb, num_of, num_cmp.
  destruct (Z.compare_spec a b); destruct (Z.eqb_spec a b); try reflexivity; lia.
Qed.
Lemma pv_eqb_int a b : pv_eqb (PInt a) (PInt b) = (a =? b).
Proof.
  unfold pv_eqb, num_of, num_cmp.
  destruct (Z.compare_spec a b); destruct (Z.eqb_spec a b); try reflexivity; lia.
Qed.
Lemma py_max_int a b : py_max (PInt a) (PInt b) = PInt (Z.max a b).
Proof.
  unfold py_max. rewrite py_gt_int_val. cbn [py_truth].
  destruct (Z.ltb_spec a b); f_equal; lia.
Qed.
Lemma py_min_int a b : py_min (PInt a) (PInt b) = PInt (Z.min a b).
Proof.
  unfold py_min. rewrite py_lt_int_val. cbn [py_truth].
  destruct (Z.ltb_spec b a); f_equal; lia.
Qed.
Lemma py_len_pints l : py_len (pints l) = PInt (len l).
Proof. unfold pints, py_len, strict1, len. now rewrite map_length. Qed.

(* tokens[0:k] on a list of ints, as an integer function *)
Definition slice0z (k : Z) (l : list Z) : list Z :=
  if k <? 0 then firstn (List.length l - Z.to_nat (- k)) l else firstn (Z.to_nat k) l.

Lemma slice0_PInt k l : slice0 (PInt k) l = Some (slice0z k l).
Proof. reflexivity. Qed.

Lemma clamp_slice0z k l : firstn (clamp (List.length l) k) l = slice0z k l.
Proof.
  unfold clamp, slice0z. destruct (Z.ltb_spec k 0) as [Hk|Hk].
  - destruct (Nat.le_gt_cases (List.length l) (Z.to_nat (- k))) as [Hle|Hgt].
    + replace (Z.to_nat (Z.max 0 (k + Z.of_nat (List.length l)))) with O by lia.
      replace (List.length l - Z.to_nat (- k))%nat with O by lia. reflexivity.
    + f_equal. lia.
  - destruct (Z.le_gt_cases k (Z.of_nat (List.length l))) as [Hle|Hgt].
    + f_equal. lia.
    + rewrite (firstn_all2 (n := Z.to_nat k)) by lia.
      rewrite firstn_all2 by lia. reflexivity.
Qed.

Lemma py_slice_pints k l : py_slice (pints l) (PInt 0) (PInt k) = pints (slice0z k l).
Proof.
  unfold pints, py_slice. rewrite map_length.
  assert (H0 : clamp (List.length l) 0 = O) by (unfold clamp; cbn [Z.ltb Z.compare]; lia).
  rewrite H0. cbn [skipn]. rewrite Nat.sub_0_r, firstn_map, clamp_slice0z. reflexivity.
Qed.

Lemma slice0z_prefix k l : exists r, l = (slice0z k l ++ r)%list.
Proof.
  unfold slice0z. destruct (k <? 0).
  - eexists. symmetry. apply firstn_skipn.
  - eexists. symmetry. apply firstn_skipn.
Qed.

Definition zrange (a b : Z) : list Z := map (fun k => a + Z.of_nat k) (seq 0 (Z.to_nat (b - a))).
Lemma py_range_int a b : py_range (PInt a) (PInt b) = pints (zrange a b).
Proof. unfold py_range, pints, zrange. now rewrite map_map. Qed.
Lemma in_zrange a b x : In x (zrange a b) <-> a <= x < b.
Proof.
  unfold zrange. rewrite in_map_iff. split.
  - intros (k & <- & Hk). apply in_seq in Hk. lia.
  - intros H. exists (Z.to_nat (x - a)). split; [lia|]. apply in_seq. lia.
Qed.

(* ---------------------------------------------------------------- dicts keyed by ints *)
(* association list  key |-> value  as a Python dict; V is the type of abstract values *)
Section IntDict.
  Variable V : Type.
  Variable rv : V -> pyval.

  Definition drepr (d : list (Z * V)) : list pyval :=
    map (fun kv => PTuple [PInt (fst kv); rv (snd kv)]) d.

  Fixpoint aget (d : list (Z * V)) (k : Z) : option V :=
    match d with
    | [] => None
    | (k', v) :: d' => if k' =? k then Some v else aget d' k
    end.
  Fixpoint aset (d : list (Z * V)) (k : Z) (v : V) : list (Z * V) :=
    match d with
    | [] => [(k, v)]
    | (k', v') :: d' => if k' =? k then (k', v) :: d' else (k', v') :: aset d' k v
    end.

  Lemma dict_lookup_drepr d k : dict_lookup (drepr d) (PInt k) = option_map rv (aget d k).
  Proof.
    induction d as [|[k' v] d IH]; [reflexivity|].
    cbn [drepr map dict_lookup fst snd aget]. rewrite pv_eqb_int.
    destruct (k' =? k); [reflexivity | exact IH].
  Qed.
  Lemma dict_store_drepr d k v : dict_store (drepr d) (PInt k) (rv v) = drepr (aset d k v).
  Proof.
    induction d as [|[k' v'] d IH]; [reflexivity|].
    cbn [drepr map dict_store fst snd aset]. rewrite pv_eqb_int.
    destruct (k' =? k); cbn [drepr map fst snd]; [reflexivity|].
    f_equal. exact IH.
  Qed.
  Lemma aget_aset d k v k' : aget (aset d k v) k' = if k =? k' then Some v else aget d k'.
  Proof using. clear rv.
    induction d as [|[k0 v0] d IH]; cbn [aset aget].
    - reflexivity.
    - destruct (Z.eqb_spec k0 k) as [->|Hne]; cbn [aget].
      + destruct (k =? k'); reflexivity.
      + rewrite IH. destruct (Z.eqb_spec k0 k') as [->|Hne'].
        * destruct (Z.eqb_spec k k'); [congruence | reflexivity].
        * reflexivity.
  Qed.
  Lemma aset_keys d k v : forall k', In k' (map fst (aset d k v)) <-> k' = k \/ In k' (map fst d).
  Proof using. clear rv.
    induction d as [|[k0 v0] d IH]; intros k'; cbn [aset map fst In].
    - split; (intros [H|[]]; left; now symmetry).
    - destruct (Z.eqb_spec k0 k) as [->|Hne]; cbn [map fst In].
      + split; [intros [H|H]; [left; now symmetry | right; right; exact H]
               | intros [H|[H|H]]; [left; now symmetry | left; exact H | right; exact H]].
      + rewrite IH. tauto.
  Qed.
  Lemma aset_nodup d k v : NoDup (map fst d) -> NoDup (map fst (aset d k v)).
  Proof using. clear rv.
    induction d as [|[k0 v0] d IH]; intros Hnd; cbn [aset map fst].
    - constructor; [intros []|constructor].
    - inversion Hnd as [|? ? Hn Hnd']; subst.
      destruct (Z.eqb_spec k0 k) as [->|Hne]; cbn [map fst]; [constructor; assumption|].
      constructor; [|apply IH; exact Hnd'].
      rewrite aset_keys. intros [Heq|Hin]; [congruence | exact (Hn Hin)].
  Qed.
  Lemma aget_in_keys d k v : aget d k = Some v -> In k (map fst d).
  Proof using. clear rv.
    induction d as [|[k0 v0] d IH]; cbn [aget map fst In]; [discriminate|].
    destruct (Z.eqb_spec k0 k) as [->|Hne]; [left; reflexivity | right; apply IH; assumption].
  Qed.
End IntDict.
Arguments drepr {V}. Arguments aget {V}. Arguments aset {V}.

Lemma py_setitem_drepr {V} (rv : V -> pyval) d k v :
  is_exc (rv v) = false ->
  py_setitem (PDict (drepr rv d)) (PInt k) (rv v) = PDict (drepr rv (aset d k v)).
Proof.
  intros Hv. unfold py_setitem. destruct (rv v) eqn:E; try discriminate Hv;
    rewrite <- E, dict_store_drepr; reflexivity.
Qed.

(* bindx on a value known not to be an exception *)
Lemma bindx_ok {A} (e : pyval) (fl k : pyval -> A) : is_exc e = false -> bindx e fl k = k e.
Proof. destruct e; cbn; try reflexivity; discriminate. Qed.

Lemma getitem_pints l (c : nat) : (c < List.length l)%nat ->
  py_getitem (pints l) (PInt (Z.of_nat c)) = PInt (nth c l 0).
Proof.
  intros Hc. unfold pints, py_getitem, strict2, norm_index. rewrite map_length.
  assert (E0 : (Z.of_nat c <? 0) = false) by (apply Z.ltb_ge; lia).
  assert (E1 : (Z.of_nat c <? Z.of_nat (List.length l)) = true) by (apply Z.ltb_lt; lia).
  rewrite !E0, E1, Nat2Z.id.
  rewrite (nth_indep (map PInt l) IndexError (PInt 0)) by (rewrite map_length; exact Hc).
  apply (map_nth PInt).
Qed.

Lemma getitem_not_exc a i : is_exc (py_getitem a i) = false -> is_exc a = false.
Proof. destruct a; cbn; try reflexivity; intros H; exact H. Qed.
