(* From the single-call specifications (complete_spec, sound_spec, missing_spec, empty_spec of
   Spec/JoinSpec.v and Spec/MetaSpec.v) to the `determined` form of Proofs/LawsBase.v:
   outside the gray pairs, the specs fix which key pairs occur (exp_in), once, and with which score
   (exp_score).  For ARBITRARY observed lists; no model.  Axiom-free.                       *)
From Coq Require Import ZArith Bool List String Lia SpecFloat PeanoNat Permutation.
From SSJ Require Import F64 PyNum FilterUtilsGen HelperGen TokenOrdering Measures Filters Joins Api JoinSpec MetaSpec
                        OverlapFacts LawsCanon LawsScore LawsBase.
Import ListNotations.
Open Scope string_scope.
Open Scope Z_scope.

(* ------------------------------------------------------------------ the cases covered *)
Definition set_measure (m : string) : bool :=
  is_jcd m || String.eqb m "OVERLAP_COEFFICIENT" || String.eqb m "OVERLAP".
Definition set_case (c : jcase) : bool :=
  match j_entry c with EJoin m => set_measure m | EOverlapFilter => true | EFilter _ _ => false end.
(* the scores are integers (OVERLAP join, OverlapFilter), otherwise floats *)
Definition int_case (c : jcase) : bool := String.eqb (measure_of c) "OVERLAP".

Lemma set_measure_cases m : set_measure m = true ->
  m = "JACCARD" \/ m = "COSINE" \/ m = "DICE" \/ m = "OVERLAP_COEFFICIENT" \/ m = "OVERLAP".
Proof.
  unfold set_measure, is_jcd. rewrite !orb_true_iff, !String.eqb_eq. tauto.
Qed.
Lemma set_measure_not_ed m : set_measure m = true -> String.eqb m "EDIT_DISTANCE" = false.
Proof. intros H. destruct (set_measure_cases m H) as [->|[->|[->|[->| ->]]]]; reflexivity. Qed.

(* what the specs say about a pair of rows *)
Definition exp_cmp (c : jcase) (x y : list Z) : bool :=
  match j_entry c with
  | EJoin m => cmp_op (j_op c) (reported_score m x y) (j_t c)
  | EOverlapFilter => (0 <? overlap_sets x y) && cmp_op (j_op c) (PInt (overlap_sets x y)) (j_t c)
  | EFilter _ _ => false
  end.
Definition exp_sc (c : jcase) (x y : list Z) : pyval :=
  match j_entry c with EJoin m => reported_score m x y | _ => PInt (overlap_sets x y) end.
Definition emp_ok (c : jcase) : bool := match empty_expected c with Some b => b | None => false end.
Definition exp_in (c : jcase) (l r : row) : bool :=
  if present l && present r then
    if both_empty l r then emp_ok c else exp_cmp c (toks_of l) (toks_of r)
  else j_allow_missing c.
Definition exp_score (c : jcase) (l r : row) : pyval :=
  if present l && present r then
    if both_empty l r then PFloat f_one else exp_sc c (toks_of l) (toks_of r)
  else PNone.

(* score relation carried by the weak (untyped) laws: numeric equality, and the float scores of an
   integer-valued case are valid doubles *)
Definition wrel (b : bool) (s v : pyval) : bool := score_same s v && (negb b || canon_score s).
Definition wf_scores (c : jcase) (obs : list out_row) : bool :=
  negb (int_case c) || forallb (fun o : out_row => canon_score (snd o)) obs.
(* the typed laws: float scores for the float-valued measures, int scores for OVERLAP *)
Definition typed_score (b : bool) (s : pyval) : bool :=
  match s with PNone => true | PFloat _ => negb b | PInt _ => b | _ => false end.
Definition typed_scores (c : jcase) (obs : list out_row) : bool :=
  forallb (fun o : out_row => typed_score (int_case c) (snd o)) obs.

(* the strict relation carried by the typed laws *)
Definition trel (s v : pyval) : bool := seq s v && score_same s v.

Lemma typed_wf c obs : typed_scores c obs = true -> wf_scores c obs = true.
Proof.
  unfold typed_scores, wf_scores. intros H. destruct (int_case c); [|reflexivity]. simpl.
  rewrite forallb_forall in H |- *. intros o Ho. specialize (H o Ho).
  destruct (snd o); simpl in *; try reflexivity; discriminate.
Qed.

(* ------------------------------------------------------------------ small facts *)
Lemma both_empty_sym l r : both_empty l r = both_empty r l.
Proof. unfold both_empty. apply andb_comm. Qed.

Lemma both_empty_overlap l r : both_empty l r = true -> overlap_sets (toks_of l) (toks_of r) = 0.
Proof.
  unfold both_empty. rewrite andb_true_iff, !Z.eqb_eq. intros [H _].
  pose proof (overlap_sets_le_l (toks_of l) (toks_of r)). pose proof (overlap_sets_nonneg (toks_of l) (toks_of r)). lia.
Qed.

Lemma py_float_int z : py_float (PInt z) = PFloat (f_of_Z z).
Proof. reflexivity. Qed.
Lemma py_truediv_ff a b :
  py_truediv (PFloat a) (PFloat b) = if f_is_zero b then ZeroDivisionError else PFloat (fdiv a b).
Proof. reflexivity. Qed.

Lemma reported_not_jcd m x y : is_jcd m = false -> reported_score m x y = raw_score m x y.
Proof. unfold reported_score. intros ->. reflexivity. Qed.

(* shape of a specified score *)
Lemma exp_sc_shape c x y : set_case c = true ->
  if int_case c then exp_sc c x y = PInt (overlap_sets x y)
  else (exists f, exp_sc c x y = PFloat f) \/ (exists e, exp_sc c x y = PExc e).
Proof.
  unfold set_case, int_case, measure_of, exp_sc. destruct (j_entry c) as [m|k m|]; intros H; try discriminate.
  - destruct (set_measure_cases m H) as [->|[->|[->|[->| ->]]]]; cbn [String.eqb Ascii.eqb Bool.eqb];
      try (left; eexists; reflexivity); try reflexivity.
    unfold reported_score, raw_score. cbn [is_jcd String.eqb Ascii.eqb Bool.eqb orb].
    rewrite !py_float_int, py_truediv_ff. destruct (f_is_zero _); [right | left]; eexists; reflexivity.
  - reflexivity.
Qed.

Lemma exp_sc_scalar c x y : set_case c = true -> scalar_score (exp_sc c x y) = true.
Proof.
  intros H. pose proof (exp_sc_shape c x y H) as S. destruct (int_case c).
  - rewrite S. reflexivity.
  - destruct S as [[f ->]|[e ->]]; reflexivity.
Qed.

Lemma exp_score_pivot c l r : set_case c = true -> pivot (exp_score c l r) = true.
Proof.
  intros H. unfold exp_score. destruct (present l && present r); [|reflexivity].
  destruct (both_empty l r); [reflexivity|].
  pose proof (exp_sc_shape c (toks_of l) (toks_of r) H) as S. destruct (int_case c).
  - rewrite S. reflexivity.
  - destruct S as [[f ->]|[e ->]]; reflexivity.
Qed.

Lemma emp_ok_int c : set_case c = true -> int_case c = true -> emp_ok c = false.
Proof.
  unfold set_case, int_case, measure_of, emp_ok, empty_expected.
  destruct (j_entry c) as [m|k m|]; intros H Hi; try discriminate; [|reflexivity].
  rewrite Hi. reflexivity.
Qed.

(* in an integer-valued case no specified score of an occurring pair is a float *)
Lemma exp_score_int c l r : set_case c = true -> int_case c = true -> exp_in c l r = true ->
  exp_score c l r = PNone \/ exists z, exp_score c l r = PInt z.
Proof.
  intros H Hi. unfold exp_in, exp_score. destruct (present l && present r); [|auto].
  destruct (both_empty l r).
  - rewrite (emp_ok_int c H Hi). discriminate.
  - intros _. right. pose proof (exp_sc_shape c (toks_of l) (toks_of r) H) as S. rewrite Hi in S. eauto.
Qed.

Lemma exp_score_float c l r : set_case c = true -> int_case c = false ->
  match exp_score c l r with PInt _ => False | _ => True end.
Proof.
  intros H Hi. unfold exp_score. destruct (present l && present r); [|exact I].
  destruct (both_empty l r); [exact I|].
  pose proof (exp_sc_shape c (toks_of l) (toks_of r) H) as S. rewrite Hi in S.
  destruct S as [[f ->]|[e ->]]; exact I.
Qed.

(* the weak relation is Euclidean around a specified score *)
Lemma wrel_euclid c l r s s' : set_case c = true ->
  wrel (int_case c) s (exp_score c l r) = true -> wrel (int_case c) s' (exp_score c l r) = true ->
  score_same s s' = true.
Proof.
  intros H Hs Hs'. unfold wrel in *. apply andb_true_iff in Hs. apply andb_true_iff in Hs'.
  destruct Hs as [Hs Hc]. destruct Hs' as [Hs' Hc'].
  eapply score_same_euclid; [apply (exp_score_pivot c l r H) | exact Hs | exact Hs' |].
  destruct (int_case c) eqn:Ei; simpl in Hc, Hc'.
  - unfold euclid_okv. destruct (exp_score c l r); try reflexivity.
    destruct s; try reflexivity. destruct s'; try reflexivity. rewrite Hc, Hc'. reflexivity.
  - pose proof (exp_score_float c l r H Ei) as Hf. unfold euclid_okv.
    destruct (exp_score c l r); try reflexivity. destruct Hf.
Qed.

(* typed scores are related strictly *)
Lemma typed_seq c l r s : set_case c = true -> exp_in c l r = true ->
  typed_score (int_case c) s = true -> score_same s (exp_score c l r) = true ->
  seq s (exp_score c l r) = true.
Proof.
  intros H Hin Ht Hs. apply score_same_seq; [exact Hs|].
  destruct (int_case c) eqn:Ei.
  - destruct (exp_score_int c l r H Ei Hin) as [E|[z E]]; rewrite E in *;
      destruct s; simpl in *; try discriminate; reflexivity.
  - pose proof (exp_score_float c l r H Ei) as Hf. pose proof (exp_score_pivot c l r H) as Hp.
    destruct (exp_score c l r); try discriminate Hp; try destruct Hf;
      destruct s; simpl in *; try discriminate; reflexivity.
Qed.

Lemma trel_exp_score_same c l r s s' : set_case c = true ->
  trel s (exp_score c l r) = true -> trel s' (exp_score c l r) = true -> score_same s s' = true.
Proof.
  intros H Hs Hs'. unfold trel in *. apply andb_true_iff in Hs. apply andb_true_iff in Hs'.
  destruct Hs as [Hs H0]. destruct Hs' as [Hs' _].
  eapply seq_pivot_score_same; [apply (exp_score_pivot c l r H) | exact H0 | exact Hs | exact Hs'].
Qed.

Lemma trel_seq s v : trel s v = true -> seq s v = true.
Proof. unfold trel. intros H. apply andb_true_iff in H. tauto. Qed.

(* ------------------------------------------------------------------ gray pairs *)
Lemma pair_gray_false_cmp c m l r : j_entry c = EJoin m ->
  present l && present r = true -> both_empty l r = false -> pair_gray c l r = false ->
  cmp_op (j_op c) (raw_score m (toks_of l) (toks_of r)) (j_t c) =
  cmp_op (j_op c) (reported_score m (toks_of l) (toks_of r)) (j_t c).
Proof.
  intros Ee Ep Eb. unfold pair_gray. rewrite Ee.
  destruct (is_jcd m) eqn:Ej.
  - rewrite <- !andb_assoc. apply andb_true_iff in Ep. destruct Ep as [-> ->]. rewrite Eb. simpl.
    unfold gray. rewrite negb_false_iff. intros H. apply eqb_prop in H. exact H.
  - intros _. rewrite (reported_not_jcd m _ _ Ej). reflexivity.
Qed.

Lemma pair_gray_not_jcd c : (match j_entry c with EJoin m => is_jcd m | _ => false end) = false ->
  forall l r, pair_gray c l r = false.
Proof. intros H l r. unfold pair_gray. destruct (j_entry c); try reflexivity. rewrite H. reflexivity. Qed.

(* ------------------------------------------------------------------ reading the specs *)
Lemma sound_view c out lk rk s : set_case c = true -> sound_spec c out = true -> In (lk, rk, s) out ->
  exists l r, find_row lk (j_L c) = Some l /\ find_row rk (j_R c) = Some r /\
              count_pair lk rk out = 1%nat /\ exp_in c l r = true /\
              (j_with_score c = true -> score_same s (exp_score c l r) = true).
Proof.
  intros Hset Hs Hi. unfold sound_spec in Hs. rewrite forallb_forall in Hs. specialize (Hs _ Hi).
  unfold sound_row in Hs. cbv beta iota zeta in Hs.
  destruct (find_row lk (j_L c)) as [l|]; [|discriminate].
  destruct (find_row rk (j_R c)) as [r|]; [|discriminate].
  exists l, r. apply andb_true_iff in Hs. destruct Hs as [Hc Hs]. apply Nat.eqb_eq in Hc.
  split; [reflexivity|]. split; [reflexivity|]. split; [exact Hc|].
  unfold exp_in, exp_score. destruct (present l && present r) eqn:Ep; cbv beta iota in Hs.
  - unfold set_case in Hset. unfold exp_cmp, exp_sc, emp_ok, empty_expected.
    destruct (j_entry c) as [m|k m|] eqn:Ee; [| discriminate |].
    + rewrite (set_measure_not_ed m Hset) in Hs |- *.
      change ((len (toks_of l) =? 0) && (len (toks_of r) =? 0)) with (both_empty l r) in Hs.
      destruct (both_empty l r) eqn:Eb; cbv beta iota in Hs.
      * apply andb_true_iff in Hs. destruct Hs as [Hs1 Hs2]. apply andb_true_iff in Hs1. destruct Hs1 as [Hae Hno].
        split.
        -- destruct (String.eqb m "OVERLAP"); [discriminate Hno | exact Hae].
        -- intros Hw. rewrite Hw in Hs2. exact Hs2.
      * apply andb_true_iff in Hs. destruct Hs as [Hs1 Hs2]. split; [exact Hs1|].
        intros Hw. rewrite Hw in Hs2. exact Hs2.
    + apply andb_true_iff in Hs. destruct Hs as [Hs1 Hs2].
      destruct (both_empty l r) eqn:Eb.
      * rewrite (both_empty_overlap l r Eb) in Hs1. discriminate.
      * split; [exact Hs1|]. intros Hw. rewrite Hw in Hs2. exact Hs2.
  - apply andb_true_iff in Hs. destruct Hs as [Hs1 Hs2]. split; [exact Hs1 | intros _; exact Hs2].
Qed.

Lemma complete_view c out l r : set_case c = true -> complete_spec c out = true ->
  In l (j_L c) -> In r (j_R c) -> present l && present r = true -> both_empty l r = false ->
  pair_gray c l r = false -> exp_cmp c (toks_of l) (toks_of r) = true ->
  has_pair (fst l) (fst r) out = true.
Proof.
  intros Hset Hc Hl Hr Ep Eb Hg He. unfold complete_spec in Hc. rewrite forallb_forall in Hc.
  specialize (Hc l Hl). rewrite forallb_forall in Hc. specialize (Hc r Hr).
  rewrite Ep in Hc. cbv beta iota zeta in Hc. unfold set_case in Hset. unfold exp_cmp in He.
  destruct (j_entry c) as [m|k m|] eqn:Ee; [| discriminate |].
  - rewrite (set_measure_not_ed m Hset) in Hc.
    change ((len (toks_of l) =? 0) && (len (toks_of r) =? 0)) with (both_empty l r) in Hc.
    rewrite Eb in Hc. unfold qualifies in Hc.
    rewrite (pair_gray_false_cmp c m l r Ee Ep Eb Hg), He in Hc. exact Hc.
  - rewrite He in Hc. exact Hc.
Qed.

Lemma missing_view c out l r : missing_spec c out = true -> In l (j_L c) -> In r (j_R c) ->
  present l && present r = false -> j_allow_missing c = true -> has_pair (fst l) (fst r) out = true.
Proof.
  intros Hm Hl Hr Ep Ham. pose proof (forall_pairs_inv _ _ _ _ Hm Hl Hr) as H. cbv beta in H.
  rewrite Ep, Ham in H. apply Nat.eqb_eq in H. apply count_pair_has. lia.
Qed.

Lemma empty_view c out l r : set_case c = true -> empty_spec c out = true -> In l (j_L c) -> In r (j_R c) ->
  present l && present r = true -> both_empty l r = true -> emp_ok c = true ->
  has_pair (fst l) (fst r) out = true.
Proof.
  intros Hset He Hl Hr Ep Eb Hok. pose proof (forall_pairs_inv _ _ _ _ He Hl Hr) as H. cbv beta in H.
  rewrite Ep, Eb in H. unfold emp_ok in Hok. destruct (empty_expected c) as [b|]; [|discriminate].
  subst b. apply eqb_prop in H. exact H.
Qed.

Lemma sound_uniq c out : set_case c = true -> sound_spec c out = true -> uniq out.
Proof.
  intros Hset Hs. apply count_uniq. intros [[lk rk] s] Ho.
  destruct (sound_view c out lk rk s Hset Hs Ho) as [l [r [_ [_ [Hc _]]]]]. exact Hc.
Qed.

(* ------------------------------------------------------------------ the specs determine the list *)
Section SpecDetermined.
Variables (c : jcase) (out : list out_row) (g : row -> row -> bool) (f : out_row -> bool).
Hypothesis Hset : set_case c = true.
Hypothesis Hws : j_with_score c = true.
Hypothesis Hc : complete_spec c out = true.
Hypothesis Hs : sound_spec c out = true.
Hypothesis Hm : missing_spec c out = true.
Hypothesis Hgray : forall l r, g l r = true -> pair_gray c l r = false.
Hypothesis Hemp : empty_spec c out = true \/
                  forall l r, g l r = true -> present l && present r && both_empty l r = false.
Hypothesis Hf : forall o l r, In o out -> find_row (fst (fst o)) (j_L c) = Some l ->
                              find_row (snd (fst o)) (j_R c) = Some r -> f o = g l r.

(* generic in the relation between an observed score and the specified one *)
Lemma spec_determined_gen (rel : pyval -> pyval -> bool) :
  (forall o l r, In o out -> find_row (fst (fst o)) (j_L c) = Some l -> find_row (snd (fst o)) (j_R c) = Some r ->
                 exp_in c l r = true ->
                 (j_with_score c = true -> score_same (snd o) (exp_score c l r) = true) ->
                 rel (snd o) (exp_score c l r) = true) ->
  determined (j_L c) (j_R c) rel g (exp_in c) (exp_score c) (filter f out).
Proof.
  intros Hrel.
  split; [apply uniq_filter, (sound_uniq c); assumption|]. split.
  - intros [[lk rk] s] Ho. apply filter_In in Ho. destruct Ho as [Ho Hfo].
    destruct (sound_view c out lk rk s Hset Hs Ho) as [l [r [Hl [Hr [_ [Hin Hsc]]]]]].
    exists l, r. simpl. rewrite <- (Hf _ l r Ho Hl Hr). repeat split; auto.
    apply (Hrel (lk, rk, s) l r Ho Hl Hr Hin Hsc).
  - intros l r [Hl Hr] Hg Hin.
    destruct (find_row_some _ _ _ Hl) as [Il _]. destruct (find_row_some _ _ _ Hr) as [Ir _].
    assert (has_pair (fst l) (fst r) out = true) as Hp.
    { unfold exp_in in Hin. destruct (present l && present r) eqn:Ep.
      - destruct (both_empty l r) eqn:Eb.
        + destruct Hemp as [He|He].
          * apply (empty_view c out l r); assumption.
          * specialize (He l r Hg). rewrite Ep, Eb in He. discriminate.
        + apply (complete_view c out l r); auto.
      - apply (missing_view c out l r); assumption. }
    apply has_pair_In in Hp. destruct Hp as [s Ho]. apply has_pair_In. exists s.
    apply filter_In. split; [exact Ho|]. rewrite (Hf _ l r Ho Hl Hr). exact Hg.
Qed.

Lemma spec_determined_raw :
  determined (j_L c) (j_R c) score_same g (exp_in c) (exp_score c) (filter f out).
Proof. apply spec_determined_gen. intros o l r _ _ _ _ H. apply H; exact Hws. Qed.

(* calls without scores: every score is PNone (as the library returns no score column) *)
Lemma spec_determined_none :
  (forall o, In o out -> snd o = PNone) ->
  determined (j_L c) (j_R c) (fun s _ => score_same s PNone) g (exp_in c) (exp_score c) (filter f out).
Proof. intros Hn. apply spec_determined_gen. intros o l r Ho _ _ _ _. rewrite (Hn o Ho). reflexivity. Qed.

Lemma spec_determined_weak : wf_scores c out = true ->
  determined (j_L c) (j_R c) (wrel (int_case c)) g (exp_in c) (exp_score c) (filter f out).
Proof.
  intros Hwf. eapply determined_rel; [apply spec_determined_raw|].
  intros o l r Ho _ _ Hr. unfold wrel. rewrite Hr. simpl.
  apply filter_In in Ho. destruct Ho as [Ho _]. unfold wf_scores in Hwf.
  destruct (int_case c); [|reflexivity]. simpl in Hwf |- *.
  rewrite forallb_forall in Hwf. apply Hwf; exact Ho.
Qed.

Lemma spec_determined_typed : typed_scores c out = true ->
  determined (j_L c) (j_R c) trel g (exp_in c) (exp_score c) (filter f out).
Proof.
  intros Hty. destruct spec_determined_raw as [U [S C]]. split; [exact U|]. split; [|exact C].
  intros o Ho. destruct (S o Ho) as [l [r [Hl [Hr [Hg [Hin Hsc]]]]]]. exists l, r.
  repeat split; auto. unfold trel. rewrite Hsc, andb_true_r. apply typed_seq; auto.
  apply filter_In in Ho. destruct Ho as [Ho _]. unfold typed_scores in Hty.
  rewrite forallb_forall in Hty. apply (Hty o Ho).
Qed.
End SpecDetermined.

(* ------------------------------------------------------------------ the filters of MetaSpec *)
(* all cases of the list share the tables of c *)
Definition same_tables (c c' : jcase) : Prop := j_L c' = j_L c /\ j_R c' = j_R c.

Definition excl1 (c : jcase) (l r : row) : bool :=
  (present l && present r && both_empty l r) || pair_gray c l r.
Definition exclg (cs : list jcase) (l r : row) : bool := existsb (fun c' => excl1 c' l r) cs.

Lemma row_excluded_found c cs o l r : (forall c', In c' cs -> same_tables c c') ->
  find_row (fst (fst o)) (j_L c) = Some l -> find_row (snd (fst o)) (j_R c) = Some r ->
  row_excluded cs o = exclg cs l r.
Proof.
  intros Hst Hl Hr. unfold row_excluded, exclg. induction cs as [|c' cs IH]; [reflexivity|]. simpl.
  rewrite IH by (intros c0 H0; apply Hst; right; exact H0). f_equal.
  destruct (Hst c' (or_introl eq_refl)) as [EL ER]. unfold row_pair. rewrite EL, ER, Hl, Hr. reflexivity.
Qed.

Lemma exclg_in c cs l r : In c cs -> exclg cs l r = false -> excl1 c l r = false.
Proof.
  intros Hi H. unfold exclg in H. destruct (excl1 c l r) eqn:E; [|reflexivity].
  rewrite <- H. symmetry. apply existsb_exists. exists c. auto.
Qed.

Lemma excl1_false c l r : excl1 c l r = false ->
  present l && present r && both_empty l r = false /\ pair_gray c l r = false.
Proof. unfold excl1. apply orb_false_iff. Qed.

(* keep_rows cs out is determined, from complete/sound/missing of c (c in cs) *)
Lemma keep_determined_weak c cs out : set_case c = true -> j_with_score c = true ->
  complete_spec c out = true -> sound_spec c out = true -> missing_spec c out = true ->
  wf_scores c out = true -> In c cs -> (forall c', In c' cs -> same_tables c c') ->
  determined (j_L c) (j_R c) (wrel (int_case c)) (fun l r => negb (exclg cs l r)) (exp_in c) (exp_score c)
             (keep_rows cs out).
Proof.
  intros Hset Hws Hc Hs Hm Hwf Hi Hst. unfold keep_rows.
  apply spec_determined_weak; auto.
  - intros l r Hg. apply negb_true_iff in Hg. apply (exclg_in c) in Hg; [|exact Hi]. apply excl1_false in Hg. tauto.
  - right. intros l r Hg. apply negb_true_iff in Hg. apply (exclg_in c) in Hg; [|exact Hi]. apply excl1_false in Hg. tauto.
  - intros o l r _ Hl Hr. rewrite (row_excluded_found c cs o l r Hst Hl Hr). reflexivity.
Qed.

Lemma keep_determined_typed c cs out : set_case c = true -> j_with_score c = true ->
  complete_spec c out = true -> sound_spec c out = true -> missing_spec c out = true ->
  typed_scores c out = true -> In c cs -> (forall c', In c' cs -> same_tables c c') ->
  determined (j_L c) (j_R c) trel (fun l r => negb (exclg cs l r)) (exp_in c) (exp_score c)
             (keep_rows cs out).
Proof.
  intros Hset Hws Hc Hs Hm Hty Hi Hst. unfold keep_rows.
  apply spec_determined_typed; auto.
  - intros l r Hg. apply negb_true_iff in Hg. apply (exclg_in c) in Hg; [|exact Hi]. apply excl1_false in Hg. tauto.
  - right. intros l r Hg. apply negb_true_iff in Hg. apply (exclg_in c) in Hg; [|exact Hi]. apply excl1_false in Hg. tauto.
  - intros o l r _ Hl Hr. rewrite (row_excluded_found c cs o l r Hst Hl Hr). reflexivity.
Qed.

Print Assumptions spec_determined_raw.
Print Assumptions keep_determined_weak.
Print Assumptions keep_determined_typed.
