(* (6) C07: join = apply_matcher o filter_tables, as a corollary of the specs.
   obsP is ANY list that is sound and complete w.r.t. the score the MATCHER computes
   (matcher_raw_score: py_stringmatching's get_raw_score on the tokenizer's lists, whose
   exact-match shortcut is order-sensitive; pipeline_sound_raw, pipeline_complete_raw below: what
   apply_matcher o filter_tables yields when the filter keeps every qualifying pair) and
   satisfies missing_spec; obsJ satisfies the join specs.
   Set aside (pipeline_spec): both-empty pairs, pairs gray for the join's raw score (pair_gray)
   and pairs gray for the matcher's raw score (pair_gray_pipe).
   The remaining arithmetic content is isolated in the hypothesis round_agrees:
   round(reported, 4) == round(matcher raw, 4).
   Axiom-free.                                                                              *)
From Coq Require Import ZArith Bool List String Lia SpecFloat PeanoNat.
From SSJ Require Import F64 PyNum FilterUtilsGen HelperGen TokenOrdering Measures Filters Joins Api JoinSpec MetaSpec
                        OverlapFacts LawsCanon LawsScore LawsBase LawsSpec.
Import ListNotations.
Open Scope string_scope.
Open Scope Z_scope.

(* ------------------------------------------------------------------ the pipeline specs *)
Definition raw_in (c : jcase) (l r : row) : bool :=
  if present l && present r then
    if both_empty l r then true
    else match j_entry c with
         | EJoin m => cmp_op (j_op c) (matcher_raw_score m (toks_of l) (toks_of r)) (j_t c)
         | _ => false
         end
  else j_allow_missing c.
Definition raw_sc (c : jcase) (l r : row) : pyval :=
  if present l && present r then
    match j_entry c with EJoin m => matcher_raw_score m (toks_of l) (toks_of r) | _ => PNone end
  else PNone.

(* each row: known keys, once; a present pair (not both empty) satisfies the comparison on the
   matcher's raw score and carries that score; a pair with a missing side only under allow_missing *)
Definition pipe_row (c : jcase) (obs : list out_row) (o : out_row) : bool :=
  match find_row (fst (fst o)) (j_L c), find_row (snd (fst o)) (j_R c) with
  | Some l, Some r =>
      Nat.eqb (count_pair (fst (fst o)) (snd (fst o)) obs) 1 &&
      (if present l && present r then
         if both_empty l r then true
         else match j_entry c with
              | EJoin m => cmp_op (j_op c) (matcher_raw_score m (toks_of l) (toks_of r)) (j_t c) &&
                           score_same (snd o) (matcher_raw_score m (toks_of l) (toks_of r))
              | _ => false
              end
       else j_allow_missing c && score_same (snd o) PNone)
  | _, _ => false
  end.
Definition pipeline_sound_raw (c : jcase) (obs : list out_row) : bool := forallb (pipe_row c obs) obs.
(* a filter is only guaranteed to keep the QUALIFYING pairs (raw and rounded comparison of the
   join); the matcher then keeps those whose matcher score satisfies the comparison *)
Definition pipeline_complete_raw (c : jcase) (obs : list out_row) : bool :=
  forall_pairs c (fun l r =>
    if present l && present r then
      if both_empty l r then true
      else match j_entry c with
           | EJoin m => if qualifies m (j_op c) (j_t c) (toks_of l) (toks_of r) &&
                           cmp_op (j_op c) (matcher_raw_score m (toks_of l) (toks_of r)) (j_t c)
                        then has_pair (fst l) (fst r) obs else true
           | _ => true
           end
    else true).

(* round(reported) == round(matcher raw) on the reported pairs *)
Definition round_agrees (c : jcase) (m : string) : Prop :=
  forall x y, cmp_op (j_op c) (reported_score m x y) (j_t c) = true ->
              score_same (round_score (reported_score m x y)) (round_score (matcher_raw_score m x y)) = true.
(* ... only on the rows of the two tables *)
Definition round_agrees_rows (c : jcase) (m : string) : Prop :=
  forall l r, In l (j_L c) -> In r (j_R c) -> present l = true -> present r = true ->
    cmp_op (j_op c) (reported_score m (toks_of l) (toks_of r)) (j_t c) = true ->
    score_same (round_score (reported_score m (toks_of l) (toks_of r)))
               (round_score (matcher_raw_score m (toks_of l) (toks_of r))) = true.

Lemma round_agrees_to_rows c m : round_agrees c m -> round_agrees_rows c m.
Proof. intros H l r _ _ _ _. apply H. Qed.

(* ------------------------------------------------------------------ the matcher's raw score *)
Lemma matcher_raw_not_jcd m x y : is_jcd m = false -> matcher_raw_score m x y = raw_score m x y.
Proof. unfold matcher_raw_score. intros ->. reflexivity. Qed.

Lemma list_eqbZ_true a : forall b, list_eqbZ a b = true -> a = b.
Proof.
  induction a as [|x a IH]; intros [|y b] H; simpl in H; try reflexivity; try discriminate.
  apply andb_true_iff in H. destruct H as [H1 H2]. apply Z.eqb_eq in H1. rewrite H1, (IH b H2). reflexivity.
Qed.

Lemma filter_id {A} (f : A -> bool) (l : list A) : (forall x, In x l -> f x = true) -> filter f l = l.
Proof.
  induction l as [|x l IH]; intros H; [reflexivity|]. simpl. rewrite (H x (or_introl eq_refl)).
  rewrite IH; [reflexivity|]. intros y Hy. apply H. right; exact Hy.
Qed.

Lemma overlap_sets_self x : overlap_sets x x = len (dedup x).
Proof.
  unfold overlap_sets. rewrite filter_id; [reflexivity|]. intros w Hw. unfold memZ.
  apply existsb_exists. exists w. split; [exact Hw | apply Z.eqb_refl].
Qed.

(* on EQUAL LISTS the matcher's score is the join's raw score (both 1.0 for J/C/D) *)
Lemma matcher_raw_same_list m x y : list_eqbZ x y = true -> matcher_raw_score m x y = raw_score m x y.
Proof.
  intros E. unfold matcher_raw_score. destruct (is_jcd m) eqn:Ej; [|reflexivity]. rewrite E.
  apply list_eqbZ_true in E. subst y. unfold raw_score. rewrite Ej. cbv zeta.
  unfold sim_sizes. rewrite overlap_sets_self, Z.eqb_refl. reflexivity.
Qed.

(* the only case in which the two differ: equal SETS (o = a = b) listed differently *)
Lemma matcher_raw_cases m x y :
  matcher_raw_score m x y = raw_score m x y \/
  (is_jcd m = true /\ list_eqbZ x y = false /\
   overlap_sets x y = len (dedup x) /\ overlap_sets x y = len (dedup y) /\
   raw_score m x y = PFloat f_one /\
   matcher_raw_score m x y = PFloat (sim_formula m (len (dedup x)) (len (dedup x)) (len (dedup x)))).
Proof.
  destruct (is_jcd m) eqn:Ej; [|left; apply matcher_raw_not_jcd; exact Ej].
  destruct (list_eqbZ x y) eqn:El; [left; apply matcher_raw_same_list; exact El|].
  unfold matcher_raw_score, raw_score, sim_sizes. rewrite Ej, El. cbv zeta.
  destruct ((overlap_sets x y =? len (dedup x)) && (overlap_sets x y =? len (dedup y))) eqn:Eo;
    [right | left; reflexivity].
  apply andb_true_iff in Eo. destruct Eo as [E1 E2]. apply Z.eqb_eq in E1, E2.
  repeat split; try assumption; try reflexivity. rewrite <- E2, E1. reflexivity.
Qed.

(* ------------------------------------------------------------------ shape of the raw score *)
Lemma raw_score_shape m x y : set_measure m = true ->
  if String.eqb m "OVERLAP" then raw_score m x y = PInt (overlap_sets x y)
  else (exists f, raw_score m x y = PFloat f) \/ (exists e, raw_score m x y = PExc e).
Proof.
  intros H. destruct (set_measure_cases m H) as [->|[->|[->|[->| ->]]]]; cbn [String.eqb Ascii.eqb Bool.eqb];
    try (left; eexists; reflexivity); try reflexivity.
  unfold raw_score. cbn [is_jcd String.eqb Ascii.eqb Bool.eqb orb].
  rewrite !py_float_int, py_truediv_ff. destruct (f_is_zero _); [right | left]; eexists; reflexivity.
Qed.

Lemma typed_seq_raw m s x y : set_measure m = true ->
  typed_score (String.eqb m "OVERLAP") s = true -> score_same s (raw_score m x y) = true ->
  seq s (raw_score m x y) = true.
Proof.
  intros H Ht Hs. apply score_same_seq; [exact Hs|].
  pose proof (raw_score_shape m x y H) as S. destruct (String.eqb m "OVERLAP").
  - rewrite S in *. destruct s; simpl in *; try discriminate; reflexivity.
  - destruct S as [[f E]|[e E]]; rewrite E in *; destruct s; simpl in *; try discriminate; reflexivity.
Qed.

Lemma matcher_raw_shape m x y : set_measure m = true ->
  if String.eqb m "OVERLAP" then matcher_raw_score m x y = PInt (overlap_sets x y)
  else (exists f, matcher_raw_score m x y = PFloat f) \/ (exists e, matcher_raw_score m x y = PExc e).
Proof.
  intros H. pose proof (raw_score_shape m x y H) as S.
  destruct (matcher_raw_cases m x y) as [E|(Ej & _ & _ & _ & _ & E)]; [rewrite E; exact S|].
  rewrite E. destruct (String.eqb m "OVERLAP") eqn:Eo.
  - apply String.eqb_eq in Eo. subst m. discriminate Ej.
  - left. eexists. reflexivity.
Qed.

Lemma typed_seq_matcher m s x y : set_measure m = true ->
  typed_score (String.eqb m "OVERLAP") s = true -> score_same s (matcher_raw_score m x y) = true ->
  seq s (matcher_raw_score m x y) = true.
Proof.
  intros H Ht Hs. apply score_same_seq; [exact Hs|].
  pose proof (matcher_raw_shape m x y H) as S. destruct (String.eqb m "OVERLAP").
  - rewrite S in *. destruct s; simpl in *; try discriminate; reflexivity.
  - destruct S as [[f E]|[e E]]; rewrite E in *; destruct s; simpl in *; try discriminate; reflexivity.
Qed.

(* not gray for the matcher: the matcher's comparison is the join's reported comparison *)
Lemma pair_gray_pipe_false_cmp c m l r : j_entry c = EJoin m ->
  present l && present r = true -> both_empty l r = false -> pair_gray_pipe c l r = false ->
  cmp_op (j_op c) (matcher_raw_score m (toks_of l) (toks_of r)) (j_t c) =
  cmp_op (j_op c) (reported_score m (toks_of l) (toks_of r)) (j_t c).
Proof.
  intros Ee Ep Eb. unfold pair_gray_pipe. rewrite Ee.
  destruct (is_jcd m) eqn:Ej.
  - rewrite <- !andb_assoc. apply andb_true_iff in Ep. destruct Ep as [-> ->]. rewrite Eb. simpl.
    unfold gray_pipe. rewrite negb_false_iff. intros H. apply eqb_prop in H. exact H.
  - intros _. rewrite (reported_not_jcd m _ _ Ej), (matcher_raw_not_jcd m _ _ Ej). reflexivity.
Qed.

Lemma pipe_excluded_found c o l r :
  find_row (fst (fst o)) (j_L c) = Some l -> find_row (snd (fst o)) (j_R c) = Some r ->
  pipe_excluded c o = pair_gray_pipe c l r.
Proof. intros Hl Hr. unfold pipe_excluded, row_pair. rewrite Hl, Hr. reflexivity. Qed.

(* ------------------------------------------------------------------ the pipeline list is determined *)
Section Pipe.
Variables (c : jcase) (m : string) (obsJ obsP : list out_row).
Hypothesis Ee : j_entry c = EJoin m.
Hypothesis Hmm : set_measure m = true.
Hypothesis Hws : j_with_score c = true.

Lemma pipe_set_case : set_case c = true.
Proof. unfold set_case. rewrite Ee. exact Hmm. Qed.

Lemma pipe_int_case : int_case c = String.eqb m "OVERLAP".
Proof. unfold int_case, measure_of. rewrite Ee. reflexivity. Qed.

Hypothesis HPs : pipeline_sound_raw c obsP = true.
Hypothesis HPc : pipeline_complete_raw c obsP = true.
Hypothesis HPm : missing_spec c obsP = true.
Hypothesis HPt : typed_scores c obsP = true.

(* the region compared by pipeline_spec *)
Definition pipe_region (l r : row) : bool := negb (exclg [c] l r) && negb (pair_gray_pipe c l r).
Let G := pipe_region.

Lemma pipe_region_inv l r : G l r = true ->
  present l && present r && both_empty l r = false /\ pair_gray c l r = false /\
  pair_gray_pipe c l r = false.
Proof.
  intros Hg. apply andb_true_iff in Hg. destruct Hg as [Hg Hp].
  apply negb_true_iff in Hg. apply (exclg_in c) in Hg; [|left; reflexivity].
  apply excl1_false in Hg. apply negb_true_iff in Hp. tauto.
Qed.

Lemma pipe_view o : In o obsP ->
  exists l r, find_row (fst (fst o)) (j_L c) = Some l /\ find_row (snd (fst o)) (j_R c) = Some r /\
              count_pair (fst (fst o)) (snd (fst o)) obsP = 1%nat /\
              (present l && present r && both_empty l r = false ->
               raw_in c l r = true /\ trel (snd o) (raw_sc c l r) = true).
Proof.
  intros Ho. unfold pipeline_sound_raw in HPs. rewrite forallb_forall in HPs. specialize (HPs o Ho).
  unfold typed_scores in HPt. rewrite forallb_forall in HPt. specialize (HPt o Ho). rewrite pipe_int_case in HPt.
  unfold pipe_row in HPs.
  destruct (find_row (fst (fst o)) (j_L c)) as [l|]; [|discriminate].
  destruct (find_row (snd (fst o)) (j_R c)) as [r|]; [|discriminate].
  exists l, r. apply andb_true_iff in HPs. destruct HPs as [Hc H]. apply Nat.eqb_eq in Hc.
  split; [reflexivity|]. split; [reflexivity|]. split; [exact Hc|].
  unfold raw_in, raw_sc, trel. destruct (present l && present r) eqn:Ep.
  - destruct (both_empty l r) eqn:Eb; [discriminate|]. intros _. rewrite Ee in *.
    apply andb_true_iff in H. destruct H as [H1 H2]. split; [exact H1|].
    rewrite H2, andb_true_r. apply typed_seq_matcher; assumption.
  - intros _. apply andb_true_iff in H. destruct H as [H1 H2]. split; [exact H1|].
    rewrite H2, andb_true_r. destruct (snd o); try discriminate H2. reflexivity.
Qed.

Lemma keep_pipe_In o l r : find_row (fst (fst o)) (j_L c) = Some l -> find_row (snd (fst o)) (j_R c) = Some r ->
  forall obs, In o (keep_pipe c obs) <-> In o obs /\ G l r = true.
Proof.
  assert (forall c', In c' [c] -> same_tables c c') as Hst.
  { intros c' [<-|[]]. split; reflexivity. }
  intros Hl Hr obs. unfold keep_pipe, keep_rows. rewrite !filter_In.
  rewrite (row_excluded_found c [c] o l r Hst Hl Hr), (pipe_excluded_found c o l r Hl Hr).
  unfold G, pipe_region. rewrite andb_true_iff. tauto.
Qed.

Lemma pipe_determined :
  determined (j_L c) (j_R c) trel G (raw_in c) (raw_sc c) (keep_pipe c obsP).
Proof.
  split; [|split].
  - unfold keep_pipe, keep_rows. apply uniq_filter, uniq_filter. apply count_uniq. intros o Ho.
    destruct (pipe_view o Ho) as [l [r [_ [_ [Hc _]]]]]. exact Hc.
  - intros o Ho.
    assert (In o obsP) as Ho'.
    { unfold keep_pipe, keep_rows in Ho. apply filter_In in Ho. destruct Ho as [Ho _].
      apply filter_In in Ho. tauto. }
    destruct (pipe_view o Ho') as [l [r [Hl [Hr [_ H]]]]]. exists l, r.
    apply (keep_pipe_In o l r Hl Hr) in Ho. destruct Ho as [_ Hk].
    destruct (pipe_region_inv l r Hk) as [Hbe _]. destruct (H Hbe) as [H1 H2]. auto 6.
  - intros l r [Hl Hr] Hg Hin. destruct (pipe_region_inv l r Hg) as [Hbe [Hgr Hgp]].
    destruct (find_row_some _ _ _ Hl) as [Il _]. destruct (find_row_some _ _ _ Hr) as [Ir _].
    assert (has_pair (fst l) (fst r) obsP = true) as Hp.
    { unfold raw_in in Hin. destruct (present l && present r) eqn:Ep.
      - destruct (both_empty l r) eqn:Eb; [discriminate Hbe|]. rewrite Ee in Hin.
        pose proof (forall_pairs_inv _ _ _ _ HPc Il Ir) as H. cbv beta in H. rewrite Ep, Eb, Ee in H.
        unfold qualifies in H. rewrite Hin in H.
        rewrite (pair_gray_false_cmp c m l r Ee Ep Eb Hgr) in H.
        rewrite <- (pair_gray_pipe_false_cmp c m l r Ee Ep Eb Hgp), Hin in H. exact H.
      - apply (missing_view c obsP l r); assumption. }
    apply has_pair_In in Hp. destruct Hp as [s Ho]. apply has_pair_In. exists s.
    apply (keep_pipe_In (fst l, fst r, s) l r Hl Hr). split; [exact Ho | exact Hg].
Qed.

Hypothesis HJc : complete_spec c obsJ = true.
Hypothesis HJs : sound_spec c obsJ = true.
Hypothesis HJm : missing_spec c obsJ = true.
Hypothesis HJt : typed_scores c obsJ = true.

(* the join's rows in the same region *)
Lemma join_determined :
  determined (j_L c) (j_R c) trel G (exp_in c) (exp_score c) (keep_pipe c obsJ).
Proof.
  assert (forall c', In c' [c] -> same_tables c c') as Hst.
  { intros c' [<-|[]]. split; reflexivity. }
  pose proof (keep_determined_typed c [c] obsJ pipe_set_case Hws HJc HJs HJm HJt (or_introl eq_refl) Hst) as DJ.
  unfold keep_pipe.
  apply (determined_filter _ _ _ _ (fun l r => negb (pair_gray_pipe c l r)) _ _ _
           (fun o => negb (pipe_excluded c o)) DJ).
  intros o l r _ Hl Hr. rewrite (pipe_excluded_found c o l r Hl Hr). reflexivity.
Qed.

Hypothesis Hround : round_agrees_rows c m.

Theorem pipeline_law_rows : pipeline_spec c obsJ obsP = true.
Proof.
  assert (forall s v, trel s v = true -> seq (round_score s) (round_score v) = true) as Hr.
  { intros s v H. apply seq_round. apply trel_seq; exact H. }
  pose proof (determined_round _ _ _ _ _ _ _ _ join_determined Hr) as DJr.
  pose proof (determined_round _ _ _ _ _ _ _ _ pipe_determined Hr) as DPr.
  unfold pipeline_spec.
  eapply (determined_eq _ _ _ _ _ _ _ _ _ _ _ DJr DPr).
  - intros l r _ Hg. destruct (pipe_region_inv l r Hg) as [Hbe [_ Hgp]].
    unfold exp_in, raw_in. destruct (present l && present r) eqn:Ep; [|reflexivity].
    destruct (both_empty l r) eqn:Eb; [discriminate Hbe|].
    unfold exp_cmp. rewrite Ee. symmetry. apply (pair_gray_pipe_false_cmp c m l r Ee Ep Eb Hgp).
  - intros l r s s' [Hfl Hfr] Hg Hin H1 H2. cbv beta in H1, H2.
    rewrite (seq_score_same _ _ _ _ H1 H2).
    destruct (pipe_region_inv l r Hg) as [Hbe _].
    destruct (find_row_some _ _ _ Hfl) as [Il _]. destruct (find_row_some _ _ _ Hfr) as [Ir _].
    unfold exp_in in Hin. unfold exp_score, raw_sc. destruct (present l && present r) eqn:Ep; [|reflexivity].
    destruct (both_empty l r) eqn:Eb; [discriminate Hbe|].
    apply andb_true_iff in Ep. destruct Ep as [Pl Pr].
    unfold exp_cmp in Hin. unfold exp_sc. rewrite Ee in *. apply Hround; assumption.
Qed.
End Pipe.

Theorem pipeline_law c m obsJ obsP :
  j_entry c = EJoin m -> set_measure m = true -> j_with_score c = true ->
  pipeline_sound_raw c obsP = true -> pipeline_complete_raw c obsP = true ->
  missing_spec c obsP = true -> typed_scores c obsP = true ->
  complete_spec c obsJ = true -> sound_spec c obsJ = true -> missing_spec c obsJ = true ->
  typed_scores c obsJ = true ->
  round_agrees c m -> pipeline_spec c obsJ obsP = true.
Proof.
  intros Ee Hmm Hws HPs HPc HPm HPt HJc HJs HJm HJt Hround.
  exact (pipeline_law_rows c m obsJ obsP Ee Hmm Hws HPs HPc HPm HPt HJc HJs HJm HJt
           (round_agrees_to_rows c m Hround)).
Qed.

(* round_agrees is trivial for integer scores *)
Lemma round_agrees_overlap c : round_agrees c "OVERLAP".
Proof.
  intros x y _. rewrite (matcher_raw_not_jcd "OVERLAP" x y eq_refl). unfold reported_score, raw_score. cbn [is_jcd String.eqb Ascii.eqb Bool.eqb orb].
  simpl. rewrite Z.compare_refl. reflexivity.
Qed.

(* for the measures whose reported score is the raw score it says that the rounded score is
   comparable with itself (not NaN) *)
Lemma round_agrees_not_jcd c m : is_jcd m = false ->
  (forall x y, cmp_op (j_op c) (raw_score m x y) (j_t c) = true ->
               score_same (round_score (raw_score m x y)) (round_score (raw_score m x y)) = true) ->
  round_agrees c m.
Proof. intros Hj H x y. rewrite (reported_not_jcd m x y Hj), (matcher_raw_not_jcd m x y Hj). apply H. Qed.

Print Assumptions pipe_determined.
Print Assumptions pipeline_law_rows.
Print Assumptions pipeline_law.
