(* (6) C07: join = apply_matcher o filter_tables, as a corollary of the specs.
   obsP is ANY list that is sound and complete w.r.t. the RAW score (pipeline_sound_raw,
   pipeline_complete_raw below: what apply_matcher o filter_tables yields when the filter keeps
   every qualifying pair) and satisfies missing_spec; obsJ satisfies the join specs.
   The remaining arithmetic content is isolated in the hypothesis round_agrees:
   round(reported, 4) == round(raw, 4), i.e. idempotence of the 4-decimal rounding on scores.
   Axiom-free.                                                                              *)
From Coq Require Import ZArith Bool List String Lia SpecFloat PeanoNat.
From SSJ Require Import F64 PyNum FilterUtilsGen HelperGen TokenOrdering Measures Filters Joins Api JoinSpec MetaSpec
                        OverlapFacts LawsCanon LawsScore LawsBase LawsSpec.
Import ListNotations.
Open Scope string_scope.
Open Scope Z_scope.

(* ------------------------------------------------------------------ the pipeline specs *)
Definition raw_in (c : jcase) (l r : row) : bool :=
  if present l && present r then
    if both_empty l r then true
    else match j_entry c with
         | EJoin m => cmp_op (j_op c) (raw_score m (toks_of l) (toks_of r)) (j_t c)
         | _ => false
         end
  else j_allow_missing c.
Definition raw_sc (c : jcase) (l r : row) : pyval :=
  if present l && present r then
    match j_entry c with EJoin m => raw_score m (toks_of l) (toks_of r) | _ => PNone end
  else PNone.

(* each row: known keys, once; a present pair (not both empty) satisfies the comparison on the raw
   score and carries the raw score; a pair with a missing side only under allow_missing *)
Definition pipe_row (c : jcase) (obs : list out_row) (o : out_row) : bool :=
  match find_row (fst (fst o)) (j_L c), find_row (snd (fst o)) (j_R c) with
  | Some l, Some r =>
      Nat.eqb (count_pair (fst (fst o)) (snd (fst o)) obs) 1 &&
      (if present l && present r then
         if both_empty l r then true
         else match j_entry c with
              | EJoin m => cmp_op (j_op c) (raw_score m (toks_of l) (toks_of r)) (j_t c) &&
                           score_same (snd o) (raw_score m (toks_of l) (toks_of r))
              | _ => false
              end
       else j_allow_missing c && score_same (snd o) PNone)
  | _, _ => false
  end.
Definition pipeline_sound_raw (c : jcase) (obs : list out_row) : bool := forallb (pipe_row c obs) obs.
(* a filter is only guaranteed to keep the QUALIFYING pairs (raw and rounded comparison) *)
Definition pipeline_complete_raw (c : jcase) (obs : list out_row) : bool :=
  forall_pairs c (fun l r =>
    if present l && present r then
      if both_empty l r then true
      else match j_entry c with
           | EJoin m => if qualifies m (j_op c) (j_t c) (toks_of l) (toks_of r)
                        then has_pair (fst l) (fst r) obs else true
           | _ => true
           end
    else true).

(* round(reported) == round(raw) on the reported pairs *)
Definition round_agrees (c : jcase) (m : string) : Prop :=
  forall x y, cmp_op (j_op c) (reported_score m x y) (j_t c) = true ->
              score_same (round_score (reported_score m x y)) (round_score (raw_score m x y)) = true.

(* ------------------------------------------------------------------ shape of the raw score *)
Lemma raw_score_shape m x y : set_measure m = true ->
  if String.eqb m "OVERLAP" then raw_score m x y = PInt (overlap_sets x y)
  else (exists f, raw_score m x y = PFloat f) \/ (exists e, raw_score m x y = PExc e).
Proof.
  intros H. destruct (set_measure_cases m H) as [->|[->|[->|[->| ->]]]]; cbn [String.eqb Ascii.eqb Bool.eqb];
    try (left; eexists; reflexivity); try reflexivity.
  unfold raw_score. cbn [is_jcd String.eqb Ascii.eqb Bool.eqb orb].
  rewrite !py_float_int, py_truediv_ff. destruct (f_is_zero _); [right | left]; eexists; reflexivity.
Qed.

Lemma typed_seq_raw m s x y : set_measure m = true ->
  typed_score (String.eqb m "OVERLAP") s = true -> score_same s (raw_score m x y) = true ->
  seq s (raw_score m x y) = true.
Proof.
  intros H Ht Hs. apply score_same_seq; [exact Hs|].
  pose proof (raw_score_shape m x y H) as S. destruct (String.eqb m "OVERLAP").
  - rewrite S in *. destruct s; simpl in *; try discriminate; reflexivity.
  - destruct S as [[f E]|[e E]]; rewrite E in *; destruct s; simpl in *; try discriminate; reflexivity.
Qed.

(* ------------------------------------------------------------------ the pipeline list is determined *)
Section Pipe.
Variables (c : jcase) (m : string) (obsJ obsP : list out_row).
Hypothesis Ee : j_entry c = EJoin m.
Hypothesis Hmm : set_measure m = true.
Hypothesis Hws : j_with_score c = true.

Lemma pipe_set_case : set_case c = true.
Proof. unfold set_case. rewrite Ee. exact Hmm. Qed.

Lemma pipe_int_case : int_case c = String.eqb m "OVERLAP".
Proof. unfold int_case, measure_of. rewrite Ee. reflexivity. Qed.

Hypothesis HPs : pipeline_sound_raw c obsP = true.
Hypothesis HPc : pipeline_complete_raw c obsP = true.
Hypothesis HPm : missing_spec c obsP = true.
Hypothesis HPt : typed_scores c obsP = true.

Let G := fun l r : row => negb (exclg [c] l r).

Lemma pipe_view o : In o obsP ->
  exists l r, find_row (fst (fst o)) (j_L c) = Some l /\ find_row (snd (fst o)) (j_R c) = Some r /\
              count_pair (fst (fst o)) (snd (fst o)) obsP = 1%nat /\
              (present l && present r && both_empty l r = false ->
               raw_in c l r = true /\ trel (snd o) (raw_sc c l r) = true).
Proof.
  intros Ho. unfold pipeline_sound_raw in HPs. rewrite forallb_forall in HPs. specialize (HPs o Ho).
  unfold typed_scores in HPt. rewrite forallb_forall in HPt. specialize (HPt o Ho). rewrite pipe_int_case in HPt.
  unfold pipe_row in HPs.
  destruct (find_row (fst (fst o)) (j_L c)) as [l|]; [|discriminate].
  destruct (find_row (snd (fst o)) (j_R c)) as [r|]; [|discriminate].
  exists l, r. apply andb_true_iff in HPs. destruct HPs as [Hc H]. apply Nat.eqb_eq in Hc.
  split; [reflexivity|]. split; [reflexivity|]. split; [exact Hc|].
  unfold raw_in, raw_sc, trel. destruct (present l && present r) eqn:Ep.
  - destruct (both_empty l r) eqn:Eb; [discriminate|]. intros _. rewrite Ee in *.
    apply andb_true_iff in H. destruct H as [H1 H2]. split; [exact H1|].
    rewrite H2, andb_true_r. apply typed_seq_raw; assumption.
  - intros _. apply andb_true_iff in H. destruct H as [H1 H2]. split; [exact H1|].
    rewrite H2, andb_true_r. destruct (snd o); try discriminate H2. reflexivity.
Qed.

Lemma pipe_determined :
  determined (j_L c) (j_R c) trel G (raw_in c) (raw_sc c) (keep_rows [c] obsP).
Proof.
  assert (forall c', In c' [c] -> same_tables c c') as Hst.
  { intros c' [<-|[]]. split; reflexivity. }
  assert (forall l r, G l r = true ->
            present l && present r && both_empty l r = false /\ pair_gray c l r = false) as HG.
  { intros l r Hg. apply negb_true_iff in Hg. apply (exclg_in c) in Hg; [|left; reflexivity].
    apply excl1_false; exact Hg. }
  split; [|split].
  - unfold keep_rows. apply uniq_filter. apply count_uniq. intros o Ho.
    destruct (pipe_view o Ho) as [l [r [_ [_ [Hc _]]]]]. exact Hc.
  - intros o Ho. unfold keep_rows in Ho. apply filter_In in Ho. destruct Ho as [Ho Hk].
    destruct (pipe_view o Ho) as [l [r [Hl [Hr [_ H]]]]]. exists l, r.
    rewrite (row_excluded_found c [c] o l r Hst Hl Hr) in Hk. fold (G l r) in Hk.
    destruct (HG l r Hk) as [Hbe _]. destruct (H Hbe) as [H1 H2]. auto 6.
  - intros l r [Hl Hr] Hg Hin. destruct (HG l r Hg) as [Hbe Hgr].
    destruct (find_row_some _ _ _ Hl) as [Il _]. destruct (find_row_some _ _ _ Hr) as [Ir _].
    assert (has_pair (fst l) (fst r) obsP = true) as Hp.
    { unfold raw_in in Hin. destruct (present l && present r) eqn:Ep.
      - destruct (both_empty l r) eqn:Eb; [discriminate Hbe|]. rewrite Ee in Hin.
        pose proof (forall_pairs_inv _ _ _ _ HPc Il Ir) as H. cbv beta in H. rewrite Ep, Eb, Ee in H.
        unfold qualifies in H.
        rewrite <- (pair_gray_false_cmp c m l r Ee Ep Eb Hgr), Hin in H. exact H.
      - apply (missing_view c obsP l r); assumption. }
    apply has_pair_In in Hp. destruct Hp as [s Ho]. apply has_pair_In. exists s.
    unfold keep_rows. apply filter_In. split; [exact Ho|].
    rewrite (row_excluded_found c [c] (fst l, fst r, s) l r Hst Hl Hr). exact Hg.
Qed.

Hypothesis HJc : complete_spec c obsJ = true.
Hypothesis HJs : sound_spec c obsJ = true.
Hypothesis HJm : missing_spec c obsJ = true.
Hypothesis HJt : typed_scores c obsJ = true.
Hypothesis Hround : round_agrees c m.

Theorem pipeline_law : pipeline_spec c obsJ obsP = true.
Proof.
  assert (forall c', In c' [c] -> same_tables c c') as Hst.
  { intros c' [<-|[]]. split; reflexivity. }
  pose proof (keep_determined_typed c [c] obsJ pipe_set_case Hws HJc HJs HJm HJt (or_introl eq_refl) Hst) as DJ.
  assert (forall s v, trel s v = true -> seq (round_score s) (round_score v) = true) as Hr.
  { intros s v H. apply seq_round. apply trel_seq; exact H. }
  pose proof (determined_round _ _ _ _ _ _ _ _ DJ Hr) as DJr.
  pose proof (determined_round _ _ _ _ _ _ _ _ pipe_determined Hr) as DPr.
  unfold pipeline_spec.
  eapply (determined_eq _ _ _ _ _ _ _ _ _ _ _ DJr DPr).
  - intros l r _ Hg. apply negb_true_iff in Hg. apply (exclg_in c) in Hg; [|left; reflexivity].
    apply excl1_false in Hg. destruct Hg as [Hbe Hgr].
    unfold exp_in, raw_in. destruct (present l && present r) eqn:Ep; [|reflexivity].
    destruct (both_empty l r) eqn:Eb; [discriminate Hbe|].
    unfold exp_cmp. rewrite Ee. symmetry. apply (pair_gray_false_cmp c m l r Ee Ep Eb Hgr).
  - intros l r s s' _ Hg Hin H1 H2. cbv beta in H1, H2.
    rewrite (seq_score_same _ _ _ _ H1 H2).
    apply negb_true_iff in Hg. apply (exclg_in c) in Hg; [|left; reflexivity].
    apply excl1_false in Hg. destruct Hg as [Hbe _].
    unfold exp_in in Hin. unfold exp_score, raw_sc. destruct (present l && present r) eqn:Ep; [|reflexivity].
    destruct (both_empty l r) eqn:Eb; [discriminate Hbe|].
    unfold exp_cmp in Hin. unfold exp_sc. rewrite Ee in *. apply Hround; exact Hin.
Qed.
End Pipe.

(* round_agrees is trivial for integer scores *)
Lemma round_agrees_overlap c : round_agrees c "OVERLAP".
Proof.
  intros x y _. unfold reported_score, raw_score. cbn [is_jcd String.eqb Ascii.eqb Bool.eqb orb].
  simpl. rewrite Z.compare_refl. reflexivity.
Qed.

(* for the measures whose reported score is the raw score it says that the rounded score is
   comparable with itself (not NaN) *)
Lemma round_agrees_not_jcd c m : is_jcd m = false ->
  (forall x y, cmp_op (j_op c) (raw_score m x y) (j_t c) = true ->
               score_same (round_score (raw_score m x y)) (round_score (raw_score m x y)) = true) ->
  round_agrees c m.
Proof. intros Hj H x y. rewrite (reported_not_jcd m x y Hj). apply H. Qed.

Print Assumptions pipe_determined.
Print Assumptions pipeline_law.
