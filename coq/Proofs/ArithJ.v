(* F1, F2, F3, F5 for JACCARD, against the generated formulas of Gen/FilterUtilsGen.v. *)
From Coq Require Import ZArith Reals Lia Lra Psatz SpecFloat Bool String List.
From Flocq Require Import Core BinarySingleNaN Relative.
From SSJ Require Import F64 F64Spec PyNum FilterUtilsGen Measures ArithSpec ArithCommon.
Open Scope string_scope.
Open Scope R_scope.

(* ------------------------------------------------------------------ *)
(** * Real-level inequalities (no floats here)                         *)

(* lower bound / prefix:  T*U <= o(1+eps), n <= U, o <= k  ==>  RN(T n) < k + 1/20000 *)
Lemma J_lb_real : forall T n k o U : R,
  / 1073741824 <= T <= 1 -> 1 <= o -> o <= k -> k <= 1048575 -> 1 <= n -> n <= U ->
  T * U <= o * (1 + eps) ->
  / B100 <= T * n <= B100 /\ 0 <= RN (T * n) <= B99 /\ RN (T * n) < k + / 20000.
Proof.
intros T n k o U HT Ho Hok Hk Hn HnU Hq.
pose proof eps_val as He. unfold B100, B99.
assert (H1 : T * n <= T * U) by (apply Rmult_le_compat_l; lra).
assert (H2 : / 1073741824 * 1 <= T * n) by (apply Rmult_le_compat; lra).
assert (H3 : T * n <= 1048575 * (1 + eps)) by nra.
assert (Hr : / B100 <= T * n) by (unfold B100; lra).
destruct (RN_pos_bounds _ Hr) as [R1 R2].
rewrite He in *.
split. lra.
assert (R3 : RN (T * n) <= k * ((1 + / 9007199254740992) * (1 + / 9007199254740992))) by nra.
split. nra. nra.
Qed.

(* upper bound:  T*U <= o(1+eps), k*o <= n*U  ==>  k - 1/20000 < RN(n / T) *)
Lemma J_ub_real : forall T n k o U : R,
  / 1073741824 <= T <= 1 -> 1 <= o -> 1 <= k -> k <= 1048575 -> 1 <= n -> n <= 1048575 ->
  1 <= U -> T * U <= o * (1 + eps) -> k * o <= n * U ->
  / B100 <= n / T <= B100 /\ 0 <= RN (n / T) <= B99 /\ k - / 20000 < RN (n / T).
Proof.
intros T n k o U HT Ho Hk1 Hk Hn1 Hn HU Hq Hko.
pose proof eps_val as He. unfold B100, B99.
assert (HT0 : 0 < T) by lra.
set (X := n / T).
assert (HX : X * T = n) by (apply div_mul; lra).
assert (HXb : 1 <= X <= 1048575 * 1073741824).
{ apply div_bounds; lra. }
assert (Hr : / B100 <= X) by (unfold B100; lra).
destruct (RN_pos_bounds _ Hr) as [R1 R2].
(* k T U <= k o (1+e) <= n U (1+e)  so  k T <= n (1+e) = X T (1+e) *)
assert (H1 : k * T * U <= n * (1 + eps) * U).
{ assert (k * (T * U) <= k * (o * (1 + eps))) by (apply Rmult_le_compat_l; lra).
  assert (0 <= eps) by (rewrite He; lra).
  nra. }
assert (H2 : k * T <= n * (1 + eps)) by (apply le_of_mul_r with U; lra).
assert (H3 : k * T <= X * (1 + eps) * T) by (rewrite <- HX in H2; lra).
assert (H4 : k <= X * (1 + eps)) by (apply le_of_mul_r with T; lra).
rewrite He in *.
split. lra.
split. nra.
assert (H5 : k * (1 - / 9007199254740992) <= X) by (clear - H4 HXb Hk1; nra).
assert (H6 : k * (1 - / 9007199254740992) * (1 - / 9007199254740992)
             <= X * (1 - / 9007199254740992)) by (apply Rmult_le_compat_r; lra).
clear - H6 R1 Hk Hk1. nra.
Qed.

(* overlap threshold: S = U + o, T*U <= o(1+eps)  ==>  RN(RN(T / RN(1+T)) * S) < o + 1/20000 *)
Lemma J_alpha_real : forall T o U : R,
  / 1073741824 <= T <= 1 -> 1 <= o -> o <= 1048575 -> o <= U -> U <= 2097150 ->
  T * U <= o * (1 + eps) ->
  let D := RN (1 + T) in
  let Y := T / D in
  let w := RN Y in
  let v := RN (w * (U + o)) in
  (/ B100 <= 1 + T <= B100) /\ 0 < D /\ (/ B100 <= Y <= B100) /\
  (/ B100 <= w * (U + o) <= B100) /\ 0 <= v <= B99 /\ v < o + / 20000.
Proof.
intros T o U HT Ho1 Ho HoU HU Hq D Y w v.
pose proof eps_val as He. unfold B100, B99.
assert (HD0 : / B100 <= 1 + T) by (unfold B100; lra).
destruct (RN_pos_bounds _ HD0) as [D1 D2]. fold D in D1, D2.
destruct (RN_pos_crude _ HD0) as [D3 D4]. fold D in D3, D4.
assert (HDpos : 0 < D) by lra.
clearbody D.
assert (HY : Y * D = T) by (apply div_mul; lra).
assert (HYb : / 1073741824 / 4 <= Y <= 2) by (apply div_bounds; lra).
clearbody Y.
assert (HY0 : / B100 <= Y) by (unfold B100; lra).
destruct (RN_pos_bounds _ HY0) as [W1 W2]. fold w in W1, W2.
destruct (RN_pos_crude _ HY0) as [W3 W4]. fold w in W3, W4.
clearbody w.
set (S := U + o) in *.
assert (HS : 2 <= S <= 3145725) by (unfold S; lra).
assert (HwS : / 1073741824 / 8 * 2 <= w * S <= 4 * 3145725).
{ apply mul_bounds; lra. }
assert (HwS0 : / B100 <= w * S) by (unfold B100; lra).
destruct (RN_pos_bounds _ HwS0) as [V1 V2]. fold v in V1, V2.
destruct (RN_pos_crude _ HwS0) as [V3 V4]. fold v in V3, V4.
clearbody v.
split. lra. split. lra. split. lra. split. lra. split. lra.
(* the inequality *)
assert (He0 : 0 < eps) by apply eps_pos.
assert (A1 : Y * ((1 + T) * (1 - eps)) <= T).
{ rewrite <- HY at 2. apply Rmult_le_compat_l; lra. }
assert (A2 : Y * S * (1 - eps) * (1 + T) <= o * (1 + eps) * (1 + T)).
{ assert (Y * ((1 + T) * (1 - eps)) * S <= T * S) by (apply Rmult_le_compat_r; lra).
  assert (T * S = T * U + T * o) by (unfold S; ring).
  assert (0 <= o * eps) by (apply Rmult_le_pos; lra).
  assert (T * o <= T * (o * (1 + eps))) by (apply Rmult_le_compat_l; lra).
  assert (T * (o * (1 + eps)) = o * (1 + eps) * T) by ring.
  assert (o * (1 + eps) * (1 + T) = o * (1 + eps) + o * (1 + eps) * T) by ring.
  assert (Y * S * (1 - eps) * (1 + T) = Y * ((1 + T) * (1 - eps)) * S) by ring.
  lra. }
assert (A3 : Y * S * (1 - eps) <= o * (1 + eps)) by (apply le_of_mul_r with (1 + T); lra).
assert (A4 : w * S <= Y * S * (1 + eps)) by nra.
assert (A5 : v <= Y * S * ((1 + eps) * (1 + eps))) by nra.
assert (A6 : v * (1 - eps) <= o * ((1 + eps) * (1 + eps) * (1 + eps))).
{ assert (0 <= (1 + eps) * (1 + eps)) by nra.
  assert (Y * S * (1 - eps) * ((1 + eps) * (1 + eps)) <= o * (1 + eps) * ((1 + eps) * (1 + eps)))
    by (apply Rmult_le_compat_r; lra).
  assert (v * (1 - eps) <= Y * S * ((1 + eps) * (1 + eps)) * (1 - eps))
    by (apply Rmult_le_compat_r; lra).
  lra. }
rewrite He in *.
assert (A7 : (1 + / 9007199254740992) * (1 + / 9007199254740992) * (1 + / 9007199254740992)
             <= 1 + 4 * / 9007199254740992) by nra.
assert (A8 : v * (1 - / 9007199254740992) <= o * (1 + 4 * / 9007199254740992)) by nra.
nra.
Qed.

(* ------------------------------------------------------------------ *)
(** * The generated formulas at "JACCARD"                              *)
Open Scope Z_scope.

Definition xlbJ (t : f64) (n : Z) : f64 := fmul t (f_of_Z n).
Definition xubJ (t : f64) (n : Z) : f64 := fdiv (f_of_Z n) t.
Definition xotJ (t : f64) (a b : Z) : f64 :=
  fmul (fdiv t (fadd (f_of_Z 1) t)) (f_of_Z (a + b)).

Lemma lbZ_J_eq : forall t n,
  lbZ "JACCARD" (PFloat t) n = toZ (py_int (py_ceil (PFloat (f_round_nd (xlbJ t n) 4)))).
Proof. reflexivity. Qed.

Lemma ubZ_J_eq : forall t n, f_is_zero t = false ->
  ubZ "JACCARD" (PFloat t) n = toZ (py_int (py_floor (PFloat (f_round_nd (xubJ t n) 4)))).
Proof.
intros t n H. unfold ubZ.
change (get_size_upper_bound (PInt n) (PStr "JACCARD") (PFloat t))
  with (py_int (py_floor (py_round2 (py_truediv (PInt n) (PFloat t)) (PInt 4)))).
now rewrite py_truediv_if.
Qed.

Lemma plZ_J_eq : forall t q n, 1 <= n ->
  plZ "JACCARD" (PFloat t) q n =
  toZ (py_int (py_add (py_sub (PInt n) (py_ceil (PFloat (f_round_nd (xlbJ t n) 4)))) (PInt 1))).
Proof. intros t q [|p|p] Hn; try lia. reflexivity. Qed.

Lemma otZ_J_eq : forall t q a b, f_is_zero (fadd (f_of_Z 1) t) = false ->
  otZ "JACCARD" (PFloat t) q a b = toZ (py_ceil (PFloat (f_round_nd (xotJ t a b) 4))).
Proof.
intros t q a b H. unfold otZ.
change (get_overlap_threshold (PInt a) (PInt b) (PStr "JACCARD") (PFloat t) (PInt q))
  with (py_ceil (py_round2 (py_mul (py_truediv (PFloat t) (PFloat (fadd (f_of_Z 1) t)))
                                   (PInt (a + b))) (PInt 4))).
now rewrite py_truediv_ff.
Qed.

(* real values of the pre-rounding expressions *)
Open Scope R_scope.

Lemma xlbJ_spec : forall t n, env_t t = true -> (1 <= n < 2^21)%Z ->
  fin (xlbJ t n) /\ FR (xlbJ t n) = RN (FR t * IZR n) /\
  / B100 <= FR t * IZR n /\ RN (FR t * IZR n) <= IZR n.
Proof.
intros t n Henv Hn. destruct (env_t_R t Henv) as [Ht HT].
destruct (f_of_size n) as [Hfn Hvn]. { lia. }
assert (Hn' : 1 <= IZR n <= 2097152).
{ split. apply IZR_le; lia. apply IZR_le. change (2^21)%Z with 2097152%Z in Hn. lia. }
assert (Hb : / 1073741824 * 1 <= FR t * IZR n <= 1 * 2097152) by (apply mul_bounds; lra).
unfold xlbJ.
destruct (fmul_pos t (f_of_Z n) Ht Hfn) as [H1 H2].
{ rewrite Hvn. unfold B100. lra. }
rewrite Hvn in H2. split; [exact H1 | split; [exact H2 | split]].
- unfold B100. lra.
- rewrite <- (RN_int n) at 2. 2: { change (2^53)%Z with 9007199254740992%Z. lia. }
  apply RN_le. assert (FR t * IZR n <= 1 * IZR n) by (apply Rmult_le_compat_r; lra). lra.
Qed.

Lemma lbZ_J_spec : forall t n k, env_t t = true -> (1 <= n < 2^21)%Z -> (Z.abs k <= 2^31)%Z ->
  RN (FR t * IZR n) < IZR k + / 20000 ->
  exists lb, lbZ "JACCARD" (PFloat t) n = Some lb /\ (0 <= lb <= k)%Z.
Proof.
intros t n k Henv Hn Hk Hv.
destruct (xlbJ_spec t n Henv Hn) as (Hf & Hx & Hlo & Hhi).
destruct (RN_pos_crude _ Hlo) as [C1 C2].
destruct (ceil_round4 (xlbJ t n) k Hf) as [F1 F2]; try assumption.
{ rewrite Hx. unfold B99, B100 in *.
  assert (IZR n <= 2097152). { apply IZR_le. change (2^21)%Z with 2097152%Z in Hn. lia. }
  lra. }
{ now rewrite Hx. }
exists (f_ceil (f_round_nd (xlbJ t n) 4)). split; [ | exact F2].
rewrite lbZ_J_eq. now apply toZ_int_ceil.
Qed.

Lemma plZ_J_spec : forall t q n k, env_t t = true -> (1 <= n < 2^21)%Z -> (Z.abs k <= 2^31)%Z ->
  RN (FR t * IZR n) < IZR k + / 20000 ->
  exists p, plZ "JACCARD" (PFloat t) q n = Some p /\ (n - k + 1 <= p <= n + 1)%Z.
Proof.
intros t q n k Henv Hn Hk Hv.
destruct (xlbJ_spec t n Henv Hn) as (Hf & Hx & Hlo & Hhi).
destruct (RN_pos_crude _ Hlo) as [C1 C2].
destruct (ceil_round4 (xlbJ t n) k Hf) as [F1 F2]; try assumption.
{ rewrite Hx. unfold B99, B100 in *.
  assert (IZR n <= 2097152). { apply IZR_le. change (2^21)%Z with 2097152%Z in Hn. lia. }
  lra. }
{ now rewrite Hx. }
exists (n - f_ceil (f_round_nd (xlbJ t n) 4) + 1)%Z. split; [ | lia].
rewrite plZ_J_eq by lia. now apply toZ_prefix.
Qed.

Lemma xubJ_spec : forall t n, env_t t = true -> (1 <= n < 2^21)%Z ->
  f_is_zero t = false /\
  fin (xubJ t n) /\ FR (xubJ t n) = RN (IZR n / FR t) /\
  / B100 <= IZR n / FR t <= 2251799813685248 /\ IZR n <= RN (IZR n / FR t).
Proof.
intros t n Henv Hn. destruct (env_t_R t Henv) as [Ht HT].
destruct (f_of_size n) as [Hfn Hvn]. { lia. }
assert (Hn' : 1 <= IZR n <= 2097152).
{ split. apply IZR_le; lia. apply IZR_le. change (2^21)%Z with 2097152%Z in Hn. lia. }
assert (HT0 : 0 < FR t) by lra.
assert (Hb : IZR n <= IZR n / FR t <= 2251799813685248).
{ apply div_bounds. lra. split.
  - assert (IZR n * FR t <= IZR n * 1) by (apply Rmult_le_compat_l; lra). lra.
  - assert (2251799813685248 * / 1073741824 <= 2251799813685248 * FR t)
      by (apply Rmult_le_compat_l; lra). lra. }
split. { apply fin_pos_nz; assumption. }
unfold xubJ.
destruct (fdiv_pos (f_of_Z n) t Hfn Ht HT0) as [H1 H2].
{ rewrite Hvn. unfold B100. lra. }
rewrite Hvn in H2. split; [exact H1 | split; [exact H2 | split; [split | ]]].
- unfold B100. lra.
- lra.
- rewrite <- (RN_int n) at 1. 2: { change (2^53)%Z with 9007199254740992%Z. lia. }
  apply RN_le. lra.
Qed.

Lemma ubZ_J_spec : forall t n k, env_t t = true -> (1 <= n < 2^21)%Z -> (Z.abs k <= 2^31)%Z ->
  IZR k - / 20000 < RN (IZR n / FR t) ->
  exists ub, ubZ "JACCARD" (PFloat t) n = Some ub /\ (k <= ub)%Z.
Proof.
intros t n k Henv Hn Hk Hv.
destruct (xubJ_spec t n Henv Hn) as (Hz & Hf & Hx & [Hlo Hhi] & Hge).
destruct (RN_pos_crude _ Hlo) as [C1 C2].
destruct (floor_round4 (xubJ t n) k Hf) as [F1 F2]; try assumption.
{ rewrite Hx. unfold B99, B100 in *. lra. }
{ now rewrite Hx. }
exists (f_floor (f_round_nd (xubJ t n) 4)). split; [ | exact F2].
rewrite ubZ_J_eq by exact Hz. now apply toZ_int_floor.
Qed.

(* what qualification means for the threshold: t * |x ∪ y| <= o (1+eps) *)
Lemma qual_J : forall t a b o, env_t t = true -> sizes_ok a b o ->
  qual_ge "JACCARD" t a b o = true ->
  FR t * IZR (a + b - o) <= IZR o * (1 + eps).
Proof.
intros t a b o Henv Hs Hq.
destruct (env_t_R t Henv) as [Ht HT].
destruct (sizes_R a b o Hs) as (Ho & Hoa & Hob & Ha & Hb & HU & _).
pose proof eps_pos as He.
unfold qual_ge in Hq. apply andb_prop in Hq. destruct Hq as [Hq _].
unfold sim_sizes in Hq.
destruct ((o =? a)%Z && (o =? b)%Z) eqn:E.
- apply andb_prop in E. destruct E as [E1 E2].
  apply Z.eqb_eq in E1. apply Z.eqb_eq in E2. subst a b.
  replace (o + o - o)%Z with o by lia.
  assert (FR t * IZR o <= 1 * IZR o) by (apply Rmult_le_compat_r; lra).
  assert (0 <= IZR o * eps) by (apply Rmult_le_pos; lra).
  lra.
- change (sim_formula "JACCARD" a b o) with (fdiv (f_of_Z o) (f_of_Z (a + b - o))) in Hq.
  destruct Hs as (S1 & S2 & S3 & S4 & S5). unfold size_bound in *.
  destruct (f_of_size o) as [Hfo Hvo]. { lia. }
  destruct (f_of_size (a + b - o)) as [HfU HvU]. { lia. }
  set (U := IZR (a + b - o)) in *.
  assert (HUb : IZR o <= U <= 2097150) by lra.
  assert (HU0 : 0 < U) by lra.
  assert (Hqb : / 2097150 <= IZR o / U <= 1) by (apply div_bounds; lra).
  destruct (fdiv_pos (f_of_Z o) (f_of_Z (a + b - o)) Hfo HfU) as [H1 H2].
  { rewrite HvU. exact HU0. }
  { rewrite Hvo, HvU. unfold B100. lra. }
  rewrite Hvo, HvU in H2.
  apply fleb_true in Hq; [ | assumption..].
  rewrite H2 in Hq.
  assert (Hlo : / B100 <= IZR o / U) by (unfold B100; lra).
  destruct (RN_pos_bounds _ Hlo) as [_ R2].
  assert (FR t * U <= IZR o / U * (1 + eps) * U) by (apply Rmult_le_compat_r; lra).
  replace (IZR o / U * (1 + eps) * U) with (IZR o / U * U * (1 + eps)) in H by ring.
  rewrite div_mul in H by exact HU0. exact H.
Qed.

Lemma otZ_J_spec : forall t q a b o, env_t t = true -> sizes_ok a b o ->
  FR t * IZR (a + b - o) <= IZR o * (1 + eps) ->
  exists al, otZ "JACCARD" (PFloat t) q a b = Some al /\ (al <= o)%Z.
Proof.
intros t q a b o Henv Hs Hq.
destruct (env_t_R t Henv) as [Ht HT].
destruct (sizes_R a b o Hs) as (Ho & Hoa & Hob & Ha & Hb & HU & HS).
destruct Hs as (S1 & S2 & S3 & S4 & S5). unfold size_bound in *.
destruct (f_of_size 1) as [Hf1 Hv1]. { lia. }
destruct (f_of_size (a + b)) as [HfS HvS]. { lia. }
set (U := IZR (a + b - o)) in *.
destruct (J_alpha_real (FR t) (IZR o) U) as (B1 & B2 & B3 & B4 & B5 & B6); try lra.
cbv zeta in *.
destruct (fadd_pos (f_of_Z 1) t Hf1 Ht) as [D1 D2]. { now rewrite Hv1. }
rewrite Hv1 in D2.
destruct (fdiv_pos t (fadd (f_of_Z 1) t) Ht D1) as [W1 W2]; rewrite ?D2; try assumption.
rewrite D2 in W2.
assert (HSU : IZR (a + b) = U + IZR o) by lra.
destruct (fmul_pos (fdiv t (fadd (f_of_Z 1) t)) (f_of_Z (a + b)) W1 HfS) as [V1 V2].
{ rewrite W2, HvS, HSU. exact B4. }
rewrite W2, HvS, HSU in V2.
fold (xotJ t a b) in V1, V2.
destruct (ceil_round4 (xotJ t a b) o V1) as [F1 F2]; rewrite ?V2; try assumption.
{ change (2^31)%Z with 2147483648%Z. change (2^20)%Z with 1048576%Z in *. lia. }
exists (f_ceil (f_round_nd (xotJ t a b) 4)). split; [ | lia].
rewrite otZ_J_eq.
- now apply toZ_ceil.
- apply fin_pos_nz. exact D1. rewrite D2. exact B2.
Qed.

(* ------------------------------------------------------------------ *)
(** * The theorems                                                     *)

Theorem F1_J : F1_stmt "JACCARD".
Proof.
intros t a b o Henv Hs Hq.
pose proof (qual_J t a b o Henv Hs Hq) as HQ.
destruct (env_t_R t Henv) as [Ht HT].
destruct (sizes_R a b o Hs) as (Ho & Hoa & Hob & Ha & Hb & HU & _).
pose proof Hs as (S1 & S2 & S3 & S4 & S5).
set (U := IZR (a + b - o)) in *.
assert (Ha21 : (1 <= a < 2^21)%Z) by (apply size_21; lia).
assert (Hb21 : (1 <= b < 2^21)%Z) by (apply size_21; lia).
assert (Ha31 : (Z.abs a <= 2^31)%Z) by (apply abs_31; lia).
assert (Hb31 : (Z.abs b <= 2^31)%Z) by (apply abs_31; lia).
(* lb for b against a *)
destruct (J_lb_real (FR t) (IZR b) (IZR a) (IZR o) U) as (_ & _ & L1); try lra.
destruct (lbZ_J_spec t b a Henv Hb21 Ha31 L1) as (lb & E1 & R1).
(* ub for b against a *)
assert (P1 : IZR a * IZR o <= IZR b * U).
{ assert (0 <= (IZR b - IZR o) * IZR a) by (apply Rmult_le_pos; lra).
  assert (0 <= (IZR b - IZR o) * IZR b) by (apply Rmult_le_pos; lra).
  rewrite HU. lra. }
destruct (J_ub_real (FR t) (IZR b) (IZR a) (IZR o) U) as (_ & _ & L2); try lra.
destruct (ubZ_J_spec t b a Henv Hb21 Ha31 L2) as (ub & E2 & R2).
(* lb for a against b *)
destruct (J_lb_real (FR t) (IZR a) (IZR b) (IZR o) U) as (_ & _ & L3); try lra.
destruct (lbZ_J_spec t a b Henv Ha21 Hb31 L3) as (lb' & E3 & R3).
(* ub for a against b *)
assert (P2 : IZR b * IZR o <= IZR a * U).
{ assert (0 <= (IZR a - IZR o) * IZR a) by (apply Rmult_le_pos; lra).
  assert (0 <= (IZR a - IZR o) * IZR b) by (apply Rmult_le_pos; lra).
  rewrite HU. lra. }
destruct (J_ub_real (FR t) (IZR a) (IZR b) (IZR o) U) as (_ & _ & L4); try lra.
destruct (ubZ_J_spec t a b Henv Ha21 Hb31 L4) as (ub' & E4 & R4).
exists lb, ub, lb', ub'. repeat split; try assumption; lia.
Qed.
Print Assumptions F1_J.

Theorem F2_J : F2_stmt "JACCARD".
Proof.
intros t q a b o Henv Hs Hq.
pose proof (qual_J t a b o Henv Hs Hq) as HQ.
destruct (otZ_J_spec t q a b o Henv Hs HQ) as (al & E1 & R1).
assert (HQ' : FR t * IZR (b + a - o) <= IZR o * (1 + eps)).
{ replace (b + a - o)%Z with (a + b - o)%Z by lia. exact HQ. }
destruct (otZ_J_spec t q b a o Henv (sizes_ok_sym _ _ _ Hs) HQ') as (al' & E2 & R2).
exists al, al'. repeat split; assumption.
Qed.
Print Assumptions F2_J.

Theorem F3_J : F3_stmt "JACCARD".
Proof.
intros t q a b o Henv Hs Hq.
pose proof (qual_J t a b o Henv Hs Hq) as HQ.
destruct (env_t_R t Henv) as [Ht HT].
destruct (sizes_R a b o Hs) as (Ho & Hoa & Hob & Ha & Hb & HU & _).
pose proof Hs as (S1 & S2 & S3 & S4 & S5).
set (U := IZR (a + b - o)) in *.
assert (Ha21 : (1 <= a < 2^21)%Z) by (apply size_21; lia).
assert (Hb21 : (1 <= b < 2^21)%Z) by (apply size_21; lia).
assert (Ho31 : (Z.abs o <= 2^31)%Z) by (apply abs_31; lia).
destruct (J_lb_real (FR t) (IZR a) (IZR o) (IZR o) U) as (_ & _ & L1); try lra.
destruct (plZ_J_spec t q a o Henv Ha21 Ho31 L1) as (pa & E1 & R1).
destruct (J_lb_real (FR t) (IZR b) (IZR o) (IZR o) U) as (_ & _ & L2); try lra.
destruct (plZ_J_spec t q b o Henv Hb21 Ho31 L2) as (pb & E2 & R2).
exists pa, pb. repeat split; try assumption; lia.
Qed.
Print Assumptions F3_J.

Theorem F5_J : F5_stmt "JACCARD".
Proof.
intros t q n Henv Hn.
assert (Hn21 : (1 <= n < 2^21)%Z) by (apply size_21; lia).
assert (Hn31 : (Z.abs n <= 2^31)%Z) by (apply abs_31; lia).
destruct (xlbJ_spec t n Henv Hn21) as (_ & _ & _ & L1).
assert (L1' : RN (FR t * IZR n) < IZR n + / 20000) by lra.
destruct (lbZ_J_spec t n n Henv Hn21 Hn31 L1') as (lb & E1 & R1).
destruct (plZ_J_spec t q n n Henv Hn21 Hn31 L1') as (p & E3 & R3).
destruct (xubJ_spec t n Henv Hn21) as (_ & _ & _ & _ & L2).
assert (L2' : IZR n - / 20000 < RN (IZR n / FR t)) by lra.
destruct (ubZ_J_spec t n n Henv Hn21 Hn31 L2') as (ub & E2 & R2).
exists lb, ub, p. repeat split; try assumption; lia.
Qed.
Print Assumptions F5_J.
