(* The per-chunk cores of Model/Joins.v as nested loops over a PAIR function (`loop2`), with
   the resulting membership / definedness / at-most-once characterisations and the keyed,
   row-permutation-invariant form (C10).  Generic in the arithmetic of the pair functions.
   Pure list reasoning, axiom-free.                                                        *)
From Coq Require Import ZArith Bool List String Lia Permutation SpecFloat.
From SSJ Require Import F64 PyNum TokenOrdering Measures Filters Suffix Lev Joins
                        OrderingFacts CoreLiftBase.
Import ListNotations.
Open Scope string_scope.
Open Scope Z_scope.

(* ------------------------------------------------------------------ the pair functions *)
(* set_sim_join on one pair of ordered rows, including the allow_empty branch *)
Definition ssj_pair_e (p : fparams) (op : string) (ae : bool) (x y : list Z) : option (list pyval) :=
  if ae && (len y =? 0) then Some (if len x =? 0 then [PFloat f_one] else [])
  else ssj_pair p op x y.

Definition ft_handle_empty (p : fparams) (ae : bool) : bool :=
  ae && negb (String.eqb (fm p) "OVERLAP") && negb (String.eqb (fm p) "EDIT_DISTANCE").

Definition ft_pair (k : fkind) (p : fparams) (ae : bool) (x y : list Z) : option (list pyval) :=
  if ft_handle_empty p ae && (len y =? 0) then Some (if len x =? 0 then [PNone] else [])
  else option_map (fun b : bool => if b then [PNone] else []) (filter_cand k p x y).

Definition ovl_pair (op : string) (size : pyval) (x y : list Z) : list pyval :=
  let o := overlap_count x y in
  if (0 <? o) && cmp_op op (PInt o) size then [PInt o] else [].

Definition ovc_score (x y : list Z) : pyval :=
  py_truediv (py_float (PInt (overlap_count x y)))
             (py_float (py_min (PInt (len y)) (PInt (len x)))).

Definition ovc_pair (t : pyval) (op : string) (ae : bool) (x y : list Z) : list pyval :=
  if ae && (len y =? 0) then (if len x =? 0 then [PFloat f_one] else [])
  else if 0 <? overlap_count x y
       then (if cmp_op op (ovc_score x y) t then [ovc_score x y] else [])
       else [].

Definition ed_params (q tau : Z) : fparams := {| fm := "EDIT_DISTANCE"; ft := PInt tau; fq := q |}.

Definition ed_dist_of (xs ys : list Z) : pyval :=
  if list_eqbZ xs ys then PFloat (S754_zero false) else PInt (lev xs ys).

(* rows are (code points, ordered q-gram bag) *)
Definition ed_pair (q tau : Z) (op : string) (x y : list Z * list Z) : option (list pyval) :=
  match prefix_cand (ed_params q tau) (snd x) (snd y) with
  | None => None
  | Some false => Some []
  | Some true =>
      if (len (fst y) - tau <=? len (fst x)) && (len (fst x) <=? len (fst y) + tau)
      then (if cmp_op op (ed_dist_of (fst x) (fst y)) (PInt tau)
            then Some [ed_dist_of (fst x) (fst y)] else Some [])
      else Some []
  end.

(* ------------------------------------------------------------------ total pair functions *)
Lemma loop2_total {X Y} (f : X -> Y -> list pyval) L R :
  loop2 (fun x y => Some (f x y)) L R =
  Some (flat_map (fun jy : nat * Y =>
          flat_map (fun cx : nat * X => map (fun s => (fst cx, fst jy, s)) (f (snd cx) (snd jy)))
                   (enumerate L)) (enumerate R)).
Proof.
  unfold loop2, row_loop. cbn [option_map].
  rewrite <- opt_concat_map_Some. f_equal. apply map_ext. intros jy.
  apply opt_concat_map_Some.
Qed.

Lemma map_if_single {A B} (g : A -> B) (b : bool) (v : A) :
  map g (if b then [v] else []) = if b then [g v] else [].
Proof. destruct b; reflexivity. Qed.

(* ------------------------------------------------------------------ the cores as loop2 *)
Theorem ssj_core_loop : forall p op ae L R,
  set_sim_join_core p op ae L R =
  loop2 (ssj_pair_e p op ae) (map (order (List.concat L ++ List.concat R)) L)
                             (map (order (List.concat L ++ List.concat R)) R).
Proof.
  intros p op ae L R. unfold set_sim_join_core, loop2. cbv zeta.
  rewrite (enumerate_map _ R), map_map. f_equal. apply map_ext. intros [j yraw].
  cbn [fst snd]. unfold row_loop, ssj_pair_e.
  destruct (ae && (len (order (List.concat L ++ List.concat R) yraw) =? 0)); [|reflexivity].
  cbn [option_map]. rewrite opt_concat_map_Some. f_equal. apply flat_map_ext.
  intros cx. rewrite map_if_single. reflexivity.
Qed.

Theorem ft_core_loop : forall k p ae L R,
  filter_tables_core k p ae L R =
  loop2 (ft_pair k p ae) (map (order (List.concat L ++ List.concat R)) L)
                         (map (order (List.concat L ++ List.concat R)) R).
Proof.
  intros k p ae L R. unfold filter_tables_core, loop2. cbv zeta.
  rewrite (enumerate_map _ R), map_map. f_equal. apply map_ext. intros [j yraw].
  cbn [fst snd]. unfold row_loop, ft_pair. fold (ft_handle_empty p ae).
  destruct (ft_handle_empty p ae && (len (order (List.concat L ++ List.concat R) yraw) =? 0)).
  - cbn [option_map]. rewrite opt_concat_map_Some. f_equal. apply flat_map_ext.
    intros cx. rewrite map_if_single. reflexivity.
  - f_equal. apply map_ext. intros cx.
    destruct (filter_cand k p (snd cx) (order (List.concat L ++ List.concat R) yraw)) as [[|]|]; reflexivity.
Qed.

Theorem ovl_core_loop : forall op size L R,
  overlap_tables_core op size L R = loop2 (fun x y => Some (ovl_pair op size x y)) L R.
Proof.
  intros op size L R. rewrite loop2_total. unfold overlap_tables_core. f_equal.
  apply flat_map_ext. intros [j y]. apply flat_map_ext. intros cx. cbn [fst snd].
  unfold ovl_pair. cbv zeta. rewrite map_if_single. reflexivity.
Qed.

Theorem ovc_core_loop : forall t op ae L R,
  ovc_core t op ae L R = loop2 (fun x y => Some (ovc_pair t op ae x y)) L R.
Proof.
  intros t op ae L R. rewrite loop2_total. unfold ovc_core. f_equal.
  apply flat_map_ext. intros [j y]. cbn [fst snd]. unfold ovc_pair.
  destruct (ae && (len y =? 0)).
  - apply flat_map_ext. intros cx. rewrite map_if_single. reflexivity.
  - apply flat_map_ext. intros cx. cbv zeta. fold (ovc_score (snd cx) y).
    destruct (0 <? overlap_count (snd cx) y); [|reflexivity].
    rewrite map_if_single. reflexivity.
Qed.

Definition ed_row (all : list Z) (r : list Z * list Z) : list Z * list Z :=
  (fst r, order all (snd r)).

Theorem ed_core_loop : forall q tau op L R,
  ed_core q tau op L R =
  loop2 (ed_pair q tau op)
        (map (ed_row (List.concat (map snd L) ++ List.concat (map snd R))) L)
        (map (ed_row (List.concat (map snd L) ++ List.concat (map snd R))) R).
Proof.
  intros q tau op L R. unfold ed_core, loop2. cbv zeta.
  rewrite (enumerate_map _ R), map_map. f_equal. apply map_ext. intros [j yr].
  cbn [fst snd]. unfold row_loop. f_equal. apply map_ext. intros [c x].
  unfold ed_pair, ed_row. cbn [fst snd]. fold (ed_params q tau).
  destruct (prefix_cand (ed_params q tau) (snd x)
              (order (List.concat (map snd L) ++ List.concat (map snd R)) (snd yr))) as [[|]|];
    [|reflexivity|reflexivity].
  fold (ed_dist_of (fst x) (fst yr)).
  destruct ((len (fst yr) - tau <=? len (fst x)) && (len (fst x) <=? len (fst yr) + tau));
    [|reflexivity].
  destruct (cmp_op op (ed_dist_of (fst x) (fst yr)) (PInt tau)); reflexivity.
Qed.

(* ------------------------------------------------------------------ at most one score *)
Lemma if_single_len {A} (b : bool) (v : A) : (List.length (if b then [v] else []) <= 1)%nat.
Proof. destruct b; simpl; lia. Qed.

Lemma ssj_pair_len p op x y l : ssj_pair p op x y = Some l -> (List.length l <= 1)%nat.
Proof.
  unfold ssj_pair. destruct (pos_cand p x y) as [v|]; [|discriminate].
  destruct (0 <? v); [|intros H; injection H as <-; simpl; lia].
  destruct (cmp_op op _ (ft p)); intros H; injection H as <-; simpl; lia.
Qed.

Lemma ssj_pair_e_len p op ae x y l : ssj_pair_e p op ae x y = Some l -> (List.length l <= 1)%nat.
Proof.
  unfold ssj_pair_e. destruct (ae && (len y =? 0)); [|apply ssj_pair_len].
  intros H; injection H as <-. apply if_single_len.
Qed.

Lemma ft_pair_len k p ae x y l : ft_pair k p ae x y = Some l -> (List.length l <= 1)%nat.
Proof.
  unfold ft_pair. destruct (ft_handle_empty p ae && (len y =? 0)).
  - intros H; injection H as <-. apply if_single_len.
  - destruct (filter_cand k p x y) as [b|]; [|discriminate].
    intros H; injection H as <-. apply if_single_len.
Qed.

Lemma ovl_pair_len op size x y : (List.length (ovl_pair op size x y) <= 1)%nat.
Proof. unfold ovl_pair. cbv zeta. apply if_single_len. Qed.

Lemma ovc_pair_len t op ae x y : (List.length (ovc_pair t op ae x y) <= 1)%nat.
Proof.
  unfold ovc_pair. destruct (ae && (len y =? 0)); [apply if_single_len|].
  destruct (0 <? overlap_count x y); [apply if_single_len|simpl; lia].
Qed.

Lemma ed_pair_len q tau op x y l : ed_pair q tau op x y = Some l -> (List.length l <= 1)%nat.
Proof.
  unfold ed_pair. destruct (prefix_cand _ _ _) as [[|]|]; [| |discriminate].
  - destruct (_ && _); [destruct (cmp_op _ _ _)|]; intros H; injection H as <-; simpl; lia.
  - intros H; injection H as <-; simpl; lia.
Qed.

(* ------------------------------------------------------------------ membership *)
Lemma nth_error_map_Some {A B} (f : A -> B) l n b :
  nth_error (map f l) n = Some b <-> exists a, nth_error l n = Some a /\ b = f a.
Proof.
  rewrite nth_error_map. destruct (nth_error l n) as [a|]; simpl.
  - split; [intros H; injection H as <-; exists a; auto| intros [a' [H ->]]; congruence].
  - split; [discriminate| intros [a' [H _]]; discriminate].
Qed.

Lemma In_if_single {A} (b : bool) (v s : A) : In s (if b then [v] else []) <-> b = true /\ s = v.
Proof. destruct b; simpl; intuition congruence. Qed.

Theorem set_sim_join_core_In : forall p op ae L R res,
  set_sim_join_core p op ae L R = Some res ->
  forall c j s, In (c, j, s) res <->
    exists xraw yraw, nth_error L c = Some xraw /\ nth_error R j = Some yraw /\
      let all := (List.concat L ++ List.concat R)%list in
      let x := order all xraw in let y := order all yraw in
      if ae && (len y =? 0) then len x = 0 /\ s = PFloat f_one
      else exists l, ssj_pair p op x y = Some l /\ In s l.
Proof.
  intros p op ae L R res H c j s. rewrite ssj_core_loop in H. rewrite (loop2_In _ _ _ _ H).
  cbv zeta. split.
  - intros [x [y [l [Hx [Hy [Epf Hs]]]]]].
    apply nth_error_map_Some in Hx. destruct Hx as [xraw [Hx ->]].
    apply nth_error_map_Some in Hy. destruct Hy as [yraw [Hy ->]].
    exists xraw, yraw. split; [exact Hx|]. split; [exact Hy|]. unfold ssj_pair_e in Epf.
    destruct (ae && (len (order (List.concat L ++ List.concat R) yraw) =? 0)).
    + injection Epf as <-. apply In_if_single in Hs. rewrite Z.eqb_eq in Hs. exact Hs.
    + exists l. auto.
  - intros [xraw [yraw [Hx [Hy Hc]]]].
    exists (order (List.concat L ++ List.concat R) xraw), (order (List.concat L ++ List.concat R) yraw).
    unfold ssj_pair_e.
    destruct (ae && (len (order (List.concat L ++ List.concat R) yraw) =? 0)).
    + eexists. split; [apply nth_error_map_Some; eauto|]. split; [apply nth_error_map_Some; eauto|].
      split; [reflexivity|]. apply In_if_single. rewrite Z.eqb_eq. exact Hc.
    + destruct Hc as [l [Epf Hs]]. exists l.
      split; [apply nth_error_map_Some; eauto|]. split; [apply nth_error_map_Some; eauto|]. auto.
Qed.

Theorem filter_tables_core_In : forall k p ae L R res,
  filter_tables_core k p ae L R = Some res ->
  forall c j s, In (c, j, s) res <->
    exists xraw yraw, nth_error L c = Some xraw /\ nth_error R j = Some yraw /\ s = PNone /\
      let all := (List.concat L ++ List.concat R)%list in
      let x := order all xraw in let y := order all yraw in
      if ft_handle_empty p ae && (len y =? 0) then len x = 0
      else filter_cand k p x y = Some true.
Proof.
  intros k p ae L R res H c j s. rewrite ft_core_loop in H. rewrite (loop2_In _ _ _ _ H).
  cbv zeta. split.
  - intros [x [y [l [Hx [Hy [Epf Hs]]]]]].
    apply nth_error_map_Some in Hx. destruct Hx as [xraw [Hx ->]].
    apply nth_error_map_Some in Hy. destruct Hy as [yraw [Hy ->]].
    exists xraw, yraw. split; [exact Hx|]. split; [exact Hy|]. unfold ft_pair in Epf.
    destruct (ft_handle_empty p ae && (len (order (List.concat L ++ List.concat R) yraw) =? 0)).
    + injection Epf as <-. apply In_if_single in Hs. rewrite Z.eqb_eq in Hs. tauto.
    + destruct (filter_cand k p _ _) as [b|]; [|discriminate]. simpl in Epf. injection Epf as <-.
      apply In_if_single in Hs. destruct Hs as [-> ->]. auto.
  - intros [xraw [yraw [Hx [Hy [-> Hc]]]]].
    exists (order (List.concat L ++ List.concat R) xraw), (order (List.concat L ++ List.concat R) yraw).
    unfold ft_pair.
    destruct (ft_handle_empty p ae && (len (order (List.concat L ++ List.concat R) yraw) =? 0)).
    + eexists. split; [apply nth_error_map_Some; eauto|]. split; [apply nth_error_map_Some; eauto|].
      split; [reflexivity|]. apply In_if_single. rewrite Z.eqb_eq. auto.
    + rewrite Hc. exists [PNone].
      split; [apply nth_error_map_Some; eauto|]. split; [apply nth_error_map_Some; eauto|].
      simpl. auto.
Qed.

Theorem overlap_tables_core_In : forall op size L R res,
  overlap_tables_core op size L R = Some res ->
  forall c j s, In (c, j, s) res <->
    exists x y, nth_error L c = Some x /\ nth_error R j = Some y /\ In s (ovl_pair op size x y).
Proof.
  intros op size L R res H c j s. rewrite ovl_core_loop in H. rewrite (loop2_In _ _ _ _ H). split.
  - intros [x [y [l [Hx [Hy [E Hs]]]]]]. injection E as <-. exists x, y. auto.
  - intros [x [y [Hx [Hy Hs]]]]. exists x, y, (ovl_pair op size x y). auto.
Qed.

Theorem ovc_core_In : forall t op ae L R res,
  ovc_core t op ae L R = Some res ->
  forall c j s, In (c, j, s) res <->
    exists x y, nth_error L c = Some x /\ nth_error R j = Some y /\ In s (ovc_pair t op ae x y).
Proof.
  intros t op ae L R res H c j s. rewrite ovc_core_loop in H. rewrite (loop2_In _ _ _ _ H). split.
  - intros [x [y [l [Hx [Hy [E Hs]]]]]]. injection E as <-. exists x, y. auto.
  - intros [x [y [Hx [Hy Hs]]]]. exists x, y, (ovc_pair t op ae x y). auto.
Qed.

Theorem ed_core_In : forall q tau op L R res,
  ed_core q tau op L R = Some res ->
  forall c j s, In (c, j, s) res <->
    exists xr yr l, nth_error L c = Some xr /\ nth_error R j = Some yr /\
      let all := (List.concat (map snd L) ++ List.concat (map snd R))%list in
      ed_pair q tau op (ed_row all xr) (ed_row all yr) = Some l /\ In s l.
Proof.
  intros q tau op L R res H c j s. rewrite ed_core_loop in H. rewrite (loop2_In _ _ _ _ H).
  cbv zeta. split.
  - intros [x [y [l [Hx [Hy [Epf Hs]]]]]].
    apply nth_error_map_Some in Hx. destruct Hx as [xr [Hx ->]].
    apply nth_error_map_Some in Hy. destruct Hy as [yr [Hy ->]].
    exists xr, yr, l. auto.
  - intros [xr [yr [l [Hx [Hy [Epf Hs]]]]]]. eexists. eexists. exists l.
    split; [apply nth_error_map_Some; eauto|]. split; [apply nth_error_map_Some; eauto|]. auto.
Qed.

(* ------------------------------------------------------------------ definedness *)
Theorem set_sim_join_core_None : forall p op ae L R,
  set_sim_join_core p op ae L R = None <->
  exists xraw yraw, In xraw L /\ In yraw R /\
    let all := (List.concat L ++ List.concat R)%list in
    ae && (len (order all yraw) =? 0) = false /\
    ssj_pair p op (order all xraw) (order all yraw) = None.
Proof.
  intros p op ae L R. rewrite ssj_core_loop, loop2_None_iff. cbv zeta. split.
  - intros [x [y [Hx [Hy E]]]]. apply in_map_iff in Hx. destruct Hx as [xraw [<- Hx]].
    apply in_map_iff in Hy. destruct Hy as [yraw [<- Hy]]. exists xraw, yraw.
    unfold ssj_pair_e in E. destruct (ae && _); [discriminate|]. auto.
  - intros [xraw [yraw [Hx [Hy [Hb E]]]]]. eexists. eexists.
    split; [apply in_map; exact Hx|]. split; [apply in_map; exact Hy|].
    unfold ssj_pair_e. rewrite Hb. exact E.
Qed.

Corollary set_sim_join_core_Some : forall p op ae L R,
  (forall xraw yraw, In xraw L -> In yraw R ->
     ssj_pair p op (order (List.concat L ++ List.concat R) xraw) (order (List.concat L ++ List.concat R) yraw) <> None) ->
  exists res, set_sim_join_core p op ae L R = Some res.
Proof.
  intros p op ae L R H. destruct (set_sim_join_core p op ae L R) as [res|] eqn:E; [eauto|].
  apply set_sim_join_core_None in E. destruct E as [x [y [Hx [Hy [_ E]]]]].
  destruct (H x y Hx Hy E).
Qed.

Theorem filter_tables_core_None : forall k p ae L R,
  filter_tables_core k p ae L R = None <->
  exists xraw yraw, In xraw L /\ In yraw R /\
    let all := (List.concat L ++ List.concat R)%list in
    ft_handle_empty p ae && (len (order all yraw) =? 0) = false /\
    filter_cand k p (order all xraw) (order all yraw) = None.
Proof.
  intros k p ae L R. rewrite ft_core_loop, loop2_None_iff. cbv zeta. split.
  - intros [x [y [Hx [Hy E]]]]. apply in_map_iff in Hx. destruct Hx as [xraw [<- Hx]].
    apply in_map_iff in Hy. destruct Hy as [yraw [<- Hy]]. exists xraw, yraw.
    unfold ft_pair in E. destruct (ft_handle_empty p ae && _); [discriminate|].
    destruct (filter_cand k p _ _); [discriminate|]. auto.
  - intros [xraw [yraw [Hx [Hy [Hb E]]]]]. eexists. eexists.
    split; [apply in_map; exact Hx|]. split; [apply in_map; exact Hy|].
    unfold ft_pair. rewrite Hb, E. reflexivity.
Qed.

Theorem ed_core_None : forall q tau op L R,
  ed_core q tau op L R = None <->
  exists xr yr, In xr L /\ In yr R /\
    let all := (List.concat (map snd L) ++ List.concat (map snd R))%list in
    prefix_cand (ed_params q tau) (order all (snd xr)) (order all (snd yr)) = None.
Proof.
  intros q tau op L R. rewrite ed_core_loop, loop2_None_iff. cbv zeta. split.
  - intros [x [y [Hx [Hy E]]]]. apply in_map_iff in Hx. destruct Hx as [xr [<- Hx]].
    apply in_map_iff in Hy. destruct Hy as [yr [<- Hy]]. exists xr, yr.
    unfold ed_pair, ed_row in E. cbn [fst snd] in E.
    destruct (prefix_cand _ _ _) as [[|]|]; [| discriminate | auto].
    destruct (_ && _); [destruct (cmp_op _ _ _)|]; discriminate.
  - intros [xr [yr [Hx [Hy E]]]]. eexists. eexists.
    split; [apply in_map; exact Hx|]. split; [apply in_map; exact Hy|].
    unfold ed_pair, ed_row. cbn [fst snd]. rewrite E. reflexivity.
Qed.

Theorem overlap_tables_core_total : forall op size L R, overlap_tables_core op size L R <> None.
Proof. intros. unfold overlap_tables_core. discriminate. Qed.
Theorem ovc_core_total : forall t op ae L R, ovc_core t op ae L R <> None.
Proof. intros. unfold ovc_core. discriminate. Qed.

(* ------------------------------------------------------------------ each position pair once *)
Theorem set_sim_join_core_once : forall p op ae L R res,
  set_sim_join_core p op ae L R = Some res -> NoDup (map fst res).
Proof.
  intros p op ae L R res H. rewrite ssj_core_loop in H. apply (loop2_once _ _ _ _ (fun x y l _ _ => ssj_pair_e_len p op ae x y l) H).
Qed.

Theorem filter_tables_core_once : forall k p ae L R res,
  filter_tables_core k p ae L R = Some res -> NoDup (map fst res).
Proof.
  intros k p ae L R res H. rewrite ft_core_loop in H.
  apply (loop2_once _ _ _ _ (fun x y l _ _ => ft_pair_len k p ae x y l) H).
Qed.

Theorem overlap_tables_core_once : forall op size L R res,
  overlap_tables_core op size L R = Some res -> NoDup (map fst res).
Proof.
  intros op size L R res H. rewrite ovl_core_loop in H. apply (loop2_once _ _ _ _ ) in H; [exact H|].
  intros x y l _ _ E. injection E as <-. apply ovl_pair_len.
Qed.

Theorem ovc_core_once : forall t op ae L R res,
  ovc_core t op ae L R = Some res -> NoDup (map fst res).
Proof.
  intros t op ae L R res H. rewrite ovc_core_loop in H. apply (loop2_once _ _ _ _ ) in H; [exact H|].
  intros x y l _ _ E. injection E as <-. apply ovc_pair_len.
Qed.

Theorem ed_core_once : forall q tau op L R res,
  ed_core q tau op L R = Some res -> NoDup (map fst res).
Proof.
  intros q tau op L R res H. rewrite ed_core_loop in H.
  apply (loop2_once _ _ _ _ (fun x y l _ _ => ed_pair_len q tau op x y l) H).
Qed.

(* ------------------------------------------------------------------ keyed form and C10 *)
(* A core that orders its rows with the global token order of both tables. *)
Section AllCore.
  Context {X0 X : Type}.
  Variable tk : X0 -> list Z.                 (* the tokens of a row *)
  Variable ord : list Z -> X0 -> X.           (* the row after ordering with `all` *)
  Variable pf : X -> X -> option (list pyval).
  Hypothesis ord_perm : forall all all' x, Permutation all all' -> ord all x = ord all' x.

  Definition allc (L R : list X0) : list Z := (List.concat (map tk L) ++ List.concat (map tk R))%list.
  Definition acore (L R : list X0) : option (list triple) :=
    loop2 pf (map (ord (allc L R)) L) (map (ord (allc L R)) R).

  Context {A B K : Type}.
  Variable kx : A -> K.
  Variable ky : B -> K.
  Variable tl : A -> X0.
  Variable tr : B -> X0.

  Definition allk (L : list A) (R : list B) : list Z := allc (map tl L) (map tr R).

  Theorem acore_keyed : forall dl dr L R,
    option_map (rekey kx ky dl dr L R) (acore (map tl L) (map tr R)) =
    kloop pf kx ky (fun l => ord (allk L R) (tl l)) (fun r => ord (allk L R) (tr r)) L R.
  Proof.
    intros dl dr L R. unfold acore. fold (allk L R). rewrite !map_map. apply loop2_rekey.
  Qed.

  Lemma allk_perm L L' R R' : Permutation L L' -> Permutation R R' ->
    Permutation (allk L R) (allk L' R').
  Proof.
    intros HL HR. unfold allk, allc.
    apply Permutation_app; apply Permutation_concat; apply Permutation_map; apply Permutation_map;
      assumption.
  Qed.

  (* C10: permuting the rows of either table permutes the keyed result *)
  Theorem acore_keyed_perm : forall dl dr dl' dr' L L' R R',
    Permutation L L' -> Permutation R R' ->
    operm (option_map (rekey kx ky dl dr L R) (acore (map tl L) (map tr R)))
          (option_map (rekey kx ky dl' dr' L' R') (acore (map tl L') (map tr R'))).
  Proof.
    intros dl dr dl' dr' L L' R R' HL HR. rewrite !acore_keyed.
    eapply operm_trans; [|apply kloop_perm; eassumption].
    apply operm_eq. apply kloop_ext. intros l r _ _.
    rewrite (ord_perm _ _ (tl l) (allk_perm _ _ _ _ HL HR)).
    rewrite (ord_perm _ _ (tr r) (allk_perm _ _ _ _ HL HR)). reflexivity.
  Qed.
End AllCore.

Lemma ed_row_perm all all' x : Permutation all all' -> ed_row all x = ed_row all' x.
Proof. intros H. unfold ed_row. rewrite (order_perm _ _ _ H). reflexivity. Qed.

Lemma ssj_core_acore p op ae L R :
  set_sim_join_core p op ae L R = acore (fun x => x) order (ssj_pair_e p op ae) L R.
Proof. rewrite ssj_core_loop. unfold acore, allc. rewrite !map_id. reflexivity. Qed.

Lemma ft_core_acore k p ae L R :
  filter_tables_core k p ae L R = acore (fun x => x) order (ft_pair k p ae) L R.
Proof. rewrite ft_core_loop. unfold acore, allc. rewrite !map_id. reflexivity. Qed.

Lemma ed_core_acore q tau op L R :
  ed_core q tau op L R = acore snd ed_row (ed_pair q tau op) L R.
Proof. rewrite ed_core_loop. reflexivity. Qed.

Section KeyedCores.
  Context {A B K : Type}.
  Variable kx : A -> K.
  Variable ky : B -> K.

  Theorem set_sim_join_core_perm : forall p op ae (tl : A -> list Z) (tr : B -> list Z)
      dl dr dl' dr' L L' R R',
    Permutation L L' -> Permutation R R' ->
    operm (option_map (rekey kx ky dl dr L R) (set_sim_join_core p op ae (map tl L) (map tr R)))
          (option_map (rekey kx ky dl' dr' L' R') (set_sim_join_core p op ae (map tl L') (map tr R'))).
  Proof.
    intros. rewrite !ssj_core_acore. apply acore_keyed_perm; [apply order_perm| |]; assumption.
  Qed.

  Theorem filter_tables_core_perm : forall k p ae (tl : A -> list Z) (tr : B -> list Z)
      dl dr dl' dr' L L' R R',
    Permutation L L' -> Permutation R R' ->
    operm (option_map (rekey kx ky dl dr L R) (filter_tables_core k p ae (map tl L) (map tr R)))
          (option_map (rekey kx ky dl' dr' L' R') (filter_tables_core k p ae (map tl L') (map tr R'))).
  Proof.
    intros. rewrite !ft_core_acore. apply acore_keyed_perm; [apply order_perm| |]; assumption.
  Qed.

  Theorem ed_core_perm : forall q tau op (tl : A -> list Z * list Z) (tr : B -> list Z * list Z)
      dl dr dl' dr' L L' R R',
    Permutation L L' -> Permutation R R' ->
    operm (option_map (rekey kx ky dl dr L R) (ed_core q tau op (map tl L) (map tr R)))
          (option_map (rekey kx ky dl' dr' L' R') (ed_core q tau op (map tl L') (map tr R'))).
  Proof.
    intros. rewrite !ed_core_acore. apply acore_keyed_perm; [apply ed_row_perm| |]; assumption.
  Qed.

  Theorem overlap_tables_core_perm : forall op size (tl : A -> list Z) (tr : B -> list Z)
      dl dr dl' dr' L L' R R',
    Permutation L L' -> Permutation R R' ->
    operm (option_map (rekey kx ky dl dr L R) (overlap_tables_core op size (map tl L) (map tr R)))
          (option_map (rekey kx ky dl' dr' L' R') (overlap_tables_core op size (map tl L') (map tr R'))).
  Proof.
    intros. rewrite !ovl_core_loop, !loop2_rekey. apply kloop_perm; assumption.
  Qed.

  Theorem ovc_core_perm : forall t op ae (tl : A -> list Z) (tr : B -> list Z)
      dl dr dl' dr' L L' R R',
    Permutation L L' -> Permutation R R' ->
    operm (option_map (rekey kx ky dl dr L R) (ovc_core t op ae (map tl L) (map tr R)))
          (option_map (rekey kx ky dl' dr' L' R') (ovc_core t op ae (map tl L') (map tr R'))).
  Proof.
    intros. rewrite !ovc_core_loop, !loop2_rekey. apply kloop_perm; assumption.
  Qed.
End KeyedCores.

(* ------------------------------------------------------------------ examples *)
Definition ex_p : fparams := {| fm := "JACCARD"; ft := PFloat (mkF 1 (-1)); fq := 0 |}.
Definition ex_L : list (list Z) := [[1; 2; 3]; [4; 5]; []].
Definition ex_R : list (list Z) := [[2; 3; 1]; []; [5; 6]].

Example ssj_core_ex :
  set_sim_join_core ex_p ">=" true ex_L ex_R =
  loop2 (ssj_pair_e ex_p ">=" true) (map (order (List.concat ex_L ++ List.concat ex_R)) ex_L)
        (map (order (List.concat ex_L ++ List.concat ex_R)) ex_R) /\
  option_map (map fst) (set_sim_join_core ex_p ">=" true ex_L ex_R) =
  Some [(0%nat, 0%nat); (2%nat, 1%nat)].
Proof. vm_compute. split; reflexivity. Qed.

Example ovl_core_ex :
  overlap_tables_core ">=" (PInt 1) ex_L ex_R =
  Some [(0%nat, 0%nat, PInt 3); (1%nat, 2%nat, PInt 1)] /\
  ovc_core (PFloat (mkF 1 (-1))) ">=" true ex_L ex_R =
  loop2 (fun x y => Some (ovc_pair (PFloat (mkF 1 (-1))) ">=" true x y)) ex_L ex_R.
Proof. vm_compute. split; reflexivity. Qed.

Example ed_core_ex :
  ed_core 2 1 "<=" [([1; 2; 3], [12; 23]); ([7], [])] [([1; 2; 4], [12; 24])] =
  loop2 (ed_pair 2 1 "<=") (map (ed_row [12; 23; 12; 24]) [([1; 2; 3], [12; 23]); ([7], [])])
        (map (ed_row [12; 23; 12; 24]) [([1; 2; 4], [12; 24])]).
Proof. vm_compute. reflexivity. Qed.

Print Assumptions ssj_core_loop.
Print Assumptions ft_core_loop.
Print Assumptions ovl_core_loop.
Print Assumptions ovc_core_loop.
Print Assumptions ed_core_loop.
Print Assumptions set_sim_join_core_In.
Print Assumptions filter_tables_core_In.
Print Assumptions overlap_tables_core_In.
Print Assumptions ovc_core_In.
Print Assumptions ed_core_In.
Print Assumptions set_sim_join_core_None.
Print Assumptions filter_tables_core_None.
Print Assumptions ed_core_None.
Print Assumptions set_sim_join_core_once.
Print Assumptions filter_tables_core_once.
Print Assumptions overlap_tables_core_once.
Print Assumptions ovc_core_once.
Print Assumptions ed_core_once.
Print Assumptions set_sim_join_core_perm.
Print Assumptions filter_tables_core_perm.
Print Assumptions ed_core_perm.
Print Assumptions overlap_tables_core_perm.
Print Assumptions ovc_core_perm.
