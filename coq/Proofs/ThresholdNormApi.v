(* Float thresholds of the integer-valued measures at the API level of the model (Model/Api.v):
   filter_tables of SizeFilter / PrefixFilter / PositionFilter under 'OVERLAP' resp.
   'EDIT_DISTANCE' with a finite float threshold f (validate_threshold passes: f > 0 resp. f >= 0)
   succeeds and returns EXACTLY the result of the same call with threshold ceil f resp. floor f;
   hence all the API-level specs (complete / sound / missing / empty) hold for the float call,
   with "qualifies" evaluated by Python's exact comparison against f itself.
   Depends on ApiFilterClosed.v (part_hyp discharged through SplitArith: Reals / Flocq axioms). *)
From Coq Require Import ZArith Bool List String Lia SpecFloat.
From SSJ Require Import F64 PyNum HelperGen TokenOrdering Measures Filters Lev Qgram Joins Api JoinSpec
                        MetaSpec PyFacts OverlapFacts OverlapMeasure EditArith EditJoin
                        ApiFilterBase ApiFilterOverlap ApiFilterTables ApiFilterJCD ApiFilterEdit
                        ApiFilterEditPos ApiFilterClosed ThresholdNorm ThresholdNormFloat.
Import ListNotations.
Open Scope string_scope.
Open Scope list_scope.
Open Scope Z_scope.

(* the same call with another threshold *)
Definition with_t (c : jcase) (t : pyval) : jcase :=
  {| j_entry := j_entry c; j_t := t; j_q := j_q c; j_op := j_op c;
     j_allow_empty := j_allow_empty c; j_allow_missing := j_allow_missing c;
     j_with_score := j_with_score c; j_njobs := j_njobs c; j_cpus := j_cpus c;
     j_L := j_L c; j_R := j_R c |}.

Lemma core_of_filter_agree c k m t' Lp Rc : j_entry c = EFilter k m ->
  fp_agree {| fm := m; ft := j_t c; fq := j_q c |} {| fm := m; ft := t'; fq := j_q c |} ->
  core_of c Lp Rc = core_of (with_t c t') Lp Rc.
Proof.
  intros He A. unfold core_of, with_t. cbn [j_entry j_t j_q j_allow_empty]. rewrite He.
  apply agree_filter_tables_core. exact A.
Qed.

Theorem api_join_filter_agree c k m t' : j_entry c = EFilter k m ->
  fp_agree {| fm := m; ft := j_t c; fq := j_q c |} {| fm := m; ft := t'; fq := j_q c |} ->
  api_join c = api_join (with_t c t').
Proof.
  intros He A. unfold api_join.
  change (j_L (with_t c t')) with (j_L c). change (j_R (with_t c t')) with (j_R c).
  change (j_njobs (with_t c t')) with (j_njobs c). change (j_cpus (with_t c t')) with (j_cpus c).
  change (j_with_score (with_t c t')) with (j_with_score c).
  change (j_allow_missing (with_t c t')) with (j_allow_missing c).
  destruct (chunks_of (j_njobs c) (j_cpus c) (filter present (j_R c))) as [chs|]; [|reflexivity].
  assert (E : map (fun ch : nat * list row =>
                     option_map (keyed (filter present (j_L c)) (snd ch) (fst ch))
                                (core_of c (filter present (j_L c)) (snd ch))) chs =
              map (fun ch : nat * list row =>
                     option_map (keyed (filter present (j_L c)) (snd ch) (fst ch))
                                (core_of (with_t c t') (filter present (j_L c)) (snd ch))) chs).
  { apply map_ext. intros ch. rewrite (core_of_filter_agree c k m t' _ _ He A). reflexivity. }
  rewrite E. reflexivity.
Qed.

(* specs that do not read the threshold on a filter entry *)
Lemma sound_spec_with_t c k m t' out : j_entry c = EFilter k m ->
  sound_spec (with_t c t') out = sound_spec c out.
Proof.
  intros He. unfold sound_spec. apply forallb_ext'. intros [[lk rk] s].
  unfold sound_row. cbn [with_t j_entry j_t j_L j_R j_allow_empty j_allow_missing j_with_score].
  rewrite He. reflexivity.
Qed.

(* ====================================================================== OVERLAP *)
Lemma qualifies_overlap_float f x y : f_is_finite f = true ->
  qualifies "OVERLAP" ">=" (PFloat f) x y = qualifies "OVERLAP" ">=" (PInt (f_ceil f)) x y.
Proof.
  intros Hfin. unfold qualifies, reported_score, raw_score. cbn [is_jcd String.eqb Ascii.eqb Bool.eqb orb].
  change (cmp_op ">=" (PInt (overlap_sets x y)) (PFloat f))
    with (py_truth (py_ge (PInt (overlap_sets x y)) (PFloat f))).
  rewrite py_ge_int_float by exact Hfin. rewrite cmp_op_ge_int. reflexivity.
Qed.

Lemma complete_spec_overlap_float c k f out : j_entry c = EFilter k "OVERLAP" -> j_t c = PFloat f ->
  f_is_finite f = true ->
  complete_spec c out = complete_spec (with_t c (PInt (f_ceil f))) out.
Proof.
  intros He Ht Hfin. unfold complete_spec. cbn [with_t j_entry j_t j_L j_R]. rewrite He, Ht.
  apply forallb_ext'. intros l. apply forallb_ext'. intros r.
  destruct (present l && present r); [|reflexivity].
  cbn [String.eqb Ascii.eqb Bool.eqb]. rewrite qualifies_overlap_float by exact Hfin. reflexivity.
Qed.

Theorem C04_filter_tables_overlap_float : forall c k f,
  j_entry c = EFilter k "OVERLAP" -> k3 k -> size_ok c -> keys_ok c -> rows_ok c ->
  j_t c = PFloat f -> f_is_finite f = true -> thr_pos f ->
  api_join c = api_join (with_t c (PInt (f_ceil f))) /\
  (exists out, api_join c = Some out) /\
  forall out, api_join c = Some out -> all_specs c out.
Proof.
  intros c k f He Hk Hsz Hkeys Hrows Ht Hfin Hp.
  apply thr_pos_ceil in Hp; [|exact Hfin].
  set (c' := with_t c (PInt (f_ceil f))).
  assert (EJ : api_join c = api_join c').
  { apply (api_join_filter_agree c k "OVERLAP" _ He). rewrite Ht.
    exact (fp_agree_ov_float f (j_q c) Hfin). }
  assert (Hv : valid_filter_case c' k "OVERLAP").
  { split; [exact He|]. split; [exact Hk|]. split; [exact Hsz|]. split; [exact Hkeys|].
    split; [exact Hrows|]. apply (thr_ov "OVERLAP" _ (f_ceil f)); [reflexivity|reflexivity|exact Hp]. }
  destruct (C04_filter_tables c' k "OVERLAP" Hv) as [Htot Hs].
  split; [exact EJ|]. rewrite EJ. split; [exact Htot|].
  intros out H. destruct (Hs out H) as (H1 & H2 & H3 & H4).
  destruct (C14_filter_tables_sound c k "OVERLAP" He Hk Hsz Hkeys out) as (S2 & S3 & S4);
    [rewrite EJ; exact H|].
  split; [|split; [exact S2|split; [exact S3|exact S4]]].
  rewrite (complete_spec_overlap_float c k f out He Ht Hfin). exact H1.
Qed.

(* ====================================================================== EDIT_DISTANCE *)
Lemma SFcompare_zero_cmp f : f_is_finite f = true ->
  SFcompare (S754_zero false) f = cmp_Z_f 0 f.
Proof.
  intros H. destruct f as [s| | |s m e]; try discriminate; [reflexivity|].
  unfold cmp_Z_f. cbn [SFcompare]. destruct e as [|p|p].
  - rewrite Z.pow_0_r, Z.mul_1_r. destruct s; reflexivity.
  - assert (HP : 0 < 2 ^ Z.pos p) by (apply Z.pow_pos_nonneg; lia).
    destruct s.
    + assert (Z.neg m * 2 ^ Z.pos p < 0) by (apply Z.mul_neg_pos; lia).
      destruct (Z.compare_spec 0 (Z.neg m * 2 ^ Z.pos p)); try reflexivity; lia.
    + assert (0 < Z.pos m * 2 ^ Z.pos p) by (apply Z.mul_pos_pos; lia).
      destruct (Z.compare_spec 0 (Z.pos m * 2 ^ Z.pos p)); try reflexivity; lia.
  - destruct s; reflexivity.
Qed.

Lemma ed_dist_le_float l r f : f_is_finite f = true -> thr_nonneg f ->
  cmp_op "<=" (JoinSpec.ed_dist l r) (PFloat f) = cmp_op "<=" (JoinSpec.ed_dist l r) (PInt (f_floor f)).
Proof.
  intros Hfin H0. pose proof H0 as H0'. apply thr_nonneg_floor in H0'; [|exact Hfin].
  unfold JoinSpec.ed_dist. destruct (list_eqbZ (str_of l) (str_of r)).
  - change (cmp_op "<=" ?a ?b) with (py_truth (py_le a b)).
    transitivity true.
    + pose proof (proj2 (cmp_Z_f_floor 0 f Hfin) H0') as K.
      unfold py_le, py_ord, strict2, ord_cmp, num_of, num_cmp.
      rewrite (SFcompare_zero_cmp f Hfin).
      destruct (cmp_Z_f_some 0 f Hfin) as [c Ec]. rewrite Ec in *.
      destruct c; try reflexivity. exfalso. apply K. reflexivity.
    + symmetry. unfold py_le, py_ord, strict2, ord_cmp, num_of, num_cmp, cmp_Z_f, option_map.
      destruct (Z.compare_spec (f_floor f) 0); try reflexivity. lia.
  - change (cmp_op "<=" ?a ?b) with (py_truth (py_le a b)).
    rewrite py_le_int_float by exact Hfin. rewrite py_le_int. reflexivity.
Qed.

Lemma complete_spec_ed_float c k f out : j_entry c = EFilter k "EDIT_DISTANCE" -> j_t c = PFloat f ->
  f_is_finite f = true -> thr_nonneg f ->
  complete_spec c out = complete_spec (with_t c (PInt (f_floor f))) out.
Proof.
  intros He Ht Hfin H0. unfold complete_spec. cbn [with_t j_entry j_t j_L j_R]. rewrite He, Ht.
  apply forallb_ext'. intros l. apply forallb_ext'. intros r.
  destruct (present l && present r); [|reflexivity].
  cbn [String.eqb Ascii.eqb Bool.eqb]. rewrite ed_dist_le_float by assumption. reflexivity.
Qed.

Theorem C04_filter_tables_edit_float : forall c k f,
  j_entry c = EFilter k "EDIT_DISTANCE" -> k3 k -> j_t c = PFloat f -> f_is_finite f = true ->
  thr_nonneg f -> 1 <= j_q c -> keys_ok c -> size_ok c ->
  api_join c = api_join (with_t c (PInt (f_floor f))) /\
  (exists out, api_join c = Some out) /\
  forall out, api_join c = Some out ->
    sound_spec c out = true /\ missing_spec c out = true /\ empty_spec c out = true /\
    (edf_rows c -> complete_spec c out = true).
Proof.
  intros c k f He Hk Ht Hfin H0 Hq Hkeys Hsz.
  pose proof H0 as H0'. apply thr_nonneg_floor in H0'; [|exact Hfin].
  set (c' := with_t c (PInt (f_floor f))).
  assert (EJ : api_join c = api_join c').
  { apply (api_join_filter_agree c k "EDIT_DISTANCE" _ He). rewrite Ht.
    exact (fp_agree_ed_float (j_q c) f Hfin). }
  assert (Hv : valid_edf_case c' k (f_floor f)).
  { split; [exact He|]. split; [exact Hk|]. split; [reflexivity|]. split; [exact H0'|].
    split; [exact Hq|]. split; [exact Hkeys|exact Hsz]. }
  destruct (C04_filter_tables_edit c' k (f_floor f) Hv) as [Htot Hs].
  split; [exact EJ|]. rewrite EJ. split; [exact Htot|].
  intros out H. destruct (Hs out H) as (_ & _ & _ & H1).
  destruct (C14_filter_tables_sound c k "EDIT_DISTANCE" He Hk Hsz Hkeys out) as (S2 & S3 & S4);
    [rewrite EJ; exact H|].
  split; [exact S2|]. split; [exact S3|]. split; [exact S4|].
  intros Hrows. rewrite (complete_spec_ed_float c k f out He Ht Hfin H0). apply H1. exact Hrows.
Qed.

Corollary C04_filter_tables_edit_qgram_float : forall tk g c k f,
  (forall a b, g a = g b -> a = b) -> j_q c = qq tk -> 1 <= qq tk ->
  j_entry c = EFilter k "EDIT_DISTANCE" -> k3 k -> j_t c = PFloat f -> f_is_finite f = true ->
  thr_nonneg f -> keys_ok c -> size_ok c -> qgram_rows tk g c ->
  forall out, api_join c = Some out -> all_specs c out.
Proof.
  intros tk g c k f Hinj Eq Hq He Hk Ht Hfin H0 Hkeys Hsz Hrows out H.
  assert (Hq' : 1 <= j_q c) by (rewrite Eq; exact Hq).
  destruct (C04_filter_tables_edit_float c k f He Hk Ht Hfin H0 Hq' Hkeys Hsz) as (_ & _ & Hs).
  destruct (Hs out H) as (H2 & H3 & H4 & H1).
  split; [apply H1; apply (qgram_rows_edf tk g c Hinj Eq Hq Hrows)|]. auto.
Qed.

(* ====================================================================== examples *)
(* the EDIT_DISTANCE example of ApiFilterEdit.v with threshold 1.5 instead of 1, and the J/C/D
   example tables of ApiFilterJCD.v under OVERLAP with threshold 1.5: the model call succeeds, all
   specs hold (evaluated), and the result is the one of the call with floor / ceil *)
Definition edf_ex_float (k : fkind) : jcase := with_t (edf_ex k) (PFloat f_1_5).
Definition ovf_ex_float (k : fkind) : jcase := with_t (fj_ex k "OVERLAP") (PFloat f_1_5).

Example edf_ex_float_check :
  forallb (fun k => match api_join (edf_ex_float k), api_join (edf_ex k) with
                    | Some out, Some out1 =>
                        complete_spec (edf_ex_float k) out && sound_spec (edf_ex_float k) out &&
                        missing_spec (edf_ex_float k) out && empty_spec (edf_ex_float k) out &&
                        has_pair 1 7 out && has_pair 1 8 out && multiset_eqb out out1
                    | _, _ => false
                    end) [KSize; KPrefix; KPosition] = true.
Proof. vm_compute. reflexivity. Qed.
Example ovf_ex_float_check :
  forallb (fun k => match api_join (ovf_ex_float k), api_join (with_t (ovf_ex_float k) (PInt 2)) with
                    | Some out, Some out2 =>
                        complete_spec (ovf_ex_float k) out && sound_spec (ovf_ex_float k) out &&
                        missing_spec (ovf_ex_float k) out && empty_spec (ovf_ex_float k) out &&
                        has_pair 1 7 out && has_pair 4 7 out && multiset_eqb out out2
                    | _, _ => false
                    end) [KSize; KPrefix; KPosition] = true.
Proof. vm_compute. reflexivity. Qed.
(* the theorem applies to the example (its hypotheses are satisfiable) *)
Example edf_ex_float_inst k : k3 k ->
  api_join (edf_ex_float k) = api_join (edf_ex k) /\ exists out, api_join (edf_ex_float k) = Some out.
Proof.
  intros Hk. destruct (edf_ex_valid k Hk) as (_ & _ & _ & _ & Hq & Hkeys & Hsz).
  destruct (C04_filter_tables_edit_float (edf_ex_float k) k f_1_5) as (E & Htot & _);
    try reflexivity; try assumption.
  split; [exact E|exact Htot].
Qed.

Print Assumptions api_join_filter_agree.
Print Assumptions complete_spec_overlap_float.
Print Assumptions complete_spec_ed_float.
Print Assumptions C04_filter_tables_overlap_float.
Print Assumptions C04_filter_tables_edit_float.
Print Assumptions C04_filter_tables_edit_qgram_float.
