(* (b) The index-based candidate generation refines the pairwise hand model.
   For the components returned by the GENERATED PositionIndex.build on the left rows and every
   probe list Y, the GENERATED PositionFilter.find_candidates returns a dict whose value at a
   row c (absent = 0) is exactly what Model/Filters.v computes for the pair:
       pos_cand p (nth c ordered) Y = Some (value at c).
   Key facts: entries of different candidates evolve independently; clamping the size window to
   [min_length, max_length] is immaterial because every indexed size lies inside; the eager
   overlap-threshold cache holds get_overlap_threshold for every size in the window; an empty
   index returns {} which agrees with "no postings".  Formulas stay opaque.  Axiom-free.   *)
From Coq Require Import ZArith Bool List String Lia.
From SSJ Require Import F64 PyNum FilterUtilsGen TokenOrderingGen IndexGen TokenOrdering Filters
     IndexPyFacts IndexBuildFacts IndexProbeFacts.
Import ListNotations.
Open Scope Z_scope.

Lemma in_window_int lb ub n : in_window (PInt lb) (PInt ub) n = (lb <=? n) && (n <=? ub).
Proof. unfold in_window. rewrite !py_le_int_val', py_and_bools. reflexivity. Qed.

Lemma fold_min_nonneg : forall l m, 0 <= m -> (forall n, In n l -> 0 <= n) -> 0 <= fold_left Z.min l m.
Proof.
  induction l as [|h t IH]; intros m Hm Hl; cbn [fold_left]; [exact Hm|].
  apply IH; [|intros n Hn; apply Hl; right; exact Hn].
  specialize (Hl h (or_introl eq_refl)). lia.
Qed.

Section Refine.
  Variables (p : fparams) (ordered : list (list Z)) (Y : list Z).
  Variables (minl maxl lb ub k : Z).
  Let ny := len Y.
  Let sizes := map len ordered.
  Let LB := Z.max lb minl.
  Let UB := Z.min ub maxl.
  Hypothesis Hlb : g_lb p ny = PInt lb.
  Hypothesis Hub : g_ub p ny = PInt ub.
  (* every indexed size lies inside [min_length, max_length] *)
  Hypothesis Hmm : forall x, In x ordered -> minl <= len x <= maxl.

  (* the entry of candidate C after one posting *)
  Lemma cand_upd_same (idx : idx_t) j d (c i : nat) :
    (c < List.length ordered)%nat ->
    let x := nth c ordered [] in
    cval (cand_upd p sizes minl maxl Y lb ub (Z.of_nat j) d (Z.of_nat c, Z.of_nat i)) (Z.of_nat c)
    = pos_update p (len x) ny (cval d (Z.of_nat c)) j i.
  Proof.
    intros Hc x. unfold cand_upd, pos_update. cbv zeta. cbn [fst snd].
    rewrite Hlb, Hub, in_window_int.
    destruct (cval d (Z.of_nat c) =? -1) eqn:Ecur; [reflexivity|].
    rewrite Nat2Z.id. unfold sizes.
    change 0 with (len []). rewrite (map_nth len). fold x.
    assert (Hx : minl <= len x <= maxl) by (apply Hmm, nth_In; exact Hc).
    assert (Ew : (Z.max lb minl <=? len x) && (len x <=? Z.min ub maxl)
                 = (lb <=? len x) && (len x <=? ub)).
    { destruct (Z.leb_spec lb (len x)), (Z.leb_spec (len x) ub),
        (Z.leb_spec (Z.max lb minl) (len x)), (Z.leb_spec (len x) (Z.min ub maxl));
        try reflexivity; lia. }
    rewrite Ew. fold ny.
    destruct ((lb <=? len x) && (len x <=? ub)); [|reflexivity].
    destruct (ny - Z.of_nat j <=? len x - Z.of_nat i);
      match goal with |- context [py_truth ?t] => destruct (py_truth t) end;
      unfold cval; rewrite aget_aset, Z.eqb_refl; reflexivity.
  Qed.

  Lemma cand_upd_other j d e C : fst e <> C ->
    cval (cand_upd p sizes minl maxl Y lb ub j d e) C = cval d C.
  Proof.
    intros Hne. unfold cand_upd. cbv zeta.
    destruct (cval d (fst e) =? -1); [reflexivity|].
    destruct ((Z.max lb minl <=? _) && (_ <=? Z.min ub maxl)); [|reflexivity].
    destruct (py_truth _); unfold cval; rewrite aget_aset;
      (destruct (Z.eqb_spec (fst e) C); [congruence | reflexivity]).
  Qed.

  (* a run of postings of one row *)
  Lemma fold_row_same j (c : nat) : (c < List.length ordered)%nat ->
    forall ps d,
    cval (fold_left (cand_upd p sizes minl maxl Y lb ub (Z.of_nat j))
                    (map (fun i : nat => (Z.of_nat c, Z.of_nat i)) ps) d) (Z.of_nat c)
    = fold_left (fun cur i => pos_update p (len (nth c ordered [])) ny cur j i) ps (cval d (Z.of_nat c)).
  Proof.
    intros Hc. induction ps as [|i ps IH]; intros d; cbn [map fold_left]; [reflexivity|].
    rewrite IH. f_equal. apply (cand_upd_same []). exact Hc.
  Qed.
  Lemma fold_row_other j c' C : c' <> C -> forall ps d,
    cval (fold_left (cand_upd p sizes minl maxl Y lb ub j)
                    (map (fun i : nat => (c', Z.of_nat i)) ps) d) C = cval d C.
  Proof.
    intros Hne. induction ps as [|i ps IH]; intros d; cbn [map fold_left]; [reflexivity|].
    rewrite IH. apply cand_upd_other. exact Hne.
  Qed.

  (* the posting list of token w, restricted to candidate C *)
  Lemma fold_posts j w (C : nat) : forall xs (c0 : nat) d,
    (forall n, (n < List.length xs)%nat -> nth n xs [] = nth (c0 + n) ordered []) ->
    (c0 + List.length xs <= List.length ordered)%nat ->
    cval (fold_left (cand_upd p sizes minl maxl Y lb ub (Z.of_nat j))
                    (posts_from p w (Z.of_nat c0) xs) d) (Z.of_nat C)
    = if (c0 <=? C)%nat && (C <? c0 + List.length xs)%nat
      then let x := nth C ordered [] in
           fold_left (fun cur i => pos_update p (len x) ny cur j i)
                     (positions_from w (slice0z (plen p (len x)) x) 0) (cval d (Z.of_nat C))
      else cval d (Z.of_nat C).
  Proof.
    induction xs as [|x xs IH]; intros c0 d Hnth Hlen; cbn [posts_from fold_left List.length].
    - replace ((c0 <=? C)%nat && (C <? c0 + 0)%nat) with false; [reflexivity|].
      symmetry. apply andb_false_iff.
      destruct (Nat.leb_spec c0 C); [right; apply Nat.ltb_ge; lia | left; reflexivity].
    - rewrite fold_left_app.
      replace (Z.of_nat c0 + 1) with (Z.of_nat (S c0)) by lia.
      cbn [List.length] in Hlen.
      rewrite IH.
      2:{ intros n Hn. specialize (Hnth (S n)). cbn [nth] in Hnth.
          rewrite Hnth by (cbn [List.length]; lia). f_equal. lia. }
      2:{ lia. }
      assert (Hx : x = nth c0 ordered []).
      { specialize (Hnth O). cbn [nth] in Hnth. rewrite Hnth by (cbn [List.length]; lia).
        f_equal. lia. }
      destruct (Nat.eq_dec c0 C) as [->|Hne].
      + (* this row is the candidate: later rows do not touch it *)
        replace ((S C <=? C)%nat && (C <? S C + List.length xs)%nat) with false
          by (symmetry; apply andb_false_iff; left; apply Nat.leb_gt; lia).
        replace ((C <=? C)%nat && (C <? C + S (List.length xs))%nat) with true
          by (symmetry; apply andb_true_iff; split; [apply Nat.leb_le | apply Nat.ltb_lt]; lia).
        cbv zeta. rewrite Hx. apply fold_row_same. lia.
      + rewrite (fold_row_other _ (Z.of_nat c0) (Z.of_nat C)) by lia.
        replace ((c0 <=? C)%nat && (C <? c0 + S (List.length xs))%nat)
          with ((S c0 <=? C)%nat && (C <? S c0 + List.length xs)%nat); [reflexivity|].
        destruct (Nat.leb_spec (S c0) C), (Nat.leb_spec c0 C),
          (Nat.ltb_spec C (S c0 + List.length xs)), (Nat.ltb_spec C (c0 + S (List.length xs)));
          try reflexivity; lia.
  Qed.

  Lemma fold_posts_all j w (C : nat) d : (C < List.length ordered)%nat ->
    let x := nth C ordered [] in
    cval (fold_left (cand_upd p sizes minl maxl Y lb ub (Z.of_nat j)) (posts_from p w 0 ordered) d)
         (Z.of_nat C)
    = fold_left (fun cur i => pos_update p (len x) ny cur j i)
                (positions_from w (slice0z (plen p (len x)) x) 0) (cval d (Z.of_nat C)).
  Proof.
    intros HC x. change 0 with (Z.of_nat 0).
    rewrite (fold_posts j w C ordered 0 d); [|intros n _; reflexivity | lia].
    replace ((0 <=? C)%nat && (C <? 0 + List.length ordered)%nat) with true; [reflexivity|].
    symmetry. apply andb_true_iff. split; [apply Nat.leb_le | apply Nat.ltb_lt]; lia.
  Qed.

  (* the whole probe loop, for an index whose posting lists are those of `ordered` *)
  Variable idx : idx_t.
  Hypothesis Hidx : forall w, idx_get idx w = posts_from p w 0 ordered.

  Lemma probe_loop (C : nat) : (C < List.length ordered)%nat ->
    forall yp (j : nat) d,
    let x := nth C ordered [] in
    cval (fst (fold_left (probe_step p idx sizes minl maxl Y lb ub) yp (d, Z.of_nat j))) (Z.of_nat C)
    = pos_loop p (len x) ny (slice0z (plen p (len x)) x) yp j (cval d (Z.of_nat C)).
  Proof.
    intros HC. induction yp as [|w yp IH]; intros j d x; cbn [fold_left pos_loop]; [reflexivity|].
    unfold probe_step at 2. cbn [fst snd].
    replace (Z.of_nat j + 1) with (Z.of_nat (S j)) by lia.
    cbv zeta in IH. rewrite IH. f_equal. rewrite Hidx. apply fold_posts_all. exact HC.
  Qed.

  Lemma probe_abs_refines (C : nat) : (C < List.length ordered)%nat ->
    let x := nth C ordered [] in
    cval (probe_abs p idx sizes minl maxl Y lb ub k) (Z.of_nat C)
    = pos_loop p (len x) ny (slice0z (plen p (len x)) x) (slice0z k Y) 0 0.
  Proof.
    intros HC x. unfold probe_abs. change 0 with (Z.of_nat 0) at 1.
    rewrite (probe_loop C HC). reflexivity.
  Qed.
End Refine.

(* ------------------------------------------------------------------ the refinement theorem *)
Definition dict_val (d : pyval) (c : Z) : Z :=
  match d with
  | PDict l => match dict_lookup l (PInt c) with Some (PInt v) => v | _ => 0 end
  | _ => 0
  end.

Lemma dict_val_drepr d c : dict_val (PDict (drepr PInt d)) c = cval d c.
Proof. unfold dict_val, cval. rewrite dict_lookup_drepr. destruct (aget d c); reflexivity. Qed.

Section Main.
  Variables (p : fparams) (attr ordering : pyval) (tokenize : pyval -> pyval).
  Variables (rows : list pyval) (ordered : list (list Z)) (ce ct : bool).
  (* row i of the table yields the ordered rank list nth i ordered *)
  Hypothesis Hrows : Forall2 (row_ok attr ordering tokenize) rows ordered.
  (* get_prefix_length returns an int on the indexed sizes *)
  Hypothesis Hplx : forall x, In x ordered -> exists kx, g_pl p (len x) = PInt kx.

  Let built := position_index_build (PList rows) attr (PStr (fm p)) (ft p) ordering (PBool ce)
                                    (PBool ct) (PInt (fq p)) tokenize.
  Let a := build_abs p ce ct ordered.

  Variables (Y : list Z) (lb ub k : Z).
  Hypothesis Hlb : g_lb p (len Y) = PInt lb.
  Hypothesis Hub : g_ub p (len Y) = PInt ub.
  Hypothesis Hpl : g_pl p (len Y) = PInt k.
  (* get_overlap_threshold is a number on every non-negative size of the window *)
  Hypothesis Hot : forall s, 0 <= s -> lb <= s <= ub -> num_of (g_ot p s (len Y)) <> None.

  Theorem position_find_candidates_refines :
    exists index size_cache mn mx ret d,
      built = PTuple [index; size_cache; PInt mn; PInt mx; ret] /\
      position_filter_find_candidates (PStr (fm p)) (ft p) (pints Y) index size_cache
                                      (PInt mn) (PInt mx) (PInt (fq p))
      = PDict (drepr PInt d) /\
      NoDup (map fst d) /\
      (forall c, In c (map fst d) -> 0 <= c < nrows ordered) /\
      forall c, (c < List.length ordered)%nat ->
        pos_cand p (nth c ordered []) Y = Some (dict_val (PDict (drepr PInt d)) (Z.of_nat c)).
  Proof.
    exists (idx_repr (b_idx a)), (pints (b_sizes a)), (b_min a), (b_max a),
      (PDict [PTuple [PStr "cached_tokens"%string; PList (map pints (b_cached a))];
              PTuple [PStr "empty_records"%string; pints (b_empty a)]]),
      (probe_abs p (b_idx a) (b_sizes a) (b_min a) (b_max a) Y lb ub k).
    assert (Hpost : forall w e, In e (idx_get (b_idx a) w) -> 0 <= fst e < len (b_sizes a)).
    { intros w e He. unfold a in *. rewrite build_postings in He. rewrite build_sizes.
      apply posts_from_rows in He. unfold nrows in He. unfold len. rewrite map_length. lia. }
    assert (Hot' : forall s, Z.max lb (b_min a) <= s <= Z.min ub (b_max a) ->
                             num_of (g_ot p s (len Y)) <> None).
    { intros s Hs.
      assert (Hd : ordered = [] \/ ordered <> []) by (destruct ordered; [left; reflexivity | right; discriminate]).
      destruct Hd as [Eo|Hne].
      - (* empty table: min_length = maxsize > 0 = max_length, the window is empty *)
        exfalso. destruct (build_min_max_empty p ce ct ordered Eo) as [Emin Emax].
        unfold a in Hs. rewrite Emin, Emax in Hs. unfold maxsizeZ in Hs. lia.
      - apply Hot; [|lia].
        assert (0 <= b_min a).
        { unfold a. rewrite build_min. apply fold_min_nonneg; [unfold maxsizeZ; lia|].
          intros n Hn. apply in_map_iff in Hn. destruct Hn as (x & <- & _). unfold len. lia. }
        lia. }
    split; [exact (position_index_build_eq p attr ordering tokenize rows ordered ce ct Hrows Hplx)|].
    split; [apply (find_candidates_eq p (b_idx a) (b_sizes a) (b_min a) (b_max a) Y lb ub k
                     Hlb Hub Hpl Hot' Hpost)|].
    destruct (probe_abs_good p (b_idx a) (b_sizes a) (b_min a) (b_max a) Y lb ub k Hpost) as [Hnd Hk].
    split; [exact Hnd|]. split.
    { intros c Hc. specialize (Hk c Hc). unfold a in Hk. rewrite build_sizes in Hk.
      unfold len in Hk. rewrite map_length in Hk. exact Hk. }
    intros c Hc. rewrite dict_val_drepr. unfold pos_cand.
    destruct (Hplx (nth c ordered [])) as [kx Hkx]; [apply nth_In; exact Hc|].
    rewrite Hkx, Hpl, !slice0_PInt. f_equal.
    unfold a. rewrite build_sizes.
    rewrite (probe_abs_refines p ordered Y (b_min (build_abs p ce ct ordered))
               (b_max (build_abs p ce ct ordered)) lb ub k Hlb Hub
               (build_min_max_bounds p ce ct ordered) (b_idx (build_abs p ce ct ordered))
               (build_postings p ce ct ordered) c Hc).
    unfold plen. rewrite Hkx. reflexivity.
  Qed.

  (* the form used by the joins: `for cand, overlap in iteritems(candidates): if overlap > 0` *)
  Corollary position_candidate_positive :
    exists index size_cache mn mx ret cands,
      built = PTuple [index; size_cache; PInt mn; PInt mx; ret] /\
      position_filter_find_candidates (PStr (fm p)) (ft p) (pints Y) index size_cache
                                      (PInt mn) (PInt mx) (PInt (fq p)) = cands /\
      forall c, (c < List.length ordered)%nat ->
        (0 < dict_val cands (Z.of_nat c) <->
         exists v, pos_cand p (nth c ordered []) Y = Some v /\ 0 < v).
  Proof.
    destruct position_find_candidates_refines as (i & s & mn & mx & r & d & H1 & H2 & _ & _ & H5).
    exists i, s, mn, mx, r, (PDict (drepr PInt d)). split; [exact H1|]. split; [exact H2|].
    intros c Hc. rewrite (H5 c Hc). split.
    - intros Hv. eexists. split; [reflexivity | exact Hv].
    - intros (v & Hv & Hpos). injection Hv as <-. exact Hpos.
  Qed.
End Main.

Print Assumptions position_find_candidates_refines.
Print Assumptions position_candidate_positive.
