(* SizeIndex.build / SizeFilter.find_candidates (GENERATED: size_index_build,
   size_filter_find_candidates in Gen/IndexGen.v) refine the hand model Filters.size_cand:
   row c is in the returned candidate set  <->  size_cand p (size of row c) (probe size) = true.
   Axiom-free.                                                                            *)
From Coq Require Import ZArith Bool List String Lia.
From SSJ Require Import F64 PyNum FilterUtilsGen TokenOrderingGen IndexGen TokenOrdering Filters
     IndexPyFacts IndexBuildFacts IndexProbeFacts IndexInverted IndexPrefix.
Import ListNotations.
Open Scope Z_scope.

Record zstate := { z_rid : Z; z_idx : iidx_t; z_min : Z; z_max : Z; z_empty : list Z }.
Definition zadd_row (ce : bool) (a : zstate) (n : Z) : zstate :=
  {| z_rid := z_rid a + 1;
     z_idx := if n =? 0 then z_idx a else iidx_add (z_idx a) n (z_rid a);
     z_min := if n <? z_min a then n else z_min a;
     z_max := if z_max a <? n then n else z_max a;
     z_empty := if ce && (n =? 0) then (z_empty a ++ [z_rid a])%list else z_empty a |}.
Definition z_init : zstate := {| z_rid := 0; z_idx := []; z_min := maxsizeZ; z_max := 0; z_empty := [] |}.
Definition zbuild_abs ce (ns : list Z) : zstate := fold_left (zadd_row ce) ns z_init.
Definition zbuild_result (a : zstate) : pyval :=
  PTuple [iidx_repr (z_idx a); PInt (z_min a); PInt (z_max a);
          PDict [PTuple [PStr "empty_records"%string; pints (z_empty a)]]].

(* row i has n tokens *)
Definition zrow_ok (attr : pyval) (tokenize : pyval -> pyval) (row : pyval) (n : Z) : Prop :=
  is_exc (py_getitem row attr) = false /\ py_len (tokenize (py_getitem row attr)) = PInt n.

Definition Izbuild (a : zstate)
  (s : pyval * (pyval * (pyval * (pyval * (pyval * (pyval * (pyval * pyval))))))) : Prop :=
  exists t1 t2,
    s = (PNone, (t1, (t2, (PInt (z_min a), (PInt (z_max a), (pints (z_empty a),
          (PInt (z_rid a), iidx_repr (z_idx a)))))))).

Theorem size_index_build_eq : forall attr tokenize rows ns ce,
  Forall2 (zrow_ok attr tokenize) rows ns ->
  size_index_build (PList rows) attr (PBool ce) tokenize = zbuild_result (zbuild_abs ce ns).
Proof.
  intros attr tokenize rows ns ce Hrows.
  unfold size_index_build. cbv zeta.
  destruct (forall2_combine _ _ _ Hrows) as (Er & Eo & Hrow).
  set (l := combine rows ns) in *. clearbody l.
  assert (Hb : zbuild_abs ce ns
               = fold_left (fun a (rb : pyval * Z) => zadd_row ce a (snd rb)) l z_init).
  { unfold zbuild_abs. rewrite Eo at 1. clear. generalize z_init.
    induction l as [|b l' IH]; intros a0; cbn [map fold_left]; [reflexivity | apply IH]. }
  rewrite Er, Hb.
  match goal with |- context [py_for (PList (map fst l)) ?r ?f ?b ?s0] =>
    pose proof (py_for_inv _ _ _ fst Izbuild r f b
                  (fun a (rb : pyval * Z) => zadd_row ce a (snd rb)) l s0 z_init) as HI end.
  lapply HI; [clear HI; intros HI|].
  2:{ unfold Izbuild. do 2 eexists. reflexivity. }
  lapply HI; [clear HI; intros HI|].
  2:{ intros a s (t1 & t2 & ->). reflexivity. }
  lapply HI; [clear HI; intros HI|].
  - destruct HI as (t1 & t2 & ->). reflexivity.
  - clear HI. intros a s [row n] Hin (t1 & t2 & ->).
    cbv beta iota. cbn [fst snd].
    destruct (Hrow _ Hin) as [Hne Hlen]. cbn [fst snd] in Hne, Hlen.
    rewrite (bindx_ok row) by (eapply getitem_not_exc; exact Hne).
    rewrite (bindx_ok (py_getitem row attr)) by exact Hne.
    rewrite Hlen. cbn [bindx].
    rewrite py_lt_int_val, py_gt_int_val, !py_eq_int_val. cbn [bindx py_truth].
    unfold zadd_row.
    destruct (n <? z_min a); cbv beta iota; cbn [bindx py_truth];
    destruct (z_max a <? n); cbv beta iota; cbn [bindx py_truth];
    destruct ce; cbn [py_and py_truth andb]; cbv beta iota; cbn [bindx py_truth].
    all: destruct (n =? 0) eqn:En; cbv beta iota; cbn [bindx py_truth].
    all: rewrite ?py_append_pints, ?(bindx_ok (pints _)) by reflexivity.
    all: try (rewrite py_add_int; cbn [bindx]; do 2 eexists; reflexivity).
    all: rewrite py_dict_get2_iidx; unfold iidx_add, iidx_get.
    all: destruct (aget (z_idx a) n) as [ps|] eqn:E.
    all: try (unfold pints at 1; cbn [py_is_none strict1 py_truth bindx];
              rewrite py_dict_get2_iidx, E, py_append_pints;
              unfold iidx_repr; rewrite py_setitem_drepr by reflexivity; cbn [bindx];
              rewrite py_add_int; cbn [bindx]; do 2 eexists; reflexivity).
    all: cbn [py_is_none strict1 py_truth bindx];
         change (PList []) with (pints []); unfold iidx_repr at 1;
         rewrite py_setitem_drepr by reflexivity; cbn [bindx]; fold (iidx_repr (aset (z_idx a) n []));
         rewrite py_dict_get2_iidx, aget_aset, Z.eqb_refl, py_append_pints;
         unfold iidx_repr; rewrite py_setitem_drepr by reflexivity; rewrite aset_aset; cbn [bindx];
         rewrite py_add_int; cbn [bindx]; do 2 eexists; reflexivity.
Qed.

(* postings of size s: the non-empty rows with exactly s tokens, ascending *)
Fixpoint zposts_from (s c : Z) (ns : list Z) : list Z :=
  match ns with
  | [] => []
  | n :: ns' => ((if (n =? s) && negb (n =? 0) then [c] else []) ++ zposts_from s (c + 1) ns')%list
  end.
Fixpoint zempty_from (c : Z) (ns : list Z) : list Z :=
  match ns with
  | [] => []
  | n :: ns' => if n =? 0 then c :: zempty_from (c + 1) ns' else zempty_from (c + 1) ns'
  end.

Lemma zbuild_from ce : forall ns a0 s,
  let a := fold_left (zadd_row ce) ns a0 in
  z_rid a = z_rid a0 + Z.of_nat (List.length ns) /\
  z_min a = fold_left Z.min ns (z_min a0) /\
  z_max a = fold_left Z.max ns (z_max a0) /\
  z_empty a = (if ce then z_empty a0 ++ zempty_from (z_rid a0) ns else z_empty a0)%list /\
  iidx_get (z_idx a) s = (iidx_get (z_idx a0) s ++ zposts_from s (z_rid a0) ns)%list.
Proof.
  induction ns as [|n ns IH]; intros a0 s; cbn [fold_left zposts_from zempty_from List.length].
  - cbn [Z.of_nat]. rewrite Z.add_0_r. repeat split; destruct ce; now rewrite ?app_nil_r.
  - cbv zeta in IH. destruct (IH (zadd_row ce a0 n) s) as (H1 & H2 & H3 & H4 & H5).
    rewrite H1, H2, H3, H4, H5. unfold zadd_row. cbn [z_rid z_idx z_min z_max z_empty].
    repeat split.
    + lia.
    + f_equal. destruct (Z.ltb_spec n (z_min a0)); lia.
    + f_equal. destruct (Z.ltb_spec (z_max a0) n); lia.
    + destruct ce; cbn [andb]; [|reflexivity].
      destruct (n =? 0); [now rewrite <- app_assoc | reflexivity].
    + destruct (n =? 0) eqn:En.
      * rewrite andb_false_r. reflexivity.
      * rewrite iidx_get_add, andb_true_r. destruct (n =? s); [now rewrite <- app_assoc | reflexivity].
Qed.
Lemma zbuild_postings ce ns s : iidx_get (z_idx (zbuild_abs ce ns)) s = zposts_from s 0 ns.
Proof. destruct (zbuild_from ce ns z_init s) as (_ & _ & _ & _ & H). exact H. Qed.
Lemma zbuild_min ce ns : z_min (zbuild_abs ce ns) = fold_left Z.min ns maxsizeZ.
Proof. destruct (zbuild_from ce ns z_init 0) as (_ & H & _). exact H. Qed.
Lemma zbuild_max ce ns : z_max (zbuild_abs ce ns) = fold_left Z.max ns 0.
Proof. destruct (zbuild_from ce ns z_init 0) as (_ & _ & H & _). exact H. Qed.
Lemma zbuild_empty ce ns : z_empty (zbuild_abs ce ns) = if ce then zempty_from 0 ns else [].
Proof. destruct (zbuild_from ce ns z_init 0) as (_ & _ & _ & H & _). exact H. Qed.
Lemma zbuild_bounds ce ns n : In n ns -> z_min (zbuild_abs ce ns) <= n <= z_max (zbuild_abs ce ns).
Proof.
  intros Hn. rewrite zbuild_min, zbuild_max. split; [apply fold_min_le | apply fold_max_ge]; exact Hn.
Qed.

(* ------------------------------------------------------------------ find_candidates *)
Definition zprobe_abs (idx : iidx_t) (mn mx lb ub ny : Z) : sset :=
  if ny <? lb then [] else
  let LB := if lb <? mn then mn else lb in
  let UB := if mx <? ub then mx else ub in
  fold_left (fun d s => fold_left sadd (iidx_get idx s) d) (zrange LB (UB + 1)) [].
Definition Rzouter (d : sset) : pyval * (pyval * pyval) :=
  (PNone, (PExc "UnboundLocalError"%string, srepr d)).
Definition Rzinner (d : sset) : pyval * pyval := (PNone, srepr d).

Lemma zfold_nil idx : (forall s, iidx_get idx s = []) -> forall l,
  fold_left (fun d s => fold_left sadd (iidx_get idx s) d) l ([] : sset) = [].
Proof.
  intros Hnil. induction l as [|s l IH]; cbn [fold_left]; [reflexivity|].
  rewrite Hnil. cbn [fold_left]. exact IH.
Qed.

Theorem size_find_candidates_eq p idx mn mx ny lb ub :
  g_lb p ny = PInt lb -> g_ub p ny = PInt ub ->
  size_filter_find_candidates (PStr (fm p)) (ft p) (PInt ny) (iidx_repr idx) (PInt mn) (PInt mx)
  = srepr (zprobe_abs idx mn mx lb ub ny).
Proof.
  intros Hlb Hub. unfold size_filter_find_candidates, zprobe_abs.
  assert (Hnot : py_not (iidx_repr idx) = PBool (match idx with [] => true | _ => false end))
    by (destruct idx; reflexivity).
  rewrite Hnot. cbn [bindx py_truth].
  destruct idx as [|e0 idx'] eqn:Eidx.
  { destruct (ny <? lb); [reflexivity|]. cbv zeta. rewrite zfold_nil by reflexivity. reflexivity. }
  rewrite <- Eidx. clear Hnot Eidx e0 idx'.
  change (get_size_lower_bound (PInt ny) (PStr (fm p)) (ft p)) with (g_lb p ny).
  change (get_size_upper_bound (PInt ny) (PStr (fm p)) (ft p)) with (g_ub p ny).
  rewrite Hlb, Hub. cbn [bindx]. rewrite py_gt_int_val. cbn [bindx py_truth].
  destruct (ny <? lb); [reflexivity|].
  rewrite py_lt_int_val, py_gt_int_val. cbn [py_if py_truth]. cbv zeta.
  set (LB := if lb <? mn then mn else lb). set (UB := if mx <? ub then mx else ub).
  replace (if lb <? mn then PInt mn else PInt lb) with (PInt LB) by (unfold LB; destruct (lb <? mn); reflexivity).
  replace (if mx <? ub then PInt mx else PInt ub) with (PInt UB) by (unfold UB; destruct (mx <? ub); reflexivity).
  cbn [bindx]. rewrite py_add_int, py_range_int. unfold pints at 1.
  change (PNone, (PExc "UnboundLocalError"%string, PDict [])) with (Rzouter []).
  match goal with |- context [py_for (PList (map PInt ?l)) ?r ?f ?b (Rzouter ?a0)] =>
    rewrite (py_for_eq _ _ _ PInt Rzouter r f b
               (fun d s => fold_left sadd (iidx_get idx s) d) l a0) end.
  - reflexivity.
  - reflexivity.
  - intros d s _. unfold Rzouter. cbv beta iota. cbn [bindx].
    rewrite py_dict_get3_iidx. unfold pints.
    change (PNone, srepr d) with (Rzinner d).
    match goal with |- context [py_for (PList (map PInt ?l)) ?r ?f ?b (Rzinner ?a0)] =>
      rewrite (py_for_eq _ _ _ PInt Rzinner r f b sadd l a0) end.
    + reflexivity.
    + reflexivity.
    + intros d' c _. unfold Rzinner. cbv beta iota. cbn [bindx].
      rewrite py_set_add_srepr. reflexivity.
Qed.

(* ------------------------------------------------------------------ refinement *)
Lemma mem_zposts s (C : nat) ns : forall xs (c0 : nat),
  (forall n, (n < List.length xs)%nat -> nth n xs 0 = nth (c0 + n) ns 0) ->
  existsb (Z.eqb (Z.of_nat C)) (zposts_from s (Z.of_nat c0) xs)
  = (c0 <=? C)%nat && (C <? c0 + List.length xs)%nat
    && ((nth C ns 0 =? s) && negb (nth C ns 0 =? 0)).
Proof.
  induction xs as [|x xs IH]; intros c0 Hnth; cbn [zposts_from existsb List.length].
  - replace ((c0 <=? C)%nat && (C <? c0 + 0)%nat) with false; [reflexivity|].
    symmetry. apply andb_false_iff.
    destruct (Nat.leb_spec c0 C); [right; apply Nat.ltb_ge; lia | left; reflexivity].
  - rewrite existsb_app. replace (Z.of_nat c0 + 1) with (Z.of_nat (S c0)) by lia.
    rewrite IH.
    2:{ intros n Hn. specialize (Hnth (S n)). cbn [nth] in Hnth.
        rewrite Hnth by (cbn [List.length]; lia). f_equal. lia. }
    assert (Hx : x = nth c0 ns 0).
    { specialize (Hnth O). cbn [nth] in Hnth. rewrite Hnth by (cbn [List.length]; lia). f_equal. lia. }
    destruct (Nat.eq_dec c0 C) as [->|Hne].
    + rewrite <- Hx.
      replace ((S C <=? C)%nat) with false by (symmetry; apply Nat.leb_gt; lia).
      replace ((C <=? C)%nat && (C <? C + S (List.length xs))%nat) with true
        by (symmetry; apply andb_true_iff; split; [apply Nat.leb_le | apply Nat.ltb_lt]; lia).
      cbn [andb]. rewrite orb_false_r.
      destruct ((x =? s) && negb (x =? 0)); cbn [existsb]; [|reflexivity].
      now rewrite Z.eqb_refl.
    + assert (E : existsb (Z.eqb (Z.of_nat C)) (if (x =? s) && negb (x =? 0) then [Z.of_nat c0] else []) = false).
      { destruct ((x =? s) && negb (x =? 0)); cbn [existsb]; [|reflexivity].
        destruct (Z.eqb_spec (Z.of_nat C) (Z.of_nat c0)); [lia | reflexivity]. }
      rewrite E. cbn [orb]. f_equal.
      destruct (Nat.leb_spec (S c0) C), (Nat.leb_spec c0 C),
        (Nat.ltb_spec C (S c0 + List.length xs)), (Nat.ltb_spec C (c0 + S (List.length xs)));
        try reflexivity; lia.
Qed.

Lemma existsb_zrange (n a b : Z) : existsb (fun s => n =? s) (zrange a b) = (a <=? n) && (n <? b).
Proof.
  destruct (existsb (fun s => n =? s) (zrange a b)) eqn:E.
  - apply existsb_exists in E. destruct E as (s & Hs & Es). apply in_zrange in Hs.
    apply Z.eqb_eq in Es. subst s. symmetry. apply andb_true_iff.
    split; [apply Z.leb_le | apply Z.ltb_lt]; lia.
  - symmetry. apply andb_false_iff.
    destruct (Z.leb_spec a n) as [Ha|Ha]; [|left; reflexivity]. right.
    destruct (Z.ltb_spec n b) as [Hb|Hb]; [|reflexivity].
    exfalso. assert (Ht : existsb (fun s => n =? s) (zrange a b) = true).
    { apply existsb_exists. exists n. split; [apply in_zrange; lia | apply Z.eqb_refl]. }
    congruence.
Qed.

Lemma size_cand_int p nx ny lb ub : g_lb p ny = PInt lb -> g_ub p ny = PInt ub ->
  size_cand p nx ny = (0 <? nx) && negb (ny <? lb) && ((lb <=? nx) && (nx <=? ub)).
Proof.
  intros Hlb Hub. unfold size_cand, in_window. rewrite Hlb, Hub.
  rewrite py_gt_int_val, !py_le_int_val', py_and_bools. reflexivity.
Qed.

Theorem size_find_candidates_refines : forall p attr tokenize rows ns ce ny lb ub,
  Forall2 (zrow_ok attr tokenize) rows ns ->
  (forall n, In n ns -> 0 <= n) ->
  g_lb p ny = PInt lb -> g_ub p ny = PInt ub ->
  exists index mn mx ret d,
    size_index_build (PList rows) attr (PBool ce) tokenize = PTuple [index; PInt mn; PInt mx; ret] /\
    size_filter_find_candidates (PStr (fm p)) (ft p) (PInt ny) index (PInt mn) (PInt mx) = srepr d /\
    forall c, (c < List.length ns)%nat -> smem d (Z.of_nat c) = size_cand p (nth c ns 0) ny.
Proof.
  intros p attr tokenize rows ns ce ny lb ub Hrows Hnn Hlb Hub.
  set (a := zbuild_abs ce ns).
  exists (iidx_repr (z_idx a)), (z_min a), (z_max a),
    (PDict [PTuple [PStr "empty_records"%string; pints (z_empty a)]]),
    (zprobe_abs (z_idx a) (z_min a) (z_max a) lb ub ny).
  split; [exact (size_index_build_eq attr tokenize rows ns ce Hrows)|].
  split; [apply size_find_candidates_eq; assumption|].
  intros c Hc. rewrite (size_cand_int p _ ny lb ub Hlb Hub). unfold zprobe_abs.
  destruct (ny <? lb); [cbn [smem aget negb]; now rewrite andb_false_r|]. cbv zeta.
  set (LB := if lb <? z_min a then z_min a else lb). set (UB := if z_max a <? ub then z_max a else ub).
  assert (G : forall l d, smem (fold_left (fun d s => fold_left sadd (iidx_get (z_idx a) s) d) l d) (Z.of_nat c)
                          = smem d (Z.of_nat c)
                            || (existsb (fun s => nth c ns 0 =? s) l && negb (nth c ns 0 =? 0))).
  { induction l as [|s l IH]; intros d; cbn [fold_left existsb]; [now rewrite orb_false_r|].
    rewrite IH, smem_fold. unfold a. rewrite zbuild_postings. change 0 with (Z.of_nat 0) at 1.
    rewrite (mem_zposts s c ns ns 0) by (intros n _; reflexivity).
    replace ((0 <=? c)%nat && (c <? 0 + List.length ns)%nat) with true
      by (symmetry; apply andb_true_iff; split; [apply Nat.leb_le | apply Nat.ltb_lt]; lia).
    cbn [andb]. destruct (smem d (Z.of_nat c)), (nth c ns 0 =? s), (negb (nth c ns 0 =? 0)),
      (existsb (fun s0 => nth c ns 0 =? s0) l); reflexivity. }
  rewrite G, existsb_zrange. cbn [smem aget orb negb andb].
  set (n := nth c ns 0).
  assert (Hn : In n ns) by (apply nth_In; exact Hc).
  pose proof (zbuild_bounds ce ns n Hn) as Hb. fold a in Hb. specialize (Hnn n Hn).
  unfold LB, UB.
  destruct (Z.ltb_spec lb (z_min a)), (Z.ltb_spec (z_max a) ub), (Z.eqb_spec n 0), (Z.ltb_spec 0 n);
    cbn [negb andb]; try lia;
    repeat match goal with |- context [?x <=? ?y] => destruct (Z.leb_spec x y) end;
    repeat match goal with |- context [?x <? ?y] => destruct (Z.ltb_spec x y) end;
    cbn [andb]; try reflexivity; lia.
Qed.

Print Assumptions size_index_build_eq.
Print Assumptions size_find_candidates_refines.
