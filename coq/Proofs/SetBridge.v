(* From the declarative predicate `qualifies` (Spec/JoinSpec.v) on duplicate-free token lists to
   the conditions under which the size / prefix / position filters keep a pair:
   size windows, overlap threshold, prefix lengths, and a common value in the two prefixes.
   The generic part (Section Bridge) is parametric in the measure m and in the four arithmetic
   statements F1/F2/F3/F5 of Spec/ArithSpec.v and is axiom-free; the instances for
   JACCARD / COSINE / DICE use Proofs/Arith{J,C,D}.v.                                        *)
From Coq Require Import ZArith Bool List String Lia Sorted SpecFloat.
From SSJ Require Import F64 PyNum FilterUtilsGen HelperGen TokenOrdering Measures ArithSpec
     Filters Joins JoinSpec Prefix PositionSafe PrefixSets OrderingFacts PyFacts
     ArithJ ArithC ArithD.
Import ListNotations.
Open Scope string_scope.
Open Scope Z_scope.
Local Notation length := List.length.

(* ------------------------------------------------------------------ operators *)
Definition op_ok (op : string) : Prop := op = ">=" \/ op = ">" \/ op = "=".

Lemma SFcompare_swap x y : SFcompare y x = option_map CompOpp (SFcompare x y).
Proof.
  destruct x as [sx|sx| |sx mx ex], y as [sy|sy| |sy my ey]; simpl; try reflexivity;
    try (destruct sx; reflexivity); try (destruct sy; reflexivity);
    try (destruct sx, sy; reflexivity).
  destruct sx, sy; simpl; try reflexivity.
  - rewrite (Z.compare_antisym ex ey). destruct (ex ?= ey) eqn:E; simpl; try reflexivity.
    rewrite (Pos.compare_cont_antisym mx my Eq). reflexivity.
  - rewrite (Z.compare_antisym ex ey). destruct (ex ?= ey) eqn:E; simpl; try reflexivity.
    rewrite (Pos.compare_cont_antisym mx my Eq). reflexivity.
Qed.

(* any of the three operators on two floats implies  t <= s  *)
Lemma cmp_op_fleb op s t :
  op_ok op -> cmp_op op (PFloat s) (PFloat t) = true -> fleb t s = true.
Proof.
  intros Hop H. unfold fleb, SFleb. rewrite (SFcompare_swap s t).
  destruct Hop as [-> | [-> | ->]]; unfold cmp_op in H.
  - change (comp_op_map ">=") with (Some py_ge) in H.
    unfold py_ge, py_ord, strict2, ord_cmp, num_of, num_cmp in H.
    destruct (SFcompare s t) as [[]|]; simpl in *; congruence.
  - change (comp_op_map ">") with (Some py_gt) in H.
    unfold py_gt, py_ord, strict2, ord_cmp, num_of, num_cmp in H.
    destruct (SFcompare s t) as [[]|]; simpl in *; congruence.
  - change (comp_op_map "=") with (Some py_eq) in H.
    unfold py_eq, strict2, pv_eqb, num_of, num_cmp in H.
    destruct (SFcompare s t) as [[]|]; simpl in *; congruence.
Qed.

(* ------------------------------------------------------------------ zero overlap *)
Lemma f_of_Z_0 : f_of_Z 0 = S754_zero false.
Proof. vm_compute. reflexivity. Qed.
Lemma fmul_two_0 : fmul f_two (f_of_Z 0) = S754_zero false.
Proof. vm_compute. reflexivity. Qed.

Definition zero_or_nan (f : f64) : Prop :=
  match f with S754_zero _ | S754_nan => True | _ => False end.

Lemma fdiv_zero_l s y : zero_or_nan (fdiv (S754_zero s) y).
Proof. destruct y; exact I. Qed.

Lemma sim_formula_o0 m a b : zero_or_nan (sim_formula m a b 0).
Proof.
  unfold sim_formula.
  destruct (String.eqb m "JACCARD"); [rewrite f_of_Z_0; apply fdiv_zero_l|].
  destruct (String.eqb m "COSINE"); [rewrite f_of_Z_0; apply fdiv_zero_l|].
  destruct (String.eqb m "DICE"); [rewrite fmul_two_0; apply fdiv_zero_l|].
  exact I.
Qed.

Lemma t_lo_val : mkF 1 (-30) = S754_finite false 4503599627370496 (-82).
Proof. vm_compute. reflexivity. Qed.

Lemma env_t_not_le_zero t f : env_t t = true -> zero_or_nan f -> fleb t f = false.
Proof.
  unfold env_t. intros H Hz.
  apply andb_true_iff in H. destruct H as [H _].
  apply andb_true_iff in H. destruct H as [_ H].
  rewrite t_lo_val in H.
  destruct f as [sf|sf| |sf mf ef]; try contradiction.
  - destruct t as [st|st| |st mt et]; try discriminate H; try reflexivity;
      destruct st; try discriminate H; reflexivity.
  - destruct t as [st|st| |st mt et]; reflexivity.
Qed.

Lemma qual_ge_overlap_pos m t a b :
  env_t t = true -> ~ (a = 0 /\ b = 0) -> qual_ge m t a b 0 = false.
Proof.
  intros Ht Hab. unfold qual_ge.
  assert (E : sim_sizes m a b 0 = sim_formula m a b 0).
  { unfold sim_sizes. destruct (Z.eqb_spec 0 a) as [Ea|Ea]; [|reflexivity].
    destruct (Z.eqb_spec 0 b) as [Eb|Eb]; [|reflexivity]. exfalso. apply Hab. split; congruence. }
  rewrite E. rewrite (env_t_not_le_zero t _ Ht (sim_formula_o0 m a b)). reflexivity.
Qed.

(* ------------------------------------------------------------------ lists *)
Lemma dedup_nodup_id l : NoDup l -> dedup l = l.
Proof.
  induction 1 as [|h t Hnin Hnd IH]; simpl; [reflexivity|].
  rewrite IH. f_equal. apply filter_all.
  intros w Hw. apply negb_true_iff. apply Z.eqb_neq. intro E. subst. contradiction.
Qed.

Lemma hits_le_sym X Y : NoDup Y -> (hits X Y <= hits Y X)%nat.
Proof.
  intros Hnd. unfold hits at 2. apply hits_bound_incl; [exact Hnd|].
  intros y HyY HyX. apply filter_In. split; [exact HyX|]. apply mem_In. exact HyY.
Qed.
Lemma hits_sym X Y : NoDup X -> NoDup Y -> hits X Y = hits Y X.
Proof. intros HX HY. apply Nat.le_antisymm; apply hits_le_sym; assumption. Qed.

Lemma overlap_sets_hits x y : NoDup x -> NoDup y -> overlap_sets x y = Z.of_nat (hits y x).
Proof.
  intros Hx Hy. unfold overlap_sets. rewrite (dedup_nodup_id x Hx), (dedup_nodup_id y Hy).
  reflexivity.
Qed.

Lemma filter_len_le_all (f : Z -> bool) l : (length (filter f l) <= length l)%nat.
Proof. induction l as [|h t IH]; simpl; [lia|]. destruct (f h); simpl; lia. Qed.

Lemma filter_length_all (f : Z -> bool) l :
  length (filter f l) = length l -> forall w, In w l -> f w = true.
Proof.
  induction l as [|h t IH]; intros Hl w Hw; [destruct Hw|]. simpl in Hl.
  pose proof (filter_len_le_all f t) as Hle.
  destruct (f h) eqn:E; simpl in Hl.
  - destruct Hw as [->|Hw]; [exact E|]. apply IH; [lia|exact Hw].
  - lia.
Qed.

Lemma hits_full_incl X Y : hits X Y = length Y -> forall w, In w Y -> In w X.
Proof.
  unfold hits. intros H w Hw. apply mem_In.
  exact (filter_length_all (fun y => mem y X) Y H w Hw).
Qed.
Lemma hits_self X : hits X X = length X.
Proof.
  unfold hits. rewrite filter_all; [reflexivity|]. intros w Hw. apply mem_In. exact Hw.
Qed.

Lemma list_eqbZ_eq a : forall b, list_eqbZ a b = true <-> a = b.
Proof.
  induction a as [|x a IH]; intros [|y b]; simpl; split; intros H; try reflexivity;
    try discriminate.
  - apply andb_true_iff in H. destruct H as [H1 H2]. apply Z.eqb_eq in H1.
    apply IH in H2. congruence.
  - inversion H; subst. rewrite Z.eqb_refl. simpl. apply IH. reflexivity.
Qed.

(* two strictly sorted lists are equal iff the overlap equals both lengths *)
Lemma ssorted_eq_iff_hits X Y :
  StronglySorted Z.lt X -> StronglySorted Z.lt Y ->
  (X = Y <-> (hits Y X = length X /\ hits Y X = length Y)).
Proof.
  intros HsX HsY. split.
  - intros <-. rewrite hits_self. split; reflexivity.
  - intros [H1 H2]. apply ssorted_ext; [exact HsX|exact HsY|].
    intros v. split.
    + apply hits_full_incl. exact H1.
    + apply hits_full_incl.
      rewrite (hits_sym X Y (ssorted_nodup X HsX) (ssorted_nodup Y HsY)). exact H2.
Qed.

(* ------------------------------------------------------------------ windows *)
Lemma in_window_int lb ub n : in_window (PInt lb) (PInt ub) n = (lb <=? n) && (n <=? ub).
Proof. unfold in_window. rewrite !py_le_int_val. apply py_and_bool. Qed.

Lemma toZ_PInt v z : toZ v = Some z -> v = PInt z.
Proof. destruct v; simpl; intros H; try discriminate. congruence. Qed.

Lemma firstn_skipn_len (n : nat) (X : list Z) :
  length (skipn n X) = (length X - n)%nat.
Proof. apply skipn_length. Qed.

(* ------------------------------------------------------------------ the bridge *)
Section Bridge.
  Variable m : string.
  Hypothesis HF1 : F1_stmt m.
  Hypothesis HF2 : F2_stmt m.
  Hypothesis HF3 : F3_stmt m.
  Hypothesis HF5 : F5_stmt m.
  Variable t : f64.
  Variable q : Z.
  Hypothesis Ht : env_t t = true.
  Let p := {| fm := m; ft := PFloat t; fq := q |}.

  (* totality of the formulas (F5), in terms of the model's g_* functions *)
  Lemma g_total n : 1 <= n < size_bound ->
    exists lb ub pl, g_lb p n = PInt lb /\ g_ub p n = PInt ub /\ g_pl p n = PInt pl /\
                     0 <= lb <= n /\ n <= ub /\ 1 <= pl <= n + 1.
  Proof.
    intros Hn. destruct (HF5 t q n Ht Hn) as [lb [ub [pl [H1 [H2 [H3 H4]]]]]].
    exists lb, ub, pl. unfold g_lb, g_ub, g_pl, p; cbn [fm ft fq].
    rewrite (toZ_PInt _ _ H1), (toZ_PInt _ _ H2), (toZ_PInt _ _ H3).
    repeat split; lia.
  Qed.

  Lemma g_pl_0 : g_pl p 0 = PInt 0.
  Proof. reflexivity. Qed.

  (* sizes only *)
  Lemma size_bridge a b o :
    sizes_ok a b o -> qual_ge m t a b o = true ->
    exists al pa pb,
      in_window (g_lb p b) (g_ub p b) a = true /\
      in_window (g_lb p a) (g_ub p a) b = true /\
      g_ot p a b = PInt al /\ al <= o /\
      g_pl p a = PInt pa /\ g_pl p b = PInt pb /\
      a - pa + 1 <= o /\ b - pb + 1 <= o /\ 1 <= pa <= a + 1 /\ 1 <= pb <= b + 1.
  Proof.
    intros Hs Hq. pose proof Hs as [Ho1 [Hoa [Hob [Ha Hb]]]].
    destruct (HF1 t a b o Ht Hs Hq) as [lb [ub [lb' [ub' [L1 [U1 [W1 [L2 [U2 W2]]]]]]]]].
    destruct (HF2 t q a b o Ht Hs Hq) as [al [al' [A1 [A2 _]]]].
    destruct (HF3 t q a b o Ht Hs Hq) as [pa [pb [P1 [P2 [P3 P4]]]]].
    destruct (HF5 t q a Ht) as [_ [_ [pa' [_ [_ [P1' [_ [_ Ra]]]]]]]]; [lia|].
    destruct (HF5 t q b Ht) as [_ [_ [pb' [_ [_ [P3' [_ [_ Rb]]]]]]]]; [lia|].
    assert (pa' = pa) by congruence. assert (pb' = pb) by congruence. subst pa' pb'.
    exists al, pa, pb. unfold g_lb, g_ub, g_pl, g_ot, p; cbn [fm ft fq].
    unfold lbZ in L1, L2. unfold ubZ in U1, U2. unfold otZ in A1. unfold plZ in P1, P3.
    rewrite (toZ_PInt _ _ L1), (toZ_PInt _ _ U1), (toZ_PInt _ _ L2), (toZ_PInt _ _ U2),
      (toZ_PInt _ _ A1), (toZ_PInt _ _ P1), (toZ_PInt _ _ P3).
    rewrite !in_window_int.
    repeat split; try lia; apply andb_true_iff; split; apply Z.leb_le; lia.
  Qed.

  (* from the declarative predicate on token lists to the size-level predicate *)
  Lemma qualifies_sizes op x y :
    is_jcd m = true -> op_ok op -> NoDup x -> NoDup y ->
    len x < size_bound -> len y < size_bound -> ~ (x = [] /\ y = []) ->
    qualifies m op (PFloat t) x y = true ->
    qual_ge m t (len x) (len y) (overlap_sets x y) = true /\
    sizes_ok (len x) (len y) (overlap_sets x y).
  Proof.
    intros Hm Hop Hx Hy Ha Hb Hne Hq.
    unfold qualifies, raw_score, reported_score in Hq. rewrite Hm in Hq.
    rewrite (dedup_nodup_id x Hx), (dedup_nodup_id y Hy) in Hq.
    apply andb_true_iff in Hq. destruct Hq as [Hq1 Hq2].
    apply (cmp_op_fleb op _ _ Hop) in Hq1. apply (cmp_op_fleb op _ _ Hop) in Hq2.
    assert (Hqg : qual_ge m t (len x) (len y) (overlap_sets x y) = true).
    { unfold qual_ge. rewrite Hq1, Hq2. reflexivity. }
    split; [exact Hqg|].
    rewrite (overlap_sets_hits x y Hx Hy) in *.
    pose proof (hits_le y x) as H1.
    pose proof (hits_le x y) as H2. rewrite (hits_sym x y Hx Hy) in H2.
    unfold sizes_ok, len in *.
    destruct (hits y x) as [|k] eqn:Eh.
    - exfalso. simpl in Hqg.
      rewrite qual_ge_overlap_pos in Hqg; [discriminate|exact Ht|].
      intros [E1 E2]. apply Hne. split.
      + destruct x; [reflexivity|simpl in E1; lia].
      + destruct y; [reflexivity|simpl in E2; lia].
    - repeat split; lia.
  Qed.

  (* the whole bridge, on the rank lists *)
  Theorem set_bridge op all x y :
    is_jcd m = true -> op_ok op -> NoDup x -> NoDup y ->
    (forall w, In w x -> In w all) -> (forall w, In w y -> In w all) ->
    len x < size_bound -> len y < size_bound -> ~ (x = [] /\ y = []) ->
    qualifies m op (PFloat t) x y = true ->
    let X := order all x in let Y := order all y in
    let a := len x in let b := len y in let o := overlap_sets x y in
    exists al pa pb,
      StronglySorted Z.lt X /\ StronglySorted Z.lt Y /\ len X = a /\ len Y = b /\
      o = Z.of_nat (hits X Y) /\ o = Z.of_nat (hits Y X) /\
      qual_ge m t a b o = true /\ sizes_ok a b o /\
      in_window (g_lb p b) (g_ub p b) a = true /\
      in_window (g_lb p a) (g_ub p a) b = true /\
      g_ot p a b = PInt al /\ al <= o /\
      g_pl p a = PInt pa /\ g_pl p b = PInt pb /\
      a - pa + 1 <= o /\ b - pb + 1 <= o /\ 1 <= pa <= a + 1 /\ 1 <= pb <= b + 1 /\
      (1 <= hits (firstn (Z.to_nat pa) X) (firstn (Z.to_nat pb) Y))%nat.
  Proof.
    intros Hm Hop Hx Hy Hxa Hya Ha Hb Hne Hq X Y a b o.
    destruct (qualifies_sizes op x y Hm Hop Hx Hy Ha Hb Hne Hq) as [Hqg Hs].
    fold a b o in Hqg, Hs.
    destruct (size_bridge a b o Hs Hqg)
      as [al [pa [pb [W1 [W2 [A1 [A2 [P1 [P2 [P3 [P4 [Ra Rb]]]]]]]]]]]].
    assert (HsX : StronglySorted Z.lt X) by (apply order_ssorted; assumption).
    assert (HsY : StronglySorted Z.lt Y) by (apply order_ssorted; assumption).
    assert (HlX : len X = a) by (unfold len, X, a; rewrite order_length by exact Hxa; reflexivity).
    assert (HlY : len Y = b) by (unfold len, Y, b; rewrite order_length by exact Hya; reflexivity).
    assert (Ho1 : o = Z.of_nat (hits X Y)).
    { unfold o, X, Y. rewrite (order_hits all x y Hx Hy Hxa Hya).
      rewrite (hits_sym x y Hx Hy). apply overlap_sets_hits; assumption. }
    assert (Ho2 : o = Z.of_nat (hits Y X)).
    { rewrite Ho1. f_equal. apply hits_sym; apply ssorted_nodup; assumption. }
    exists al, pa, pb. repeat (split; [assumption|]).
    (* the two prefixes share a value *)
    destruct (hits (firstn (Z.to_nat pa) X) (firstn (Z.to_nat pb) Y)) as [|k] eqn:Eh; [exfalso|lia].
    destruct Hs as [Ho [Hoa [Hob _]]].
    pose proof (firstn_skipn (Z.to_nat pa) X) as EX.
    pose proof (firstn_skipn (Z.to_nat pb) Y) as EY.
    assert (Hpre : (hits X Y <= Nat.max (length (skipn (Z.to_nat pa) X))
                                         (length (skipn (Z.to_nat pb) Y)))%nat).
    { rewrite <- EX at 1. rewrite <- EY at 1. apply prefix_hits.
      - rewrite EX. exact HsX.
      - rewrite EY. exact HsY.
      - intro E. apply (f_equal (@length Z)) in E. rewrite firstn_length in E.
        unfold len in HlX. simpl in E. lia.
      - intro E. apply (f_equal (@length Z)) in E. rewrite firstn_length in E.
        unfold len in HlY. simpl in E. lia.
      - exact Eh. }
    rewrite !skipn_length in Hpre. unfold len in HlX, HlY. lia.
  Qed.
End Bridge.

(* ------------------------------------------------------------------ J / C / D *)
Lemma is_jcd_cases m : is_jcd m = true -> m = "JACCARD" \/ m = "COSINE" \/ m = "DICE".
Proof.
  unfold is_jcd. intros H. apply orb_true_iff in H. destruct H as [H|H].
  - apply orb_true_iff in H. destruct H as [H|H]; apply String.eqb_eq in H; auto.
  - apply String.eqb_eq in H. auto.
Qed.

Lemma jcd_F m : is_jcd m = true -> F1_stmt m /\ F2_stmt m /\ F3_stmt m /\ F5_stmt m.
Proof.
  intros H. destruct (is_jcd_cases m H) as [-> | [-> | ->]].
  - repeat split; [apply F1_J|apply F2_J|apply F3_J|apply F5_J].
  - repeat split; [apply F1_C|apply F2_C|apply F3_C|apply F5_C].
  - repeat split; [apply F1_D|apply F2_D|apply F3_D|apply F5_D].
Qed.

Theorem set_bridge_jcd m t q op all x y :
  is_jcd m = true -> env_t t = true -> op_ok op -> NoDup x -> NoDup y ->
  (forall w, In w x -> In w all) -> (forall w, In w y -> In w all) ->
  len x < size_bound -> len y < size_bound -> ~ (x = [] /\ y = []) ->
  qualifies m op (PFloat t) x y = true ->
  let p := {| fm := m; ft := PFloat t; fq := q |} in
  let X := order all x in let Y := order all y in
  let a := len x in let b := len y in let o := overlap_sets x y in
  exists al pa pb,
    StronglySorted Z.lt X /\ StronglySorted Z.lt Y /\ len X = a /\ len Y = b /\
    o = Z.of_nat (hits X Y) /\ o = Z.of_nat (hits Y X) /\
    qual_ge m t a b o = true /\ sizes_ok a b o /\
    in_window (g_lb p b) (g_ub p b) a = true /\
    in_window (g_lb p a) (g_ub p a) b = true /\
    g_ot p a b = PInt al /\ al <= o /\
    g_pl p a = PInt pa /\ g_pl p b = PInt pb /\
    a - pa + 1 <= o /\ b - pb + 1 <= o /\ 1 <= pa <= a + 1 /\ 1 <= pb <= b + 1 /\
    (1 <= hits (firstn (Z.to_nat pa) X) (firstn (Z.to_nat pb) Y))%nat.
Proof.
  intros Hm Ht. destruct (jcd_F m Hm) as [H1 [H2 [H3 H5]]].
  apply (set_bridge m H1 H2 H3 H5 t q Ht op all x y Hm).
Qed.

(* non-vacuity: J(x0,y0) = 3/6 >= 0.5 *)
Example bridge_ex :
  let x := [1;2;3;4;5] in let y := [2;3;4;7] in let t := mkF 1 (-1) in
  env_t t = true /\ qualifies "JACCARD" ">=" (PFloat t) x y = true /\
  overlap_sets x y = 3 /\
  g_pl {| fm := "JACCARD"; ft := PFloat t; fq := 2 |} 5 = PInt 3.
Proof. vm_compute. repeat split; reflexivity. Qed.

Print Assumptions set_bridge.
Print Assumptions set_bridge_jcd.
