(* The chunk-partition fact about the GENERATED split_table / get_num_processes_to_launch, in the
   shapes the API-level theorems take as their hypothesis.                                  *)
From Coq Require Import ZArith List.
From SSJ Require Import F64 PyNum HelperGen Api SplitArith SplitFacts.
Import ListNotations.
Open Scope Z_scope.

Lemma hpart_bounded :
  forall (A : Type) (njobs cpus : Z) (Rp : list A),
  Z.of_nat (List.length Rp) < 2^31 ->
  exists chs, chunks_of njobs cpus Rp = Some chs /\ List.concat (map snd chs) = Rp.
Proof.
  intros A njobs cpus Rp H.
  destruct (chunks_of_partition A njobs cpus Rp H) as [chs [H1 [H2 _]]].
  exists chs. split; assumption.
Qed.

Lemma hpart_cpus_bounded :
  forall (A : Type) (njobs cpus : Z) (Rp : list A),
  1 <= cpus -> Z.of_nat (List.length Rp) < 2^31 ->
  exists chs, chunks_of njobs cpus Rp = Some chs /\ List.concat (map snd chs) = Rp.
Proof. intros A njobs cpus Rp _ H. apply hpart_bounded. exact H. Qed.
