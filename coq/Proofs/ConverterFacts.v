(* C16 (converters): which clauses of Spec/ConverterSpec.v the faithful model of
   utils/converter.py (Model/Converter.v) satisfies, over ALL well-formed series and all calls.
   Lists / Z / executable floats only: axiom-free.                                           *)
From Coq Require Import ZArith Bool List String SpecFloat Lia.
From SSJ Require Import F64 PyNum Converter ConverterSpec.
Import ListNotations.
Open Scope Z_scope.

(* ------------------------------------------------------------------ *)
(** * 1. Reflexivity of the comparison functions                       *)

Lemma fbits_same_refl : forall x, fbits_same x x = true.
Proof.
intros x. unfold fbits_same. destruct (f_canon x) as [[s m] e].
now rewrite eqb_reflx, !Z.eqb_refl.
Qed.

Lemma cell_eqb_refl : forall c, cell_eqb c c = true.
Proof.
intros [ |z|f|b|i|z|f]; cbn [cell_eqb];
  auto using Z.eqb_refl, fbits_same_refl, eqb_reflx.
Qed.

Lemma cells_eqb_refl : forall l, cells_eqb l l = true.
Proof.
induction l as [|c l IH]; cbn [cells_eqb]; [reflexivity | ].
now rewrite cell_eqb_refl, IH.
Qed.

Lemma dtype_eqb_refl : forall d, dtype_eqb d d = true.
Proof. now intros []. Qed.

Lemma series_eqb_refl : forall s, series_eqb s s = true.
Proof. intros s. unfold series_eqb. now rewrite dtype_eqb_refl, cells_eqb_refl. Qed.

(* ------------------------------------------------------------------ *)
(** * 2. List counting lemmas                                          *)

Lemma Zeqb_of_nat : forall a b : nat, Z.eqb (Z.of_nat a) (Z.of_nat b) = Nat.eqb a b.
Proof.
intros a b. destruct (Nat.eqb_spec a b) as [E|E].
- subst. apply Z.eqb_refl.
- apply Z.eqb_neq. lia.
Qed.

Lemma filter_le : forall (A : Type) (p : A -> bool) l,
  (List.length (filter p l) <= List.length l)%nat.
Proof.
intros A p l. induction l as [|a l IH]; cbn [filter List.length]; [lia | ].
destruct (p a); cbn [List.length]; lia.
Qed.

Lemma filter_all_eqb : forall (A : Type) (p : A -> bool) l,
  Nat.eqb (List.length (filter p l)) (List.length l) = forallb p l.
Proof.
intros A p l. induction l as [|a l IH]; cbn [filter List.length forallb]; [reflexivity | ].
destruct (p a); cbn [List.length andb].
- exact IH.
- pose proof (filter_le A p l) as H. apply Nat.eqb_neq. lia.
Qed.

Lemma filter_none_eqb : forall (A : Type) (p : A -> bool) l,
  Nat.eqb (List.length (filter (fun x => negb (p x)) l)) 0 = forallb p l.
Proof.
intros A p l. induction l as [|a l IH]; cbn [filter List.length forallb]; [reflexivity | ].
destruct (p a); cbn [negb List.length andb]; [exact IH | reflexivity].
Qed.

(* ------------------------------------------------------------------ *)
(** * 3. Facts about the cell conversions                              *)

Lemma conv_int_null : forall c, cell_isnull (conv_int_cell c) = cell_isnull c.
Proof.
intros c. unfold conv_int_cell. destruct (cell_isnull c) eqn:E; [reflexivity | ].
destruct c; try exact E; reflexivity.
Qed.

Lemma conv_float_null : forall c, cell_isnull (conv_float_cell c) = cell_isnull c.
Proof.
intros c. unfold conv_float_cell. destruct (cell_isnull c) eqn:E; [reflexivity | ].
destruct c; try exact E; reflexivity.
Qed.

Lemma forallb_map_null : forall (f : cell -> cell) l,
  (forall c, cell_isnull (f c) = cell_isnull c) ->
  forallb cell_isnull (map f l) = forallb cell_isnull l.
Proof.
intros f l H. induction l as [|c l IH]; cbn [map forallb]; [reflexivity | ].
now rewrite H, IH.
Qed.

Lemma keep_missing_map : forall (f : cell -> cell) l,
  (forall c, cell_isnull c = true -> cell_isnull (f c) = true) ->
  all2 keep_missing l (map f l) = true.
Proof.
intros f l H. induction l as [|c l IH]; cbn [map all2]; [reflexivity | ].
rewrite IH, andb_true_r. unfold keep_missing.
destruct (cell_isnull c) eqn:E; [now apply H | reflexivity].
Qed.

Lemma keep_missing_refl : forall l, all2 keep_missing l l = true.
Proof.
intros l. rewrite <- (map_id l) at 2. apply keep_missing_map. now intros c H.
Qed.

(* well-formed cells of an int column / a float column *)
Definition wf_cells (d : dtype) (l : list cell) : bool := forallb (wf_cell d) l.

Lemma want_int_cells : forall b l, wf_cells DInt l = true ->
  all2 (want_cell b) l (map str_of_cell l) = true.
Proof.
intros b l. induction l as [|c l IH]; cbn [wf_cells forallb map all2]; [reflexivity | ].
intros H. apply andb_prop in H. destruct H as [Hc Hl].
rewrite (IH Hl), andb_true_r.
destruct c; try discriminate Hc. cbn [want_cell str_of_cell]. apply cell_eqb_refl.
Qed.

Lemma int_cells_keep_missing : forall l, wf_cells DInt l = true ->
  all2 keep_missing l (map str_of_cell l) = true.
Proof.
intros l H. induction l as [|c l IH]; cbn [map all2]; [reflexivity | ].
cbn [wf_cells forallb] in H. apply andb_prop in H. destruct H as [Hc Hl].
rewrite (IH Hl), andb_true_r. destruct c; try discriminate Hc. reflexivity.
Qed.

Lemma want_float_int_cells : forall l, wf_cells DFloat l = true ->
  all2 (want_cell true) l (map conv_int_cell l) = true.
Proof.
induction l as [|c l IH]; cbn [wf_cells forallb map all2]; [reflexivity | ].
intros H. apply andb_prop in H. destruct H as [Hc Hl].
rewrite (IH Hl), andb_true_r.
destruct c; try discriminate Hc; [reflexivity | ].
cbn [wf_cell] in Hc. apply negb_true_iff in Hc.
unfold want_cell, conv_int_cell. cbn [cell_isnull]. rewrite Hc. apply cell_eqb_refl.
Qed.

Lemma want_float_float_cells : forall l, wf_cells DFloat l = true ->
  all2 (want_cell false) l (map conv_float_cell l) = true.
Proof.
induction l as [|c l IH]; cbn [wf_cells forallb map all2]; [reflexivity | ].
intros H. apply andb_prop in H. destruct H as [Hc Hl].
rewrite (IH Hl), andb_true_r.
destruct c; try discriminate Hc; [reflexivity | ].
cbn [wf_cell] in Hc. apply negb_true_iff in Hc.
unfold want_cell, conv_float_cell. cbn [cell_isnull]. rewrite Hc. apply cell_eqb_refl.
Qed.

(* the source's "all non-NaN values are integers" test is the declarative col_integral *)
Lemma integral_test : forall l, wf_cells DFloat l = true ->
  forallb cell_is_integer (filter (fun c => negb (cell_isnull c)) l) =
  col_integral (mkser DFloat l).
Proof.
unfold col_integral. cbn [s_cells].
induction l as [|c l IH]; cbn [wf_cells forallb filter]; [reflexivity | ].
intros H. apply andb_prop in H. destruct H as [Hc Hl].
destruct c; try discriminate Hc.
- cbn [cell_isnull negb]. now apply IH.
- cbn [wf_cell] in Hc. apply negb_true_iff in Hc.
  cbn [cell_isnull]. rewrite Hc. cbn [negb forallb cell_is_integer orb]. now rewrite IH.
Qed.

(* ------------------------------------------------------------------ *)
(** * 4. Closed form of series_to_str on well-formed series            *)

Definition conv_col (s : series) : series :=
  mkser DObject (map (if col_integral s then conv_int_cell else conv_float_cell) (s_cells s)).

Definition sts_closed (s : series) (ip : bool) : outcome :=
  if is_empty s then
    (if is_stringlike (s_dtype s) && ip then (RTrue, s) else (RSeries (astype_object s), s))
  else match s_dtype s with
       | DObject | DStr => if ip then (RTrue, s) else (RSeries s, s)
       | DInt => if ip then (RExc "TypeError", s) else (RSeries (astype_str_object s), s)
       | DFloat => if all_missing s then (RSeries (astype_object s), s)
                   else if ip then (RExc "TypeError", s) else (RSeries (conv_col s), s)
       | DBool => (RExc "TypeError", s)
       end.

Lemma storable_numeric : forall d l, (d = DInt \/ d = DFloat) ->
  forallb (fun c => cell_isnull c || storable d c) l = forallb cell_isnull l.
Proof.
intros d l Hd. induction l as [|c l IH]; cbn [forallb]; [reflexivity | ].
rewrite IH. f_equal.
destruct Hd as [-> | ->]; cbn [storable]; now rewrite orb_false_r.
Qed.

Lemma update_numeric : forall d cells other, (d = DInt \/ d = DFloat) ->
  forallb cell_isnull (s_cells other) = false ->
  update (mkser d cells) other = None.
Proof.
intros d cells other Hd Hn. unfold update. cbn [s_dtype].
now rewrite (storable_numeric d _ Hd), Hn.
Qed.

Lemma slen_cons : forall d c l, Z.eqb (slen (mkser d (c :: l))) 0 = false.
Proof. intros d c l. unfold slen. cbn [s_cells List.length]. apply Z.eqb_neq. lia. Qed.

Lemma series_to_str_eq : forall s ip, wf s = true -> series_to_str s ip = sts_closed s ip.
Proof.
intros [d cells] ip Hwf. unfold wf in Hwf. cbn [s_dtype s_cells] in Hwf.
destruct cells as [|c0 cells].
- (* empty *) reflexivity.
- unfold series_to_str, sts_closed. rewrite slen_cons. cbn [s_dtype s_cells is_empty].
  destruct d; cbn [is_stringlike is_integer_dtype is_float_dtype].
  + (* DInt *)
    destruct ip; [ | reflexivity].
    rewrite update_numeric; [reflexivity | now left | ].
    cbn [forallb] in Hwf. apply andb_prop in Hwf. destruct Hwf as [Hc _].
    destruct c0; try discriminate Hc. reflexivity.
  + (* DFloat *)
    change (wf_cells DFloat (c0 :: cells) = true) in Hwf.
    set (l := c0 :: cells) in *.
    unfold dropna. cbn [s_cells].
    change 0 with (Z.of_nat 0) at 1. rewrite Zeqb_of_nat, filter_none_eqb.
    change (forallb cell_isnull l) with (all_missing (mkser DFloat l)).
    destruct (all_missing (mkser DFloat l)) eqn:Eam; [reflexivity | ].
    rewrite Zeqb_of_nat, filter_all_eqb, (integral_test l Hwf).
    unfold conv_col. cbn [s_cells].
    destruct ip.
    * rewrite update_numeric; [reflexivity | now right | ].
      cbn [s_cells]. unfold all_missing in Eam. cbn [s_cells] in Eam.
      destruct (col_integral (mkser DFloat l)); cbn [s_cells];
        rewrite forallb_map_null; auto using conv_int_null, conv_float_null.
    * destruct (col_integral (mkser DFloat l)); reflexivity.
  + reflexivity.
  + reflexivity.
  + reflexivity.
Qed.

(* ------------------------------------------------------------------ *)
(** * 5. Closed form of every call                                      *)

Definition closed (c : call) (s : series) : outcome :=
  match c with
  | CallSeries ip => sts_closed s ip
  | CallFrame ip rc =>
      if ip && rc then (RExc "AssertionError", s)
      else if ip then
        (if all_missing s then (RTrue, astype_object s)
         else assign_result (fst (sts_closed s false)) s)
      else if rc then (fst (sts_closed s false), s)
      else match assign_result (fst (sts_closed s false)) s with
           | (RTrue, c') => (RFrame c', s)
           | (r, _) => (r, s)
           end
  end.

Lemma frame_cond : forall s,
  Z.eqb (slen s) 0 || Z.eqb (count_null s) (slen s) = all_missing s.
Proof.
intros [d cells]. unfold slen, count_null, all_missing. cbn [s_cells].
rewrite (Zeqb_of_nat (List.length (filter cell_isnull cells))), filter_all_eqb.
destruct cells as [|c l]; [reflexivity | ].
change 0 with (Z.of_nat 0). rewrite Zeqb_of_nat. reflexivity.
Qed.

Lemma run_call_eq : forall c s, wf s = true -> run_call c s = closed c s.
Proof.
intros [ip | ip rc] s Hwf; unfold run_call, closed.
- now apply series_to_str_eq.
- unfold dataframe_column_to_str. cbn [negb].
  rewrite frame_cond, !(series_to_str_eq s _ Hwf).
  destruct ip; destruct rc; reflexivity.
Qed.

Lemma empty_all_missing : forall s, is_empty s = true -> all_missing s = true.
Proof. intros [d [|c l]] H; [reflexivity | discriminate H]. Qed.

Lemma int_not_all_missing : forall cells, wf (mkser DInt cells) = true ->
  is_empty (mkser DInt cells) = false -> all_missing (mkser DInt cells) = false.
Proof.
intros [|c l] Hwf He; [discriminate He | ].
unfold wf in Hwf. cbn [s_dtype s_cells forallb] in Hwf.
apply andb_prop in Hwf. destruct Hwf as [Hc _].
destruct c; try discriminate Hc. reflexivity.
Qed.

(* ------------------------------------------------------------------ *)
(** * 6. The clauses                                                    *)

Lemma want_all_missing : forall b d cells, all_missing (mkser d cells) = true ->
  all2 (want_cell b) cells cells = true.
Proof.
intros b d cells. unfold all_missing. cbn [s_cells].
induction cells as [|c l IH]; cbn [forallb all2]; [reflexivity | ].
intros H. apply andb_prop in H. destruct H as [Hc Hl]. rewrite (IH Hl), andb_true_r.
destruct c; try discriminate Hc; [reflexivity | ].
cbn [cell_isnull] in Hc. unfold want_cell. now rewrite Hc.
Qed.

Lemma conv_col_keep_missing : forall (b : bool) cells,
  all2 keep_missing cells (map (if b then conv_int_cell else conv_float_cell) cells) = true.
Proof.
intros b cells. apply keep_missing_map. intros c Hc.
destruct b; [rewrite conv_int_null | rewrite conv_float_null]; exact Hc.
Qed.

Local Opaque all_missing is_empty col_integral all2 cells_eqb conv_int_cell conv_float_cell
  str_of_cell.

(* case analysis: call x dtype x (empty?) x (all missing?) *)
Ltac contra Hwf :=
  match goal with
  | Hea : true = true -> false = true |- _ => discriminate (Hea eq_refl)
  | Eem : is_empty (mkser DInt ?cells) = false,
    Eam : all_missing (mkser DInt ?cells) = true |- _ =>
      rewrite (int_not_all_missing cells Hwf Eem) in Eam; discriminate Eam
  end.

Ltac fin Hwf :=
  cbn [andb orb negb]; try reflexivity; try discriminate; try (contra Hwf);
  repeat first [rewrite cells_eqb_refl | rewrite keep_missing_refl | rewrite dtype_eqb_refl];
  cbn [andb orb negb]; try reflexivity.

Ltac setup c s Hwf :=
  rewrite (run_call_eq c s Hwf);
  destruct s as [d cells];
  pose proof (empty_all_missing (mkser d cells)) as Hea;
  destruct c as [ip | ip rc]; [destruct ip | destruct ip; destruct rc]; destruct d.

Ltac flags :=
  match goal with Hea : is_empty ?s = true -> _ |- _ =>
    destruct (is_empty s) eqn:Eem; destruct (all_missing s) eqn:Eam end.

Ltac unfold_all :=
  unfold all_clauses, cl_values, cl_missing, cl_strings, cl_strings_dtype, cl_inplace_true,
    cl_unmodified, cl_return_kind, cl_rejected, cl_doc_exception, converted_col, doc_exception,
    closed, sts_closed, bad_class, bad_class_dtype, series_eqb in *.

(* clause 1, values *)
Theorem C16_values : forall c s, wf s = true -> bad_class c s = false ->
  cl_values c s (run_call c s) = true.
Proof.
intros c s Hwf Hbad. setup c s Hwf; unfold_all;
cbn in Hbad; cbn; flags; cbn in Hbad; cbn; fin Hwf;
try (eapply want_all_missing; eassumption);
try (apply want_int_cells; exact Hwf);
try (destruct (col_integral _); [apply want_float_int_cells | apply want_float_float_cells];
     exact Hwf).
Qed.

(* clause 2, a missing value stays missing *)
Theorem C16_missing : forall c s, wf s = true -> bad_class c s = false ->
  cl_missing c s (run_call c s) = true.
Proof.
intros c s Hwf Hbad. setup c s Hwf; unfold_all;
cbn in Hbad; cbn; flags; cbn in Hbad; cbn; fin Hwf;
try (apply int_cells_keep_missing; exact Hwf);
try apply conv_col_keep_missing.
Qed.

(* clause 3, string columns unchanged *)
Theorem C16_strings : forall c s, wf s = true -> bad_class c s = false ->
  cl_strings c s (run_call c s) = true.
Proof.
intros c s Hwf Hbad. setup c s Hwf; unfold_all;
cbn in Hbad; cbn; flags; cbn in Hbad; cbn; fin Hwf.
Qed.

(* clause 4, inplace=True returns True *)
Theorem C16_inplace_true : forall c s, wf s = true -> bad_class c s = false ->
  cl_inplace_true c s (run_call c s) = true.
Proof.
intros c s Hwf Hbad. setup c s Hwf; unfold_all;
cbn in Hbad; cbn; flags; cbn in Hbad; cbn; fin Hwf.
Qed.

(* clause 5, without inplace the input is unmodified and a copy of the right kind is returned:
   holds for every call *)
Theorem C16_unmodified : forall c s, wf s = true -> cl_unmodified c s (run_call c s) = true.
Proof.
intros c s Hwf. setup c s Hwf; unfold_all; cbn; flags; cbn; fin Hwf.
Qed.

Theorem C16_return_kind : forall c s, wf s = true -> cl_return_kind c s (run_call c s) = true.
Proof.
intros c s Hwf. setup c s Hwf; unfold_all; cbn; flags; cbn; fin Hwf.
Qed.

(* clause 6, inplace + return_col rejected: holds for every series *)
Theorem C16_rejected : forall c s, wf s = true -> cl_rejected c s (run_call c s) = true.
Proof.
intros c s Hwf. setup c s Hwf; unfold_all; cbn; fin Hwf.
Qed.

Theorem C16_rejected_exc : forall s, wf s = true ->
  run_call (CallFrame true true) s = (RExc "AssertionError", s).
Proof. intros s Hwf. now rewrite (run_call_eq _ s Hwf). Qed.

(* clause 7, the documented exception *)
Theorem C16_doc_exception : forall c s, wf s = true -> cl_doc_exception c s (run_call c s) = true.
Proof.
intros c s Hwf. setup c s Hwf; unfold_all; cbn; flags; cbn; fin Hwf.
Qed.

(* everything together: outside the bad class B1 the model satisfies every clause *)
Theorem C16_model_spec : forall c s, wf s = true -> bad_class c s = false ->
  all_clauses c s (run_call c s) = true.
Proof.
intros c s Hwf Hbad. unfold all_clauses.
rewrite C16_values, C16_missing, C16_strings, C16_inplace_true, C16_unmodified,
  C16_return_kind, C16_rejected, C16_doc_exception by assumption.
reflexivity.
Qed.

(* ... and on the bad class the "inplace=True converts and returns True" clause is false *)
Theorem C16_bad_class_fails : forall c s, wf s = true -> bad_class c s = true ->
  cl_inplace_true c s (run_call c s) = false.
Proof.
intros c s Hwf Hbad. setup c s Hwf; unfold_all;
cbn in Hbad; cbn; flags; cbn in Hbad; cbn; fin Hwf.
Qed.

Theorem C16_characterisation : forall c s, wf s = true ->
  all_clauses c s (run_call c s) = negb (bad_class c s).
Proof.
intros c s Hwf. destruct (bad_class c s) eqn:Hbad; cbn [negb].
- unfold all_clauses. rewrite (C16_bad_class_fails c s Hwf Hbad).
  now rewrite !andb_false_r.
- now apply C16_model_spec.
Qed.

(* what the faithful model does on class B1: TypeError, object untouched *)
Theorem C16_series_inplace_numeric : forall s, wf s = true ->
  numeric_col s = true -> all_missing s = false ->
  run_call (CallSeries true) s = (RExc "TypeError", s).
Proof.
intros s Hwf Hn Ham. rewrite (run_call_eq _ s Hwf).
destruct s as [d cells]. pose proof (empty_all_missing (mkser d cells)) as Hea.
unfold closed, sts_closed. destruct d; try discriminate Hn; cbn [s_dtype];
  destruct (is_empty _) eqn:Eem; try (rewrite (Hea eq_refl) in Ham; discriminate Ham);
  try rewrite Ham; reflexivity.
Qed.

Theorem C16_series_inplace_refuted :
  exists s, wf s = true /\ numeric_col s = true /\
            run_call (CallSeries true) s = (RExc "TypeError", s) /\
            cl_inplace_true (CallSeries true) s (run_call (CallSeries true) s) = false /\
            cl_values (CallSeries true) s (run_call (CallSeries true) s) = false.
Proof. exists (mkser DInt [CInt 1]). repeat split; vm_compute; reflexivity. Qed.

Theorem C16_series_inplace_float_refuted :
  exists s, wf s = true /\ s_dtype s = DFloat /\
            run_call (CallSeries true) s = (RExc "TypeError", s) /\
            all_clauses (CallSeries true) s (run_call (CallSeries true) s) = false.
Proof.
exists (mkser DFloat [CFloat (f_of_Z 1); CNull]). repeat split; vm_compute; reflexivity.
Qed.

(* the former class B2 is gone: series_to_str(inplace=True) on an empty (indeed on ANY) series
   of object or string dtype returns True and leaves the given object unchanged *)
Theorem C16_series_inplace_stringlike : forall s, wf s = true -> string_col s = true ->
  run_call (CallSeries true) s = (RTrue, s).
Proof.
intros s Hwf Hs. rewrite (run_call_eq _ s Hwf). destruct s as [d cells].
unfold closed, sts_closed. cbn [s_dtype].
destruct d; try discriminate Hs; destruct (is_empty _); reflexivity.
Qed.

Theorem C16_series_inplace_emptystr :
  run_call (CallSeries true) (mkser DStr []) = (RTrue, mkser DStr []) /\
  all_clauses (CallSeries true) (mkser DStr []) (run_call (CallSeries true) (mkser DStr [])) = true /\
  cl_strings_dtype (CallSeries true) (mkser DStr [])
                   (run_call (CallSeries true) (mkser DStr [])) = true.
Proof. repeat split; vm_compute; reflexivity. Qed.

(* dataframe_column_to_str(inplace=True): the frame's column is converted, True is returned *)
Theorem C16_frame_inplace : forall s, wf s = true -> in_domain s = true ->
  let o := run_call (CallFrame true false) s in
  fst o = RTrue /\ cl_values (CallFrame true false) s o = true /\
  cl_missing (CallFrame true false) s o = true /\ cl_strings (CallFrame true false) s o = true.
Proof.
intros s Hwf Hd o. subst o.
assert (Hb : bad_class (CallFrame true false) s = false) by reflexivity.
split; [ | split; [ | split]].
- pose proof (C16_inplace_true (CallFrame true false) s Hwf Hb) as H.
  unfold cl_inplace_true in H. rewrite Hd in H.
  cbn [is_inplace rejected doc_exception andb negb] in H.
  destruct (fst (run_call (CallFrame true false) s)); try discriminate H. reflexivity.
- now apply C16_values.
- now apply C16_missing.
- now apply C16_strings.
Qed.

(* strict reading of clause 3 (dtype kept): fails exactly on bad_class_dtype *)
Theorem C16_strings_dtype : forall c s, wf s = true ->
  cl_strings_dtype c s (run_call c s) = negb (bad_class_dtype c s).
Proof.
intros c s Hwf. setup c s Hwf; unfold_all; cbn; flags; cbn; fin Hwf.
Qed.

Print Assumptions C16_values.
Print Assumptions C16_missing.
Print Assumptions C16_strings.
Print Assumptions C16_inplace_true.
Print Assumptions C16_unmodified.
Print Assumptions C16_return_kind.
Print Assumptions C16_rejected.
Print Assumptions C16_doc_exception.
Print Assumptions C16_model_spec.
Print Assumptions C16_characterisation.
Print Assumptions C16_series_inplace_numeric.
Print Assumptions C16_series_inplace_refuted.
Print Assumptions C16_series_inplace_float_refuted.
Print Assumptions C16_series_inplace_stringlike.
Print Assumptions C16_series_inplace_emptystr.
Print Assumptions C16_frame_inplace.
Print Assumptions C16_strings_dtype.
