(* Code-level RELATIONAL property theorems, part 8: the SHAPE of the frame a generated wrapper returns, and C07
   for JACCARD / COSINE / DICE without residual hypothesis.

   CodeLevelRel6.C07_code_pipeline_jcd keeps a residual hypothesis (R1): every row of the frame the generated
   size/prefix/position_filter_tables_rows returns has as many cells as the header and no exception cell.  It is
   derived here from the hypotheses on the SOURCE rows (Hlsrc / Hrsrc: every source row is as long as its column
   list and has no exception cell), by going back to WrapperBody.body_result:

     the frame is  sframe (header_spec c) (numbered (concat RS ++ missing-value rows)),
     the rows RS_j of chunk j satisfy WrapperApiLink.chunk_ok: a permutation of  spec_row  of the triples of the
       model core, each with  cells_spec c lrow rrow = Some cells  -- the cells are cells of the two source rows
       (cell_of_In), there are  2 + |lout| + |rout|  of them (cells_spec_length), + the score if p_score;
     the missing-value rows are  cells_list c l r ++ [NaN if p_score]  of source rows (WrapperRefineMissing.mv_rows);
     numbered prepends the `_id` cell, a PInt.

   `body_result_frame_shaped`: for ANY wrapper whose frame satisfies body_result with Q = chunk_ok, when the score
     cells of the model core are not exceptions (vacuous when p_score c = false: all filter_tables wrappers).
   `filter_tables_rows_frame_shaped`: SizeFilter / PrefixFilter / PositionFilter .filter_tables, under the
     hypotheses of CodeLevelFilters.flt_flat_str.
   `C07_code_pipeline_jcd_full : C07_code_pipeline_jcd_stmt` -- (R1) fully discharged.                        *)
From Coq Require Import ZArith Bool List String Lia Permutation PeanoNat.
From SSJ Require Import F64 PyNum FilterUtilsGen HelperGen TokenOrderingGen ValidationGen IndexGen JoinGen
     TokenOrdering Measures Filters Joins Api Matcher MatcherFacts MatcherChunks JoinSpec MetaSpec
     Projection ProjSpec IndexPyFacts ProjectionFacts
     JoinGenFacts JoinGenLoop JoinRefine JoinRefineProj SplitFacts Frame WrapperGen FilterWrapperGen MatcherGen
     WrapperRefineFrame WrapperRefineMissing WrapperRefineCore WrapperRefineChunks WrapperRefine WrapperRefineClosed
     WrapperRefineApi WrapperRefineEnd WrapperBody WrapperApiLink WrapperEnd
     FilterWrapperRefine IndexGlue IndexGlueArith
     OrderingFacts OverlapFacts OverlapMeasure ValidationFacts
     ApiLift ApiJoinBase ApiJoinPairs ApiJoinSpec ApiFilterTables ApiFilterClosed
     LawsBase LawsScore LawsSpec Laws LawsPipe ModelScores ModelArith ModelLaws ModelPipe
     CodeLevelBase CodeLevelJoins CodeLevelJoins2 CodeLevelFilters CodeLevelMatcher CodeLevelTight
     CodeLevelRelBase CodeLevelRelCalls CodeLevelRel CodeLevelRel4 CodeLevelRel5 CodeLevelRel6.
Import ListNotations.
Open Scope string_scope.
Open Scope list_scope.
Open Scope Z_scope.

(* ------------------------------------------------------------------ cells of a projection are source cells *)
Lemma cell_of_In cols row a v : cell_of cols row a = Some v -> In v row.
Proof.
  revert row. induction cols as [|x cols IH]; intros row H; [discriminate H|].
  destruct row as [|w row]; [discriminate H|]. cbn [cell_of] in H.
  destruct (String.eqb x a); [injection H as ->; left; reflexivity | right; exact (IH row H)].
Qed.

Lemma all_some_In {A} (l : list (option A)) (r : list A) v :
  all_some l = Some r -> In v r -> In (Some v) l.
Proof.
  revert r. induction l as [|o l IH]; intros r H Hv.
  - injection H as <-. destruct Hv.
  - cbn [all_some] in H. destruct o as [x|]; [|discriminate H].
    destruct (all_some l) as [r'|] eqn:E; [|discriminate H]. injection H as <-.
    destruct Hv as [<-|Hv]; [left; reflexivity | right; exact (IH r' eq_refl Hv)].
Qed.

Lemma cells_spec_In c lrow rrow cells v :
  cells_spec c lrow rrow = Some cells -> In v cells -> In v lrow \/ In v rrow.
Proof.
  intros H Hv. unfold cells_spec in H. pose proof (all_some_In _ _ v H Hv) as Hin.
  destruct Hin as [E|[E|Hin]].
  - left. exact (cell_of_In _ _ _ _ E).
  - right. exact (cell_of_In _ _ _ _ E).
  - apply in_app_or in Hin. destruct Hin as [Hin|Hin]; apply in_map_iff in Hin; destruct Hin as (a & E & _);
      [left | right]; exact (cell_of_In _ _ _ _ E).
Qed.

Lemma row_ok_nth (rows : list (list pyval)) n :
  (forall row, In row rows -> ProjSpec.row_ok row) -> ProjSpec.row_ok (nth n rows []).
Proof.
  intros H. destruct (Nat.lt_ge_cases n (List.length rows)) as [Hn|Hn].
  - apply H. apply nth_In. exact Hn.
  - rewrite nth_overflow by exact Hn. intros v [].
Qed.

Lemma cells_list_ok c lrow rrow : well_formed c ->
  List.length lrow = List.length (p_lcols c) -> List.length rrow = List.length (p_rcols c) ->
  ProjSpec.row_ok lrow -> ProjSpec.row_ok rrow -> ProjSpec.row_ok (cells_list c lrow rrow).
Proof.
  intros Hwf Hl Hr Okl Okr v Hv.
  pose proof (cells_spec_eq c lrow rrow Hwf Hl Hr) as E.
  destruct (cells_spec_In c lrow rrow _ v E Hv) as [H|H]; [exact (Okl v H) | exact (Okr v H)].
Qed.

(* the rows of `numbered rows` are an integer cell in front of a row of `rows` *)
Lemma numbered_In rows r : In r (numbered rows) -> exists k r', r = PInt k :: r' /\ In r' rows.
Proof.
  unfold numbered. intros H. apply in_map_iff in H. destruct H as ([x r'] & <- & Hin).
  pose proof (in_combine_l _ _ _ _ Hin) as Hx. pose proof (in_combine_r _ _ _ _ Hin) as Hr.
  apply in_map_iff in Hx. destruct Hx as (k & <- & _). exists (Z.of_nat k), r'. split; [reflexivity | exact Hr].
Qed.

(* ================================================================== the frame of a wrapper body *)
Section BodyShape.
  Variables (c : pcase) (am : bool) (njobs cpus : Z).
  Variables (lsrc rsrc : list (list pyval)).
  Variable bs : list (nat * nat).
  Variable K : list (list pyval) -> option (list triple).

  Hypothesis Hwf : well_formed c.
  Hypothesis Hlsrc : forall row, In row lsrc -> List.length row = List.length (p_lcols c) /\ ProjSpec.row_ok row.
  Hypothesis Hrsrc : forall row, In row rsrc -> List.length row = List.length (p_rcols c) /\ ProjSpec.row_ok row.
  (* the score cells of the model core are values (vacuous for the filters: p_score c = false) *)
  Hypothesis Hscore : p_score c = true -> forall ch T tr, (forall row, In row ch -> In row (rpresent c rsrc)) ->
    K ch = Some T -> In tr T -> is_exc (snd tr) = false.

  (* the rows of one chunk *)
  Lemma chunk_ok_rows ch rows : (forall row, In row ch -> In row (rpresent c rsrc)) ->
    chunk_ok c lsrc K ch rows ->
    forall r, In r rows -> List.length r = List.length (mv_header c) /\ ProjSpec.row_ok r.
  Proof using Hlsrc Hrsrc Hscore.
    intros Hch (T & ET & Perm & Hcells) r Hr.
    apply (Permutation_in _ Perm) in Hr. apply in_map_iff in Hr. destruct Hr as (tr & <- & Htr).
    destruct (Hcells tr Htr) as (cells & Eo & Es).
    pose proof (Hscore) as Hs. specialize (fun H => Hs H ch T tr Hch ET Htr).
    destruct tr as [[i j] s]. cbn [fst snd] in Eo, Es, Hs. unfold spec_row. rewrite Eo. split.
    - rewrite app_length, (cells_spec_length _ _ _ _ Es), mv_header_length.
      destruct (p_score c); cbn [List.length]; lia.
    - assert (Okl : ProjSpec.row_ok (nth i (lpresent c lsrc) [])).
      { apply row_ok_nth. intros row Hrow. apply Hlsrc. apply (lpresent_in c lsrc). exact Hrow. }
      assert (Okr : ProjSpec.row_ok (nth j ch [])).
      { apply row_ok_nth. intros row Hrow. apply Hrsrc. apply (rpresent_in c rsrc). apply Hch. exact Hrow. }
      intros v Hv. apply in_app_or in Hv. destruct Hv as [Hv|Hv].
      + destruct (cells_spec_In c _ _ _ v Es Hv) as [H|H]; [exact (Okl v H) | exact (Okr v H)].
      + destruct (p_score c); [|destruct Hv]. destruct Hv as [<-|[]]. exact (Hs eq_refl).
  Qed.

  (* the missing-value rows *)
  Lemma mv_rows_ok r : In r (mv_rows c lsrc rsrc) -> List.length r = List.length (mv_header c) /\ ProjSpec.row_ok r.
  Proof using Hwf Hlsrc Hrsrc.
    clear Hscore. intros Hr. split; [exact (mv_rows_shaped c lsrc rsrc r Hr)|].
    assert (Hrow : forall l r0, In l lsrc -> In r0 rsrc -> ProjSpec.row_ok (mv_row c l r0)).
    { intros l r0 Hl Hr0 v Hv. destruct (Hlsrc l Hl) as [Ll Okl]. destruct (Hrsrc r0 Hr0) as [Lr Okr].
      unfold mv_row in Hv. apply in_app_or in Hv. destruct Hv as [Hv|Hv].
      - exact (cells_list_ok c l r0 Hwf Ll Lr Okl Okr v Hv).
      - destruct (p_score c); [|destruct Hv]. destruct Hv as [<-|[]]. reflexivity. }
    unfold mv_rows in Hr. apply in_app_or in Hr. destruct Hr as [Hr|Hr];
      apply in_flat_map in Hr; destruct Hr as (x & Hx & Hr); apply in_map_iff in Hr; destruct Hr as (y & <- & Hy);
      apply filter_In in Hx; destruct Hx as [Hx _].
    - exact (Hrow x y Hx Hy).
    - apply filter_In in Hy. destruct Hy as [Hy _]. exact (Hrow y x Hy Hx).
  Qed.

  (* the whole frame: every row is header-long and has no exception cell *)
  Theorem body_result_frame_shaped lhs :
    body_result c am njobs cpus lsrc rsrc bs (chunk_ok c lsrc K) lhs ->
    forall row, In row (frame_rows_of lhs) -> List.length row = List.length (header_spec c) /\ ProjSpec.row_ok row.
  Proof using All.
    intros (RS & Hlen & Hfacts & ->) row Hrow. rewrite frame_rows_sframe in Hrow.
    destruct (numbered_In _ _ Hrow) as (k & r & -> & Hr).
    assert (H : List.length r = List.length (mv_header c) /\ ProjSpec.row_ok r).
    { apply in_app_or in Hr. destruct Hr as [Hr|Hr].
      - apply in_concat in Hr. destruct Hr as (rs & Hrs & Hr).
        apply (In_nth _ _ []) in Hrs. destruct Hrs as (j & Hj & <-). rewrite Hlen in Hj.
        apply (chunk_ok_rows (nth j (wchunks c njobs cpus rsrc bs) []) (nth j RS [])).
        + apply (wchunks_in c njobs cpus rsrc bs). apply nth_In. exact Hj.
        + exact (Hfacts j Hj).
        + exact Hr.
      - destruct am; [exact (mv_rows_ok r Hr) | destruct Hr]. }
    destruct H as [Hl Hok]. rewrite mv_header_spec. cbn [List.length]. split; [now rewrite Hl|].
    intros v [<-|Hv]; [reflexivity | exact (Hok v Hv)].
  Qed.
End BodyShape.

(* ================================================================== SizeFilter / PrefixFilter / PositionFilter *)
Section FilterShape.
  Variables (c : pcase) (p : fparams) (ae am : bool) (njobs cpus : Z).
  Variables (lsrc rsrc : list (list pyval)) (showp : pyval).
  Variables (tokenize : pyval -> pyval).
  Variables (toks : pyval -> list Z).

  (* the hypotheses of CodeLevelFilters.flt_flat_str *)
  Hypothesis Hwf : well_formed c.
  Hypothesis Hns : p_score c = false.
  Hypothesis Hlsrc : forall row, In row lsrc -> List.length row = List.length (p_lcols c) /\ ProjSpec.row_ok row.
  Hypothesis Hrsrc : forall row, In row rsrc -> List.length row = List.length (p_rcols c) /\ ProjSpec.row_ok row.
  Hypothesis HtokL : forall row, In row (lpresent c lsrc) -> tokenize (lcell c row) = pints (toks (lcell c row)).
  Hypothesis HtokR : forall row, In row (rpresent c rsrc) -> tokenize (rcell c row) = pints (toks (rcell c row)).
  Hypothesis Hvout : is_exc (validate_output_attrs (py_opt_strs (p_lout c)) (py_strs (p_lcols c))
                                                   (py_opt_strs (p_rout c)) (py_strs (p_rcols c))) = false.
  Hypothesis Hid : ~ In "_id"%string (mv_header c).
  Hypothesis HlenRt : Z.of_nat (List.length rsrc) < 2^31.

  (* the body_result behind flt_flat_str (which forgets it) *)
  Lemma flt_body_result (bound : Z) k : k3 k -> formulas_ok p bound ->
    (forall row, In row (lpresent c lsrc) -> len (toks (lcell c row)) < bound) ->
    (forall row, In row (rpresent c rsrc) -> len (toks (rcell c row)) < bound) ->
    body_result c am njobs cpus lsrc rsrc
      (split_bs (kjobs c njobs cpus rsrc) (Z.of_nat (List.length (rpresent c rsrc))))
      (chunk_ok c lsrc (flt_K c p ae lsrc toks k))
      (flt_call c p ae am njobs cpus lsrc rsrc showp tokenize k).
  Proof using All.
    intros Hk Hf HszL HszR.
    pose proof (rpres_bound c rsrc HlenRt) as Hn.
    destruct Hk as [-> | [-> | ->]]; cbn [flt_call].
    - apply (size_filter_tables_rows_refines c p ae am bound njobs cpus lsrc rsrc showp tokenize toks); try assumption.
      intros Hk. apply split_hyp; assumption.
    - apply (prefix_filter_tables_rows_refines c p ae am bound njobs cpus lsrc rsrc showp tokenize toks); try assumption.
      intros Hk. apply split_hyp; assumption.
    - apply (position_filter_tables_rows_refines c p ae am bound njobs cpus lsrc rsrc showp tokenize toks); try assumption.
      intros Hk. apply split_hyp; assumption.
  Qed.

  (* every row of the frame filter_tables returns is header-long and free of exception cells *)
  Theorem filter_tables_rows_frame_shaped (bound : Z) k : k3 k -> formulas_ok p bound ->
    (forall row, In row (lpresent c lsrc) -> len (toks (lcell c row)) < bound) ->
    (forall row, In row (rpresent c rsrc) -> len (toks (rcell c row)) < bound) ->
    forall row, In row (frame_rows_of (flt_call c p ae am njobs cpus lsrc rsrc showp tokenize k)) ->
      List.length row = List.length (header_spec c) /\ ProjSpec.row_ok row.
  Proof using All.
    intros Hk Hf HszL HszR.
    apply (body_result_frame_shaped c am njobs cpus lsrc rsrc
             (split_bs (kjobs c njobs cpus rsrc) (Z.of_nat (List.length (rpresent c rsrc))))
             (flt_K c p ae lsrc toks k) Hwf Hlsrc Hrsrc).
    - intros Hs. rewrite Hns in Hs. discriminate Hs.
    - exact (flt_body_result bound k Hk Hf HszL HszR).
  Qed.
End FilterShape.

(* (R1) of CodeLevelRel6, from the hypotheses of the join call *)
Lemma jcd_filter_frame_shaped c m t q op am njF cpF k aeF lsrc rsrc showpF tokenize sim_fn toks cf kz :
  jcd_call_hyps c {| fm := m; ft := PFloat t; fq := q |} op lsrc rsrc tokenize sim_fn toks cf kz ->
  k3 k -> Z.of_nat (List.length rsrc) < 2^31 ->
  forall row, In row (frame_rows_of (jcd_filter_frame c m t q am njF cpF k aeF lsrc rsrc showpF tokenize)) ->
    List.length row = List.length (header_spec (noscore_pcase c)) /\ ProjSpec.row_ok row.
Proof.
  intros HJ Hk HlenRt.
  destruct HJ as ((Hwf & Hl & Hr & HtL & HtR & Hm & Hvt & Hvop & Hvout & Hop & Hid) & Hn & Hsim & Hthr & Hkeys & Hset).
  assert (Hj : is_jcd m = true) by exact (set_measure_jcd m Hm).
  assert (Henv : env_t t = true).
  { destruct Hthr as (t' & Et & Henv). injection Et as <-. exact Henv. }
  assert (HidF : ~ In "_id" (mv_header (noscore_pcase c))) by (intros X; apply Hid; exact (mv_header_noscore c "_id" X)).
  destruct (set_cells_below (noscore_pcase c) toks lsrc rsrc size_bound ltac:(lia) Hset) as (HszL & HszR).
  unfold jcd_filter_frame.
  exact (filter_tables_rows_frame_shaped (noscore_pcase c) {| fm := m; ft := PFloat t; fq := q |} aeF am njF cpF
           lsrc rsrc showpF tokenize toks (well_formed_noscore c Hwf) eq_refl Hl Hr HtL HtR Hvout HidF HlenRt
           size_bound k Hk (formulas_ok_jcd m t q Hj Henv) HszL HszR).
Qed.

(* ================================================================== C07 for J / C / D, no residual hypothesis *)
Theorem C07_code_pipeline_jcd_full : C07_code_pipeline_jcd_stmt.
Proof.
  intros c m t q op ae am njJ cpJ njF cpF njM cpM k aeF lsrc rsrc showpJ showpF showpM tokenize sim_fn tokv
         tokenizeM simM toks cf kz zk p cc clk crk csrc HJ Hsc Hk HlenRt Hsmall Hdist Htokv HkzL HkzR Hzk HscalL HscalR
         HtokL HtokR Hsim HsimEq.
  exact (C07_code_pipeline_jcd c m t q op ae am njJ cpJ njF cpF njM cpM k aeF lsrc rsrc showpJ showpF showpM tokenize
           sim_fn tokv tokenizeM simM toks cf kz zk HJ Hsc Hk HlenRt
           (jcd_filter_frame_shaped c m t q op am njF cpF k aeF lsrc rsrc showpF tokenize sim_fn toks cf kz HJ Hk HlenRt)
           Hsmall Hdist Htokv HkzL HkzR Hzk HscalL HscalR HtokL HtokR Hsim HsimEq).
Qed.

Print Assumptions body_result_frame_shaped.
Print Assumptions filter_tables_rows_frame_shaped.
Print Assumptions C07_code_pipeline_jcd_full.
