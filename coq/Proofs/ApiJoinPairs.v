(* Pair-level verdicts (`verdict_ok`, Proofs/ApiJoinBase.v) of the pair functions of the five
   set-similarity joins: JACCARD / COSINE / DICE (through Proofs/SetPair.v, hence the Reals/Flocq
   axioms of the arithmetic files), OVERLAP and OVERLAP_COEFFICIENT (closed).             *)
From Coq Require Import ZArith Bool List String Lia SpecFloat.
From SSJ Require Import F64 PyNum HelperGen TokenOrdering Measures Filters Joins Api JoinSpec MetaSpec
     OrderingFacts CoreLiftBase CoreLift ApiLift SetBridge SetPair OverlapFacts OverlapMeasure
     ApiJoinBase.
Import ListNotations.
Open Scope string_scope.
Open Scope list_scope.
Open Scope Z_scope.

(* ------------------------------------------------------------------ a reported score equals itself *)
Lemma SFcompare_refl f : f <> S754_nan -> SFcompare f f = Some Eq.
Proof.
  destruct f as [s|s| |s m e]; intros H; [reflexivity|destruct s; reflexivity|congruence|].
  simpl. destruct s; rewrite Z.compare_refl, Pos.compare_cont_refl; reflexivity.
Qed.

Lemma cmp_nan_false op t : lower_op op -> cmp_op op (PFloat S754_nan) t = false.
Proof.
  intros [-> | [-> | ->]]; unfold cmp_op;
    [change (comp_op_map ">=") with (Some py_ge)|change (comp_op_map ">") with (Some py_gt)
    |change (comp_op_map "=") with (Some py_eq)];
    destruct t as [k|f|str|b| |l|l|l|e]; try reflexivity; destruct b; reflexivity.
Qed.

Lemma cmp_exc_false op e t : lower_op op -> cmp_op op (PExc e) t = false.
Proof. intros [-> | [-> | ->]]; reflexivity. Qed.

Lemma cmp_true_same_float op f t : lower_op op ->
  cmp_op op (PFloat f) t = true -> score_same (PFloat f) (PFloat f) = true.
Proof.
  intros Hop H.
  assert (Hn : f <> S754_nan).
  { intros ->. rewrite (cmp_nan_false op t Hop) in H. discriminate. }
  cbn [score_same pv_eqb num_of num_cmp]. rewrite (SFcompare_refl f Hn). reflexivity.
Qed.

Lemma score_same_int o : score_same (PInt o) (PInt o) = true.
Proof. cbn [score_same pv_eqb num_of num_cmp]. rewrite Z.compare_refl. reflexivity. Qed.

Lemma both_empty_nil x y : (len x =? 0) && (len y =? 0) = true <-> x = [] /\ y = [].
Proof. rewrite andb_true_iff, !len_zero_iff. reflexivity. Qed.

Lemma one_empty_nil x y : (len x =? 0) || (len y =? 0) = true <-> x = [] \/ y = [].
Proof. rewrite orb_true_iff, !len_zero_iff. reflexivity. Qed.

(* ------------------------------------------------------------------ JACCARD / COSINE / DICE *)
Lemma jcd_cases m : is_jcd m = true -> m = "JACCARD" \/ m = "COSINE" \/ m = "DICE".
Proof.
  unfold is_jcd. intros H.
  destruct (String.eqb_spec m "JACCARD"); [auto|].
  destruct (String.eqb_spec m "COSINE"); [auto|].
  destruct (String.eqb_spec m "DICE"); [auto|]. discriminate.
Qed.

Lemma core_pf_jcd c m all x y : j_entry c = EJoin m -> is_jcd m = true ->
  core_pf c all x y =
  ssj_pair_e (jparams c m) (j_op c) (j_allow_empty c) (order all (snd x)) (order all (snd y)).
Proof.
  intros He Hm. unfold core_pf. rewrite He.
  destruct (jcd_cases m Hm) as [-> | [-> | ->]]; reflexivity.
Qed.

Theorem verdict_jcd c m t all x y :
  is_jcd m = true -> j_t c = PFloat t -> env_t t = true -> lower_op (j_op c) ->
  NoDup x -> NoDup y -> len x < size_bound -> len y < size_bound -> incl x all -> incl y all ->
  exists lst,
    ssj_pair_e (jparams c m) (j_op c) (j_allow_empty c) (order all x) (order all y) = Some lst /\
    verdict_ok c m x y lst.
Proof.
  intros Hm Ht Henv Hop Hx Hy Ha Hb Hxa Hya.
  assert (Hmo : String.eqb m "OVERLAP" = false)
    by (destruct (jcd_cases m Hm) as [-> | [-> | ->]]; reflexivity).
  assert (HlX : len (order all x) = len x) by (apply len_order; exact Hxa).
  assert (HlY : len (order all y) = len y) by (apply len_order; exact Hya).
  pose proof (ssj_pair_total m t (j_q c) (j_op c) all x y Hm Henv Hx Hy Hxa Hya Ha Hb) as Htot.
  pose proof (ssj_pair_sound_shape m t (j_q c) (j_op c) all x y) as Hshape.
  pose proof (ssj_pair_sound m t (j_q c) (j_op c) all x y Hm Hx Hy Hxa Hya) as Hsound.
  pose proof (ssj_pair_complete m t (j_q c) (j_op c) all x y Hm Henv Hx Hy Hxa Hya Ha Hb Hop)
    as Hcomp.
  pose proof (ssj_pair_empty_side m t (j_q c) (j_op c) all x y Hm Henv Hx Hy Hxa Hya Ha Hb)
    as Hempty.
  unfold ssj_pair_e, jparams. rewrite Ht, HlX, HlY.
  destruct (ssj_pair {| fm := m; ft := PFloat t; fq := j_q c |} (j_op c) (order all x) (order all y))
    as [lst0|] eqn:E0; [|congruence].
  clear Htot. specialize (Hshape lst0 eq_refl).
  assert (Fempty : x = [] \/ y = [] -> lst0 = []).
  { intros H. specialize (Hempty H). congruence. }
  assert (Fcomp : (len x =? 0) && (len y =? 0) = false ->
                  qualifies m (j_op c) (PFloat t) x y = true ->
                  lst0 = [reported_score m x y] /\ x <> [] /\ y <> []).
  { intros Hbe Hq.
    assert (Hne : ~ (x = [] /\ y = [])).
    { intros H. apply both_empty_nil in H. congruence. }
    specialize (Hcomp Hne Hq). assert (E : lst0 = [reported_score m x y]) by congruence.
    split; [exact E|]. split; intros Hn; rewrite Fempty in E by auto; discriminate. }
  destruct (j_allow_empty c && (len y =? 0)) eqn:Ecase.
  - apply andb_true_iff in Ecase. destruct Ecase as [Hae Ey].
    destruct (len x =? 0) eqn:Ex.
    + exists [PFloat f_one]. split; [reflexivity|]. unfold verdict_ok. rewrite Ex, Ey, Ht.
      cbn [andb orb]. split; [simpl; lia|].
      split; [intros s [<-|[]]; auto|]. split; [discriminate|].
      split; [|discriminate]. intros _. split; [auto|discriminate].
    + exists []. split; [reflexivity|]. unfold verdict_ok. rewrite Ex, Ey, Ht. cbn [andb orb].
      split; [simpl; lia|]. split; [intros s []|].
      split; [|split; [discriminate|reflexivity]].
      intros _ Hq. exfalso.
      destruct (Fcomp eq_refl Hq) as [_ [_ Hny]].
      apply Hny. apply len_zero_iff. exact Ey.
  - exists lst0. split; [reflexivity|]. unfold verdict_ok. rewrite Ht.
    split; [destruct Hshape as [->|[s ->]]; simpl; lia|].
    split.
    { intros s Hs. destruct Hshape as [->|[s' ->]]; [destruct Hs|].
      destruct Hs as [<-|[]]. destruct (Hsound s' eq_refl) as [Hs' Hcmp].
      destruct ((len x =? 0) && (len y =? 0)) eqn:Ebe.
      - apply both_empty_nil in Ebe. destruct Ebe as [Hx0 _].
        rewrite Fempty in E0 by auto. specialize (Fempty (or_introl Hx0)). discriminate.
      - split; [rewrite <- Hs'; exact Hcmp|]. split; [exact Hs'|].
        revert Hcmp. rewrite Hs'. unfold reported_score. rewrite Hm.
        apply cmp_true_same_float. exact Hop. }
    split.
    { intros Hbe Hq. destruct (Fcomp Hbe Hq) as [-> _]. discriminate. }
    split.
    { intros Hbe. pose proof (proj1 (both_empty_nil x y) Hbe) as [Hx0 Hy0].
      rewrite (Fempty (or_introl Hx0)). split; [congruence|].
      intros [Hae _]. exfalso. rewrite Hae in Ecase. cbn [andb] in Ecase.
      apply len_zero_iff in Hy0. congruence. }
    intros _ Hor. apply Fempty. apply one_empty_nil. exact Hor.
Qed.

(* ------------------------------------------------------------------ OVERLAP *)
Lemma core_pf_overlap c all x y : j_entry c = EJoin "OVERLAP" ->
  core_pf c all x y = Some (ovl_pair (j_op c) (j_t c) (snd x) (snd y)).
Proof. intros He. unfold core_pf. rewrite He. reflexivity. Qed.

Lemma overlap_zero_l x y : x = [] \/ y = [] -> overlap_sets x y = 0.
Proof.
  pose proof (overlap_sets_nonneg x y). pose proof (overlap_sets_le_l x y).
  pose proof (overlap_sets_le_r x y). intros [-> | ->]; change (len []) with 0 in *; lia.
Qed.

Theorem verdict_overlap c T x y :
  lower_op (j_op c) -> j_t c = PInt T -> 1 <= T -> NoDup x -> NoDup y ->
  verdict_ok c "OVERLAP" x y (ovl_pair (j_op c) (j_t c) x y).
Proof.
  intros Hop Ht HT Hx Hy. unfold ovl_pair. cbv zeta.
  rewrite (overlap_count_sets x y Hx Hy), Ht.
  assert (Hrep : reported_score "OVERLAP" x y = PInt (overlap_sets x y)) by reflexivity.
  assert (Hq : qualifies "OVERLAP" (j_op c) (PInt T) x y =
               cmp_op (j_op c) (PInt (overlap_sets x y)) (PInt T) &&
               cmp_op (j_op c) (PInt (overlap_sets x y)) (PInt T)) by reflexivity.
  assert (Hz : (len x =? 0) || (len y =? 0) = true -> overlap_sets x y = 0).
  { intros H. apply overlap_zero_l. apply one_empty_nil. exact H. }
  assert (Hz' : (len x =? 0) && (len y =? 0) = true -> overlap_sets x y = 0).
  { intros H. apply both_empty_nil in H. apply overlap_zero_l. tauto. }
  unfold verdict_ok. rewrite Ht, Hrep, Hq.
  destruct ((0 <? overlap_sets x y) && cmp_op (j_op c) (PInt (overlap_sets x y)) (PInt T)) eqn:Ec.
  - apply andb_true_iff in Ec. destruct Ec as [Hpos Hcmp]. apply Z.ltb_lt in Hpos.
    split; [simpl; lia|]. split.
    { intros s [<-|[]]. destruct ((len x =? 0) && (len y =? 0)) eqn:Ebe; [specialize (Hz' eq_refl); lia|].
      split; [exact Hcmp|]. split; [reflexivity|apply score_same_int]. }
    split; [intros _ _; discriminate|].
    split; [intros Hbe; specialize (Hz' Hbe); lia|].
    intros _ Hor. specialize (Hz Hor). lia.
  - split; [simpl; lia|]. split; [intros s []|]. split.
    { intros _ H. apply andb_true_iff in H. destruct H as [H _]. exfalso.
      pose proof (lower_op_pos _ _ _ Hop HT H) as Hpos. apply Z.ltb_lt in Hpos.
      rewrite Hpos, H in Ec. discriminate. }
    split; [|reflexivity]. intros _. split; [congruence|]. intros [_ H]. discriminate H.
Qed.

(* ------------------------------------------------------------------ OVERLAP_COEFFICIENT *)
Lemma core_pf_ovc c all x y : j_entry c = EJoin "OVERLAP_COEFFICIENT" ->
  core_pf c all x y = Some (ovc_pair (j_t c) (j_op c) (j_allow_empty c) (snd x) (snd y)).
Proof. intros He. unfold core_pf. rewrite He. reflexivity. Qed.

Lemma ovc_pair_cell t op ae x y :
  map (fun s => (0%nat, 0%nat, s)) (ovc_pair t op ae x y) = ovc_cell t op ae 0 x 0 y.
Proof.
  unfold ovc_pair, ovc_cell, CoreLift.ovc_score.
  destruct (ae && (len y =? 0)); [destruct (len x =? 0); reflexivity|]. cbv zeta.
  destruct (0 <? overlap_count x y); [|reflexivity].
  destruct (cmp_op op _ t); reflexivity.
Qed.

Lemma ovc_pair_In t op ae x y s : NoDup x -> NoDup y ->
  (In s (ovc_pair t op ae x y) <->
   (ae = true /\ x = [] /\ y = [] /\ s = PFloat f_one) \/
   (0 < overlap_sets x y /\
    s = OverlapMeasure.ovc_score (overlap_sets x y) (Z.min (len y) (len x)) /\
    cmp_op op s t = true)).
Proof.
  intros Hx Hy.
  assert (E : In s (ovc_pair t op ae x y) <-> In (0%nat, 0%nat, s) (ovc_cell t op ae 0 x 0 y)).
  { rewrite <- ovc_pair_cell, in_map_iff. split.
    - intros H. exists s. auto.
    - intros [s' [E' H]]. injection E' as ->. exact H. }
  rewrite E, (ovc_cell_In t op ae 0%nat x 0%nat y (0%nat, 0%nat, s) Hx Hy). split.
  - intros [[H1 [H2 [H3 H4]]]|[H1 [H2 H3]]]; [left|right].
    + injection H4 as ->. auto.
    + injection H2 as ->. auto.
  - intros [[H1 [H2 [H3 ->]]]|[H1 [-> H3]]]; [left|right]; auto.
Qed.

Lemma ovc_score_shape o n :
  (exists e, OverlapMeasure.ovc_score o n = PExc e) \/
  (exists f, OverlapMeasure.ovc_score o n = PFloat f).
Proof.
  unfold OverlapMeasure.ovc_score.
  change (py_float (PInt o)) with (PFloat (f_of_Z o)).
  change (py_float (PInt n)) with (PFloat (f_of_Z n)).
  unfold py_truediv, strict2. cbn [num_of to_f].
  destruct (f_is_zero (f_of_Z n)); [left|right]; eexists; reflexivity.
Qed.

Lemma cmp_true_same_ovc op o n t : lower_op op ->
  cmp_op op (OverlapMeasure.ovc_score o n) t = true ->
  score_same (OverlapMeasure.ovc_score o n) (OverlapMeasure.ovc_score o n) = true.
Proof.
  intros Hop. destruct (ovc_score_shape o n) as [[e ->]|[f ->]].
  - rewrite (cmp_exc_false op e t Hop). discriminate.
  - apply cmp_true_same_float. exact Hop.
Qed.

Theorem verdict_ovc c x y :
  lower_op (j_op c) -> pos_threshold (j_t c) -> NoDup x -> NoDup y ->
  verdict_ok c "OVERLAP_COEFFICIENT" x y (ovc_pair (j_t c) (j_op c) (j_allow_empty c) x y).
Proof.
  intros Hop Hpos Hx Hy.
  pose proof (ovc_pair_In (j_t c) (j_op c) (j_allow_empty c) x y) as HIn.
  pose proof (ovc_pair_len (j_t c) (j_op c) (j_allow_empty c) x y) as Hlen.
  set (lst := ovc_pair (j_t c) (j_op c) (j_allow_empty c) x y) in *.
  assert (Hrep : reported_score "OVERLAP_COEFFICIENT" x y =
                 OverlapMeasure.ovc_score (overlap_sets x y) (Z.min (len y) (len x))).
  { rewrite reported_score_ovc. apply raw_score_ovc; assumption. }
  assert (Hz : (len x =? 0) || (len y =? 0) = true -> overlap_sets x y = 0).
  { intros H. apply overlap_zero_l. apply one_empty_nil. exact H. }
  assert (Hz' : (len x =? 0) && (len y =? 0) = true -> overlap_sets x y = 0).
  { intros H. apply both_empty_nil in H. apply overlap_zero_l. tauto. }
  unfold verdict_ok. rewrite Hrep.
  split; [exact Hlen|]. split.
  { intros s Hs. apply (HIn s Hx Hy) in Hs.
    destruct Hs as [[Hae [Hx0 [Hy0 ->]]]|[Ho [Hs Hcmp]]].
    - rewrite (proj2 (both_empty_nil x y) (conj Hx0 Hy0)). auto.
    - destruct ((len x =? 0) && (len y =? 0)) eqn:Ebe; [specialize (Hz' eq_refl); lia|].
      rewrite <- Hs. split; [exact Hcmp|]. split; [reflexivity|].
      rewrite Hs. rewrite Hs in Hcmp. eapply cmp_true_same_ovc; eassumption. }
  split.
  { intros _ Hq. unfold qualifies in Hq. apply andb_true_iff in Hq. destruct Hq as [_ Hq].
    rewrite Hrep in Hq.
    assert (Ho : 0 < overlap_sets x y).
    { pose proof (overlap_sets_nonneg x y) as Hnn.
      destruct (Z.eq_dec (overlap_sets x y) 0) as [E|E]; [|lia].
      rewrite E in Hq. rewrite (ovc_zero_not_qualifies _ _ _ Hop Hpos) in Hq. discriminate. }
    assert (Hin : In (OverlapMeasure.ovc_score (overlap_sets x y) (Z.min (len y) (len x))) lst).
    { apply (HIn _ Hx Hy). right. auto. }
    intros E. rewrite E in Hin. destruct Hin. }
  split.
  { intros Hbe. pose proof (proj1 (both_empty_nil x y) Hbe) as [Hx0 Hy0]. split.
    - intros Hne. destruct lst as [|s l] eqn:El; [congruence|].
      assert (Hs : In s (s :: l)) by (left; reflexivity).
      apply (HIn s Hx Hy) in Hs. destruct Hs as [[Hae _]|[Ho _]]; [auto|].
      specialize (Hz' Hbe). lia.
    - intros [Hae _] E.
      assert (Hin : In (PFloat f_one) lst) by (apply (HIn _ Hx Hy); left; auto).
      rewrite E in Hin. destruct Hin. }
  intros Hbe Hor. destruct lst as [|s l] eqn:El; [reflexivity|exfalso].
  assert (Hs : In s (s :: l)) by (left; reflexivity).
  apply (HIn s Hx Hy) in Hs. destruct Hs as [[_ [Hx0 [Hy0 _]]]|[Ho _]].
  - rewrite (proj2 (both_empty_nil x y) (conj Hx0 Hy0)) in Hbe. discriminate.
  - specialize (Hz Hor). lia.
Qed.

Print Assumptions verdict_jcd.
Print Assumptions verdict_overlap.
Print Assumptions verdict_ovc.
