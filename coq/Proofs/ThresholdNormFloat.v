(* Float thresholds of the integer-valued measures: the pair-level and candidate-level safety
   theorems for EDIT_DISTANCE (Proofs/EditFilters.v, FilterRefine.v) and OVERLAP
   (Proofs/OverlapMeasure.v) transferred to a threshold `PFloat f`, f a finite double.
   The repaired formulas normalise the threshold (Proofs/ThresholdNorm.v), so the filters with
   threshold f ARE the filters with threshold floor f (EDIT_DISTANCE) / ceil f (OVERLAP); "within
   the threshold" is stated with Python's own exact int-vs-float comparison:
       lev s t <= f        as  py_truth (py_le (PInt (lev s t)) (PFloat f)) = true
       overlap l r >= f    as  py_truth (py_ge (PInt (overlap_sets l r)) (PFloat f)) = true
   and validate_threshold's tests  `f < 0` is False / `f <= 0` is False  likewise.
   Integers, lists and SpecFloat case analysis only: closed under the global context.       *)
From Coq Require Import ZArith Bool List String Lia Sorted SpecFloat.
From SSJ Require Import F64 PyNum FilterUtilsGen HelperGen TokenOrdering Measures Filters Suffix Lev Qgram
     Joins Api JoinSpec FilterSpec Prefix BagFacts LevFacts QgramFacts OrderingFacts PyFacts
     OverlapFacts OverlapMeasure EditArith EditJoin EditFilters FilterRefine ThresholdNorm.
Import ListNotations.
Open Scope string_scope.
Open Scope Z_scope.

(* the integer records of ThresholdNorm are the ones the existing theorems are stated on *)
Lemma edpi_edp q tau : edpi q tau = EditArith.edp q tau.
Proof. reflexivity. Qed.
Lemma ovpi_ovp T q : ovpi T q = ovp T q.
Proof. reflexivity. Qed.

(* "d <= f", "o >= f", "f >= 0", "f > 0" as Python evaluates them *)
Definition le_thr (d : Z) (f : f64) : Prop := py_truth (py_le (PInt d) (PFloat f)) = true.
Definition ge_thr (o : Z) (f : f64) : Prop := py_truth (py_ge (PInt o) (PFloat f)) = true.
Definition thr_nonneg (f : f64) : Prop := py_truth (py_lt (PFloat f) (PInt 0)) = false.
Definition thr_pos (f : f64) : Prop := py_truth (py_le (PFloat f) (PInt 0)) = false.

Lemma le_thr_floor d f : f_is_finite f = true -> (le_thr d f <-> d <= f_floor f).
Proof.
  intros H. unfold le_thr. rewrite py_le_int_float by exact H. cbn [py_truth]. apply Z.leb_le.
Qed.
Lemma ge_thr_ceil o f : f_is_finite f = true -> (ge_thr o f <-> f_ceil f <= o).
Proof.
  intros H. unfold ge_thr. rewrite py_ge_int_float by exact H. cbn [py_truth]. apply Z.leb_le.
Qed.
Lemma thr_nonneg_floor f : f_is_finite f = true -> (thr_nonneg f <-> 0 <= f_floor f).
Proof. apply ed_threshold_valid_floor. Qed.
Lemma thr_pos_ceil f : f_is_finite f = true -> (thr_pos f <-> 1 <= f_ceil f).
Proof. apply ov_threshold_valid_ceil. Qed.

(* ====================================================================== EDIT_DISTANCE *)
Section EdFloat.
  Variables (q : Z) (f : f64).
  Hypothesis Hfin : f_is_finite f = true.

  Let A : fp_agree (edpf q f) (EditArith.edp q (f_floor f)) := fp_agree_ed_float q f Hfin.

  (* every filter model with threshold f is the one with threshold floor f *)
  Theorem ed_size_filter_pair_float ae nl nr :
    size_filter_pair (edpf q f) ae nl nr = size_filter_pair (EditArith.edp q (f_floor f)) ae nl nr.
  Proof. apply agree_size_filter_pair, A. Qed.
  Theorem ed_prefix_filter_pair_float ae l r :
    prefix_filter_pair (edpf q f) ae l r = prefix_filter_pair (EditArith.edp q (f_floor f)) ae l r.
  Proof. apply agree_prefix_filter_pair, A. Qed.
  Theorem ed_position_filter_pair_float ae l r :
    position_filter_pair (edpf q f) ae l r = position_filter_pair (EditArith.edp q (f_floor f)) ae l r.
  Proof. apply agree_position_filter_pair, A. Qed.
  Theorem ed_suffix_filter_pair_float ae l r :
    suffix_filter_pair (edpf q f) ae l r = suffix_filter_pair (EditArith.edp q (f_floor f)) ae l r.
  Proof. apply agree_suffix_filter_pair, A. Qed.
  Theorem ed_size_cand_float nx ny :
    size_cand (edpf q f) nx ny = size_cand (EditArith.edp q (f_floor f)) nx ny.
  Proof. apply agree_size_cand, A. Qed.
  Theorem ed_prefix_cand_float x y :
    prefix_cand (edpf q f) x y = prefix_cand (EditArith.edp q (f_floor f)) x y.
  Proof. apply agree_prefix_cand, A. Qed.
  Theorem ed_pos_cand_float x y :
    pos_cand (edpf q f) x y = pos_cand (EditArith.edp q (f_floor f)) x y.
  Proof. apply agree_pos_cand, A. Qed.
  Theorem ed_suffix_cand_float x y :
    suffix_cand (edpf q f) x y = suffix_cand (EditArith.edp q (f_floor f)) x y.
  Proof. apply agree_suffix_cand, A. Qed.

  (* ---- SizeFilter ---- *)
  Theorem ed_size_filter_window_float ae nl nr :
    le_thr (Z.abs (nl - nr)) f -> size_filter_pair (edpf q f) ae nl nr = false.
  Proof.
    intros H. apply le_thr_floor in H; [|exact Hfin].
    rewrite ed_size_filter_pair_float. apply ed_size_filter_window. exact H.
  Qed.

  Theorem ed_size_filter_safe_float ae tk s t : 1 <= qq tk -> le_thr (lev s t) f ->
    size_filter_pair (edpf q f) ae (len (qgram_bag tk s)) (len (qgram_bag tk t)) = false.
  Proof.
    intros Hq H. apply le_thr_floor in H; [|exact Hfin].
    rewrite ed_size_filter_pair_float. apply ed_size_filter_safe; assumption.
  Qed.

  (* tight both ways (C14): dropped  <->  the counts differ by more than f *)
  Theorem F4_ED_float a b ae : ~ (a = 0 /\ b = 0) ->
    (size_filter_pair (edpf q f) ae a b = true <-> py_truth (py_gt (PInt (Z.abs (a - b))) (PFloat f)) = true).
  Proof.
    intros Hne. rewrite ed_size_filter_pair_float, py_gt_int_float by exact Hfin. cbn [py_truth].
    rewrite Z.ltb_lt. apply (F4_ED q (f_floor f) a b ae Hne).
  Qed.

  Theorem size_cand_ed_float nx ny : thr_nonneg f ->
    size_cand (edpf q f) nx ny = (0 <? nx) && (Z.abs (ny - nx) <=? f_floor f).
  Proof.
    intros H0. apply thr_nonneg_floor in H0; [|exact Hfin].
    rewrite ed_size_cand_float. apply size_cand_ed. exact H0.
  Qed.

  (* ---- PrefixFilter / PositionFilter on two bags under the count filter for floor f ---- *)
  Theorem ed_prefix_filter_safe_float ae bl br : thr_nonneg f -> 1 <= q ->
    Z.max (len bl) (len br) - q * f_floor f <= Z.of_nat (ovl bl br) ->
    share bl br = true ->
    prefix_filter_pair (edpf q f) ae bl br = Some false.
  Proof.
    intros H0 Hq Hcf Hsh. apply thr_nonneg_floor in H0; [|exact Hfin].
    rewrite ed_prefix_filter_pair_float. apply ed_prefix_filter_safe; assumption.
  Qed.

  Theorem ed_position_filter_safe_float ae bl br : thr_nonneg f -> 1 <= q ->
    Z.max (len bl) (len br) - q * f_floor f <= Z.of_nat (ovl bl br) ->
    share bl br = true ->
    position_filter_pair (edpf q f) ae bl br = Some false.
  Proof.
    intros H0 Hq Hcf Hsh. apply thr_nonneg_floor in H0; [|exact Hfin].
    rewrite ed_position_filter_pair_float. apply ed_position_filter_safe; assumption.
  Qed.
End EdFloat.

Lemma lev_nonneg s t : 0 <= lev s t.
Proof. rewrite lev_dp_correct. lia. Qed.

(* C04 for EDIT_DISTANCE with a float threshold: strings within distance f whose q-gram bags
   share a q-gram survive SizeFilter, PrefixFilter and PositionFilter.  (f >= 0 follows.) *)
Theorem C04_edit_distance_float tk f ae s t : f_is_finite f = true -> 1 <= qq tk ->
  le_thr (lev s t) f ->
  share (qgram_bag tk s) (qgram_bag tk t) = true ->
  size_filter_pair (edpf (qq tk) f) ae (len (qgram_bag tk s)) (len (qgram_bag tk t)) = false /\
  prefix_filter_pair (edpf (qq tk) f) ae (qgram_bag tk s) (qgram_bag tk t) = Some false /\
  position_filter_pair (edpf (qq tk) f) ae (qgram_bag tk s) (qgram_bag tk t) = Some false.
Proof.
  intros Hfin Hq Hlev Hsh. apply le_thr_floor in Hlev; [|exact Hfin].
  pose proof (lev_nonneg s t) as H0.
  rewrite ed_size_filter_pair_float, ed_prefix_filter_pair_float, ed_position_filter_pair_float
    by exact Hfin.
  apply EditFilters.C04_edit_distance; try assumption. lia.
Qed.

(* ====================================================================== OVERLAP *)
Section OvFloat.
  Variables (f : f64) (q : Z).
  Hypothesis Hfin : f_is_finite f = true.

  Let A : fp_agree (ovpf f q) (ovp (f_ceil f) q) := fp_agree_ov_float f q Hfin.

  Theorem ov_size_filter_pair_float_eq ae nl nr :
    size_filter_pair (ovpf f q) ae nl nr = size_filter_pair (ovp (f_ceil f) q) ae nl nr.
  Proof. apply agree_size_filter_pair, A. Qed.
  Theorem ov_prefix_filter_pair_float_eq ae l r :
    prefix_filter_pair (ovpf f q) ae l r = prefix_filter_pair (ovp (f_ceil f) q) ae l r.
  Proof. apply agree_prefix_filter_pair, A. Qed.
  Theorem ov_position_filter_pair_float_eq ae l r :
    position_filter_pair (ovpf f q) ae l r = position_filter_pair (ovp (f_ceil f) q) ae l r.
  Proof. apply agree_position_filter_pair, A. Qed.
  Theorem ov_suffix_filter_pair_float_eq ae l r :
    suffix_filter_pair (ovpf f q) ae l r = suffix_filter_pair (ovp (f_ceil f) q) ae l r.
  Proof. apply agree_suffix_filter_pair, A. Qed.
  Theorem ov_size_cand_float_eq nx ny :
    size_cand (ovpf f q) nx ny = size_cand (ovp (f_ceil f) q) nx ny.
  Proof. apply agree_size_cand, A. Qed.
  Theorem ov_prefix_cand_float_eq x y :
    prefix_cand (ovpf f q) x y = prefix_cand (ovp (f_ceil f) q) x y.
  Proof. apply agree_prefix_cand, A. Qed.
  Theorem ov_pos_cand_float_eq x y :
    pos_cand (ovpf f q) x y = pos_cand (ovp (f_ceil f) q) x y.
  Proof. apply agree_pos_cand, A. Qed.
  Theorem ov_suffix_cand_float_eq x y :
    suffix_cand (ovpf f q) x y = suffix_cand (ovp (f_ceil f) q) x y.
  Proof. apply agree_suffix_cand, A. Qed.

  (* ---- pair level (filter_pair) ---- *)
  Theorem ov_size_filter_pair_float ae l r :
    thr_pos f -> ge_thr (overlap_sets l r) f -> len r <= maxsizeZ ->
    size_filter_pair (ovpf f q) ae (len l) (len r) = false.
  Proof.
    intros Hp Ho Hm. apply thr_pos_ceil in Hp; [|exact Hfin]. apply ge_thr_ceil in Ho; [|exact Hfin].
    rewrite ov_size_filter_pair_float_eq. apply ov_size_filter_pair; assumption.
  Qed.

  Theorem ov_prefix_filter_pair_float ae l r : NoDup l -> NoDup r ->
    thr_pos f -> ge_thr (overlap_sets l r) f ->
    prefix_filter_pair (ovpf f q) ae l r = Some false.
  Proof.
    intros Hl Hr Hp Ho. apply thr_pos_ceil in Hp; [|exact Hfin]. apply ge_thr_ceil in Ho; [|exact Hfin].
    rewrite ov_prefix_filter_pair_float_eq. apply ov_prefix_filter_pair; assumption.
  Qed.

  Theorem ov_position_filter_pair_float ae l r : NoDup l -> NoDup r ->
    thr_pos f -> ge_thr (overlap_sets l r) f ->
    position_filter_pair (ovpf f q) ae l r = Some false.
  Proof.
    intros Hl Hr Hp Ho. apply thr_pos_ceil in Hp; [|exact Hfin]. apply ge_thr_ceil in Ho; [|exact Hfin].
    rewrite ov_position_filter_pair_float_eq. apply ov_position_filter_pair; assumption.
  Qed.

  (* ---- table level (find_candidates), any table-level order `all` ---- *)
  Section Cand.
    Variables all l r : list Z.
    Hypothesis Hndl : NoDup l.
    Hypothesis Hndr : NoDup r.
    Hypothesis Hl : forall w, In w l -> In w all.
    Hypothesis Hr : forall w, In w r -> In w all.
    Hypothesis Hp : thr_pos f.
    Hypothesis Ho : ge_thr (overlap_sets l r) f.
    Hypothesis Hml : len l <= maxsizeZ.
    Hypothesis Hmr : len r <= maxsizeZ.

    Let HT : 1 <= f_ceil f := proj1 (thr_pos_ceil f Hfin) Hp.
    Let Hov : f_ceil f <= overlap_sets l r := proj1 (ge_thr_ceil _ f Hfin) Ho.

    Theorem ov_size_cand_float : size_cand (ovpf f q) (len (order all l)) (len (order all r)) = true.
    Proof. rewrite ov_size_cand_float_eq. apply ov_size_cand; assumption. Qed.
    Theorem ov_prefix_cand_float : prefix_cand (ovpf f q) (order all l) (order all r) = Some true.
    Proof. rewrite ov_prefix_cand_float_eq. apply ov_prefix_cand; assumption. Qed.
    Theorem ov_pos_cand_float :
      exists v, pos_cand (ovpf f q) (order all l) (order all r) = Some v /\ 0 < v.
    Proof. rewrite ov_pos_cand_float_eq. apply ov_pos_cand; assumption. Qed.
  End Cand.
End OvFloat.

(* C04 for the OVERLAP measure with a float threshold *)
Theorem C04_overlap_measure_pair_float l r f q ae : f_is_finite f = true ->
  NoDup l -> NoDup r -> thr_pos f -> ge_thr (overlap_sets l r) f -> len r <= maxsizeZ ->
  size_filter_pair (ovpf f q) ae (len l) (len r) = false /\
  prefix_filter_pair (ovpf f q) ae l r = Some false /\
  position_filter_pair (ovpf f q) ae l r = Some false.
Proof.
  intros Hfin Hl Hr Hp Ho Hm. split; [|split].
  - apply ov_size_filter_pair_float; assumption.
  - apply ov_prefix_filter_pair_float; assumption.
  - apply ov_position_filter_pair_float; assumption.
Qed.

(* ====================================================================== filter_cand / fpcase *)
(* the dispatchers of Model/Joins.v and Spec/FilterSpec.v cannot tell agreeing parameters apart *)
Theorem agree_filter_cand k p p' x y : fp_agree p p' -> filter_cand k p x y = filter_cand k p' x y.
Proof.
  intros A. destruct k; cbn [filter_cand].
  - rewrite (agree_size_cand p p' A). reflexivity.
  - apply agree_prefix_cand, A.
  - rewrite (agree_pos_cand p p' A). reflexivity.
  - apply agree_suffix_cand, A.
Qed.

Lemma map_ext_all {A B} (g h : A -> B) l : (forall a, g a = h a) -> map g l = map h l.
Proof. intros H. apply map_ext. exact H. Qed.

Theorem agree_filter_tables_core k p p' ae L R : fp_agree p p' ->
  filter_tables_core k p ae L R = filter_tables_core k p' ae L R.
Proof.
  intros A. unfold filter_tables_core. rewrite (proj1 A). cbv zeta. f_equal.
  apply map_ext_all. intros [j yraw].
  destruct (_ && (len (order _ yraw) =? 0)); [reflexivity|].
  f_equal. apply map_ext_all. intros cx. rewrite (agree_filter_cand k p p' _ _ A). reflexivity.
Qed.

(* fpcase level (the statement the harness evaluates): OVERLAP measure, float threshold, on the
   Size / Prefix / Position filters -- a qualifying pair is never dropped *)
Theorem filter_pair_safe_overlap_float (c : fpcase) (f : f64) (ls lt rs rt : list Z) :
  fp_which c = FSize \/ fp_which c = FPrefix \/ fp_which c = FPosition ->
  fm (fp_p c) = "OVERLAP" -> ft (fp_p c) = PFloat f -> f_is_finite f = true -> thr_pos f ->
  fp_l c = Some (ls, lt) -> fp_r c = Some (rs, rt) ->
  NoDup lt -> NoDup rt -> len rt <= maxsizeZ ->
  fp_qualifies c = true -> model_filter_pair c = Some false.
Proof.
  intros Hw Hm Ht Hfin Hp El Er Hl Hr Hmx Hq.
  destruct c as [w [m t q] op ae am fl fr]. cbn [fp_which fp_p fp_l fp_r fm ft] in *. subst m t fl fr.
  unfold fp_qualifies in Hq. cbn [fp_which fp_p fp_l fp_r fm ft] in Hq.
  assert (Ho : ge_thr (overlap_sets lt rt) f).
  { unfold ge_thr.
    assert (Hq' : (if (len lt =? 0) && (len rt =? 0) then false
                   else qualifies "OVERLAP" ">=" (PFloat f) lt rt) = true)
      by (destruct Hw as [->| [->| ->]]; exact Hq).
    destruct ((len lt =? 0) && (len rt =? 0)); [discriminate|].
    unfold qualifies in Hq'. apply andb_true_iff in Hq'. destruct Hq' as [Hq' _]. exact Hq'. }
  unfold model_filter_pair. cbn [fp_which fp_p fp_l fp_r fp_allow_empty].
  change {| fm := "OVERLAP"; ft := PFloat f; fq := q |} with (ovpf f q).
  destruct Hw as [->| [->| ->]].
  - f_equal. apply ov_size_filter_pair_float; assumption.
  - apply ov_prefix_filter_pair_float; assumption.
  - apply ov_position_filter_pair_float; assumption.
Qed.

(* fpcase level, EDIT_DISTANCE, float threshold: the token lists are the q-gram bags of the two
   strings (any q >= 1, padded or not) *)
Theorem filter_pair_safe_edit_distance_float (c : fpcase) (f : f64) tk (ls rs : list Z) :
  fp_which c = FSize \/ fp_which c = FPrefix \/ fp_which c = FPosition ->
  fm (fp_p c) = "EDIT_DISTANCE" -> ft (fp_p c) = PFloat f -> fq (fp_p c) = qq tk -> 1 <= qq tk ->
  f_is_finite f = true -> thr_nonneg f ->
  fp_l c = Some (ls, qgram_bag tk ls) -> fp_r c = Some (rs, qgram_bag tk rs) ->
  fp_qualifies c = true -> model_filter_pair c = Some false.
Proof.
  intros Hw Hm Ht Hfq Hq1 Hfin H0 El Er Hq.
  destruct c as [w [m t q] op ae am fl fr]. cbn [fp_which fp_p fp_l fp_r fm ft fq] in *. subst m t q fl fr.
  unfold fp_qualifies in Hq. cbn [fp_which fp_p fp_l fp_r fm ft] in Hq.
  assert (Hq' : cmp_op "<=" (if list_eqbZ ls rs then PFloat (S754_zero false) else PInt (lev ls rs))
                       (PFloat f) && share (qgram_bag tk ls) (qgram_bag tk rs) = true)
    by (destruct Hw as [->| [->| ->]]; exact Hq).
  apply andb_true_iff in Hq'. destruct Hq' as [Hle Hsh].
  assert (Hlev : le_thr (lev ls rs) f).
  { destruct (list_eqbZ ls rs) eqn:E.
    - apply list_eqbZ_eq in E. subst rs. apply le_thr_floor; [exact Hfin|].
      rewrite lev_dp_correct, lev_spec_refl. apply thr_nonneg_floor; assumption.
    - exact Hle. }
  destruct (C04_edit_distance_float tk f ae ls rs Hfin Hq1 Hlev Hsh) as (H1 & H2 & H3).
  unfold model_filter_pair. cbn [fp_which fp_p fp_l fp_r fp_allow_empty].
  change {| fm := "EDIT_DISTANCE"; ft := PFloat f; fq := qq tk |} with (edpf (qq tk) f).
  destruct Hw as [->| [->| ->]]; [f_equal; exact H1|exact H2|exact H3].
Qed.

(* ====================================================================== examples *)
(* "abc" / "abd", q = 2 (padded), threshold 1.5 and 1.0 *)
Example C04_edit_distance_float_ex :
  size_filter_pair (edpf 2 f_1_5) false (len (qgram_bag tk2f [97; 98; 99])) (len (qgram_bag tk2f [97; 98; 100])) = false /\
  prefix_filter_pair (edpf 2 f_1_5) false (qgram_bag tk2f [97; 98; 99]) (qgram_bag tk2f [97; 98; 100]) = Some false /\
  position_filter_pair (edpf 2 f_1_5) false (qgram_bag tk2f [97; 98; 99]) (qgram_bag tk2f [97; 98; 100]) = Some false.
Proof.
  apply (C04_edit_distance_float tk2f f_1_5 false).
  - reflexivity.
  - simpl; lia.
  - vm_compute. reflexivity.
  - vm_compute. reflexivity.
Qed.
(* threshold 0.5 behaves as 0 and 1.5 as 1: the size filter keeps exactly the pairs whose token
   counts differ by at most floor f *)
Example ed_float_half_ex :
  f_floor f_0_5 = 0 /\
  size_filter_pair (edpf 2 f_0_5) false 4 4 = false /\ size_filter_pair (edpf 2 f_0_5) false 4 5 = true /\
  size_filter_pair (edpf 2 f_1_5) false 4 5 = false /\ size_filter_pair (edpf 2 f_1_5) false 4 6 = true.
Proof. vm_compute. repeat split; reflexivity. Qed.

Example C04_overlap_measure_pair_float_ex :
  size_filter_pair (ovpf f_1_5 3) false (len [30;10;70;90]) (len [90;20;30;50]) = false /\
  prefix_filter_pair (ovpf f_1_5 3) false [30;10;70;90] [90;20;30;50] = Some false /\
  position_filter_pair (ovpf f_1_5 3) false [30;10;70;90] [90;20;30;50] = Some false.
Proof.
  apply C04_overlap_measure_pair_float.
  - reflexivity.
  - repeat constructor; simpl; intuition lia.
  - repeat constructor; simpl; intuition lia.
  - vm_compute. reflexivity.
  - vm_compute. reflexivity.
  - vm_compute. discriminate.
Qed.
(* overlap 2 < 2.5: ceil 2.5 = 3, the prefix filter drops the pair *)
Example ov_float_drop_ex :
  overlap_sets [30;10;70;90] [90;20;30;50] = 2 /\ f_ceil (mkF 5 (-1)) = 3 /\
  prefix_filter_pair (ovpf (mkF 5 (-1)) 3) false [30;10;70;90] [90;20;30;50] = Some true.
Proof. vm_compute. repeat split; reflexivity. Qed.

Print Assumptions ed_size_filter_safe_float.
Print Assumptions F4_ED_float.
Print Assumptions ed_prefix_filter_safe_float.
Print Assumptions ed_position_filter_safe_float.
Print Assumptions C04_edit_distance_float.
Print Assumptions ov_size_filter_pair_float.
Print Assumptions ov_prefix_filter_pair_float.
Print Assumptions ov_position_filter_pair_float.
Print Assumptions ov_pos_cand_float.
Print Assumptions C04_overlap_measure_pair_float.
Print Assumptions agree_filter_tables_core.
Print Assumptions filter_pair_safe_overlap_float.
Print Assumptions filter_pair_safe_edit_distance_float.
