(* WrapperRefineApi.api_link generalised to every entry of Model/Api.v (all joins, the filters'
   filter_tables): the link between the rows a GENERATED wrapper returns (WrapperBody.body_result with
   Q = chunk_ok) and the key-level API model `api_join`.

   The two frames are abstracted into lists of Api.row: key through an arbitrary key abstraction kz,
   the join cell as None if missing / Some (str cell, toks cell) otherwise (str: the code points, only
   looked at by the edit-distance entry).  The model's per-chunk core is abstracted as
   K : chunk -> option (list triple) with HK: core_of jc (left rows) (chunk) = K chunk.  Then
     * api_join jc = Some (main_api ++ missing part if allow_missing),
     * main_api is the concatenation, chunk by chunk, of lists AS_j; the (left key, right key, score)
       triples of the rows of chunk j are a PERMUTATION of AS_j  (hence of the whole main part),
     * the triples of the missing-value rows ARE Api.missing_pairs, in order.
   Axiom-free (the chunk list of the wrapper and of Api.chunks_of are related by a hypothesis).   *)
From Coq Require Import ZArith Bool List String Lia Permutation.
From SSJ Require Import F64 PyNum FilterUtilsGen HelperGen TokenOrdering Measures Filters Joins Api
     Projection ProjSpec IndexPyFacts ProjectionFacts JoinGenFacts JoinRefineProj Frame
     WrapperRefineFrame WrapperRefineMissing WrapperRefineCore WrapperRefineApi.
Import ListNotations.
Open Scope Z_scope.

Section ApiLinkGen.
  Variables (c : pcase) (lsrc rsrc : list (list pyval)).
  Variables (toks str : pyval -> list Z) (kz : pyval -> Z).
  Variable jc : jcase.
  Variable K : list (list pyval) -> option (list triple).

  Hypothesis Hwf : well_formed c.
  Hypothesis Hlsrc : forall row, In row lsrc ->
    List.length row = List.length (p_lcols c) /\ ProjSpec.row_ok row.
  Hypothesis Hrsrc : forall row, In row rsrc ->
    List.length row = List.length (p_rcols c) /\ ProjSpec.row_ok row.

  Let lpres := lpresent c lsrc.
  Let rpres := rpresent c rsrc.

  (* the frames as the API model sees them *)
  Definition arowLs (row : list pyval) : Api.row :=
    (kz (cellv (p_lcols c) row (p_lkey c)),
     if present_row (p_lcols c) (p_ljoin c) row
     then Some (str (cellv (p_lcols c) row (p_ljoin c)), toks (cellv (p_lcols c) row (p_ljoin c))) else None).
  Definition arowRs (row : list pyval) : Api.row :=
    (kz (cellv (p_rcols c) row (p_rkey c)),
     if present_row (p_rcols c) (p_rjoin c) row
     then Some (str (cellv (p_rcols c) row (p_rjoin c)), toks (cellv (p_rcols c) row (p_rjoin c))) else None).

  Hypothesis HjL : j_L jc = map arowLs lsrc.
  Hypothesis HjR : j_R jc = map arowRs rsrc.
  Hypothesis Hjs : j_with_score jc = p_score c.
  Hypothesis HK : forall ch, (forall row, In row ch -> In row rpres) ->
    core_of jc (map arowLs lpres) (map arowRs ch) = K ch.

  Lemma presentLs row : present (arowLs row) = present_row (p_lcols c) (p_ljoin c) row.
  Proof. unfold present, arowLs. cbn [snd]. destruct (present_row _ _ row); reflexivity. Qed.
  Lemma presentRs row : present (arowRs row) = present_row (p_rcols c) (p_rjoin c) row.
  Proof. unfold present, arowRs. cbn [snd]. destruct (present_row _ _ row); reflexivity. Qed.

  Lemma Lps_eq : filter present (map arowLs lsrc) = map arowLs lpres.
  Proof. apply filter_map_comm. exact presentLs. Qed.
  Lemma Rps_eq : filter present (map arowRs rsrc) = map arowRs rpres.
  Proof. apply filter_map_comm. exact presentRs. Qed.

  (* the token lists / strings of present rows, as the cores want them *)
  Lemma toksLs : map toks_of (map arowLs lpres) = Ltoks c lsrc toks.
  Proof.
    unfold Ltoks. fold lpres. rewrite map_map. apply map_ext_in. intros row Hr.
    apply filter_In in Hr. destruct Hr as [_ Hp]. unfold toks_of, arowLs. cbn [snd]. now rewrite Hp.
  Qed.
  Lemma toksRs ch : (forall row, In row ch -> In row rpres) -> map toks_of (map arowRs ch) = Rtoks c toks ch.
  Proof.
    intros Hch. unfold Rtoks. rewrite map_map. apply map_ext_in. intros row Hr.
    apply Hch in Hr. apply filter_In in Hr. destruct Hr as [_ Hp]. unfold toks_of, arowRs. cbn [snd]. now rewrite Hp.
  Qed.
  Lemma strtoksLs :
    map (fun r => (str_of r, toks_of r)) (map arowLs lpres)
    = map (fun row => (str (cellv (p_lcols c) row (p_ljoin c)), toks (cellv (p_lcols c) row (p_ljoin c)))) lpres.
  Proof.
    rewrite map_map. apply map_ext_in. intros row Hr.
    apply filter_In in Hr. destruct Hr as [_ Hp]. unfold str_of, toks_of, arowLs. cbn [snd]. now rewrite Hp.
  Qed.
  Lemma strtoksRs ch : (forall row, In row ch -> In row rpres) ->
    map (fun r => (str_of r, toks_of r)) (map arowRs ch)
    = map (fun row => (str (cellv (p_rcols c) row (p_rjoin c)), toks (cellv (p_rcols c) row (p_rjoin c)))) ch.
  Proof.
    intros Hch. rewrite map_map. apply map_ext_in. intros row Hr.
    apply Hch in Hr. apply filter_In in Hr. destruct Hr as [_ Hp]. unfold str_of, toks_of, arowRs. cbn [snd]. now rewrite Hp.
  Qed.

  Definition with_score_c (rows : list out_row) : list out_row :=
    if p_score c then rows else map (fun r : out_row => (fst r, PNone)) rows.

  (* what the generated wrapper establishes about one chunk and its rows *)
  Definition chunk_ok (ch : list (list pyval)) (rows : list (list pyval)) : Prop :=
    exists T : list triple,
      K ch = Some T /\
      Permutation rows (map (spec_row c lpres ch) T) /\
      forall t, In t T ->
        exists cells, out_cells c (nth (fst (fst t)) lpres []) (nth (snd (fst t)) ch []) = Some cells /\
                      cells_spec c (nth (fst (fst t)) lpres []) (nth (snd (fst t)) ch []) = Some cells.

  Lemma chunk_link_gen off ch rows : (forall row, In row ch -> In row rpres) -> chunk_ok ch rows ->
    exists T,
      option_map (keyed (map arowLs lpres) (map arowRs ch) off) (core_of jc (map arowLs lpres) (map arowRs ch))
      = Some (keyed (map arowLs lpres) (map arowRs ch) off T) /\
      Permutation (map (row_out c kz) rows) (with_score_c (keyed (map arowLs lpres) (map arowRs ch) off T)).
  Proof.
    intros Hch (T & ET & Perm & Hc). exists T.
    rewrite (HK ch Hch), ET. split; [reflexivity|].
    eapply Permutation_trans; [apply Permutation_map; exact Perm|].
    rewrite map_map.
    assert (E : map (fun t => row_out c kz (spec_row c lpres ch t)) T
                = with_score_c (keyed (map arowLs lpres) (map arowRs ch) off T)).
    { unfold with_score_c, keyed.
      assert (E0 : forall t, In t T ->
                row_out c kz (spec_row c lpres ch t)
                = (let '(i, j, s) := t in
                   (fst (nth i (map arowLs lpres) (0, None)), fst (nth j (map arowRs ch) (0, None)),
                    if p_score c then s else PNone))).
      { intros [[i j] s] Ht. destruct (Hc _ Ht) as (cells & Eo & Es). cbn [fst snd] in Eo, Es.
        destruct (spec_row_out c lsrc rsrc kz Hwf Hlsrc Hrsrc ch i j s cells Hch Eo Es) as (Hi & Hj & E1).
        change (lpresent c lsrc) with lpres in Hi, E1. rewrite E1.
        rewrite (nth_indep (map arowLs lpres) (0, None) (arowLs [])) by (rewrite map_length; exact Hi).
        rewrite (nth_indep (map arowRs ch) (0, None) (arowRs [])) by (rewrite map_length; exact Hj).
        rewrite !map_nth. reflexivity. }
      destruct (p_score c) eqn:Hsc.
      - apply map_ext_in. intros t Ht. rewrite (E0 t Ht). destruct t as [[i j] s]. reflexivity.
      - rewrite map_map. apply map_ext_in. intros t Ht. rewrite (E0 t Ht). destruct t as [[i j] s]. reflexivity. }
    rewrite E. apply Permutation_refl.
  Qed.

  Lemma with_score_c_app a b : with_score_c (a ++ b) = (with_score_c a ++ with_score_c b)%list.
  Proof. unfold with_score_c. destruct (p_score c); [reflexivity | apply map_app]. Qed.
  Lemma with_score_c_concat l : with_score_c (List.concat l) = List.concat (map with_score_c l).
  Proof.
    induction l as [|a l IH]; [unfold with_score_c; destruct (p_score c); reflexivity|].
    cbn [List.concat map]. now rewrite with_score_c_app, IH.
  Qed.

  Lemma chunks_link_gen : forall (chs : list (nat * list (list pyval))) (RS : list (list (list pyval))),
    (forall ch, In ch chs -> forall row, In row (snd ch) -> In row rpres) ->
    Forall2 chunk_ok (map snd chs) RS ->
    exists AS : list (list out_row),
      opt_concat (map (fun ch : nat * list Api.row =>
                         option_map (keyed (map arowLs lpres) (snd ch) (fst ch))
                                    (core_of jc (map arowLs lpres) (snd ch)))
                      (map (fun ch : nat * list (list pyval) => (fst ch, map arowRs (snd ch))) chs))
      = Some (List.concat AS) /\
      Forall2 (fun rows a => Permutation (map (row_out c kz) rows) (with_score_c a)) RS AS.
  Proof.
    induction chs as [|ch chs IH]; intros RS Hin HF; inversion HF; subst.
    - exists []. split; [reflexivity | constructor].
    - destruct (IH l') as (AS & Eo & Pm); [intros ch' Hc'; apply Hin; right; exact Hc' | assumption|].
      destruct (chunk_link_gen (fst ch) (snd ch) y) as (T & E1 & P1); [apply Hin; left; reflexivity | assumption|].
      exists (keyed (map arowLs lpres) (map arowRs (snd ch)) (fst ch) T :: AS).
      cbn [map fst snd opt_concat List.concat]. rewrite E1, Eo. split; [reflexivity|].
      constructor; assumption.
  Qed.

  Lemma forall2_perm_concat {A B} (f : A -> B) (g : list B -> list B) :
    forall (RS : list (list A)) (AS : list (list B)),
    Forall2 (fun rows a => Permutation (map f rows) (g a)) RS AS ->
    Permutation (map f (List.concat RS)) (List.concat (map g AS)).
  Proof.
    induction 1 as [|rows a RS AS H _ IH]; [constructor|].
    cbn [List.concat map]. rewrite map_app. apply Permutation_app; assumption.
  Qed.

  (* ---- the missing-value rows ---- *)
  Lemma l_missing_present_s row : l_missing c row = negb (present (arowLs row)).
  Proof. rewrite presentLs. unfold l_missing, present_row. now rewrite negb_involutive. Qed.
  Lemma r_missing_present_s row : r_missing c row = negb (present (arowRs row)).
  Proof. rewrite presentRs. unfold r_missing, present_row. now rewrite negb_involutive. Qed.

  Theorem missing_link_gen :
    map (mv_out kz) (mv_rows c lsrc rsrc) = missing_pairs (map arowLs lsrc) (map arowRs rsrc).
  Proof.
    unfold mv_rows, missing_pairs. rewrite map_app. f_equal.
    - rewrite flat_map_filter, map_flat_map', flat_map_map'. apply flat_map_ext'. intros l.
      rewrite l_missing_present_s. destruct (present (arowLs l)); cbn [negb map]; [reflexivity|].
      rewrite !map_map. reflexivity.
    - rewrite flat_map_filter, map_flat_map', flat_map_map'. apply flat_map_ext'. intros r.
      rewrite r_missing_present_s. destruct (present (arowRs r)); cbn [negb map]; [reflexivity|].
      rewrite flat_map_map'. rewrite map_map.
      rewrite (flat_map_single (fun l => (fst (arowLs l), fst (arowRs r), PNone)) (fun l => present (arowLs l))).
      f_equal. apply filter_ext. intros l. now rewrite l_missing_present_s, negb_involutive.
  Qed.

  (* ---- the whole link ---- *)
  Theorem api_link_gen (chs : list (nat * list (list pyval))) (RS : list (list (list pyval))) :
    chunks_of (j_njobs jc) (j_cpus jc) rpres = Some chs ->
    List.concat (map snd chs) = rpres ->
    List.length RS = List.length chs ->
    (forall j, (j < List.length chs)%nat -> chunk_ok (nth j (map snd chs) []) (nth j RS [])) ->
    exists AS : list (list out_row),
      api_join jc
      = Some (List.concat AS ++ if j_allow_missing jc then missing_pairs (map arowLs lsrc) (map arowRs rsrc) else [])%list /\
      Forall2 (fun rows a => Permutation (map (row_out c kz) rows) a) RS AS /\
      Permutation (map (row_out c kz) (List.concat RS)) (List.concat AS) /\
      map (mv_out kz) (mv_rows c lsrc rsrc) = missing_pairs (map arowLs lsrc) (map arowRs rsrc).
  Proof.
    intros Ech Hcat Hlen Hfacts.
    assert (HF : Forall2 chunk_ok (map snd chs) RS).
    { apply (forall2_of_nth chunk_ok [] []); [now rewrite map_length|].
      intros j Hj. rewrite map_length in Hj. apply Hfacts. exact Hj. }
    assert (Hin : forall ch, In ch chs -> forall row, In row (snd ch) -> In row rpres).
    { intros ch Hc row Hr. rewrite <- Hcat. apply in_concat. exists (snd ch). split; [now apply in_map | exact Hr]. }
    destruct (chunks_link_gen chs RS Hin HF) as (AS & Eo & Pm).
    exists (map with_score_c AS).
    assert (HF2 : Forall2 (fun rows a => Permutation (map (row_out c kz) rows) a) RS (map with_score_c AS)).
    { clear - Pm. induction Pm; cbn [map]; constructor; assumption. }
    split; [|split; [exact HF2 | split; [| exact missing_link_gen]]].
    - unfold api_join. rewrite HjL, HjR, Hjs.
      rewrite Lps_eq, Rps_eq. rewrite chunks_of_map. fold rpres. rewrite Ech. cbn [option_map].
      fold lpres. rewrite Eo. rewrite <- with_score_c_concat. unfold with_score_c. reflexivity.
    - apply (forall2_perm_concat (row_out c kz) (fun a => a)) in HF2. rewrite map_id in HF2. exact HF2.
  Qed.
End ApiLinkGen.

Print Assumptions api_link_gen.
Print Assumptions missing_link_gen.
