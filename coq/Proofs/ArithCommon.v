(* Shared layer of the arithmetic proofs (F1/F2/F3/F5):
   - how the dynamically typed Python operations reduce on the values that occur,
   - the envelope facts (threshold, sizes) at the real level,
   - ceil/floor of round(x,4) with explicit integer bounds.                          *)
From Coq Require Import ZArith Reals Lia Lra Psatz SpecFloat Bool String List.
From Flocq Require Import Core BinarySingleNaN Relative.
From SSJ Require Import F64 F64Spec PyNum FilterUtilsGen Measures ArithSpec.
Open Scope string_scope.
Open Scope Z_scope.

(* ------------------------------------------------------------------ *)
(** * Python level                                                     *)

Lemma py_ceil_fin : forall f, f_is_finite f = true -> py_ceil (PFloat f) = PInt (f_ceil f).
Proof. intros f H. unfold py_ceil, strict1, num_of. now rewrite H. Qed.

Lemma py_floor_fin : forall f, f_is_finite f = true -> py_floor (PFloat f) = PInt (f_floor f).
Proof. intros f H. unfold py_floor, strict1, num_of. now rewrite H. Qed.

Lemma toZ_int_ceil : forall f, f_is_finite f = true ->
  toZ (py_int (py_ceil (PFloat f))) = Some (f_ceil f).
Proof. intros f H. now rewrite py_ceil_fin. Qed.

Lemma toZ_ceil : forall f, f_is_finite f = true ->
  toZ (py_ceil (PFloat f)) = Some (f_ceil f).
Proof. intros f H. now rewrite py_ceil_fin. Qed.

Lemma toZ_int_floor : forall f, f_is_finite f = true ->
  toZ (py_int (py_floor (PFloat f))) = Some (f_floor f).
Proof. intros f H. now rewrite py_floor_fin. Qed.

Lemma toZ_prefix : forall n f, f_is_finite f = true ->
  toZ (py_int (py_add (py_sub (PInt n) (py_ceil (PFloat f))) (PInt 1))) = Some (n - f_ceil f + 1).
Proof. intros n f H. now rewrite py_ceil_fin. Qed.

Lemma py_truediv_ff : forall x y, f_is_zero y = false ->
  py_truediv (PFloat x) (PFloat y) = PFloat (fdiv x y).
Proof. intros x y H. unfold py_truediv, strict2, num_of, to_f. now rewrite H. Qed.

Lemma py_truediv_if : forall n y, f_is_zero y = false ->
  py_truediv (PInt n) (PFloat y) = PFloat (fdiv (f_of_Z n) y).
Proof. intros x y H. unfold py_truediv, strict2, num_of, to_f. now rewrite H. Qed.

Lemma py_truediv_fi : forall x n, f_is_zero (f_of_Z n) = false ->
  py_truediv (PFloat x) (PInt n) = PFloat (fdiv x (f_of_Z n)).
Proof. intros x y H. unfold py_truediv, strict2, num_of, to_f. now rewrite H. Qed.

Lemma py_sqrt_int : forall n, f_is_nan (f_of_Z n) = false -> f_sign (f_of_Z n) = false ->
  py_sqrt (PInt n) = PFloat (fsqrt (f_of_Z n)).
Proof. intros n H1 H2. unfold py_sqrt, strict1, num_of, to_f. now rewrite H1, H2. Qed.

(* ------------------------------------------------------------------ *)
(** * Real level: constants, envelope                                  *)
Open Scope R_scope.

Lemma fin_finite : forall x, fin x -> f_is_finite x = true.
Proof. now intros x [_ H]. Qed.

Lemma fin_pos_nz : forall x, fin x -> 0 < FR x -> f_is_zero x = false.
Proof.
intros x Hx Hp. destruct (fin_pos_shape x Hx Hp) as (_ & _ & H).
destruct x; try reflexivity. discriminate.
Qed.

Lemma f_one_spec : fin f_one /\ FR f_one = 1.
Proof. apply (f_of_Z_exact 1). simpl. lia. Qed.

Lemma f_two_spec : fin f_two /\ FR f_two = 2.
Proof. apply (f_of_Z_exact 2). simpl. lia. Qed.

Lemma t_lo_spec : fin (mkF 1 (-30)) /\ FR (mkF 1 (-30)) = / 1073741824.
Proof.
assert (H : F2R (Float radix2 1 (-30)) = bpow radix2 (-30)).
{ unfold F2R. simpl Fnum. simpl Fexp. ring. }
assert (Hr : RN (F2R (Float radix2 1 (-30))) = bpow radix2 (-30)).
{ rewrite H. apply RN_id. apply format_bpow. lia. }
destruct (mkF_spec 1 (-30)) as [H1 H2].
- rewrite Hr. rewrite Rabs_pos_eq by apply bpow_ge_0. apply bpow_lt. lia.
- split. exact H1. rewrite H2, Hr. simpl. lra.
Qed.

(* the threshold envelope *)
Lemma env_t_R : forall t, env_t t = true -> fin t /\ / 1073741824 <= FR t <= 1.
Proof.
intros t H. unfold env_t in H.
apply andb_prop in H. destruct H as [H H2].
apply andb_prop in H. destruct H as [Hv H1].
assert (Hf : f_is_finite t = true).
{ destruct t as [s|s| |s m e]; try reflexivity.
  - destruct s. discriminate H1. discriminate H2.
  - discriminate H1. }
assert (Ht : fin t) by (split; assumption).
destruct t_lo_spec as [L1 L2]. destruct f_one_spec as [O1 O2].
split. exact Ht.
apply fleb_true in H1; [ | assumption..].
apply fleb_true in H2; [ | assumption..].
rewrite L2 in H1. rewrite O2 in H2. lra.
Qed.

(* sizes *)
Definition SB : R := 1048576.   (* 2^20 = size_bound *)
Lemma size_R : forall n : Z, (1 <= n < size_bound)%Z -> 1 <= IZR n <= 1048575.
Proof.
intros n [H1 H2]. unfold size_bound in H2.
split. now apply IZR_le.
apply IZR_le. change (2^20)%Z with 1048576%Z in H2. lia.
Qed.

Lemma f_of_size : forall n : Z, (0 <= n < 2^50)%Z -> fin (f_of_Z n) /\ FR (f_of_Z n) = IZR n.
Proof. intros n Hn. apply f_of_Z_exact. lia. Qed.

(* ------------------------------------------------------------------ *)
(** * eps bookkeeping                                                  *)

Definition B100 : R := 1267650600228229401496703205376.

Lemma RN_pos_bounds : forall v, / B100 <= v ->
  v * (1 - eps) <= RN v <= v * (1 + eps).
Proof. intros v Hv. unfold B100 in Hv. split. now apply RN_dn'. now apply RN_up'. Qed.

Lemma RN_pos_crude : forall v, / B100 <= v -> v / 2 <= RN v <= 2 * v.
Proof.
intros v Hv. destruct (RN_pos_bounds v Hv) as [H1 H2].
pose proof eps_val as He. unfold B100 in Hv.
assert (0 < v) by lra. rewrite He in *. nra.
Qed.

(* ------------------------------------------------------------------ *)
(** * ceil / floor of round(x, 4)                                      *)

Definition B99 : R := 633825300114114700748351602688.

Lemma ceil_round4 : forall (x : f64) (k : Z), fin x -> 0 <= FR x <= B99 ->
  (Z.abs k <= 2^31)%Z -> FR x < IZR k + / 20000 ->
  f_is_finite (f_round_nd x 4) = true /\
  (0 <= f_ceil (f_round_nd x 4) <= k)%Z.
Proof.
intros x k Hx Hr Hk Hv. unfold B99 in Hr.
destruct (f_round_4_spec x Hx) as [[_ H1] H2].
{ rewrite Rabs_pos_eq by lra. lra. }
split. exact H1.
rewrite f_ceil_spec, H2. split.
- rewrite <- (Zceil_IZR 0). apply Zceil_le. apply R4_ge_0. lra.
- now apply ceil_R4_le.
Qed.

Lemma floor_round4 : forall (x : f64) (k : Z), fin x -> 0 <= FR x <= B99 ->
  (Z.abs k <= 2^31)%Z -> IZR k - / 20000 < FR x ->
  f_is_finite (f_round_nd x 4) = true /\
  (k <= f_floor (f_round_nd x 4))%Z.
Proof.
intros x k Hx Hr Hk Hv. unfold B99 in Hr.
destruct (f_round_4_spec x Hx) as [[_ H1] H2].
{ rewrite Rabs_pos_eq by lra. lra. }
split. exact H1.
rewrite f_floor_spec, H2. now apply floor_R4_ge.
Qed.

(* ------------------------------------------------------------------ *)
(** * operations on positive values inside [2^-100, 2^100]             *)

Lemma fmul_pos : forall x y, fin x -> fin y -> / B100 <= FR x * FR y <= B100 ->
  fin (fmul x y) /\ FR (fmul x y) = RN (FR x * FR y).
Proof.
intros x y Hx Hy Hr. apply fmul_spec; try assumption.
apply RN_no_overflow'. unfold B100 in Hr. lra.
Qed.

Lemma fdiv_pos : forall x y, fin x -> fin y -> 0 < FR y -> / B100 <= FR x / FR y <= B100 ->
  fin (fdiv x y) /\ FR (fdiv x y) = RN (FR x / FR y).
Proof.
intros x y Hx Hy Hy0 Hr. apply fdiv_spec; try assumption. lra.
apply RN_no_overflow'. unfold B100 in Hr. lra.
Qed.

Lemma fadd_pos : forall x y, fin x -> fin y -> / B100 <= FR x + FR y <= B100 ->
  fin (fadd x y) /\ FR (fadd x y) = RN (FR x + FR y).
Proof.
intros x y Hx Hy Hr. apply fadd_spec; try assumption.
apply RN_no_overflow'. unfold B100 in Hr. lra.
Qed.

Lemma fsub_pos : forall x y, fin x -> fin y -> / B100 <= FR x - FR y <= B100 ->
  fin (fsub x y) /\ FR (fsub x y) = RN (FR x - FR y).
Proof.
intros x y Hx Hy Hr. apply fsub_spec; try assumption.
apply RN_no_overflow'. unfold B100 in Hr. lra.
Qed.

Lemma div_bounds : forall x y lo hi, 0 < y -> lo * y <= x <= hi * y -> lo <= x / y <= hi.
Proof.
intros x y lo hi Hy [H1 H2].
split; apply Rmult_le_reg_r with y; try assumption;
  unfold Rdiv; rewrite ?Rmult_assoc, Rinv_l by lra; lra.
Qed.

Lemma div_mul : forall x y, 0 < y -> x / y * y = x.
Proof. intros x y Hy. unfold Rdiv. rewrite Rmult_assoc, Rinv_l by lra. ring. Qed.

Lemma mul_bounds : forall x y lx hx ly hy,
  0 <= lx <= x -> x <= hx -> 0 <= ly <= y -> y <= hy -> lx * ly <= x * y <= hx * hy.
Proof.
intros x y lx hx ly hy [H0 H1] H2 [H3 H4] H5. split.
- apply Rmult_le_compat; lra.
- apply Rmult_le_compat; lra.
Qed.

Lemma le_of_mul_r : forall a b c, 0 < c -> a * c <= b * c -> a <= b.
Proof. intros a b c Hc H. now apply Rmult_le_reg_r with c. Qed.

(* sizes at the real level *)
Lemma sizes_R : forall a b o, sizes_ok a b o ->
  1 <= IZR o /\ IZR o <= IZR a /\ IZR o <= IZR b /\ IZR a <= 1048575 /\ IZR b <= 1048575 /\
  IZR (a + b - o) = IZR a + IZR b - IZR o /\ IZR (a + b) = IZR a + IZR b.
Proof.
intros a b o (H1 & H2 & H3 & H4 & H5). unfold size_bound in *.
change (2^20)%Z with 1048576%Z in *.
repeat split; try (apply IZR_le; lia).
- rewrite minus_IZR, plus_IZR. reflexivity.
- apply plus_IZR.
Qed.


Lemma sizes_ok_sym : forall a b o, sizes_ok a b o -> sizes_ok b a o.
Proof. unfold sizes_ok. intuition. Qed.

Lemma size_21 : forall n, (1 <= n < size_bound)%Z -> (1 <= n < 2^21)%Z.
Proof. unfold size_bound. intros n H. change (2^20)%Z with 1048576%Z in H.
change (2^21)%Z with 2097152%Z. lia. Qed.

Lemma abs_31 : forall n, (0 <= n < size_bound)%Z -> (Z.abs n <= 2^31)%Z.
Proof. unfold size_bound. intros n H. change (2^20)%Z with 1048576%Z in H.
change (2^31)%Z with 2147483648%Z. lia. Qed.


(* ------------------------------------------------------------------ *)
(** * from a bound on the pre-rounding value to the integer result     *)

Lemma lb_combo : forall m t n x k,
  lbZ m (PFloat t) n = toZ (py_int (py_ceil (PFloat (f_round_nd x 4)))) ->
  fin x -> 0 <= FR x <= B99 -> (Z.abs k <= 2^31)%Z -> FR x < IZR k + / 20000 ->
  exists lb, lbZ m (PFloat t) n = Some lb /\ (0 <= lb <= k)%Z.
Proof.
intros m t n x k E Hf Hr Hk Hv.
destruct (ceil_round4 x k Hf Hr Hk Hv) as [F1 F2].
exists (f_ceil (f_round_nd x 4)). split; [ | exact F2].
rewrite E. now apply toZ_int_ceil.
Qed.

Lemma ub_combo : forall m t n x k,
  ubZ m (PFloat t) n = toZ (py_int (py_floor (PFloat (f_round_nd x 4)))) ->
  fin x -> 0 <= FR x <= B99 -> (Z.abs k <= 2^31)%Z -> IZR k - / 20000 < FR x ->
  exists ub, ubZ m (PFloat t) n = Some ub /\ (k <= ub)%Z.
Proof.
intros m t n x k E Hf Hr Hk Hv.
destruct (floor_round4 x k Hf Hr Hk Hv) as [F1 F2].
exists (f_floor (f_round_nd x 4)). split; [ | exact F2].
rewrite E. now apply toZ_int_floor.
Qed.

Lemma pl_combo : forall m t q n x k,
  plZ m (PFloat t) q n =
    toZ (py_int (py_add (py_sub (PInt n) (py_ceil (PFloat (f_round_nd x 4)))) (PInt 1))) ->
  fin x -> 0 <= FR x <= B99 -> (Z.abs k <= 2^31)%Z -> FR x < IZR k + / 20000 ->
  exists p, plZ m (PFloat t) q n = Some p /\ (n - k + 1 <= p <= n + 1)%Z.
Proof.
intros m t q n x k E Hf Hr Hk Hv.
destruct (ceil_round4 x k Hf Hr Hk Hv) as [F1 F2].
exists (n - f_ceil (f_round_nd x 4) + 1)%Z. split; [ | lia].
rewrite E. now apply toZ_prefix.
Qed.

Lemma ot_combo : forall m t q a b x k,
  otZ m (PFloat t) q a b = toZ (py_ceil (PFloat (f_round_nd x 4))) ->
  fin x -> 0 <= FR x <= B99 -> (Z.abs k <= 2^31)%Z -> FR x < IZR k + / 20000 ->
  exists al, otZ m (PFloat t) q a b = Some al /\ (al <= k)%Z.
Proof.
intros m t q a b x k E Hf Hr Hk Hv.
destruct (ceil_round4 x k Hf Hr Hk Hv) as [F1 F2].
exists (f_ceil (f_round_nd x 4)). split; [ | lia].
rewrite E. now apply toZ_ceil.
Qed.

(* RN is the identity on the integers that occur *)
Lemma RN_size : forall n : Z, (0 <= n < 2^50)%Z -> RN (IZR n) = IZR n.
Proof. intros n Hn. apply RN_int. lia. Qed.

Lemma IZR_21 : forall n : Z, (1 <= n < 2^21)%Z -> 1 <= IZR n <= 2097151.
Proof.
intros n Hn. change (2^21)%Z with 2097152%Z in Hn.
split; apply IZR_le; lia.
Qed.
