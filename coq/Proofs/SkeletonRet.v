(* Third checker on the regenerated control skeletons: no entry point can RETURN (early or at
   its end) before every one of its validations has been executed -- so a call that returns
   normally has checked all its arguments (C15: invalid arguments are never accepted through an
   early exit such as `if candset.empty: return candset`).                                 *)
From Coq Require Import Bool List String Arith Lia.
From SSJ Require Import SkeletonLang.
Import ListNotations.

Fixpoint vret (seen_ret : bool) (l : list ev) : bool :=
  match l with
  | [] => true
  | Validate _ :: l' => negb seen_ret && vret seen_ret l'
  | EarlyRet :: l' => vret true l'
  | Ret :: l' => vret true l'
  | _ :: l' => vret seen_ret l'
  end.
Definition validations_before_returns (sk : skeleton) : bool := vret false (flat_map evs_of sk).

Definition is_validate (e : ev) : bool := match e with Validate _ => true | _ => false end.
Definition nvalid (l : list ev) : nat := List.length (filter is_validate l).

(* run of the flattened events counting the validations that were executed *)
Fixpoint run_cnt (o : oracle) (n k : nat) (l : list ev) : status * nat :=
  match l with
  | [] => (Running, k)
  | Validate _ :: l' => if o n then (Raised, S k) else run_cnt o (S n) (S k) l'
  | EarlyRet :: l' => if o n then (Returned, k) else run_cnt o (S n) k l'
  | Ret :: _ => (Returned, k)
  | _ :: l' => run_cnt o (S n) k l'
  end.

Lemma vret_true_no_validate : forall l, vret true l = true -> nvalid l = 0.
Proof.
  induction l as [|e l IH]; intros H; [reflexivity|].
  destruct e; cbn in *; try (apply IH; exact H); discriminate.
Qed.

Lemma nvalid_cons e l : nvalid (e :: l) = (if is_validate e then 1 else 0) + nvalid l.
Proof. unfold nvalid. cbn [filter]. destruct (is_validate e); reflexivity. Qed.

Lemma run_cnt_no_validate : forall l, nvalid l = 0 ->
  forall o n k, fst (run_cnt o n k l) = Returned -> snd (run_cnt o n k l) = k.
Proof.
  induction l as [|e l IH]; intros Hn o n k Hr.
  - cbn in Hr. discriminate.
  - rewrite nvalid_cons in Hn.
    destruct e; cbn [is_validate] in Hn; try discriminate Hn; cbn [run_cnt] in *;
      try (apply IH; [lia | exact Hr]).
    + destruct (o n); [reflexivity | apply IH; [lia | exact Hr]].
    + reflexivity.
Qed.

Theorem vret_sound : forall l, vret false l = true ->
  forall o n k, fst (run_cnt o n k l) = Returned -> snd (run_cnt o n k l) = k + nvalid l.
Proof.
  induction l as [|e l IH]; intros H o n k Hr.
  - cbn in Hr. discriminate.
  - rewrite nvalid_cons.
    destruct e; cbn [vret] in H; cbn [run_cnt is_validate] in *.
    + cbn [negb andb] in H. destruct (o n); [cbn in Hr; discriminate|].
      rewrite (IH H o (S n) (S k) Hr). lia.
    + rewrite (IH H o (S n) k Hr). lia.
    + rewrite (IH H o (S n) k Hr). lia.
    + rewrite (IH H o (S n) k Hr). lia.
    + rewrite (IH H o (S n) k Hr). lia.
    + pose proof (vret_true_no_validate l H) as Hn. rewrite Hn.
      destruct (o n); [cbn; lia|].
      rewrite (run_cnt_no_validate l Hn o (S n) k Hr). lia.
    + pose proof (vret_true_no_validate l H) as Hn. rewrite Hn. cbn. lia.
    + rewrite (IH H o (S n) k Hr). lia.
    + rewrite (IH H o (S n) k Hr). lia.
Qed.

Theorem validations_before_returns_sound (sk : skeleton) :
  validations_before_returns sk = true ->
  forall o, fst (run_cnt o 0 0 (flat_map evs_of sk)) = Returned ->
            snd (run_cnt o 0 0 (flat_map evs_of sk)) = nvalid (flat_map evs_of sk).
Proof. intros H o Hr. apply (vret_sound _ H o 0 0 Hr). Qed.
Print Assumptions validations_before_returns_sound.
