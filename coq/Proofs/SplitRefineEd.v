(* The GENERATED _edit_distance_join_split (Gen/JoinGen.v: edit_distance_join_split_rows) refines
   the hand model Joins.ed_core.
   Rows of the model are (string as a list of character codes, q-gram bag); strL / strR give the
   character codes of the join cells (only their lengths and the similarity function see them),
   tkL / tkR the q-gram bags.  The Levenshtein function is a parameter sim_fn with
       sim_fn lcell rcell = ed_dist (strL lrow) (strR rrow)
   (= PFloat +0.0 for equal strings, PInt (lev ..) otherwise: what ed_core uses).
   The candidates are a Python set (dict with PNone values, insertion order); results are compared
   as a Permutation.  (a) ed_rows_fold, (b) edit_distance_join_split_rows_refines.  Axiom-free. *)
From Coq Require Import ZArith Bool List String Lia Permutation SpecFloat.
From SSJ Require Import F64 PyNum FilterUtilsGen HelperGen TokenOrderingGen ValidationGen IndexGen JoinGen
     TokenOrdering Measures Filters Lev Joins Projection ProjSpec ProjectionFacts OrderingFacts OrderingGenFacts
     ValidationFacts EditArith
     IndexPyFacts IndexBuildFacts IndexProbeFacts IndexRefine IndexInverted IndexPrefix IndexSize IndexGlue
     JoinGenFacts JoinGenLoop JoinRefine SplitRefineBase SplitRefineFilterBase.
Import ListNotations.
Open Scope Z_scope.

(* the value the model reports for a pair of strings *)
Definition ed_dist (s t : list Z) : pyval :=
  if list_eqbZ s t then PFloat (S754_zero false) else PInt (lev s t).

Lemma ed_dist_num s t : num_of (ed_dist s t) <> None /\ is_exc (ed_dist s t) = false.
Proof. unfold ed_dist. destruct (list_eqbZ s t); split; cbn; congruence. Qed.

Section Rows.
  Variables (q tau : Z) (op : string) (lrows : list (list pyval)) (strL : list pyval -> list Z).
  Variable Lo : list (list Z).
  Let p := edp q tau.
  (* what one candidate (left row c) contributes for the right row (string ys, ordered bag y) *)
  Definition ed_emit (ys : list Z) (c : nat) : list pyval :=
    let xs := strL (nth c lrows []) in
    if (len ys - tau <=? len xs) && (len xs <=? len ys + tau) then
      let d := ed_dist xs ys in
      if cmp_op op d (PInt tau) then [d] else []
    else [].
  Definition ed_hits (yr : list Z * list Z) (c : Z) : list (Z * pyval) :=
    map (fun d => (c, d)) (ed_emit (fst yr) (Z.to_nat c)).
  Definition ed_row_pairs (yr : list Z * list Z) : list (Z * pyval) :=
    flat_map (ed_hits yr) (px_keys p false Lo (snd yr)).
  Definition ed_tri (yr : list Z * list Z) (j c : nat) : list triple :=
    if smem (px_set p false Lo (snd yr)) (Z.of_nat c)
    then map (fun d => (c, j, d)) (ed_emit (fst yr) c) else [].
  Definition ed_model_row (j : nat) (yr : list Z * list Z) : list triple :=
    flat_map (ed_tri yr j) (seq 0 (List.length lrows)).
End Rows.

Definition Rlen (acc : list Z) : pyval * pyval := (PNone, pints acc).

Section Loop.
  Variables (q tau : Z) (op : string) (sc : bool).
  Variables (lrows rrows : list (list pyval)).
  Variables (lcolumns rcolumns lkeya rkeya ljoina rjoina louta routa lpre rpre showp : pyval).
  Variables (ki ji kj jj : nat) (li ri : list nat) (has : bool) (hdr : list pyval).
  Variables (tokenize : pyval -> pyval) (sim_fn : pyval -> pyval -> pyval).
  Variables (strL strR tkL tkR : list pyval -> list Z) (cf : pyval -> pyval -> pyval).
  Let p := edp q tau.
  (* the input of the hand model: (string, q-gram bag) per row *)
  Let L := map (fun r => (strL r, tkL r)) lrows.
  Let R := map (fun r => (strR r, tkR r)) rrows.
  Let all := (List.concat (map tkL lrows) ++ List.concat (map tkR rrows))%list.
  Let xof (r : list pyval) := order all (tkL r).
  Let yof (r : list pyval) : list Z * list Z := (strR r, order all (tkR r)).
  Let Lo := map xof lrows.
  Let ordering := PDict (ordering_dict all).

  Hypothesis Htau : 0 <= tau.
  Hypothesis Hq : 1 <= q.
  Hypothesis Hlk : py_index lcolumns lkeya = natpy ki.
  Hypothesis Hlj : py_index lcolumns ljoina = natpy ji.
  Hypothesis Hlo : find_output_attribute_indices lcolumns louta = PList (map natpy li).
  Hypothesis Hrk : py_index rcolumns rkeya = natpy kj.
  Hypothesis Hrj : py_index rcolumns rjoina = natpy jj.
  Hypothesis Hro : find_output_attribute_indices rcolumns routa = PList (map natpy ri).
  Hypothesis Hhas : py_or (py_is_not_none louta) (py_is_not_none routa) = PBool has.
  Hypothesis Hnohas : has = false -> li = [] /\ ri = [].
  Hypothesis Hhdr : get_output_header_from_tables lkeya rkeya louta routa lpre rpre = PList hdr.
  Hypothesis Hlrows : forall r, In r lrows -> cols_ok ki ji li r.
  Hypothesis Hrrows : forall r, In r rrows -> cols_ok kj jj ri r.
  (* the tokenizer returns the q-gram bag as an int list on the join cells *)
  Hypothesis HtokL : forall r, In r lrows -> tokenize (nth ji r PNone) = pints (tkL r).
  Hypothesis HtokR : forall r, In r rrows -> tokenize (nth jj r PNone) = pints (tkR r).
  (* len(string) of the join cells *)
  Hypothesis HlenL : forall r, In r lrows -> py_len (nth ji r PNone) = PInt (len (strL r)).
  Hypothesis HlenR : forall r, In r rrows -> py_len (nth jj r PNone) = PInt (len (strR r)).
  (* the Levenshtein function on the occurring strings *)
  Hypothesis Hsim : forall l r, In l lrows -> In r rrows ->
    sim_fn (nth ji l PNone) (nth jj r PNone) = ed_dist (strL l) (strR r).
  Hypothesis Hop : comp_op_map op = Some cf.

  Let a := pbuild_abs p false Lo.
  Let B := 1 + fold_right Z.max 0 (map (fun r => len (tkL r)) lrows)
             + fold_right Z.max 0 (map (fun r => len (tkR r)) rrows).

  Lemma ed_fold_max (f : list pyval -> Z) (rows : list (list pyval)) :
    0 <= fold_right Z.max 0 (map f rows) /\ forall r, In r rows -> f r <= fold_right Z.max 0 (map f rows).
  Proof.
    induction rows as [|r0 l [IH0 IH]]; cbn [map fold_right]; [split; [lia | intros r []]|].
    split; [lia|]. intros r [->|Hr]; [lia | specialize (IH r Hr); lia].
  Qed.
  Lemma ed_formulas : formulas_ok p B.
  Proof. apply formulas_ok_ed; assumption. Qed.
  Lemma ed_sL : forall r, In r lrows -> len (tkL r) < B.
  Proof.
    intros r Hr. unfold B. destruct (ed_fold_max (fun r => len (tkL r)) lrows) as [_ H].
    destruct (ed_fold_max (fun r => len (tkR r)) rrows) as [H0 _]. specialize (H r Hr). lia.
  Qed.
  Lemma ed_sR : forall r, In r rrows -> len (tkR r) < B.
  Proof.
    intros r Hr. unfold B. destruct (ed_fold_max (fun r => len (tkR r)) rrows) as [_ H].
    destruct (ed_fold_max (fun r => len (tkL r)) lrows) as [H0 _]. specialize (H r Hr). lia.
  Qed.
  Lemma ed_plL : forall x, In x Lo -> exists k, g_pl p (len x) = PInt k.
  Proof. exact (ft_plL p B lrows rrows tkL tkR ed_formulas ed_sL). Qed.
  Lemma ed_lrow_ok : Forall2 (IndexBuildFacts.row_ok (natpy ji) ordering tokenize) (map PList lrows) Lo.
  Proof. exact (ft_lrow_ok lrows rrows ki ji li tokenize tkL tkR Hlrows HtokL). Qed.

  Lemma ed_row (rrow : list pyval) : In rrow rrows ->
    prefix_filter_find_candidates (PStr (fm p)) (ft p) (pints (snd (yof rrow))) (iidx_repr (p_idx a)) (PInt (fq p))
    = srepr (px_set p false Lo (snd (yof rrow))) /\
    NoDup (px_keys p false Lo (snd (yof rrow))) /\
    (forall c, In c (px_keys p false Lo (snd (yof rrow))) -> 0 <= c < Z.of_nat (List.length lrows)) /\
    forall c, (c < List.length Lo)%nat ->
      prefix_cand p (nth c Lo []) (snd (yof rrow)) = Some (smem (px_set p false Lo (snd (yof rrow))) (Z.of_nat c)).
  Proof.
    exact (px_row_gen p false B lrows rrows ki ji li tokenize tkL tkR Hlrows HtokL ed_formulas ed_sL ed_sR rrow).
  Qed.

  Definition Ied_outer (acc : list (list pyval))
    (s : pyval * (pyval * (pyval * (pyval * (pyval * (pyval * (pyval * (pyval * (pyval * pyval))))))))) : Prop :=
    exists t1 t2 t3 t4 t5 t6 t7 t8,
      s = (PNone, (t1, (t2, (t3, (t4, (t5, (t6, (t7, (t8, PList (map PList acc)))))))))).

  Definition ed_rows_of (rrow : list pyval) : list (list pyval) :=
    map (fun cs : Z * pyval => out_row sc ki kj li ri lrows (fst cs) rrow (snd cs))
        (ed_row_pairs q tau op lrows strL Lo (yof rrow)).

  Theorem ed_rows_fold :
    edit_distance_join_split_rows (PList (map PList lrows)) (PList (map PList rrows)) lcolumns rcolumns
      lkeya rkeya ljoina rjoina (PInt tau) (PStr op) louta routa lpre rpre (PBool sc) showp (PInt q)
      tokenize sim_fn
    = PTuple [PList (map PList (List.concat (map ed_rows_of rrows)));
              PList (hdr ++ if sc then [PStr "_sim_score"%string] else [])%list].
  Proof.
    unfold edit_distance_join_split_rows.
    rewrite Hlk, Hlj, Hlo, Hrk, Hrj, Hro. cbv zeta.
    repeat (rewrite bindx_ok by reflexivity).
    pose proof (ordering_eq p lrows rrows ki ji kj jj li ri tokenize tkL tkR Hlrows Hrrows HtokL HtokR) as Eord.
    change (PStr (fm p)) with (PStr "EDIT_DISTANCE"%string) in Eord. rewrite Eord. clear Eord.
    fold all ordering. rewrite (bindx_ok ordering) by reflexivity.
    (* l_join_attr_list = [len(row[l_join_attr_index]) for row in ltable_list] *)
    change (PNone, PList []) with (Rlen []).
    match goal with |- context [py_for (PList (map PList lrows)) ?r ?f ?b (Rlen [])] =>
      rewrite (py_for_eq _ _ _ PList Rlen r f b (fun acc row => (acc ++ [len (strL row)])%list) lrows []) end.
    2:{ reflexivity. }
    2:{ intros acc row Hrow. unfold Rlen. cbv beta iota.
        destruct (join_cell_ok _ _ _ _ (Hlrows row Hrow)) as [Ecell _].
        rewrite (bindx_ok (PList row)) by reflexivity.
        rewrite Ecell, (HlenL row Hrow), py_append_pints. reflexivity. }
    unfold Rlen. cbv beta iota. rewrite (bindx_ok PNone) by reflexivity. rewrite fold_left_snoc_map. cbn [app].
    pose proof (prefix_index_build_eq p (natpy ji) ordering tokenize (map PList lrows) Lo false ed_lrow_ok ed_plL)
      as Ebuild.
    change (PStr (fm p)) with (PStr "EDIT_DISTANCE"%string) in Ebuild.
    change (ft p) with (PInt tau) in Ebuild. change (fq p) with q in Ebuild.
    rewrite Ebuild. clear Ebuild.
    fold a. unfold pbuild_result.
    destruct (getitem_pair (iidx_repr (p_idx a))
                (PDict [PTuple [PStr "empty_records"%string; pints (p_empty a)]])) as (G0 & G1).
    rewrite (bindx_ok (PTuple _)) by reflexivity.
    rewrite G0, G1.
    repeat (rewrite bindx_ok by reflexivity).
    change (py_upper (PStr "EDIT_DISTANCE"%string)) with (PStr "EDIT_DISTANCE"%string).
    rewrite vt_edit_distance.
    replace (tau <? 0) with false by (symmetry; apply Z.ltb_ge; lia).
    unfold ok. cbn [bindx].
    rewrite (comp_op_lookup_str op cf Hop).
    rewrite Hhas. rewrite (bindx_ok (PBool has)) by reflexivity.
    match goal with |- context [py_for (PList (map PList rrows)) ?r ?f ?b ?s0] =>
      pose proof (py_for_inv _ _ _ PList Ied_outer r f b
                    (fun acc rrow => (acc ++ ed_rows_of rrow)%list) rrows s0 []) as HI end.
    lapply HI; [clear HI; intros HI|].
    2:{ unfold Ied_outer. do 8 eexists. reflexivity. }
    lapply HI; [clear HI; intros HI|].
    2:{ intros acc s (t1 & t2 & t3 & t4 & t5 & t6 & t7 & t8 & ->). reflexivity. }
    lapply HI; [clear HI; intros HI|].
    - destruct HI as (t1 & t2 & t3 & t4 & t5 & t6 & t7 & t8 & E). rewrite E. clear E.
      cbv beta iota. cbn [bindx]. rewrite Hhdr. rewrite (bindx_ok (PList hdr)) by reflexivity.
      cbn [bindx]. rewrite fold_left_app_map. cbn [app].
      destruct sc; cbn [py_truth py_append strict2 bindx]; rewrite ?app_nil_r; reflexivity.
    - clear HI. intros acc s rrow Hin (t1 & t2 & t3 & t4 & t5 & t6 & t7 & t8 & ->).
      cbv beta iota.
      destruct (join_cell_ok _ _ _ _ (Hrrows rrow Hin)) as [Ecell Hcell].
      rewrite (bindx_ok (PList rrow)) by reflexivity.
      rewrite Ecell. rewrite (bindx_ok (nth jj rrow PNone)) by exact Hcell.
      rewrite (HlenR rrow Hin). rewrite (bindx_ok (PInt _)) by reflexivity.
      unfold ordering, all.
      rewrite (ordered_R lrows rrows jj tokenize tkL tkR HtokR rrow Hin).
      fold all ordering. change (order all (tkR rrow)) with (snd (yof rrow)).
      rewrite (bindx_ok (pints _)) by reflexivity.
      destruct (ed_row rrow Hin) as (Efc & _ & Hkeys & _).
      change (PStr (fm p)) with (PStr "EDIT_DISTANCE"%string) in Efc.
      change (ft p) with (PInt tau) in Efc. change (fq p) with q in Efc.
      rewrite Efc. rewrite (bindx_ok (srepr _)) by reflexivity.
      rewrite py_for_srepr. fold (px_keys p false Lo (snd (yof rrow))).
      unfold ed_rows_of, ed_row_pairs. fold p.
      set (h := fun cs : Z * pyval => out_row sc ki kj li ri lrows (fst cs) rrow (snd cs)).
      match goal with |- context [py_for (PList (map PInt ?l)) ?r ?fl ?b ?s0] =>
        pose proof (py_for_inv _ _ _ PInt Icand r fl b
                      (fun acc' c => (acc' ++ map h (ed_hits tau op lrows strL (yof rrow) c))%list) l s0 acc) as HI end.
      lapply HI; [clear HI; intros HI|].
      2:{ unfold Icand. do 3 eexists. reflexivity. }
      lapply HI; [clear HI; intros HI|].
      2:{ intros acc' s (u1 & u2 & u3 & ->). reflexivity. }
      lapply HI; [clear HI; intros HI|].
      + destruct HI as (u1 & u2 & u3 & E). rewrite E. clear E. cbv beta iota. cbn [bindx].
        rewrite (fold_left_app_map (fun c => map h (ed_hits tau op lrows strL (yof rrow) c))).
        rewrite <- map_flat_map.
        unfold Ied_outer. do 8 eexists. reflexivity.
      + clear HI. intros acc' s c Hc (u1 & u2 & u3 & ->). cbv beta iota. cbn [bindx].
        specialize (Hkeys c Hc).
        assert (Hcn : (Z.to_nat c < List.length lrows)%nat) by lia.
        rewrite getitem_pintsZ by (unfold len; rewrite map_length; lia).
        rewrite (nth_map_lt (fun r => len (strL r)) lrows (Z.to_nat c) [] 0 Hcn).
        rewrite py_sub_int, py_add_int, !py_le_int_val', py_and_bools. cbn [bindx py_truth].
        unfold ed_hits, ed_emit. cbn [fst snd yof].
        set (xrow := nth (Z.to_nat c) lrows []).
        assert (Hxr : In xrow lrows) by (apply nth_In; exact Hcn).
        destruct ((len (strR rrow) - tau <=? len (strL xrow)) && (len (strL xrow) <=? len (strR rrow) + tau)).
        2:{ cbn [map]. rewrite app_nil_r. cbn [bindx]. do 3 eexists. reflexivity. }
        rewrite (getitem_rows lrows c) by lia. fold xrow.
        rewrite (bindx_ok (PList xrow)) by reflexivity.
        destruct (join_cell_ok _ _ _ _ (Hlrows xrow Hxr)) as [Excell _].
        rewrite Excell, (Hsim xrow rrow Hxr Hin).
        destruct (ed_dist_num (strL xrow) (strR rrow)) as [Hdn Hde].
        set (d := ed_dist (strL xrow) (strR rrow)) in *.
        rewrite (bindx_ok d) by exact Hde.
        destruct (comp_fn_bool_num op cf d (PInt tau) Hop Hdn) as [b Eb]; [discriminate|].
        rewrite (cmp_op_cf op cf d (PInt tau) Hop), Eb. cbn [bindx py_truth].
        destruct b.
        2:{ cbn [map]. rewrite app_nil_r. cbn [bindx]. do 3 eexists. reflexivity. }
        cbn [map]. unfold h at 1. cbn [fst snd]. fold xrow.
        assert (Hlc : cols_ok ki ji li xrow) by (apply Hlrows; exact Hxr).
        pose proof (Hrrows rrow Hin) as Hrc.
        emit_row_score Hlc Hrc Hnohas has sc ki kj li ri ji jj ltac:(exact Hde) ltac:(do 3 eexists; reflexivity).
  Qed.

  (* ---------------------------------------------------------------- refinement *)
  Lemma ed_row_perm (j : nat) (rrow : list pyval) : In rrow rrows ->
    Permutation (map (fun cs : Z * pyval => (Z.to_nat (fst cs), j, snd cs))
                     (ed_row_pairs q tau op lrows strL Lo (yof rrow)))
                (ed_model_row q tau op lrows strL Lo j (yof rrow)).
  Proof.
    intros Hin. destruct (ed_row rrow Hin) as (_ & Hnd & Hkeys & _).
    unfold ed_row_pairs, ed_model_row. fold p.
    rewrite (gen_row_eq (fun c : Z => c) (ed_hits tau op lrows strL (yof rrow))
               (ed_tri q tau op lrows strL Lo (yof rrow) j) j).
    - rewrite map_id. apply keys_row_perm; [exact Hnd | exact Hkeys |].
      intros c Hc Hnot. unfold ed_tri. fold p.
      destruct (smem _ (Z.of_nat c)) eqn:E; [|reflexivity].
      exfalso. apply Hnot. apply smem_keys. exact E.
    - intros c Hc. unfold ed_hits, ed_tri. fold p.
      pose proof (Hkeys c Hc) as Hr. rewrite Z2Nat.id by lia.
      assert (E : smem (px_set p false Lo (snd (yof rrow))) c = true) by (apply smem_keys; exact Hc).
      rewrite E, map_map. reflexivity.
  Qed.

  Lemma ed_model_eq :
    ed_core q tau op L R
    = Some (flat_map (fun jr : nat * list pyval => ed_model_row q tau op lrows strL Lo (fst jr) (yof (snd jr)))
                     (enumerate rrows)).
  Proof.
    unfold ed_core. change {| fm := "EDIT_DISTANCE"; ft := PInt tau; fq := q |} with p.
    assert (Eall : (List.concat (map snd L) ++ List.concat (map snd R))%list = all).
    { unfold L, R, all. rewrite !map_map. reflexivity. }
    rewrite Eall. cbv zeta.
    assert (ELo : map (fun r : list Z * list Z => (fst r, order all (snd r))) L
                  = map (fun r => (strL r, xof r)) lrows).
    { unfold L. rewrite map_map. reflexivity. }
    rewrite ELo. unfold R. rewrite !enumerate_map, map_map.
    apply opt_concat_all_some. intros [j rrow] Hjr. cbn [fst snd].
    assert (Hin : In rrow rrows) by (apply in_combine_r in Hjr; exact Hjr).
    destruct (ed_row rrow Hin) as (_ & _ & _ & Hpc).
    unfold ed_model_row.
    rewrite map_map. unfold enumerate at 1. rewrite (enumerate_as_map [] lrows), map_map. cbn [fst snd].
    apply opt_concat_all_some. intros c Hc. apply in_seq in Hc.
    assert (Hcn : (c < List.length lrows)%nat) by lia.
    assert (Hcl : (c < List.length Lo)%nat) by (unfold Lo; rewrite map_length; exact Hcn).
    specialize (Hpc c Hcl). unfold Lo in Hpc at 1. rewrite (nth_map_lt xof lrows c [] [] Hcn) in Hpc.
    cbn [yof snd] in Hpc. rewrite Hpc.
    unfold ed_tri, ed_emit. fold p. cbn [yof fst snd].
    destruct (smem _ (Z.of_nat c)); [|reflexivity].
    destruct ((len (strR rrow) - tau <=? len (strL (nth c lrows []))) &&
              (len (strL (nth c lrows [])) <=? len (strR rrow) + tau)); [|reflexivity].
    unfold ed_dist. destruct (cmp_op op _ (PInt tau)); reflexivity.
  Qed.

  Theorem edit_distance_join_split_rows_refines :
    exists (T : list triple) (rows : list (list pyval)),
      ed_core q tau op L R = Some T /\
      edit_distance_join_split_rows (PList (map PList lrows)) (PList (map PList rrows)) lcolumns rcolumns
        lkeya rkeya ljoina rjoina (PInt tau) (PStr op) louta routa lpre rpre (PBool sc) showp (PInt q)
        tokenize sim_fn
      = PTuple [PList (map PList rows); PList (hdr ++ if sc then [PStr "_sim_score"%string] else [])%list] /\
      Permutation rows (map (triple_row sc lrows rrows ki kj li ri) T) /\
      forall tr, In tr T -> (fst (fst tr) < List.length lrows)%nat /\ (snd (fst tr) < List.length rrows)%nat.
  Proof.
    eexists. eexists. split; [exact ed_model_eq|]. split; [exact ed_rows_fold|]. split.
    - unfold ed_rows_of.
      apply (chunk_perm sc ki kj li ri lrows rrows yof (ed_row_pairs q tau op lrows strL Lo)
               (ed_model_row q tau op lrows strL Lo)).
      intros j rrow Hin. apply ed_row_perm. exact Hin.
    - apply (chunk_bounds lrows rrows yof (ed_model_row q tau op lrows strL Lo)).
      intros j y tr Htr. unfold ed_model_row in Htr. apply in_flat_map in Htr.
      destruct Htr as (c & Hc & Htr). apply in_seq in Hc. unfold ed_tri in Htr.
      destruct (smem _ _) in Htr; [|destruct Htr]. apply in_map_iff in Htr. destruct Htr as (d & <- & _).
      cbn [fst snd]. split; [lia | reflexivity].
  Qed.
End Loop.

(* ---------------------------------------------------------------- a concrete instance *)
(* q = 2, tau = 1, "<=": strings as character codes, 2-gram bags as ints (ab=1 bc=2 bd=3 xy=4 yz=5) *)
Definition edx_str (v : pyval) : list Z :=
  match v with PStr s => map (fun c => Z.of_nat (Ascii.nat_of_ascii c)) (list_ascii_of_string s) | _ => [] end.
Definition edx_toks (v : pyval) : list Z :=
  match v with
  | PStr s => if String.eqb s "abc" then [1; 2] else if String.eqb s "abd" then [1; 3]
              else if String.eqb s "ab" then [1] else if String.eqb s "xyz" then [4; 5]
              else if String.eqb s "xy" then [4] else []
  | _ => []
  end.
Definition edx_tokenize (v : pyval) : pyval := pints (edx_toks v).
Definition edx_sim (x y : pyval) : pyval := ed_dist (edx_str x) (edx_str y).
Definition edx_lrows : list (list pyval) :=
  [[PInt 1; PStr "abc"]; [PInt 2; PStr "xyz"]; [PInt 3; PStr "abd"]; [PInt 4; PStr "ab"]].
Definition edx_rrows : list (list pyval) := [[PInt 5; PStr "abc"]; [PInt 6; PStr "ab"]; [PInt 7; PStr "xy"]].
Definition edx_lcols : pyval := PList [PStr "id"; PStr "s"].
Definition edx_rcols : pyval := PList [PStr "rid"; PStr "t"].
Definition edx_row (r : list pyval) : list Z * list Z := (edx_str (nth 1 r PNone), edx_toks (nth 1 r PNone)).

Example edx_refines :
  exists T rows,
    ed_core 2 1 "<=" (map edx_row edx_lrows) (map edx_row edx_rrows) = Some T /\
    edit_distance_join_split_rows (PList (map PList edx_lrows)) (PList (map PList edx_rrows))
      edx_lcols edx_rcols (PStr "id") (PStr "rid") (PStr "s") (PStr "t") (PInt 1) (PStr "<=")
      PNone PNone (PStr "l_") (PStr "r_") (PBool true) (PBool false) (PInt 2) edx_tokenize edx_sim
    = PTuple [PList (map PList rows); PList [PStr "l_id"; PStr "r_rid"; PStr "_sim_score"]] /\
    Permutation rows (map (triple_row true edx_lrows edx_rrows 0 0 [] []) T).
Proof.
  destruct (edit_distance_join_split_rows_refines 2 1 "<=" true edx_lrows edx_rrows edx_lcols edx_rcols
              (PStr "id") (PStr "rid") (PStr "s") (PStr "t") PNone PNone (PStr "l_") (PStr "r_") (PBool false)
              0 1 0 1 [] [] false [PStr "l_id"; PStr "r_rid"] edx_tokenize edx_sim
              (fun r => edx_str (nth 1 r PNone)) (fun r => edx_str (nth 1 r PNone))
              (fun r => edx_toks (nth 1 r PNone)) (fun r => edx_toks (nth 1 r PNone)) py_le)
    as (T & rows & H1 & H2 & H3 & _); try reflexivity; try lia.
  - intros _. split; reflexivity.
  - intros r Hr. repeat (destruct Hr as [<-|Hr]; [repeat split; try (apply row_okb_sound; reflexivity); cbn; try lia;
                                                     intros n []|]). destruct Hr.
  - intros r Hr. repeat (destruct Hr as [<-|Hr]; [repeat split; try (apply row_okb_sound; reflexivity); cbn; try lia;
                                                     intros n []|]). destruct Hr.
  - intros r Hr. repeat (destruct Hr as [<-|Hr]; [reflexivity|]). destruct Hr.
  - intros r Hr. repeat (destruct Hr as [<-|Hr]; [reflexivity|]). destruct Hr.
  - exists T, rows. repeat split; assumption.
Qed.

Eval vm_compute in
  edit_distance_join_split_rows (PList (map PList edx_lrows)) (PList (map PList edx_rrows))
    edx_lcols edx_rcols (PStr "id") (PStr "rid") (PStr "s") (PStr "t") (PInt 1) (PStr "<=")
    PNone PNone (PStr "l_") (PStr "r_") (PBool true) (PBool false) (PInt 2) edx_tokenize edx_sim.
Eval vm_compute in
  option_map (map (triple_row true edx_lrows edx_rrows 0 0 [] []))
    (ed_core 2 1 "<=" (map edx_row edx_lrows) (map edx_row edx_rrows)).

Print Assumptions ed_rows_fold.
Print Assumptions edit_distance_join_split_rows_refines.
Print Assumptions edx_refines.
