(* C01 / C02 / C08 / C09 on the API-level model: for every valid case of the five set-similarity
   joins (JACCARD, COSINE, DICE, OVERLAP_COEFFICIENT, OVERLAP), whatever the rows with missing
   values, the chunking (n_jobs), allow_missing, allow_empty (J/C/D/OC) and with_score,
   `api_join` is defined and its result satisfies complete_spec, sound_spec, missing_spec and
   empty_spec.  The chunk partition fact about the generated split_table is a Section
   hypothesis (Hpart).  J/C/D inherit the Reals/Flocq axioms of the arithmetic files; the
   OVERLAP / OVERLAP_COEFFICIENT theorems and the missing-pairs theorem are closed.        *)
From Coq Require Import ZArith Bool List String Lia SpecFloat.
From SSJ Require Import F64 PyNum HelperGen TokenOrdering Measures Filters Joins Api JoinSpec MetaSpec
     OrderingFacts CoreLiftBase CoreLift ApiLift SetBridge SetPair OverlapFacts OverlapMeasure
     ApiJoinBase ApiJoinPairs.
Import ListNotations.
Open Scope string_scope.
Open Scope list_scope.
Open Scope Z_scope.

(* ------------------------------------------------------------------ validity of a case *)
Definition row_ok (r : row) : Prop := NoDup (toks_of r) /\ len (toks_of r) < size_bound.

Definition tables_ok (c : jcase) : Prop :=
  NoDup (map fst (j_L c)) /\ NoDup (map fst (j_R c)) /\
  (forall r, In r (j_L c) -> present r = true -> row_ok r) /\
  (forall r, In r (j_R c) -> present r = true -> row_ok r) /\
  1 <= j_cpus c /\
  Z.of_nat (List.length (j_L c)) < 2 ^ 31 /\ Z.of_nat (List.length (j_R c)) < 2 ^ 31.

Definition jcd_params_ok (c : jcase) (m : string) : Prop :=
  is_jcd m = true /\ exists t, j_t c = PFloat t /\ env_t t = true.
Definition overlap_params_ok (c : jcase) : Prop :=
  j_allow_empty c = false /\ exists T, j_t c = PInt T /\ 1 <= T.
Definition ovc_params_ok (c : jcase) : Prop := pos_threshold (j_t c).

Definition join_params_ok (c : jcase) (m : string) : Prop :=
  jcd_params_ok c m \/
  (m = "OVERLAP" /\ overlap_params_ok c) \/
  (m = "OVERLAP_COEFFICIENT" /\ ovc_params_ok c).

Definition valid_join_case (c : jcase) : Prop :=
  tables_ok c /\ lower_op (j_op c) /\ exists m, j_entry c = EJoin m /\ join_params_ok c m.

(* ------------------------------------------------------------------ the verdicts on the rows *)
Definition pf_verdicts (c : jcase) (m : string) : Prop :=
  forall Rc l r, incl Rc (filter present (j_R c)) -> In l (filter present (j_L c)) -> In r Rc ->
    exists lst, core_pf c (all_of (filter present (j_L c)) Rc) (rowval l) (rowval r) = Some lst /\
                verdict_ok c m (toks_of l) (toks_of r) lst.

Lemma tables_rows_ok c Rc l r : tables_ok c ->
  incl Rc (filter present (j_R c)) -> In l (filter present (j_L c)) -> In r Rc ->
  row_ok l /\ row_ok r.
Proof.
  intros [_ [_ [HL [HR _]]]] Hinc Hl Hr. apply Hinc in Hr.
  apply filter_In in Hl. apply filter_In in Hr. split; [apply HL|apply HR]; tauto.
Qed.

Lemma pf_verdicts_jcd c m : tables_ok c -> lower_op (j_op c) -> j_entry c = EJoin m ->
  jcd_params_ok c m -> pf_verdicts c m.
Proof.
  intros Htab Hop He [Hm [t [Ht Henv]]] Rc l r Hinc Hl Hr.
  destruct (tables_rows_ok c Rc l r Htab Hinc Hl Hr) as [[Hndl Hll] [Hndr Hlr]].
  rewrite (core_pf_jcd c m _ _ _ He Hm). cbn [rowval snd].
  apply (verdict_jcd c m t); try assumption.
  - apply toks_incl_all_l. exact Hl.
  - apply toks_incl_all_r. exact Hr.
Qed.

Lemma pf_verdicts_overlap c : tables_ok c -> lower_op (j_op c) -> j_entry c = EJoin "OVERLAP" ->
  overlap_params_ok c -> pf_verdicts c "OVERLAP".
Proof.
  intros Htab Hop He [_ [T [Ht HT]]] Rc l r Hinc Hl Hr.
  destruct (tables_rows_ok c Rc l r Htab Hinc Hl Hr) as [[Hndl _] [Hndr _]].
  rewrite (core_pf_overlap c _ _ _ He). cbn [rowval snd]. eexists. split; [reflexivity|].
  apply (verdict_overlap c T); assumption.
Qed.

Lemma pf_verdicts_ovc c : tables_ok c -> lower_op (j_op c) ->
  j_entry c = EJoin "OVERLAP_COEFFICIENT" -> ovc_params_ok c ->
  pf_verdicts c "OVERLAP_COEFFICIENT".
Proof.
  intros Htab Hop He Hpos Rc l r Hinc Hl Hr.
  destruct (tables_rows_ok c Rc l r Htab Hinc Hl Hr) as [[Hndl _] [Hndr _]].
  rewrite (core_pf_ovc c _ _ _ He). cbn [rowval snd]. eexists. split; [reflexivity|].
  apply verdict_ovc; assumption.
Qed.

Lemma jcd_not_ed m : is_jcd m = true -> String.eqb m "EDIT_DISTANCE" = false.
Proof. intros H. destruct (jcd_cases m H) as [-> | [-> | ->]]; reflexivity. Qed.

Definition api_join_conclusion (c : jcase) : Prop :=
  (exists out, api_join c = Some out) /\
  forall out, api_join c = Some out ->
    complete_spec c out = true /\ sound_spec c out = true /\
    missing_spec c out = true /\ empty_spec c out = true.

Section ApiJoin.
  (* the partition fact of the generated split_table (proved elsewhere, instantiated later) *)
  Hypothesis Hpart : forall (A : Type) (njobs cpus : Z) (Rp : list A),
    1 <= cpus -> Z.of_nat (List.length Rp) < 2 ^ 31 ->
    exists chs, chunks_of njobs cpus Rp = Some chs /\ List.concat (map snd chs) = Rp.

  Lemma tables_chunks c : tables_ok c ->
    exists chs, chunks_of (j_njobs c) (j_cpus c) (filter present (j_R c)) = Some chs /\
                List.concat (map snd chs) = filter present (j_R c).
  Proof.
    intros [_ [_ [_ [_ [Hcpu [_ HlenR]]]]]]. apply Hpart; [exact Hcpu|].
    pose proof (filter_length_le_nat present (j_R c)). lia.
  Qed.

  Lemma api_join_family c m : tables_ok c -> j_entry c = EJoin m ->
    String.eqb m "EDIT_DISTANCE" = false -> pf_verdicts c m -> api_join_conclusion c.
  Proof.
    intros Htab He Hned Hpf. destruct (tables_chunks c Htab) as [chs [Hchs Hcat]].
    destruct Htab as [HkL [HkR _]].
    exact (api_join_generic c m He Hned HkL HkR Hpf chs Hchs Hcat).
  Qed.

  (* ---- JACCARD / COSINE / DICE: (1) totality, (2) C01, (4) C02, (6) C08, (7) C09 *)
  Theorem api_join_jcd : forall c m, tables_ok c -> lower_op (j_op c) ->
    j_entry c = EJoin m -> jcd_params_ok c m -> api_join_conclusion c.
  Proof.
    intros c m Htab Hop He Hp. apply (api_join_family c m Htab He (jcd_not_ed m (proj1 Hp))).
    apply pf_verdicts_jcd; assumption.
  Qed.

  (* ---- OVERLAP: (1), (3), (5), (6), (7) -- closed *)
  Theorem api_join_overlap : forall c, tables_ok c -> lower_op (j_op c) ->
    j_entry c = EJoin "OVERLAP" -> overlap_params_ok c -> api_join_conclusion c.
  Proof.
    intros c Htab Hop He Hp. apply (api_join_family c "OVERLAP" Htab He eq_refl).
    apply pf_verdicts_overlap; assumption.
  Qed.

  (* ---- OVERLAP_COEFFICIENT: (1), (3), (5), (6), (7) -- closed *)
  Theorem api_join_ovc : forall c, tables_ok c -> lower_op (j_op c) ->
    j_entry c = EJoin "OVERLAP_COEFFICIENT" -> ovc_params_ok c -> api_join_conclusion c.
  Proof.
    intros c Htab Hop He Hp. apply (api_join_family c "OVERLAP_COEFFICIENT" Htab He eq_refl).
    apply pf_verdicts_ovc; assumption.
  Qed.

  (* ---- C08 alone, for EVERY entry of the API model (joins and filter_tables): closed *)
  Theorem api_join_missing_spec : forall c out, tables_ok c ->
    api_join c = Some out -> missing_spec c out = true.
  Proof.
    intros c out Htab Hout. destruct (tables_chunks c Htab) as [chs [Hchs Hcat]].
    destruct Htab as [HkL [HkR _]].
    exact (api_join_missing_generic c HkL HkR chs Hchs Hcat out Hout).
  Qed.

  (* ---- the five set-similarity joins together *)
  Theorem api_join_set_joins : forall c, valid_join_case c -> api_join_conclusion c.
  Proof.
    intros c [Htab [Hop [m [He [Hp|[[-> Hp]|[-> Hp]]]]]]].
    - exact (api_join_jcd c m Htab Hop He Hp).
    - exact (api_join_overlap c Htab Hop He Hp).
    - exact (api_join_ovc c Htab Hop He Hp).
  Qed.

  Corollary api_join_total : forall c, valid_join_case c -> exists out, api_join c = Some out.
  Proof. intros c Hv. exact (proj1 (api_join_set_joins c Hv)). Qed.

  Corollary api_join_spec : forall c out, valid_join_case c -> api_join c = Some out ->
    complete_spec c out = true /\ sound_spec c out = true /\
    missing_spec c out = true /\ empty_spec c out = true.
  Proof. intros c out Hv. exact (proj2 (api_join_set_joins c Hv) out). Qed.
End ApiJoin.

(* ------------------------------------------------------------------ a concrete 3 x 3 case *)
Definition ex3 (m : string) (t : pyval) (ae : bool) (nj : Z) : jcase :=
  {| j_entry := EJoin m; j_t := t; j_q := 0; j_op := ">="; j_allow_empty := ae;
     j_allow_missing := true; j_with_score := true; j_njobs := nj; j_cpus := 4;
     j_L := [(1, Some ([], [1; 2; 3])); (2, Some ([], [])); (3, None)];
     j_R := [(7, Some ([], [2; 3; 5])); (8, Some ([], [])); (9, Some ([], [3; 1; 2]))] |}.

Ltac nodup_small := repeat (constructor; [simpl; intuition lia|]); constructor.

Lemma ex3_tables m t ae nj : tables_ok (ex3 m t ae nj).
Proof.
  unfold tables_ok, ex3. cbn [j_L j_R j_cpus].
  split; [nodup_small|]. split; [nodup_small|].
  split.
  { intros r [<-|[<-|[<-|[]]]] Hp; try discriminate Hp; (split; [cbn [toks_of snd]; nodup_small|]);
      vm_compute; reflexivity. }
  split.
  { intros r [<-|[<-|[<-|[]]]] Hp; try discriminate Hp; (split; [cbn [toks_of snd]; nodup_small|]);
      vm_compute; reflexivity. }
  split; [lia|]. split; vm_compute; reflexivity.
Qed.

Example ex3_valid_jaccard : valid_join_case (ex3 "JACCARD" (PFloat (mkF 1 (-1))) true 2).
Proof.
  split; [apply ex3_tables|]. split; [left; reflexivity|].
  exists "JACCARD". split; [reflexivity|]. left. split; [reflexivity|].
  exists (mkF 1 (-1)). split; [reflexivity|vm_compute; reflexivity].
Qed.

Example ex3_valid_overlap : valid_join_case (ex3 "OVERLAP" (PInt 2) false 3).
Proof.
  split; [apply ex3_tables|]. split; [left; reflexivity|].
  exists "OVERLAP". split; [reflexivity|]. right. left. split; [reflexivity|].
  split; [reflexivity|]. exists 2. split; [reflexivity|lia].
Qed.

Example ex3_valid_ovc : valid_join_case (ex3 "OVERLAP_COEFFICIENT" (PFloat (mkF 1 (-1))) true 2).
Proof.
  split; [apply ex3_tables|]. split; [left; reflexivity|].
  exists "OVERLAP_COEFFICIENT". split; [reflexivity|]. right. right. split; [reflexivity|].
  vm_compute. reflexivity.
Qed.

(* the conclusion, by computation, on the three cases *)
Definition spec_check (c : jcase) : bool :=
  match api_join c with
  | Some out => complete_spec c out && sound_spec c out && missing_spec c out && empty_spec c out
                && negb (Nat.eqb (List.length out) 0)
  | None => false
  end.

Example ex3_conclusion :
  spec_check (ex3 "JACCARD" (PFloat (mkF 1 (-1))) true 2) = true /\
  spec_check (ex3 "OVERLAP" (PInt 2) false 3) = true /\
  spec_check (ex3 "OVERLAP_COEFFICIENT" (PFloat (mkF 1 (-1))) true 2) = true /\
  option_map (map fst) (api_join (ex3 "JACCARD" (PFloat (mkF 1 (-1))) true 2)) =
  Some [(1, 7); (2, 8); (1, 9); (3, 7); (3, 8); (3, 9)].
Proof. vm_compute. repeat split; reflexivity. Qed.

(* COSINE with exactly one empty side: the raw score is NaN, the pair neither qualifies nor is
   reported -- the specifications hold there *)
Example cosine_one_empty_ex :
  raw_score "COSINE" [] [1; 2] = PFloat S754_nan /\
  qualifies "COSINE" ">=" (PFloat (mkF 1 (-1))) [] [1; 2] = false /\
  spec_check (ex3 "COSINE" (PFloat (mkF 1 (-1))) true 2) = true /\
  spec_check (ex3 "COSINE" (PFloat (mkF 1 (-1))) false 1) = true.
Proof. vm_compute. repeat split; reflexivity. Qed.

(* the theorem applied to the concrete case (given the partition fact) *)
Example ex3_theorem :
  (forall (A : Type) (njobs cpus : Z) (Rp : list A),
     1 <= cpus -> Z.of_nat (List.length Rp) < 2 ^ 31 ->
     exists chs, chunks_of njobs cpus Rp = Some chs /\ List.concat (map snd chs) = Rp) ->
  api_join_conclusion (ex3 "JACCARD" (PFloat (mkF 1 (-1))) true 2).
Proof. intros Hpart. apply (api_join_set_joins Hpart). apply ex3_valid_jaccard. Qed.

Print Assumptions api_join_jcd.
Print Assumptions api_join_overlap.
Print Assumptions api_join_ovc.
Print Assumptions api_join_missing_spec.
Print Assumptions api_join_set_joins.
Print Assumptions api_join_total.
Print Assumptions api_join_spec.
