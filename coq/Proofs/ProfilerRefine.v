(* The GENERATED profile_table_for_join_rows (Gen/ProfilerGen.v, translated from
   profiler/profiler.py) computes exactly the result of the hand-written model Model/Profiler.v.

   Table:  sframe cols rows  (Proofs/WrapperRefineFrame.v) -- a frame of Model/Frame.v with string
   labels.  Well-formedness (wf_table): labels distinct, every row has one cell per column, and for every
   column a list of value ids (Model/Profiler.v: column = list (option Z)) that ABSTRACTS its cells
   (ProfilerRefineUniq.abstracts: id None exactly where pd.isnull holds, and on the present cells ids
   equal exactly where the cells are equal under pandas' hashtable equality; a column may hold None AND
   NaN, the source counts the missing value once: len(S.dropna().unique()), + 1 if a cell is missing).
   Attribute list: None or a list of strings (py_opt_strs).  Row count < 2^53 (float(n) <> 0.0).

     profile_table_for_join_rows_explicit        the result, spelled out
     profile_table_for_join_rows_refines_model   = render (profile_table ..) for every injective naming
                                                   of the attributes by integers
   str(float) is the parameter sf; everything holds for every sf.  Axiom-free.                    *)
From Coq Require Import ZArith Bool List String SpecFloat Lia.
From SSJ Require Import F64 PyNum Frame ProfFrame Profiler ValidationGen ProfilerGen
     Projection ProjectionFacts WrapperRefineFrame IndexPyFacts ProfilerRefineUniq ProfilerRefineBase.
Import ListNotations.
Open Scope string_scope.
Open Scope Z_scope.

(* ------------------------------------------------------------------ statement vocabulary *)
Definition col_cells (cols : list string) (rows : list (list pyval)) (a : string) : list pyval :=
  map (fun row => cellv cols row a) rows.

Definition wf_table (cols : list string) (rows : list (list pyval)) (ids : string -> column) : Prop :=
  NoDup cols /\ shaped (List.length cols) rows /\
  forall a, In a cols -> abstracts (col_cells cols rows a) (ids a).

(* every requested attribute is a column *)
Definition known (cols : list string) (l : list string) : bool :=
  forallb (fun a => existsb (String.eqb a) cols) l.

(* one model row per attribute *)
Definition model_rows (n : Z) (ids : string -> column) (l : list string) : list (string * prow) :=
  map (fun a => (a, profile_column n (ids a))) l.

(* the result for the attribute list l (after validation) on a table with n rows *)
Definition explicit_rows (sf : f64 -> string) (n : Z) (ids : string -> column) (l : list string) : pyval :=
  match l with
  | [] => render_rows sf []
  | _ :: _ => if n =? 0 then ZeroDivisionError else render_rows sf (model_rows n ids l)
  end.

Definition explicit_result (sf : f64 -> string) (cols : list string) (n : Z) (ids : string -> column)
           (attrs : option (list string)) : pyval :=
  match attrs with
  | None => explicit_rows sf n ids cols
  | Some l => if known cols l then explicit_rows sf n ids l else AssertionError
  end.

(* ------------------------------------------------------------------ the validation loop *)
Lemma validate_loop cols l T :
  frame_columns T = py_strs cols ->
  py_for (py_strs l) (fun s_ : pyval * unit => is_exc (fst s_)) (fun x_ => (x_, tt))
    (fun s_ x_it => let '(_, _) := s_ in
       bindx x_it (fun x_ => (x_, tt)) (fun v_attr =>
       bindx (validate_attr v_attr (frame_columns T) (PStr "profile attribute") (PStr "input table"))
             (fun x_ => (x_, tt)) (fun _ => (PNone, tt)))) (PNone, tt)
  = (if known cols l then PNone else AssertionError, tt).
Proof.
  intros HT. rewrite HT. unfold py_strs at 1. rewrite py_for_PList'.
  induction l as [|a l IH]; cbn [map fold_left known forallb]; [reflexivity|].
  cbn [is_exc fst bindx]. rewrite validate_attr_eval.
  destruct (existsb (String.eqb a) cols); cbn [bindx andb].
  - exact IH.
  - clear IH. induction l as [|b l IH]; cbn [map fold_left]; [reflexivity | exact IH].
Qed.

Lemma known_In cols l : known cols l = true <-> (forall a, In a l -> In a cols).
Proof.
  unfold known. rewrite forallb_forall. split; intros H a Ha; apply existsb_eqb_In; apply H; exact Ha.
Qed.

(* ------------------------------------------------------------------ the main loop *)
Lemma py_and_bools x y : py_and (PBool x) (PBool y) = PBool (x && y).
Proof. destruct x; reflexivity. Qed.

Lemma join3_eval a b c : py_str_join (PStr "") (PList [PStr a; PStr b; PStr c]) = PStr (a ++ b ++ c).
Proof. reflexivity. Qed.

Lemma fold_snoc_map {A B} (f : A -> B) l acc :
  fold_left (fun acc a => (acc ++ [f a])%list) l acc = (acc ++ map f l)%list.
Proof.
  revert acc. induction l as [|a l IH]; intros acc; cbn [fold_left map]; [now rewrite app_nil_r|].
  rewrite IH, <- app_assoc. reflexivity.
Qed.

Lemma bindx_exc {A} e (fl k : pyval -> A) : bindx (PExc e) fl k = fl (PExc e).
Proof. reflexivity. Qed.

Lemma fold_raised {S X} (raised : S -> bool) (body : S -> X -> S) l s :
  raised s = true -> fold_left (fun s x => if raised s then s else body s x) l s = s.
Proof. intros H. induction l as [|x l IH]; cbn [fold_left]; [reflexivity | now rewrite H]. Qed.

(* the loop state: exception flag, 7 temporaries, profile_output *)
Definition pstate : Type :=
  (pyval * (pyval * (pyval * (pyval * (pyval * (pyval * (pyval * (pyval * pyval))))))))%type.
Definition st_out (s : pstate) : pyval := snd (snd (snd (snd (snd (snd (snd (snd s))))))).

Definition loop_inv (sf : f64 -> string) (acc : list (string * prow)) (s : pstate) : Prop :=
  is_exc (fst s) = false /\ st_out s = PList (map (out_record sf) acc).

(* everything after the validation, for the attribute list L (all of them columns) *)
Ltac loop_tail sf cols rows ids n L Hsh Habs HinL HzL :=
  let Hloop := fresh "Hloop" in
  let e0 := fresh "e0" in let t1 := fresh "t1" in let t2 := fresh "t2" in let t3 := fresh "t3" in
  let t4 := fresh "t4" in let t5 := fresh "t5" in let t6 := fresh "t6" in let t7 := fresh "t7" in
  let out := fresh "out" in
  match goal with |- context [py_for (py_strs L) ?r ?f ?b ?s0] =>
    assert (Hloop : loop_inv sf (fold_left (fun acc a => (acc ++ [(a, profile_column n (ids a))])%list) L [])
                      (py_for (PList (map PStr L)) r f b s0))
  end;
  [ apply (py_for_inv pstate (list (string * prow)) string PStr (loop_inv sf));
    [ split; reflexivity
    | let acc := fresh "acc" in let s := fresh "s" in let Hs := fresh "Hs" in
      intros acc s Hs; apply Hs
    | let acc := fresh "acc" in let s := fresh "s" in let a := fresh "a" in
      let Ha := fresh "Ha" in let Hs1 := fresh "Hs1" in let Hs2 := fresh "Hs2" in
      let Hab := fresh "Hab" in let Hz := fresh "Hz" in let E := fresh "E" in
      let u := fresh "u" in let m := fresh "m" in
      intros acc s a Ha (Hs1 & Hs2);
      destruct s as (e0 & t1 & t2 & t3 & t4 & t5 & t6 & t7 & out);
      unfold st_out in Hs2; cbn [snd] in Hs2; subst out; cbv beta iota;
      rewrite (bindx_ok (PStr a)) by reflexivity; cbv beta;
      rewrite (frame_col_sframe cols rows a Hsh (HinL a Ha));
      fold (col_cells cols rows a);
      pose proof (Habs a (HinL a Ha)) as Hab;
      pose proof (HzL a Ha) as Hz;
      rewrite isnull_sum_eval, (nmissing_abstracts _ _ Hab);
      rewrite (bindx_ok (PInt _)) by reflexivity; cbv beta;
      rewrite nunique_present_eval;
      rewrite (bindx_ok (PInt _)) by reflexivity; cbv beta;
      rewrite py_gt_int_val;
      match goal with |- loop_inv _ _ (bindx (PBool ?b) ?fl ?k) =>
        rewrite (bindx_ok (PBool b) fl k) by reflexivity end; cbv beta;
      rewrite count_missing_once_eval, (nunique_present_abstracts _ _ Hab); cbv beta iota;
      rewrite (bindx_ok PNone) by reflexivity; cbv beta;
      rewrite !(pct_eval _ n Hz);
      rewrite (bindx_ok (PFloat _)) by reflexivity; cbv beta;
      rewrite (bindx_ok (PFloat _)) by reflexivity; cbv beta;
      rewrite !format_statistic_eval;
      rewrite (bindx_ok (PStr _)) by reflexivity; cbv beta;
      rewrite (bindx_ok (PStr _)) by reflexivity; cbv beta;
      rewrite !py_eq_int_val, py_and_bools, join3_eval;
      set (u := n_unique (ids a)); set (m := n_missing (ids a));
      assert (E : map (out_record sf) (acc ++ [(a, profile_column n (ids a))])%list
                  = (map (out_record sf) acc ++
                     [PTuple [PStr a; PStr (fmt_stat sf u (pct u n)); PStr (fmt_stat sf m (pct m n));
                              (if (u =? n) && (m =? 0)
                               then PStr "This attribute can be used as a key attribute."
                               else if 0 <? m
                                    then PStr ("Joining on this attribute will ignore "
                                               ++ fmt_stat sf m (pct m n) ++ " rows.")
                                    else PStr "")]])%list)
        by (rewrite map_app; cbn [map]; unfold out_record, out_cells, profile_column; cbn [fst snd];
            rewrite comment_eval; reflexivity);
      unfold loop_inv, st_out; rewrite E; clear E;
      destruct (0 <? m); destruct ((u =? n) && (m =? 0));
      cbv beta iota delta [bindx py_truth py_append strict2 fst snd is_exc]; split; reflexivity ]
  | rewrite fold_snoc_map in Hloop; cbn [app] in Hloop; fold (model_rows n ids L) in Hloop;
    unfold py_strs;
    match type of Hloop with loop_inv _ _ ?X => generalize dependent X end;
    let s := fresh "s" in let Hs1 := fresh "Hs1" in let Hs2 := fresh "Hs2" in
    intros s (Hs1 & Hs2);
    destruct s as (e0 & t1 & t2 & t3 & t4 & t5 & t6 & t7 & out);
    unfold st_out in Hs2; cbn [snd fst] in Hs1, Hs2; subst out; cbv iota;
    rewrite (bindx_ok e0) by exact Hs1; cbv beta;
    fold full_header; rewrite records_frame_eval;
    rewrite (bindx_ok (frame_val _)) by reflexivity; cbv beta;
    apply set_index_eval ].

(* the loop when the table has no rows: the first attribute raises ZeroDivisionError *)
Ltac loop_zero cols rows a0 Hsh Ha0 :=
  unfold py_strs; rewrite py_for_PList'; cbn [map fold_left];
  cbv beta iota delta [is_exc fst];
  rewrite (bindx_ok (PStr a0)) by reflexivity; cbv beta;
  rewrite (frame_col_sframe cols rows a0 Hsh Ha0);
  rewrite isnull_sum_eval;
  rewrite (bindx_ok (PInt _)) by reflexivity; cbv beta;
  rewrite nunique_present_eval;
  rewrite (bindx_ok (PInt _)) by reflexivity; cbv beta;
  rewrite py_gt_int_val;
  match goal with |- context [bindx (PBool ?b) ?fl ?k] =>
    rewrite (bindx_ok (PBool b) fl k) by reflexivity end; cbv beta;
  rewrite count_missing_once_eval; cbv beta iota;
  rewrite (bindx_ok PNone) by reflexivity; cbv beta;
  rewrite pct_zero_rows;
  unfold ZeroDivisionError; rewrite bindx_exc; cbv beta;    (* never unfold every bindx: 8^depth *)
  rewrite fold_raised by reflexivity; reflexivity.

Lemma nz_of_bound (n : Z) : 0 <= n < 2 ^ 53 -> n <> 0 -> f_is_zero (f_of_Z n) = false.
Proof. intros Hn H0. apply f_of_Z_nz. lia. Qed.

(* ------------------------------------------------------------------ the result, spelled out *)
Theorem profile_table_for_join_rows_explicit :
  forall (sf : f64 -> string) (cols : list string) (rows : list (list pyval))
         (ids : string -> column) (attrs : option (list string)),
    wf_table cols rows ids ->
    Z.of_nat (List.length rows) < 2 ^ 53 ->
    profile_table_for_join_rows sf (sframe cols rows) (py_opt_strs attrs)
    = explicit_result sf cols (Z.of_nat (List.length rows)) ids attrs.
Proof.
  intros sf cols rows ids attrs (Hnd & Hsh & Habs) Hbound.
  set (n := Z.of_nat (List.length rows)) in *.
  assert (Hn0 : 0 <= n) by (subst n; lia).
  unfold profile_table_for_join_rows. cbv zeta.
  destruct attrs as [l|]; cbn [py_opt_strs explicit_result].
  - (* an explicit attribute list *)
    change (py_is_none (py_strs l)) with (PBool false).
    rewrite (bindx_ok (PBool false)) by reflexivity. cbv beta.
    change (py_truth (PBool false)) with false. cbv iota.
    rewrite (validate_loop cols l) by (apply frame_columns_sframe; exact Hsh).
    destruct (known cols l) eqn:Hk; cbv beta iota.
    2:{ reflexivity. }
    rewrite (bindx_ok PNone) by reflexivity. cbv beta iota.
    rewrite (bindx_ok PNone) by reflexivity. cbv beta iota.
    rewrite frame_len_sframe by exact Hsh. fold n.
    rewrite (bindx_ok (PInt n)) by reflexivity. cbv beta.
    assert (HinL : forall a, In a l -> In a cols) by (apply known_In; exact Hk).
    unfold explicit_rows. destruct l as [|a0 l'] eqn:El.
    + (* no attribute: the empty frame *)
      reflexivity.
    + rewrite <- El in *. destruct (n =? 0) eqn:En.
      * apply Z.eqb_eq in En. rewrite En. rewrite El.
        assert (Ha0 : In a0 cols) by (apply HinL; rewrite El; left; reflexivity).
        loop_zero cols rows a0 Hsh Ha0.
      * apply Z.eqb_neq in En.
        assert (HzL : forall a, In a l -> f_is_zero (f_of_Z n) = false)
          by (intros a _; apply nz_of_bound; [lia | exact En]).
        loop_tail sf cols rows ids n l Hsh Habs HinL HzL.
  - (* profile_attrs = None: all columns *)
    change (py_is_none PNone) with (PBool true).
    rewrite (bindx_ok (PBool true)) by reflexivity. cbv beta.
    change (py_truth (PBool true)) with true. cbv iota.
    rewrite frame_columns_sframe by exact Hsh.
    change (py_list (py_strs cols)) with (py_strs cols).
    rewrite (bindx_ok (py_strs cols)) by reflexivity. cbv beta iota.
    rewrite (bindx_ok PNone) by reflexivity. cbv beta iota.
    rewrite frame_len_sframe by exact Hsh. fold n.
    rewrite (bindx_ok (PInt n)) by reflexivity. cbv beta.
    assert (HinL : forall a, In a cols -> In a cols) by (intros a H; exact H).
    unfold explicit_rows. destruct cols as [|a0 l'] eqn:El.
    + reflexivity.
    + rewrite <- El in *. destruct (n =? 0) eqn:En.
      * apply Z.eqb_eq in En. rewrite En. rewrite El in *.
        assert (Ha0 : In a0 (a0 :: l')) by (left; reflexivity).
        loop_zero (a0 :: l') rows a0 Hsh Ha0.
      * apply Z.eqb_neq in En.
        assert (HzL : forall a, In a cols -> f_is_zero (f_of_Z n) = false)
          by (intros a _; apply nz_of_bound; [lia | exact En]).
        loop_tail sf cols rows ids n cols Hsh Habs HinL HzL.
Qed.

Print Assumptions profile_table_for_join_rows_explicit.
