(* The refinement of the GENERATED per-chunk join loop, instantiated with the projection model:
   the wrapper (jaccard_join_py & co.) hands set_sim_join the PROJECTED tables
   ltable[l_proj_attrs].values with l_columns := l_proj_attrs and the de-duplicated output
   attribute lists (Model/Projection.v: l_proj, l_out).  Then the rows returned by the generated
   set_sim_join_rows are a permutation of

       [ out_cells c (nth i ltable) (nth j rtable) ++ [score if out_sim_score]
         | (i, j, score) <- set_sim_join_core p op allow_empty L R ]

   (lrow / rrow the FULL source rows, out_cells = cells_spec the declarative projection), and the
   returned header is header_spec without its leading "_id" (the wrapper inserts that column).
   Axiom-free.                                                                            *)
From Coq Require Import ZArith Bool List String Lia Permutation.
From SSJ Require Import F64 PyNum FilterUtilsGen HelperGen TokenOrderingGen ValidationGen IndexGen JoinGen
     TokenOrdering Measures Filters Joins Projection ProjSpec ProjectionFacts OrderingGenFacts
     IndexPyFacts IndexBuildFacts IndexProbeFacts IndexRefine JoinGenFacts JoinGenLoop JoinRefine.
Import ListNotations.
Open Scope Z_scope.

Section Proj.
  Variables (c : pcase) (p : fparams) (op : string) (ae : bool).
  Variables (lsrc rsrc : list (list pyval)) (showp : pyval).
  Variables (tokenize : pyval -> pyval) (sim_fn : pyval -> pyval -> pyval).
  Variables (toks : pyval -> list Z) (cf : pyval -> pyval -> pyval).

  Let lo := dedupe_out (p_lkey c) (p_lout c).
  Let ro := dedupe_out (p_rkey c) (p_rout c).
  Let lp := proj_list (p_lkey c) (p_ljoin c) lo.
  Let rp := proj_list (p_rkey c) (p_rjoin c) ro.
  (* the projected arrays *)
  Let lrows := map (fun row => map (cellv (p_lcols c) row) lp) lsrc.
  Let rrows := map (fun row => map (cellv (p_rcols c) row) rp) rsrc.
  (* the raw token lists of the join cells: the model's input *)
  Let L := map (fun row => toks (cellv (p_lcols c) row (p_ljoin c))) lsrc.
  Let R := map (fun row => toks (cellv (p_rcols c) row (p_rjoin c))) rsrc.
  Let all := (List.concat L ++ List.concat R)%list.

  Hypothesis Hwf : well_formed c.
  Hypothesis Hlsrc : forall row, In row lsrc ->
    List.length row = List.length (p_lcols c) /\ ProjSpec.row_ok row.
  Hypothesis Hrsrc : forall row, In row rsrc ->
    List.length row = List.length (p_rcols c) /\ ProjSpec.row_ok row.
  Hypothesis HtokL : forall row, In row lsrc ->
    tokenize (cellv (p_lcols c) row (p_ljoin c)) = pints (toks (cellv (p_lcols c) row (p_ljoin c))).
  Hypothesis HtokR : forall row, In row rsrc ->
    tokenize (cellv (p_rcols c) row (p_rjoin c)) = pints (toks (cellv (p_rcols c) row (p_rjoin c))).
  Hypothesis Hm : set_measure (fm p).
  Hypothesis Hvt : is_exc (validate_threshold (ft p) (PStr (fm p))) = false.
  Hypothesis Hop : comp_op_map op = Some cf.
  Hypothesis Hnum : num_of (ft p) <> None.
  Hypothesis HplL : forall x, In x (map (order all) L) -> exists k, g_pl p (len x) = PInt k.
  Hypothesis HprR : forall y, In y (map (order all) R) -> ae && (len y =? 0) = false -> probe_ok p y.
  Hypothesis Hsim : forall x y, In x (map (order all) L) -> In y (map (order all) R) ->
    sim_fn (pints x) (pints y) = PFloat (sim_tok (fm p) x y).

  (* the row the specification prescribes for a triple *)
  Definition spec_row (t : triple) : list pyval :=
    let '(i, j, s) := t in
    match out_cells c (nth i lsrc []) (nth j rsrc []) with
    | Some cells => (cells ++ if p_score c then [s] else [])%list
    | None => []
    end.

  Let ki := posn (p_lkey c) lp.
  Let ji := posn (p_ljoin c) lp.
  Let li := map (fun a => posn a lp) lo.
  Let kj := posn (p_rkey c) rp.
  Let jj := posn (p_rjoin c) rp.
  Let ri := map (fun a => posn a rp) ro.
  Let has := match p_lout c, p_rout c with None, None => false | _, _ => true end.
  Let hdr := map PStr ((p_lpre c ++ p_lkey c)%string :: (p_rpre c ++ p_rkey c)%string
                       :: (map (append (p_lpre c)) lo ++ map (append (p_rpre c)) ro))%list.

  Lemma lp_incl : forall a, In a lp -> In a (p_lcols c).
  Proof.
    destruct Hwf as [Hlk Hlj Hlo _ _ _]. intros a Ha.
    eapply proj_list_incl; [exact Hlk | exact Hlj | | exact Ha].
    intros b Hb. apply Hlo. eapply dedupe_out_incl. exact Hb.
  Qed.
  Lemma rp_incl : forall a, In a rp -> In a (p_rcols c).
  Proof.
    destruct Hwf as [_ _ _ Hrk Hrj Hro]. intros a Ha.
    eapply proj_list_incl; [exact Hrk | exact Hrj | | exact Ha].
    intros b Hb. apply Hro. eapply dedupe_out_incl. exact Hb.
  Qed.

  Lemma lrows_ok r : In r lrows -> cols_ok ki ji li r.
  Proof.
    intros Hr. apply in_map_iff in Hr. destruct Hr as (row & <- & Hrow).
    destruct (Hlsrc row Hrow) as [Hlen Hok]. unfold cols_ok. rewrite map_length. repeat split.
    - apply project_row_ok; [exact Hok | exact lp_incl | exact Hlen].
    - apply posn_lt. left; reflexivity.
    - apply posn_lt. right; left; reflexivity.
    - intros n Hn. apply in_map_iff in Hn. destruct Hn as (a0 & <- & Ha). apply posn_lt.
      apply proj_list_In. exact Ha.
  Qed.
  Lemma rrows_ok r : In r rrows -> cols_ok kj jj ri r.
  Proof.
    intros Hr. apply in_map_iff in Hr. destruct Hr as (row & <- & Hrow).
    destruct (Hrsrc row Hrow) as [Hlen Hok]. unfold cols_ok. rewrite map_length. repeat split.
    - apply project_row_ok; [exact Hok | exact rp_incl | exact Hlen].
    - apply posn_lt. left; reflexivity.
    - apply posn_lt. right; left; reflexivity.
    - intros n Hn. apply in_map_iff in Hn. destruct Hn as (a0 & <- & Ha). apply posn_lt.
      apply proj_list_In. exact Ha.
  Qed.

  (* the join cell of a projected row is the join cell of the source row *)
  Lemma join_cell_l row : nth ji (map (cellv (p_lcols c) row) lp) PNone = cellv (p_lcols c) row (p_ljoin c).
  Proof. apply (positional_index (p_lcols c) row lp (p_ljoin c)). right; left; reflexivity. Qed.
  Lemma join_cell_r row : nth jj (map (cellv (p_rcols c) row) rp) PNone = cellv (p_rcols c) row (p_rjoin c).
  Proof. apply (positional_index (p_rcols c) row rp (p_rjoin c)). right; left; reflexivity. Qed.

  Lemma has_eq : py_or (py_is_not_none (l_out c)) (py_is_not_none (r_out c)) = PBool has.
  Proof.
    rewrite l_out_eq, r_out_eq. unfold has.
    destruct (p_lout c), (p_rout c); reflexivity.
  Qed.

  Lemma cells_of_triple i j : (i < List.length lsrc)%nat -> (j < List.length rsrc)%nat ->
    out_cells c (nth i lsrc []) (nth j rsrc [])
    = Some (row_cells ki kj li ri (nth i lrows []) (nth j rrows [])).
  Proof.
    intros Hi Hj.
    destruct (Hlsrc (nth i lsrc []) (nth_In _ _ Hi)) as [Hll Hlok].
    destruct (Hrsrc (nth j rsrc []) (nth_In _ _ Hj)) as [Hrl Hrok].
    rewrite (out_cells_eq c _ _ Hwf Hll Hrl Hlok Hrok). f_equal.
    unfold lrows, rrows.
    rewrite (nth_indep (map _ lsrc) [] ((fun row => map (cellv (p_lcols c) row) lp) []))
      by (rewrite map_length; exact Hi).
    rewrite (nth_indep (map _ rsrc) [] ((fun row => map (cellv (p_rcols c) row) rp) []))
      by (rewrite map_length; exact Hj).
    rewrite (map_nth (fun row => map (cellv (p_lcols c) row) lp)).
    rewrite (map_nth (fun row => map (cellv (p_rcols c) row) rp)).
    set (lrow := nth i lsrc []). set (rrow := nth j rsrc []).
    unfold cells_list, row_cells. fold lo ro.
    change (nth ki (map (cellv (p_lcols c) lrow) lp) PNone)
      with (cellv lp (map (cellv (p_lcols c) lrow) lp) (p_lkey c)).
    change (nth kj (map (cellv (p_rcols c) rrow) rp) PNone)
      with (cellv rp (map (cellv (p_rcols c) rrow) rp) (p_rkey c)).
    rewrite !positional_index by (left; reflexivity). f_equal. f_equal.
    unfold li, ri. rewrite !map_map.
    f_equal; apply map_ext_in; intros a0 Ha; symmetry.
    - apply (positional_index (p_lcols c) lrow lp a0). apply proj_list_In. exact Ha.
    - apply (positional_index (p_rcols c) rrow rp a0). apply proj_list_In. exact Ha.
  Qed.

  Theorem set_sim_join_rows_refines_proj :
    exists (T : list triple) (rows : list (list pyval)) (header : pyval),
      set_sim_join_core p op ae L R = Some T /\
      set_sim_join_rows (PList (map PList lrows)) (PList (map PList rrows)) (l_proj c) (r_proj c)
                        (PStr (p_lkey c)) (PStr (p_rkey c)) (PStr (p_ljoin c)) (PStr (p_rjoin c))
                        (PStr (fm p)) (ft p) (PStr op) (PBool ae) (l_out c) (r_out c)
                        (PStr (p_lpre c)) (PStr (p_rpre c)) (PBool (p_score c)) showp (PInt (fq p))
                        tokenize sim_fn
      = PTuple [PList (map PList rows); header] /\
      py_insert0 header (PStr "_id"%string) = py_strs (header_spec c) /\
      Permutation rows (map spec_row T) /\
      forall t, In t T ->
        exists cells, out_cells c (nth (fst (fst t)) lsrc []) (nth (snd (fst t)) rsrc []) = Some cells /\
                      cells_spec c (nth (fst (fst t)) lsrc []) (nth (snd (fst t)) rsrc []) = Some cells.
  Proof.
    destruct Hwf as [Hlk Hlj Hlo Hrk Hrj Hro].
    assert (Elen_l : List.length lrows = List.length lsrc) by (unfold lrows; apply map_length).
    assert (Elen_r : List.length rrows = List.length rsrc) by (unfold rrows; apply map_length).
    assert (EL : map (fun r : list pyval => toks (nth ji r PNone)) lrows = L).
    { unfold L, lrows. rewrite map_map. apply map_ext. intros row. now rewrite join_cell_l. }
    assert (ER : map (fun r : list pyval => toks (nth jj r PNone)) rrows = R).
    { unfold R, rrows. rewrite map_map. apply map_ext. intros row. now rewrite join_cell_r. }
    assert (HLo : forall A, map (fun r : list pyval => order A (toks (nth ji r PNone))) lrows = map (order A) L).
    { intros A. rewrite <- EL, map_map. reflexivity. }
    assert (HRo : forall A, map (fun r : list pyval => order A (toks (nth jj r PNone))) rrows = map (order A) R).
    { intros A. rewrite <- ER, map_map. reflexivity. }
    destruct (set_sim_join_rows_refines p op ae (p_score c) lrows rrows (l_proj c) (r_proj c)
                (PStr (p_lkey c)) (PStr (p_rkey c)) (PStr (p_ljoin c)) (PStr (p_rjoin c))
                (l_out c) (r_out c) (PStr (p_lpre c)) (PStr (p_rpre c)) showp
                ki ji kj jj li ri has hdr tokenize sim_fn
                (fun r => toks (nth ji r PNone)) (fun r => toks (nth jj r PNone)) cf)
      as (T & rows & ET & Egen & Perm & Hb).
    - rewrite l_proj_eq. fold lo lp. apply py_index_strs. left; reflexivity.
    - rewrite l_proj_eq. fold lo lp. apply py_index_strs. right; left; reflexivity.
    - rewrite l_proj_eq, l_out_eq. fold lo lp.
      rewrite find_output_attribute_indices_opt.
      + rewrite opt_list_dedupe_opt, idx_py_map. reflexivity.
      + intros a0 Ha. rewrite opt_list_dedupe_opt in Ha. apply proj_list_In. exact Ha.
    - rewrite r_proj_eq. fold ro rp. apply py_index_strs. left; reflexivity.
    - rewrite r_proj_eq. fold ro rp. apply py_index_strs. right; left; reflexivity.
    - rewrite r_proj_eq, r_out_eq. fold ro rp.
      rewrite find_output_attribute_indices_opt.
      + rewrite opt_list_dedupe_opt, idx_py_map. reflexivity.
      + intros a0 Ha. rewrite opt_list_dedupe_opt in Ha. apply proj_list_In. exact Ha.
    - exact has_eq.
    - unfold has, li, ri, lo, ro. destruct (p_lout c), (p_rout c); try discriminate. intros _. split; reflexivity.
    - rewrite l_out_eq, r_out_eq, get_output_header_from_tables_opt, !opt_list_dedupe_opt. reflexivity.
    - exact lrows_ok.
    - exact rrows_ok.
    - intros r Hr. apply in_map_iff in Hr. destruct Hr as (row & <- & Hrow).
      rewrite join_cell_l. apply HtokL. exact Hrow.
    - intros r Hr. apply in_map_iff in Hr. destruct Hr as (row & <- & Hrow).
      rewrite join_cell_r. apply HtokR. exact Hrow.
    - exact Hm.
    - exact Hvt.
    - exact Hop.
    - exact Hnum.
    - intros x Hx. rewrite HLo, EL, ER in Hx. apply HplL. exact Hx.
    - intros y Hy. rewrite HRo, EL, ER in Hy. apply HprR. exact Hy.
    - intros x y Hx Hy. rewrite HLo, EL, ER in Hx. rewrite HRo, EL, ER in Hy. apply Hsim; assumption.
    - rewrite EL, ER in ET.
      exists T, rows. eexists. split; [exact ET|]. split; [exact Egen|]. split; [|split].
      + (* header *)
        unfold header_spec, py_strs, hdr. fold lo ro.
        destruct (p_score c); cbn [py_insert0 strict2].
        * change [PStr "_sim_score"%string] with (map PStr ["_sim_score"%string]).
          rewrite <- map_app. cbn [map app]. rewrite <- app_assoc. reflexivity.
        * rewrite !app_nil_r. reflexivity.
      + (* rows *)
        replace (map spec_row T) with (map (triple_row (p_score c) lrows rrows ki kj li ri) T); [exact Perm|].
        apply map_ext_in. intros [[i j] sv] Ht. destruct (Hb _ Ht) as [Hi Hj]. cbn [fst snd] in Hi, Hj.
        unfold spec_row, triple_row. rewrite cells_of_triple by lia. reflexivity.
      + intros [[i j] sv] Ht. destruct (Hb _ Ht) as [Hi Hj]. cbn [fst snd] in *.
        assert (Hi' : (i < List.length lsrc)%nat) by lia. assert (Hj' : (j < List.length rsrc)%nat) by lia.
        destruct (Hlsrc (nth i lsrc []) (nth_In _ _ Hi')) as [Hll Hlok].
        destruct (Hrsrc (nth j rsrc []) (nth_In _ _ Hj')) as [Hrl Hrok].
        destruct (out_cells_correct c _ _ Hwf Hll Hrl Hlok Hrok) as [E (cells & Ec)].
        exists cells. split; [rewrite E; exact Ec | exact Ec].
  Qed.
End Proj.

Print Assumptions set_sim_join_rows_refines_proj.
