(* Code-level property theorems, part 1: C01 / C02 / C08 / C09 stated DIRECTLY about the GENERATED wrappers
   jaccard_join_rows, cosine_join_rows, dice_join_rows (Gen/WrapperGen.v).

   Composition of
     (A) WrapperRefineEnd.{jaccard,cosine,dice}_join_rows_end_to_end   (generated code refines api_join)
     (B) ApiJoinSpec.api_join_spec (= C01_api, C02_api, C08, C09)      (api_join satisfies the four specs)
   through CodeLevelBase.code_level_transfer (the specs do not depend on the order of the rows).

   Of the hypotheses of (A), three are DERIVED here instead of assumed:
     Hnum  (the threshold is a number)          from  ft p = PFloat t,
     Hn    (fewer than 2^31 present right rows) from  the bound on the whole right table,
     Hcore (formulas total on every chunk, sim_fn) from env_t t, the token-count bound and Hsim
           (IndexGlueArith.formulas_ok_jcd).
   Of `valid_join_case (jcase_of ..)` (B), derived: j_entry / is_jcd (from set_measure), lower_op (from the
   operator validator not raising).  What remains as extra hypotheses is listed in `jcd_extra_hyps`.     *)
From Coq Require Import ZArith Bool List String Lia Permutation.
From SSJ Require Import F64 PyNum FilterUtilsGen HelperGen TokenOrderingGen ValidationGen IndexGen JoinGen
     TokenOrdering Measures Filters Joins Api JoinSpec MetaSpec Projection ProjSpec IndexPyFacts ProjectionFacts
     JoinGenFacts JoinGenLoop JoinRefine JoinRefineProj SplitFacts Frame WrapperGen WrapperRefineFrame
     WrapperRefineMissing WrapperRefineCore WrapperRefineChunks WrapperRefine WrapperRefineClosed
     WrapperRefineApi WrapperRefineEnd WrapperBody WrapperApiLink WrapperEnd
     OrderingFacts OverlapFacts ValidationFacts IndexGlue IndexGlueArith
     ApiJoinSpec PartitionInst CodeLevelBase.
Import ListNotations.
Open Scope Z_scope.

(* ------------------------------------------------------------------ operators, from the validators *)
Lemma lower_op_of_valid op m : String.eqb m "EDIT_DISTANCE" = false ->
  is_exc (validate_comp_op_for_sim_measure (PStr op) (PStr m)) = false -> lower_op op.
Proof.
  intros Hm H. apply (proj2 (comp_op_sets op) m Hm).
  rewrite (vco_other op m Hm) in *.
  destruct (String.eqb ">=" op || (String.eqb ">" op || (String.eqb "=" op || false))); [reflexivity | discriminate H].
Qed.

Lemma set_measure_jcd m : set_measure m -> is_jcd m = true.
Proof. intros [-> | [-> | ->]]; reflexivity. Qed.
Lemma set_measure_not_ed m : set_measure m -> String.eqb m "EDIT_DISTANCE" = false.
Proof. intros [-> | [-> | ->]]; reflexivity. Qed.

(* what `valid_join_case` needs of the call and the end-to-end theorem does not provide *)
Definition tables_extra (c : pcase) (kz : pyval -> Z) (cpus : Z) (lsrc rsrc : list (list pyval)) : Prop :=
  1 <= cpus /\ Z.of_nat (List.length lsrc) < 2^31 /\ Z.of_nat (List.length rsrc) < 2^31 /\
  keys_unique c kz lsrc rsrc.
(* set tokenizer: no repeated token in a tokenized join cell; fewer than size_bound = 2^20 tokens *)
Definition set_cells (c : pcase) (toks : pyval -> list Z) (lsrc rsrc : list (list pyval)) : Prop :=
  cells_sat c lsrc rsrc (fun v => NoDup (toks v) /\ len (toks v) < size_bound).

Section TablesOk.
  Variables (c : pcase) (lsrc rsrc : list (list pyval)) (toks str : pyval -> list Z) (kz : pyval -> Z).
  Variable jc : jcase.
  Hypothesis HjL : j_L jc = map (arowLs c toks str kz) lsrc.
  Hypothesis HjR : j_R jc = map (arowRs c toks str kz) rsrc.

  Lemma tables_ok_of : tables_extra c kz (j_cpus jc) lsrc rsrc -> set_cells c toks lsrc rsrc -> tables_ok jc.
  Proof.
    intros (Hcpu & HlL & HlR & HkL & HkR) (HsL & HsR). unfold tables_ok. rewrite HjL, HjR.
    split; [rewrite (keysL c lsrc toks str kz); exact HkL|].
    split; [rewrite (keysR c rsrc toks str kz); exact HkR|].
    split.
    { intros r Hr Hp. destruct (arowLs_present c lsrc toks str kz r Hr Hp) as (row & Hrow & Et & _).
      unfold ApiJoinSpec.row_ok. rewrite Et. apply HsL. exact Hrow. }
    split.
    { intros r Hr Hp. destruct (arowRs_present c rsrc toks str kz r Hr Hp) as (row & Hrow & Et & _).
      unfold ApiJoinSpec.row_ok. rewrite Et. apply HsR. exact Hrow. }
    split; [exact Hcpu|]. rewrite !map_length. split; assumption.
  Qed.
End TablesOk.

Section CodeJcd.
  Variables (c : pcase) (p : fparams) (op : string) (ae am : bool) (njobs cpus : Z).
  Variables (lsrc rsrc : list (list pyval)) (showp : pyval).
  Variables (tokenize : pyval -> pyval) (sim_fn : pyval -> pyval -> pyval).
  Variables (toks : pyval -> list Z) (cf : pyval -> pyval -> pyval) (kz : pyval -> Z).

  (* ---- hypotheses of the end-to-end theorem (WrapperRefineEnd.End2End), verbatim ---- *)
  Definition jcd_e2e_hyps : Prop :=
    well_formed c /\
    (forall row, In row lsrc -> List.length row = List.length (p_lcols c) /\ ProjSpec.row_ok row) /\
    (forall row, In row rsrc -> List.length row = List.length (p_rcols c) /\ ProjSpec.row_ok row) /\
    (forall row, In row (lpresent c lsrc) -> tokenize (lcell c row) = pints (toks (lcell c row))) /\
    (forall row, In row (rpresent c rsrc) -> tokenize (rcell c row) = pints (toks (rcell c row))) /\
    set_measure (fm p) /\
    is_exc (validate_threshold (ft p) (PStr (fm p))) = false /\
    is_exc (validate_comp_op_for_sim_measure (PStr op) (PStr (fm p))) = false /\
    is_exc (validate_output_attrs (py_opt_strs (p_lout c)) (py_strs (p_lcols c))
                                  (py_opt_strs (p_rout c)) (py_strs (p_rcols c))) = false /\
    comp_op_map op = Some cf /\
    ~ In "_id"%string (mv_header c).

  (* ---- what remains to be assumed on top of them ---- *)
  Definition jcd_extra_hyps : Prop :=
    (* sim_fn = get_sim_function(measure) on ordered token lists *)
    (forall x y, sim_fn (pints x) (pints y) = PFloat (sim_tok (fm p) x y)) /\
    (* the threshold is a double in the envelope 2^-30 <= t <= 1 of the arithmetic theorems *)
    (exists t, ft p = PFloat t /\ env_t t = true) /\
    tables_extra c kz cpus lsrc rsrc /\ set_cells c toks lsrc rsrc.

  Hypothesis He2e : jcd_e2e_hyps.
  Hypothesis Hextra : jcd_extra_hyps.

  Definition jcd_jcase : jcase := jcase_of c p op ae am njobs cpus lsrc rsrc toks kz.

  Lemma jcd_valid : valid_join_case jcd_jcase.
  Proof using He2e Hextra.
    destruct He2e as (_ & _ & _ & _ & _ & Hm & _ & Hvop & _).
    destruct Hextra as (_ & Hthr & Htab & Hset).
    split; [|split].
    - apply (tables_ok_of c lsrc rsrc toks (fun _ => []) kz jcd_jcase eq_refl eq_refl); assumption.
    - exact (lower_op_of_valid op (fm p) (set_measure_not_ed _ Hm) Hvop).
    - exists (fm p). split; [reflexivity|]. left. split; [exact (set_measure_jcd _ Hm) | exact Hthr].
  Qed.

  Lemma jcd_formulas : formulas_ok p size_bound.
  Proof using He2e Hextra.
    destruct He2e as (_ & _ & _ & _ & _ & Hm & _).
    destruct Hextra as (_ & (t & Et & Henv) & _).
    destruct p as [m tt q]. cbn [ft fm] in *. subst tt. apply formulas_ok_jcd; [exact (set_measure_jcd _ Hm) | exact Henv].
  Qed.

  Lemma len_order_in (LL : list (list Z)) (all tk : list Z) :
    In tk LL -> (forall w, In w (List.concat LL) -> In w all) -> len (order all tk) = len tk.
  Proof.
    intros Hin Hall. unfold len. rewrite order_length; [reflexivity|].
    intros w Hw. apply Hall. apply in_concat. exists tk. split; assumption.
  Qed.

  (* Hcore of the end-to-end theorem, on every chunk of present right rows *)
  Lemma jcd_core ch : (forall row, In row ch -> In row (rpresent c rsrc)) -> core_hyps c p ae lsrc sim_fn toks ch.
  Proof using He2e Hextra.
    intros Hch. pose proof jcd_formulas as Hf.
    destruct Hextra as (Hsim & _ & _ & (HsL & HsR)).
    unfold core_hyps. cbv zeta. split; [|split].
    - intros x Hx. apply in_map_iff in Hx. destruct Hx as (tk & <- & Htk).
      apply (formulas_ok_pl p size_bound _ Hf).
      rewrite (len_order_in (Ltoks c lsrc toks)); [|exact Htk | intros w Hw; apply in_or_app; left; exact Hw].
      unfold Ltoks in Htk. apply in_map_iff in Htk. destruct Htk as (row & <- & Hrow).
      split; [unfold len; lia | exact (proj2 (HsL row Hrow))].
    - intros y Hy _. apply in_map_iff in Hy. destruct Hy as (tk & <- & Htk).
      unfold probe_ok. apply (Hf (len (order _ tk))).
      rewrite (len_order_in (Rtoks c toks ch)); [|exact Htk | intros w Hw; apply in_or_app; right; exact Hw].
      unfold Rtoks in Htk. apply in_map_iff in Htk. destruct Htk as (row & <- & Hrow).
      split; [unfold len; lia | exact (proj2 (HsR row (Hch row Hrow)))].
    - intros x y _ _. apply Hsim.
  Qed.

  Lemma jcd_Hn : Z.of_nat (List.length (rpresent c rsrc)) < 2^31.
  Proof using Hextra.
    destruct Hextra as (_ & _ & (_ & _ & HlR & _) & _). pose proof (rpresent_length c rsrc). lia.
  Qed.

  (* the call of a generated set-similarity wrapper W on the two frames *)
  Definition jcd_call (W : pyval -> pyval -> pyval -> pyval -> pyval -> pyval -> pyval -> pyval -> pyval ->
                           pyval -> pyval -> pyval -> pyval -> pyval -> pyval -> pyval -> pyval -> pyval ->
                           pyval -> (pyval -> pyval) -> (pyval -> pyval -> pyval) -> pyval) : pyval :=
    W (sframe (p_lcols c) lsrc) (sframe (p_rcols c) rsrc)
      (PStr (p_lkey c)) (PStr (p_rkey c)) (PStr (p_ljoin c)) (PStr (p_rjoin c))
      (ft p) (PStr op) (PBool ae) (PBool am) (py_opt_strs (p_lout c)) (py_opt_strs (p_rout c))
      (PStr (p_lpre c)) (PStr (p_rpre c)) (PBool (p_score c)) (PInt njobs) showp (PInt cpus)
      (PInt (fq p)) tokenize sim_fn.

  (* the conclusion, for the frame `lhs` a wrapper returned:
     (1) it is header_spec c with rows numbered (main ++ missing-value rows), and the key-level view of those
         rows (row_out on main, mv_out on the missing-value rows) satisfies the four specifications;
     (2) the same with ONE view of all rows, kview (a NaN score read as absent). *)
  Definition code_join_conclusion (jc : jcase) (lhs : pyval) : Prop :=
    code_result c am lsrc rsrc kz lhs (four_specs jc) /\
    code_result_kview c kz lhs (four_specs jc).

  Lemma e2e_flat W :
    end_to_end c p op ae am njobs cpus lsrc rsrc showp tokenize sim_fn toks kz W ->
    end_to_end_flat c am lsrc rsrc toks (fun _ => []) kz jcd_jcase (jcd_call W).
  Proof. intros H. exact H. Qed.

  (* ---- generic over the wrapper: anything that satisfies the end-to-end statement ---- *)
  Theorem code_level_join_spec W :
    end_to_end c p op ae am njobs cpus lsrc rsrc showp tokenize sim_fn toks kz W ->
    code_join_conclusion jcd_jcase (jcd_call W).
  Proof using He2e Hextra.
    intros HA. apply e2e_flat in HA.
    assert (HB : forall out, api_join jcd_jcase = Some out -> four_specs jcd_jcase out).
    { intros out Ho. exact (api_join_spec hpart_cpus_bounded jcd_jcase out jcd_valid Ho). }
    split.
    - exact (code_level_four_specs c am lsrc rsrc toks (fun _ => []) kz jcd_jcase _ HA HB).
    - apply (code_level_four_specs_kview c am lsrc rsrc toks (fun _ => []) kz jcd_jcase); try assumption.
      + reflexivity.
      + exact I.
  Qed.

  Lemma jcd_end_to_end_args :
    forall X : Prop,
    (well_formed c ->
     (forall row, In row lsrc -> List.length row = List.length (p_lcols c) /\ ProjSpec.row_ok row) ->
     (forall row, In row rsrc -> List.length row = List.length (p_rcols c) /\ ProjSpec.row_ok row) ->
     (forall row, In row (lpresent c lsrc) ->
        tokenize (cellv (p_lcols c) row (p_ljoin c)) = pints (toks (cellv (p_lcols c) row (p_ljoin c)))) ->
     (forall row, In row (rpresent c rsrc) ->
        tokenize (cellv (p_rcols c) row (p_rjoin c)) = pints (toks (cellv (p_rcols c) row (p_rjoin c)))) ->
     set_measure (fm p) ->
     is_exc (validate_threshold (ft p) (PStr (fm p))) = false ->
     is_exc (validate_comp_op_for_sim_measure (PStr op) (PStr (fm p))) = false ->
     is_exc (validate_output_attrs (py_opt_strs (p_lout c)) (py_strs (p_lcols c))
                                   (py_opt_strs (p_rout c)) (py_strs (p_rcols c))) = false ->
     comp_op_map op = Some cf ->
     num_of (ft p) <> None ->
     ~ In "_id"%string (mv_header c) ->
     Z.of_nat (List.length (rpresent c rsrc)) < 2 ^ 31 ->
     (forall ch, In ch (wchunks c njobs cpus rsrc
                          (split_bs (kjobs c njobs cpus rsrc) (Z.of_nat (List.length (rpresent c rsrc))))) ->
                 core_hyps c p ae lsrc sim_fn toks ch) -> X) -> X.
  Proof using He2e Hextra.
    intros X HX. pose proof jcd_Hn as Hn.
    destruct He2e as (Hwf & Hl & Hr & HtL & HtR & Hm & Hvt & Hvop & Hvout & Hop & Hid).
    apply HX; try assumption.
    - destruct Hextra as (_ & (t & Et & _) & _). rewrite Et. discriminate.
    - intros ch Hin. apply jcd_core. exact (wchunks_in c njobs cpus rsrc _ ch Hin).
  Qed.

  (* ---- C01 + C02 + C08 + C09 of the three GENERATED wrappers ---- *)
  Theorem C01_C02_code_jaccard : fm p = "JACCARD"%string ->
    code_join_conclusion jcd_jcase (jcd_call jaccard_join_rows).
  Proof using He2e Hextra.
    intros Hfm. apply code_level_join_spec. apply jcd_end_to_end_args. intros.
    apply (jaccard_join_rows_end_to_end c p op ae am njobs cpus lsrc rsrc showp tokenize sim_fn toks cf kz); assumption.
  Qed.
  Theorem C01_C02_code_cosine : fm p = "COSINE"%string ->
    code_join_conclusion jcd_jcase (jcd_call cosine_join_rows).
  Proof using He2e Hextra.
    intros Hfm. apply code_level_join_spec. apply jcd_end_to_end_args. intros.
    apply (cosine_join_rows_end_to_end c p op ae am njobs cpus lsrc rsrc showp tokenize sim_fn toks cf kz); assumption.
  Qed.
  Theorem C01_C02_code_dice : fm p = "DICE"%string ->
    code_join_conclusion jcd_jcase (jcd_call dice_join_rows).
  Proof using He2e Hextra.
    intros Hfm. apply code_level_join_spec. apply jcd_end_to_end_args. intros.
    apply (dice_join_rows_end_to_end c p op ae am njobs cpus lsrc rsrc showp tokenize sim_fn toks cf kz); assumption.
  Qed.
End CodeJcd.

Print Assumptions code_level_join_spec.
Print Assumptions C01_C02_code_jaccard.
Print Assumptions C01_C02_code_cosine.
Print Assumptions C01_C02_code_dice.
