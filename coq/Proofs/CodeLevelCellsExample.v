(* C11 about the generated code, part 4: a closed instance.  The case of Proofs/WrapperRefineExample.v
   (jaccard_join_rows, TWO jobs, allow_empty, allow_missing, missing join values on both sides, l_out_attrs =
   ["x"; "id"; "x"], r_out_attrs = None, out_sim_score): `wx_refines` discharges every hypothesis of the refinement
   theorem, so CodeLevelCellsFamilies.C11_of_wrapper_result applies (`wx_C11`); the frame is then computed with
   vm_compute and the three kinds of rows are exhibited with their source rows:
     row 0  normal row         (left id 1 "a b", right id 5 "b a", score 1.0),
     row 2  empty-set branch   (left id 3 "",    right id 6 "",    score 1.0),
     row 3  missing-value row  (left id 4 with a None join value, right id 9), score NaN,
     row 7  missing-value row  (left id 1, right id 9 with a NaN join value),  score NaN.
   `wx_rows_check`: a boolean check, by computation, that EVERY row of the computed frame is the row number followed by
   cells_spec of some left and some right source row and a final float cell.  Axiom-free.                 *)
From Coq Require Import ZArith Bool List String Lia Permutation.
From SSJ Require Import F64 PyNum Measures Filters Joins Projection ProjSpec ProjectionFacts JoinRefineProj JoinRefineExample
     Frame WrapperGen WrapperRefineFrame WrapperRefineMissing WrapperRefineCore WrapperRefine WrapperRefineExample
     CodeLevelBase CodeLevelRelBase CodeLevelCells CodeLevelCellsScores CodeLevelCellsFamilies.
Import ListNotations.
Open Scope string_scope.
Open Scope list_scope.
Open Scope Z_scope.

Definition wx_call : pyval :=
  jaccard_join_rows (sframe (p_lcols ex_c) wx_lsrc) (sframe (p_rcols ex_c) wx_rsrc)
    (PStr (p_lkey ex_c)) (PStr (p_rkey ex_c)) (PStr (p_ljoin ex_c)) (PStr (p_rjoin ex_c))
    (ft ex_p) (PStr ">=") (PBool true) (PBool true) (py_opt_strs (p_lout ex_c)) (py_opt_strs (p_rout ex_c))
    (PStr (p_lpre ex_c)) (PStr (p_rpre ex_c)) (PBool (p_score ex_c)) (PInt 2) (PBool false) (PInt 4)
    (PInt (fq ex_p)) ex_tokenize ex_sim.

Lemma wx_lsrc_ok : forall row, In row wx_lsrc -> List.length row = List.length (p_lcols ex_c) /\ ProjSpec.row_ok row.
Proof. intros row [<- | [<- | [<- | [<- | []]]]]; (split; [reflexivity | apply row_okb_sound; reflexivity]). Qed.
Lemma wx_rsrc_ok : forall row, In row wx_rsrc -> List.length row = List.length (p_rcols ex_c) /\ ProjSpec.row_ok row.
Proof. intros row [<- | [<- | [<- | [<- | []]]]]; (split; [reflexivity | apply row_okb_sound; reflexivity]). Qed.

(* the theorem applies to this call *)
Example wx_C11 :
  C11_frame ex_c true 2 4 wx_lsrc wx_rsrc wx_bs (jcd_K ex_c ex_p ">=" true wx_lsrc ex_toks) float_score wx_call.
Proof.
  apply (C11_of_wrapper_result ex_c ex_p ">=" true true 2 4 wx_lsrc wx_rsrc (PBool false) ex_tokenize ex_sim ex_toks
           (well_formedb_sound ex_c eq_refl) wx_lsrc_ok wx_rsrc_ok wx_bs jaccard_join_rows wx_refines).
Qed.

(* the header, spelled out for this case: l_out_attrs = ["x"; "id"; "x"] -> one column l_x *)
Example wx_header : header_spec ex_c = ["_id"; "l_id"; "r_rid"; "l_x"; "_sim_score"].
Proof. reflexivity. Qed.

Definition one : pyval := PFloat f_one.
Definition half : pyval := PFloat (mkF 1 (-1)).

(* the frame the generated wrapper returns, computed *)
Example wx_frame :
  wx_call = sframe ["_id"; "l_id"; "r_rid"; "l_x"; "_sim_score"]
    [[PInt 0; PInt 1; PInt 5; PInt 7; one];
     [PInt 1; PInt 2; PInt 5; PNone; half];
     [PInt 2; PInt 3; PInt 6; PStr "u"; one];
     [PInt 3; PInt 4; PInt 9; PStr "w"; py_nan];
     [PInt 4; PInt 4; PInt 5; PStr "w"; py_nan];
     [PInt 5; PInt 4; PInt 6; PStr "w"; py_nan];
     [PInt 6; PInt 4; PInt 7; PStr "w"; py_nan];
     [PInt 7; PInt 1; PInt 9; PInt 7; py_nan];
     [PInt 8; PInt 2; PInt 9; PNone; py_nan];
     [PInt 9; PInt 3; PInt 9; PStr "u"; py_nan]].
Proof. vm_compute. reflexivity. Qed.

Definition wx_rows : list (list pyval) := frame_rows_of wx_call.

(* the three kinds of rows, with their source rows *)
Definition wl1 : list pyval := [PInt 1; PStr "a b"; PInt 7].
Definition wl3 : list pyval := [PInt 3; PStr ""; PStr "u"].
Definition wl4 : list pyval := [PInt 4; PNone; PStr "w"].
Definition wr5 : list pyval := [PInt 5; PStr "b a"].
Definition wr6 : list pyval := [PInt 6; PStr ""].
Definition wr9 : list pyval := [PInt 9; py_nan].
Example wx_sources_in : In wl1 wx_lsrc /\ In wl3 wx_lsrc /\ In wl4 wx_lsrc /\ In wr5 wx_rsrc /\ In wr6 wx_rsrc /\ In wr9 wx_rsrc.
Proof. vm_compute. tauto. Qed.
Example wx_three_kinds :
  (* normal *)
  projects ex_c 0 wl1 wr5 one (nth 0 wx_rows []) /\
  (* empty-set branch: both join cells have no token *)
  projects ex_c 2 wl3 wr6 one (nth 2 wx_rows []) /\
  ex_toks (lcell ex_c wl3) = [] /\ ex_toks (rcell ex_c wr6) = [] /\
  (* missing join value on the left / on the right *)
  projects ex_c 3 wl4 wr9 py_nan (nth 3 wx_rows []) /\
  l_missing ex_c wl4 = true /\
  projects ex_c 7 wl1 wr9 py_nan (nth 7 wx_rows []) /\
  r_missing ex_c wr9 = true.
Proof.
  split; [exists (cells_list ex_c wl1 wr5); split; vm_compute; reflexivity|].
  split; [exists (cells_list ex_c wl3 wr6); split; vm_compute; reflexivity|].
  split; [reflexivity|]. split; [reflexivity|].
  split; [exists (cells_list ex_c wl4 wr9); split; vm_compute; reflexivity|].
  split; [reflexivity|].
  split; [exists (cells_list ex_c wl1 wr9); split; vm_compute; reflexivity|].
  reflexivity.
Qed.

(* every row, checked by computation: row = [row number] ++ cells_spec (some left row) (some right row) ++ [a float] *)
Definition is_float (v : pyval) : bool := match v with PFloat _ => true | _ => false end.
Definition row_checkb (c : pcase) (lsrc rsrc : list (list pyval)) (ir : nat * list pyval) : bool :=
  let (i, row) := ir in
  existsb (fun l => existsb (fun r =>
    match cells_spec c l r with
    | Some cells =>
        pv_eqb (nth 0 row PNone) (PInt (Z.of_nat i))
        && cells_ok c l r (firstn (List.length cells) (tl row))
        && Nat.eqb (List.length row) (List.length (header_spec c))
        && (if p_score c then is_float (last row PNone) else true)
    | None => false
    end) rsrc) lsrc.
Example wx_rows_check :
  List.length wx_rows = 10%nat /\ forallb (row_checkb ex_c wx_lsrc wx_rsrc) (enumerate wx_rows) = true.
Proof. vm_compute. split; reflexivity. Qed.

(* the keys of the two tables are unique: the source rows of every row are determined by its key cells *)
Definition wx_kz (v : pyval) : Z := match v with PInt z => z | _ => 0 end.
Lemma wx_keys_unique : keys_unique ex_c wx_kz wx_lsrc wx_rsrc.
Proof.
  split; vm_compute; repeat constructor; cbn [In]; intuition discriminate.
Qed.
Example wx_sources_unique :
  forall row, In row wx_rows ->
    exists i lrow rrow s, In lrow wx_lsrc /\ In rrow wx_rsrc /\
      projects ex_c i lrow rrow s row /\ row_reads ex_c i lrow rrow s row /\
      (core_row ex_c 2 4 wx_lsrc wx_rsrc wx_bs (jcd_K ex_c ex_p ">=" true wx_lsrc ex_toks) float_score lrow rrow s
       \/ missing_row ex_c true lrow rrow s) /\
      (forall l' r', In l' wx_lsrc -> In r' wx_rsrc ->
         lkeyz ex_c wx_kz l' = wx_kz (nth 1 row PNone) -> rkeyz ex_c wx_kz r' = wx_kz (nth 2 row PNone) ->
         l' = lrow /\ r' = rrow).
Proof. exact (C11_frame_rows_unique wx_kz _ _ _ _ _ _ _ _ _ _ wx_C11 wx_keys_unique). Qed.

Print Assumptions wx_C11.
Print Assumptions wx_frame.
Print Assumptions wx_three_kinds.
Print Assumptions wx_rows_check.
Print Assumptions wx_sources_unique.
