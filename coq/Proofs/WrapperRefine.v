(* Steps (d)/(e) of the wrapper refinement: the GENERATED public wrappers jaccard_join_rows /
   cosine_join_rows / dice_join_rows (Gen/WrapperGen.v) on two string-labelled frames return

       header  = header_spec c                                   (Spec/ProjSpec.v)
       rows    = numbered (main rows ++ missing-value rows)      (_id = 0, 1, 2, ...)

   where the main rows are the concatenation, chunk by chunk, of rows that are a permutation of
   spec_row applied to the triples of the MODEL core set_sim_join_core on (present left rows, chunk),
   every cell list being the declarative projection cells_spec of the two source rows, and the
   missing-value rows are WrapperRefineMissing.mv_rows (only if allow_missing).

   The chunk boundaries `bs` and the equation for the generated split_table are HYPOTHESES here
   (Hsplit; vacuous when the effective number of jobs is <= 1), so this file is axiom-free; the file
   WrapperRefineClosed.v discharges them with WrapperRefineChunks.split_table_chunks (Reals axioms).  *)
From Coq Require Import ZArith Bool List String Lia Permutation.
From SSJ Require Import F64 PyNum FilterUtilsGen HelperGen TokenOrderingGen ValidationGen IndexGen JoinGen
     TokenOrdering Measures Filters Joins Api Projection ProjSpec IndexPyFacts ProjectionFacts
     JoinGenFacts JoinGenLoop JoinRefine JoinRefineProj SplitFacts Frame WrapperGen WrapperRefineFrame
     WrapperRefineMissing WrapperRefineCore.
Import ListNotations.
Open Scope Z_scope.

Section Wrapper.
  Variables (c : pcase) (p : fparams) (op : string) (ae am : bool) (njobs cpus : Z).
  Variables (lsrc rsrc : list (list pyval)) (showp : pyval).
  Variables (tokenize : pyval -> pyval) (sim_fn : pyval -> pyval -> pyval).
  Variables (toks : pyval -> list Z) (cf : pyval -> pyval -> pyval).
  Variable bs : list (nat * nat).

  Let lpres := lpresent c lsrc.
  Let rpres := rpresent c rsrc.
  (* the effective number of jobs: min(get_num_processes_to_launch(n_jobs), len(rtable_array)) *)
  Definition kjobs : Z := nchunks njobs cpus (List.length rpres).
  (* the chunks of the (present) right rows handed to the core *)
  Definition wchunks : list (list (list pyval)) :=
    if kjobs <=? 1 then [rpres] else map (slice_nat rpres) bs.

  Hypothesis Hwf : well_formed c.
  Hypothesis Hlsrc : forall row, In row lsrc ->
    List.length row = List.length (p_lcols c) /\ ProjSpec.row_ok row.
  Hypothesis Hrsrc : forall row, In row rsrc ->
    List.length row = List.length (p_rcols c) /\ ProjSpec.row_ok row.
  Hypothesis HtokL : forall row, In row lpres ->
    tokenize (cellv (p_lcols c) row (p_ljoin c)) = pints (toks (cellv (p_lcols c) row (p_ljoin c))).
  Hypothesis HtokR : forall row, In row rpres ->
    tokenize (cellv (p_rcols c) row (p_rjoin c)) = pints (toks (cellv (p_rcols c) row (p_rjoin c))).
  Hypothesis Hm : set_measure (fm p).
  Hypothesis Hvt : is_exc (validate_threshold (ft p) (PStr (fm p))) = false.
  Hypothesis Hvop : is_exc (validate_comp_op_for_sim_measure (PStr op) (PStr (fm p))) = false.
  Hypothesis Hvout : is_exc (validate_output_attrs (py_opt_strs (p_lout c)) (py_strs (p_lcols c))
                                                   (py_opt_strs (p_rout c)) (py_strs (p_rcols c))) = false.
  Hypothesis Hop : comp_op_map op = Some cf.
  Hypothesis Hnum : num_of (ft p) <> None.
  Hypothesis Hid : ~ In "_id"%string (mv_header c).
  Hypothesis Hcore : forall ch, In ch wchunks ->
    core_hyps c p ae lsrc sim_fn toks ch.
  (* the generated split_table cuts the projected right array at the boundaries bs (k chunks) *)
  Hypothesis Hsplit : 1 < kjobs ->
    List.length bs = Z.to_nat kjobs /\
    split_table (PList (map PList (project_r c rpres))) (PInt kjobs)
    = PList (map PList (map (slice_nat (map PList (project_r c rpres))) bs)).

  (* the statement, for any of the three generated wrappers W *)
  Definition wrapper_result (W : pyval -> pyval -> pyval -> pyval -> pyval -> pyval -> pyval -> pyval -> pyval ->
                                 pyval -> pyval -> pyval -> pyval -> pyval -> pyval -> pyval -> pyval -> pyval ->
                                 pyval -> (pyval -> pyval) -> (pyval -> pyval -> pyval) -> pyval) : Prop :=
    exists TR : list (list triple * list (list pyval)),
      List.length TR = List.length wchunks /\
      (forall j, (j < List.length wchunks)%nat ->
         let ch := nth j wchunks [] in
         let tr := nth j TR ([], []) in
         set_sim_join_core p op ae (Ltoks c lsrc toks) (Rtoks c toks ch) = Some (fst tr) /\
         Permutation (snd tr) (map (spec_row c lpres ch) (fst tr)) /\
         forall t, In t (fst tr) ->
           exists cells, out_cells c (nth (fst (fst t)) lpres []) (nth (snd (fst t)) ch []) = Some cells /\
                         cells_spec c (nth (fst (fst t)) lpres []) (nth (snd (fst t)) ch []) = Some cells) /\
      W (sframe (p_lcols c) lsrc) (sframe (p_rcols c) rsrc)
        (PStr (p_lkey c)) (PStr (p_rkey c)) (PStr (p_ljoin c)) (PStr (p_rjoin c))
        (ft p) (PStr op) (PBool ae) (PBool am) (py_opt_strs (p_lout c)) (py_opt_strs (p_rout c))
        (PStr (p_lpre c)) (PStr (p_rpre c)) (PBool (p_score c)) (PInt njobs) showp (PInt cpus)
        (PInt (fq p)) tokenize sim_fn
      = sframe (header_spec c)
               (numbered (List.concat (map snd TR) ++ if am then mv_rows c lsrc rsrc else [])).

  (* ---- pieces ---- *)
  Lemma wlshape : shaped (List.length (p_lcols c)) lsrc.
  Proof. intros r Hr. apply Hlsrc. exact Hr. Qed.
  Lemma wrshape : shaped (List.length (p_rcols c)) rsrc.
  Proof. intros r Hr. apply Hrsrc. exact Hr. Qed.

  Lemma convert_l :
    convert_dataframe_to_array (sframe (p_lcols c) lsrc) (l_proj c) (PStr (p_ljoin c)) (PBool true)
    = PList (map PList (project_l c lpres)).
  Proof.
    rewrite l_proj_eq. rewrite convert_dataframe_to_array_eq.
    - reflexivity.
    - exact wlshape.
    - apply (lproj_incl c Hwf).
    - right. left. reflexivity.
  Qed.
  Lemma convert_r :
    convert_dataframe_to_array (sframe (p_rcols c) rsrc) (r_proj c) (PStr (p_rjoin c)) (PBool true)
    = PList (map PList (project_r c rpres)).
  Proof.
    rewrite r_proj_eq. rewrite convert_dataframe_to_array_eq.
    - reflexivity.
    - exact wrshape.
    - apply (rproj_incl c Hwf).
    - right. left. reflexivity.
  Qed.

  Lemma l_proj_not_exc : is_exc (l_proj c) = false.
  Proof. rewrite l_proj_eq. reflexivity. Qed.
  Lemma r_proj_not_exc : is_exc (r_proj c) = false.
  Proof. rewrite r_proj_eq. reflexivity. Qed.

  Lemma njobs_eval :
    py_min (get_num_processes_to_launch_with_cpus (PInt njobs) (PInt cpus))
           (py_len (PList (map PList (project_r c rpres)))) = PInt kjobs.
  Proof.
    rewrite nprocs_eval, py_len_rows. unfold project_r. rewrite map_length.
    rewrite IndexPyFacts.py_min_int. reflexivity.
  Qed.

  (* the tail of every wrapper: missing pairs, concat, _id *)
  Lemma tail_eval (rows : list (list pyval)) : shaped (List.length (mv_header c)) rows ->
    (bindx (PBool am) (fun x_ => x_) (fun c_ =>
       let '(e_, (v_missing_pairs, v_output_table)) :=
         if py_truth c_ then
           bindx (get_pairs_with_missing_value (sframe (p_lcols c) lsrc) (sframe (p_rcols c) rsrc)
                    (PStr (p_lkey c)) (PStr (p_rkey c)) (PStr (p_ljoin c)) (PStr (p_rjoin c))
                    (l_out c) (r_out c) (PStr (p_lpre c)) (PStr (p_rpre c)) (PBool (p_score c)) showp)
                 (fun x_ => (x_, (PExc "UnboundLocalError", sframe (mv_header c) rows)))
                 (fun v_missing_pairs =>
                    bindx (frame_concat (PList [sframe (mv_header c) rows; v_missing_pairs]))
                          (fun x_ => (x_, (v_missing_pairs, sframe (mv_header c) rows)))
                          (fun v_output_table => (PNone, (v_missing_pairs, v_output_table))))
         else (PNone, (PExc "UnboundLocalError", sframe (mv_header c) rows)) in
       bindx e_ (fun e_ => e_) (fun _ =>
         bindx (frame_insert0 v_output_table (PStr "_id") (py_range (PInt 0) (frame_len v_output_table)))
               (fun x_ => x_) (fun v_output_table => v_output_table))))
    = sframe (header_spec c) (numbered (rows ++ if am then mv_rows c lsrc rsrc else [])).
  Proof.
    intros Hs. rewrite (bindx_ok _ (PBool am)) by reflexivity.
    destruct am; cbn [py_truth].
    - rewrite (get_pairs_with_missing_value_eq c lsrc rsrc showp Hwf Hlsrc Hrsrc).
      rewrite (bindx_ok _ (sframe _ _)) by reflexivity.
      change (PList [sframe (mv_header c) rows; sframe (mv_header c) (mv_rows c lsrc rsrc)])
        with (PList (map (sframe (mv_header c)) [rows; mv_rows c lsrc rsrc])).
      rewrite frame_concat_sframes.
      + rewrite (bindx_ok _ (sframe _ _)) by reflexivity. cbv beta iota.
        rewrite (bindx_ok _ PNone) by reflexivity.
        cbn [List.concat]. rewrite app_nil_r.
        rewrite frame_insert0_sframe.
        * rewrite (bindx_ok _ (sframe _ _)) by reflexivity. reflexivity.
        * exact Hid.
        * apply shaped_app; [exact Hs | apply (mv_rows_shaped c lsrc rsrc)].
      + discriminate.
      + intros r [<-|[<-|[]]]; [exact Hs | apply (mv_rows_shaped c lsrc rsrc)].
    - cbv beta iota. rewrite (bindx_ok _ PNone) by reflexivity. rewrite app_nil_r.
      rewrite frame_insert0_sframe by assumption.
      rewrite (bindx_ok _ (sframe _ _)) by reflexivity. reflexivity.
  Qed.

  Lemma wchunks_in ch : In ch wchunks -> forall row, In row ch -> In row rpres.
  Proof.
    unfold wchunks. destruct (kjobs <=? 1).
    - intros [<-|[]] row Hr. exact Hr.
    - intros Hin row Hr. apply in_map_iff in Hin. destruct Hin as (ab & <- & _).
      eapply slice_nat_incl. exact Hr.
  Qed.

  (* the per-chunk refinement, for every chunk and any value of the show_progress argument *)
  Lemma chunk_refines ch sp : In ch wchunks ->
    exists (T : list triple) (rows : list (list pyval)),
      set_sim_join_core p op ae (Ltoks c lsrc toks) (Rtoks c toks ch) = Some T /\
      frame_of_core
        (set_sim_join_rows (PList (map PList (project_l c lpres))) (PList (map PList (project_r c ch)))
           (l_proj c) (r_proj c) (PStr (p_lkey c)) (PStr (p_rkey c)) (PStr (p_ljoin c)) (PStr (p_rjoin c))
           (PStr (fm p)) (ft p) (PStr op) (PBool ae) (l_out c) (r_out c)
           (PStr (p_lpre c)) (PStr (p_rpre c)) (PBool (p_score c)) sp (PInt (fq p)) tokenize sim_fn)
      = sframe (mv_header c) rows /\
      shaped (List.length (mv_header c)) rows /\
      Permutation rows (map (spec_row c lpres ch) T) /\
      forall t, In t T ->
        exists cells, out_cells c (nth (fst (fst t)) lpres []) (nth (snd (fst t)) ch []) = Some cells /\
                      cells_spec c (nth (fst (fst t)) lpres []) (nth (snd (fst t)) ch []) = Some cells.
  Proof.
    intros Hin.
    apply (core_chunk c p op ae lsrc rsrc tokenize sim_fn toks cf Hwf Hlsrc Hrsrc HtokL HtokR Hm Hvt Hop Hnum ch sp).
    - apply wchunks_in. exact Hin.
    - apply Hcore. exact Hin.
  Qed.

  Lemma wchunks_seq : (kjobs <=? 1) = true -> wchunks = [rpres].
  Proof. intros E. unfold wchunks. now rewrite E. Qed.
  Lemma wchunks_par : (kjobs <=? 1) = false -> wchunks = map (slice_nat rpres) bs.
  Proof. intros E. unfold wchunks. now rewrite E. Qed.

  (* the prologue shared by the three wrappers, then the two branches *)
  Ltac prologue :=
    rewrite (frame_columns_sframe (p_lcols c)) by exact wlshape;
    rewrite (frame_columns_sframe (p_rcols c)) by exact wrshape;
    destruct Hwf as [Hlk Hlj Hlo Hrk Hrj Hro];
    rewrite (validate_attr_ok (p_lkey c)) by exact Hlk;
    rewrite (bindx_ok _ (PBool true)) by reflexivity;
    rewrite (validate_attr_ok (p_rkey c)) by exact Hrk;
    rewrite (bindx_ok _ (PBool true)) by reflexivity;
    rewrite (validate_attr_ok (p_ljoin c)) by exact Hlj;
    rewrite (bindx_ok _ (PBool true)) by reflexivity;
    rewrite (validate_attr_ok (p_rjoin c)) by exact Hrj;
    rewrite (bindx_ok _ (PBool true)) by reflexivity;
    rewrite (bindx_ok _ (validate_threshold _ _)) by exact Hvt;
    rewrite (bindx_ok _ (validate_comp_op_for_sim_measure _ _)) by exact Hvop;
    rewrite (bindx_ok _ (validate_output_attrs _ _ _ _)) by exact Hvout;
    change (remove_redundant_attrs (py_opt_strs (p_lout c)) (PStr (p_lkey c))) with (l_out c);
    rewrite (bindx_ok _ (l_out c)) by apply l_out_not_exc;
    change (remove_redundant_attrs (py_opt_strs (p_rout c)) (PStr (p_rkey c))) with (r_out c);
    rewrite (bindx_ok _ (r_out c)) by apply r_out_not_exc;
    change (get_attrs_to_project (l_out c) (PStr (p_lkey c)) (PStr (p_ljoin c))) with (l_proj c);
    rewrite (bindx_ok _ (l_proj c)) by apply l_proj_not_exc;
    change (get_attrs_to_project (r_out c) (PStr (p_rkey c)) (PStr (p_rjoin c))) with (r_proj c);
    rewrite (bindx_ok _ (r_proj c)) by apply r_proj_not_exc;
    rewrite convert_l; rewrite (bindx_ok _ (PList _)) by reflexivity;
    rewrite convert_r; rewrite (bindx_ok _ (PList _)) by reflexivity;
    rewrite njobs_eval; rewrite (bindx_ok _ (PInt kjobs)) by reflexivity;
    rewrite py_le_int; rewrite (bindx_ok _ (PBool _)) by reflexivity.

  Ltac wrapper_proof :=
    unfold wrapper_result;
    pose proof Hwf as Hwf';
    prologue;
    destruct (kjobs <=? 1) eqn:Ek; cbn [py_truth];
    [ (* one call of the core on the whole right array *)
      rewrite (wchunks_seq Ek);
      destruct (chunk_refines rpres showp) as (T & rows & ET & E & Hsh & Perm & Hc);
      [ rewrite (wchunks_seq Ek); left; reflexivity | ];
      rewrite E; rewrite (bindx_ok _ (sframe _ _)) by reflexivity;
      cbv beta iota; rewrite (bindx_ok _ PNone) by reflexivity;
      rewrite (tail_eval rows Hsh);
      exists [(T, rows)]; split; [reflexivity|]; split;
      [ intros j Hj; cbn [List.length] in Hj; assert (j = 0%nat) as -> by lia; cbn [nth fst snd];
        split; [exact ET | split; [exact Perm | exact Hc]]
      | cbn [map snd List.concat]; rewrite app_nil_r; reflexivity ]
    | (* split_table + one core call per chunk + concat *)
      rewrite (wchunks_par Ek);
      pose proof (wchunks_par Ek) as Ewc;
      apply Z.leb_gt in Ek;
      destruct (Hsplit Ek) as [Hbs Esp];
      rewrite Esp; rewrite (bindx_ok _ (PList _)) by reflexivity;
      set (n := List.length bs) in *;
      set (spj := fun j : nat => py_and showp (py_eq (PInt (Z.of_nat j)) (py_sub (PInt kjobs) (PInt 1))));
      destruct (finite_choice
                  (fun j (tr : list triple * list (list pyval)) =>
                     let ch := slice_nat rpres (nth j bs (0%nat, 0%nat)) in
                     set_sim_join_core p op ae (Ltoks c lsrc toks) (Rtoks c toks ch) = Some (fst tr) /\
                     frame_of_core
                       (set_sim_join_rows (PList (map PList (project_l c lpres))) (PList (map PList (project_r c ch)))
                          (l_proj c) (r_proj c) (PStr (p_lkey c)) (PStr (p_rkey c)) (PStr (p_ljoin c)) (PStr (p_rjoin c))
                          (PStr (fm p)) (ft p) (PStr op) (PBool ae) (l_out c) (r_out c)
                          (PStr (p_lpre c)) (PStr (p_rpre c)) (PBool (p_score c)) (spj j) (PInt (fq p)) tokenize sim_fn)
                     = sframe (mv_header c) (snd tr) /\
                     shaped (List.length (mv_header c)) (snd tr) /\
                     Permutation (snd tr) (map (spec_row c lpres ch) (fst tr)) /\
                     forall t, In t (fst tr) ->
                       exists cells, out_cells c (nth (fst (fst t)) lpres []) (nth (snd (fst t)) ch []) = Some cells /\
                                     cells_spec c (nth (fst (fst t)) lpres []) (nth (snd (fst t)) ch []) = Some cells)
                  ([], []) n) as (TR & HlenTR & HTR);
      [ intros j Hj;
        destruct (chunk_refines (slice_nat rpres (nth j bs (0%nat, 0%nat))) (spj j)) as (T & rows & H1 & H2 & H3 & H4 & H5);
        [ rewrite Ewc; apply in_map; apply nth_In; exact Hj | exists (T, rows); cbn [fst snd]; repeat split; assumption ]
      | ];
      rewrite (py_listcomp_range _ kjobs (fun j => sframe (mv_header c) (snd (nth j TR ([], [])))));
      [ | intros j Hj; cbv beta;
          rewrite (getitem_rows_chunk (map (slice_nat (map PList (project_r c rpres))) bs) j)
            by (rewrite map_length; fold n; lia);
          rewrite (nth_indep _ [] (slice_nat (map PList (project_r c rpres)) (0%nat, 0%nat)))
            by (rewrite map_length; fold n; lia);
          rewrite (map_nth (slice_nat (map PList (project_r c rpres))));
          rewrite slice_nat_map; unfold project_r at 1; rewrite slice_nat_map;
          fold (project_r c (slice_nat rpres (nth j bs (0%nat, 0%nat))));
          destruct (HTR j ltac:(lia)) as (_ & H2 & _); exact H2
        | intros j Hj; reflexivity ];
      rewrite (bindx_ok _ (PList _)) by reflexivity;
      rewrite <- Hbs; fold n; rewrite <- HlenTR;
      rewrite <- (map_map (fun j => snd (nth j TR ([], []))) (sframe (mv_header c)));
      assert (Enth : map (fun j => snd (nth j TR ([], []))) (seq 0 (List.length TR)) = map snd TR)
        by (clear; induction TR as [|x l IH] using rev_ind; [reflexivity|];
            rewrite app_length; cbn [List.length]; rewrite Nat.add_1_r, seq_S, !map_app; cbn [map plus];
            rewrite app_nth2 by lia; rewrite Nat.sub_diag; cbn [nth]; f_equal;
            rewrite <- IH; apply map_ext_in; intros j Hj; apply in_seq in Hj; rewrite app_nth1 by lia; reflexivity);
      rewrite Enth;
      rewrite frame_concat_sframes;
      [ | intros Hnil; apply (f_equal (@List.length _)) in Hnil; rewrite map_length, HlenTR in Hnil;
          cbn [List.length] in Hnil; lia
        | intros r Hr; apply in_map_iff in Hr; destruct Hr as (tr & <- & Htr);
          apply (In_nth _ _ ([], [])) in Htr; destruct Htr as (j & Hj & <-);
          destruct (HTR j ltac:(lia)) as (_ & _ & H3 & _); exact H3 ];
      rewrite (bindx_ok _ (sframe _ _)) by reflexivity;
      cbv beta iota; rewrite (bindx_ok _ PNone) by reflexivity;
      rewrite tail_eval;
      [ | intros r Hr; apply in_concat in Hr; destruct Hr as (rs & Hrs & Hr);
          apply in_map_iff in Hrs; destruct Hrs as (tr & <- & Htr);
          apply (In_nth _ _ ([], [])) in Htr; destruct Htr as (j & Hj & <-);
          destruct (HTR j ltac:(lia)) as (_ & _ & H3 & _); apply H3; exact Hr ];
      exists TR; split; [rewrite map_length; exact HlenTR|]; split;
      [ intros j Hj; rewrite map_length in Hj; fold n in Hj; cbv zeta;
        rewrite (nth_indep _ [] (slice_nat rpres (0%nat, 0%nat))) by (rewrite map_length; exact Hj);
        rewrite (map_nth (slice_nat rpres));
        destruct (HTR j Hj) as (H1 & _ & _ & H4 & H5); split; [exact H1 | split; [exact H4 | exact H5]]
      | reflexivity ] ].

  Theorem jaccard_join_rows_refines : fm p = "JACCARD"%string -> wrapper_result jaccard_join_rows.
  Proof using All. intros Hfm. unfold jaccard_join_rows. rewrite <- Hfm. wrapper_proof. Qed.

  Theorem cosine_join_rows_refines : fm p = "COSINE"%string -> wrapper_result cosine_join_rows.
  Proof using All. intros Hfm. unfold cosine_join_rows. rewrite <- Hfm. wrapper_proof. Qed.

  Theorem dice_join_rows_refines : fm p = "DICE"%string -> wrapper_result dice_join_rows.
  Proof using All. intros Hfm. unfold dice_join_rows. rewrite <- Hfm. wrapper_proof. Qed.
End Wrapper.

Print Assumptions jaccard_join_rows_refines.
Print Assumptions cosine_join_rows_refines.
Print Assumptions dice_join_rows_refines.
