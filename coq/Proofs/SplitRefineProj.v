(* The refinement theorems of SplitRefine{OverlapFilter,Ovc,FilterSize,FilterPrefix,FilterPosition,Ed}.v
   instantiated with the projection model (analogue of JoinRefineProj.set_sim_join_rows_refines_proj):
   the callers hand the per-chunk functions the PROJECTED tables ltable[l_proj_attrs].values with
   l_columns := l_proj_attrs and the de-duplicated output attribute lists (Model/Projection.v).
   Then the rows returned are a permutation of
       [ out_cells c (nth i lsrc) (nth j rsrc) ++ [score if score column] | (i, j, score) <- core ]
   (lsrc / rsrc the FULL source rows; out_cells = cells_spec, the declarative projection) and the
   returned header is header_spec without its leading "_id".  Axiom-free.                  *)
From Coq Require Import ZArith Bool List String Lia Permutation.
From SSJ Require Import F64 PyNum FilterUtilsGen HelperGen TokenOrderingGen ValidationGen IndexGen JoinGen
     TokenOrdering Measures Filters Joins Projection ProjSpec ProjectionFacts OrderingFacts OrderingGenFacts
     IndexPyFacts IndexBuildFacts IndexProbeFacts IndexRefine IndexInverted IndexPrefix IndexSize IndexGlue
     JoinGenFacts JoinGenLoop JoinRefine JoinRefineProj SplitRefineBase SplitRefineFilterBase.
Import ListNotations.
Open Scope Z_scope.

(* the row the specification prescribes for a triple; sc = is there a score column *)
Definition pj_spec_row (c : pcase) (lsrc rsrc : list (list pyval)) (sc : bool) (t : triple) : list pyval :=
  let '(i, j, s) := t in
  match out_cells c (nth i lsrc []) (nth j rsrc []) with
  | Some cells => (cells ++ if sc then [s] else [])%list
  | None => []
  end.
Lemma pj_spec_row_score c lsrc rsrc : pj_spec_row c lsrc rsrc (p_score c) = spec_row c lsrc rsrc.
Proof. reflexivity. Qed.

Section ProjGen.
  Variables (c : pcase) (lsrc rsrc : list (list pyval)).
  Let lo := dedupe_out (p_lkey c) (p_lout c).
  Let ro := dedupe_out (p_rkey c) (p_rout c).
  Let lp := proj_list (p_lkey c) (p_ljoin c) lo.
  Let rp := proj_list (p_rkey c) (p_rjoin c) ro.
  Definition pj_lrows : list (list pyval) := map (fun row => map (cellv (p_lcols c) row) lp) lsrc.
  Definition pj_rrows : list (list pyval) := map (fun row => map (cellv (p_rcols c) row) rp) rsrc.
  Definition pj_ki : nat := posn (p_lkey c) lp.
  Definition pj_ji : nat := posn (p_ljoin c) lp.
  Definition pj_li : list nat := map (fun a => posn a lp) lo.
  Definition pj_kj : nat := posn (p_rkey c) rp.
  Definition pj_jj : nat := posn (p_rjoin c) rp.
  Definition pj_ri : list nat := map (fun a => posn a rp) ro.
  Definition pj_has : bool := match p_lout c, p_rout c with None, None => false | _, _ => true end.
  Definition pj_hdr : list pyval :=
    map PStr ((p_lpre c ++ p_lkey c)%string :: (p_rpre c ++ p_rkey c)%string
              :: (map (append (p_lpre c)) lo ++ map (append (p_rpre c)) ro))%list.

  Hypothesis Hwf : well_formed c.
  Hypothesis Hlsrc : forall row, In row lsrc -> List.length row = List.length (p_lcols c) /\ ProjSpec.row_ok row.
  Hypothesis Hrsrc : forall row, In row rsrc -> List.length row = List.length (p_rcols c) /\ ProjSpec.row_ok row.

  (* the attribute-index / header hypotheses of the refinement theorems *)
  Lemma pj_index :
    py_index (l_proj c) (PStr (p_lkey c)) = natpy pj_ki /\
    py_index (l_proj c) (PStr (p_ljoin c)) = natpy pj_ji /\
    find_output_attribute_indices (l_proj c) (l_out c) = PList (map natpy pj_li) /\
    py_index (r_proj c) (PStr (p_rkey c)) = natpy pj_kj /\
    py_index (r_proj c) (PStr (p_rjoin c)) = natpy pj_jj /\
    find_output_attribute_indices (r_proj c) (r_out c) = PList (map natpy pj_ri) /\
    py_or (py_is_not_none (l_out c)) (py_is_not_none (r_out c)) = PBool pj_has /\
    (pj_has = false -> pj_li = [] /\ pj_ri = []) /\
    get_output_header_from_tables (PStr (p_lkey c)) (PStr (p_rkey c)) (l_out c) (r_out c)
                                  (PStr (p_lpre c)) (PStr (p_rpre c)) = PList pj_hdr.
  Proof.
    unfold pj_ki, pj_ji, pj_li, pj_kj, pj_jj, pj_ri, pj_has, pj_hdr.
    repeat split.
    - rewrite l_proj_eq. fold lo lp. apply py_index_strs. left; reflexivity.
    - rewrite l_proj_eq. fold lo lp. apply py_index_strs. right; left; reflexivity.
    - rewrite l_proj_eq, l_out_eq. fold lo lp.
      rewrite find_output_attribute_indices_opt.
      + rewrite opt_list_dedupe_opt, idx_py_map. reflexivity.
      + intros a0 Ha. rewrite opt_list_dedupe_opt in Ha. apply proj_list_In. exact Ha.
    - rewrite r_proj_eq. fold ro rp. apply py_index_strs. left; reflexivity.
    - rewrite r_proj_eq. fold ro rp. apply py_index_strs. right; left; reflexivity.
    - rewrite r_proj_eq, r_out_eq. fold ro rp.
      rewrite find_output_attribute_indices_opt.
      + rewrite opt_list_dedupe_opt, idx_py_map. reflexivity.
      + intros a0 Ha. rewrite opt_list_dedupe_opt in Ha. apply proj_list_In. exact Ha.
    - exact (has_eq c lsrc rsrc).
    - unfold lo. destruct (p_lout c), (p_rout c); try discriminate. reflexivity.
    - unfold ro. destruct (p_lout c), (p_rout c); try discriminate. reflexivity.
    - rewrite l_out_eq, r_out_eq, get_output_header_from_tables_opt, !opt_list_dedupe_opt. reflexivity.
  Qed.

  Lemma pj_lrows_ok r : In r pj_lrows -> cols_ok pj_ki pj_ji pj_li r.
  Proof. exact (lrows_ok c lsrc Hwf Hlsrc r). Qed.
  Lemma pj_rrows_ok r : In r pj_rrows -> cols_ok pj_kj pj_jj pj_ri r.
  Proof. exact (rrows_ok c rsrc Hwf Hrsrc r). Qed.

  (* facts about the join / filter cells transfer from the source rows to the projected rows *)
  Lemma pj_cell_l (P : pyval -> Prop) :
    (forall row, In row lsrc -> P (cellv (p_lcols c) row (p_ljoin c))) ->
    forall r, In r pj_lrows -> P (nth pj_ji r PNone).
  Proof.
    intros H r Hr. apply in_map_iff in Hr. destruct Hr as (row & <- & Hrow).
    unfold pj_ji. fold lo lp. unfold lp, lo. rewrite join_cell_l. apply H. exact Hrow.
  Qed.
  Lemma pj_cell_r (P : pyval -> Prop) :
    (forall row, In row rsrc -> P (cellv (p_rcols c) row (p_rjoin c))) ->
    forall r, In r pj_rrows -> P (nth pj_jj r PNone).
  Proof.
    intros H r Hr. apply in_map_iff in Hr. destruct Hr as (row & <- & Hrow).
    unfold pj_jj. fold ro rp. unfold rp, ro. rewrite join_cell_r. apply H. exact Hrow.
  Qed.
  Lemma pj_map_l {A} (g : pyval -> A) :
    map (fun r : list pyval => g (nth pj_ji r PNone)) pj_lrows
    = map (fun row => g (cellv (p_lcols c) row (p_ljoin c))) lsrc.
  Proof.
    unfold pj_lrows. rewrite map_map. apply map_ext. intros row.
    unfold pj_ji, lp, lo. now rewrite join_cell_l.
  Qed.
  Lemma pj_map_r {A} (g : pyval -> A) :
    map (fun r : list pyval => g (nth pj_jj r PNone)) pj_rrows
    = map (fun row => g (cellv (p_rcols c) row (p_rjoin c))) rsrc.
  Proof.
    unfold pj_rrows. rewrite map_map. apply map_ext. intros row.
    unfold pj_jj, rp, ro. now rewrite join_cell_r.
  Qed.

  Lemma pj_header :
    py_insert0 (PList (pj_hdr ++ if p_score c then [PStr "_sim_score"%string] else [])%list) (PStr "_id"%string)
    = py_strs (header_spec c).
  Proof.
    unfold header_spec, py_strs, pj_hdr. fold lo ro.
    destruct (p_score c); cbn [py_insert0 strict2].
    - change [PStr "_sim_score"%string] with (map PStr ["_sim_score"%string]).
      rewrite <- map_app. cbn [map app]. rewrite <- app_assoc. reflexivity.
    - rewrite !app_nil_r. reflexivity.
  Qed.
  Lemma pj_header_noscore : p_score c = false ->
    py_insert0 (PList pj_hdr) (PStr "_id"%string) = py_strs (header_spec c).
  Proof. intros E. rewrite <- pj_header, E, app_nil_r. reflexivity. Qed.

  (* rows of triples: from the projected tables to the source rows *)
  Lemma pj_rows (sc : bool) (T : list triple) (rows : list (list pyval)) :
    (forall tr, In tr T -> (fst (fst tr) < List.length pj_lrows)%nat /\ (snd (fst tr) < List.length pj_rrows)%nat) ->
    Permutation rows (map (triple_row sc pj_lrows pj_rrows pj_ki pj_kj pj_li pj_ri) T) ->
    Permutation rows (map (pj_spec_row c lsrc rsrc sc) T) /\
    forall t, In t T ->
      exists cells, out_cells c (nth (fst (fst t)) lsrc []) (nth (snd (fst t)) rsrc []) = Some cells /\
                    cells_spec c (nth (fst (fst t)) lsrc []) (nth (snd (fst t)) rsrc []) = Some cells.
  Proof.
    intros Hb Perm.
    assert (Elen_l : List.length pj_lrows = List.length lsrc) by (unfold pj_lrows; apply map_length).
    assert (Elen_r : List.length pj_rrows = List.length rsrc) by (unfold pj_rrows; apply map_length).
    split.
    - replace (map (pj_spec_row c lsrc rsrc sc) T)
        with (map (triple_row sc pj_lrows pj_rrows pj_ki pj_kj pj_li pj_ri) T); [exact Perm|].
      apply map_ext_in. intros [[i j] sv] Ht. destruct (Hb _ Ht) as [Hi Hj]. cbn [fst snd] in Hi, Hj.
      unfold pj_spec_row, triple_row.
      rewrite (cells_of_triple c lsrc rsrc Hwf Hlsrc Hrsrc i j) by lia. reflexivity.
    - intros [[i j] sv] Ht. destruct (Hb _ Ht) as [Hi Hj]. cbn [fst snd] in *.
      assert (Hi' : (i < List.length lsrc)%nat) by lia. assert (Hj' : (j < List.length rsrc)%nat) by lia.
      destruct (Hlsrc (nth i lsrc []) (nth_In _ _ Hi')) as [Hll Hlok].
      destruct (Hrsrc (nth j rsrc []) (nth_In _ _ Hj')) as [Hrl Hrok].
      destruct (out_cells_correct c _ _ Hwf Hll Hrl Hlok Hrok) as [E (cells & Ec)].
      exists cells. split; [rewrite E; exact Ec | exact Ec].
  Qed.
End ProjGen.

Print Assumptions pj_index.
Print Assumptions pj_rows.
