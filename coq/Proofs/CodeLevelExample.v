(* The hypotheses of the code-level theorem C01_C02_code_jaccard (CodeLevelJoins.v) are jointly satisfiable:
   the concrete call of WrapperRefineExample.v (two jobs, missing join values on both sides, allow_missing,
   allow_empty, a repeated output attribute) satisfies jcd_e2e_hyps and jcd_extra_hyps; the theorem then
   applies, and its conclusion is also checked by computing the frame the GENERATED jaccard_join_rows
   returns and evaluating the four boolean specifications on the key-level view of its rows.            *)
From Coq Require Import ZArith Bool List String Lia Permutation.
From SSJ Require Import F64 PyNum FilterUtilsGen HelperGen TokenOrderingGen ValidationGen IndexGen JoinGen
     TokenOrdering Measures Filters Joins Api JoinSpec MetaSpec Projection ProjSpec ProjectionFacts
     IndexPyFacts JoinGenFacts JoinGenLoop JoinRefine JoinRefineProj JoinRefineExample SplitFacts
     Frame WrapperGen WrapperRefineFrame WrapperRefineMissing WrapperRefineCore WrapperRefine WrapperRefineApi
     WrapperRefineExample CodeLevelBase CodeLevelJoins.
Import ListNotations.
Open Scope Z_scope.

Definition ex_kz (v : pyval) : Z := match v with PInt z => z | _ => 0 end.

Ltac nodup_z := repeat (constructor; [cbn; intuition discriminate|]); constructor.

Example code_jaccard_e2e_hyps : jcd_e2e_hyps ex_c ex_p ">=" wx_lsrc wx_rsrc ex_tokenize ex_toks py_ge.
Proof.
  split; [apply well_formedb_sound; reflexivity|].
  split; [intros row [<- | [<- | [<- | [<- | []]]]]; (split; [reflexivity | apply row_okb_sound; reflexivity])|].
  split; [intros row [<- | [<- | [<- | [<- | []]]]]; (split; [reflexivity | apply row_okb_sound; reflexivity])|].
  split; [intros row _; reflexivity|]. split; [intros row _; reflexivity|].
  split; [left; reflexivity|].
  split; [reflexivity|]. split; [reflexivity|]. split; [reflexivity|]. split; [reflexivity|].
  intros H. vm_compute in H. repeat (destruct H as [H|H]; [discriminate H|]). exact H.
Qed.

Example code_jaccard_extra_hyps : jcd_extra_hyps ex_c ex_p 4 wx_lsrc wx_rsrc ex_sim ex_toks ex_kz.
Proof.
  split; [intros x y; unfold ex_sim; now rewrite !ints_of_pints|].
  split; [exists (mkF 1 (-1)); split; [reflexivity | vm_compute; reflexivity]|].
  split.
  - split; [lia|]. split; [vm_compute; reflexivity|]. split; [vm_compute; reflexivity|].
    split; vm_compute; nodup_z.
  - split; intros row Hr; vm_compute in Hr;
      repeat (destruct Hr as [<- | Hr]; [split; [vm_compute; nodup_z | vm_compute; reflexivity]|]); destruct Hr.
Qed.

(* the theorem applies *)
Example code_jaccard_instance :
  code_join_conclusion ex_c true wx_lsrc wx_rsrc ex_kz
    (jcd_jcase ex_c ex_p ">=" true true 2 4 wx_lsrc wx_rsrc ex_toks ex_kz)
    (jcd_call ex_c ex_p ">=" true true 2 4 wx_lsrc wx_rsrc (PBool false) ex_tokenize ex_sim jaccard_join_rows).
Proof.
  exact (C01_C02_code_jaccard ex_c ex_p ">=" true true 2 4 wx_lsrc wx_rsrc (PBool false) ex_tokenize ex_sim
           ex_toks py_ge ex_kz code_jaccard_e2e_hyps code_jaccard_extra_hyps eq_refl).
Qed.

(* ... and, independently, by computation on the frame the generated wrapper returns *)
Definition frame_rows (v : pyval) : list (list pyval) :=
  match v with
  | PTuple [PList rows; _] => map (fun r => match r with PList cells => cells | _ => [] end) rows
  | _ => []
  end.
Definition ex_frame : pyval :=
  jcd_call ex_c ex_p ">=" true true 2 4 wx_lsrc wx_rsrc (PBool false) ex_tokenize ex_sim jaccard_join_rows.
Definition ex_obs : list Api.out_row := map (kview ex_c ex_kz) (map (@tl pyval) (frame_rows ex_frame)).
Definition ex_case : jcase := jcd_jcase ex_c ex_p ">=" true true 2 4 wx_lsrc wx_rsrc ex_toks ex_kz.

Example code_jaccard_computed :
  complete_spec ex_case ex_obs && sound_spec ex_case ex_obs && missing_spec ex_case ex_obs &&
  empty_spec ex_case ex_obs && ids_ok (map id_of (frame_rows ex_frame)) &&
  negb (Nat.eqb (List.length ex_obs) 0) = true.
Proof. vm_compute. reflexivity. Qed.

Eval vm_compute in ex_obs.

Print Assumptions code_jaccard_e2e_hyps.
Print Assumptions code_jaccard_extra_hyps.
Print Assumptions code_jaccard_instance.
Print Assumptions code_jaccard_computed.
