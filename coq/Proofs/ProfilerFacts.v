(* C17 (profiler): comment selection and counts of Model/Profiler.v satisfy Spec/ProfilerSpec.v.
   Lists / Z only: axiom-free.  The percentage bound is in Proofs/ProfilerPercent.v.          *)
From Coq Require Import ZArith Bool List String SpecFloat Lia.
From SSJ Require Import F64 PyNum Profiler ProfilerSpec.
Import ListNotations.
Open Scope Z_scope.

(* ------------------------------------------------------------------ *)
(** * 1. Comments                                                       *)

Lemma comment_of_key : forall n u m, comment_of n u m = CmtKey <-> (u = n /\ m = 0).
Proof.
intros n u m. unfold comment_of.
destruct (Z.eqb u n && Z.eqb m 0) eqn:Ek.
- apply andb_prop in Ek. destruct Ek as [Eu Em].
  apply Z.eqb_eq in Eu. apply Z.eqb_eq in Em. split; intros _; [now split | reflexivity].
- split.
  + intros H. destruct (Z.ltb 0 m); discriminate.
  + intros [Hu Hm]. subst u m. rewrite Z.eqb_refl in Ek. cbn in Ek. discriminate.
Qed.

Lemma comment_of_warn : forall n u m, 0 <= m -> (comment_of n u m = CmtMissing <-> m > 0).
Proof.
intros n u m Hm. unfold comment_of.
destruct (Z.eqb u n && Z.eqb m 0) eqn:Ek.
- apply andb_prop in Ek. destruct Ek as [_ Em]. apply Z.eqb_eq in Em.
  split; intros H; [discriminate | lia].
- destruct (Z.ltb 0 m) eqn:Elt.
  + apply Z.ltb_lt in Elt. split; intros _; [lia | reflexivity].
  + apply Z.ltb_ge in Elt. split; intros H; [discriminate | lia].
Qed.

Theorem C17_comments : C17_comments_stmt.
Proof.
intros n u m (Hn & Hm & Hu). cbn zeta. unfold profile_counts. cbn [p_cmt].
split; [apply comment_of_key | apply comment_of_warn; lia].
Qed.

(* the same facts in the boolean form evaluated on observed behaviour *)
Theorem C17_comments_b : forall n u m, 0 <= m ->
  spec_key n u m (p_cmt (profile_counts n u m)) = true /\
  spec_warn n u m (p_cmt (profile_counts n u m)) = true.
Proof.
intros n u m Hm. unfold profile_counts, spec_key, spec_warn. cbn [p_cmt].
unfold comment_of.
destruct (Z.eqb u n && Z.eqb m 0) eqn:Ek.
- cbn [is_key is_warn]. split; [reflexivity | ].
  apply andb_prop in Ek. destruct Ek as [_ Em]. apply Z.eqb_eq in Em. subst m. reflexivity.
- destruct (Z.ltb 0 m) eqn:Elt; cbn [is_key is_warn]; split; reflexivity.
Qed.

(* the percentages cannot replace the counts: with 20001 rows one duplicate (or one missing
   value) is invisible after rounding to two decimals *)
Theorem C17_pct_not_decisive :
  exists n u m, counts_range n u m /\ u < n /\ m = 0 /\
                pct u n = pct n n /\ pct 1 n = pct 0 n.
Proof.
exists 20001, 20000, 0. unfold counts_range.
repeat split; try lia; vm_compute; reflexivity.
Qed.

(* ------------------------------------------------------------------ *)
(** * 2. Counts                                                         *)

Lemma oz_eqb_eq : forall a b, oz_eqb a b = true <-> a = b.
Proof.
intros [x|] [y|]; cbn [oz_eqb]; split; intros H; try discriminate; try reflexivity.
- apply Z.eqb_eq in H. now subst.
- inversion H. apply Z.eqb_refl.
Qed.

Lemma dedup_In : forall col x, In x (dedup col) <-> In x col.
Proof.
induction col as [|a col IH]; intros x; cbn [dedup].
- reflexivity.
- cbn [In]. rewrite filter_In, IH. split.
  + intros [H | [H _]]; [left | right]; assumption.
  + intros [H | H]; [left; assumption | ].
    destruct (oz_eqb a x) eqn:E.
    * left. now apply oz_eqb_eq.
    * right. split; [assumption | reflexivity].
Qed.

Lemma NoDup_filter : forall (A : Type) (f : A -> bool) l, NoDup l -> NoDup (filter f l).
Proof.
intros A f l H. induction H as [|a l Hn Hd IH]; cbn [filter].
- constructor.
- destruct (f a); [ | assumption]. constructor; [ | assumption].
  intros Hin. apply filter_In in Hin. apply Hn. apply Hin.
Qed.

Lemma dedup_NoDup : forall col, NoDup (dedup col).
Proof.
induction col as [|a col IH]; cbn [dedup].
- constructor.
- constructor.
  + intros Hin. apply filter_In in Hin. destruct Hin as [_ H].
    assert (E : oz_eqb a a = true) by now apply oz_eqb_eq.
    rewrite E in H. discriminate.
  + now apply NoDup_filter.
Qed.

Lemma missing_count_occ : forall col,
  List.length (filter is_missing col) = count_occ oz_dec col None.
Proof.
induction col as [|a col IH]; cbn [filter count_occ]; [reflexivity | ].
destruct a as [x|]; cbn [is_missing].
- destruct (oz_dec (Some x) None) as [E|_]; [discriminate | exact IH].
- destruct (oz_dec None None) as [_|E]; [cbn [List.length]; now rewrite IH | contradiction].
Qed.

Theorem C17_counts : C17_counts_stmt.
Proof.
intros nrows col. unfold profile_column, profile_counts. cbn [p_u p_m]. split.
- exists (dedup col). split; [apply dedup_NoDup | ]. split; [apply dedup_In | reflexivity].
- unfold missing_count, n_missing. now rewrite missing_count_occ.
Qed.

(* the distinct count is unique: any duplicate-free enumeration of the column's values has the
   same length, in particular the standard library's nodup *)
Lemma distinct_count_unique : forall col u v,
  distinct_count col u -> distinct_count col v -> u = v.
Proof.
intros col u v (l1 & N1 & I1 & ->) (l2 & N2 & I2 & ->). f_equal.
apply Nat.le_antisymm; apply NoDup_incl_length; try assumption;
  intros x Hx; [apply I2, I1 | apply I1, I2]; exact Hx.
Qed.

Theorem n_unique_spec : forall col, n_unique col = spec_unique col.
Proof.
intros col. apply (distinct_count_unique col).
- exists (dedup col). split; [apply dedup_NoDup | ]. split; [apply dedup_In | reflexivity].
- exists (nodup oz_dec col). split; [apply NoDup_nodup | ]. split; [apply nodup_In | reflexivity].
Qed.

Theorem n_missing_spec : forall col, n_missing col = spec_missing col.
Proof. intros col. unfold n_missing, spec_missing. now rewrite missing_count_occ. Qed.

(* the counts of a real (non-empty) column are in the range the comment theorem is stated for *)
Lemma filter_length_le : forall (A : Type) (f : A -> bool) l,
  (List.length (filter f l) <= List.length l)%nat.
Proof.
intros A f l. induction l as [|a l IH]; cbn [filter List.length]; [lia | ].
destruct (f a); cbn [List.length]; lia.
Qed.

Lemma dedup_length_le : forall col, (List.length (dedup col) <= List.length col)%nat.
Proof.
induction col as [|a col IH]; cbn [dedup List.length]; [lia | ].
pose proof (filter_length_le _ (fun y => negb (oz_eqb a y)) (dedup col)). lia.
Qed.

Theorem column_counts_range : forall col,
  col <> [] -> Z.of_nat (List.length col) < 2 ^ 31 ->
  counts_range (Z.of_nat (List.length col)) (n_unique col) (n_missing col).
Proof.
intros col Hne Hlen. unfold counts_range, n_unique, n_missing.
pose proof (dedup_length_le col) as H1.
pose proof (filter_length_le _ is_missing col) as H2.
destruct col as [|a col]; [contradiction | ].
cbn [dedup List.length] in *. lia.
Qed.

(* counts + comments for a whole column, boolean form *)
Theorem C17_column_b : forall col,
  let n := Z.of_nat (List.length col) in
  let r := profile_column n col in
  spec_counts (spec_unique col) (spec_missing col) (p_u r) (p_m r) = true /\
  spec_key n (spec_unique col) (spec_missing col) (p_cmt r) = true /\
  spec_warn n (spec_unique col) (spec_missing col) (p_cmt r) = true.
Proof.
intros col n r. subst r. unfold profile_column.
rewrite n_unique_spec, n_missing_spec.
assert (Hm : 0 <= spec_missing col) by (unfold spec_missing; lia).
destruct (C17_comments_b n (spec_unique col) (spec_missing col) Hm) as [Hk Hw].
split; [ | split; assumption].
unfold spec_counts, profile_counts. cbn [p_u p_m]. now rewrite !Z.eqb_refl.
Qed.

Print Assumptions C17_comments.
Print Assumptions C17_comments_b.
Print Assumptions C17_pct_not_decisive.
Print Assumptions C17_counts.
Print Assumptions n_unique_spec.
Print Assumptions n_missing_spec.
Print Assumptions column_counts_range.
Print Assumptions C17_column_b.
