(* Step (c) of the wrapper refinement: the GENERATED get_pairs_with_missing_value
   (Gen/WrapperGen.v, from utils/missing_value_handler.py over the frame primitives) returns the
   frame whose header is header_spec without "_id" and whose rows are, in order,

       [ cells l r ++ [NaN if out_sim_score] | l <- rows of ltable with a MISSING join value,
                                                r <- ALL rows of rtable ]
    ++ [ cells l r ++ [NaN if out_sim_score] | r <- rows of rtable with a MISSING join value,
                                                l <- rows of ltable with a PRESENT join value ]

   where cells l r = ProjectionFacts.cells_list c l r = out_cells_mv c l r = cells_spec c l r
   (the declarative projection of the two source rows).  This is Model/Api.v `missing_pairs` with the
   projected cells attached.  Axiom-free.                                                        *)
From Coq Require Import ZArith Bool List String Lia.
From SSJ Require Import F64 PyNum HelperGen IndexPyFacts Projection ProjSpec ProjectionFacts JoinGenFacts
     Frame WrapperGen WrapperRefineFrame.
Import ListNotations.
Open Scope Z_scope.

Lemma py_list_strs l : py_list (py_strs l) = py_strs l.
Proof. reflexivity. Qed.

Lemma fold_left_app_flat {A B} (g : B -> list A) : forall (l : list B) (acc : list A),
  fold_left (fun a b => (a ++ g b)%list) l acc = (acc ++ flat_map g l)%list.
Proof.
  induction l as [|b l IH]; intros acc; cbn [fold_left flat_map]; [now rewrite app_nil_r|].
  rewrite IH. now rewrite app_assoc.
Qed.

Lemma fold_left_snoc {A B} (g : B -> A) : forall (l : list B) (acc : list A),
  fold_left (fun a b => (a ++ [g b])%list) l acc = (acc ++ map g l)%list.
Proof.
  induction l as [|b l IH]; intros acc; cbn [fold_left map]; [now rewrite app_nil_r|].
  rewrite IH. now rewrite <- app_assoc.
Qed.

Section Missing.
  Variables (c : pcase) (lsrc rsrc : list (list pyval)) (showp : pyval).
  Hypothesis Hwf : well_formed c.
  Hypothesis Hlsrc : forall row, In row lsrc ->
    List.length row = List.length (p_lcols c) /\ ProjSpec.row_ok row.
  Hypothesis Hrsrc : forall row, In row rsrc ->
    List.length row = List.length (p_rcols c) /\ ProjSpec.row_ok row.

  Let lo := dedupe_out (p_lkey c) (p_lout c).
  Let ro := dedupe_out (p_rkey c) (p_rout c).
  Let ki := posn (p_lkey c) (p_lcols c).
  Let kj := posn (p_rkey c) (p_rcols c).
  Let li := map (fun a => posn a (p_lcols c)) lo.
  Let ri := map (fun a => posn a (p_rcols c)) ro.
  Let has := match p_lout c, p_rout c with None, None => false | _, _ => true end.

  Definition l_missing (row : list pyval) : bool := cell_missing (cellv (p_lcols c) row (p_ljoin c)).
  Definition r_missing (row : list pyval) : bool := cell_missing (cellv (p_rcols c) row (p_rjoin c)).

  (* one row of the missing-value part *)
  Definition mv_row (lrow rrow : list pyval) : list pyval :=
    (cells_list c lrow rrow ++ if p_score c then [py_nan] else [])%list.

  Definition mv_rows : list (list pyval) :=
    (flat_map (fun l => map (fun r => mv_row l r) rsrc) (filter l_missing lsrc)
     ++ flat_map (fun r => map (fun l => mv_row l r) (filter (fun l => negb (l_missing l)) lsrc))
                 (filter r_missing rsrc))%list.

  (* header_spec without its leading "_id" *)
  Definition mv_header : list string :=
    ((p_lpre c ++ p_lkey c)%string :: (p_rpre c ++ p_rkey c)%string
     :: (map (append (p_lpre c)) lo ++ map (append (p_rpre c)) ro
         ++ (if p_score c then ["_sim_score"%string] else []))%list).

  Lemma mv_header_spec : header_spec c = "_id"%string :: mv_header.
  Proof. reflexivity. Qed.

  Lemma lshape : shaped (List.length (p_lcols c)) lsrc.
  Proof. intros r Hr. apply Hlsrc. exact Hr. Qed.
  Lemma rshape : shaped (List.length (p_rcols c)) rsrc.
  Proof. intros r Hr. apply Hrsrc. exact Hr. Qed.

  Lemma li_lt (lrow : list pyval) : List.length lrow = List.length (p_lcols c) -> forall n, In n li -> (n < List.length lrow)%nat.
  Proof.
    destruct Hwf as [_ _ Hlo _ _ _]. intros Hl n Hn. apply in_map_iff in Hn. destruct Hn as (a & <- & Ha).
    rewrite Hl. apply posn_lt. apply Hlo. eapply dedupe_out_incl. exact Ha.
  Qed.
  Lemma ri_lt (rrow : list pyval) : List.length rrow = List.length (p_rcols c) -> forall n, In n ri -> (n < List.length rrow)%nat.
  Proof.
    destruct Hwf as [_ _ _ _ _ Hro]. intros Hl n Hn. apply in_map_iff in Hn. destruct Hn as (a & <- & Ha).
    rewrite Hl. apply posn_lt. apply Hro. eapply dedupe_out_incl. exact Ha.
  Qed.

  Lemma cells_list_idx lrow rrow :
    cells_list c lrow rrow
    = (nth ki lrow PNone :: nth kj rrow PNone
       :: (map (fun n => nth n lrow PNone) li ++ map (fun n => nth n rrow PNone) ri))%list.
  Proof. unfold cells_list, cellv, li, ri. fold lo ro. rewrite !map_map. reflexivity. Qed.

  (* the row built from two itertuples rows, with and without output attributes *)
  Lemma row_has lrow rrow : In lrow lsrc -> In rrow rsrc ->
    get_output_row_from_tables (PTuple lrow) (PTuple rrow) (natpy ki) (natpy kj)
                               (PList (map natpy li)) (PList (map natpy ri))
    = PList (cells_list c lrow rrow).
  Proof.
    intros Hl Hr. destruct (Hlsrc _ Hl) as [Hll Hlok]. destruct (Hrsrc _ Hr) as [Hrl Hrok].
    destruct Hwf as [Hlk _ _ Hrk _ _].
    rewrite (get_output_row_from_tables_idx (PTuple lrow) lrow (PTuple rrow) rrow).
    - now rewrite cells_list_idx.
    - apply getrow_tuple.
    - apply getrow_tuple.
    - exact Hlok.
    - exact Hrok.
    - rewrite Hll. apply posn_lt. exact Hlk.
    - rewrite Hrl. apply posn_lt. exact Hrk.
    - apply li_lt. exact Hll.
    - apply ri_lt. exact Hrl.
  Qed.

  Lemma row_nohas lrow rrow : In lrow lsrc -> In rrow rsrc -> has = false ->
    py_getitem (PTuple lrow) (natpy ki) = nth ki lrow PNone /\
    py_getitem (PTuple rrow) (natpy kj) = nth kj rrow PNone /\
    is_exc (nth ki lrow PNone) = false /\ is_exc (nth kj rrow PNone) = false /\
    cells_list c lrow rrow = [nth ki lrow PNone; nth kj rrow PNone].
  Proof.
    intros Hl Hr Hh. destruct (Hlsrc _ Hl) as [Hll Hlok]. destruct (Hrsrc _ Hr) as [Hrl Hrok].
    destruct Hwf as [Hlk _ _ Hrk _ _].
    assert (Hki : (ki < List.length lrow)%nat) by (rewrite Hll; apply posn_lt; exact Hlk).
    assert (Hkj : (kj < List.length rrow)%nat) by (rewrite Hrl; apply posn_lt; exact Hrk).
    repeat split.
    - apply getrow_tuple. exact Hki.
    - apply getrow_tuple. exact Hkj.
    - apply row_nth_ok; assumption.
    - apply row_nth_ok; assumption.
    - rewrite cells_list_idx. unfold li, ri, lo, ro, has in *.
      destruct (p_lout c), (p_rout c); try discriminate. reflexivity.
  Qed.

  Lemma has_eq : py_or (py_is_not_none (l_out c)) (py_is_not_none (r_out c)) = PBool has.
  Proof. rewrite l_out_eq, r_out_eq. unfold has. destruct (p_lout c), (p_rout c); reflexivity. Qed.

  Lemma has_eq2 : py_or (py_is_not_none (py_opt_strs (dedupe_opt (p_lkey c) (p_lout c))))
                        (py_is_not_none (py_opt_strs (dedupe_opt (p_rkey c) (p_rout c)))) = PBool has.
  Proof. rewrite <- l_out_eq, <- r_out_eq. apply has_eq. Qed.

  Lemma mv_row_length lrow rrow : List.length (mv_row lrow rrow) = List.length mv_header.
  Proof.
    unfold mv_row, mv_header, cells_list. fold lo ro. cbn [List.length].
    rewrite !app_length. cbn [List.length]. rewrite !app_length, !map_length.
    destruct (p_score c); cbn [List.length]; lia.
  Qed.

  Lemma mv_rows_shaped : shaped (List.length mv_header) mv_rows.
  Proof.
    intros r Hr. unfold mv_rows in Hr. apply in_app_or in Hr. destruct Hr as [Hr|Hr];
      apply in_flat_map in Hr; destruct Hr as (x & _ & Hr); apply in_map_iff in Hr;
      destruct Hr as (y & <- & _); apply mv_row_length.
  Qed.

  Definition Iout (acc : list (list pyval)) (s : pyval * (pyval * (pyval * pyval))) : Prop :=
    exists t1 t2, s = (PNone, (t1, (t2, PList (map PList acc)))).
  Definition Iin (acc : list (list pyval)) (s : pyval * (pyval * pyval)) : Prop :=
    exists t, s = (PNone, (t, PList (map PList acc))).

  (* one execution of the innermost body, after the row has been chosen *)
  Ltac inner_step Hl Hr :=
    cbv beta iota; cbn [bindx py_truth]; unfold mv_row;
    let Hh := fresh "Hh" in
    destruct has eqn:Hh; cbn [py_truth];
    [ rewrite (row_has _ _ Hl Hr); cbn [bindx]
    | let G1 := fresh in let G2 := fresh in let O1 := fresh in let O2 := fresh in let E := fresh in
      destruct (row_nohas _ _ Hl Hr Hh) as (G1 & G2 & O1 & O2 & E);
      rewrite G1, G2; cbn [bindx]; rewrite E ];
    (destruct (p_score c); cbn [py_truth bindx];
     [ rewrite py_append_ok by reflexivity; cbn [bindx]; rewrite append_rows; cbn [bindx]
     | rewrite append_rows, ?app_nil_r; cbn [bindx] ]);
    eexists; reflexivity.

  Theorem get_pairs_with_missing_value_eq :
    get_pairs_with_missing_value (sframe (p_lcols c) lsrc) (sframe (p_rcols c) rsrc)
        (PStr (p_lkey c)) (PStr (p_rkey c)) (PStr (p_ljoin c)) (PStr (p_rjoin c))
        (l_out c) (r_out c) (PStr (p_lpre c)) (PStr (p_rpre c)) (PBool (p_score c)) showp
    = sframe mv_header mv_rows.
  Proof.
    pose proof lshape as HLs. pose proof rshape as HRs.
    destruct Hwf as [Hlk Hlj Hlo Hrk Hrj Hro].
    unfold get_pairs_with_missing_value.
    rewrite l_out_eq, r_out_eq.
    rewrite (frame_columns_sframe (p_lcols c)) by assumption. rewrite py_list_strs.
    rewrite (bindx_ok _ (py_strs (p_lcols c))) by reflexivity.
    rewrite (py_index_strs (p_lcols c) (p_lkey c)) by assumption.
    rewrite (bindx_ok _ (idx_py _ _)) by reflexivity.
    rewrite (py_index_strs (p_lcols c) (p_ljoin c)) by assumption.
    rewrite (bindx_ok _ (idx_py _ _)) by reflexivity.
    rewrite (find_output_attribute_indices_opt (p_lcols c))
      by (intros a Ha; rewrite opt_list_dedupe_opt in Ha; apply Hlo; eapply dedupe_out_incl; exact Ha).
    rewrite (bindx_ok _ (PList _)) by reflexivity.
    rewrite (frame_columns_sframe (p_rcols c)) by assumption. rewrite py_list_strs.
    rewrite (bindx_ok _ (py_strs (p_rcols c))) by reflexivity.
    rewrite (py_index_strs (p_rcols c) (p_rkey c)) by assumption.
    rewrite (bindx_ok _ (idx_py _ _)) by reflexivity.
    rewrite (py_index_strs (p_rcols c) (p_rjoin c)) by assumption.
    rewrite (bindx_ok _ (idx_py _ _)) by reflexivity.
    rewrite (find_output_attribute_indices_opt (p_rcols c))
      by (intros a Ha; rewrite opt_list_dedupe_opt in Ha; apply Hro; eapply dedupe_out_incl; exact Ha).
    rewrite (bindx_ok _ (PList _)) by reflexivity.
    rewrite !opt_list_dedupe_opt. fold lo ro.
    rewrite (frame_mask_isnull (p_lcols c)) by assumption.
    rewrite (bindx_ok _ (sframe _ _)) by reflexivity.
    rewrite (frame_mask_notnull (p_lcols c)) by assumption.
    rewrite (bindx_ok _ (sframe _ _)) by reflexivity.
    rewrite (frame_mask_isnull (p_rcols c)) by assumption.
    rewrite (bindx_ok _ (sframe _ _)) by reflexivity.
    cbv zeta.
    rewrite has_eq2.
    rewrite (bindx_ok _ (PBool has)) by reflexivity.
    fold l_missing r_missing.
    rewrite !frame_itertuples_sframe by (try apply shaped_filter; assumption).
    rewrite !idx_py_map. change (idx_py (p_lcols c) (p_lkey c)) with (natpy ki).
    change (idx_py (p_rcols c) (p_rkey c)) with (natpy kj).
    fold li ri.
    (* first nest: left rows with a missing join value x all right rows *)
    match goal with |- context [py_for (PList (map PTuple ?ll)) ?rr ?fl ?b ?s0] =>
      pose proof (py_for_inv _ _ _ PTuple Iout rr fl b
                    (fun acc lrow => (acc ++ map (fun rrow => mv_row lrow rrow) rsrc)%list)
                    ll s0 []) as HI end.
    lapply HI; [clear HI; intros HI|].
    2:{ unfold Iout. do 2 eexists. reflexivity. }
    lapply HI; [clear HI; intros HI|].
    2:{ intros acc s (t1 & t2 & ->). reflexivity. }
    lapply HI; [clear HI; intros HI|].
    2:{ clear HI. intros acc s lrow Hin (t1 & t2 & ->).
        apply filter_In in Hin. destruct Hin as [Hin _].
        cbv beta iota. rewrite (bindx_ok _ (PTuple lrow)) by reflexivity.
        match goal with |- context [py_for (PList (map PTuple ?ll)) ?rr ?fl ?b ?s0] =>
          pose proof (py_for_inv _ _ _ PTuple Iin rr fl b
                        (fun acc' rrow => (acc' ++ [mv_row lrow rrow])%list) ll s0 acc) as HJ end.
        lapply HJ; [clear HJ; intros HJ|].
        2:{ unfold Iin. eexists. reflexivity. }
        lapply HJ; [clear HJ; intros HJ|].
        2:{ intros acc' s (t & ->). reflexivity. }
        lapply HJ; [clear HJ; intros HJ|].
        - destruct HJ as (t & E). rewrite E. clear E. cbv beta iota. cbn [bindx].
          rewrite fold_left_snoc. unfold Iout. do 2 eexists. reflexivity.
        - clear HJ. intros acc' s rrow Hrin (t & ->).
          rewrite (bindx_ok _ (PTuple rrow)) by reflexivity.
          inner_step Hin Hrin. }
    rewrite fold_left_app_flat in HI. cbn [app] in HI.
    destruct HI as (t1 & t2 & E). rewrite E. clear E. cbv beta iota. cbn [bindx].
    (* second nest: right rows with a missing join value x left rows with a present one *)
    match goal with |- context [py_for (PList (map PTuple ?ll)) ?rr ?fl ?b ?s0] =>
      pose proof (py_for_inv _ _ _ PTuple Iout rr fl b
                    (fun acc rrow => (acc ++ map (fun lrow => mv_row lrow rrow)
                                                 (filter (fun l => negb (l_missing l)) lsrc))%list)
                    ll s0 (flat_map (fun l => map (fun r => mv_row l r) rsrc) (filter l_missing lsrc))) as HI end.
    lapply HI; [clear HI; intros HI|].
    2:{ unfold Iout. do 2 eexists. reflexivity. }
    lapply HI; [clear HI; intros HI|].
    2:{ intros acc s (u1 & u2 & ->). reflexivity. }
    lapply HI; [clear HI; intros HI|].
    2:{ clear HI. intros acc s rrow Hin (u1 & u2 & ->).
        apply filter_In in Hin. destruct Hin as [Hin _].
        cbv beta iota. rewrite (bindx_ok _ (PTuple rrow)) by reflexivity.
        match goal with |- context [py_for (PList (map PTuple ?ll)) ?rr ?fl ?b ?s0] =>
          pose proof (py_for_inv _ _ _ PTuple Iin rr fl b
                        (fun acc' lrow => (acc' ++ [mv_row lrow rrow])%list) ll s0 acc) as HJ end.
        lapply HJ; [clear HJ; intros HJ|].
        2:{ unfold Iin. eexists. reflexivity. }
        lapply HJ; [clear HJ; intros HJ|].
        2:{ intros acc' s (t & ->). reflexivity. }
        lapply HJ; [clear HJ; intros HJ|].
        - destruct HJ as (t & E). rewrite E. clear E. cbv beta iota. cbn [bindx].
          rewrite fold_left_snoc. unfold Iout. do 2 eexists. reflexivity.
        - clear HJ. intros acc' s lrow Hlin (t & ->).
          apply filter_In in Hlin. destruct Hlin as [Hlin _].
          rewrite (bindx_ok _ (PTuple lrow)) by reflexivity.
          inner_step Hlin Hin. }
    rewrite fold_left_app_flat in HI.
    destruct HI as (u1 & u2 & E). rewrite E. clear E. cbv beta iota. cbn [bindx].
    fold mv_rows.
    (* header and frame *)
    rewrite get_output_header_from_tables_opt, !opt_list_dedupe_opt. fold lo ro.
    rewrite (bindx_ok _ (py_strs _)) by reflexivity.
    assert (Hmk : forall hdr, List.length hdr = List.length mv_header ->
                  frame_make (PList (map PList mv_rows)) (py_strs hdr) = sframe hdr mv_rows).
    { intros hdr Hh. unfold frame_make, py_strs. rewrite rows_of_PList.
      rewrite (shaped_forallb (List.length (map PStr hdr)) mv_rows); [reflexivity|].
      rewrite map_length, Hh. exact mv_rows_shaped. }
    unfold mv_header. fold lo ro.
    destruct (p_score c) eqn:Hsc; cbn [py_truth bindx].
    - unfold py_strs at 1. rewrite py_append_ok by reflexivity. cbn [bindx].
      change [PStr "_sim_score"%string] with (map PStr ["_sim_score"%string]).
      rewrite <- map_app. fold (py_strs (((p_lpre c ++ p_lkey c)%string :: (p_rpre c ++ p_rkey c)%string
        :: (map (append (p_lpre c)) lo ++ map (append (p_rpre c)) ro)%list) ++ ["_sim_score"%string])%list).
      rewrite Hmk.
      + rewrite (bindx_ok _ (sframe _ _)) by reflexivity. cbn [app]. rewrite <- app_assoc. reflexivity.
      + unfold mv_header. fold lo ro. rewrite Hsc. cbn [List.length app]. rewrite ?app_length.
        cbn [List.length]. rewrite ?app_length. cbn [List.length]. lia.
    - rewrite Hmk.
      + rewrite (bindx_ok _ (sframe _ _)) by reflexivity. rewrite app_nil_r. reflexivity.
      + unfold mv_header. fold lo ro. rewrite Hsc. rewrite app_nil_r. reflexivity.
  Qed.

  (* every cell list is the declarative projection of the two source rows *)
  Lemma mv_cells_spec lrow rrow : In lrow lsrc -> In rrow rsrc ->
    out_cells_mv c lrow rrow = Some (cells_list c lrow rrow) /\
    cells_spec c lrow rrow = Some (cells_list c lrow rrow).
  Proof.
    intros Hl Hr. destruct (Hlsrc _ Hl) as [Hll Hlok]. destruct (Hrsrc _ Hr) as [Hrl Hrok].
    split; [apply out_cells_mv_eq | apply cells_spec_eq]; assumption.
  Qed.
End Missing.

Print Assumptions get_pairs_with_missing_value_eq.
