(* Code-level RELATIONAL property theorems, part 10: the overlap filter.

   (A) the shape of the frames of the GENERATED overlap_filter_tables_rows and overlap_join_rows (with or without
       score column: the score cells of Model/Joins.v overlap_tables_core are integers): every row is header-long
       and has no exception cell (CodeLevelRel7.body_result_frame_shaped).
   (B) `C07_code_pipeline_overlap_join_ovf`: C07 for the GENERATED overlap_join_rows (integer threshold T) against
       the GENERATED apply_matcher_rows applied to the frame returned by the GENERATED
       OverlapFilter(overlap_size = S, comp_op = ">=").filter_tables, for every 1 <= S <= T (S = 1: "share a token").
       The candidate set of the overlap filter satisfies the single-call specifications of an EOverlapFilter case;
       `ovf_as_filter` shows that it then also satisfies those of the case  EFilter KSize "OVERLAP"  with threshold T
       (sound: no both-empty pair; complete: overlap >= T implies overlap >= S and > 0), which is what the matcher
       stage of CodeLevelRel5 / CodeLevelRel8.matcher_link consumes.                                          *)
From Coq Require Import ZArith Bool List String Lia Permutation PeanoNat.
From SSJ Require Import F64 PyNum FilterUtilsGen HelperGen TokenOrderingGen ValidationGen IndexGen JoinGen
     TokenOrdering Measures Filters Joins Api Matcher MatcherFacts MatcherChunks JoinSpec MetaSpec
     Projection ProjSpec IndexPyFacts ProjectionFacts
     JoinGenFacts JoinGenLoop JoinRefine JoinRefineProj SplitFacts Frame WrapperGen FilterWrapperGen MatcherGen
     WrapperRefineFrame WrapperRefineMissing WrapperRefineCore WrapperRefineChunks WrapperRefine WrapperRefineClosed
     WrapperRefineApi WrapperRefineEnd WrapperBody WrapperApiLink WrapperEnd
     FilterWrapperRefineOverlap FilterWrapperRefine IndexGlue IndexGlueArith
     FilterPairRefineBase MatcherRefineBase MatcherRefineLoop MatcherRefineBridge MatcherRefineEnd
     OrderingFacts OverlapFacts OverlapMeasure ValidationFacts
     ApiLift ApiJoinBase ApiJoinPairs ApiJoinSpec ApiFilterTables ApiFilterClosed
     LawsBase LawsScore LawsSpec Laws LawsPipe ModelScores ModelArith ModelLaws ModelPipe
     CodeLevelBase CodeLevelJoins CodeLevelJoins2 CodeLevelFilters CodeLevelMatcher CodeLevelTight
     CodeLevelRelBase CodeLevelRelCalls CodeLevelRel CodeLevelRel4 CodeLevelRel5 CodeLevelRel6 CodeLevelRel7 CodeLevelRel8.
Import ListNotations.
Open Scope string_scope.
Open Scope list_scope.
Open Scope Z_scope.

(* ================================================================== (A) the frames of the overlap wrappers *)
Lemma overlap_core_scores op size L R T tr :
  overlap_tables_core op size L R = Some T -> In tr T -> is_exc (snd tr) = false.
Proof.
  unfold overlap_tables_core. intros E Htr. injection E as <-.
  apply in_flat_map in Htr. destruct Htr as ([j y] & _ & Htr).
  apply in_flat_map in Htr. destruct Htr as (cx & _ & Htr).
  destruct ((0 <? overlap_count (snd cx) y) && cmp_op op (PInt (overlap_count (snd cx) y)) size); [|destruct Htr].
  destruct Htr as [<-|[]]. reflexivity.
Qed.

Section OverlapShape.
  Variables (c : pcase) (size : pyval) (op : string) (am : bool) (njobs cpus : Z).
  Variables (lsrc rsrc : list (list pyval)) (showp : pyval).
  Variables (tokenize : pyval -> pyval).
  Variables (toks : pyval -> list Z) (cf : pyval -> pyval -> pyval).

  (* the hypotheses of FilterWrapperRefineOverlap.overlap_filter_tables_rows_end_to_end_flat *)
  Hypothesis Hwf : well_formed c.
  Hypothesis Hlsrc : forall row, In row lsrc -> List.length row = List.length (p_lcols c) /\ ProjSpec.row_ok row.
  Hypothesis Hrsrc : forall row, In row rsrc -> List.length row = List.length (p_rcols c) /\ ProjSpec.row_ok row.
  Hypothesis HtokL : forall row, In row (lpresent c lsrc) -> tokenize (lcell c row) = pints (toks (lcell c row)).
  Hypothesis HtokR : forall row, In row (rpresent c rsrc) -> tokenize (rcell c row) = pints (toks (rcell c row)).
  Hypothesis Hvout : is_exc (validate_output_attrs (py_opt_strs (p_lout c)) (py_strs (p_lcols c))
                                                   (py_opt_strs (p_rout c)) (py_strs (p_rcols c))) = false.
  Hypothesis Hop : comp_op_map op = Some cf.
  Hypothesis Hnum : num_of size <> None.
  Hypothesis Hid : ~ In "_id"%string (mv_header c).
  Hypothesis Hn : Z.of_nat (List.length (rpresent c rsrc)) < 2^31.

  Theorem overlap_filter_frame_shaped :
    forall row, In row (frame_rows_of (ovf_call c size op am njobs cpus lsrc rsrc showp tokenize)) ->
      List.length row = List.length (header_spec c) /\ ProjSpec.row_ok row.
  Proof using All.
    apply (body_result_frame_shaped c am njobs cpus lsrc rsrc
             (split_bs (kjobs c njobs cpus rsrc) (Z.of_nat (List.length (rpresent c rsrc))))
             (ovf_K c size op lsrc toks) Hwf Hlsrc Hrsrc).
    - intros _ ch T tr _ ET Htr. exact (overlap_core_scores _ _ _ _ T tr ET Htr).
    - apply (overlap_filter_tables_rows_refines c size op am njobs cpus lsrc rsrc showp tokenize toks cf); try assumption.
      intros Hk. apply split_hyp; assumption.
  Qed.

  Hypothesis Hvt : is_exc (validate_threshold size (PStr "OVERLAP")) = false.
  Hypothesis Hvop : is_exc (validate_comp_op_for_sim_measure (PStr op) (PStr "OVERLAP")) = false.

  Theorem overlap_join_frame_shaped :
    forall row, In row (frame_rows_of (ovj_call c size op am njobs cpus lsrc rsrc showp tokenize)) ->
      List.length row = List.length (header_spec c) /\ ProjSpec.row_ok row.
  Proof using All.
    apply (body_result_frame_shaped c am njobs cpus lsrc rsrc
             (split_bs (kjobs c njobs cpus rsrc) (Z.of_nat (List.length (rpresent c rsrc))))
             (ovf_K c size op lsrc toks) Hwf Hlsrc Hrsrc).
    - intros _ ch T tr _ ET Htr. exact (overlap_core_scores _ _ _ _ T tr ET Htr).
    - apply (overlap_join_rows_refines c size op am njobs cpus lsrc rsrc showp tokenize toks cf); try assumption.
      intros Hk. apply split_hyp; assumption.
  Qed.
End OverlapShape.

(* ================================================================== the overlap filter as a size-like filter *)
Lemma overlap_sets_nil_l y : overlap_sets [] y = 0.
Proof. reflexivity. Qed.

Section OvfAsFilter.
  Variables (co cf : jcase) (S T : Z) (obs : list Api.out_row).
  Hypothesis Eo : j_entry co = EOverlapFilter.
  Hypothesis Ef : j_entry cf = EFilter KSize "OVERLAP".
  Hypothesis EL : j_L cf = j_L co.
  Hypothesis ER : j_R cf = j_R co.
  Hypothesis Eam : j_allow_missing cf = j_allow_missing co.
  Hypothesis Eop : j_op co = ">=".
  Hypothesis Eto : j_t co = PInt S.
  Hypothesis Etf : j_t cf = PInt T.
  Hypothesis HS : 1 <= S <= T.

  Lemma ovf_as_filter_sound : sound_spec co obs = true -> sound_spec cf obs = true.
  Proof using Eo Ef EL ER Eam.
    unfold sound_spec. rewrite !forallb_forall. intros H o Ho. specialize (H o Ho).
    destruct o as [[lk rk] s]. unfold sound_row in *. rewrite EL, ER, Eam, Ef. rewrite Eo in H.
    destruct (JoinSpec.find_row lk (j_L co)) as [l|]; [|discriminate H].
    destruct (JoinSpec.find_row rk (j_R co)) as [r|]; [|discriminate H].
    apply andb_true_iff in H. destruct H as [Hc H]. rewrite Hc. cbn [andb].
    destruct (present l && present r); [|exact H].
    cbv zeta in H |- *. apply andb_true_iff in H. destruct H as [H _]. apply andb_true_iff in H. destruct H as [Hpos _].
    destruct ((len (toks_of l) =? 0) && (len (toks_of r) =? 0)) eqn:Eb; [|reflexivity].
    apply andb_true_iff in Eb. destruct Eb as [El _]. apply len_zero_iff in El. rewrite El, overlap_sets_nil_l in Hpos.
    discriminate Hpos.
  Qed.

  Lemma ovf_as_filter_complete : sound_spec co obs = true -> complete_spec co obs = true -> complete_spec cf obs = true.
  Proof using Eo Ef EL ER Eop Eto Etf HS.
    intros _. destruct HS as [HS1 HS2]. unfold complete_spec. rewrite EL, ER, Ef, Etf, Eo, Eop, Eto. rewrite !forallb_forall. intros H l Hl.
    specialize (H l Hl). rewrite forallb_forall in H |- *. intros r Hr. specialize (H r Hr).
    destruct (present l && present r); [|reflexivity]. cbv zeta in H |- *.
    change ("OVERLAP" =? "EDIT_DISTANCE")%string with false. cbv iota.
    destruct ((len (toks_of l) =? 0) && (len (toks_of r) =? 0)) eqn:Eb; [reflexivity|].
    destruct (qualifies "OVERLAP" ">=" (PInt T) (toks_of l) (toks_of r)) eqn:Eq; [|reflexivity].
    unfold qualifies in Eq. apply andb_true_iff in Eq. destruct Eq as [Eq _].
    change (raw_score "OVERLAP" (toks_of l) (toks_of r)) with (PInt (overlap_sets (toks_of l) (toks_of r))) in Eq.
    rewrite cmp_op_ge_int in Eq. apply Z.leb_le in Eq.
    rewrite cmp_op_ge_int in H.
    assert (E1 : (0 <? overlap_sets (toks_of l) (toks_of r)) = true) by (apply Z.ltb_lt; lia).
    assert (E2 : (S <=? overlap_sets (toks_of l) (toks_of r)) = true) by (apply Z.leb_le; lia).
    rewrite E1, E2 in H. exact H.
  Qed.

  Lemma ovf_as_filter_missing : missing_spec co obs = true -> missing_spec cf obs = true.
  Proof using EL ER Eam. unfold missing_spec, forall_pairs. rewrite EL, ER, Eam. exact (fun H => H). Qed.
End OvfAsFilter.

(* ================================================================== (B) C07: overlap_join vs OverlapFilter ; apply_matcher *)
Section PipelineOvjOvf.
  Variables (c : pcase) (T S : Z) (op : string) (am : bool) (qJ qF : Z).
  Variables (njJ cpJ njF cpF njM cpM : Z) (aeF : bool).
  Variables (lsrc rsrc : list (list pyval)) (showpJ showpF showpM : pyval).
  Variables (tokenize : pyval -> pyval).                                           (* of the join and the filter *)
  Variables (tokv : pyval) (tokenizeM : pyval -> pyval) (simM : pyval -> pyval -> pyval).   (* of the matcher *)
  Variables (toks : pyval -> list Z) (cf : pyval -> pyval -> pyval) (kz : pyval -> Z) (zk : Z -> pyval).

  Let cF : pcase := noscore_pcase c.
  Let cc : list string := header_spec cF.
  Let clk : string := (p_lpre c ++ p_lkey c)%string.
  Let crk : string := (p_rpre c ++ p_rkey c)%string.

  (* the candidate set: OverlapFilter(tokenizer, overlap_size = S, comp_op = '>=').filter_tables, no score column *)
  Definition ovj_ovf_filter_frame : pyval := ovf_call (noscore_pcase c) (PInt S) ">=" am njF cpF lsrc rsrc showpF tokenize.
  Definition ovj_ovf_pipe_frame : pyval :=
    pipe_frame_of c lsrc rsrc op am (PInt T) tokv njM cpM showpM tokenizeM simM ovj_ovf_filter_frame.

  Let csrc : list (list pyval) := frame_rows_of ovj_ovf_filter_frame.

  Hypothesis HJ : ovj_call_hyps c T op lsrc rsrc tokenize toks cf kz.
  Hypothesis Hsc : p_score c = true.
  Hypothesis HS : 1 <= S <= T.
  Hypothesis HlenRt : Z.of_nat (List.length rsrc) < 2^31.
  Hypothesis Hsmall : Z.of_nat (List.length lsrc) * Z.of_nat (List.length rsrc) < 2^31.
  Hypothesis Hdist : clk <> crk.
  (* the hypotheses of C05 *)
  Hypothesis Htokv : is_exc tokv = false.
  Hypothesis HkzL : forall row v, In row lsrc -> In v (map (lkeyc c) lsrc ++ map (clkc cc clk) csrc) ->
    pv_eqb (lkeyc c row) v = (kz (lkeyc c row) =? kz v).
  Hypothesis HkzR : forall row v, In row rsrc -> In v (map (rkeyc c) rsrc ++ map (crkc cc crk) csrc) ->
    pv_eqb (rkeyc c row) v = (kz (rkeyc c row) =? kz v).
  Hypothesis Hzk : forall v, In v (map (lkeyc c) lsrc ++ map (rkeyc c) rsrc ++ map (clkc cc clk) csrc ++ map (crkc cc crk) csrc) ->
    zk (kz v) = v.
  Hypothesis HscalL : forall row, In row lsrc -> scalar (lvalc c row).
  Hypothesis HscalR : forall row, In row rsrc -> scalar (rvalc c row).
  Hypothesis HtokL : m_tokb tokv = true -> forall row, In row lsrc -> cell_missing (lvalc c row) = false ->
    is_exc (tokenizeM (lvalc c row)) = false.
  Hypothesis HtokR : m_tokb tokv = true -> forall row, In row rsrc -> cell_missing (rvalc c row) = false ->
    is_exc (tokenizeM (rvalc c row)) = false.
  Hypothesis Hsim : forall lrow rrow, In lrow lsrc -> In rrow rsrc ->
    cell_missing (lvalc c lrow) = false -> cell_missing (rvalc c rrow) = false ->
    is_exc (simM (e_tk tokv tokenizeM (lvalc c lrow)) (e_tk tokv tokenizeM (rvalc c rrow))) = false /\
    is_exc (cf (simM (e_tk tokv tokenizeM (lvalc c lrow)) (e_tk tokv tokenizeM (rvalc c rrow))) (PInt T)) = false.
  Hypothesis HsimEq : forall lrow rrow, In lrow lsrc -> In rrow rsrc ->
    cell_missing (lvalc c lrow) = false -> cell_missing (rvalc c rrow) = false ->
    simM (e_tk tokv tokenizeM (lvalc c lrow)) (e_tk tokv tokenizeM (rvalc c rrow))
    = matcher_raw_score "OVERLAP" (toks (lvalc c lrow)) (toks (rvalc c rrow)).

  Theorem C07_code_pipeline_overlap_join_ovf :
    pipeline_spec (ovj_code_jcase c T op am qJ njJ cpJ lsrc rsrc toks kz)
      (code_view c kz (ovj_join_frame c T op am njJ cpJ lsrc rsrc showpJ tokenize))
      (code_view c kz ovj_ovf_pipe_frame) = true.
  Proof using All.
    set (jc := ovj_code_jcase c T op am qJ njJ cpJ lsrc rsrc toks kz).
    set (co := ovf_code_jcase cF S ">=" aeF am qF njF cpF lsrc rsrc toks kz).
    set (cfc := {| j_entry := EFilter KSize "OVERLAP"; j_t := PInt T; j_q := qF; j_op := ">="; j_allow_empty := aeF;
                   j_allow_missing := am; j_with_score := false; j_njobs := njF; j_cpus := cpF;
                   j_L := j_L co; j_R := j_R co |}).
    pose proof (ovj_call_valid c T op am qJ njJ cpJ lsrc rsrc tokenize toks cf kz HJ) as Hv.
    destruct (weak_keys _ Hv) as (NL & NR).
    destruct (proj1 (ovj_call_facts c T op am qJ njJ cpJ lsrc rsrc showpJ tokenize toks cf kz HJ))
      as (_ & _ & A1 & A2 & A3 & _ & A5 & _).
    destruct HJ as (Hwf & Hl & Hr & HtL' & HtR' & Hvout & Hop & Hid & Hn & Hvt & Hvop & Hkeys & Hnodup).
    assert (Hlow : lower_op op) by exact (lower_op_of_valid op "OVERLAP" eq_refl Hvop).
    assert (HidF : ~ In "_id" (mv_header cF)) by (intros X; apply Hid; exact (mv_header_noscore c "_id" X)).
    destruct Hkeys as (HndL & HndR).
    assert (Hfo : filter_of jc cfc KSize "OVERLAP") by (repeat split).
    (* the filter's frame *)
    assert (Hge : comp_op_map ">=" = Some py_ge) by reflexivity.
    pose proof (C06_code_overlap_filter_tables cF S ">=" aeF am qF njF cpF lsrc rsrc showpF tokenize toks py_ge kz
                  (well_formed_noscore c Hwf) Hl Hr HtL' HtR' Hvout Hge HidF ltac:(lia) ltac:(left; reflexivity)
                  HlenRt (conj HndL HndR) Hnodup) as HF.
    apply proj2 in HF. destruct HF as (rowsF & EF & (F1 & F2 & F3 & _)).
    change (ovf_call cF (PInt S) ">=" am njF cpF lsrc rsrc showpF tokenize) with ovj_ovf_filter_frame in EF.
    fold cc in EF. fold co in F1, F2, F3.
    assert (G2 : sound_spec cfc (map (kview cF kz) rowsF) = true)
      by exact (ovf_as_filter_sound co cfc _ eq_refl eq_refl eq_refl eq_refl eq_refl F2).
    assert (G1 : complete_spec cfc (map (kview cF kz) rowsF) = true)
      by exact (ovf_as_filter_complete co cfc S T _ eq_refl eq_refl eq_refl eq_refl eq_refl eq_refl eq_refl HS F2 F1).
    assert (G3 : missing_spec cfc (map (kview cF kz) rowsF) = true)
      by exact (ovf_as_filter_missing co cfc _ eq_refl eq_refl eq_refl F3).
    (* (R1): the shape of the candidate frame *)
    pose proof (overlap_filter_frame_shaped cF (PInt S) ">=" am njF cpF lsrc rsrc showpF tokenize toks py_ge
                  (well_formed_noscore c Hwf) Hl Hr HtL' HtR' Hvout Hge ltac:(discriminate) HidF Hn) as HcsrcOk.
    change (ovf_call cF (PInt S) ">=" am njF cpF lsrc rsrc showpF tokenize) with ovj_ovf_filter_frame in HcsrcOk.
    (* the matcher's frame *)
    pose proof (matcher_link c lsrc rsrc op am (PInt T) tokv "OVERLAP" njM cpM showpM tokenizeM simM toks cf kz zk
                  jc cfc KSize ovj_ovf_filter_frame Hwf Hsc Hl Hr Hvout Hop Hlow Hid HndL HndR eq_refl eq_refl eq_refl eq_refl eq_refl
                  Hfo (ex_intro _ rowsF (conj EF G2)) HcsrcOk Hsmall Hdist Htokv HkzL HkzR Hzk HscalL HscalR HtokL HtokR
                  Hsim HsimEq) as Hlink.
    unfold matcher_view_link in Hlink. unfold ovj_ovf_pipe_frame. rewrite Hlink. clear Hlink.
    rewrite EF, code_view_sframe.
    apply (stage_pipeline_law jc cfc KSize "OVERLAP"); try assumption; try reflexivity.
    exact (round_agrees_to_rows jc "OVERLAP" (round_agrees_overlap jc)).
  Qed.
End PipelineOvjOvf.

Print Assumptions overlap_filter_frame_shaped.
Print Assumptions overlap_join_frame_shaped.
Print Assumptions C07_code_pipeline_overlap_join_ovf.
