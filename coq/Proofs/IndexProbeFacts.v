(* (b, layer 1) The GENERATED PositionFilter.find_candidates (Gen/IndexGen.v:
   position_filter_find_candidates) equals the representation of a small functional program
   `probe_abs` over association lists, provided the three bounds for the probe size are ints and
   the overlap thresholds inside the clamped window are numbers.  The formulas stay opaque.
   Axiom-free.                                                                            *)
From Coq Require Import ZArith Bool List String Lia.
From SSJ Require Import F64 PyNum FilterUtilsGen TokenOrderingGen IndexGen TokenOrdering Filters IndexPyFacts IndexBuildFacts.
Import ListNotations.
Open Scope Z_scope.

Lemma num_not_exc v : num_of v <> None -> is_exc v = false.
Proof. destruct v; cbn; congruence. Qed.
Lemma py_ge_num a v : num_of v <> None -> exists b, py_ge (PInt a) v = PBool b.
Proof.
  intros Hv. unfold py_ge, py_ord, strict2, ord_cmp.
  destruct v; cbn [num_of] in *; try congruence;
    match goal with |- context [match ?c with Some _ => _ | None => _ end] => destruct c as [[]|] end;
    eexists; reflexivity.
Qed.
Lemma py_and_bools a b : py_and (PBool a) (PBool b) = PBool (a && b).
Proof. destruct a, b; reflexivity. Qed.
Lemma py_sub_int a b : py_sub (PInt a) (PInt b) = PInt (a - b).
Proof. reflexivity. Qed.
Lemma getitem_post0 e : py_getitem (post_repr e) (PInt 0) = PInt (fst e).
Proof. reflexivity. Qed.
Lemma getitem_post1 e : py_getitem (post_repr e) (PInt 1) = PInt (snd e).
Proof. reflexivity. Qed.
Lemma getitem_pintsZ l c : 0 <= c < len l ->
  py_getitem (pints l) (PInt c) = PInt (nth (Z.to_nat c) l 0).
Proof.
  intros Hc. rewrite <- (Z2Nat.id c) at 1 by lia. apply getitem_pints. unfold len in Hc. lia.
Qed.
Lemma py_setitem_cache d k v : is_exc v = false ->
  py_setitem (PDict (drepr (fun v : pyval => v) d)) (PInt k) v
  = PDict (drepr (fun v : pyval => v) (aset d k v)).
Proof. exact (py_setitem_drepr (fun v : pyval => v) d k v). Qed.
Lemma py_dict_get3_idx idx w :
  py_dict_get3 (idx_repr idx) (PInt w) (PList []) = plist_repr (idx_get idx w).
Proof.
  unfold py_dict_get3, idx_repr, strict2, idx_get. rewrite dict_lookup_drepr.
  destruct (aget idx w); reflexivity.
Qed.
Lemma py_not_idx idx : py_not (idx_repr idx) = PBool (match idx with [] => true | _ => false end).
Proof. destruct idx; reflexivity. Qed.

(* the eager overlap-threshold cache *)
Lemma cache_fold (f : Z -> pyval) : forall l d s,
  aget (fold_left (fun c s0 => aset c s0 (f s0)) l d) s
  = if existsb (Z.eqb s) l then Some (f s) else aget d s.
Proof.
  induction l as [|h t IH]; intros d s; cbn [fold_left existsb]; [reflexivity|].
  rewrite IH, aget_aset. rewrite (Z.eqb_sym s h).
  destruct (existsb (Z.eqb s) t); cbn [orb].
  - now rewrite orb_true_r.
  - rewrite orb_false_r. destruct (Z.eqb_spec h s) as [->|]; reflexivity.
Qed.

Section Probe.
  Variables (p : fparams) (idx : idx_t) (sizes : list Z) (minl maxl : Z) (Y : list Z).
  Let ny := len Y.
  Variables (lb ub k : Z).
  Let LB := Z.max lb minl.
  Let UB := Z.min ub maxl.
  Hypothesis Hlb : g_lb p ny = PInt lb.
  Hypothesis Hub : g_ub p ny = PInt ub.
  Hypothesis Hpl : g_pl p ny = PInt k.
  Hypothesis Hot : forall s, LB <= s <= UB -> num_of (g_ot p s ny) <> None.
  Hypothesis Hpost : forall w e, In e (idx_get idx w) -> 0 <= fst e < len sizes.

  Definition cval (d : list (Z * Z)) (c : Z) : Z := match aget d c with Some v => v | None => 0 end.

  Definition cand_upd (j : Z) (d : list (Z * Z)) (e : posting) : list (Z * Z) :=
    let c := fst e in let i := snd e in
    let cur := cval d c in
    if cur =? -1 then d else
    let nx := nth (Z.to_nat c) sizes 0 in
    if (LB <=? nx) && (nx <=? UB) then
      let bound := if ny - j <=? nx - i then ny - j else nx - i in
      if py_truth (py_ge (PInt (cur + bound)) (g_ot p nx ny)) then aset d c (cur + 1) else aset d c (-1)
    else d.
  Definition probe_step (dj : list (Z * Z) * Z) (w : Z) : list (Z * Z) * Z :=
    (fold_left (cand_upd (snd dj)) (idx_get idx w) (fst dj), snd dj + 1).
  Definition probe_abs : list (Z * Z) := fst (fold_left probe_step (slice0z k Y) ([], 0)).

  Definition cache_abs : list (Z * pyval) :=
    fold_left (fun c s0 => aset c s0 (g_ot p s0 ny)) (zrange LB (UB + 1)) [].
  Lemma cache_get s : LB <= s <= UB -> aget cache_abs s = Some (g_ot p s ny).
  Proof.
    intros Hs. unfold cache_abs. rewrite (cache_fold (fun s0 => g_ot p s0 ny)).
    assert (E : existsb (Z.eqb s) (zrange LB (UB + 1)) = true).
    { apply existsb_exists. exists s. split; [apply in_zrange; lia | apply Z.eqb_refl]. }
    now rewrite E.
  Qed.

  Definition Rcache (c : list (Z * pyval)) : pyval * pyval := (PNone, PDict (drepr (fun v : pyval => v) c)).
  Definition Iinner (d : list (Z * Z)) (s : pyval * (pyval * (pyval * (pyval * pyval)))) : Prop :=
    exists t3 t4 t5, s = (PNone, (t3, (t4, (t5, PDict (drepr PInt d))))).
  Definition Iouter (dj : list (Z * Z) * Z)
             (s : pyval * (pyval * (pyval * (pyval * (pyval * (pyval * (pyval * pyval))))))) : Prop :=
    exists t1 t2 t3 t4 t5,
      s = (PNone, (t1, (t2, (t3, (t4, (t5, (PDict (drepr PInt (fst dj)), PInt (snd dj)))))))).

  Lemma py_dict_get3_cand d c : py_dict_get3 (PDict (drepr PInt d)) (PInt c) (PInt 0) = PInt (cval d c).
  Proof.
    unfold py_dict_get3, strict2, cval. rewrite dict_lookup_drepr. destruct (aget d c); reflexivity.
  Qed.

  Lemma find_candidates_nonempty : idx <> [] ->
    position_filter_find_candidates (PStr (fm p)) (ft p) (pints Y) (idx_repr idx) (pints sizes)
                                    (PInt minl) (PInt maxl) (PInt (fq p))
    = PDict (drepr PInt probe_abs).
  Proof.
    intros Hne.
    unfold position_filter_find_candidates.
    rewrite py_not_idx. destruct idx as [|e0 idx'] eqn:Eidx; [congruence|]. rewrite <- Eidx in *.
    cbn [bindx py_truth].
    rewrite py_len_pints. cbn [bindx]. fold ny.
    change (get_size_lower_bound (PInt ny) (PStr (fm p)) (ft p)) with (g_lb p ny).
    change (get_size_upper_bound (PInt ny) (PStr (fm p)) (ft p)) with (g_ub p ny).
    rewrite Hlb, Hub, py_max_int, py_min_int. cbn [bindx]. fold LB UB.
    rewrite py_add_int, py_range_int. unfold pints at 1.
    change (PNone, PDict []) with (Rcache []).
    match goal with |- context [py_for (PList (map PInt ?l)) ?r ?f ?b (Rcache ?a0)] =>
      rewrite (py_for_eq _ _ _ PInt Rcache r f b (fun c s0 => aset c s0 (g_ot p s0 ny)) l a0) end.
    2:{ reflexivity. }
    2:{ intros c s0 Hs0. apply in_zrange in Hs0. unfold Rcache. cbv beta iota. cbn [bindx].
        change (get_overlap_threshold (PInt s0) (PInt ny) (PStr (fm p)) (ft p) (PInt (fq p)))
          with (g_ot p s0 ny).
        assert (Hx : is_exc (g_ot p s0 ny) = false) by (apply num_not_exc, Hot; lia).
        rewrite py_setitem_cache by exact Hx. reflexivity. }
    fold cache_abs. unfold Rcache. cbv beta iota. cbn [bindx].
    change (get_prefix_length (PInt ny) (PStr (fm p)) (ft p) (PInt (fq p))) with (g_pl p ny).
    rewrite Hpl. cbn [bindx]. rewrite py_slice_pints. unfold pints at 1.
    match goal with |- context [py_for (PList (map PInt ?l)) ?r ?f ?b ?s0] =>
      pose proof (py_for_inv _ _ _ PInt Iouter r f b probe_step l s0 ([], 0)) as HI end.
    lapply HI; [clear HI; intros HI|].
    2:{ unfold Iouter. do 5 eexists. reflexivity. }
    lapply HI; [clear HI; intros HI|].
    2:{ intros a s (t1 & t2 & t3 & t4 & t5 & ->). reflexivity. }
    lapply HI; [clear HI; intros HI|].
    - destruct HI as (t1 & t2 & t3 & t4 & t5 & ->). reflexivity.
    - clear HI. intros [d j] s w Hw (t1 & t2 & t3 & t4 & t5 & ->).
      cbv beta iota. cbn [fst snd bindx].
      rewrite py_dict_get3_idx. unfold plist_repr.
      match goal with |- context [py_for (PList (map post_repr ?l)) ?r ?f ?b ?s0] =>
        pose proof (py_for_inv _ _ _ post_repr Iinner r f b (cand_upd j) l s0 d) as HI end.
      lapply HI; [clear HI; intros HI|].
      2:{ unfold Iinner. do 3 eexists. reflexivity. }
      lapply HI; [clear HI; intros HI|].
      2:{ intros a s (u3 & u4 & u5 & ->). reflexivity. }
      lapply HI; [clear HI; intros HI|].
      + destruct HI as (u3 & u4 & u5 & ->). cbv beta iota. cbn [bindx].
        rewrite py_add_int. cbn [bindx]. unfold Iouter, probe_step. cbn [fst snd].
        do 5 eexists. reflexivity.
      + clear HI. intros d' s e He (u3 & u4 & u5 & ->).
        cbv beta iota. rewrite (bindx_ok (post_repr e)) by reflexivity.
        rewrite getitem_post0, getitem_post1. cbn [bindx].
        rewrite py_dict_get3_cand. cbn [bindx]. rewrite py_ne_int_val. cbn [bindx py_truth].
        unfold cand_upd. cbv zeta.
        destruct (cval d' (fst e) =? -1) eqn:Ecur; cbn [negb]; cbv beta iota; cbn [bindx].
        { unfold Iinner. do 3 eexists. reflexivity. }
        rewrite getitem_pintsZ by (eapply Hpost; exact He). cbn [bindx].
        rewrite !py_le_int_val', py_and_bools. cbn [bindx py_truth].
        set (nx := nth (Z.to_nat (fst e)) sizes 0).
        destruct ((LB <=? nx) && (nx <=? UB)) eqn:Ewin; cbv beta iota; cbn [bindx].
        2:{ unfold Iinner. do 3 eexists. reflexivity. }
        rewrite !py_sub_int, py_le_int_val'. cbn [bindx py_truth].
        assert (Hnx : LB <= nx <= UB) by (apply andb_true_iff in Ewin; lia).
        assert (Hc : py_getitem (PDict (drepr (fun v : pyval => v) cache_abs)) (PInt nx) = g_ot p nx ny).
        { unfold py_getitem, strict2. rewrite dict_lookup_drepr, (cache_get nx Hnx). reflexivity. }
        destruct (ny - j <=? nx - snd e); cbv beta iota; cbn [bindx];
          rewrite py_add_int, Hc;
          match goal with |- context [py_ge (PInt ?a) (g_ot p nx ny)] =>
            destruct (py_ge_num a (g_ot p nx ny) (Hot nx Hnx)) as [b Hb]; rewrite Hb end;
          cbn [bindx py_truth]; destruct b; cbv beta iota; cbn [bindx];
          rewrite ?py_add_int, py_setitem_drepr by reflexivity; cbn [bindx];
          unfold Iinner; do 3 eexists; reflexivity.
  Qed.

  (* keys: only candidates met in a posting list, each once *)
  Lemma cand_upd_keys j d e c : In c (map fst (cand_upd j d e)) -> c = fst e \/ In c (map fst d).
  Proof.
    unfold cand_upd. cbv zeta.
    destruct (cval d (fst e) =? -1); [now right|].
    destruct ((LB <=? _) && (_ <=? UB)); [|now right].
    destruct (py_truth _); intros H; apply aset_keys in H; exact H.
  Qed.
  Lemma cand_upd_nodup j d e : NoDup (map fst d) -> NoDup (map fst (cand_upd j d e)).
  Proof.
    unfold cand_upd. cbv zeta. intros Hd.
    destruct (cval d (fst e) =? -1); [exact Hd|].
    destruct ((LB <=? _) && (_ <=? UB)); [|exact Hd].
    destruct (py_truth _); apply aset_nodup; exact Hd.
  Qed.

  Definition good_keys (d : list (Z * Z)) : Prop :=
    NoDup (map fst d) /\ forall c, In c (map fst d) -> 0 <= c < len sizes.

  Lemma fold_cand_good j w : forall l d, (forall e, In e l -> In e (idx_get idx w)) ->
    good_keys d -> good_keys (fold_left (cand_upd j) l d).
  Proof.
    induction l as [|e l IH]; intros d Hl Hd; cbn [fold_left]; [exact Hd|].
    apply IH; [intros e' He'; apply Hl; right; exact He'|].
    destruct Hd as [Hnd Hk]. split; [apply cand_upd_nodup; exact Hnd|].
    intros c Hc. apply cand_upd_keys in Hc. destruct Hc as [->|Hc]; [|apply Hk; exact Hc].
    apply (Hpost w). apply Hl. left; reflexivity.
  Qed.

  Lemma probe_abs_good : good_keys probe_abs.
  Proof.
    unfold probe_abs. generalize (slice0z k Y) as l.
    assert (H0 : good_keys (fst (([] : list (Z * Z)), 0))) by (split; [constructor | intros c []]).
    revert H0. generalize (([] : list (Z * Z)), 0) as dj.
    intros dj H0 l. revert dj H0.
    induction l as [|w l IH]; intros dj H0; cbn [fold_left]; [exact H0|].
    apply IH. unfold probe_step. cbn [fst]. apply (fold_cand_good _ w); [tauto | exact H0].
  Qed.

  Lemma probe_abs_nil : (forall w, idx_get idx w = []) -> probe_abs = [].
  Proof.
    intros Hnil. unfold probe_abs. generalize (slice0z k Y) as l. generalize 0 as j.
    intros j l. revert j. induction l as [|w l IH]; intros j; cbn [fold_left]; [reflexivity|].
    unfold probe_step at 2. cbn [fst snd]. rewrite Hnil. cbn [fold_left]. apply IH.
  Qed.

  Theorem find_candidates_eq :
    position_filter_find_candidates (PStr (fm p)) (ft p) (pints Y) (idx_repr idx) (pints sizes)
                                    (PInt minl) (PInt maxl) (PInt (fq p))
    = PDict (drepr PInt probe_abs).
  Proof.
    assert (Hd : idx = [] \/ idx <> []) by (destruct idx; [left; reflexivity | right; discriminate]).
    destruct Hd as [E|Hne].
    - (* `if not position_index.index: return {}` *)
      rewrite probe_abs_nil by (intros w; rewrite E; reflexivity). rewrite E. reflexivity.
    - apply find_candidates_nonempty. exact Hne.
  Qed.
End Probe.

Print Assumptions find_candidates_eq.
Print Assumptions probe_abs_good.

