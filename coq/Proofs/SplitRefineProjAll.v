(* Projection instances (analogues of JoinRefineProj.set_sim_join_rows_refines_proj) of the six
   refinement theorems for the GENERATED per-chunk functions of Gen/JoinGen.v; see SplitRefineProj.v.
   lsrc / rsrc: the full source rows; toks: the token list of a join / filter cell.  Axiom-free. *)
From Coq Require Import ZArith Bool List String Lia Permutation.
From SSJ Require Import F64 PyNum FilterUtilsGen HelperGen TokenOrderingGen ValidationGen IndexGen JoinGen
     TokenOrdering Measures Filters Joins Projection ProjSpec ProjectionFacts OrderingFacts OrderingGenFacts
     IndexPyFacts IndexBuildFacts IndexProbeFacts IndexRefine IndexInverted IndexPrefix IndexSize IndexGlue
     JoinGenFacts JoinGenLoop JoinRefine JoinRefineProj SplitRefineBase SplitRefineFilterBase
     SplitRefineOverlapFilter SplitRefineOvc SplitRefineFilterSize SplitRefineFilterPrefix
     SplitRefineFilterPosition SplitRefineEd SplitRefineProj.
Import ListNotations.
Open Scope Z_scope.

Section Common.
  Variables (c : pcase) (lsrc rsrc : list (list pyval)) (showp : pyval).
  Variables (tokenize : pyval -> pyval) (toks : pyval -> list Z).
  Let lcell (row : list pyval) := cellv (p_lcols c) row (p_ljoin c).
  Let rcell (row : list pyval) := cellv (p_rcols c) row (p_rjoin c).
  (* the raw token lists of the join / filter cells: the model's input *)
  Let L := map (fun row => toks (lcell row)) lsrc.
  Let R := map (fun row => toks (rcell row)) rsrc.
  Let lrows := pj_lrows c lsrc.
  Let rrows := pj_rrows c rsrc.
  Let tkL (r : list pyval) := toks (nth (pj_ji c) r PNone).
  Let tkR (r : list pyval) := toks (nth (pj_jj c) r PNone).

  Hypothesis Hwf : well_formed c.
  Hypothesis Hlsrc : forall row, In row lsrc -> List.length row = List.length (p_lcols c) /\ ProjSpec.row_ok row.
  Hypothesis Hrsrc : forall row, In row rsrc -> List.length row = List.length (p_rcols c) /\ ProjSpec.row_ok row.
  Hypothesis HtokL : forall row, In row lsrc -> tokenize (lcell row) = pints (toks (lcell row)).
  Hypothesis HtokR : forall row, In row rsrc -> tokenize (rcell row) = pints (toks (rcell row)).

  Lemma pa_tokL : forall r, In r lrows -> tokenize (nth (pj_ji c) r PNone) = pints (tkL r).
  Proof. exact (pj_cell_l c lsrc (fun v => tokenize v = pints (toks v)) HtokL). Qed.
  Lemma pa_tokR : forall r, In r rrows -> tokenize (nth (pj_jj c) r PNone) = pints (tkR r).
  Proof. exact (pj_cell_r c rsrc (fun v => tokenize v = pints (toks v)) HtokR). Qed.
  Lemma pa_L : map tkL lrows = L.
  Proof. exact (pj_map_l c lsrc toks). Qed.
  Lemma pa_R : map tkR rrows = R.
  Proof. exact (pj_map_r c rsrc toks). Qed.
  Lemma pa_sizeL bound : (forall row, In row lsrc -> len (toks (lcell row)) < bound) ->
    forall r, In r lrows -> len (tkL r) < bound.
  Proof. intros H. exact (pj_cell_l c lsrc (fun v => len (toks v) < bound) H). Qed.
  Lemma pa_sizeR bound : (forall row, In row rsrc -> len (toks (rcell row)) < bound) ->
    forall r, In r rrows -> len (tkR r) < bound.
  Proof. intros H. exact (pj_cell_r c rsrc (fun v => len (toks v) < bound) H). Qed.

  (* ------------------------------------------------------------ OverlapFilter._filter_tables_split *)
  Theorem overlap_filter_tables_split_rows_refines_proj (op : string) (size : pyval) (cf : pyval -> pyval -> pyval) :
    comp_op_map op = Some cf -> num_of size <> None ->
    exists (T : list triple) (rows : list (list pyval)) (header : pyval),
      overlap_tables_core op size L R = Some T /\
      overlap_filter_tables_split_rows (PList (map PList lrows)) (PList (map PList rrows)) (l_proj c) (r_proj c)
        (PStr (p_lkey c)) (PStr (p_rkey c)) (PStr (p_ljoin c)) (PStr (p_rjoin c)) size (PStr op)
        (l_out c) (r_out c) (PStr (p_lpre c)) (PStr (p_rpre c)) (PBool (p_score c)) showp tokenize
      = PTuple [PList (map PList rows); header] /\
      py_insert0 header (PStr "_id"%string) = py_strs (header_spec c) /\
      Permutation rows (map (pj_spec_row c lsrc rsrc (p_score c)) T) /\
      forall t, In t T ->
        exists cells, out_cells c (nth (fst (fst t)) lsrc []) (nth (snd (fst t)) rsrc []) = Some cells /\
                      cells_spec c (nth (fst (fst t)) lsrc []) (nth (snd (fst t)) rsrc []) = Some cells.
  Proof.
    intros Hop Hnum.
    destruct (pj_index c lsrc rsrc) as (Hlk & Hlj & Hlo & Hrk & Hrj & Hro & Hhas & Hnohas & Hhdr).
    destruct (overlap_filter_tables_split_rows_refines op size (p_score c) lrows rrows (l_proj c) (r_proj c)
                (PStr (p_lkey c)) (PStr (p_rkey c)) (PStr (p_ljoin c)) (PStr (p_rjoin c))
                (l_out c) (r_out c) (PStr (p_lpre c)) (PStr (p_rpre c)) showp
                (pj_ki c) (pj_ji c) (pj_kj c) (pj_jj c) (pj_li c) (pj_ri c) (pj_has c) (pj_hdr c)
                tokenize tkL tkR cf Hlk Hlj Hlo Hrk Hrj Hro Hhas Hnohas Hhdr
                (pj_lrows_ok c lsrc Hwf Hlsrc) (pj_rrows_ok c rsrc Hwf Hrsrc) pa_tokL pa_tokR Hop Hnum)
      as (T & rows & ET & Egen & Perm & Hb).
    rewrite pa_L, pa_R in ET.
    destruct (pj_rows c lsrc rsrc Hwf Hlsrc Hrsrc (p_score c) T rows Hb Perm) as [Hp Hc].
    exists T, rows. eexists. split; [exact ET|]. split; [exact Egen|].
    split; [apply pj_header|]. split; [exact Hp | exact Hc].
  Qed.

  (* ------------------------------------------------------------ _overlap_coefficient_join_split *)
  Theorem overlap_coefficient_join_split_rows_refines_proj (t : pyval) (op : string) (ae : bool)
          (cf : pyval -> pyval -> pyval) :
    comp_op_map op = Some cf -> num_of t <> None ->
    (forall x, In x L \/ In x R -> 0 < len x -> f_is_zero (f_of_Z (len x)) = false) ->
    exists (T : list triple) (rows : list (list pyval)) (header : pyval),
      ovc_core t op ae L R = Some T /\
      overlap_coefficient_join_split_rows (PList (map PList lrows)) (PList (map PList rrows)) (l_proj c) (r_proj c)
        (PStr (p_lkey c)) (PStr (p_rkey c)) (PStr (p_ljoin c)) (PStr (p_rjoin c)) t (PStr op) (PBool ae)
        (l_out c) (r_out c) (PStr (p_lpre c)) (PStr (p_rpre c)) (PBool (p_score c)) showp tokenize
      = PTuple [PList (map PList rows); header] /\
      py_insert0 header (PStr "_id"%string) = py_strs (header_spec c) /\
      Permutation rows (map (pj_spec_row c lsrc rsrc (p_score c)) T) /\
      forall tr, In tr T ->
        exists cells, out_cells c (nth (fst (fst tr)) lsrc []) (nth (snd (fst tr)) rsrc []) = Some cells /\
                      cells_spec c (nth (fst (fst tr)) lsrc []) (nth (snd (fst tr)) rsrc []) = Some cells.
  Proof.
    intros Hop Hnum Hfz.
    destruct (pj_index c lsrc rsrc) as (Hlk & Hlj & Hlo & Hrk & Hrj & Hro & Hhas & Hnohas & Hhdr).
    destruct (overlap_coefficient_join_split_rows_refines t op ae (p_score c) lrows rrows (l_proj c) (r_proj c)
                (PStr (p_lkey c)) (PStr (p_rkey c)) (PStr (p_ljoin c)) (PStr (p_rjoin c))
                (l_out c) (r_out c) (PStr (p_lpre c)) (PStr (p_rpre c)) showp
                (pj_ki c) (pj_ji c) (pj_kj c) (pj_jj c) (pj_li c) (pj_ri c) (pj_has c) (pj_hdr c)
                tokenize tkL tkR cf Hlk Hlj Hlo Hrk Hrj Hro Hhas Hnohas Hhdr
                (pj_lrows_ok c lsrc Hwf Hlsrc) (pj_rrows_ok c rsrc Hwf Hrsrc) pa_tokL pa_tokR Hop Hnum)
      as (T & rows & ET & Egen & Perm & Hb).
    { rewrite pa_L, pa_R. exact Hfz. }
    rewrite pa_L, pa_R in ET.
    destruct (pj_rows c lsrc rsrc Hwf Hlsrc Hrsrc (p_score c) T rows Hb Perm) as [Hp Hc].
    exists T, rows. eexists. split; [exact ET|]. split; [exact Egen|].
    split; [apply pj_header|]. split; [exact Hp | exact Hc].
  Qed.

  (* ------------------------------------------------------------ the three filters' _filter_tables_split *)
  Section Filters.
    Variables (p : fparams) (ae : bool) (bound : Z).
    Hypothesis Hns : p_score c = false.          (* the filters have no score column *)
    Hypothesis Hf : formulas_ok p bound.
    Hypothesis HsL : forall row, In row lsrc -> len (toks (lcell row)) < bound.
    Hypothesis HsR : forall row, In row rsrc -> len (toks (rcell row)) < bound.

    Theorem size_filter_tables_split_rows_refines_proj :
      exists (T : list triple) (rows : list (list pyval)) (header : pyval),
        filter_tables_core KSize p ae L R = Some T /\
        size_filter_tables_split_rows (PList (map PList lrows)) (PList (map PList rrows)) (l_proj c) (r_proj c)
          (PStr (p_lkey c)) (PStr (p_rkey c)) (PStr (p_ljoin c)) (PStr (p_rjoin c)) (PStr (fm p)) (ft p) (PBool ae)
          (l_out c) (r_out c) (PStr (p_lpre c)) (PStr (p_rpre c)) showp tokenize
        = PTuple [PList (map PList rows); header] /\
        py_insert0 header (PStr "_id"%string) = py_strs (header_spec c) /\
        Permutation rows (map (pj_spec_row c lsrc rsrc false) T) /\
        forall tr, In tr T ->
          exists cells, out_cells c (nth (fst (fst tr)) lsrc []) (nth (snd (fst tr)) rsrc []) = Some cells /\
                        cells_spec c (nth (fst (fst tr)) lsrc []) (nth (snd (fst tr)) rsrc []) = Some cells.
    Proof.
      destruct (pj_index c lsrc rsrc) as (Hlk & Hlj & Hlo & Hrk & Hrj & Hro & Hhas & Hnohas & Hhdr).
      destruct (size_filter_tables_split_rows_refines p ae bound lrows rrows (l_proj c) (r_proj c)
                  (PStr (p_lkey c)) (PStr (p_rkey c)) (PStr (p_ljoin c)) (PStr (p_rjoin c))
                  (l_out c) (r_out c) (PStr (p_lpre c)) (PStr (p_rpre c)) showp
                  (pj_ki c) (pj_ji c) (pj_kj c) (pj_jj c) (pj_li c) (pj_ri c) (pj_has c) (pj_hdr c)
                  tokenize tkL tkR Hlk Hlj Hlo Hrk Hrj Hro Hhas Hnohas Hhdr
                  (pj_lrows_ok c lsrc Hwf Hlsrc) (pj_rrows_ok c rsrc Hwf Hrsrc) pa_tokL pa_tokR Hf
                  (pa_sizeR bound HsR))
        as (T & rows & ET & Egen & Perm & Hb).
      rewrite pa_L, pa_R in ET.
      destruct (pj_rows c lsrc rsrc Hwf Hlsrc Hrsrc false T rows Hb Perm) as [Hp Hc].
      exists T, rows. eexists. split; [exact ET|]. split; [exact Egen|].
      split; [apply pj_header_noscore; exact Hns|]. split; [exact Hp | exact Hc].
    Qed.

    Theorem prefix_filter_tables_split_rows_refines_proj :
      exists (T : list triple) (rows : list (list pyval)) (header : pyval),
        filter_tables_core KPrefix p ae L R = Some T /\
        prefix_filter_tables_split_rows (PList (map PList lrows)) (PList (map PList rrows)) (l_proj c) (r_proj c)
          (PStr (p_lkey c)) (PStr (p_rkey c)) (PStr (p_ljoin c)) (PStr (p_rjoin c)) (PStr (fm p)) (ft p) (PBool ae)
          (l_out c) (r_out c) (PStr (p_lpre c)) (PStr (p_rpre c)) showp (PInt (fq p)) tokenize
        = PTuple [PList (map PList rows); header] /\
        py_insert0 header (PStr "_id"%string) = py_strs (header_spec c) /\
        Permutation rows (map (pj_spec_row c lsrc rsrc false) T) /\
        forall tr, In tr T ->
          exists cells, out_cells c (nth (fst (fst tr)) lsrc []) (nth (snd (fst tr)) rsrc []) = Some cells /\
                        cells_spec c (nth (fst (fst tr)) lsrc []) (nth (snd (fst tr)) rsrc []) = Some cells.
    Proof.
      destruct (pj_index c lsrc rsrc) as (Hlk & Hlj & Hlo & Hrk & Hrj & Hro & Hhas & Hnohas & Hhdr).
      destruct (prefix_filter_tables_split_rows_refines p ae bound lrows rrows (l_proj c) (r_proj c)
                  (PStr (p_lkey c)) (PStr (p_rkey c)) (PStr (p_ljoin c)) (PStr (p_rjoin c))
                  (l_out c) (r_out c) (PStr (p_lpre c)) (PStr (p_rpre c)) showp
                  (pj_ki c) (pj_ji c) (pj_kj c) (pj_jj c) (pj_li c) (pj_ri c) (pj_has c) (pj_hdr c)
                  tokenize tkL tkR Hlk Hlj Hlo Hrk Hrj Hro Hhas Hnohas Hhdr
                  (pj_lrows_ok c lsrc Hwf Hlsrc) (pj_rrows_ok c rsrc Hwf Hrsrc) pa_tokL pa_tokR Hf
                  (pa_sizeL bound HsL) (pa_sizeR bound HsR))
        as (T & rows & ET & Egen & Perm & Hb).
      rewrite pa_L, pa_R in ET.
      destruct (pj_rows c lsrc rsrc Hwf Hlsrc Hrsrc false T rows Hb Perm) as [Hp Hc].
      exists T, rows. eexists. split; [exact ET|]. split; [exact Egen|].
      split; [apply pj_header_noscore; exact Hns|]. split; [exact Hp | exact Hc].
    Qed.

    Theorem position_filter_tables_split_rows_refines_proj :
      exists (T : list triple) (rows : list (list pyval)) (header : pyval),
        filter_tables_core KPosition p ae L R = Some T /\
        position_filter_tables_split_rows (PList (map PList lrows)) (PList (map PList rrows)) (l_proj c) (r_proj c)
          (PStr (p_lkey c)) (PStr (p_rkey c)) (PStr (p_ljoin c)) (PStr (p_rjoin c)) (PStr (fm p)) (ft p) (PBool ae)
          (l_out c) (r_out c) (PStr (p_lpre c)) (PStr (p_rpre c)) showp (PInt (fq p)) tokenize
        = PTuple [PList (map PList rows); header] /\
        py_insert0 header (PStr "_id"%string) = py_strs (header_spec c) /\
        Permutation rows (map (pj_spec_row c lsrc rsrc false) T) /\
        forall tr, In tr T ->
          exists cells, out_cells c (nth (fst (fst tr)) lsrc []) (nth (snd (fst tr)) rsrc []) = Some cells /\
                        cells_spec c (nth (fst (fst tr)) lsrc []) (nth (snd (fst tr)) rsrc []) = Some cells.
    Proof.
      destruct (pj_index c lsrc rsrc) as (Hlk & Hlj & Hlo & Hrk & Hrj & Hro & Hhas & Hnohas & Hhdr).
      destruct (position_filter_tables_split_rows_refines p ae bound lrows rrows (l_proj c) (r_proj c)
                  (PStr (p_lkey c)) (PStr (p_rkey c)) (PStr (p_ljoin c)) (PStr (p_rjoin c))
                  (l_out c) (r_out c) (PStr (p_lpre c)) (PStr (p_rpre c)) showp
                  (pj_ki c) (pj_ji c) (pj_kj c) (pj_jj c) (pj_li c) (pj_ri c) (pj_has c) (pj_hdr c)
                  tokenize tkL tkR Hlk Hlj Hlo Hrk Hrj Hro Hhas Hnohas Hhdr
                  (pj_lrows_ok c lsrc Hwf Hlsrc) (pj_rrows_ok c rsrc Hwf Hrsrc) pa_tokL pa_tokR Hf
                  (pa_sizeL bound HsL) (pa_sizeR bound HsR))
        as (T & rows & ET & Egen & Perm & Hb).
      rewrite pa_L, pa_R in ET.
      destruct (pj_rows c lsrc rsrc Hwf Hlsrc Hrsrc false T rows Hb Perm) as [Hp Hc].
      exists T, rows. eexists. split; [exact ET|]. split; [exact Egen|].
      split; [apply pj_header_noscore; exact Hns|]. split; [exact Hp | exact Hc].
    Qed.
  End Filters.

  (* ------------------------------------------------------------ _edit_distance_join_split *)
  Section Ed.
    Variables (q tau : Z) (op : string) (sim_fn : pyval -> pyval -> pyval) (str : pyval -> list Z)
              (cf : pyval -> pyval -> pyval).
    Hypothesis Htau : 0 <= tau.
    Hypothesis Hq : 1 <= q.
    Hypothesis HlenL : forall row, In row lsrc -> py_len (lcell row) = PInt (len (str (lcell row))).
    Hypothesis HlenR : forall row, In row rsrc -> py_len (rcell row) = PInt (len (str (rcell row))).
    Hypothesis Hsim : forall l r, In l lsrc -> In r rsrc ->
      sim_fn (lcell l) (rcell r) = ed_dist (str (lcell l)) (str (rcell r)).
    Hypothesis Hop : comp_op_map op = Some cf.

    Theorem edit_distance_join_split_rows_refines_proj :
      exists (T : list triple) (rows : list (list pyval)) (header : pyval),
        ed_core q tau op (map (fun row => (str (lcell row), toks (lcell row))) lsrc)
                         (map (fun row => (str (rcell row), toks (rcell row))) rsrc) = Some T /\
        edit_distance_join_split_rows (PList (map PList lrows)) (PList (map PList rrows)) (l_proj c) (r_proj c)
          (PStr (p_lkey c)) (PStr (p_rkey c)) (PStr (p_ljoin c)) (PStr (p_rjoin c)) (PInt tau) (PStr op)
          (l_out c) (r_out c) (PStr (p_lpre c)) (PStr (p_rpre c)) (PBool (p_score c)) showp (PInt q)
          tokenize sim_fn
        = PTuple [PList (map PList rows); header] /\
        py_insert0 header (PStr "_id"%string) = py_strs (header_spec c) /\
        Permutation rows (map (pj_spec_row c lsrc rsrc (p_score c)) T) /\
        forall tr, In tr T ->
          exists cells, out_cells c (nth (fst (fst tr)) lsrc []) (nth (snd (fst tr)) rsrc []) = Some cells /\
                        cells_spec c (nth (fst (fst tr)) lsrc []) (nth (snd (fst tr)) rsrc []) = Some cells.
    Proof.
      destruct (pj_index c lsrc rsrc) as (Hlk & Hlj & Hlo & Hrk & Hrj & Hro & Hhas & Hnohas & Hhdr).
      destruct (edit_distance_join_split_rows_refines q tau op (p_score c) lrows rrows (l_proj c) (r_proj c)
                  (PStr (p_lkey c)) (PStr (p_rkey c)) (PStr (p_ljoin c)) (PStr (p_rjoin c))
                  (l_out c) (r_out c) (PStr (p_lpre c)) (PStr (p_rpre c)) showp
                  (pj_ki c) (pj_ji c) (pj_kj c) (pj_jj c) (pj_li c) (pj_ri c) (pj_has c) (pj_hdr c)
                  tokenize sim_fn (fun r => str (nth (pj_ji c) r PNone)) (fun r => str (nth (pj_jj c) r PNone))
                  tkL tkR cf Htau Hq Hlk Hlj Hlo Hrk Hrj Hro Hhas Hnohas Hhdr
                  (pj_lrows_ok c lsrc Hwf Hlsrc) (pj_rrows_ok c rsrc Hwf Hrsrc) pa_tokL pa_tokR)
        as (T & rows & ET & Egen & Perm & Hb).
      - exact (pj_cell_l c lsrc (fun v => py_len v = PInt (len (str v))) HlenL).
      - exact (pj_cell_r c rsrc (fun v => py_len v = PInt (len (str v))) HlenR).
      - intros l r Hl Hr.
        refine (pj_cell_l c lsrc (fun v => sim_fn v (nth (pj_jj c) r PNone)
                                            = ed_dist (str v) (str (nth (pj_jj c) r PNone))) _ l Hl).
        intros lrow Hlrow.
        refine (pj_cell_r c rsrc (fun v => sim_fn (cellv (p_lcols c) lrow (p_ljoin c)) v
                                            = ed_dist (str (cellv (p_lcols c) lrow (p_ljoin c))) (str v)) _ r Hr).
        intros rrow Hrrow. apply Hsim; assumption.
      - exact Hop.
      - pose proof (pj_map_l c lsrc (fun v => (str v, toks v))) as EL'.
        pose proof (pj_map_r c rsrc (fun v => (str v, toks v))) as ER'.
        cbv beta in EL', ER'. unfold tkL, tkR, lrows, rrows in ET. cbv beta in ET.
        rewrite EL', ER' in ET.
        destruct (pj_rows c lsrc rsrc Hwf Hlsrc Hrsrc (p_score c) T rows Hb Perm) as [Hp Hc].
        exists T, rows. eexists. split; [exact ET|]. split; [exact Egen|].
        split; [apply pj_header|]. split; [exact Hp | exact Hc].
    Qed.
  End Ed.
End Common.

Print Assumptions overlap_filter_tables_split_rows_refines_proj.
Print Assumptions overlap_coefficient_join_split_rows_refines_proj.
Print Assumptions size_filter_tables_split_rows_refines_proj.
Print Assumptions prefix_filter_tables_split_rows_refines_proj.
Print Assumptions position_filter_tables_split_rows_refines_proj.
Print Assumptions edit_distance_join_split_rows_refines_proj.
