(* Step (b) of the wrapper refinement: the GENERATED `split_table` (Gen/WrapperGen.v: the source text of
   utils/generic_helper.py:split_table on lists, table[a:b] = py_slice) produces exactly the chunks
   of Model/Api.v `chunks_of`, which are cut with the generated `split_bounds` (HelperGen.v):

     split_table (PList xs) (PInt k) = PList [PList (slice_nat xs ab) | ab <- split_bs k (len xs)]

   `split_table_eval` (the loop, for any split size whose products are finite) is axiom-free.
   `split_table_shape` / `split_table_chunks` use the float facts of Proofs/SplitArith.v (finite
   products, beta >= 0) and therefore depend on the standard-library Reals axioms, exactly as
   SplitFacts.split_partition / chunks_of_partition do.                                          *)
From Coq Require Import ZArith Reals Lia Bool String List.
From SSJ Require Import F64 F64Spec PyNum HelperGen ArithCommon SplitArith SplitFacts Api Frame WrapperGen.
Import ListNotations.
Open Scope Z_scope.

Lemma py_len_list xs : py_len (PList xs) = PInt (Z.of_nat (List.length xs)).
Proof. reflexivity. Qed.

(* the loop of split_table, for any split size s whose products are finite *)
Lemma split_table_eval : forall xs k s,
  f_is_zero (f_of_Z k) = false ->
  (forall i, 0 <= i <= k -> f_is_finite (fmul (f_of_Z i) s) = true) ->
  s = fmul (fdiv f_lit1 (f_of_Z k)) (f_of_Z (Z.of_nat (List.length xs))) ->
  split_table (PList xs) (PInt k) =
  PList (map (fun i => py_slice (PList xs) (PInt (f_round_int (fmul (f_of_Z i) s)))
                                (PInt (f_round_int (fmul (f_of_Z (i + 1)) s)))) (idx k)).
Proof.
intros xs k s Hz Hfin Hs.
unfold split_table.
fold f_lit1. rewrite py_len_list, py_truediv_fi by exact Hz. rewrite py_mul_fi. rewrite <- Hs.
cbn [bindx].
unfold py_range, py_for, py_iter.
rewrite Z.sub_0_r.
set (g := fun x : pyval => match x with
  | PInt i => py_slice (PList xs) (PInt (f_round_int (fmul (f_of_Z i) s)))
                       (PInt (f_round_int (fmul (f_of_Z (i + 1)) s)))
  | _ => PNone end).
rewrite (fold_append _ g).
- cbn [bindx app]. unfold idx. rewrite !map_map. reflexivity.
- intros a x Hx. apply in_map_iff in Hx. destruct Hx as (j & <- & Hj).
  apply in_seq in Hj.
  assert (Hi : 0 <= Z.of_nat j /\ Z.of_nat j + 1 <= k) by lia.
  change (0 + Z.of_nat j) with (Z.of_nat j).
  set (i := Z.of_nat j) in *.
  cbn [is_exc fst bindx].
  rewrite py_add_ii, !py_mul_if.
  rewrite !py_round1_fin by (apply Hfin; lia).
  rewrite !py_int_int. unfold g. cbn [py_slice py_append strict2 bindx]. reflexivity.
Qed.

(* py_slice with non-negative bounds is the model's slice *)
Lemma py_slice_nat : forall xs a b, 0 <= a -> 0 <= b ->
  py_slice (PList xs) (PInt a) (PInt b) = PList (slice_nat xs (Z.to_nat a, Z.to_nat b)).
Proof.
intros xs a b Ha Hb. cbn [py_slice]. f_equal. unfold slice_nat, clamp. cbn [fst snd].
assert (Ea : a <? 0 = false) by (apply Z.ltb_ge; lia).
assert (Eb : b <? 0 = false) by (apply Z.ltb_ge; lia).
rewrite Ea, Eb.
set (n := List.length xs).
destruct (Z_le_gt_dec a (Z.of_nat n)) as [Han|Han].
- replace (Z.to_nat (Z.min a (Z.of_nat n))) with (Z.to_nat a) by lia.
  destruct (Z_le_gt_dec b (Z.of_nat n)) as [Hbn|Hbn].
  + replace (Z.to_nat (Z.min b (Z.of_nat n))) with (Z.to_nat b) by lia. reflexivity.
  + replace (Z.to_nat (Z.min b (Z.of_nat n))) with n by lia.
    rewrite !firstn_all2; [reflexivity | rewrite skipn_length; fold n; lia | rewrite skipn_length; fold n; lia].
- replace (Z.to_nat (Z.min a (Z.of_nat n))) with n by lia.
  rewrite (skipn_all2 xs) by (fold n; lia).
  rewrite (skipn_all2 xs) by (fold n; lia).
  now rewrite !firstn_nil.
Qed.

Theorem split_table_shape : forall xs k,
  1 <= k < 2^31 -> Z.of_nat (List.length xs) < 2^31 ->
  split_table (PList xs) (PInt k) =
  PList (map (fun i => py_slice (PList xs) (PInt (beta k (Z.of_nat (List.length xs)) i))
                                (PInt (beta k (Z.of_nat (List.length xs)) (i + 1)))) (idx k)).
Proof.
intros xs k Hk Hl. set (n := Z.of_nat (List.length xs)).
assert (Hn : 0 <= n < 2^31) by (unfold n; lia).
apply (split_table_eval xs k (ssize k n)).
- destruct (f_of_31 k ltac:(lia)) as [Fk Rk].
  apply fin_pos_nz; [exact Fk | ]. rewrite Rk. apply IZR_lt. lia.
- intros i Hi. apply fin_finite. apply (prod_spec k n i); lia.
- reflexivity.
Qed.

(* the chunks handed to the per-chunk core are the chunks of Model/Api.v *)
Theorem split_table_chunks : forall xs k,
  1 <= k < 2^31 -> Z.of_nat (List.length xs) < 2^31 ->
  split_table (PList xs) (PInt k) =
  PList (map (fun ab => PList (slice_nat xs ab)) (split_bs k (Z.of_nat (List.length xs)))).
Proof.
intros xs k Hk Hl. rewrite split_table_shape by assumption.
set (n := Z.of_nat (List.length xs)).
assert (Hn : 0 <= n < 2^31) by (unfold n; lia).
unfold split_bs, idx, bnat. rewrite !map_map. f_equal.
apply map_ext_in. intros j Hj. apply in_seq in Hj.
rewrite py_slice_nat by (apply beta_nonneg; lia).
now rewrite Nat2Z.inj_succ, <- Z.add_1_r.
Qed.

(* r_splits[job_index] *)
Lemma getitem_chunk : forall (chs : list (list pyval)) (j : nat), (j < List.length chs)%nat ->
  py_getitem (PList (map PList chs)) (PInt (Z.of_nat j)) = PList (nth j chs []).
Proof.
intros chs j Hj. cbn [py_getitem strict2]. unfold norm_index. rewrite map_length.
assert (E1 : Z.of_nat j <? 0 = false) by (apply Z.ltb_ge; lia).
assert (E2 : Z.of_nat j <? Z.of_nat (List.length chs) = true) by (apply Z.ltb_lt; lia).
rewrite E1. cbv beta iota zeta. rewrite E1, E2, Nat2Z.id.
match goal with |- nth ?jj ?l ?d = _ => rewrite (nth_indep l d (PList [])) by (rewrite map_length; exact Hj) end.
apply (map_nth PList).
Qed.

Example split_table_10_3 :
  split_table (PList (map PInt [1;2;3;4;5;6;7;8;9;10])) (PInt 3) =
  PList [PList (map PInt [1;2;3]); PList (map PInt [4;5;6;7]); PList (map PInt [8;9;10])].
Proof. vm_compute. reflexivity. Qed.

Print Assumptions split_table_eval.    (* closed *)
Print Assumptions py_slice_nat.        (* closed *)
Print Assumptions split_table_chunks.  (* Reals axioms, through SplitArith *)
