(* The GENERATED per-chunk loop of Filter.filter_candset (Gen/MatcherGen.v: filter_candset_split_rows, from
   filter/filter.py:_filter_candset_split) as a filter of the candidate rows:

     filter_candset_split_rows candset .. ltable rtable .. filter_pair = frame (columns of candset, filter keep rows)

   where keep looks the two key cells of a candidate row up in the tables (first row whose key cell is == to the
   probe) and keeps the row iff filter_pair(left filter value, right filter value) is false.  Every column of
   the candidate set is kept, rows in order.  Lists only; axiom-free.                                       *)
From Coq Require Import ZArith Bool List String Lia.
From SSJ Require Import F64 PyNum HelperGen JoinGen Projection ProjSpec ProjectionFacts IndexPyFacts JoinGenFacts
     Frame WrapperGen FilterPairGen MatcherGen WrapperRefineFrame WrapperRefineMissing WrapperRefineCore
     FilterPairRefineBase MatcherRefineBase MatcherRefineLoop.
Import ListNotations.
Open Scope Z_scope.

Lemma py_not_val v : is_exc v = false -> py_not v = PBool (negb (py_truth v)).
Proof. destruct v; try reflexivity. discriminate. Qed.

Lemma append_bools (acc : list bool) (b : bool) :
  py_append (PList (map PBool acc)) (PBool b) = PList (map PBool (acc ++ [b])%list).
Proof. unfold py_append, strict2. now rewrite map_app. Qed.

Section CandLoop.
  Variables (lc rc cc : list string) (lrows rrows crows : list (list pyval)).
  Variables (lk rk lf rf clk crk : string) (showp : pyval) (filter_pair : pyval -> pyval -> pyval).

  Definition c_ki := posn lk lc.
  Definition c_fi := posn lf lc.
  Definition c_kj := posn rk rc.
  Definition c_fj := posn rf rc.
  Definition c_cki := posn clk cc.
  Definition c_ckj := posn crk cc.

  (* is the candidate row kept?  (filter_pair says "do not drop") *)
  Definition cand_keep (crow : list pyval) : bool :=
    match find_row c_ki lrows (nth c_cki crow PNone), find_row c_kj rrows (nth c_ckj crow PNone) with
    | Some lrow, Some rrow => negb (py_truth (filter_pair (nth c_fi lrow PNone) (nth c_fj rrow PNone)))
    | _, _ => false
    end.

  (* both keys are found (no KeyError) and filter_pair raises nothing on the two filter values *)
  Definition cand_hyps (crow : list pyval) : Prop :=
    exists lrow rrow,
      find_row c_ki lrows (nth c_cki crow PNone) = Some lrow /\
      find_row c_kj rrows (nth c_ckj crow PNone) = Some rrow /\
      is_exc (filter_pair (nth c_fi lrow PNone) (nth c_fj rrow PNone)) = false.

  Hypothesis Hls : shaped (List.length lc) lrows.
  Hypothesis Hrs : shaped (List.length rc) rrows.
  Hypothesis Hcs : shaped (List.length cc) crows.
  Hypothesis Hlok : forall r, In r lrows -> row_ok r.
  Hypothesis Hrok : forall r, In r rrows -> row_ok r.
  Hypothesis Hcok : forall r, In r crows -> row_ok r.
  Hypothesis Hlk : In lk lc.
  Hypothesis Hlf : In lf lc.
  Hypothesis Hrk : In rk rc.
  Hypothesis Hrf : In rf rc.
  Hypothesis Hclk : In clk cc.
  Hypothesis Hcrk : In crk cc.
  Hypothesis Hld : distinct_keys c_ki lrows.
  Hypothesis Hrd : distinct_keys c_kj rrows.
  Hypothesis Hrows : forall crow, In crow crows -> cand_hyps crow.

  Definition Icand (acc : list bool) (s : pyval * (pyval * (pyval * (pyval * (pyval * pyval))))) : Prop :=
    exists t1 t2 t3 t4, s = (PNone, (t1, (t2, (t3, (t4, PList (map PBool acc)))))).

  Theorem filter_candset_split_rows_loop :
    filter_candset_split_rows (sframe cc crows) (PStr clk) (PStr crk) (sframe lc lrows) (sframe rc rrows)
      (PStr lk) (PStr rk) (PStr lf) (PStr rf) showp filter_pair
    = sframe cc (filter cand_keep crows).
  Proof.
    unfold filter_candset_split_rows.
    assert (Hkil : (c_ki < List.length lc)%nat) by (apply posn_lt; exact Hlk).
    assert (Hkjl : (c_kj < List.length rc)%nat) by (apply posn_lt; exact Hrk).
    assert (Hlkey : forall r, In r lrows -> is_exc (nth c_ki r PNone) = false)
      by (intros r Hr; apply (Hlok r Hr); apply nth_In; rewrite (Hls r Hr); exact Hkil).
    assert (Hrkey : forall r, In r rrows -> is_exc (nth c_kj r PNone) = false)
      by (intros r Hr; apply (Hrok r Hr); apply nth_In; rewrite (Hrs r Hr); exact Hkjl).
    repeat first [ rewrite frame_columns_sframe by assumption
                 | rewrite py_list_strs
                 | rewrite py_index_strs by assumption
                 | rewrite IndexPyFacts.bindx_ok by reflexivity ].
    change (idx_py lc lk) with (natpy c_ki). change (idx_py rc rk) with (natpy c_kj).
    rewrite (build_dict_from_table_eq lc lrows c_ki) by assumption.
    rewrite (IndexPyFacts.bindx_ok (PDict _)) by reflexivity.
    rewrite (build_dict_from_table_eq rc rrows c_kj) by assumption.
    rewrite (IndexPyFacts.bindx_ok (PDict _)) by reflexivity.
    repeat first [ rewrite frame_columns_sframe by assumption
                 | rewrite py_list_strs
                 | rewrite py_index_strs by assumption
                 | rewrite IndexPyFacts.bindx_ok by reflexivity ].
    cbv zeta. rewrite frame_itertuples_sframe by assumption.
    change (idx_py lc lf) with (natpy c_fi). change (idx_py rc rf) with (natpy c_fj).
    change (idx_py cc clk) with (natpy c_cki). change (idx_py cc crk) with (natpy c_ckj).
    match goal with |- context [py_for (PList (map PTuple crows)) ?r ?f ?b ?s0] =>
      pose proof (py_for_inv _ _ _ PTuple Icand r f b
                    (fun acc crow => (acc ++ [cand_keep crow])%list) crows s0 []) as HI end.
    lapply HI; [clear HI; intros HI|].
    2:{ unfold Icand. do 4 eexists. reflexivity. }
    lapply HI; [clear HI; intros HI|].
    2:{ intros acc s (t1 & t2 & t3 & t4 & ->). reflexivity. }
    lapply HI; [clear HI; intros HI|].
    - destruct HI as (t1 & t2 & t3 & t4 & E). rewrite E. clear E.
      cbv beta iota. rewrite (IndexPyFacts.bindx_ok PNone) by reflexivity.
      rewrite fold_left_snoc. cbn [app].
      unfold frame_mask. rewrite with_sframe by exact Hcs.
      rewrite mask_of_bools. cbn [fr_rows fr_cols]. rewrite map_length, Nat.eqb_refl.
      rewrite select_mask_filter. reflexivity.
    - clear HI. intros acc s crow Hin (t1 & t2 & t3 & t4 & ->). cbv beta iota.
      assert (Hc1 : (c_cki < List.length crow)%nat) by (rewrite (Hcs crow Hin); apply posn_lt; exact Hclk).
      assert (Hc2 : (c_ckj < List.length crow)%nat) by (rewrite (Hcs crow Hin); apply posn_lt; exact Hcrk).
      assert (E1 : is_exc (nth c_cki crow PNone) = false) by (apply (Hcok crow Hin); apply nth_In; exact Hc1).
      assert (E2 : is_exc (nth c_ckj crow PNone) = false) by (apply (Hcok crow Hin); apply nth_In; exact Hc2).
      destruct (Hrows crow Hin) as (lrow & rrow & Fl & Fr & Hfp).
      assert (Hl : In lrow lrows) by (eapply find_row_In; exact Fl).
      assert (Hr : In rrow rrows) by (eapply find_row_In; exact Fr).
      assert (Hml : (c_fi < List.length lrow)%nat) by (rewrite (Hls lrow Hl); apply posn_lt; exact Hlf).
      assert (Hmr : (c_fj < List.length rrow)%nat) by (rewrite (Hrs rrow Hr); apply posn_lt; exact Hrf).
      rewrite (IndexPyFacts.bindx_ok (PTuple crow)) by reflexivity.
      rewrite (getrow_tuple crow c_cki Hc1). rewrite (IndexPyFacts.bindx_ok (nth c_cki crow PNone)) by exact E1.
      rewrite (getrow_tuple crow c_ckj Hc2). rewrite (IndexPyFacts.bindx_ok (nth c_ckj crow PNone)) by exact E2.
      rewrite (getitem_dict _ _ E1), dict_lookup_rows, Fl. cbn [option_map].
      rewrite (IndexPyFacts.bindx_ok (PTuple lrow)) by reflexivity.
      rewrite (getitem_dict _ _ E2), dict_lookup_rows, Fr. cbn [option_map].
      rewrite (IndexPyFacts.bindx_ok (PTuple rrow)) by reflexivity.
      rewrite (getrow_tuple lrow c_fi Hml), (getrow_tuple rrow c_fj Hmr).
      rewrite (py_not_val _ Hfp), append_bools.
      rewrite (IndexPyFacts.bindx_ok (PList _)) by reflexivity.
      unfold cand_keep. rewrite Fl, Fr. unfold Icand. do 4 eexists. reflexivity.
  Qed.
End CandLoop.

Print Assumptions filter_candset_split_rows_loop.
