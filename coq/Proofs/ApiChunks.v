(* C10 for `api_join` WITHOUT a partition hypothesis: the bounded chunk-partition fact
   `hpart_bounded` (Proofs/PartitionInst.v) replaces the unbounded Section hypothesis of
   Proofs/ApiLift.v; the price is the premise  length (j_R c) < 2^31.  The `_h` theorems take
   the bounded partition fact (`hpart_b`) as a premise and are axiom-free; the `_b` theorems and
   the `C10_*` corollaries instantiate it and inherit the four Reals/Flocq axioms of the float
   arithmetic in split_table.  Also: chunk independence of the edit-distance join under the
   q-gram count-filter hypothesis `cf` (Proofs/EditJoin.v).                                  *)
From Coq Require Import ZArith Bool List String Lia Permutation.
From SSJ Require Import F64 PyNum HelperGen TokenOrdering Filters Lev Joins Api
                        EditArith EditJoin OrderingFacts CoreLiftBase CoreLift ApiLift
                        MatcherChunks SplitArith SplitFacts PartitionInst.
Import ListNotations.
Open Scope string_scope.
Open Scope list_scope.
Open Scope Z_scope.

Lemma filter_len_bound {A} (f : A -> bool) (l : list A) :
  Z.of_nat (List.length (filter f l)) <= Z.of_nat (List.length l).
Proof. induction l as [|a l IH]; simpl; [lia|]. destruct (f a); simpl; lia. Qed.

(* ------------------------------------------------------------------ with the bounded fact as premise *)
Section Bounded.
  Hypothesis Hp : hpart_b.

  Theorem api_join_unchunked_h : forall c,
    Z.of_nat (List.length (j_R c)) < 2^31 ->
    chunk_indep_on c (filter present (j_L c)) (filter present (j_R c)) ->
    operm (api_join c) (unchunked c).
  Proof.
    intros c Hlen Hci. rewrite api_join_eq.
    assert (Hlen' : Z.of_nat (List.length (filter present (j_R c))) < 2^31).
    { pose proof (filter_len_bound present (j_R c)). lia. }
    destruct (Hp row (j_njobs c) (j_cpus c) (filter present (j_R c)) Hlen') as [chs [E Hc]].
    rewrite E. unfold unchunked. apply operm_option_map; [apply post_perm|].
    pose proof (chunks_concat c _ _ Hci chs) as Hcc. rewrite Hc in Hcc.
    apply Hcc. apply incl_refl.
  Qed.

  Theorem api_join_chunks_h : forall c,
    Z.of_nat (List.length (j_R c)) < 2^31 ->
    chunk_indep_on c (filter present (j_L c)) (filter present (j_R c)) ->
    operm (api_join c) (api_join (with_njobs c 1 (j_cpus c))).
  Proof. intros c Hlen Hci. rewrite api_join_njobs1. apply api_join_unchunked_h; assumption. Qed.

  Theorem api_join_njobs_indep_h : forall c n1 c1 n2 c2,
    Z.of_nat (List.length (j_R c)) < 2^31 ->
    chunk_indep_on c (filter present (j_L c)) (filter present (j_R c)) ->
    operm (api_join (with_njobs c n1 c1)) (api_join (with_njobs c n2 c2)).
  Proof.
    intros c n1 c1 n2 c2 Hlen Hci.
    eapply operm_trans; [apply (api_join_unchunked_h (with_njobs c n1 c1)); assumption|].
    apply operm_sym. apply (api_join_unchunked_h (with_njobs c n2 c2)); assumption.
  Qed.

  Theorem api_join_rows_perm_h : forall c L' R',
    Permutation (j_L c) L' -> Permutation (j_R c) R' ->
    Z.of_nat (List.length (j_R c)) < 2^31 ->
    chunk_indep_on c (filter present (j_L c)) (filter present (j_R c)) ->
    chunk_indep_on c (filter present L') (filter present R') ->
    operm (api_join c) (api_join (with_rows c L' R')).
  Proof.
    intros c L' R' HL HR Hlen Hci Hci'.
    eapply operm_trans; [apply api_join_unchunked_h; assumption|].
    eapply operm_trans;
      [|apply operm_sym; apply (api_join_unchunked_h (with_rows c L' R'));
        [cbn [with_rows j_R]; rewrite <- (Permutation_length HR); exact Hlen| exact Hci']].
    unfold unchunked. cbn [with_rows j_L j_R]. rewrite kcore_with_rows.
    pose proof (kcore_perm c _ _ _ _ (Permutation_filter present _ _ HL)
                           (Permutation_filter present _ _ HR)) as Hk.
    destruct (kcore c (filter present (j_L c)) (filter present (j_R c))) as [a|],
             (kcore c (filter present L') (filter present R')) as [b|]; simpl in *; try tauto.
    unfold post. cbn [with_rows j_with_score j_allow_missing j_L j_R].
    apply Permutation_app.
    - destruct (j_with_score c); [exact Hk| apply Permutation_map; exact Hk].
    - destruct (j_allow_missing c); [apply missing_pairs_perm; assumption|constructor].
  Qed.
End Bounded.

(* ------------------------------------------------------------------ instantiated *)
Theorem api_join_chunks_b : forall c,
  Z.of_nat (List.length (j_R c)) < 2^31 ->
  chunk_indep_on c (filter present (j_L c)) (filter present (j_R c)) ->
  operm (api_join c) (api_join (with_njobs c 1 (j_cpus c))).
Proof. exact (api_join_chunks_h hpart_bounded). Qed.

Theorem api_join_njobs_indep_b : forall c n1 c1 n2 c2,
  Z.of_nat (List.length (j_R c)) < 2^31 ->
  chunk_indep_on c (filter present (j_L c)) (filter present (j_R c)) ->
  operm (api_join (with_njobs c n1 c1)) (api_join (with_njobs c n2 c2)).
Proof. exact (api_join_njobs_indep_h hpart_bounded). Qed.

(* the bound on R' follows from the one on j_R c: permutations preserve the length *)
Theorem api_join_rows_perm_b : forall c L' R',
  Permutation (j_L c) L' -> Permutation (j_R c) R' ->
  Z.of_nat (List.length (j_R c)) < 2^31 ->
  chunk_indep_on c (filter present (j_L c)) (filter present (j_R c)) ->
  chunk_indep_on c (filter present L') (filter present R') ->
  operm (api_join c) (api_join (with_rows c L' R')).
Proof. exact (api_join_rows_perm_h hpart_bounded). Qed.

(* ------------------------------------------------------------------ closed C10 corollaries *)
Definition Rbound (c : jcase) : Prop := Z.of_nat (List.length (j_R c)) < 2^31.

Theorem C10_overlap_filter_njobs : forall c n1 c1 n2 c2,
  j_entry c = EOverlapFilter -> Rbound c ->
  operm (api_join (with_njobs c n1 c1)) (api_join (with_njobs c n2 c2)).
Proof. intros c n1 c1 n2 c2 He Hb. apply api_join_njobs_indep_b; [exact Hb|]. apply chunk_indep_overlap_filter. exact He. Qed.

Theorem C10_overlap_join_njobs : forall c n1 c1 n2 c2,
  j_entry c = EJoin "OVERLAP" -> Rbound c ->
  operm (api_join (with_njobs c n1 c1)) (api_join (with_njobs c n2 c2)).
Proof. intros c n1 c1 n2 c2 He Hb. apply api_join_njobs_indep_b; [exact Hb|]. apply chunk_indep_overlap_join. exact He. Qed.

Theorem C10_ovc_join_njobs : forall c n1 c1 n2 c2,
  j_entry c = EJoin "OVERLAP_COEFFICIENT" -> Rbound c ->
  operm (api_join (with_njobs c n1 c1)) (api_join (with_njobs c n2 c2)).
Proof. intros c n1 c1 n2 c2 He Hb. apply api_join_njobs_indep_b; [exact Hb|]. apply chunk_indep_ovc_join. exact He. Qed.

Theorem C10_size_filter_njobs : forall c m n1 c1 n2 c2,
  j_entry c = EFilter KSize m -> Rbound c ->
  operm (api_join (with_njobs c n1 c1)) (api_join (with_njobs c n2 c2)).
Proof. intros c m n1 c1 n2 c2 He Hb. apply api_join_njobs_indep_b; [exact Hb|]. apply (chunk_indep_size_filter c m He). Qed.

Theorem C10_overlap_filter_rows : forall c L' R',
  j_entry c = EOverlapFilter -> Rbound c -> Permutation (j_L c) L' -> Permutation (j_R c) R' ->
  operm (api_join c) (api_join (with_rows c L' R')).
Proof. intros c L' R' He Hb HL HR. apply api_join_rows_perm_b; try assumption; apply chunk_indep_overlap_filter; exact He. Qed.

Theorem C10_overlap_join_rows : forall c L' R',
  j_entry c = EJoin "OVERLAP" -> Rbound c -> Permutation (j_L c) L' -> Permutation (j_R c) R' ->
  operm (api_join c) (api_join (with_rows c L' R')).
Proof. intros c L' R' He Hb HL HR. apply api_join_rows_perm_b; try assumption; apply chunk_indep_overlap_join; exact He. Qed.

Theorem C10_ovc_join_rows : forall c L' R',
  j_entry c = EJoin "OVERLAP_COEFFICIENT" -> Rbound c -> Permutation (j_L c) L' -> Permutation (j_R c) R' ->
  operm (api_join c) (api_join (with_rows c L' R')).
Proof. intros c L' R' He Hb HL HR. apply api_join_rows_perm_b; try assumption; apply chunk_indep_ovc_join; exact He. Qed.

Theorem C10_size_filter_rows : forall c m L' R',
  j_entry c = EFilter KSize m -> Rbound c -> Permutation (j_L c) L' -> Permutation (j_R c) R' ->
  operm (api_join c) (api_join (with_rows c L' R')).
Proof. intros c m L' R' He Hb HL HR. apply api_join_rows_perm_b; try assumption; apply (chunk_indep_size_filter c m He). Qed.

(* ------------------------------------------------------------------ the edit-distance join *)
(* the pair function of the edit-distance core in the vocabulary of Proofs/EditJoin.v *)
Lemma ed_pair_ok q tau op all (l r : erow) : 0 <= tau -> 1 <= q ->
  ed_pair q tau op (ed_row all l) (ed_row all r) =
  Some (if ed_ok q tau op all l r then [EditJoin.ed_dist l r] else []).
Proof.
  intros Ht Hq. unfold ed_pair, ed_row. cbn [fst snd].
  change (ed_params q tau) with (edp q tau). rewrite prefix_cand_ed by assumption.
  unfold ed_ok, ed_pref, ed_lenf, EditJoin.ed_dist, ed_dist_of.
  destruct (share _ _); [|reflexivity]. cbn [andb].
  destruct ((_ <=? _) && (_ <=? _)); [|reflexivity].
  destruct (cmp_op _ _ _); reflexivity.
Qed.

(* under the count filter the verdict does not depend on the token universe `all` *)
Lemma ed_ok_char q tau op all (l r : erow) : 0 <= tau -> 1 <= q -> ed_op op -> cf q l r ->
  incl (snd l) all -> incl (snd r) all ->
  ed_ok q tau op all l r = share (snd l) (snd r) && cmp_op op (EditJoin.ed_dist l r) (PInt tau).
Proof.
  intros Ht Hq Hop Hcf Hl Hr. unfold ed_ok.
  destruct (cmp_op op (EditJoin.ed_dist l r) (PInt tau)) eqn:Hc; [|rewrite !andb_false_r; reflexivity].
  pose proof (ed_dist_le op tau l r Hop Ht Hc) as Hlev.
  rewrite (ed_lenf_ok tau l r) by lia. rewrite !andb_true_r.
  destruct (share (snd l) (snd r)) eqn:Hs.
  - apply ed_pref_complete; try assumption.
    unfold cf in Hcf.
    assert (q * lev (fst l) (fst r) <= q * tau) by (apply Z.mul_le_mono_nonneg_l; lia). lia.
  - destruct (ed_pref q tau all l r) eqn:Hp; [|reflexivity].
    apply ed_pref_share in Hp. congruence.
Qed.

(* the count-filter hypothesis on the present rows of the two tables *)
Definition cf_rows (q : Z) (Lp Rp : list row) : Prop :=
  forall l r, In l Lp -> In r Rp -> cf q (rowval l) (rowval r).

Definition ed_case (c : jcase) (tau : Z) : Prop :=
  j_entry c = EJoin "EDIT_DISTANCE" /\ py_int (py_floor (j_t c)) = PInt tau /\
  0 <= tau /\ 1 <= j_q c /\ ed_op (j_op c).

Lemma core_pf_ed c tau all x y : ed_case c tau ->
  core_pf c all x y = ed_pair (j_q c) tau (j_op c) (ed_row all x) (ed_row all y).
Proof. intros [He [Et _]]. unfold core_pf. rewrite He. cbn. rewrite Et. reflexivity. Qed.

Theorem pf_chunk_indep_ed : forall c tau Lp Rp,
  ed_case c tau -> cf_rows (j_q c) Lp Rp -> pf_chunk_indep c Lp Rp.
Proof.
  intros c tau Lp Rp Hc Hcf Rc Rc' l r Hi Hi' Hl Hr Hr'.
  rewrite !(core_pf_ed c tau _ _ _ Hc). destruct Hc as [_ [_ [Ht [Hq Hop]]]].
  rewrite !ed_pair_ok by assumption.
  assert (Hcflr : cf (j_q c) (rowval l) (rowval r)) by (apply Hcf; [exact Hl| apply Hi; exact Hr]).
  rewrite !(ed_ok_char (j_q c) tau (j_op c) _ _ _ Ht Hq Hop Hcflr); try reflexivity;
    first [apply (toks_incl_all_l _ _ l Hl) | apply (toks_incl_all_r _ _ r); assumption].
Qed.

Theorem chunk_indep_ed : forall c tau Lp Rp,
  ed_case c tau -> cf_rows (j_q c) Lp Rp -> chunk_indep_on c Lp Rp.
Proof.
  intros c tau Lp Rp Hc Hcf. apply chunk_indep_of_pf; [|apply (pf_chunk_indep_ed c tau); assumption].
  destruct Hc as [He [Et _]]. unfold core_ok. rewrite He. cbn. rewrite Et. reflexivity.
Qed.

(* the chunk result of the edit-distance join without any reference to the token order *)
Theorem kcore_ed_char : forall c tau Lp Rc res,
  ed_case c tau -> cf_rows (j_q c) Lp Rc -> kcore c Lp Rc = Some res ->
  forall lk rk s, In (lk, rk, s) res <->
    exists l r, In l Lp /\ In r Rc /\ lk = fst l /\ rk = fst r /\
      share (toks_of l) (toks_of r) = true /\
      cmp_op (j_op c) (EditJoin.ed_dist (rowval l) (rowval r)) (PInt tau) = true /\
      s = EditJoin.ed_dist (rowval l) (rowval r).
Proof.
  intros c tau Lp Rc res Hc Hcf H lk rk s. rewrite (kcore_In _ _ _ _ H). split.
  - intros [l [r [lst [Hl [Hr [-> [-> [Epf Hs]]]]]]]]. exists l, r.
    rewrite (core_pf_ed c tau _ _ _ Hc) in Epf. destruct Hc as [_ [_ [Ht [Hq Hop]]]].
    rewrite ed_pair_ok in Epf by assumption. injection Epf as <-.
    rewrite (ed_ok_char _ _ _ _ _ _ Ht Hq Hop (Hcf l r Hl Hr)
               (toks_incl_all_l Lp Rc l Hl) (toks_incl_all_r Lp Rc r Hr)) in Hs.
    cbn [rowval snd] in Hs.
    destruct (share (toks_of l) (toks_of r)); [|destruct Hs]. cbn [andb] in Hs.
    destruct (cmp_op _ _ _); [|destruct Hs]. destruct Hs as [<-|[]]. auto 10.
  - intros [l [r [Hl [Hr [-> [-> [Hs [Hcm ->]]]]]]]].
    exists l, r, [EditJoin.ed_dist (rowval l) (rowval r)].
    split; [exact Hl|]. split; [exact Hr|]. split; [reflexivity|]. split; [reflexivity|].
    split; [|left; reflexivity].
    rewrite (core_pf_ed c tau _ _ _ Hc). destruct Hc as [_ [_ [Ht [Hq Hop]]]].
    rewrite ed_pair_ok by assumption.
    rewrite (ed_ok_char _ _ _ _ _ _ Ht Hq Hop (Hcf l r Hl Hr)
               (toks_incl_all_l Lp Rc l Hl) (toks_incl_all_r Lp Rc r Hr)).
    cbn [rowval snd]. rewrite Hs, Hcm. reflexivity.
Qed.

Lemma cf_rows_filter q L R :
  cf_rows q L R -> cf_rows q (filter present L) (filter present R).
Proof.
  intros H l r Hl Hr. apply filter_In in Hl. apply filter_In in Hr. apply H; tauto.
Qed.

Lemma ed_case_njobs c tau n cp : ed_case c tau -> ed_case (with_njobs c n cp) tau.
Proof. intros H. exact H. Qed.

Theorem C10_ed_join_njobs : forall c tau n1 c1 n2 c2,
  ed_case c tau -> cf_rows (j_q c) (j_L c) (j_R c) -> Rbound c ->
  operm (api_join (with_njobs c n1 c1)) (api_join (with_njobs c n2 c2)).
Proof.
  intros c tau n1 c1 n2 c2 Hc Hcf Hb. apply api_join_njobs_indep_b; [exact Hb|].
  apply (chunk_indep_ed c tau); [exact Hc| apply cf_rows_filter; exact Hcf].
Qed.

Theorem C10_ed_join_rows : forall c tau L' R',
  ed_case c tau -> cf_rows (j_q c) (j_L c) (j_R c) -> Rbound c ->
  Permutation (j_L c) L' -> Permutation (j_R c) R' ->
  operm (api_join c) (api_join (with_rows c L' R')).
Proof.
  intros c tau L' R' Hc Hcf Hb HL HR. apply api_join_rows_perm_b; try assumption.
  - apply (chunk_indep_ed c tau); [exact Hc| apply cf_rows_filter; exact Hcf].
  - apply (chunk_indep_ed c tau); [exact Hc|]. apply cf_rows_filter.
    intros l r Hl Hr. apply Hcf.
    + apply (Permutation_in _ (Permutation_sym HL) Hl).
    + apply (Permutation_in _ (Permutation_sym HR) Hr).
Qed.

(* ------------------------------------------------------------------ examples *)
Definition ex_ed (nj : Z) : jcase :=
  {| j_entry := EJoin "EDIT_DISTANCE"; j_t := PInt 1; j_q := 2; j_op := "<="; j_allow_empty := true;
     j_allow_missing := true; j_with_score := true; j_njobs := nj; j_cpus := 4;
     j_L := [(1, Some ([1; 2; 3], [12; 23])); (2, None); (4, Some ([1; 2], [12]))];
     j_R := [(7, Some ([1; 2; 4], [12; 24])); (9, None); (6, Some ([1; 2; 3], [23; 12]));
             (5, Some ([1; 2], [12]))] |}.

Example ed_chunks_ex :
  same_result (api_join (ex_ed 3)) (api_join (ex_ed 1)) &&
  same_result (api_join (ex_ed 2)) (api_join (with_rows (ex_ed 2) (rev (j_L (ex_ed 2))) (rev (j_R (ex_ed 2)))))
  && match api_join (ex_ed 3) with Some o => Nat.ltb 4 (List.length o) | None => false end = true.
Proof. vm_compute. reflexivity. Qed.

Example ed_case_ex : ed_case (ex_ed 3) 1.
Proof. unfold ed_case, ed_op. cbn. repeat split; auto; lia. Qed.

Print Assumptions api_join_unchunked_h.
Print Assumptions api_join_chunks_h.
Print Assumptions api_join_njobs_indep_h.
Print Assumptions api_join_rows_perm_h.
Print Assumptions pf_chunk_indep_ed.
Print Assumptions chunk_indep_ed.
Print Assumptions kcore_ed_char.
Print Assumptions api_join_chunks_b.
Print Assumptions C10_overlap_join_njobs.
Print Assumptions C10_ed_join_njobs.
Print Assumptions C10_ed_join_rows.
