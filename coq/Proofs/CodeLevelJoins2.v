(* Code-level property theorems, part 2: the GENERATED wrappers overlap_coefficient_join_rows,
   overlap_join_rows (C01 / C02 / C08 / C09 through ApiJoinSpec.api_join_spec) and edit_distance_join_rows
   (C03 through ApiFilterClosed.C03_edit_distance_join).

   Hypotheses: those of the end-to-end theorems (WrapperRefineOvc / FilterWrapperRefineOverlap /
   WrapperRefineEd), MINUS the ones derived here
       Hn (present right rows < 2^31)   from the bound on the whole right table,
       HszL / HszR (counts < 2^50)      from the size_bound of set_cells            (overlap coefficient),
       Hnum (threshold is a number)     from size = PInt T                          (overlap),
   PLUS what `valid_join_case` / `valid_ed_case` ask and the end-to-end theorems do not give:
       tables_extra (1 <= cpus, both tables < 2^31 rows, unique keys) and set_cells (no repeated token, fewer
       than 2^20 tokens) for the two set joins; an INTEGER overlap size (overlap);
       unique keys and < 2^31 right rows for the edit-distance join.
   Derived from the validators: lower_op / ed_op of the operator, 1 <= T of the overlap size, and -- since
   validate_threshold states its range tests positively and so rejects NaN (`ovc_validator_rejects_nan`) --
   the positive threshold of the overlap coefficient (`ovc_pos_of_valid`; it used to be an extra hypothesis,
   the old statement is kept as `C01_C02_code_overlap_coefficient_pos`).                                *)
From Coq Require Import ZArith Bool List String Lia Permutation SpecFloat.
From SSJ Require Import F64 PyNum FilterUtilsGen HelperGen TokenOrderingGen ValidationGen IndexGen JoinGen
     TokenOrdering Measures Filters Lev Qgram Joins Api JoinSpec MetaSpec Projection ProjSpec IndexPyFacts ProjectionFacts
     JoinGenFacts JoinGenLoop JoinRefine JoinRefineProj SplitFacts SplitRefineEd Frame WrapperGen FilterWrapperGen
     WrapperRefineFrame WrapperRefineMissing WrapperRefineCore WrapperRefineChunks WrapperRefine WrapperRefineClosed
     WrapperRefineApi WrapperRefineEnd WrapperBody WrapperApiLink WrapperEnd
     WrapperRefineOvc WrapperRefineEd FilterWrapperRefineOverlap
     OrderingFacts OverlapFacts OverlapMeasure ValidationFacts ValidationFloat EditJoin
     ApiLift ApiFilterBase ApiFilterEdit ApiFilterClosed ApiJoinSpec PartitionInst CodeLevelBase CodeLevelJoins.
Import ListNotations.
Open Scope Z_scope.

Lemma ed_op_of_valid op :
  is_exc (validate_comp_op_for_sim_measure (PStr op) (PStr "EDIT_DISTANCE")) = false -> ed_op op.
Proof.
  intros H. apply (proj1 (comp_op_sets op)). rewrite (vco_edit op) in *.
  destruct (String.eqb "<=" op || (String.eqb "<" op || (String.eqb "=" op || false))); [reflexivity | discriminate H].
Qed.

Lemma overlap_size_pos T : is_exc (validate_threshold (PInt T) (PStr "OVERLAP")) = false -> 1 <= T.
Proof. rewrite vt_overlap. destruct (Z.leb_spec T 0); [discriminate | lia]. Qed.

(* the threshold validator rejects NaN (before the source change it accepted it, and `pos_threshold`
   had to be assumed separately) *)
Example ovc_validator_rejects_nan :
  is_exc (validate_threshold (PFloat S754_nan) (PStr "OVERLAP_COEFFICIENT")) = true /\
  num_of (PFloat S754_nan) <> None /\ ~ pos_threshold (PFloat S754_nan).
Proof. split; [reflexivity|]. split; [discriminate|]. unfold pos_threshold. vm_compute. discriminate. Qed.

(* `threshold > 0` is True (Python's exact comparison with the int 0): the threshold is a number, and
   positive in the sense of OverlapMeasure.pos_threshold -- for ANY Python value t *)
Lemma pos_threshold_of_gt0 t : py_gt t (PInt 0) = PBool true -> pos_threshold t /\ num_of t <> None.
Proof.
  intros G. destruct t as [k|f|s|b| |l|l|l|e];
    try (unfold py_gt, py_ord, strict2, ord_cmp, num_of in G; discriminate G).
  - split; [|discriminate]. apply pos_threshold_int.
    assert (Hk : py_truth (py_gt (PInt k) (PInt 0)) = true) by (rewrite G; reflexivity).
    rewrite PyFacts.py_gt_int in Hk. apply Z.ltb_lt. exact Hk.
  - split; [|discriminate]. apply pos_threshold_float.
    rewrite py_gt_float_0 in G. injection G as G. exact G.
  - destruct b; [|discriminate G]. split; [reflexivity | discriminate].
Qed.

(* a threshold accepted by the validator of a (0, 1]-measure is positive: float, int or anything else *)
Lemma unit_pos_of_valid t m :
  String.eqb m "EDIT_DISTANCE" = false -> String.eqb m "OVERLAP" = false ->
  is_exc (validate_threshold t (PStr m)) = false -> pos_threshold t /\ num_of t <> None.
Proof. intros H1 H2 H. exact (pos_threshold_of_gt0 t (vt_unit_accepts_gt0 t m H1 H2 H)). Qed.

Lemma ovc_pos_of_valid t :
  is_exc (validate_threshold t (PStr "OVERLAP_COEFFICIENT")) = false -> pos_threshold t.
Proof. intros H. exact (proj1 (unit_pos_of_valid t "OVERLAP_COEFFICIENT" eq_refl eq_refl H)). Qed.
(* (the hypothesis `num_of (ft p) <> None` of the end-to-end theorem follows in the same way) *)
Lemma ovc_num_of_valid t :
  is_exc (validate_threshold t (PStr "OVERLAP_COEFFICIENT")) = false -> num_of t <> None.
Proof. intros H. exact (proj2 (unit_pos_of_valid t "OVERLAP_COEFFICIENT" eq_refl eq_refl H)). Qed.

Lemma set_cells_below c toks lsrc rsrc bound : size_bound <= bound -> set_cells c toks lsrc rsrc ->
  (forall row, In row (lpresent c lsrc) -> len (toks (lcell c row)) < bound) /\
  (forall row, In row (rpresent c rsrc) -> len (toks (rcell c row)) < bound).
Proof.
  intros Hb (HL & HR). split; intros row Hr; [pose proof (proj2 (HL row Hr)) | pose proof (proj2 (HR row Hr))]; lia.
Qed.

Lemma rpres_bound c rsrc : Z.of_nat (List.length rsrc) < 2^31 -> Z.of_nat (List.length (rpresent c rsrc)) < 2^31.
Proof. intros H. pose proof (rpresent_length c rsrc). lia. Qed.

(* ================================================================== overlap coefficient *)
Section CodeOvc.
  Variables (c : pcase) (p : fparams) (op : string) (ae am : bool) (njobs cpus : Z).
  Variables (lsrc rsrc : list (list pyval)) (showp : pyval).
  Variables (tokenize : pyval -> pyval).
  Variables (toks : pyval -> list Z) (cf : pyval -> pyval -> pyval) (kz : pyval -> Z).

  (* of the end-to-end theorem *)
  Hypothesis Hwf : well_formed c.
  Hypothesis Hlsrc : forall row, In row lsrc -> List.length row = List.length (p_lcols c) /\ ProjSpec.row_ok row.
  Hypothesis Hrsrc : forall row, In row rsrc -> List.length row = List.length (p_rcols c) /\ ProjSpec.row_ok row.
  Hypothesis HtokL : forall row, In row (lpresent c lsrc) -> tokenize (lcell c row) = pints (toks (lcell c row)).
  Hypothesis HtokR : forall row, In row (rpresent c rsrc) -> tokenize (rcell c row) = pints (toks (rcell c row)).
  Hypothesis Hfm : fm p = "OVERLAP_COEFFICIENT"%string.
  Hypothesis Hvt : is_exc (validate_threshold (ft p) (PStr "OVERLAP_COEFFICIENT")) = false.
  Hypothesis Hvop : is_exc (validate_comp_op_for_sim_measure (PStr op) (PStr "OVERLAP_COEFFICIENT")) = false.
  Hypothesis Hvout : is_exc (validate_output_attrs (py_opt_strs (p_lout c)) (py_strs (p_lcols c))
                                                   (py_opt_strs (p_rout c)) (py_strs (p_rcols c))) = false.
  Hypothesis Hop : comp_op_map op = Some cf.
  Hypothesis Hnum : num_of (ft p) <> None.
  Hypothesis Hid : ~ In "_id"%string (mv_header c).
  (* extra, for valid_join_case (pos_threshold (ft p) is no longer among them: ovc_pos_of_valid) *)
  Hypothesis Htab : tables_extra c kz cpus lsrc rsrc.
  Hypothesis Hset : set_cells c toks lsrc rsrc.

  Definition ovc_code_jcase : jcase := jcase_of c p op ae am njobs cpus lsrc rsrc toks kz.

  Lemma ovc_valid : valid_join_case ovc_code_jcase.
  Proof using Hfm Hvt Hvop Htab Hset.
    pose proof (ovc_pos_of_valid (ft p) Hvt) as Hpos.
    split; [|split].
    - apply (tables_ok_of c lsrc rsrc toks (fun _ => []) kz ovc_code_jcase eq_refl eq_refl); assumption.
    - exact (lower_op_of_valid op "OVERLAP_COEFFICIENT" eq_refl Hvop).
    - exists "OVERLAP_COEFFICIENT"%string. split.
      + unfold ovc_code_jcase, jcase_of. cbn [j_entry]. now rewrite Hfm.
      + right. right. split; [reflexivity | exact Hpos].
  Qed.

  Theorem C01_C02_code_overlap_coefficient :
    code_join_conclusion c am lsrc rsrc kz ovc_code_jcase
      (ovc_call c p op ae am njobs cpus lsrc rsrc showp tokenize).
  Proof using All.
    destruct (set_cells_below c toks lsrc rsrc (2^50) ltac:(vm_compute; discriminate) Hset) as (HszL & HszR).
    destruct Htab as (_ & _ & HlR & _).
    pose proof (overlap_coefficient_join_rows_end_to_end_flat c p op ae am njobs cpus lsrc rsrc showp tokenize
                  toks cf kz Hwf Hlsrc Hrsrc HtokL HtokR Hfm Hvt Hvop Hvout Hop Hnum Hid HszL HszR
                  (rpres_bound c rsrc HlR)) as HA.
    change (end_to_end_flat c am lsrc rsrc toks (fun _ => []) kz ovc_code_jcase
              (ovc_call c p op ae am njobs cpus lsrc rsrc showp tokenize)) in HA.
    assert (HB : forall out, api_join ovc_code_jcase = Some out -> four_specs ovc_code_jcase out).
    { intros out Ho. exact (api_join_spec hpart_cpus_bounded ovc_code_jcase out ovc_valid Ho). }
    split.
    - exact (code_level_four_specs c am lsrc rsrc toks (fun _ => []) kz ovc_code_jcase _ HA HB).
    - apply (code_level_four_specs_kview c am lsrc rsrc toks (fun _ => []) kz ovc_code_jcase); try assumption.
      + reflexivity.
      + exact I.
  Qed.
End CodeOvc.

(* the statement as it was before validate_threshold rejected NaN (extra hypothesis pos_threshold (ft p)):
   now a corollary *)
Corollary C01_C02_code_overlap_coefficient_pos :
  forall (c : pcase) (p : fparams) (op : string) (ae am : bool) (njobs cpus : Z)
         (lsrc rsrc : list (list pyval)) (showp : pyval) (tokenize : pyval -> pyval)
         (toks : pyval -> list Z) (cf : pyval -> pyval -> pyval) (kz : pyval -> Z),
  well_formed c ->
  (forall row, In row lsrc -> List.length row = List.length (p_lcols c) /\ ProjSpec.row_ok row) ->
  (forall row, In row rsrc -> List.length row = List.length (p_rcols c) /\ ProjSpec.row_ok row) ->
  (forall row, In row (lpresent c lsrc) -> tokenize (lcell c row) = pints (toks (lcell c row))) ->
  (forall row, In row (rpresent c rsrc) -> tokenize (rcell c row) = pints (toks (rcell c row))) ->
  fm p = "OVERLAP_COEFFICIENT"%string ->
  is_exc (validate_threshold (ft p) (PStr "OVERLAP_COEFFICIENT")) = false ->
  is_exc (validate_comp_op_for_sim_measure (PStr op) (PStr "OVERLAP_COEFFICIENT")) = false ->
  is_exc (validate_output_attrs (py_opt_strs (p_lout c)) (py_strs (p_lcols c))
                                (py_opt_strs (p_rout c)) (py_strs (p_rcols c))) = false ->
  comp_op_map op = Some cf ->
  num_of (ft p) <> None ->
  ~ In "_id"%string (mv_header c) ->
  pos_threshold (ft p) ->
  tables_extra c kz cpus lsrc rsrc ->
  set_cells c toks lsrc rsrc ->
  code_join_conclusion c am lsrc rsrc kz (ovc_code_jcase c p op ae am njobs cpus lsrc rsrc toks kz)
    (ovc_call c p op ae am njobs cpus lsrc rsrc showp tokenize).
Proof.
  intros c p op ae am njobs cpus lsrc rsrc showp tokenize toks cf kz
         Hwf Hl Hr HtL HtR Hfm Hvt Hvop Hvout Hop Hnum Hid _ Htab Hset.
  exact (C01_C02_code_overlap_coefficient c p op ae am njobs cpus lsrc rsrc showp tokenize toks cf kz
           Hwf Hl Hr HtL HtR Hfm Hvt Hvop Hvout Hop Hnum Hid Htab Hset).
Qed.

(* ================================================================== overlap join *)
Section CodeOverlap.
  Variables (c : pcase) (T : Z) (op : string) (am : bool) (q njobs cpus : Z).
  Variables (lsrc rsrc : list (list pyval)) (showp : pyval).
  Variables (tokenize : pyval -> pyval).
  Variables (toks : pyval -> list Z) (cf : pyval -> pyval -> pyval) (kz : pyval -> Z).

  Hypothesis Hwf : well_formed c.
  Hypothesis Hlsrc : forall row, In row lsrc -> List.length row = List.length (p_lcols c) /\ ProjSpec.row_ok row.
  Hypothesis Hrsrc : forall row, In row rsrc -> List.length row = List.length (p_rcols c) /\ ProjSpec.row_ok row.
  Hypothesis HtokL : forall row, In row (lpresent c lsrc) -> tokenize (lcell c row) = pints (toks (lcell c row)).
  Hypothesis HtokR : forall row, In row (rpresent c rsrc) -> tokenize (rcell c row) = pints (toks (rcell c row)).
  Hypothesis Hvout : is_exc (validate_output_attrs (py_opt_strs (p_lout c)) (py_strs (p_lcols c))
                                                   (py_opt_strs (p_rout c)) (py_strs (p_rcols c))) = false.
  Hypothesis Hop : comp_op_map op = Some cf.
  Hypothesis Hid : ~ In "_id"%string (mv_header c).
  (* the overlap size is an INTEGER T (extra: the end-to-end theorem only needs a number) *)
  Hypothesis Hvt : is_exc (validate_threshold (PInt T) (PStr "OVERLAP")) = false.
  Hypothesis Hvop : is_exc (validate_comp_op_for_sim_measure (PStr op) (PStr "OVERLAP")) = false.
  (* extra, for valid_join_case *)
  Hypothesis Htab : tables_extra c kz cpus lsrc rsrc.
  Hypothesis Hset : set_cells c toks lsrc rsrc.

  (* overlap_join_py has no allow_empty parameter: the model case takes allow_empty = false *)
  Definition ovj_code_jcase : jcase :=
    ovf_jcase c (PInt T) op false am q njobs cpus lsrc rsrc toks kz (EJoin "OVERLAP").

  Lemma ovj_valid : valid_join_case ovj_code_jcase.
  Proof using Hvt Hvop Htab Hset.
    split; [|split].
    - apply (tables_ok_of c lsrc rsrc toks (fun _ => []) kz ovj_code_jcase eq_refl eq_refl); assumption.
    - exact (lower_op_of_valid op "OVERLAP" eq_refl Hvop).
    - exists "OVERLAP"%string. split; [reflexivity|]. right. left. split; [reflexivity|].
      split; [reflexivity|]. exists T. split; [reflexivity | exact (overlap_size_pos T Hvt)].
  Qed.

  Theorem C01_C02_code_overlap_join :
    code_join_conclusion c am lsrc rsrc kz ovj_code_jcase
      (ovj_call c (PInt T) op am njobs cpus lsrc rsrc showp tokenize).
  Proof using All.
    destruct Htab as (_ & _ & HlR & _).
    assert (Hnum : num_of (PInt T) <> None) by discriminate.
    pose proof (overlap_join_rows_end_to_end_flat c (PInt T) op false am q njobs cpus lsrc rsrc showp tokenize
                  toks cf kz Hwf Hlsrc Hrsrc HtokL HtokR Hvout Hop Hnum Hid (rpres_bound c rsrc HlR) Hvt Hvop) as HA.
    assert (HB : forall out, api_join ovj_code_jcase = Some out -> four_specs ovj_code_jcase out).
    { intros out Ho. exact (api_join_spec hpart_cpus_bounded ovj_code_jcase out ovj_valid Ho). }
    split.
    - exact (code_level_four_specs c am lsrc rsrc toks (fun _ => []) kz ovj_code_jcase _ HA HB).
    - apply (code_level_four_specs_kview c am lsrc rsrc toks (fun _ => []) kz ovj_code_jcase); try assumption.
      + reflexivity.
      + exact I.
  Qed.
End CodeOverlap.

(* ================================================================== edit-distance join *)
(* order-independent statements of C03 *)
Definition ed_specs (jc : jcase) (obs : list Api.out_row) : Prop :=
  sound_spec jc obs = true /\ missing_spec jc obs = true /\ empty_spec jc obs = true.
Definition ed_exact (jc : jcase) (tau : Z) (obs : list Api.out_row) : Prop :=
  four_specs jc obs /\
  forall l r, In l (j_L jc) -> In r (j_R jc) -> present l = true -> present r = true ->
    has_pair (fst l) (fst r) obs =
    cmp_op (j_op jc) (JoinSpec.ed_dist l r) (PInt tau) && share (toks_of l) (toks_of r).

Lemma ed_specs_invariant jc : perm_invariant (ed_specs jc).
Proof.
  intros a b P (H2 & H3 & H4).
  rewrite (sound_spec_perm jc a b P) in H2. rewrite (missing_spec_perm jc a b P) in H3.
  rewrite (empty_spec_perm jc a b P) in H4. repeat split; assumption.
Qed.
Lemma ed_exact_invariant jc tau : perm_invariant (ed_exact jc tau).
Proof.
  intros a b P (H1 & H2). split; [exact (four_specs_perm jc a b P H1)|].
  intros l r Hl Hr Pl Pr. rewrite <- (has_pair_perm (fst l) (fst r) a b P). exact (H2 l r Hl Hr Pl Pr).
Qed.

Section CodeEd.
  Variables (c : pcase) (t : pyval) (q tau : Z) (op : string) (ae am : bool) (njobs cpus : Z).
  Variables (lsrc rsrc : list (list pyval)) (showp : pyval).
  Variables (tokenize : pyval -> pyval) (sim_fn : pyval -> pyval -> pyval).
  Variables (toks str : pyval -> list Z) (cf : pyval -> pyval -> pyval) (kz : pyval -> Z).

  Hypothesis Hwf : well_formed c.
  Hypothesis Hlsrc : forall row, In row lsrc -> List.length row = List.length (p_lcols c) /\ ProjSpec.row_ok row.
  Hypothesis Hrsrc : forall row, In row rsrc -> List.length row = List.length (p_rcols c) /\ ProjSpec.row_ok row.
  Hypothesis HtokL : forall row, In row (lpresent c lsrc) -> tokenize (lcell c row) = pints (toks (lcell c row)).
  Hypothesis HtokR : forall row, In row (rpresent c rsrc) -> tokenize (rcell c row) = pints (toks (rcell c row)).
  Hypothesis HlenL : forall row, In row (lpresent c lsrc) -> py_len (lcell c row) = PInt (len (str (lcell c row))).
  Hypothesis HlenR : forall row, In row (rpresent c rsrc) -> py_len (rcell c row) = PInt (len (str (rcell c row))).
  Hypothesis Hsim : forall l r, In l (lpresent c lsrc) -> In r (rpresent c rsrc) ->
    sim_fn (lcell c l) (rcell c r) = SplitRefineEd.ed_dist (str (lcell c l)) (str (rcell c r)).
  Hypothesis Hvt : is_exc (validate_threshold t (PStr "EDIT_DISTANCE")) = false.
  Hypothesis Hvop : is_exc (validate_comp_op_for_sim_measure (PStr op) (PStr "EDIT_DISTANCE")) = false.
  Hypothesis Hvout : is_exc (validate_output_attrs (py_opt_strs (p_lout c)) (py_strs (p_lcols c))
                                                   (py_opt_strs (p_rout c)) (py_strs (p_rcols c))) = false.
  Hypothesis Hop : comp_op_map op = Some cf.
  Hypothesis Hfloor : py_int (py_floor t) = PInt tau.
  Hypothesis Htau : 0 <= tau.
  Hypothesis Hq : 1 <= q.
  Hypothesis Hid : ~ In "_id"%string (mv_header c).
  (* extra, for valid_ed_case: unique keys, fewer than 2^31 right rows *)
  Hypothesis Hkeys : keys_unique c kz lsrc rsrc.
  Hypothesis HlenRt : Z.of_nat (List.length rsrc) < 2^31.

  Definition ed_code_jcase : jcase := ed_jcase c t q op ae am njobs cpus lsrc rsrc toks str kz.
  Definition ed_code_call : pyval := ed_call c t q op am njobs cpus lsrc rsrc showp tokenize sim_fn.

  Lemma ed_valid : valid_ed_case ed_code_jcase tau.
  Proof using Hvop Hfloor Htau Hq Hkeys HlenRt.
    split; [reflexivity|]. split; [exact Hq|]. split; [exact Hfloor|]. split; [exact Htau|].
    split; [exact (ed_op_of_valid op Hvop)|]. split.
    - destruct Hkeys as (HkL & HkR). split; unfold ed_code_jcase, ed_jcase; cbn [j_L j_R].
      + rewrite keysL. exact HkL.
      + rewrite keysR. exact HkR.
    - unfold size_ok, ed_code_jcase, ed_jcase. cbn [j_R]. rewrite map_length. exact HlenRt.
  Qed.

  Lemma ed_flat : end_to_end_flat c am lsrc rsrc toks str kz ed_code_jcase ed_code_call.
  Proof using Hwf Hlsrc Hrsrc HtokL HtokR HlenL HlenR Hsim Hvt Hvop Hvout Hop Hfloor Htau Hq Hid HlenRt.
    exact (edit_distance_join_rows_end_to_end_flat c t q tau op ae am njobs cpus lsrc rsrc showp tokenize sim_fn
             toks str cf kz Hwf Hlsrc Hrsrc HtokL HtokR HlenL HlenR Hsim Hvt Hvop Hvout Hop Hfloor Htau Hq Hid
             (rpres_bound c rsrc HlenRt)).
  Qed.

  (* C03, unconditional part: sound (true distance, once), missing pairs, no spurious empty pairs *)
  Theorem C03_code_edit_distance_sound :
    code_result c am lsrc rsrc kz ed_code_call (ed_specs ed_code_jcase).
  Proof using All.
    apply (code_level_transfer c am lsrc rsrc toks str kz ed_code_jcase ed_code_call _
             (ed_specs_invariant ed_code_jcase) ed_flat).
    intros out Ho. destruct (proj2 (C03_edit_distance_join ed_code_jcase tau ed_valid) out Ho) as (H2 & H3 & H4 & _).
    repeat split; assumption.
  Qed.

  (* C03, for q-gram rows (the tokens of a join cell are the injectively interned q-gram bag of its string):
     all four specifications, and the result is EXACTLY the pairs within the threshold that share a q-gram *)
  Variables (tk : qgram_tok) (f : Z -> Z).
  Hypothesis Hinj : forall a b, f a = f b -> a = b.
  Hypothesis Hqq : q = qq tk.
  Hypothesis Hqgram : cells_sat c lsrc rsrc (fun v => toks v = map f (qgram_bag tk (str v))).

  Lemma ed_qgram_rows : qgram_rows tk f ed_code_jcase.
  Proof using Hqgram.
    destruct Hqgram as (HL & HR). split.
    - intros l Hl Pl. destruct (arowLs_present c lsrc toks str kz l Hl Pl) as (row & Hrow & Et & Es).
      unfold qrow_ok, rowval. cbn [fst snd]. rewrite Et, Es. apply HL. exact Hrow.
    - intros r Hr Pr. destruct (arowRs_present c rsrc toks str kz r Hr Pr) as (row & Hrow & Et & Es).
      unfold qrow_ok, rowval. cbn [fst snd]. rewrite Et, Es. apply HR. exact Hrow.
  Qed.

  Theorem C03_code_edit_distance_exact :
    code_result c am lsrc rsrc kz ed_code_call (ed_exact ed_code_jcase tau) /\
    code_result_kview c kz ed_code_call (four_specs ed_code_jcase).
  Proof using All.
    assert (Hcf : cf_rows ed_code_jcase).
    { apply (qgram_rows_cf tk f ed_code_jcase Hinj); [exact Hqq | rewrite <- Hqq; exact Hq | exact ed_qgram_rows]. }
    assert (HB : forall out, api_join ed_code_jcase = Some out -> ed_exact ed_code_jcase tau out).
    { intros out Ho. destruct (proj2 (C03_edit_distance_join ed_code_jcase tau ed_valid) out Ho) as (H2 & H3 & H4 & H1).
      destruct (H1 Hcf) as (Hc & Hex). split; [repeat split; assumption | exact Hex]. }
    split.
    - exact (code_level_transfer c am lsrc rsrc toks str kz ed_code_jcase ed_code_call _
               (ed_exact_invariant ed_code_jcase tau) ed_flat HB).
    - apply (code_level_four_specs_kview c am lsrc rsrc toks str kz ed_code_jcase).
      + reflexivity.
      + exact I.
      + exact ed_flat.
      + intros out Ho. exact (proj1 (HB out Ho)).
  Qed.
End CodeEd.

Print Assumptions C01_C02_code_overlap_coefficient.
Print Assumptions C01_C02_code_overlap_join.
Print Assumptions C03_code_edit_distance_sound.
Print Assumptions C03_code_edit_distance_exact.
Print Assumptions unit_pos_of_valid.
Print Assumptions ovc_validator_rejects_nan.
Print Assumptions C01_C02_code_overlap_coefficient_pos.
