(* The metamorphic laws of C13 (transposition, threshold refinement, operator partition) and C10
   (same call, different n_jobs / row order) as COROLLARIES of the single-call specifications.
   `out`, `out'`, ... are ARBITRARY lists of rows: no model is involved.  Axiom-free.

   Hypotheses on scores:
   - wf_scores c out  (laws 2, 3, 5): trivially true unless the scores are integers (OVERLAP join,
     OverlapFilter); there every FLOAT score must be a valid double.  Necessary: see
     transpose_noncanon_refuted.
   - typed_scores c out (law 4): float scores for float-valued measures, int scores for OVERLAP.  *)
From Coq Require Import ZArith Bool List String Lia SpecFloat PeanoNat Permutation.
From SSJ Require Import F64 PyNum FilterUtilsGen HelperGen TokenOrdering Measures Filters Joins Api JoinSpec MetaSpec
                        OverlapFacts LawsCanon LawsScore LawsBase LawsSpec.
Import ListNotations.
Open Scope string_scope.
Open Scope Z_scope.

(* ------------------------------------------------------------------ (2) C13 transposition *)
Lemma pair_gray_swap c l r : pair_gray (swap_case c) r l = pair_gray c l r.
Proof.
  unfold pair_gray, swap_case; cbn [j_entry j_op j_t]. destruct (j_entry c) as [m|k m|]; try reflexivity.
  rewrite (gray_sym m _ _ (toks_of r) (toks_of l)), (both_empty_sym r l).
  destruct (is_jcd m), (present l), (present r); reflexivity.
Qed.

Lemma exp_in_swap c l r : exp_in (swap_case c) r l = exp_in c l r.
Proof.
  unfold exp_in, emp_ok, empty_expected, exp_cmp, swap_case; cbn [j_entry j_op j_t j_allow_empty j_allow_missing].
  rewrite (andb_comm (present r) (present l)), (both_empty_sym r l).
  destruct (j_entry c) as [m|k m|]; try reflexivity.
  - rewrite (reported_score_sym m (toks_of r) (toks_of l)). reflexivity.
  - rewrite (overlap_sets_sym (toks_of r) (toks_of l)). reflexivity.
Qed.

Lemma exp_score_swap c l r : exp_score (swap_case c) r l = exp_score c l r.
Proof.
  unfold exp_score, exp_sc, swap_case; cbn [j_entry].
  rewrite (andb_comm (present r) (present l)), (both_empty_sym r l).
  destruct (j_entry c) as [m|k m|]; try reflexivity.
  - rewrite (reported_score_sym m (toks_of r) (toks_of l)). reflexivity.
  - rewrite (overlap_sets_sym (toks_of r) (toks_of l)). reflexivity.
  - rewrite (overlap_sets_sym (toks_of r) (toks_of l)). reflexivity.
Qed.

Theorem transpose_law c out out' :
  set_case c = true -> j_with_score c = true ->
  complete_spec c out = true -> sound_spec c out = true -> missing_spec c out = true ->
  wf_scores c out = true ->
  complete_spec (swap_case c) out' = true -> sound_spec (swap_case c) out' = true ->
  missing_spec (swap_case c) out' = true -> wf_scores (swap_case c) out' = true ->
  transpose_spec c out out' = true.
Proof.
  intros Hset Hws Hc Hs Hm Hwf Hc' Hs' Hm' Hwf'.
  assert (forall c', In c' [c] -> same_tables c c') as Hst.
  { intros c' [<-|[]]. split; reflexivity. }
  pose proof (keep_determined_weak c [c] out Hset Hws Hc Hs Hm Hwf (or_introl eq_refl) Hst) as DA.
  unfold transpose_spec. unfold keep_rows at 2. unfold swap_rows. rewrite filter_map_comm.
  fold (swap_rows (filter (fun x : out_row => negb (row_excluded [c] (snd (fst x), fst (fst x), snd x))) out')).
  set (f' := fun x : out_row => negb (row_excluded [c] (snd (fst x), fst (fst x), snd x))).
  assert (determined (j_L (swap_case c)) (j_R (swap_case c)) (wrel (int_case (swap_case c)))
            (fun r l => negb (exclg [c] l r)) (exp_in (swap_case c)) (exp_score (swap_case c))
            (filter f' out')) as DB0.
  { apply spec_determined_weak; auto.
    - intros r l Hg. apply negb_true_iff in Hg. apply (exclg_in c) in Hg; [|left; reflexivity].
      apply excl1_false in Hg. rewrite pair_gray_swap. tauto.
    - right. intros r l Hg. apply negb_true_iff in Hg. apply (exclg_in c) in Hg; [|left; reflexivity].
      apply excl1_false in Hg. rewrite (andb_comm (present r) (present l)), (both_empty_sym r l). tauto.
    - intros o r l _ Hr Hl. unfold f'.
      rewrite (row_excluded_found c [c] (snd (fst o), fst (fst o), snd o) l r Hst); [reflexivity | exact Hl | exact Hr]. }
  pose proof (determined_swap _ _ _ _ _ _ _ DB0) as DB. cbv beta in DB.
  change (j_R (swap_case c)) with (j_L c) in DB. change (j_L (swap_case c)) with (j_R c) in DB.
  change (int_case (swap_case c)) with (int_case c) in DB.
  eapply (determined_eq _ _ _ _ _ _ _ _ _ _ _ DA DB).
  - intros l r _ _. rewrite exp_in_swap. reflexivity.
  - intros l r s s' _ _ _ H1 H2. rewrite exp_score_swap in H2. eapply wrel_euclid; eassumption.
Qed.

(* the validity hypothesis of wf_scores is necessary for integer-valued scores: both runs report
   the overlap 2 as a float, one of them non-canonical *)
Example transpose_noncanon_refuted :
  exists c out out',
    set_case c = true /\ j_with_score c = true /\
    complete_spec c out = true /\ sound_spec c out = true /\ missing_spec c out = true /\
    complete_spec (swap_case c) out' = true /\ sound_spec (swap_case c) out' = true /\
    missing_spec (swap_case c) out' = true /\ transpose_spec c out out' = false.
Proof.
  exists {| j_entry := EJoin "OVERLAP"; j_t := PInt 1; j_q := 0; j_op := ">="; j_allow_empty := true;
            j_allow_missing := false; j_with_score := true; j_njobs := 1; j_cpus := 4;
            j_L := [(1, Some ([], [1; 2]))]; j_R := [(7, Some ([], [1; 2; 3]))] |},
         [(1, 7, PFloat (S754_finite false 2 0))], [(7, 1, PFloat (S754_finite false 1 1))].
  vm_compute. repeat split.
Qed.

(* ------------------------------------------------------------------ (5) C10 same call *)
Definition gray_row (c : jcase) (o : out_row) : bool :=
  match row_pair c o with Some (l, r) => pair_gray c l r | None => false end.

Lemma nongray_determined c out : set_case c = true -> j_with_score c = true ->
  complete_spec c out = true -> sound_spec c out = true -> missing_spec c out = true ->
  empty_spec c out = true -> wf_scores c out = true ->
  determined (j_L c) (j_R c) (wrel (int_case c)) (fun l r => negb (pair_gray c l r)) (exp_in c) (exp_score c)
             (filter (fun o => negb (gray_row c o)) out).
Proof.
  intros Hset Hws Hc Hs Hm He Hwf. apply spec_determined_weak; auto.
  - intros l r Hg. apply negb_true_iff in Hg. exact Hg.
  - intros o l r _ Hl Hr. unfold gray_row, row_pair. rewrite Hl, Hr. reflexivity.
Qed.

Theorem same_rows_nongray_law c o1 o2 :
  set_case c = true -> j_with_score c = true ->
  complete_spec c o1 = true -> sound_spec c o1 = true -> missing_spec c o1 = true ->
  empty_spec c o1 = true -> wf_scores c o1 = true ->
  complete_spec c o2 = true -> sound_spec c o2 = true -> missing_spec c o2 = true ->
  empty_spec c o2 = true -> wf_scores c o2 = true ->
  same_rows_nongray_spec c o1 o2 = true.
Proof.
  intros Hset Hws Hc1 Hs1 Hm1 He1 Hw1 Hc2 Hs2 Hm2 He2 Hw2.
  pose proof (nongray_determined c o1 Hset Hws Hc1 Hs1 Hm1 He1 Hw1) as D1.
  pose proof (nongray_determined c o2 Hset Hws Hc2 Hs2 Hm2 He2 Hw2) as D2.
  unfold same_rows_nongray_spec. fold (gray_row c).
  eapply (determined_eq _ _ _ _ _ _ _ _ _ _ _ D1 D2).
  - reflexivity.
  - intros l r s s' _ _ _ H1 H2. eapply wrel_euclid; eassumption.
Qed.

(* cases without gray pairs: everything but the JACCARD / COSINE / DICE joins *)
Definition no_gray_case (c : jcase) : bool :=
  negb (match j_entry c with EJoin m => is_jcd m | _ => false end).

Theorem same_rows_law c o1 o2 :
  set_case c = true -> no_gray_case c = true -> j_with_score c = true ->
  complete_spec c o1 = true -> sound_spec c o1 = true -> missing_spec c o1 = true ->
  empty_spec c o1 = true -> wf_scores c o1 = true ->
  complete_spec c o2 = true -> sound_spec c o2 = true -> missing_spec c o2 = true ->
  empty_spec c o2 = true -> wf_scores c o2 = true ->
  same_rows_spec c o1 o2 = true.
Proof.
  intros Hset Hng Hws Hc1 Hs1 Hm1 He1 Hw1 Hc2 Hs2 Hm2 He2 Hw2.
  apply negb_true_iff in Hng. pose proof (pair_gray_not_jcd c Hng) as Hg.
  assert (forall out, complete_spec c out = true -> sound_spec c out = true -> missing_spec c out = true ->
            empty_spec c out = true -> wf_scores c out = true ->
            determined (j_L c) (j_R c) (wrel (int_case c)) (fun _ _ => true) (exp_in c) (exp_score c) out) as D.
  { intros out Hc Hs Hm He Hw. rewrite <- (filter_true out). apply spec_determined_weak; auto. }
  unfold same_rows_spec.
  eapply (determined_eq _ _ _ _ _ _ _ _ _ _ _ (D o1 Hc1 Hs1 Hm1 He1 Hw1) (D o2 Hc2 Hs2 Hm2 He2 Hw2)).
  - reflexivity.
  - intros l r s s' _ _ _ H1 H2. eapply wrel_euclid; eassumption.
Qed.

(* calls with out_sim_score = False: all scores are PNone; j_with_score is irrelevant *)
Definition no_scores (o : list out_row) : Prop := forall x, In x o -> snd x = PNone.

Theorem same_rows_noscore_law c o1 o2 :
  set_case c = true -> no_scores o1 -> no_scores o2 ->
  complete_spec c o1 = true -> sound_spec c o1 = true -> missing_spec c o1 = true -> empty_spec c o1 = true ->
  complete_spec c o2 = true -> sound_spec c o2 = true -> missing_spec c o2 = true -> empty_spec c o2 = true ->
  same_rows_nongray_spec c o1 o2 = true /\ (no_gray_case c = true -> same_rows_spec c o1 o2 = true).
Proof.
  intros Hset N1 N2 Hc1 Hs1 Hm1 He1 Hc2 Hs2 Hm2 He2.
  split.
  - assert (forall out, no_scores out -> complete_spec c out = true -> sound_spec c out = true ->
              missing_spec c out = true -> empty_spec c out = true ->
              determined (j_L c) (j_R c) (fun s _ => score_same s PNone) (fun l r => negb (pair_gray c l r))
                         (exp_in c) (exp_score c) (filter (fun o => negb (gray_row c o)) out)) as D.
    { intros out Hn Hc Hs Hm He. apply spec_determined_none; auto.
      - intros l r Hg. apply negb_true_iff in Hg. exact Hg.
      - intros o l r _ Hl Hr. unfold gray_row, row_pair. rewrite Hl, Hr. reflexivity. }
    unfold same_rows_nongray_spec. fold (gray_row c).
    eapply (determined_eq _ _ _ _ _ _ _ _ _ _ _ (D o1 N1 Hc1 Hs1 Hm1 He1) (D o2 N2 Hc2 Hs2 Hm2 He2)).
    + reflexivity.
    + intros l r s s' _ _ _ H1 H2. destruct s; try discriminate H1. destruct s'; try discriminate H2. reflexivity.
  - intros Hng. apply negb_true_iff in Hng. pose proof (pair_gray_not_jcd c Hng) as Hg.
    assert (forall out, no_scores out -> complete_spec c out = true -> sound_spec c out = true ->
              missing_spec c out = true -> empty_spec c out = true ->
              determined (j_L c) (j_R c) (fun s _ => score_same s PNone) (fun _ _ => true)
                         (exp_in c) (exp_score c) out) as D.
    { intros out Hn Hc Hs Hm He. rewrite <- (filter_true out). apply spec_determined_none; auto. }
    unfold same_rows_spec.
    eapply (determined_eq _ _ _ _ _ _ _ _ _ _ _ (D o1 N1 Hc1 Hs1 Hm1 He1) (D o2 N2 Hc2 Hs2 Hm2 He2)).
    + reflexivity.
    + intros l r s s' _ _ _ H1 H2. destruct s; try discriminate H1. destruct s'; try discriminate H2. reflexivity.
Qed.

(* ---- the specs do not depend on n_jobs / cpus / q, nor on the order of the rows (unique keys) *)
Definition same_call (c c' : jcase) : Prop :=
  j_entry c' = j_entry c /\ j_t c' = j_t c /\ j_op c' = j_op c /\
  j_allow_empty c' = j_allow_empty c /\ j_allow_missing c' = j_allow_missing c /\
  j_with_score c' = j_with_score c /\
  Permutation (j_L c) (j_L c') /\ Permutation (j_R c) (j_R c').

Lemma find_row_unique L k l : NoDup (map (@fst Z _) L) -> In l L -> fst l = k -> find_row k L = Some l.
Proof.
  unfold find_row. induction L as [|x L IH]; intros Hn Hi Hk; [destruct Hi|].
  simpl in Hn. inversion Hn as [|? ? Hx Hn']; subst. simpl.
  destruct Hi as [->|Hi]; [rewrite Z.eqb_refl; reflexivity|].
  destruct (fst x =? fst l) eqn:E; [|apply IH; auto].
  apply Z.eqb_eq in E. exfalso. apply Hx. rewrite E. apply in_map; exact Hi.
Qed.

Lemma find_row_perm L L' k : NoDup (map (@fst Z _) L) -> Permutation L L' -> find_row k L = find_row k L'.
Proof.
  intros Hn Hp.
  assert (NoDup (map (@fst Z _) L')) as Hn' by (eapply Permutation_NoDup; [apply Permutation_map; exact Hp | exact Hn]).
  destruct (find_row k L) as [l|] eqn:E.
  - destruct (find_row_some _ _ _ E) as [Hi Hk]. symmetry. apply find_row_unique; auto.
    eapply Permutation_in; eassumption.
  - destruct (find_row k L') as [l'|] eqn:E'; [|reflexivity].
    destruct (find_row_some _ _ _ E') as [Hi Hk].
    assert (In l' L) as Hi' by (eapply Permutation_in; [apply Permutation_sym; exact Hp | exact Hi]).
    rewrite (find_row_unique L k l' Hn Hi' Hk) in E. discriminate.
Qed.

Lemma forallb_perm {A} (f : A -> bool) l l' : Permutation l l' -> forallb f l = forallb f l'.
Proof.
  induction 1 as [|x l l' _ IH|x y l|l l' l'' _ IH1 _ IH2]; simpl.
  - reflexivity.
  - rewrite IH. reflexivity.
  - destruct (f x), (f y); reflexivity.
  - rewrite IH1. exact IH2.
Qed.

Lemma forallb_ext' {A} (f g : A -> bool) l : (forall x, f x = g x) -> forallb f l = forallb g l.
Proof. intros H. induction l as [|x l IH]; simpl; [reflexivity | rewrite H, IH; reflexivity]. Qed.

Lemma forall_pairs_perm (f : row -> row -> bool) L R L' R' :
  Permutation L L' -> Permutation R R' ->
  forallb (fun l => forallb (f l) R') L' = forallb (fun l => forallb (f l) R) L.
Proof.
  intros HL HR. rewrite <- (forallb_perm _ _ _ HL). apply forallb_ext'. intros l.
  symmetry. apply forallb_perm; exact HR.
Qed.

Theorem specs_perm c c' out : same_call c c' ->
  NoDup (map (@fst Z _) (j_L c)) -> NoDup (map (@fst Z _) (j_R c)) ->
  complete_spec c' out = complete_spec c out /\ sound_spec c' out = sound_spec c out /\
  missing_spec c' out = missing_spec c out /\ empty_spec c' out = empty_spec c out.
Proof.
  destruct c as [e t q op ae am ws nj cp L R], c' as [e' t' q' op' ae' am' ws' nj' cp' L' R'].
  unfold same_call; cbn [j_entry j_t j_op j_allow_empty j_allow_missing j_with_score j_L j_R].
  intros [-> [-> [-> [-> [-> [-> [HL HR]]]]]]] NL NR. repeat split.
  - unfold complete_spec; cbn [j_entry j_t j_op j_L j_R]. apply (forall_pairs_perm _ L R L' R' HL HR).
  - unfold sound_spec. apply forallb_ext'. intros [[lk rk] s]. unfold sound_row.
    cbn [j_entry j_t j_op j_allow_empty j_allow_missing j_with_score j_L j_R].
    rewrite <- (find_row_perm L L' lk NL HL), <- (find_row_perm R R' rk NR HR). reflexivity.
  - unfold missing_spec, forall_pairs; cbn [j_allow_missing j_L j_R]. apply (forall_pairs_perm _ L R L' R' HL HR).
  - unfold empty_spec, forall_pairs, empty_expected, is_set_join; cbn [j_entry j_allow_empty j_L j_R].
    apply (forall_pairs_perm _ L R L' R' HL HR).
Qed.

Lemma wf_scores_entry c c' out : j_entry c' = j_entry c -> wf_scores c' out = wf_scores c out.
Proof. unfold wf_scores, int_case, measure_of. intros ->. reflexivity. Qed.

(* C10 in one statement: o2 comes from a call c' that differs from c in n_jobs / cpus / row order *)
Corollary c10_law c c' o1 o2 : same_call c c' ->
  NoDup (map (@fst Z _) (j_L c)) -> NoDup (map (@fst Z _) (j_R c)) ->
  set_case c = true -> j_with_score c = true ->
  complete_spec c o1 = true -> sound_spec c o1 = true -> missing_spec c o1 = true ->
  empty_spec c o1 = true -> wf_scores c o1 = true ->
  complete_spec c' o2 = true -> sound_spec c' o2 = true -> missing_spec c' o2 = true ->
  empty_spec c' o2 = true -> wf_scores c' o2 = true ->
  same_rows_nongray_spec c o1 o2 = true /\ (no_gray_case c = true -> same_rows_spec c o1 o2 = true).
Proof.
  intros Hsc NL NR Hset Hws Hc1 Hs1 Hm1 He1 Hw1 Hc2 Hs2 Hm2 He2 Hw2.
  destruct (specs_perm c c' o2 Hsc NL NR) as [E1 [E2 [E3 E4]]].
  rewrite E1 in Hc2. rewrite E2 in Hs2. rewrite E3 in Hm2. rewrite E4 in He2.
  rewrite (wf_scores_entry c c' o2 (proj1 Hsc)) in Hw2.
  split; [apply same_rows_nongray_law; assumption | intros Hng; apply same_rows_law; assumption].
Qed.

(* ------------------------------------------------------------------ (4) C13 threshold refinement *)
Definition same_but_t (c1 c2 : jcase) : Prop :=
  j_entry c2 = j_entry c1 /\ j_op c2 = j_op c1 /\ j_allow_missing c2 = j_allow_missing c1 /\
  j_L c2 = j_L c1 /\ j_R c2 = j_R c1.

Lemma filter_comm {A} (f g : A -> bool) l : filter f (filter g l) = filter g (filter f l).
Proof.
  induction l as [|x l IH]; simpl; [reflexivity|].
  destruct (f x) eqn:Ef, (g x) eqn:Eg; simpl; rewrite ?Ef, ?Eg, IH; reflexivity.
Qed.

Lemma exp_score_entry c c' l r : j_entry c' = j_entry c -> exp_score c' l r = exp_score c l r.
Proof. unfold exp_score, exp_sc. intros ->. reflexivity. Qed.
Lemma set_case_entry c c' : j_entry c' = j_entry c -> set_case c' = set_case c.
Proof. unfold set_case. intros ->. reflexivity. Qed.
Lemma int_case_entry c c' : j_entry c' = j_entry c -> int_case c' = int_case c.
Proof. unfold int_case, measure_of. intros ->. reflexivity. Qed.

Lemma eff_threshold_set c : set_case c = true -> eff_threshold c = j_t c.
Proof.
  unfold set_case, eff_threshold. destruct (j_entry c) as [m|k m|]; try reflexivity.
  intros H. rewrite (set_measure_not_ed m H). reflexivity.
Qed.

(* c1 is laxer than c2 on the scores that can occur *)
Definition laxer (c1 c2 : jcase) : Prop :=
  forall x y, cmp_op (j_op c1) (exp_sc c1 x y) (j_t c2) = true ->
              cmp_op (j_op c1) (exp_sc c1 x y) (j_t c1) = true.

Theorem refine_law c1 c2 o1 o2 :
  set_case c1 = true -> same_but_t c1 c2 -> laxer c1 c2 ->
  j_with_score c1 = true -> j_with_score c2 = true ->
  complete_spec c1 o1 = true -> sound_spec c1 o1 = true -> missing_spec c1 o1 = true ->
  typed_scores c1 o1 = true ->
  complete_spec c2 o2 = true -> sound_spec c2 o2 = true -> missing_spec c2 o2 = true ->
  typed_scores c2 o2 = true ->
  refine_spec c1 c2 o1 o2 = true.
Proof.
  intros Hset [Ee [Eo [Em [EL ER]]]] Hlax Hw1 Hw2 Hc1 Hs1 Hm1 Ht1 Hc2 Hs2 Hm2 Ht2.
  assert (set_case c2 = true) as Hset2 by (rewrite (set_case_entry c1 c2 Ee); exact Hset).
  assert (forall c', In c' [c1; c2] -> same_tables c1 c') as Hst1.
  { intros c' [<-|[<-|[]]]; split; auto. }
  assert (forall c', In c' [c1; c2] -> same_tables c2 c') as Hst2.
  { intros c' [<-|[<-|[]]]; split; auto. }
  pose proof (keep_determined_typed c1 [c1; c2] o1 Hset Hw1 Hc1 Hs1 Hm1 Ht1 (or_introl eq_refl) Hst1) as D1.
  pose proof (keep_determined_typed c2 [c1; c2] o2 Hset2 Hw2 Hc2 Hs2 Hm2 Ht2 (or_intror (or_introl eq_refl)) Hst2) as D2.
  rewrite EL, ER in D2.
  unfold refine_spec. unfold keep_rows at 1. rewrite filter_comm. fold (keep_rows [c1; c2] o1).
  set (fs := fun o : out_row => is_missing_row c1 o || cmp_op (j_op c2) (snd o) (eff_threshold c2)).
  pose (h := fun l r : row => negb (present l && present r) || cmp_op (j_op c2) (exp_score c1 l r) (j_t c2)).
  assert (determined (j_L c1) (j_R c1) trel (fun l r => negb (exclg [c1; c2] l r))
            (fun l r => exp_in c1 l r && h l r) (exp_score c1) (filter fs (keep_rows [c1; c2] o1))) as D1'.
  { apply determined_filter_score; [exact D1|].
    intros o l r _ Hl Hr _ Hrel. unfold fs, h, is_missing_row. rewrite Hl, Hr.
    rewrite (eff_threshold_set c2 Hset2). f_equal. apply seq_cmp_op. apply trel_seq; exact Hrel. }
  eapply (determined_eq _ _ _ _ _ _ _ _ _ _ _ D1' D2).
  - intros l r _ Hg. apply negb_true_iff in Hg. apply (exclg_in c1) in Hg; [|left; reflexivity].
    apply excl1_false in Hg. destruct Hg as [Hbe _].
    unfold h, exp_in, exp_score. destruct (present l && present r) eqn:Ep.
    + destruct (both_empty l r) eqn:Eb; [simpl in Hbe; discriminate Hbe|]. simpl negb. simpl orb.
      unfold exp_cmp. unfold laxer in Hlax. specialize (Hlax (toks_of l) (toks_of r)).
      unfold exp_sc in *. rewrite Ee, Eo. destruct (j_entry c1) as [m|k m|].
      * destruct (cmp_op (j_op c1) (reported_score m (toks_of l) (toks_of r)) (j_t c2));
          [rewrite Hlax by reflexivity; reflexivity | apply andb_false_r].
      * reflexivity.
      * destruct (cmp_op (j_op c1) (PInt (overlap_sets (toks_of l) (toks_of r))) (j_t c2));
          [rewrite Hlax by reflexivity; rewrite !andb_true_r; reflexivity | rewrite !andb_false_r; reflexivity].
    + simpl. rewrite andb_true_r. symmetry; exact Em.
  - intros l r s s' _ _ _ H1 H2. rewrite (exp_score_entry c1 c2 l r Ee) in H2.
    exact (trel_exp_score_same c1 l r s s' Hset H1 H2).
Qed.

(* laxer for integer thresholds (OVERLAP join, OverlapFilter) and the operators >=, > *)
Lemma laxer_int c1 c2 t1 t2 : int_case c1 = true -> set_case c1 = true ->
  j_t c1 = PInt t1 -> j_t c2 = PInt t2 -> t1 <= t2 -> (j_op c1 = ">=" \/ j_op c1 = ">") -> laxer c1 c2.
Proof.
  intros Hi Hset E1 E2 Hle Hop x y. pose proof (exp_sc_shape c1 x y Hset) as S. rewrite Hi in S.
  rewrite S, E1, E2. destruct Hop as [-> | ->].
  - rewrite !cmp_op_ge_int, !Z.leb_le. lia.
  - rewrite !cmp_op_gt_int, !Z.ltb_lt. lia.
Qed.

(* ------------------------------------------------------------------ (3) C13 operator partition *)
Definition same_but_op (c c' : jcase) : Prop :=
  j_entry c' = j_entry c /\ j_t c' = j_t c /\ j_L c' = j_L c /\ j_R c' = j_R c.

Lemma determined_tables L R L' R' rel g inn sc a : L' = L -> R' = R ->
  determined L' R' rel g inn sc a -> determined L R rel g inn sc a.
Proof. intros -> ->. tauto. Qed.

Section Partition.
Variables cge cgt ceq : jcase.
Variables oge ogt oeq : list out_row.
Hypothesis Hset : set_case cge = true.
Hypothesis Hgt : same_but_op cge cgt.
Hypothesis Heq : same_but_op cge ceq.
Hypothesis Opge : j_op cge = ">=".
Hypothesis Opgt : j_op cgt = ">".
Hypothesis Opeq : j_op ceq = "=".
(* with allow_missing the missing pairs occur in all three results: see partition_missing_refuted *)
Hypothesis Amge : j_allow_missing cge = false.
Hypothesis Amgt : j_allow_missing cgt = false.
Hypothesis Ameq : j_allow_missing ceq = false.
Hypothesis Wge : j_with_score cge = true.
Hypothesis Wgt : j_with_score cgt = true.
Hypothesis Weq : j_with_score ceq = true.
Hypothesis Sge : complete_spec cge oge = true /\ sound_spec cge oge = true /\ missing_spec cge oge = true /\
                 wf_scores cge oge = true.
Hypothesis Sgt : complete_spec cgt ogt = true /\ sound_spec cgt ogt = true /\ missing_spec cgt ogt = true /\
                 wf_scores cgt ogt = true.
Hypothesis Seq : complete_spec ceq oeq = true /\ sound_spec ceq oeq = true /\ missing_spec ceq oeq = true /\
                 wf_scores ceq oeq = true.

Let cs := [cge; cgt; ceq].
Let G := fun l r : row => negb (exclg cs l r).

Lemma part_tables c : In c cs -> forall c', In c' cs -> same_tables c c'.
Proof.
  destruct Hgt as [_ [_ [L1 R1]]]. destruct Heq as [_ [_ [L2 R2]]].
  intros [<-|[<-|[<-|[]]]] c' [<-|[<-|[<-|[]]]]; split; congruence.
Qed.

Lemma part_region l r : G l r = true -> present l && present r && both_empty l r = false.
Proof.
  intros Hg. apply negb_true_iff in Hg. apply (exclg_in cge) in Hg; [|left; reflexivity].
  apply excl1_false in Hg. tauto.
Qed.

Lemma part_in_split l r : G l r = true -> exp_in cge l r = exp_in cgt l r || exp_in ceq l r.
Proof.
  intros Hg. pose proof (part_region l r Hg) as Hbe.
  destruct Hgt as [E1 [T1 _]]. destruct Heq as [E2 [T2 _]].
  unfold exp_in. rewrite Amge, Amgt, Ameq. destruct (present l && present r) eqn:Ep; [|reflexivity].
  destruct (both_empty l r) eqn:Eb; [simpl in Hbe; discriminate Hbe|].
  pose proof (exp_sc_scalar cge (toks_of l) (toks_of r) Hset) as Hsc.
  unfold exp_cmp. unfold exp_sc in Hsc. rewrite E1, E2, T1, T2, Opge, Opgt, Opeq.
  destruct (j_entry cge) as [m|k m|].
  - apply cmp_ge_split; exact Hsc.
  - reflexivity.
  - rewrite (cmp_ge_split _ _ Hsc). destruct (0 <? overlap_sets (toks_of l) (toks_of r)); reflexivity.
Qed.

Lemma part_in_excl l r : G l r = true -> exp_in cgt l r && exp_in ceq l r = false.
Proof.
  intros Hg. pose proof (part_region l r Hg) as Hbe.
  destruct Hgt as [E1 [T1 _]]. destruct Heq as [E2 [T2 _]].
  unfold exp_in. rewrite Amgt, Ameq. destruct (present l && present r) eqn:Ep; [|reflexivity].
  destruct (both_empty l r) eqn:Eb; [simpl in Hbe; discriminate Hbe|].
  pose proof (exp_sc_scalar cge (toks_of l) (toks_of r) Hset) as Hsc.
  unfold exp_cmp. unfold exp_sc in Hsc. rewrite E1, E2, T1, T2, Opgt, Opeq.
  destruct (j_entry cge) as [m|k m|].
  - apply cmp_gt_eq_excl; exact Hsc.
  - reflexivity.
  - pose proof (cmp_gt_eq_excl _ (j_t cge) Hsc) as H.
    destruct (0 <? overlap_sets (toks_of l) (toks_of r)); [exact H | reflexivity].
Qed.

Lemma part_det c o : In c cs -> j_entry c = j_entry cge -> j_L c = j_L cge -> j_R c = j_R cge ->
  j_with_score c = true ->
  complete_spec c o = true /\ sound_spec c o = true /\ missing_spec c o = true /\ wf_scores c o = true ->
  determined (j_L cge) (j_R cge) (wrel (int_case cge)) G (exp_in c) (exp_score cge) (keep_rows cs o).
Proof.
  intros Hi Ee EL ER Hw [Hc [Hs [Hm Hwf]]].
  assert (set_case c = true) as Hsc by (rewrite (set_case_entry cge c Ee); exact Hset).
  pose proof (keep_determined_weak c cs o Hsc Hw Hc Hs Hm Hwf Hi (part_tables c Hi)) as D.
  rewrite (int_case_entry cge c Ee) in D. apply (determined_tables _ _ _ _ _ _ _ _ _ EL ER) in D.
  eapply determined_ext; [exact D | reflexivity | reflexivity |].
  intros l r _ _. apply exp_score_entry; exact Ee.
Qed.

(* the partition law outside the gray pairs of the three calls *)
Theorem partition_nongray :
  multiset_eqb (keep_rows cs oge) (keep_rows cs ogt ++ keep_rows cs oeq) = true.
Proof.
  destruct Hgt as [E1 [T1 [L1 R1]]]. destruct Heq as [E2 [T2 [L2 R2]]].
  pose proof (part_det cge oge (or_introl eq_refl) eq_refl eq_refl eq_refl Wge Sge) as Dge.
  pose proof (part_det cgt ogt (or_intror (or_introl eq_refl)) E1 L1 R1 Wgt Sgt) as Dgt.
  pose proof (part_det ceq oeq (or_intror (or_intror (or_introl eq_refl))) E2 L2 R2 Weq Seq) as Deq.
  pose proof (determined_app _ _ _ _ _ _ _ _ _ Dgt Deq part_in_excl) as Dapp.
  eapply (determined_eq _ _ _ _ _ _ _ _ _ _ _ Dge Dapp).
  - intros l r _ Hg. apply part_in_split; exact Hg.
  - intros l r s s' _ _ _ H1 H2. eapply wrel_euclid; eassumption.
Qed.

(* when no pair of rows is gray for any of the three calls, the law holds as stated in MetaSpec *)
Hypothesis Hnogray : forall c l r, In c cs -> pair_gray c l r = false.

Lemma exclg_nogray l r : exclg cs l r = present l && present r && both_empty l r.
Proof.
  unfold exclg, cs, excl1. simpl. rewrite !Hnogray by (simpl; auto).
  destruct (present l && present r && both_empty l r); reflexivity.
Qed.

Lemma drop_empty_keep c o : In c cs -> j_entry c = j_entry cge -> sound_spec c o = true ->
  drop_empty_pairs cge o = keep_rows cs o.
Proof.
  intros Hi Ee Hs. unfold drop_empty_pairs, keep_rows. apply filter_ext_in. intros [[lk rk] s] Ho.
  assert (set_case c = true) as Hsc by (rewrite (set_case_entry cge c Ee); exact Hset).
  destruct (sound_view c o lk rk s Hsc Hs Ho) as [l [r [Hl [Hr _]]]].
  destruct (part_tables cge (or_introl eq_refl) c Hi) as [EL ER]. rewrite EL in Hl. rewrite ER in Hr.
  rewrite (row_excluded_found cge cs (lk, rk, s) l r (part_tables cge (or_introl eq_refl)) Hl Hr).
  unfold row_pair. simpl fst. simpl snd. rewrite Hl, Hr, exclg_nogray. reflexivity.
Qed.

Theorem partition_law_nogray : partition_spec cge oge ogt oeq = true.
Proof.
  unfold partition_spec. destruct Hgt as [E1 _]. destruct Heq as [E2 _].
  rewrite (drop_empty_keep cge oge (or_introl eq_refl) eq_refl (proj1 (proj2 Sge))).
  rewrite (drop_empty_keep cgt ogt (or_intror (or_introl eq_refl)) E1 (proj1 (proj2 Sgt))).
  rewrite (drop_empty_keep ceq oeq (or_intror (or_intror (or_introl eq_refl))) E2 (proj1 (proj2 Seq))).
  apply partition_nongray.
Qed.
End Partition.

(* for the measures without gray pairs the exact law is a consequence of the specs *)
Corollary partition_law_exact cge cgt ceq oge ogt oeq :
  set_case cge = true -> no_gray_case cge = true -> same_but_op cge cgt -> same_but_op cge ceq ->
  j_op cge = ">=" -> j_op cgt = ">" -> j_op ceq = "=" ->
  j_allow_missing cge = false -> j_allow_missing cgt = false -> j_allow_missing ceq = false ->
  j_with_score cge = true -> j_with_score cgt = true -> j_with_score ceq = true ->
  complete_spec cge oge = true /\ sound_spec cge oge = true /\ missing_spec cge oge = true /\ wf_scores cge oge = true ->
  complete_spec cgt ogt = true /\ sound_spec cgt ogt = true /\ missing_spec cgt ogt = true /\ wf_scores cgt ogt = true ->
  complete_spec ceq oeq = true /\ sound_spec ceq oeq = true /\ missing_spec ceq oeq = true /\ wf_scores ceq oeq = true ->
  partition_spec cge oge ogt oeq = true.
Proof.
  intros Hset Hng Hgt Heq. intros. apply (partition_law_nogray cge cgt ceq); auto.
  apply negb_true_iff in Hng. intros c l r [<-|[<-|[<-|[]]]]; apply pair_gray_not_jcd.
  - exact Hng.
  - destruct Hgt as [-> _]. exact Hng.
  - destruct Heq as [-> _]. exact Hng.
Qed.

(* the exact partition law is NOT implied by the specs when a pair is gray: JACCARD, t between 2/3
   and 0.6667; the `>=` run reports the gray pair (1,7), the `>` run does not -- both allowed *)
Definition pr_case (op : string) (am : bool) : jcase :=
  {| j_entry := EJoin "JACCARD"; j_t := PFloat (mkF 43691 (-16)); j_q := 0; j_op := op;
     j_allow_empty := true; j_allow_missing := am; j_with_score := true; j_njobs := 1; j_cpus := 4;
     j_L := [(1, Some ([], [1; 2])); (2, None)]; j_R := [(7, Some ([], [1; 2; 3]))] |}.
Definition spec3 (c : jcase) (o : list out_row) : bool :=
  complete_spec c o && sound_spec c o && missing_spec c o && wf_scores c o.

Example partition_gray_refuted :
  let oge := [(1, 7, PFloat (score4 "JACCARD" 2 3 2))] in
  spec3 (pr_case ">=" false) oge = true /\ spec3 (pr_case ">" false) [] = true /\
  spec3 (pr_case "=" false) [] = true /\
  pair_gray (pr_case ">=" false) (1, Some ([], [1; 2])) (7, Some ([], [1; 2; 3])) = true /\
  partition_spec (pr_case ">=" false) oge [] [] = false.
Proof. vm_compute. repeat split. Qed.

(* nor with allow_missing = true: the missing pairs are in all three results *)
Example partition_missing_refuted :
  let o := [(2, 7, PNone)] in
  spec3 (pr_case ">=" true) o = true /\ spec3 (pr_case ">" true) o = true /\
  spec3 (pr_case "=" true) o = true /\ partition_spec (pr_case ">=" true) o o o = false.
Proof. vm_compute. repeat split. Qed.

Print Assumptions transpose_law.
Print Assumptions same_rows_nongray_law.
Print Assumptions same_rows_law.
Print Assumptions same_rows_noscore_law.
Print Assumptions specs_perm.
Print Assumptions c10_law.
Print Assumptions refine_law.
Print Assumptions partition_nongray.
Print Assumptions partition_law_nogray.
Print Assumptions partition_law_exact.
