(* The hypotheses of CodeLevelRel6.C07_code_pipeline_jcd -- including the RESIDUAL ones about the candidate frame
   (R1: shape) and the C05 hypotheses about the key abstraction -- are jointly satisfiable: the concrete
   call of WrapperRefineExample.v (4 x 4 rows, missing join values on both sides, allow_missing), SizeFilter as
   the filter, apply_matcher with the tokenizer and sim_function = the matcher's raw Jaccard score.  The theorem
   applies; its conclusion is also checked by computing the three frames the GENERATED jaccard_join_rows,
   size_filter_tables_rows and apply_matcher_rows return.                                                  *)
From Coq Require Import ZArith Bool List String Lia Permutation.
From SSJ Require Import F64 PyNum FilterUtilsGen HelperGen TokenOrderingGen ValidationGen IndexGen JoinGen
     TokenOrdering Measures Filters Joins Api JoinSpec MetaSpec Projection ProjSpec ProjectionFacts
     IndexPyFacts JoinGenFacts JoinRefineExample SplitFacts
     Frame WrapperGen WrapperRefineFrame WrapperRefineMissing WrapperRefineCore
     WrapperRefineExample FilterPairRefineBase MatcherRefineLoop MatcherRefineEnd OverlapFacts ApiFilterTables
     LawsSpec Laws ModelLaws CodeLevelBase CodeLevelJoins CodeLevelExample
     CodeLevelRelBase CodeLevelRelCalls CodeLevelRel5 CodeLevelRel6 CodeLevelRelExample.
Import ListNotations.
Open Scope string_scope.
Open Scope Z_scope.

(* sim_function of the matcher: the raw Jaccard score on the tokenizer's lists *)
Definition ex_simM (a b : pyval) : pyval := matcher_raw_score "JACCARD" (ints_of a) (ints_of b).
Definition ex_tokv : pyval := PBool true.

Definition ex_lhsF : pyval :=
  jcd_filter_frame ex_c "JACCARD" half 0 true 2 4 KSize true wx_lsrc wx_rsrc (PBool false) ex_tokenize.
Definition ex_cs : list (list pyval) := Eval vm_compute in frame_rows_of ex_lhsF.
Lemma ex_cs_eq : frame_rows_of ex_lhsF = ex_cs.
Proof. vm_compute. reflexivity. Qed.

Ltac in_cases H := vm_compute in H; repeat (destruct H as [<- | H]; [|]); [.. | destruct H].

Example code_pipeline_instance :
  pipeline_spec (jcd_jcase ex_c (exp half) ">=" true true 2 4 wx_lsrc wx_rsrc ex_toks ex_kz)
    (code_view ex_c ex_kz
       (jcd_join_frame ex_c "JACCARD" half 0 ">=" true true 2 4 wx_lsrc wx_rsrc (PBool false) ex_tokenize ex_sim))
    (code_view ex_c ex_kz
       (jcd_pipe_frame ex_c "JACCARD" half 0 ">=" true 2 4 3 4 KSize true wx_lsrc wx_rsrc (PBool false) (PBool false)
          ex_tokenize ex_tokv ex_tokenize ex_simM)) = true.
Proof.
  apply (C07_code_pipeline_jcd ex_c "JACCARD" half 0 ">=" true true 2 4 2 4 3 4 KSize true wx_lsrc wx_rsrc
           (PBool false) (PBool false) (PBool false) ex_tokenize ex_sim ex_tokv ex_tokenize ex_simM ex_toks py_ge ex_kz PInt).
  - apply (ex_call_hyps half ">=" py_ge); [exact half_env | exact lower_ge | reflexivity | reflexivity].
  - reflexivity.
  - left. reflexivity.
  - vm_compute. reflexivity.
  - fold ex_lhsF. rewrite ex_cs_eq. intros row H. in_cases H; (split; [reflexivity | apply row_okb_sound; reflexivity]).
  - vm_compute. reflexivity.
  - intros H. vm_compute in H. discriminate H.
  - reflexivity.
  - fold ex_lhsF. rewrite ex_cs_eq. intros row v Hr Hv. in_cases Hr; in_cases Hv; reflexivity.
  - fold ex_lhsF. rewrite ex_cs_eq. intros row v Hr Hv. in_cases Hr; in_cases Hv; reflexivity.
  - fold ex_lhsF. rewrite ex_cs_eq. intros v Hv. in_cases Hv; reflexivity.
  - intros row Hr. in_cases Hr; exact I.
  - intros row Hr. in_cases Hr; exact I.
  - intros _ row Hr _. reflexivity.
  - intros _ row Hr _. reflexivity.
  - intros lrow rrow Hl Hr Ml Mr. in_cases Hl; in_cases Hr; try discriminate Ml; try discriminate Mr;
      (split; vm_compute; reflexivity).
  - intros lrow rrow _ _ _ _. unfold ex_simM, e_tk, ex_tokv. cbn [m_tokb is_none negb]. unfold ex_tokenize.
    now rewrite !ints_of_pints.
Qed.

(* ... and, independently, by computation on the frames (apply_matcher keeps the _id values of the candidate set:
   the _id column of its frame is NOT 0..n-1, so no ids_ok conjunct here) *)
Example code_pipeline_computed :
  let vJ := code_view ex_c ex_kz
              (jcd_join_frame ex_c "JACCARD" half 0 ">=" true true 2 4 wx_lsrc wx_rsrc (PBool false) ex_tokenize ex_sim) in
  let vP := code_view ex_c ex_kz
              (jcd_pipe_frame ex_c "JACCARD" half 0 ">=" true 2 4 3 4 KSize true wx_lsrc wx_rsrc (PBool false) (PBool false)
                 ex_tokenize ex_tokv ex_tokenize ex_simM) in
  let jc := jcd_jcase ex_c (exp half) ">=" true true 2 4 wx_lsrc wx_rsrc ex_toks ex_kz in
  pipeline_spec jc vJ vP && nonempty vJ && nonempty vP && nonempty (keep_pipe jc vP) = true.
Proof. vm_compute. reflexivity. Qed.

Print Assumptions code_pipeline_instance.
Print Assumptions code_pipeline_computed.
