(* The GENERATED SizeFilter._filter_tables_split (Gen/JoinGen.v: size_filter_tables_split_rows)
   refines Joins.filter_tables_core KSize.  The size filter does not order tokens; the model does,
   which preserves the token counts (f_len_l / f_len_r).  Candidates are a Python set.
   (a) size_filter_rows_fold, (b) size_filter_tables_split_rows_refines.  Axiom-free.      *)
From Coq Require Import ZArith Bool List String Lia Permutation.
From SSJ Require Import F64 PyNum FilterUtilsGen HelperGen TokenOrderingGen ValidationGen IndexGen JoinGen
     TokenOrdering Measures Filters Joins Projection ProjSpec ProjectionFacts OrderingFacts OrderingGenFacts
     IndexPyFacts IndexBuildFacts IndexProbeFacts IndexRefine IndexInverted IndexPrefix IndexSize IndexGlue
     JoinGenFacts JoinGenLoop JoinRefine SplitRefineBase SplitRefineFilterBase.
Import ListNotations.
Open Scope Z_scope.

(* the candidate set of SizeFilter.find_candidates for a probe of ny tokens *)
Definition sz_set (p : fparams) (he : bool) (Lo : list (list Z)) (ny : Z) : sset :=
  let a := zbuild_abs he (map len Lo) in
  zprobe_abs (z_idx a) (z_min a) (z_max a) (zint (g_lb p ny)) (zint (g_ub p ny)) ny.
Definition sz_keys (p : fparams) (he : bool) (Lo : list (list Z)) (y : list Z) : list Z :=
  map fst (sz_set p he Lo (len y)).
Definition sz_cb (p : fparams) (he : bool) (Lo : list (list Z)) (y : list Z) (c : nat) : bool :=
  smem (sz_set p he Lo (len y)) (Z.of_nat c).

Lemma zposts_from_range s : forall ns c0 c, In c (zposts_from s c0 ns) -> c0 <= c < c0 + Z.of_nat (List.length ns).
Proof.
  induction ns as [|n ns IH]; intros c0 c; cbn [zposts_from]; [intros []|].
  cbn [List.length]. intros Hin. apply in_app_or in Hin. destruct Hin as [H|H].
  - destruct (_ && _) in H; [|destruct H]. destruct H as [<-|[]]. lia.
  - specialize (IH _ _ H). lia.
Qed.

Section Size.
  Variables (p : fparams) (ae : bool) (bound : Z).
  Variables (lrows rrows : list (list pyval)).
  Variables (lcolumns rcolumns lkeya rkeya lfa rfa louta routa lpre rpre showp : pyval).
  Variables (ki ji kj jj : nat) (li ri : list nat) (has : bool) (hdr : list pyval).
  Variables (tokenize : pyval -> pyval) (tkL tkR : list pyval -> list Z).
  Let L := map tkL lrows.
  Let R := map tkR rrows.
  Let all := (List.concat L ++ List.concat R)%list.
  Let xof (r : list pyval) := order all (tkL r).
  Let yof (r : list pyval) := order all (tkR r).
  Let Lo := map xof lrows.
  Let he := f_he p ae.
  Let ns := map len Lo.

  Hypothesis Hlk : py_index lcolumns lkeya = natpy ki.
  Hypothesis Hlj : py_index lcolumns lfa = natpy ji.
  Hypothesis Hlo : find_output_attribute_indices lcolumns louta = PList (map natpy li).
  Hypothesis Hrk : py_index rcolumns rkeya = natpy kj.
  Hypothesis Hrj : py_index rcolumns rfa = natpy jj.
  Hypothesis Hro : find_output_attribute_indices rcolumns routa = PList (map natpy ri).
  Hypothesis Hhas : py_or (py_is_not_none louta) (py_is_not_none routa) = PBool has.
  Hypothesis Hnohas : has = false -> li = [] /\ ri = [].
  Hypothesis Hhdr : get_output_header_from_tables lkeya rkeya louta routa lpre rpre = PList hdr.
  Hypothesis Hlrows : forall r, In r lrows -> cols_ok ki ji li r.
  Hypothesis Hrrows : forall r, In r rrows -> cols_ok kj jj ri r.
  Hypothesis HtokL : forall r, In r lrows -> tokenize (nth ji r PNone) = pints (tkL r).
  Hypothesis HtokR : forall r, In r rrows -> tokenize (nth jj r PNone) = pints (tkR r).
  Hypothesis Hf : formulas_ok p bound.
  Hypothesis HsR : forall r, In r rrows -> len (tkR r) < bound.

  Let a := zbuild_abs he ns.

  Lemma sz_len_y r : In r rrows -> 0 <= len (yof r) < bound.
  Proof. exact (ft_len_y bound lrows rrows tkL tkR HsR r). Qed.

  Lemma sz_lrow_ok : Forall2 (zrow_ok (natpy ji) tokenize) (map PList lrows) ns.
  Proof.
    unfold ns, Lo. rewrite map_map. apply forall2_map_l. intros r Hr. unfold zrow_ok.
    destruct (join_cell_ok _ _ _ _ (Hlrows r Hr)) as [E Hne]. rewrite E. split; [exact Hne|].
    rewrite (HtokL r Hr), py_len_pints. f_equal. symmetry.
    exact (f_len_l tkL tkR lrows rrows r Hr).
  Qed.

  (* the candidate set for a right row: keys, membership *)
  Lemma sz_row (rrow : list pyval) : In rrow rrows ->
    size_filter_find_candidates (PStr (fm p)) (ft p) (PInt (len (yof rrow))) (iidx_repr (z_idx a))
                                (PInt (z_min a)) (PInt (z_max a))
    = srepr (sz_set p he Lo (len (yof rrow))) /\
    NoDup (sz_keys p he Lo (yof rrow)) /\
    (forall c, In c (sz_keys p he Lo (yof rrow)) -> 0 <= c < Z.of_nat (List.length lrows)) /\
    forall c, (c < List.length Lo)%nat ->
      smem (sz_set p he Lo (len (yof rrow))) (Z.of_nat c) = size_cand p (len (nth c Lo [])) (len (yof rrow)).
  Proof.
    intros Hin. set (ny := len (yof rrow)).
    destruct (formulas_ok_lb_ub p bound ny Hf (sz_len_y rrow Hin)) as (lb & ub & Hlb & Hub).
    pose proof (size_find_candidates_eq p (z_idx a) (z_min a) (z_max a) ny lb ub Hlb Hub) as Efc.
    unfold sz_keys, sz_set. cbv zeta. fold ns a ny. rewrite Hlb, Hub. cbn [zint].
    split; [exact Efc|].
    assert (Hok : skeys_ok (Z.of_nat (List.length lrows)) (zprobe_abs (z_idx a) (z_min a) (z_max a) lb ub ny)).
    { unfold zprobe_abs. destruct (ny <? lb); [split; [constructor | intros c []]|]. cbv zeta.
      apply (sfold_ok _ (iidx_get (z_idx a))). intros s c Hc.
      unfold a in Hc. rewrite zbuild_postings in Hc. apply zposts_from_range in Hc.
      unfold ns, Lo in Hc. rewrite !map_length in Hc. lia. }
    destruct Hok as [Hnd Hkeys]. split; [exact Hnd|]. split; [exact Hkeys|].
    destruct (size_find_candidates_refines p (natpy ji) tokenize (map PList lrows) ns he ny lb ub
                sz_lrow_ok) as (index & mn & mx & ret & d & Hb & Hc & Hmem); try assumption.
    { intros n Hn. unfold ns in Hn. apply in_map_iff in Hn. destruct Hn as (x & <- & _). unfold len. lia. }
    rewrite (size_index_build_eq (natpy ji) tokenize (map PList lrows) ns he sz_lrow_ok) in Hb.
    fold a in Hb. unfold zbuild_result in Hb. injection Hb as <- <- <- _.
    rewrite Efc in Hc. apply srepr_inj in Hc. subst d.
    intros c Hlt. unfold ns in Hmem. rewrite map_length in Hmem. rewrite (Hmem c Hlt).
    f_equal. change 0 with (len []) at 1. apply (map_nth len).
  Qed.

  Definition Isz_outer (acc : list (list pyval))
    (s : pyval * (pyval * (pyval * (pyval * (pyval * (pyval * (pyval * pyval))))))) : Prop :=
    exists t1 t2 t3 t4 t6 t7, s = (PNone, (t1, (t2, (t3, (t4, (PList (map PList acc), (t6, t7))))))).

  Definition sz_rows_of (rrow : list pyval) : list (list pyval) :=
    map (fun cs : Z * pyval => out_row false ki kj li ri lrows (fst cs) rrow (snd cs))
        (f_row_pairs he Lo (sz_keys p he Lo (yof rrow)) (yof rrow)).

  Theorem size_filter_rows_fold :
    size_filter_tables_split_rows (PList (map PList lrows)) (PList (map PList rrows)) lcolumns rcolumns
      lkeya rkeya lfa rfa (PStr (fm p)) (ft p) (PBool ae) louta routa lpre rpre showp tokenize
    = PTuple [PList (map PList (List.concat (map sz_rows_of rrows))); PList hdr].
  Proof.
    unfold size_filter_tables_split_rows.
    rewrite Hlk, Hlj. cbv zeta. rewrite Hlo, Hrk, Hrj, Hro.
    repeat (rewrite bindx_ok by reflexivity).
    rewrite handle_empty_eq. fold he. rewrite (bindx_ok (PBool he)) by reflexivity.
    rewrite (size_index_build_eq (natpy ji) tokenize (map PList lrows) ns he sz_lrow_ok).
    fold a. unfold zbuild_result.
    destruct (getitem_tuple4 (iidx_repr (z_idx a)) (PInt (z_min a)) (PInt (z_max a))
                (PDict [PTuple [PStr "empty_records"%string; pints (z_empty a)]])) as (G0 & G1 & G2 & G3).
    rewrite (bindx_ok (PTuple _)) by reflexivity.
    rewrite G0, G1, G2, G3.
    repeat (rewrite bindx_ok by reflexivity).
    rewrite getitem_empty_records.
    repeat (rewrite bindx_ok by reflexivity).
    rewrite Hhas. rewrite (bindx_ok (PBool has)) by reflexivity.
    match goal with |- context [py_for (PList (map PList rrows)) ?r ?f ?b ?s0] =>
      pose proof (py_for_inv _ _ _ PList Isz_outer r f b
                    (fun acc rrow => (acc ++ sz_rows_of rrow)%list) rrows s0 []) as HI end.
    lapply HI; [clear HI; intros HI|].
    2:{ unfold Isz_outer. do 6 eexists. reflexivity. }
    lapply HI; [clear HI; intros HI|].
    2:{ intros acc s (t1 & t2 & t3 & t4 & t6 & t7 & ->). reflexivity. }
    lapply HI; [clear HI; intros HI|].
    - destruct HI as (t1 & t2 & t3 & t4 & t6 & t7 & E). rewrite E. clear E.
      cbv beta iota. cbn [bindx]. rewrite Hhdr. rewrite (bindx_ok (PList hdr)) by reflexivity.
      rewrite fold_left_app_map. cbn [app]. reflexivity.
    - clear HI. intros acc s rrow Hin (t1 & t2 & t3 & t4 & t6 & t7 & ->).
      cbv beta iota.
      destruct (join_cell_ok _ _ _ _ (Hrrows rrow Hin)) as [Ecell Hcell].
      rewrite (bindx_ok (PList rrow)) by reflexivity.
      rewrite Ecell. rewrite (bindx_ok (nth jj rrow PNone)) by exact Hcell.
      rewrite (HtokR rrow Hin), py_len_pints.
      rewrite <- (f_len_r tkL tkR lrows rrows rrow Hin).
      change (order (f_all tkL tkR lrows rrows) (tkR rrow)) with (yof rrow).
      rewrite (bindx_ok (PInt _)) by reflexivity.
      rewrite py_eq_int_val, py_and_bools.
      rewrite (bindx_ok (PBool _)) by reflexivity. cbn [py_truth].
      unfold sz_rows_of, f_row_pairs.
      destruct (he && (len (yof rrow) =? 0)) eqn:Ebr.
      + (* handle_empty and no tokens: the cached empty left records *)
        assert (Ehe : he = true) by (destruct he; [reflexivity | discriminate Ebr]).
        unfold a. rewrite zbuild_empty. rewrite Ehe. unfold ns. rewrite zempty_from_len. unfold pints at 1.
        match goal with |- context [py_for (PList (map PInt ?l)) ?r ?f ?b ?s0] =>
          pose proof (py_for_inv _ _ _ PInt Irows r f b
                        (fun acc' c => (acc' ++ [out_row false ki kj li ri lrows c rrow PNone])%list)
                        l s0 acc) as HI end.
        lapply HI; [clear HI; intros HI|].
        2:{ unfold Irows. eexists. reflexivity. }
        lapply HI; [clear HI; intros HI|].
        2:{ intros acc' s (u & ->). reflexivity. }
        lapply HI; [clear HI; intros HI|].
        * destruct HI as (u & E). rewrite E. clear E. cbv beta iota. cbn [bindx].
          rewrite fold_left_snoc_map, map_map. cbn [fst snd].
          unfold Isz_outer. do 6 eexists. reflexivity.
        * clear HI. intros acc' s c Hc (u & ->). cbv beta iota. cbn [bindx].
          apply empty_from_bounds in Hc. unfold nrows, Lo in Hc. rewrite map_length in Hc.
          rewrite (getitem_rows lrows c) by lia.
          assert (Hlc : cols_ok ki ji li (nth (Z.to_nat c) lrows [])) by (apply Hlrows, nth_In; lia).
          pose proof (Hrrows rrow Hin) as Hrc.
          emit_row_noscore Hlc Hrc Hnohas has ki kj li ri ji jj ltac:(eexists; reflexivity).
      + (* candidates of the size filter: the keys of the set *)
        destruct (sz_row rrow Hin) as (Efc & _ & Hkeys & _).
        rewrite Efc. rewrite (bindx_ok (srepr _)) by reflexivity.
        rewrite py_for_srepr. fold (sz_keys p he Lo (yof rrow)).
        match goal with |- context [py_for (PList (map PInt ?l)) ?r ?f ?b ?s0] =>
          pose proof (py_for_inv _ _ _ PInt Irows r f b
                        (fun acc' c => (acc' ++ [out_row false ki kj li ri lrows c rrow PNone])%list)
                        l s0 acc) as HI end.
        lapply HI; [clear HI; intros HI|].
        2:{ unfold Irows. eexists. reflexivity. }
        lapply HI; [clear HI; intros HI|].
        2:{ intros acc' s (u & ->). reflexivity. }
        lapply HI; [clear HI; intros HI|].
        * destruct HI as (u & E). rewrite E. clear E. cbv beta iota. cbn [bindx].
          rewrite fold_left_snoc_map, map_map. cbn [fst snd].
          unfold Isz_outer. do 6 eexists. reflexivity.
        * clear HI. intros acc' s c Hc (u & ->). cbv beta iota. cbn [bindx].
          specialize (Hkeys c Hc).
          rewrite (getitem_rows lrows c) by lia.
          assert (Hlc : cols_ok ki ji li (nth (Z.to_nat c) lrows [])) by (apply Hlrows, nth_In; lia).
          pose proof (Hrrows rrow Hin) as Hrc.
          emit_row_noscore Hlc Hrc Hnohas has ki kj li ri ji jj ltac:(eexists; reflexivity).
  Qed.

  (* ---------------------------------------------------------------- refinement *)
  Lemma sz_row_perm (j : nat) (rrow : list pyval) : In rrow rrows ->
    Permutation (map (fun cs : Z * pyval => (Z.to_nat (fst cs), j, snd cs))
                     (f_row_pairs he Lo (sz_keys p he Lo (yof rrow)) (yof rrow)))
                (f_model_row he Lo (sz_cb p he Lo (yof rrow)) j (yof rrow)).
  Proof.
    intros Hin. apply f_row_perm. intros _.
    destruct (sz_row rrow Hin) as (_ & Hnd & Hkeys & _).
    assert (El : List.length Lo = List.length lrows) by (unfold Lo; apply map_length).
    split; [exact Hnd|]. split; [rewrite El; exact Hkeys|].
    intros c _. unfold sz_cb, sz_keys. apply smem_keys.
  Qed.

  Theorem size_filter_tables_split_rows_refines :
    exists (T : list triple) (rows : list (list pyval)),
      filter_tables_core KSize p ae L R = Some T /\
      size_filter_tables_split_rows (PList (map PList lrows)) (PList (map PList rrows)) lcolumns rcolumns
        lkeya rkeya lfa rfa (PStr (fm p)) (ft p) (PBool ae) louta routa lpre rpre showp tokenize
      = PTuple [PList (map PList rows); PList hdr] /\
      Permutation rows (map (triple_row false lrows rrows ki kj li ri) T) /\
      forall tr, In tr T -> (fst (fst tr) < List.length lrows)%nat /\ (snd (fst tr) < List.length rrows)%nat.
  Proof.
    assert (El : List.length Lo = List.length lrows) by (unfold Lo; apply map_length).
    eexists. eexists. split; [|split; [exact size_filter_rows_fold | split]].
    - rewrite (f_model_eq KSize p ae L R (sz_cb p he Lo)).
      + fold all. replace (map (order all) L) with Lo by (unfold Lo, L, xof; now rewrite map_map).
        unfold R. rewrite enumerate_map, flat_map_map. cbn [fst snd]. fold he. reflexivity.
      + fold all. replace (map (order all) L) with Lo by (unfold Lo, L, xof; now rewrite map_map).
        intros yraw Hy _ c Hc. unfold R in Hy. apply in_map_iff in Hy. destruct Hy as (rrow & <- & Hin).
        destruct (sz_row rrow Hin) as (_ & _ & _ & Hpc). fold (yof rrow).
        unfold filter_cand, sz_cb. rewrite (Hpc c Hc). reflexivity.
    - unfold sz_rows_of.
      apply (chunk_perm false ki kj li ri lrows rrows yof
               (fun y => f_row_pairs he Lo (sz_keys p he Lo y) y)
               (fun j y => f_model_row he Lo (sz_cb p he Lo y) j y)).
      intros j rrow Hin. apply sz_row_perm. exact Hin.
    - apply (chunk_bounds lrows rrows yof (fun j y => f_model_row he Lo (sz_cb p he Lo y) j y)).
      intros j y tr Htr. unfold f_model_row in Htr.
      destruct (he && (len y =? 0)); apply in_flat_map in Htr; destruct Htr as (x & Hx & Htr).
      + destruct (len (snd x) =? 0); [|destruct Htr]. destruct Htr as [<-|[]]. cbn [fst snd]. split; [|reflexivity].
        destruct x as [c xs]. apply in_combine_l in Hx. apply in_seq in Hx. cbn [fst]. lia.
      + apply in_seq in Hx. destruct (sz_cb p he Lo y x); [|destruct Htr].
        destruct Htr as [<-|[]]. cbn [fst snd]. split; [lia | reflexivity].
  Qed.
End Size.

Print Assumptions size_filter_rows_fold.
Print Assumptions size_filter_tables_split_rows_refines.
