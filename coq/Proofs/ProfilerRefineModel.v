(* Main refinement theorem for the profiler:

     profile_table_for_join_rows_refines_model
        the GENERATED profile_table_for_join_rows (Gen/ProfilerGen.v) returns, on every well-formed
        table, the rendering of Model/Profiler.profile_table's result -- rows and both error cases
        (unknown attribute -> AssertionError, no rows but an attribute to profile -> ZeroDivisionError).

   Model/Profiler.v names attributes by integers; `aid` is any naming that is injective on the columns
   and the requested attributes, `name_of` its inverse on the columns.  A closed instance (all hypotheses
   discharged by computation) is at the end, and one for a column that holds None AND NaN (in the domain
   since the source counts the missing value itself: ex_mixed_missing; the old count: ex_mixed_old_count).
   Axiom-free.                                                                                     *)
From Coq Require Import ZArith Bool List String SpecFloat Lia.
From SSJ Require Import F64 PyNum Frame ProfFrame Profiler ProfilerGen Projection ProjectionFacts
     WrapperRefineFrame ProfilerRefineUniq ProfilerRefineBase ProfilerRefine.
Import ListNotations.
Open Scope string_scope.
Open Scope Z_scope.

Definition inj_on (aid : string -> Z) (l : list string) : Prop :=
  forall a b, In a l -> In b l -> aid a = aid b -> a = b.

(* the model's table: (attribute id, value ids of the column), in column order *)
Definition id_table (aid : string -> Z) (cols : list string) (ids : string -> column) : list (Z * column) :=
  map (fun a => (aid a, ids a)) cols.

Definition name_of (aid : string -> Z) (cols : list string) (i : Z) : string :=
  match find (fun a => aid a =? i) cols with Some a => a | None => "" end.

(* the model's result as the value the generated function returns *)
Definition render (sf : f64 -> string) (aid : string -> Z) (cols : list string) (r : presult) : pyval :=
  match r with
  | PErr e => PExc e
  | POk rows => render_rows sf (map (fun ir => (name_of aid cols (fst ir), snd ir)) rows)
  end.

(* ------------------------------------------------------------------ the naming *)
Lemma inj_on_incl aid l l' : inj_on aid l -> (forall a, In a l' -> In a l) -> inj_on aid l'.
Proof. intros H Hi a b Ha Hb. apply H; apply Hi; assumption. Qed.

Lemma existsb_id aid cols l a : inj_on aid (cols ++ l) -> In a l ->
  existsb (Z.eqb (aid a)) (map aid cols) = existsb (String.eqb a) cols.
Proof.
  intros Hinj Ha. apply eq_true_iff_eq. rewrite existsb_eqb_In, existsb_exists. split.
  - intros (i & Hi & E). apply in_map_iff in Hi. destruct Hi as (c & <- & Hc).
    apply Z.eqb_eq in E. assert (a = c) as ->; [|exact Hc].
    apply Hinj; [apply in_or_app; right; exact Ha | apply in_or_app; left; exact Hc | exact E].
  - intros Hc. exists (aid a). split; [apply in_map; exact Hc | apply Z.eqb_refl].
Qed.

Lemma known_ids aid cols l : inj_on aid (cols ++ l) ->
  forallb (fun i => existsb (Z.eqb i) (map aid cols)) (map aid l) = known cols l.
Proof.
  unfold known. intros Hinj.
  assert (G : forall l', (forall a, In a l' -> In a l) ->
              forallb (fun i => existsb (Z.eqb i) (map aid cols)) (map aid l')
              = forallb (fun a => existsb (String.eqb a) cols) l').
  { induction l' as [|a l' IH]; intros Hs; cbn [map forallb]; [reflexivity|].
    rewrite (existsb_id aid cols l a Hinj) by (apply Hs; left; reflexivity).
    rewrite IH; [reflexivity|]. intros b Hb. apply Hs. right; exact Hb. }
  apply G. intros a Ha; exact Ha.
Qed.

Lemma lookup_id aid cols ids a : inj_on aid cols -> In a cols ->
  lookup_col (aid a) (id_table aid cols ids) = Some (ids a).
Proof.
  unfold id_table. induction cols as [|c cs IH]; intros Hinj Ha; [destruct Ha|].
  cbn [map lookup_col]. destruct (aid a =? aid c) eqn:E.
  - apply Z.eqb_eq in E. assert (a = c) as ->; [|reflexivity].
    apply Hinj; [exact Ha | left; reflexivity | exact E].
  - destruct Ha as [-> | Ha]; [rewrite Z.eqb_refl in E; discriminate|].
    apply IH; [|exact Ha]. apply (inj_on_incl aid (c :: cs)); [exact Hinj | intros b Hb; right; exact Hb].
Qed.

Lemma name_of_id aid cols a : inj_on aid cols -> In a cols -> name_of aid cols (aid a) = a.
Proof.
  unfold name_of. induction cols as [|c cs IH]; intros Hinj Ha; [destruct Ha|].
  cbn [find]. destruct (aid c =? aid a) eqn:E.
  - apply Z.eqb_eq in E. apply Hinj; [left; reflexivity | exact Ha | exact E].
  - destruct Ha as [-> | Ha]; [rewrite Z.eqb_refl in E; discriminate|].
    apply IH; [|exact Ha]. apply (inj_on_incl aid (c :: cs)); [exact Hinj | intros b Hb; right; exact Hb].
Qed.

Lemma render_model_rows aid cols ids n l : inj_on aid cols -> (forall a, In a l -> In a cols) ->
  map (fun ir => (name_of aid cols (fst ir), snd ir))
      (map (fun i => (i, profile_column n (match lookup_col i (id_table aid cols ids) with
                                          | Some c => c | None => [] end))) (map aid l))
  = model_rows n ids l.
Proof.
  intros Hinj Hin. unfold model_rows. rewrite !map_map. apply map_ext_in. intros a Ha. cbn [fst snd].
  rewrite (lookup_id aid cols ids a Hinj (Hin a Ha)), (name_of_id aid cols a Hinj (Hin a Ha)). reflexivity.
Qed.

(* the model's result for the (validated) attribute list l *)
Lemma render_rows_of_list sf aid cols ids n l : inj_on aid cols -> (forall a, In a l -> In a cols) ->
  render sf aid cols
    (match map aid l with
     | [] => POk []
     | _ :: _ =>
         if n =? 0 then PErr "ZeroDivisionError"
         else POk (map (fun i => (i, profile_column n (match lookup_col i (id_table aid cols ids) with
                                                       | Some c => c | None => [] end))) (map aid l))
     end)
  = explicit_rows sf n ids l.
Proof.
  intros Hinj Hin. unfold explicit_rows. destruct l as [|a0 l'] eqn:El; [reflexivity|].
  rewrite <- El in *. assert (E : exists i t, map aid l = i :: t) by (rewrite El; cbn [map]; eauto).
  destruct E as (i & t & E). rewrite E. rewrite <- E.
  destruct (n =? 0); [reflexivity|]. cbn [render]. now rewrite render_model_rows.
Qed.

(* ------------------------------------------------------------------ the theorem *)
Theorem profile_table_for_join_rows_refines_model :
  forall (sf : f64 -> string) (aid : string -> Z) (cols : list string) (rows : list (list pyval))
         (ids : string -> column) (attrs : option (list string)),
    wf_table cols rows ids ->
    Z.of_nat (List.length rows) < 2 ^ 53 ->
    inj_on aid (cols ++ match attrs with Some l => l | None => [] end) ->
    profile_table_for_join_rows sf (sframe cols rows) (py_opt_strs attrs)
    = render sf aid cols
        (profile_table (Z.of_nat (List.length rows)) (id_table aid cols ids) (option_map (map aid) attrs)).
Proof.
  intros sf aid cols rows ids attrs Hwf Hbound Hinj.
  rewrite (profile_table_for_join_rows_explicit sf cols rows ids attrs Hwf Hbound).
  set (n := Z.of_nat (List.length rows)).
  assert (Hic : inj_on aid cols).
  { apply (inj_on_incl aid _ cols Hinj). intros a Ha. apply in_or_app. left; exact Ha. }
  unfold profile_table, explicit_result.
  assert (Hn : map fst (id_table aid cols ids) = map aid cols).
  { unfold id_table. rewrite map_map. reflexivity. }
  rewrite Hn. destruct attrs as [l|]; cbn [option_map].
  - rewrite (known_ids aid cols l Hinj). destruct (known cols l) eqn:Hk; [|reflexivity].
    symmetry. apply render_rows_of_list; [exact Hic | apply known_In; exact Hk].
  - symmetry. apply render_rows_of_list; [exact Hic | intros a Ha; exact Ha].
Qed.

(* ------------------------------------------------------------------ a closed instance *)
(* executable checks for the hypotheses *)
Definition inj_on_b (aid : string -> Z) (l : list string) : bool :=
  forallb (fun a => forallb (fun b => implb (aid a =? aid b) (String.eqb a b)) l) l.

Lemma inj_on_b_sound aid l : inj_on_b aid l = true -> inj_on aid l.
Proof.
  unfold inj_on_b, inj_on. intros H a b Ha Hb E. rewrite forallb_forall in H.
  specialize (H a Ha). rewrite forallb_forall in H. specialize (H b Hb).
  rewrite E, Z.eqb_refl in H. cbn [implb] in H. now apply String.eqb_eq.
Qed.

Fixpoint nodup_b (l : list string) : bool :=
  match l with [] => true | a :: t => negb (existsb (String.eqb a) t) && nodup_b t end.

Lemma nodup_b_sound l : nodup_b l = true -> NoDup l.
Proof.
  induction l as [|a l IH]; cbn [nodup_b]; intros H; constructor.
  - apply andb_prop in H. destruct H as [H _]. apply negb_true_iff in H.
    intros Hin. apply existsb_eqb_In in Hin. congruence.
  - apply IH. apply andb_prop in H. apply H.
Qed.

Definition wf_table_b (cols : list string) (rows : list (list pyval)) (ids : string -> column) : bool :=
  nodup_b cols && forallb (fun r => Nat.eqb (List.length r) (List.length cols)) rows &&
  forallb (fun a => abstracts_b (col_cells cols rows a) (ids a)) cols.

Lemma wf_table_b_sound cols rows ids : wf_table_b cols rows ids = true -> wf_table cols rows ids.
Proof.
  unfold wf_table_b, wf_table. intros H.
  apply andb_prop in H. destruct H as [H H3]. apply andb_prop in H. destruct H as [H1 H2].
  split; [apply nodup_b_sound; exact H1|]. split.
  - intros r Hr. rewrite forallb_forall in H2. apply Nat.eqb_eq. apply H2. exact Hr.
  - intros a Ha. rewrite forallb_forall in H3. apply abstracts_b_sound. apply H3. exact Ha.
Qed.

(* id | name (a missing value, a duplicate) | score (float64: NaN missing; 1.0, 1.0 duplicate) *)
Definition ex_cols : list string := ["id"; "name"; "score"].
Definition ex_rows : list (list pyval) :=
  [[PInt 1; PStr "ann"; PFloat (f_of_Z 1)];
   [PInt 2; PNone;      PFloat S754_nan];
   [PInt 3; PStr "ann"; PFloat (f_of_Z 1)];
   [PInt 4; PStr "bob"; PFloat S754_nan]].
Definition ex_ids (a : string) : column :=
  if String.eqb a "id" then [Some 1; Some 2; Some 3; Some 4]
  else if String.eqb a "name" then [Some 1; None; Some 1; Some 2]
  else [Some 1; None; Some 1; None].
Definition ex_aid (a : string) : Z :=
  if String.eqb a "id" then 1 else if String.eqb a "name" then 2 else if String.eqb a "score" then 3
  else if String.eqb a "nosuch" then 99 else 0.

Example ex_all_columns : forall sf,
  profile_table_for_join_rows sf (sframe ex_cols ex_rows) PNone
  = render_rows sf [("id",    mkrow 4 (pct 4 4) 0 (pct 0 4) CmtKey);
                    ("name",  mkrow 3 (pct 3 4) 1 (pct 1 4) CmtMissing);
                    ("score", mkrow 2 (pct 2 4) 2 (pct 2 4) CmtMissing)].
Proof.
  intros sf.
  change PNone with (py_opt_strs None).
  rewrite (profile_table_for_join_rows_refines_model sf ex_aid ex_cols ex_rows ex_ids None).
  - reflexivity.
  - apply wf_table_b_sound. vm_compute. reflexivity.
  - vm_compute. reflexivity.
  - apply inj_on_b_sound. vm_compute. reflexivity.
Qed.

Example ex_unknown_attribute : forall sf,
  profile_table_for_join_rows sf (sframe ex_cols ex_rows) (py_opt_strs (Some ["name"; "nosuch"]))
  = AssertionError.
Proof.
  intros sf.
  rewrite (profile_table_for_join_rows_refines_model sf ex_aid ex_cols ex_rows ex_ids (Some ["name"; "nosuch"])).
  - reflexivity.
  - apply wf_table_b_sound. vm_compute. reflexivity.
  - vm_compute. reflexivity.
  - apply inj_on_b_sound. vm_compute. reflexivity.
Qed.

Example ex_no_rows : forall sf,
  profile_table_for_join_rows sf (sframe ex_cols []) (py_opt_strs (Some ["name"]))
  = ZeroDivisionError.
Proof.
  intros sf.
  rewrite (profile_table_for_join_rows_refines_model sf ex_aid ex_cols [] (fun _ => []) (Some ["name"])).
  - reflexivity.
  - apply wf_table_b_sound. vm_compute. reflexivity.
  - vm_compute. reflexivity.
  - apply inj_on_b_sound. vm_compute. reflexivity.
Qed.

(* the strings, with a stand-in for str(float) *)
Example ex_strings :
  profile_table_for_join_rows (fun _ => "<pct>") (sframe ex_cols ex_rows) (py_opt_strs (Some ["name"]))
  = PTuple [PStr "Attribute"; PList [PStr "name"];
            PTuple [PList [PList [PStr "3 (<pct>%)"; PStr "1 (<pct>%)";
                                  PStr "Joining on this attribute will ignore 1 (<pct>%) rows."]];
                    PList [PStr "Unique values"; PStr "Missing values"; PStr "Comments"]]].
Proof. vm_compute. reflexivity. Qed.

(* ------------------------------------------------------------------ None AND NaN in one column *)
(* an object column that holds both spellings of the missing value, and one string: 2 distinct values
   (the missing value counts once), 2 missing *)
Definition mix_cells : list pyval := [PNone; py_nan; PStr "x"].
Definition mix_cols : list string := ["v"].
Definition mix_rows : list (list pyval) := map (fun c => [c]) mix_cells.
Definition mix_ids (a : string) : column := [None; None; Some 1].

(* through the theorem: the table is in its domain (it was not before the repair of the source) *)
Example ex_mixed_missing : forall sf,
  profile_table_for_join_rows sf (sframe mix_cols mix_rows) PNone
  = render_rows sf [("v", mkrow 2 (pct 2 3) 2 (pct 2 3) CmtMissing)].
Proof.
  intros sf.
  change PNone with (py_opt_strs None).
  rewrite (profile_table_for_join_rows_refines_model sf (fun _ => 1) mix_cols mix_rows mix_ids None).
  - reflexivity.
  - apply wf_table_b_sound. vm_compute. reflexivity.
  - vm_compute. reflexivity.
  - apply inj_on_b_sound. vm_compute. reflexivity.
Qed.

(* directly, by computation, with a stand-in for str(float) *)
Example ex_mixed_missing_strings :
  profile_table_for_join_rows (fun _ => "<pct>") (sframe mix_cols mix_rows) PNone
  = PTuple [PStr "Attribute"; PList [PStr "v"];
            PTuple [PList [PList [PStr "2 (<pct>%)"; PStr "2 (<pct>%)";
                                  PStr "Joining on this attribute will ignore 2 (<pct>%) rows."]];
                    PList [PStr "Unique values"; PStr "Missing values"; PStr "Comments"]]].
Proof. vm_compute. reflexivity. Qed.

(* the OLD count len(S.unique()) keeps None and NaN apart: 3 "values" on this column; the repaired source
   counts len(S.dropna().unique()) = 1 present value + 1 for the missing value *)
Example ex_mixed_old_count :
  series_nunique (PList mix_cells) = PInt 3 /\ nunique mix_cells = 3%nat /\
  series_nunique_present (PList mix_cells) = PInt 1 /\
  py_sum (series_isnull (PList mix_cells)) = PInt 2 /\
  n_unique (mix_ids "v") = 2.
Proof. vm_compute. repeat split; reflexivity. Qed.

(* and the hashtable equality does NOT agree with the value ids on the two missing cells *)
Example ex_mixed_two_spellings : cell_key_eq PNone py_nan = false /\ oz_eqb None None = true.
Proof. vm_compute. split; reflexivity. Qed.

Print Assumptions profile_table_for_join_rows_refines_model.
Print Assumptions ex_mixed_missing.
Print Assumptions ex_mixed_missing_strings.
Print Assumptions ex_mixed_old_count.
Print Assumptions ex_all_columns.
Print Assumptions ex_unknown_attribute.
Print Assumptions ex_no_rows.
