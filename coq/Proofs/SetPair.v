(* The pairwise model of set_sim_join (Model/Joins.v, ssj_pair) for JACCARD / COSINE / DICE:
   complete (a qualifying pair is reported with its true score), sound (whatever is reported
   is the true reported score and satisfies the comparison), total (never stuck).
   Section Pair is parametric in the measure and the arithmetic statements F1/F2/F3/F5 and is
   axiom-free; the closing theorems instantiate it with Proofs/Arith{J,C,D}.v.             *)
From Coq Require Import ZArith Bool List String Lia Sorted SpecFloat.
From SSJ Require Import F64 PyNum FilterUtilsGen HelperGen TokenOrdering Measures ArithSpec
     Filters Joins JoinSpec Prefix PositionSafe PrefixSets OrderingFacts PyFacts SetBridge.
Import ListNotations.
Open Scope string_scope.
Open Scope Z_scope.
Local Notation length := List.length.

(* ------------------------------------------------------------------ slices and the loop *)
Lemma slice0_nonneg z l : 0 <= z -> slice0 (PInt z) l = Some (firstn (Z.to_nat z) l).
Proof.
  intros Hz. unfold slice0. destruct (Z.ltb_spec z 0) as [H|H]; [lia|reflexivity].
Qed.

Lemma slice0_nil k xp : slice0 k [] = Some xp -> xp = [].
Proof.
  destruct k; simpl; intros H; try discriminate.
  destruct (z <? 0); try rewrite firstn_nil in H; congruence.
Qed.

Lemma pos_loop_nil_x p nx ny : forall yp j cur, pos_loop p nx ny [] yp j cur = cur.
Proof. induction yp as [|w yp IH]; intros j cur; simpl; [reflexivity|]. apply IH. Qed.

Lemma pos_cand_pos_nonempty p X Y v :
  pos_cand p X Y = Some v -> 0 < v -> X <> [] /\ Y <> [].
Proof.
  unfold pos_cand. intros H Hv.
  destruct (slice0 (g_pl p (len X)) X) as [xp|] eqn:E1; [|discriminate].
  destruct (slice0 (g_pl p (len Y)) Y) as [yp|] eqn:E2; [|discriminate].
  injection H as H. split; intro E; subst.
  - apply slice0_nil in E1. subst xp. rewrite pos_loop_nil_x in Hv. lia.
  - apply slice0_nil in E2. subst yp. simpl in Hv. lia.
Qed.

(* ------------------------------------------------------------------ rank lists vs token lists *)
Lemma order_facts all x y :
  NoDup x -> NoDup y -> (forall w, In w x -> In w all) -> (forall w, In w y -> In w all) ->
  let X := order all x in let Y := order all y in
  StronglySorted Z.lt X /\ StronglySorted Z.lt Y /\ len X = len x /\ len Y = len y /\
  overlap_sets x y = Z.of_nat (hits Y X).
Proof.
  intros Hx Hy Hxa Hya X Y.
  split; [apply order_ssorted; assumption|]. split; [apply order_ssorted; assumption|].
  split; [unfold len, X; rewrite order_length by exact Hxa; reflexivity|].
  split; [unfold len, Y; rewrite order_length by exact Hya; reflexivity|].
  unfold X, Y. rewrite (order_hits all y x Hy Hx Hya Hxa). apply overlap_sets_hits; assumption.
Qed.

(* get_raw_score on two non-empty strictly sorted lists depends on the three sizes only *)
Lemma sim_tok_sizes m X Y :
  StronglySorted Z.lt X -> StronglySorted Z.lt Y -> X <> [] -> Y <> [] ->
  sim_tok m X Y = sim_sizes m (len X) (len Y) (Z.of_nat (hits Y X)).
Proof.
  intros HsX HsY HnX HnY.
  pose proof (ssorted_nodup X HsX) as HdX. pose proof (ssorted_nodup Y HsY) as HdY.
  unfold sim_tok, sim_sizes.
  rewrite (dedup_nodup_id X HdX), (dedup_nodup_id Y HdY), (overlap_sets_hits X Y HdX HdY).
  pose proof (ssorted_eq_iff_hits X Y HsX HsY) as Heq.
  destruct (list_eqbZ X Y) eqn:E.
  - apply list_eqbZ_eq in E. apply (proj1 Heq) in E. destruct E as [E1 E2].
    unfold len. rewrite <- E1 at 1. rewrite <- E2. rewrite !Z.eqb_refl. reflexivity.
  - assert (Hl : (len X =? 0) || (len Y =? 0) = false).
    { unfold len. destruct X; [congruence|]. destruct Y; [congruence|]. reflexivity. }
    rewrite Hl.
    destruct ((Z.of_nat (hits Y X) =? len X) && (Z.of_nat (hits Y X) =? len Y)) eqn:E2;
      [exfalso|reflexivity].
    apply andb_true_iff in E2. destruct E2 as [E2 E3].
    apply Z.eqb_eq in E2. apply Z.eqb_eq in E3. unfold len in E2, E3.
    assert (X = Y) by (apply (proj2 Heq); split; lia).
    apply list_eqbZ_eq in H. congruence.
Qed.

(* ------------------------------------------------------------------ the generic theorems *)
Section Pair.
  Variable m : string.
  Hypothesis Hm : is_jcd m = true.
  Hypothesis HF1 : F1_stmt m.
  Hypothesis HF2 : F2_stmt m.
  Hypothesis HF3 : F3_stmt m.
  Hypothesis HF5 : F5_stmt m.
  Variable t : f64.
  Variable q : Z.
  Hypothesis Ht : env_t t = true.
  Let p := {| fm := m; ft := PFloat t; fq := q |}.

  Variables all x y : list Z.
  Hypothesis Hx : NoDup x.
  Hypothesis Hy : NoDup y.
  Hypothesis Hxa : forall w, In w x -> In w all.
  Hypothesis Hya : forall w, In w y -> In w all.
  Let X := order all x.
  Let Y := order all y.

  (* what ssj_pair reports when the pair gets through the position filter *)
  Lemma reported_on_ranks : X <> [] -> Y <> [] ->
    PFloat (f_round_nd (sim_tok (fm p) X Y) 4) = reported_score m x y.
  Proof.
    intros HnX HnY.
    destruct (order_facts all x y Hx Hy Hxa Hya) as [HsX [HsY [HlX [HlY Ho]]]].
    fold X Y in HsX, HsY, HlX, HlY, Ho.
    unfold reported_score. rewrite Hm. unfold score4.
    rewrite (dedup_nodup_id x Hx), (dedup_nodup_id y Hy).
    unfold p; cbn [fm]. rewrite (sim_tok_sizes m X Y HsX HsY HnX HnY).
    rewrite HlX, HlY, Ho. reflexivity.
  Qed.

  (* the position filter of the join keeps a qualifying pair: its counter ends > 0 *)
  Lemma pos_cand_qualifies op :
    op_ok op -> len x < size_bound -> len y < size_bound -> ~ (x = [] /\ y = []) ->
    qualifies m op (PFloat t) x y = true ->
    exists v, pos_cand p X Y = Some v /\ 0 < v /\ X <> [] /\ Y <> [].
  Proof.
    intros Hop Ha Hb Hne Hq.
    destruct (set_bridge m HF1 HF2 HF3 HF5 t q Ht op all x y Hm Hop Hx Hy Hxa Hya Ha Hb Hne Hq)
      as [al [pa [pb [HsX [HsY [HlX [HlY [Ho1 [Ho2 [_ [Hs [W1 [_ [A1 [A2 [P1 [P2 [_ [_ [Ra [Rb Hh]]]]]]]]]]]]]]]]]]]]].
    fold p X Y in HsX, HsY, HlX, HlY, Ho1, Ho2, W1, A1, P1, P2, Hh.
    set (XP := firstn (Z.to_nat pa) X) in *. set (YP := firstn (Z.to_nat pb) Y) in *.
    exists (Z.of_nat (hits XP YP)).
    assert (EX : (XP ++ skipn (Z.to_nat pa) X)%list = X) by apply firstn_skipn.
    assert (EY : Y = (YP ++ skipn (Z.to_nat pb) Y)%list) by (symmetry; apply firstn_skipn).
    split.
    - unfold pos_cand. rewrite HlX, HlY, P1, P2.
      rewrite (slice0_nonneg pa X) by lia. rewrite (slice0_nonneg pb Y) by lia.
      fold XP YP. f_equal.
      rewrite <- HlX, <- HlY. rewrite <- EX at 1.
      apply (pos_loop_result p XP (skipn (Z.to_nat pa) X) Y al) with (YS := skipn (Z.to_nat pb) Y).
      + rewrite EX. exact HsX.
      + exact HsY.
      + rewrite EX, HlX, HlY. exact W1.
      + rewrite EX, HlX, HlY. exact A1.
      + rewrite EX. rewrite <- Ho1. exact A2.
      + exact EY.
    - destruct Hs as [Ho [Hoa [Hob _]]].
      split; [lia|]. unfold len in HlX, HlY.
      split; intro E; rewrite E in *; simpl in *; lia.
  Qed.

  Theorem ssj_pair_complete_gen op :
    op_ok op -> len x < size_bound -> len y < size_bound -> ~ (x = [] /\ y = []) ->
    qualifies m op (PFloat t) x y = true ->
    ssj_pair p op X Y = Some [reported_score m x y].
  Proof.
    intros Hop Ha Hb Hne Hq.
    destruct (pos_cand_qualifies op Hop Ha Hb Hne Hq) as [v [Hv [Hpos [HnX HnY]]]].
    unfold ssj_pair. rewrite Hv.
    destruct (Z.ltb_spec 0 v) as [_|H]; [|lia].
    rewrite (reported_on_ranks HnX HnY).
    unfold qualifies in Hq. apply andb_true_iff in Hq. destruct Hq as [_ Hq].
    unfold p; cbn [ft]. rewrite Hq. reflexivity.
  Qed.

  Theorem ssj_pair_sound_gen op s :
    ssj_pair p op X Y = Some [s] ->
    s = reported_score m x y /\ cmp_op op s (PFloat t) = true.
  Proof.
    unfold ssj_pair. intros H.
    destruct (pos_cand p X Y) as [v|] eqn:Hv; [|discriminate].
    destruct (Z.ltb_spec 0 v) as [Hpos|_]; [|discriminate].
    destruct (pos_cand_pos_nonempty p X Y v Hv Hpos) as [HnX HnY].
    rewrite (reported_on_ranks HnX HnY) in H.
    destruct (cmp_op op (reported_score m x y) (ft p)) eqn:Hc; [|discriminate].
    injection H as H. subst s. split; [reflexivity|exact Hc].
  Qed.

  Lemma ssj_pair_shape op l :
    ssj_pair p op X Y = Some l -> l = [] \/ exists s, l = [s].
  Proof.
    unfold ssj_pair. intros H.
    destruct (pos_cand p X Y) as [v|]; [|discriminate].
    destruct (0 <? v); [|left; congruence].
    destruct (cmp_op _ _ _); [right|left; congruence].
    eexists. injection H as H. symmetry. exact H.
  Qed.

  Lemma slice_total n (l : list Z) : 0 <= n < size_bound -> exists s, slice0 (g_pl p n) l = Some s.
  Proof.
    intros Hn. destruct (Z.eq_dec n 0) as [->|Hn0].
    - unfold p. rewrite g_pl_0. eexists. reflexivity.
    - destruct (g_total m HF5 t q Ht n) as [_ [_ [pl [_ [_ [Hpl _]]]]]]; [lia|].
      fold p in Hpl. rewrite Hpl. eexists. reflexivity.
  Qed.

  Theorem ssj_pair_total_gen op :
    len x < size_bound -> len y < size_bound -> ssj_pair p op X Y <> None.
  Proof.
    intros Ha Hb.
    destruct (order_facts all x y Hx Hy Hxa Hya) as [_ [_ [HlX [HlY _]]]].
    fold X Y in HlX, HlY.
    unfold ssj_pair, pos_cand. rewrite HlX, HlY.
    destruct (slice_total (len x) X) as [xp ->]; [unfold len in *; lia|].
    destruct (slice_total (len y) Y) as [yp ->]; [unfold len in *; lia|].
    destruct (0 <? _); [|discriminate]. destruct (cmp_op _ _ _); discriminate.
  Qed.

  (* an empty side is never reported *)
  Lemma ssj_pair_empty op :
    len x < size_bound -> len y < size_bound -> x = [] \/ y = [] -> ssj_pair p op X Y = Some [].
  Proof.
    intros Ha Hb He.
    pose proof (ssj_pair_total_gen op Ha Hb) as Htot.
    destruct (ssj_pair p op X Y) as [l|] eqn:E; [|congruence].
    destruct (ssj_pair_shape op l E) as [->|[s ->]]; [reflexivity|exfalso].
    unfold ssj_pair in E.
    destruct (pos_cand p X Y) as [v|] eqn:Hv; [|discriminate].
    destruct (Z.ltb_spec 0 v) as [Hpos|_]; [|discriminate].
    destruct (pos_cand_pos_nonempty p X Y v Hv Hpos) as [HnX HnY].
    destruct He as [->| ->]; [apply HnX|apply HnY]; reflexivity.
  Qed.

  (* outside the gray zone the model reports the pair iff the reported score passes *)
  Theorem ssj_pair_nongray_gen op :
    op_ok op -> len x < size_bound -> len y < size_bound -> ~ (x = [] /\ y = []) ->
    gray m op (PFloat t) x y = false ->
    (ssj_pair p op X Y = Some [reported_score m x y] <->
     cmp_op op (reported_score m x y) (PFloat t) = true).
  Proof.
    intros Hop Ha Hb Hne Hg. split.
    - intros H. apply ssj_pair_sound_gen in H. apply H.
    - intros Hc. apply ssj_pair_complete_gen; try assumption.
      unfold gray in Hg. apply negb_false_iff in Hg. apply eqb_prop in Hg.
      unfold qualifies. rewrite Hg, Hc. reflexivity.
  Qed.
End Pair.

(* ------------------------------------------------------------------ JACCARD / COSINE / DICE *)
Section Closing.
  Variables (m : string) (t : f64) (q : Z) (op : string) (all x y : list Z).
  Hypothesis Hm : is_jcd m = true.
  Hypothesis Ht : env_t t = true.
  Hypothesis Hx : NoDup x.
  Hypothesis Hy : NoDup y.
  Hypothesis Hxa : forall w, In w x -> In w all.
  Hypothesis Hya : forall w, In w y -> In w all.
  Hypothesis Ha : len x < size_bound.
  Hypothesis Hb : len y < size_bound.
  Let p := {| fm := m; ft := PFloat t; fq := q |}.
  Let X := order all x.
  Let Y := order all y.

  Theorem ssj_pair_complete :
    op_ok op -> ~ (x = [] /\ y = []) ->
    qualifies m op (PFloat t) x y = true ->
    ssj_pair p op X Y = Some [reported_score m x y].
  Proof.
    destruct (jcd_F m Hm) as [H1 [H2 [H3 H5]]].
    intros Hop Hne. apply ssj_pair_complete_gen; assumption.
  Qed.

  Theorem ssj_pair_sound : forall s,
    ssj_pair p op X Y = Some [s] ->
    s = reported_score m x y /\ cmp_op op s (PFloat t) = true.
  Proof. intros s. apply ssj_pair_sound_gen; assumption. Qed.

  Theorem ssj_pair_sound_shape : forall l,
    ssj_pair p op X Y = Some l -> l = [] \/ exists s, l = [s].
  Proof. intros l. apply ssj_pair_shape. Qed.

  Theorem ssj_pair_total : ssj_pair p op X Y <> None.
  Proof.
    destruct (jcd_F m Hm) as [_ [_ [_ H5]]]. apply ssj_pair_total_gen; assumption.
  Qed.

  Theorem ssj_pair_empty_side : x = [] \/ y = [] -> ssj_pair p op X Y = Some [].
  Proof.
    destruct (jcd_F m Hm) as [_ [_ [_ H5]]]. apply ssj_pair_empty; assumption.
  Qed.

  Theorem ssj_pair_nongray :
    op_ok op -> ~ (x = [] /\ y = []) ->
    gray m op (PFloat t) x y = false ->
    (ssj_pair p op X Y = Some [reported_score m x y] <->
     cmp_op op (reported_score m x y) (PFloat t) = true).
  Proof.
    destruct (jcd_F m Hm) as [H1 [H2 [H3 H5]]].
    intros Hop Hne. apply ssj_pair_nongray_gen; assumption.
  Qed.
End Closing.

(* ------------------------------------------------------------------ non-vacuity *)
Example ssj_pair_ex :
  let all := [1;2;3;4;5;2;3;4;7] in let x := [1;2;3;4;5] in let y := [2;3;4;7] in
  let t := mkF 1 (-1) in
  let p := {| fm := "JACCARD"; ft := PFloat t; fq := 2 |} in
  env_t t = true /\ is_jcd "JACCARD" = true /\
  len x < size_bound /\ len y < size_bound /\
  qualifies "JACCARD" ">=" (PFloat t) x y = true /\
  ssj_pair p ">=" (order all x) (order all y) = Some [reported_score "JACCARD" x y] /\
  reported_score "JACCARD" x y = PFloat (mkF 1 (-1)) /\
  (* a non-qualifying pair (J = 1/8) is not reported *)
  ssj_pair p ">=" (order all x) (order all [5;7;8;9]) = Some [].
Proof. vm_compute. repeat split; reflexivity. Qed.

Example ssj_pair_ex_hyps :
  let all := [1;2;3;4;5;2;3;4;7] in let x := [1;2;3;4;5] in let y := [2;3;4;7] in
  NoDup x /\ NoDup y /\ (forall w, In w x -> In w all) /\ (forall w, In w y -> In w all) /\
  ~ (x = [] /\ y = []) /\ op_ok ">=".
Proof.
  cbv zeta. split; [|split; [|split; [|split; [|split]]]].
  - repeat constructor; simpl; intuition lia.
  - repeat constructor; simpl; intuition lia.
  - simpl. intuition.
  - simpl. intuition.
  - intros [H _]. discriminate.
  - left. reflexivity.
Qed.

(* the completeness theorem applied to the concrete instance: all hypotheses are satisfiable *)
Example ssj_pair_ex_thm :
  ssj_pair {| fm := "JACCARD"; ft := PFloat (mkF 1 (-1)); fq := 2 |} ">="
           (order [1;2;3;4;5;2;3;4;7] [1;2;3;4;5]) (order [1;2;3;4;5;2;3;4;7] [2;3;4;7])
  = Some [reported_score "JACCARD" [1;2;3;4;5] [2;3;4;7]].
Proof.
  pose proof ssj_pair_ex_hyps as H. cbv zeta in H.
  destruct H as [Hx [Hy [Hxa [Hya [Hne Hop]]]]].
  apply ssj_pair_complete; try assumption; vm_compute; reflexivity.
Qed.

Print Assumptions ssj_pair_complete_gen.
Print Assumptions ssj_pair_sound_gen.
Print Assumptions ssj_pair_total_gen.
Print Assumptions ssj_pair_complete.
Print Assumptions ssj_pair_sound.
Print Assumptions ssj_pair_sound_shape.
Print Assumptions ssj_pair_total.
Print Assumptions ssj_pair_nongray.
