(* Code-level RELATIONAL property theorems, part 2: C13 (transposition, threshold refinement, operator partition)
   stated DIRECTLY about the frames returned by the GENERATED wrappers jaccard_join_rows / cosine_join_rows /
   dice_join_rows (Gen/WrapperGen.v), overlap_coefficient_join_rows and overlap_join_rows (Gen/FilterWrapperGen.v).

   Every theorem is about TWO or THREE calls of a generated wrapper; `code_view c kz lhs` is the key-level view
   computed from the returned frame lhs (CodeLevelRelBase.v).  Composition of
     (A) the per-call bundles  jcd_call_facts / ovc_call_facts / ovj_call_facts   (the view of the frame a
         generated wrapper returns satisfies the single-call specs and has the model's typed scores), and
     (B) the spec-level laws   Laws.transpose_law, ModelLaws.refine_law_rows, Laws.partition_nongray /
         partition_law_exact   (for ARBITRARY observed outputs).
   The hypotheses of each call are those of the tight code-level theorems (CodeLevelTight.v), stated for
   every call (`jcd_call_hyps`, `ovc_call_hyps`, `ovj_call_hyps`); for the operator partition the hypotheses of
   the `>` and `=` calls are DERIVED from those of one call (only the operator validator and COMP_OP_MAP
   depend on the operator).                                                                               *)
From Coq Require Import ZArith Reals Bool List String Lia Permutation.
From SSJ Require Import F64 F64Spec PyNum FilterUtilsGen HelperGen TokenOrderingGen ValidationGen IndexGen JoinGen
     TokenOrdering Measures Filters Joins Api JoinSpec MetaSpec Projection ProjSpec IndexPyFacts ProjectionFacts
     JoinGenFacts JoinGenLoop JoinRefine JoinRefineProj SplitFacts Frame WrapperGen FilterWrapperGen
     WrapperRefineFrame WrapperRefineMissing WrapperRefineCore WrapperRefineChunks WrapperRefine WrapperRefineClosed
     WrapperRefineApi WrapperRefineEnd WrapperBody WrapperApiLink WrapperEnd
     WrapperRefineOvc FilterWrapperRefineOverlap
     OrderingFacts OverlapFacts OverlapMeasure ValidationFacts ArithCommon
     ApiLift ApiJoinBase ApiJoinPairs ApiJoinSpec PartitionInst LawsBase LawsScore LawsSpec Laws LawsArith
     ModelScores ModelArith ModelLaws
     CodeLevelBase CodeLevelJoins CodeLevelJoins2 CodeLevelTight CodeLevelRelBase CodeLevelRelCalls.
Import ListNotations.
Open Scope string_scope.
Open Scope list_scope.
Open Scope Z_scope.

(* the wrapper of the measure *)
Lemma jcd_wrapper_jaccard c p op ae am njobs cpus lsrc rsrc showp tokenize sim_fn : fm p = "JACCARD" ->
  jcd_wrapper_call c p op ae am njobs cpus lsrc rsrc showp tokenize sim_fn
  = jcd_call c p op ae am njobs cpus lsrc rsrc showp tokenize sim_fn jaccard_join_rows.
Proof. intros E. unfold jcd_wrapper_call. rewrite E. reflexivity. Qed.
Lemma jcd_wrapper_cosine c p op ae am njobs cpus lsrc rsrc showp tokenize sim_fn : fm p = "COSINE" ->
  jcd_wrapper_call c p op ae am njobs cpus lsrc rsrc showp tokenize sim_fn
  = jcd_call c p op ae am njobs cpus lsrc rsrc showp tokenize sim_fn cosine_join_rows.
Proof. intros E. unfold jcd_wrapper_call. rewrite E. reflexivity. Qed.
Lemma jcd_wrapper_dice c p op ae am njobs cpus lsrc rsrc showp tokenize sim_fn : fm p = "DICE" ->
  jcd_wrapper_call c p op ae am njobs cpus lsrc rsrc showp tokenize sim_fn
  = jcd_call c p op ae am njobs cpus lsrc rsrc showp tokenize sim_fn dice_join_rows.
Proof. intros E. unfold jcd_wrapper_call. rewrite E. reflexivity. Qed.

(* ================================================================== C13 transposition *)
Section TransposeJcd.
  Variables (c : pcase) (p : fparams) (op : string) (ae am : bool) (njobs cpus : Z).
  Variables (lsrc rsrc : list (list pyval)) (showp showp' : pyval).
  Variables (tokenize : pyval -> pyval) (sim_fn : pyval -> pyval -> pyval).
  Variables (toks : pyval -> list Z) (cf : pyval -> pyval -> pyval) (kz : pyval -> Z).

  (* the call, and the call with the two tables (key / join / output attributes, prefixes) swapped *)
  Hypothesis H1 : jcd_call_hyps c p op lsrc rsrc tokenize sim_fn toks cf kz.
  Hypothesis H2 : jcd_call_hyps (swap_pcase c) p op rsrc lsrc tokenize sim_fn toks cf kz.
  Hypothesis Hsc : p_score c = true.

  Theorem C13_code_transpose_jcd :
    transpose_spec (jcd_jcase c p op ae am njobs cpus lsrc rsrc toks kz)
      (code_view c kz (jcd_wrapper_call c p op ae am njobs cpus lsrc rsrc showp tokenize sim_fn))
      (code_view (swap_pcase c) kz
         (jcd_wrapper_call (swap_pcase c) p op ae am njobs cpus rsrc lsrc showp' tokenize sim_fn)) = true.
  Proof using H1 H2 Hsc.
    apply code_transpose_law.
    - exact (weak_set_case _ (jcd_call_valid c p op ae am njobs cpus lsrc rsrc tokenize sim_fn toks cf kz H1)).
    - exact Hsc.
    - exact (proj1 (jcd_call_facts c p op ae am njobs cpus lsrc rsrc showp tokenize sim_fn toks cf kz H1)).
    - rewrite <- jcd_jcase_swap.
      exact (proj1 (jcd_call_facts (swap_pcase c) p op ae am njobs cpus rsrc lsrc showp' tokenize sim_fn toks cf kz H2)).
  Qed.

  Corollary C13_code_transpose_jaccard : fm p = "JACCARD" ->
    transpose_spec (jcd_jcase c p op ae am njobs cpus lsrc rsrc toks kz)
      (code_view c kz (jcd_call c p op ae am njobs cpus lsrc rsrc showp tokenize sim_fn jaccard_join_rows))
      (code_view (swap_pcase c) kz
         (jcd_call (swap_pcase c) p op ae am njobs cpus rsrc lsrc showp' tokenize sim_fn jaccard_join_rows)) = true.
  Proof using H1 H2 Hsc.
    intros E. rewrite <- !(jcd_wrapper_jaccard _ _ _ _ _ _ _ _ _ _ _ _ E). exact C13_code_transpose_jcd.
  Qed.
  Corollary C13_code_transpose_cosine : fm p = "COSINE" ->
    transpose_spec (jcd_jcase c p op ae am njobs cpus lsrc rsrc toks kz)
      (code_view c kz (jcd_call c p op ae am njobs cpus lsrc rsrc showp tokenize sim_fn cosine_join_rows))
      (code_view (swap_pcase c) kz
         (jcd_call (swap_pcase c) p op ae am njobs cpus rsrc lsrc showp' tokenize sim_fn cosine_join_rows)) = true.
  Proof using H1 H2 Hsc.
    intros E. rewrite <- !(jcd_wrapper_cosine _ _ _ _ _ _ _ _ _ _ _ _ E). exact C13_code_transpose_jcd.
  Qed.
  Corollary C13_code_transpose_dice : fm p = "DICE" ->
    transpose_spec (jcd_jcase c p op ae am njobs cpus lsrc rsrc toks kz)
      (code_view c kz (jcd_call c p op ae am njobs cpus lsrc rsrc showp tokenize sim_fn dice_join_rows))
      (code_view (swap_pcase c) kz
         (jcd_call (swap_pcase c) p op ae am njobs cpus rsrc lsrc showp' tokenize sim_fn dice_join_rows)) = true.
  Proof using H1 H2 Hsc.
    intros E. rewrite <- !(jcd_wrapper_dice _ _ _ _ _ _ _ _ _ _ _ _ E). exact C13_code_transpose_jcd.
  Qed.
End TransposeJcd.

Section TransposeOvc.
  Variables (c : pcase) (p : fparams) (op : string) (ae am : bool) (njobs cpus : Z).
  Variables (lsrc rsrc : list (list pyval)) (showp showp' : pyval).
  Variables (tokenize : pyval -> pyval).
  Variables (toks : pyval -> list Z) (cf : pyval -> pyval -> pyval) (kz : pyval -> Z).
  Hypothesis H1 : ovc_call_hyps c p op lsrc rsrc tokenize toks cf kz.
  Hypothesis H2 : ovc_call_hyps (swap_pcase c) p op rsrc lsrc tokenize toks cf kz.
  Hypothesis Hsc : p_score c = true.

  Theorem C13_code_transpose_overlap_coefficient :
    transpose_spec (ovc_code_jcase c p op ae am njobs cpus lsrc rsrc toks kz)
      (code_view c kz (ovc_call c p op ae am njobs cpus lsrc rsrc showp tokenize))
      (code_view (swap_pcase c) kz (ovc_call (swap_pcase c) p op ae am njobs cpus rsrc lsrc showp' tokenize)) = true.
  Proof using H1 H2 Hsc.
    apply code_transpose_law.
    - exact (weak_set_case _ (ovc_call_valid c p op ae am njobs cpus lsrc rsrc tokenize toks cf kz H1)).
    - exact Hsc.
    - exact (proj1 (ovc_call_facts c p op ae am njobs cpus lsrc rsrc showp tokenize toks cf kz H1)).
    - rewrite <- ovc_jcase_swap.
      exact (proj1 (ovc_call_facts (swap_pcase c) p op ae am njobs cpus rsrc lsrc showp' tokenize toks cf kz H2)).
  Qed.
End TransposeOvc.

Section TransposeOvj.
  Variables (c : pcase) (T : Z) (op : string) (am : bool) (q njobs cpus : Z).
  Variables (lsrc rsrc : list (list pyval)) (showp showp' : pyval).
  Variables (tokenize : pyval -> pyval).
  Variables (toks : pyval -> list Z) (cf : pyval -> pyval -> pyval) (kz : pyval -> Z).
  Hypothesis H1 : ovj_call_hyps c T op lsrc rsrc tokenize toks cf kz.
  Hypothesis H2 : ovj_call_hyps (swap_pcase c) T op rsrc lsrc tokenize toks cf kz.
  Hypothesis Hsc : p_score c = true.

  Theorem C13_code_transpose_overlap_join :
    transpose_spec (ovj_code_jcase c T op am q njobs cpus lsrc rsrc toks kz)
      (code_view c kz (ovj_call c (PInt T) op am njobs cpus lsrc rsrc showp tokenize))
      (code_view (swap_pcase c) kz (ovj_call (swap_pcase c) (PInt T) op am njobs cpus rsrc lsrc showp' tokenize)) = true.
  Proof using H1 H2 Hsc.
    apply code_transpose_law.
    - exact (weak_set_case _ (ovj_call_valid c T op am q njobs cpus lsrc rsrc tokenize toks cf kz H1)).
    - exact Hsc.
    - exact (proj1 (ovj_call_facts c T op am q njobs cpus lsrc rsrc showp tokenize toks cf kz H1)).
    - rewrite <- ovj_jcase_swap.
      exact (proj1 (ovj_call_facts (swap_pcase c) T op am q njobs cpus rsrc lsrc showp' tokenize toks cf kz H2)).
  Qed.
End TransposeOvj.

(* ================================================================== C13 threshold refinement *)
(* laxer_rows under weak validity: float thresholds t1 <= t2, the token sets of the present rows in the
   envelope of the arithmetic theorems (always so for J/C/D; an extra hypothesis for OVERLAP_COEFFICIENT) *)
Lemma weak_laxer_rows_float c1 c2 m t1 t2 :
  lower_op (j_op c1) -> j_entry c1 = EJoin m -> LawsSpec.set_measure m = true -> String.eqb m "OVERLAP" = false ->
  (forall r, In r (j_L c1) \/ In r (j_R c1) -> present r = true -> toks_ok (toks_of r)) ->
  j_t c1 = PFloat t1 -> j_t c2 = PFloat t2 -> fin t1 -> fin t2 -> (FR t1 <= FR t2)%R ->
  (j_op c1 = ">=" \/ j_op c1 = ">") -> laxer_rows c1 c2.
Proof.
  intros Hop He Hmm Hno Hrows E1 E2 F1 F2 Hle Hopc l r Hl Hr Pl Pr.
  unfold exp_sc. rewrite He, E1, E2. intros Hc.
  destruct (reported_fin (toks_of l) (toks_of r) (Hrows l (or_introl Hl) Pl) (Hrows r (or_intror Hr) Pr) m (j_op c1)
              (PFloat t2) Hmm Hno Hop Hc) as [g [Eg Fg]].
  rewrite Eg in *. exact (cmp_float_mono (j_op c1) g t1 t2 Fg F1 F2 Hle Hopc Hc).
Qed.

Lemma ge_gt_lower op : op = ">=" \/ op = ">" -> lower_op op.
Proof. intros [-> | ->]; [left | right; left]; reflexivity. Qed.

(* the rows of the model's tables carry the token sets of the present source rows *)
Lemma rows_toks_ok c lsrc rsrc toks kz (Q : list Z -> Prop) :
  cells_sat c lsrc rsrc (fun v => Q (toks v)) ->
  forall r, In r (map (arowLs c toks (fun _ => []) kz) lsrc) \/ In r (map (arowRs c toks (fun _ => []) kz) rsrc) ->
    present r = true -> Q (toks_of r).
Proof.
  intros (HL & HR) r [Hr|Hr] Pr.
  - destruct (arowLs_present c lsrc toks (fun _ => []) kz r Hr Pr) as (row & Hrow & Et & _). rewrite Et. exact (HL row Hrow).
  - destruct (arowRs_present c rsrc toks (fun _ => []) kz r Hr Pr) as (row & Hrow & Et & _). rewrite Et. exact (HR row Hrow).
Qed.

Section RefineJcd.
  Variables (c : pcase) (m : string) (t1 t2 : f64) (q1 q2 : Z) (op : string) (ae1 ae2 am : bool).
  Variables (nj1 cp1 nj2 cp2 : Z) (lsrc rsrc : list (list pyval)) (showp1 showp2 : pyval).
  Variables (tokenize : pyval -> pyval) (sim_fn : pyval -> pyval -> pyval).
  Variables (toks : pyval -> list Z) (cf : pyval -> pyval -> pyval) (kz : pyval -> Z).

  Let p1 : fparams := {| fm := m; ft := PFloat t1; fq := q1 |}.
  Let p2 : fparams := {| fm := m; ft := PFloat t2; fq := q2 |}.

  (* the laxer call (threshold t1) and the stricter call (threshold t2): same tables, operator, allow_missing *)
  Hypothesis H1 : jcd_call_hyps c p1 op lsrc rsrc tokenize sim_fn toks cf kz.
  Hypothesis H2 : jcd_call_hyps c p2 op lsrc rsrc tokenize sim_fn toks cf kz.
  Hypothesis Hsc : p_score c = true.
  Hypothesis Hopc : op = ">=" \/ op = ">".
  Hypothesis Hle : fleb t1 t2 = true.

  Theorem C13_code_refine_jcd :
    refine_spec (jcd_jcase c p1 op ae1 am nj1 cp1 lsrc rsrc toks kz) (jcd_jcase c p2 op ae2 am nj2 cp2 lsrc rsrc toks kz)
      (code_view c kz (jcd_wrapper_call c p1 op ae1 am nj1 cp1 lsrc rsrc showp1 tokenize sim_fn))
      (code_view c kz (jcd_wrapper_call c p2 op ae2 am nj2 cp2 lsrc rsrc showp2 tokenize sim_fn)) = true.
  Proof using H1 H2 Hsc Hopc Hle.
    pose proof (jcd_call_valid c p1 op ae1 am nj1 cp1 lsrc rsrc tokenize sim_fn toks cf kz H1) as Hv1.
    assert (Hm : is_jcd m = true).
    { destruct H1 as ((_ & _ & _ & _ & _ & Hm & _) & _). exact (set_measure_jcd m Hm). }
    assert (F1 : fin t1).
    { destruct H1 as (_ & _ & _ & (t & Et & Henv) & _). injection Et as <-. exact (proj1 (env_t_R _ Henv)). }
    assert (F2 : fin t2).
    { destruct H2 as (_ & _ & _ & (t & Et & Henv) & _). injection Et as <-. exact (proj1 (env_t_R _ Henv)). }
    apply code_refine_law.
    - exact (weak_set_case _ Hv1).
    - repeat split.
    - apply (weak_laxer_rows_float _ _ m t1 t2); try reflexivity; try assumption.
      + exact (ge_gt_lower op Hopc).
      + unfold LawsSpec.set_measure. now rewrite Hm.
      + destruct (jcd_cases m Hm) as [-> | [-> | ->]]; reflexivity.
      + destruct H1 as (_ & _ & _ & _ & _ & Hset).
        exact (rows_toks_ok c lsrc rsrc toks kz toks_ok Hset).
      + exact (fleb_true t1 t2 F1 F2 Hle).
    - exact Hsc.
    - exact Hsc.
    - exact (proj1 (jcd_call_facts c p1 op ae1 am nj1 cp1 lsrc rsrc showp1 tokenize sim_fn toks cf kz H1)).
    - exact (proj1 (jcd_call_facts c p2 op ae2 am nj2 cp2 lsrc rsrc showp2 tokenize sim_fn toks cf kz H2)).
  Qed.
End RefineJcd.

Section RefineOvc.
  Variables (c : pcase) (t1 t2 : f64) (q1 q2 : Z) (op : string) (ae1 ae2 am : bool).
  Variables (nj1 cp1 nj2 cp2 : Z) (lsrc rsrc : list (list pyval)) (showp1 showp2 : pyval).
  Variables (tokenize : pyval -> pyval).
  Variables (toks : pyval -> list Z) (cf : pyval -> pyval -> pyval) (kz : pyval -> Z).

  Let p1 : fparams := {| fm := "OVERLAP_COEFFICIENT"; ft := PFloat t1; fq := q1 |}.
  Let p2 : fparams := {| fm := "OVERLAP_COEFFICIENT"; ft := PFloat t2; fq := q2 |}.

  Hypothesis H1 : ovc_call_hyps c p1 op lsrc rsrc tokenize toks cf kz.
  Hypothesis H2 : ovc_call_hyps c p2 op lsrc rsrc tokenize toks cf kz.
  Hypothesis Hsc : p_score c = true.
  Hypothesis Hopc : op = ">=" \/ op = ">".
  (* extra: finite thresholds (the validator only bounds them), token counts below 2^20 *)
  Hypothesis F1 : fin t1.
  Hypothesis F2 : fin t2.
  Hypothesis Hle : fleb t1 t2 = true.
  Hypothesis Hsize : cells_sat c lsrc rsrc (fun v => len (toks v) < size_bound).

  Theorem C13_code_refine_overlap_coefficient :
    refine_spec (ovc_code_jcase c p1 op ae1 am nj1 cp1 lsrc rsrc toks kz) (ovc_code_jcase c p2 op ae2 am nj2 cp2 lsrc rsrc toks kz)
      (code_view c kz (ovc_call c p1 op ae1 am nj1 cp1 lsrc rsrc showp1 tokenize))
      (code_view c kz (ovc_call c p2 op ae2 am nj2 cp2 lsrc rsrc showp2 tokenize)) = true.
  Proof using All.
    pose proof (ovc_call_valid c p1 op ae1 am nj1 cp1 lsrc rsrc tokenize toks cf kz H1) as Hv1.
    apply code_refine_law.
    - exact (weak_set_case _ Hv1).
    - repeat split.
    - apply (weak_laxer_rows_float _ _ "OVERLAP_COEFFICIENT" t1 t2); try reflexivity; try assumption.
      + exact (ge_gt_lower op Hopc).
      + apply (rows_toks_ok c lsrc rsrc toks kz toks_ok).
        destruct H1 as (_ & _ & _ & _ & _ & _ & _ & _ & _ & _ & _ & _ & _ & _ & _ & _ & (NL & NR)).
        destruct Hsize as (SL & SR). split; intros row Hrow; split; auto.
      + exact (fleb_true t1 t2 F1 F2 Hle).
    - exact Hsc.
    - exact Hsc.
    - exact (proj1 (ovc_call_facts c p1 op ae1 am nj1 cp1 lsrc rsrc showp1 tokenize toks cf kz H1)).
    - exact (proj1 (ovc_call_facts c p2 op ae2 am nj2 cp2 lsrc rsrc showp2 tokenize toks cf kz H2)).
  Qed.
End RefineOvc.

Section RefineOvj.
  Variables (c : pcase) (T1 T2 : Z) (op : string) (am : bool) (q1 q2 nj1 cp1 nj2 cp2 : Z).
  Variables (lsrc rsrc : list (list pyval)) (showp1 showp2 : pyval).
  Variables (tokenize : pyval -> pyval).
  Variables (toks : pyval -> list Z) (cf : pyval -> pyval -> pyval) (kz : pyval -> Z).
  Hypothesis H1 : ovj_call_hyps c T1 op lsrc rsrc tokenize toks cf kz.
  Hypothesis H2 : ovj_call_hyps c T2 op lsrc rsrc tokenize toks cf kz.
  Hypothesis Hsc : p_score c = true.
  Hypothesis Hopc : op = ">=" \/ op = ">".
  Hypothesis Hle : T1 <= T2.

  Theorem C13_code_refine_overlap_join :
    refine_spec (ovj_code_jcase c T1 op am q1 nj1 cp1 lsrc rsrc toks kz) (ovj_code_jcase c T2 op am q2 nj2 cp2 lsrc rsrc toks kz)
      (code_view c kz (ovj_call c (PInt T1) op am nj1 cp1 lsrc rsrc showp1 tokenize))
      (code_view c kz (ovj_call c (PInt T2) op am nj2 cp2 lsrc rsrc showp2 tokenize)) = true.
  Proof using All.
    pose proof (ovj_call_valid c T1 op am q1 nj1 cp1 lsrc rsrc tokenize toks cf kz H1) as Hv1.
    apply code_refine_law.
    - exact (weak_set_case _ Hv1).
    - repeat split.
    - apply laxer_laxer_rows. apply (laxer_int _ _ T1 T2); try reflexivity; try assumption.
    - exact Hsc.
    - exact Hsc.
    - exact (proj1 (ovj_call_facts c T1 op am q1 nj1 cp1 lsrc rsrc showp1 tokenize toks cf kz H1)).
    - exact (proj1 (ovj_call_facts c T2 op am q2 nj2 cp2 lsrc rsrc showp2 tokenize toks cf kz H2)).
  Qed.
End RefineOvj.

Print Assumptions C13_code_transpose_jcd.
Print Assumptions C13_code_transpose_jaccard.
Print Assumptions C13_code_transpose_cosine.
Print Assumptions C13_code_transpose_dice.
Print Assumptions C13_code_transpose_overlap_coefficient.
Print Assumptions C13_code_transpose_overlap_join.
Print Assumptions C13_code_refine_jcd.
Print Assumptions C13_code_refine_overlap_coefficient.
Print Assumptions C13_code_refine_overlap_join.
