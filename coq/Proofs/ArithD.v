(* F1, F2, F3, F5 for DICE, against the generated formulas of Gen/FilterUtilsGen.v. *)
From Coq Require Import ZArith Reals Lia Lra Psatz SpecFloat Bool String List.
From Flocq Require Import Core BinarySingleNaN Relative.
From SSJ Require Import F64 F64Spec PyNum FilterUtilsGen Measures ArithSpec ArithCommon.
Open Scope string_scope.
Open Scope R_scope.

(* ------------------------------------------------------------------ *)
(** * Real-level facts                                                 *)

Lemma RN_1 : RN 1 = 1.
Proof. apply (RN_int 1). simpl. lia. Qed.
Lemma RN_2 : RN 2 = 2.
Proof. apply (RN_int 2). simpl. lia. Qed.

(* E = RN (2 - T) *)
Lemma D_E : forall T E, / 1073741824 <= T <= 1 -> E = RN (2 - T) ->
  / B100 <= 2 - T <= B100 /\ 1 <= E <= 2 /\
  (2 - T) * (1 - eps) <= E <= (2 - T) * (1 + eps).
Proof.
intros T E HT ->.
assert (H0 : / B100 <= 2 - T) by (unfold B100; lra).
split. { unfold B100 in *. lra. }
split.
- split.
  + apply Rle_trans with (RN 1); [rewrite RN_1; lra | apply RN_le; lra].
  + apply Rle_trans with (RN 2); [apply RN_le; lra | rewrite RN_2; lra].
- now apply RN_pos_bounds.
Qed.

(* ranges for  v = RN (RN (T / E) * n)  (lower bound and prefix), from the envelope only *)
Lemma D_lb_range : forall T n E Y w v, / 1073741824 <= T <= 1 -> 1 <= n <= 2097151 ->
  RN n = n ->
  E = RN (2 - T) -> Y = T / E -> w = RN Y -> v = RN (w * n) ->
  / B100 <= Y <= B100 /\ / B100 <= w * n <= B100 /\ 0 <= v <= B99 /\ v <= n /\
  Y * E = T /\ / 1073741824 / 2 <= Y <= 1 /\
  Y * (1 - eps) <= w <= Y * (1 + eps) /\
  w * n * (1 - eps) <= v <= w * n * (1 + eps).
Proof.
intros T n E Y w v HT Hn Hnn HE HY Hw Hv.
destruct (D_E T E HT HE) as (_ & E1 & _). clear HE.
assert (HYE : Y * E = T) by (rewrite HY; apply div_mul; lra).
assert (HYb : / 1073741824 / 2 <= Y <= 1) by (rewrite HY; apply div_bounds; lra).
clear HY.
assert (HY0 : / B100 <= Y) by (unfold B100; lra).
pose proof (RN_pos_bounds _ HY0) as W1. rewrite <- Hw in W1.
pose proof (RN_pos_crude _ HY0) as W2. rewrite <- Hw in W2.
assert (Hw1 : w <= 1).
{ rewrite Hw. apply Rle_trans with (RN 1); [apply RN_le; lra | rewrite RN_1; lra]. }
clear Hw.
assert (Hwn : / 1073741824 / 4 * 1 <= w * n <= 1 * 2097151) by (apply mul_bounds; lra).
assert (Hwn0 : / B100 <= w * n) by (unfold B100; lra).
pose proof (RN_pos_bounds _ Hwn0) as V1. rewrite <- Hv in V1.
pose proof (RN_pos_crude _ Hwn0) as V2. rewrite <- Hv in V2.
assert (Hvn : v <= n).
{ rewrite Hv. apply Rle_trans with (RN n); [ | rewrite Hnn; lra]. apply RN_le.
  assert (w * n <= 1 * n) by (apply Rmult_le_compat_r; lra). lra. }
unfold B100, B99 in *.
repeat split; try lra.
Qed.

(* the polynomial core of Dice: from  T S <= 2 o (1+e)  to  T (S-o) (1-e) <= o (1+e) (2-T) *)
Lemma D_core : forall T o S e, 0 <= T <= 1 -> 0 <= o -> 0 <= e <= 1 ->
  T * S <= 2 * o * (1 + e) ->
  T * (S - o) * (1 - e) <= o * (1 + e) * (2 - T).
Proof.
intros T o S e HT Ho He Hq.
assert (H1 : T * S * (1 - e) <= 2 * o * (1 + e) * (1 - e)) by (apply Rmult_le_compat_r; lra).
assert (H2 : 0 <= 2 * o * e * (1 + e - T)).
{ apply Rmult_le_pos; [ | lra]. apply Rmult_le_pos; lra. }
replace (T * (S - o) * (1 - e)) with (T * S * (1 - e) - T * o * (1 - e)) by ring.
replace (o * (1 + e) * (2 - T))
  with (2 * o * (1 + e) * (1 - e) - T * o * (1 - e) + 2 * o * e * (1 + e - T)) by ring.
lra.
Qed.

(* lower bound / prefix under qualification *)
Lemma D_lb_real : forall T n k o S E Y w v,
  / 1073741824 <= T <= 1 -> 1 <= n <= 2097151 -> RN n = n ->
  E = RN (2 - T) -> Y = T / E -> w = RN Y -> v = RN (w * n) ->
  1 <= o -> o <= k -> k <= 1048575 -> n <= S - o ->
  T * S <= 2 * o * (1 + eps) ->
  v < k + / 20000.
Proof.
intros T n k o S E Y w v HT Hn Hnn HE HY Hw Hv Ho Hok Hk HnS Hq.
destruct (D_lb_range T n E Y w v HT Hn Hnn HE HY Hw Hv)
  as (_ & _ & _ & _ & HYE & HYb & [_ W2] & [_ V2]).
destruct (D_E T E HT HE) as (_ & _ & [E1 _]).
pose proof eps_val as He. pose proof eps_pos as He0.
assert (He1 : eps <= 1) by (rewrite He; lra).
pose proof (D_core T o S eps ltac:(lra) ltac:(lra) ltac:(lra) Hq) as HC.
clear HE HY Hw Hv Hnn.
(* Y (2-T) (1-e) <= T *)
assert (A1 : Y * ((2 - T) * (1 - eps)) <= T).
{ apply Rle_trans with (Y * E); [apply Rmult_le_compat_l; lra | lra]. }
(* Y (2-T) (1-e)^2 n <= T (S-o) (1-e) <= o (1+e) (2-T) *)
assert (A2 : T * n <= T * (S - o)) by (apply Rmult_le_compat_l; lra).
assert (A3 : Y * ((2 - T) * (1 - eps)) * n <= T * n) by (apply Rmult_le_compat_r; lra).
assert (A4 : Y * ((2 - T) * (1 - eps)) * n * (1 - eps) <= T * (S - o) * (1 - eps)).
{ apply Rmult_le_compat_r; lra. }
assert (A5 : Y * n * ((1 - eps) * (1 - eps)) * (2 - T) <= o * (1 + eps) * (2 - T)).
{ replace (Y * n * ((1 - eps) * (1 - eps)) * (2 - T))
    with (Y * ((2 - T) * (1 - eps)) * n * (1 - eps)) by ring. lra. }
assert (A6 : Y * n * ((1 - eps) * (1 - eps)) <= o * (1 + eps)).
{ apply le_of_mul_r with (2 - T); lra. }
(* v <= Y n (1+e)^2 *)
assert (A7 : w * n <= Y * (1 + eps) * n) by (apply Rmult_le_compat_r; lra).
assert (A9 : v <= Y * n * ((1 + eps) * (1 + eps))).
{ assert (w * n * (1 + eps) <= Y * (1 + eps) * n * (1 + eps)) by (apply Rmult_le_compat_r; lra).
  lra. }
assert (A10 : v * ((1 - eps) * (1 - eps)) <= o * (1 + eps) * ((1 + eps) * (1 + eps))).
{ assert (0 <= (1 - eps) * (1 - eps)) by (apply Rmult_le_pos; lra).
  assert (0 <= (1 + eps) * (1 + eps)) by (apply Rmult_le_pos; lra).
  assert (v * ((1 - eps) * (1 - eps)) <= Y * n * ((1 + eps) * (1 + eps)) * ((1 - eps) * (1 - eps)))
    by (apply Rmult_le_compat_r; lra).
  assert (Y * n * ((1 - eps) * (1 - eps)) * ((1 + eps) * (1 + eps))
          <= o * (1 + eps) * ((1 + eps) * (1 + eps))) by (apply Rmult_le_compat_r; lra).
  lra. }
clear - A10 He Ho Hok Hk.
rewrite He in *.
assert (B1 : 1 - 2 * / 9007199254740992 <= (1 - / 9007199254740992) * (1 - / 9007199254740992)) by nra.
assert (B2 : (1 + / 9007199254740992) * ((1 + / 9007199254740992) * (1 + / 9007199254740992))
             <= 1 + 4 * / 9007199254740992) by nra.
nra.
Qed.

(* ranges for  v = RN (RN (E / T) * n)  (upper bound), from the envelope only *)
Lemma D_ub_range : forall T n E Z w v, / 1073741824 <= T <= 1 -> 1 <= n <= 2097151 ->
  RN n = n ->
  E = RN (2 - T) -> Z = E / T -> w = RN Z -> v = RN (w * n) ->
  / B100 <= Z <= B100 /\ / B100 <= w * n <= B100 /\ 0 <= v <= B99 /\ n <= v /\
  Z * T = E /\ 1 <= Z <= 2147483648 /\
  Z * (1 - eps) <= w <= Z * (1 + eps) /\
  w * n * (1 - eps) <= v <= w * n * (1 + eps).
Proof.
intros T n E Z w v HT Hn Hnn HE HZ Hw Hv.
destruct (D_E T E HT HE) as (_ & E1 & _). clear HE.
assert (HZT : Z * T = E) by (rewrite HZ; apply div_mul; lra).
assert (HZb : 1 <= Z <= 2147483648) by (rewrite HZ; apply div_bounds; lra).
clear HZ.
assert (HZ0 : / B100 <= Z) by (unfold B100; lra).
pose proof (RN_pos_bounds _ HZ0) as W1. rewrite <- Hw in W1.
pose proof (RN_pos_crude _ HZ0) as W2. rewrite <- Hw in W2.
assert (Hw1 : 1 <= w).
{ rewrite Hw. apply Rle_trans with (RN 1); [rewrite RN_1; lra | apply RN_le; lra]. }
clear Hw.
assert (Hwn : 1 * 1 <= w * n <= 4294967296 * 2097151) by (apply mul_bounds; lra).
assert (Hwn0 : / B100 <= w * n) by (unfold B100; lra).
pose proof (RN_pos_bounds _ Hwn0) as V1. rewrite <- Hv in V1.
pose proof (RN_pos_crude _ Hwn0) as V2. rewrite <- Hv in V2.
assert (Hvn : n <= v).
{ rewrite Hv. apply Rle_trans with (RN n); [rewrite Hnn; lra | ]. apply RN_le.
  assert (1 * n <= w * n) by (apply Rmult_le_compat_r; lra). lra. }
unfold B100, B99 in *.
repeat split; try lra.
Qed.

Lemma D_ub_real : forall T n k o S E Z w v,
  / 1073741824 <= T <= 1 -> 1 <= n <= 2097151 -> RN n = n ->
  E = RN (2 - T) -> Z = E / T -> w = RN Z -> v = RN (w * n) ->
  1 <= o -> 1 <= k -> k <= 1048575 -> k * o <= n * (S - o) ->
  T * S <= 2 * o * (1 + eps) ->
  k - / 20000 < v.
Proof.
intros T n k o S E Z w v HT Hn Hnn HE HZ Hw Hv Ho Hk1 Hk Hko Hq.
destruct (D_ub_range T n E Z w v HT Hn Hnn HE HZ Hw Hv)
  as (_ & _ & _ & _ & HZT & HZb & [W1 _] & [V1 _]).
destruct (D_E T E HT HE) as (_ & _ & [E1 _]).
pose proof eps_val as He. pose proof eps_pos as He0.
assert (He1 : eps <= 1) by (rewrite He; lra).
pose proof (D_core T o S eps ltac:(lra) ltac:(lra) ltac:(lra) Hq) as HC.
clear HE HZ Hw Hv Hnn.
set (u := 1 + eps) in *. set (d := 1 - eps) in *.
assert (Hu : 1 <= u) by (unfold u; lra).
assert (Hd : 0 <= d <= 1) by (unfold d; lra).
(* Z T o u >= (2-T) d o u >= T (S-o) d^2 *)
assert (C1 : (2 - T) * d * (o * u) <= Z * T * (o * u)).
{ apply Rmult_le_compat_r. apply Rmult_le_pos; lra. lra. }
assert (C2 : T * (S - o) * d * d <= o * u * (2 - T) * d) by (apply Rmult_le_compat_r; lra).
assert (C3 : (S - o) * (d * d) * T <= Z * (o * u) * T).
{ replace ((S - o) * (d * d) * T) with (T * (S - o) * d * d) by ring.
  replace (Z * (o * u) * T) with (Z * T * (o * u)) by ring.
  replace (o * u * (2 - T) * d) with ((2 - T) * d * (o * u)) in C2 by ring. lra. }
assert (C4 : (S - o) * (d * d) <= Z * (o * u)) by (apply le_of_mul_r with T; lra).
assert (C5 : n * ((S - o) * (d * d)) <= n * (Z * (o * u))) by (apply Rmult_le_compat_l; lra).
assert (C6 : k * o * (d * d) <= n * (S - o) * (d * d)).
{ apply Rmult_le_compat_r; [ | lra]. apply Rmult_le_pos; lra. }
assert (C7 : k * (d * d) * o <= Z * n * u * o).
{ replace (k * (d * d) * o) with (k * o * (d * d)) by ring.
  replace (Z * n * u * o) with (n * (Z * (o * u))) by ring.
  replace (n * (S - o) * (d * d)) with (n * ((S - o) * (d * d))) in C6 by ring. lra. }
assert (C8 : k * (d * d) <= Z * n * u) by (apply le_of_mul_r with o; lra).
(* v >= w n d >= Z n d^2 *)
assert (C9 : Z * d * n <= w * n) by (apply Rmult_le_compat_r; lra).
assert (C10 : Z * d * n * d <= w * n * d) by (apply Rmult_le_compat_r; lra).
assert (C11 : Z * n * (d * d) <= v) by (replace (Z * n * (d * d)) with (Z * d * n * d) by ring; lra).
assert (C12 : k * (d * d) * (d * d) <= Z * n * u * (d * d)).
{ apply Rmult_le_compat_r; [ | lra]. apply Rmult_le_pos; lra. }
assert (C13 : Z * n * (d * d) * u <= v * u) by (apply Rmult_le_compat_r; lra).
assert (C14 : k * ((d * d) * (d * d)) <= v * u).
{ replace (k * ((d * d) * (d * d))) with (k * (d * d) * (d * d)) by ring.
  replace (Z * n * u * (d * d)) with (Z * n * (d * d) * u) in C12 by ring. lra. }
clear - C14 He Hk1 Hk. unfold u, d in *. rewrite He in *.
assert (B1 : 1 - 4 * / 9007199254740992 <=
  (1 - / 9007199254740992) * (1 - / 9007199254740992) *
  ((1 - / 9007199254740992) * (1 - / 9007199254740992))) by nra.
assert (B2 : k * (1 - 4 * / 9007199254740992) <= v * (1 + / 9007199254740992)) by nra.
lra.
Qed.

(* overlap threshold: v = RN (RN (T / 2) * S) *)
Lemma D_alpha_range : forall T S H v, / 1073741824 <= T <= 1 -> 2 <= S <= 2097150 ->
  H = RN (T / 2) -> v = RN (H * S) ->
  / B100 <= T / 2 <= B100 /\ / B100 <= H * S <= B100 /\ 0 <= v <= B99 /\
  0 <= H <= T / 2 * (1 + eps) /\ v <= H * S * (1 + eps).
Proof.
intros T S H v HT HS HH Hv.
assert (H0 : / B100 <= T / 2) by (unfold B100; lra).
pose proof (RN_pos_bounds _ H0) as W1. rewrite <- HH in W1.
pose proof (RN_pos_crude _ H0) as W2. rewrite <- HH in W2.
clear HH.
assert (HHS : / 1073741824 / 4 * 2 <= H * S <= 1 * 2097150) by (apply mul_bounds; lra).
assert (HHS0 : / B100 <= H * S) by (unfold B100; lra).
pose proof (RN_pos_bounds _ HHS0) as V1. rewrite <- Hv in V1.
pose proof (RN_pos_crude _ HHS0) as V2. rewrite <- Hv in V2.
unfold B100, B99 in *. repeat split; try lra.
Qed.

Lemma D_alpha_real : forall T o S H v, / 1073741824 <= T <= 1 -> 2 <= S <= 2097150 ->
  H = RN (T / 2) -> v = RN (H * S) -> 1 <= o -> o <= 1048575 ->
  T * S <= 2 * o * (1 + eps) ->
  v < o + / 20000.
Proof.
intros T o S H v HT HS HH Hv Ho1 Ho Hq.
destruct (D_alpha_range T S H v HT HS HH Hv) as (_ & _ & _ & [H1 H2] & V2).
pose proof eps_val as He. pose proof eps_pos as He0.
clear HH Hv.
set (u := 1 + eps) in *.
assert (Hu : 1 <= u) by (unfold u; lra).
assert (A1 : H * S <= T / 2 * u * S) by (apply Rmult_le_compat_r; lra).
assert (A2 : T / 2 * u * S = T * S * (u / 2)) by (unfold Rdiv; ring).
assert (A3 : T * S * (u / 2) <= 2 * o * u * (u / 2)) by (apply Rmult_le_compat_r; lra).
assert (A4 : H * S * u <= o * u * u * u).
{ assert (H * S * u <= 2 * o * u * (u / 2) * u) by (apply Rmult_le_compat_r; lra).
  replace (o * u * u * u) with (2 * o * u * (u / 2) * u) by (unfold Rdiv; field). lra. }
assert (A5 : v <= o * (u * u * u)) by lra.
clear - A5 He Ho1 Ho. unfold u in *. rewrite He in *.
assert (B2 : (1 + / 9007199254740992) * (1 + / 9007199254740992) * (1 + / 9007199254740992)
             <= 1 + 4 * / 9007199254740992) by nra.
nra.
Qed.

(* ------------------------------------------------------------------ *)
(** * The generated formulas at "DICE"                                 *)
Open Scope Z_scope.

Definition eD (t : f64) : f64 := fsub (f_of_Z 2) t.
Definition xlbD (t : f64) (n : Z) : f64 := fmul (fdiv t (eD t)) (f_of_Z n).
Definition xubD (t : f64) (n : Z) : f64 := fmul (fdiv (eD t) t) (f_of_Z n).
Definition xotD (t : f64) (a b : Z) : f64 := fmul (fdiv t (f_of_Z 2)) (f_of_Z (a + b)).

Lemma lbZ_D_eq : forall t n, f_is_zero (eD t) = false ->
  lbZ "DICE" (PFloat t) n = toZ (py_int (py_ceil (PFloat (f_round_nd (xlbD t n) 4)))).
Proof.
intros t n H. unfold lbZ.
change (get_size_lower_bound (PInt n) (PStr "DICE") (PFloat t))
  with (py_int (py_ceil (py_round2 (py_mul (py_truediv (PFloat t) (PFloat (eD t))) (PInt n)) (PInt 4)))).
now rewrite py_truediv_ff.
Qed.

Lemma ubZ_D_eq : forall t n, f_is_zero t = false ->
  ubZ "DICE" (PFloat t) n = toZ (py_int (py_floor (PFloat (f_round_nd (xubD t n) 4)))).
Proof.
intros t n H. unfold ubZ.
change (get_size_upper_bound (PInt n) (PStr "DICE") (PFloat t))
  with (py_int (py_floor (py_round2 (py_mul (py_truediv (PFloat (eD t)) (PFloat t)) (PInt n)) (PInt 4)))).
now rewrite py_truediv_ff.
Qed.

Lemma plZ_D_eq : forall t q n, 1 <= n -> f_is_zero (eD t) = false ->
  plZ "DICE" (PFloat t) q n =
  toZ (py_int (py_add (py_sub (PInt n) (py_ceil (PFloat (f_round_nd (xlbD t n) 4)))) (PInt 1))).
Proof.
intros t q [|p|p] Hn H; try lia. unfold plZ.
change (get_prefix_length (PInt (Z.pos p)) (PStr "DICE") (PFloat t) (PInt q))
  with (py_int (py_add (py_sub (PInt (Z.pos p))
         (py_ceil (py_round2 (py_mul (py_truediv (PFloat t) (PFloat (eD t))) (PInt (Z.pos p))) (PInt 4))))
         (PInt 1))).
now rewrite py_truediv_ff.
Qed.

Lemma otZ_D_eq : forall t q a b,
  otZ "DICE" (PFloat t) q a b = toZ (py_ceil (PFloat (f_round_nd (xotD t a b) 4))).
Proof. reflexivity. Qed.

Open Scope R_scope.

Lemma eD_spec : forall t, env_t t = true ->
  fin (eD t) /\ FR (eD t) = RN (2 - FR t) /\ f_is_zero (eD t) = false.
Proof.
intros t Henv. destruct (env_t_R t Henv) as [Ht HT].
destruct (f_of_size 2) as [Hf2 Hv2]. { lia. }
destruct (D_E (FR t) _ HT eq_refl) as (B1 & B2 & _).
unfold eD.
destruct (fsub_pos (f_of_Z 2) t Hf2 Ht) as [H1 H2]. { now rewrite Hv2. }
rewrite Hv2 in H2. split. exact H1. split. exact H2.
apply fin_pos_nz. exact H1. rewrite H2. lra.
Qed.

Lemma xlbD_spec : forall t n, env_t t = true -> (1 <= n < 2^21)%Z ->
  fin (xlbD t n) /\ FR (xlbD t n) = RN (RN (FR t / RN (2 - FR t)) * IZR n) /\
  0 <= FR (xlbD t n) <= B99 /\ FR (xlbD t n) <= IZR n.
Proof.
intros t n Henv Hn. destruct (env_t_R t Henv) as [Ht HT].
destruct (eD_spec t Henv) as (He & Hev & _).
destruct (f_of_size n) as [Hfn Hvn]. { lia. }
pose proof (IZR_21 n Hn) as Hn'.
assert (Hnn : RN (IZR n) = IZR n) by (apply RN_size; lia).
destruct (D_lb_range (FR t) (IZR n) _ _ _ _ HT Hn' Hnn eq_refl eq_refl eq_refl eq_refl)
  as (B1 & B2 & B3 & B4 & _).
destruct (D_E (FR t) _ HT eq_refl) as (_ & E1 & _).
unfold xlbD.
destruct (fdiv_pos t (eD t) Ht He) as [W1 W2]; rewrite ?Hev; try assumption. { lra. }
rewrite Hev in W2.
destruct (fmul_pos (fdiv t (eD t)) (f_of_Z n) W1 Hfn) as [V1 V2].
{ rewrite W2, Hvn. exact B2. }
rewrite W2, Hvn in V2.
split. exact V1. split. exact V2. rewrite V2. split; assumption.
Qed.

Lemma xubD_spec : forall t n, env_t t = true -> (1 <= n < 2^21)%Z ->
  fin (xubD t n) /\ FR (xubD t n) = RN (RN (RN (2 - FR t) / FR t) * IZR n) /\
  0 <= FR (xubD t n) <= B99 /\ IZR n <= FR (xubD t n).
Proof.
intros t n Henv Hn. destruct (env_t_R t Henv) as [Ht HT].
destruct (eD_spec t Henv) as (He & Hev & _).
destruct (f_of_size n) as [Hfn Hvn]. { lia. }
pose proof (IZR_21 n Hn) as Hn'.
assert (Hnn : RN (IZR n) = IZR n) by (apply RN_size; lia).
destruct (D_ub_range (FR t) (IZR n) _ _ _ _ HT Hn' Hnn eq_refl eq_refl eq_refl eq_refl)
  as (B1 & B2 & B3 & B4 & _).
unfold xubD.
destruct (fdiv_pos (eD t) t He Ht) as [W1 W2]; rewrite ?Hev; try assumption. { lra. }
rewrite Hev in W2.
destruct (fmul_pos (fdiv (eD t) t) (f_of_Z n) W1 Hfn) as [V1 V2].
{ rewrite W2, Hvn. exact B2. }
rewrite W2, Hvn in V2.
split. exact V1. split. exact V2. rewrite V2. split; assumption.
Qed.

Lemma xotD_spec : forall t a b, env_t t = true -> (1 <= a < 2^20)%Z -> (1 <= b < 2^20)%Z ->
  fin (xotD t a b) /\ FR (xotD t a b) = RN (RN (FR t / 2) * IZR (a + b)) /\
  0 <= FR (xotD t a b) <= B99.
Proof.
intros t a b Henv Ha Hb. destruct (env_t_R t Henv) as [Ht HT].
destruct (f_of_size 2) as [Hf2 Hv2]. { lia. }
destruct (f_of_size (a + b)) as [HfS HvS]. { lia. }
assert (HS : 2 <= IZR (a + b) <= 2097150).
{ change (2^20)%Z with 1048576%Z in *. split; apply IZR_le; lia. }
destruct (D_alpha_range (FR t) (IZR (a + b)) _ _ HT HS eq_refl eq_refl) as (B1 & B2 & B3 & _).
unfold xotD.
destruct (fdiv_pos t (f_of_Z 2) Ht Hf2) as [W1 W2]; rewrite ?Hv2; try assumption. { lra. }
rewrite Hv2 in W2.
destruct (fmul_pos (fdiv t (f_of_Z 2)) (f_of_Z (a + b)) W1 HfS) as [V1 V2].
{ rewrite W2, HvS. exact B2. }
rewrite W2, HvS in V2.
split. exact V1. split. exact V2. rewrite V2. exact B3.
Qed.

(* what qualification means for the threshold: t * (a + b) <= 2 o (1+eps) *)
Lemma qual_D : forall t a b o, env_t t = true -> sizes_ok a b o ->
  qual_ge "DICE" t a b o = true ->
  FR t * IZR (a + b) <= 2 * IZR o * (1 + eps).
Proof.
intros t a b o Henv Hs Hq.
destruct (env_t_R t Henv) as [Ht HT].
destruct (sizes_R a b o Hs) as (Ho & Hoa & Hob & Ha & Hb & _ & HS).
pose proof eps_pos as He.
unfold qual_ge in Hq. apply andb_prop in Hq. destruct Hq as [Hq _].
unfold sim_sizes in Hq.
destruct ((o =? a)%Z && (o =? b)%Z) eqn:E.
- apply andb_prop in E. destruct E as [E1 E2].
  apply Z.eqb_eq in E1. apply Z.eqb_eq in E2. subst a b.
  rewrite HS.
  assert (FR t * (IZR o + IZR o) <= 1 * (IZR o + IZR o)) by (apply Rmult_le_compat_r; lra).
  assert (0 <= 2 * IZR o * eps) by (apply Rmult_le_pos; lra).
  lra.
- change (sim_formula "DICE" a b o)
    with (fdiv (fmul (f_of_Z 2) (f_of_Z o)) (f_of_Z (a + b))) in Hq.
  destruct Hs as (S1 & S2 & S3 & S4 & S5). unfold size_bound in *.
  destruct (f_of_size 2) as [Hf2 Hv2]. { lia. }
  destruct (f_of_size o) as [Hfo Hvo]. { lia. }
  destruct (f_of_size (a + b)) as [HfS HvS]. { lia. }
  set (S := IZR (a + b)) in *.
  assert (HSb : 2 * IZR o <= S <= 2097150) by lra.
  assert (HS0 : 0 < S) by lra.
  assert (H2o : RN (2 * IZR o) = 2 * IZR o).
  { rewrite <- mult_IZR. apply RN_size. lia. }
  destruct (fmul_pos (f_of_Z 2) (f_of_Z o) Hf2 Hfo) as [N1 N2].
  { rewrite Hv2, Hvo. unfold B100. lra. }
  rewrite Hv2, Hvo, H2o in N2.
  assert (Hqb : / 2097150 <= 2 * IZR o / S <= 1) by (apply div_bounds; lra).
  destruct (fdiv_pos (fmul (f_of_Z 2) (f_of_Z o)) (f_of_Z (a + b)) N1 HfS) as [H1 H2].
  { rewrite HvS. exact HS0. }
  { rewrite N2, HvS. unfold B100. lra. }
  rewrite N2, HvS in H2.
  apply fleb_true in Hq; [ | assumption..].
  rewrite H2 in Hq.
  assert (Hlo : / B100 <= 2 * IZR o / S) by (unfold B100; lra).
  destruct (RN_pos_bounds _ Hlo) as [_ R2].
  assert (FR t * S <= 2 * IZR o / S * (1 + eps) * S) by (apply Rmult_le_compat_r; lra).
  replace (2 * IZR o / S * (1 + eps) * S) with (2 * IZR o / S * S * (1 + eps)) in H by ring.
  rewrite div_mul in H by exact HS0. exact H.
Qed.

(* ------------------------------------------------------------------ *)
(** * The theorems                                                     *)

Section WithQual.
Variables (t : f64) (a b o : Z).
Hypothesis Henv : env_t t = true.
Hypothesis Hs : sizes_ok a b o.
Hypothesis HQ : FR t * IZR (a + b) <= 2 * IZR o * (1 + eps).

(* lower-bound expression for size n against k, when n <= a + b - o and o <= k *)
Lemma D_lb_k : forall n k : Z, (1 <= n < size_bound)%Z -> (o <= k < size_bound)%Z ->
  (n <= a + b - o)%Z ->
  fin (xlbD t n) /\ 0 <= FR (xlbD t n) <= B99 /\ FR (xlbD t n) < IZR k + / 20000.
Proof.
intros n k Hn Hk HnS.
destruct (env_t_R t Henv) as [Ht HT].
destruct (sizes_R a b o Hs) as (Ho & Hoa & Hob & Ha & Hb & HU & HS).
destruct (xlbD_spec t n Henv (size_21 n Hn)) as (F1 & F2 & F3 & _).
split. exact F1. split. exact F3.
rewrite F2.
apply (D_lb_real (FR t) (IZR n) (IZR k) (IZR o) (IZR (a + b))
         (RN (2 - FR t)) (FR t / RN (2 - FR t)) (RN (FR t / RN (2 - FR t)))
         (RN (RN (FR t / RN (2 - FR t)) * IZR n)) HT); try reflexivity; try assumption.
- apply IZR_21. now apply size_21.
- apply RN_size. unfold size_bound in Hn. lia.
- apply IZR_le. lia.
- apply (size_R k). pose proof Hs as (S1 & _). lia.
- rewrite <- minus_IZR. apply IZR_le. lia.
Qed.

Lemma D_ub_k : forall n k : Z, (1 <= n < size_bound)%Z -> (1 <= k < size_bound)%Z ->
  (k * o <= n * (a + b - o))%Z ->
  fin (xubD t n) /\ 0 <= FR (xubD t n) <= B99 /\ IZR k - / 20000 < FR (xubD t n).
Proof.
intros n k Hn Hk Hko.
destruct (env_t_R t Henv) as [Ht HT].
destruct (sizes_R a b o Hs) as (Ho & Hoa & Hob & Ha & Hb & HU & HS).
destruct (xubD_spec t n Henv (size_21 n Hn)) as (F1 & F2 & F3 & _).
split. exact F1. split. exact F3.
rewrite F2.
apply (D_ub_real (FR t) (IZR n) (IZR k) (IZR o) (IZR (a + b))
         (RN (2 - FR t)) (RN (2 - FR t) / FR t) (RN (RN (2 - FR t) / FR t))
         (RN (RN (RN (2 - FR t) / FR t) * IZR n)) HT); try reflexivity; try assumption.
- apply IZR_21. now apply size_21.
- apply RN_size. unfold size_bound in Hn. lia.
- apply (size_R k Hk).
- apply (size_R k Hk).
- rewrite <- minus_IZR, <- !mult_IZR. apply IZR_le.
  replace (a + b - o)%Z with (a + b - o)%Z in Hko by reflexivity. lia.
Qed.

Lemma D_ot_o :
  fin (xotD t a b) /\ 0 <= FR (xotD t a b) <= B99 /\ FR (xotD t a b) < IZR o + / 20000.
Proof.
destruct (env_t_R t Henv) as [Ht HT].
destruct (sizes_R a b o Hs) as (Ho & Hoa & Hob & Ha & Hb & HU & HS).
pose proof Hs as (S1 & S2 & S3 & S4 & S5). unfold size_bound in *.
destruct (xotD_spec t a b Henv) as (F1 & F2 & F3); try lia.
split. exact F1. split. exact F3.
rewrite F2.
apply (D_alpha_real (FR t) (IZR o) (IZR (a + b)) (RN (FR t / 2))
         (RN (RN (FR t / 2) * IZR (a + b))) HT); try reflexivity; try assumption; lra.
Qed.
End WithQual.

Theorem F1_D : F1_stmt "DICE".
Proof.
intros t a b o Henv Hs Hq.
pose proof (qual_D t a b o Henv Hs Hq) as HQ.
pose proof Hs as (S1 & S2 & S3 & S4 & S5).
destruct (eD_spec t Henv) as (_ & _ & Hez).
destruct (env_t_R t Henv) as [Ht HT].
assert (Htz : f_is_zero t = false) by (apply fin_pos_nz; [exact Ht | lra]).
assert (Ha31 : (Z.abs a <= 2^31)%Z) by (apply abs_31; lia).
assert (Hb31 : (Z.abs b <= 2^31)%Z) by (apply abs_31; lia).
destruct (D_lb_k t a b o Henv Hs HQ b a) as (L1 & L2 & L3); try lia.
destruct (lb_combo "DICE" t b _ a (lbZ_D_eq t b Hez) L1 L2 Ha31 L3) as (lb & E1 & R1).
destruct (D_ub_k t a b o Henv Hs HQ b a) as (U1 & U2 & U3); try lia. { nia. }
destruct (ub_combo "DICE" t b _ a (ubZ_D_eq t b Htz) U1 U2 Ha31 U3) as (ub & E2 & R2).
destruct (D_lb_k t a b o Henv Hs HQ a b) as (L1' & L2' & L3'); try lia.
destruct (lb_combo "DICE" t a _ b (lbZ_D_eq t a Hez) L1' L2' Hb31 L3') as (lb' & E3 & R3).
destruct (D_ub_k t a b o Henv Hs HQ a b) as (U1' & U2' & U3'); try lia. { nia. }
destruct (ub_combo "DICE" t a _ b (ubZ_D_eq t a Htz) U1' U2' Hb31 U3') as (ub' & E4 & R4).
exists lb, ub, lb', ub'. repeat split; try assumption; lia.
Qed.
Print Assumptions F1_D.

Theorem F2_D : F2_stmt "DICE".
Proof.
intros t q a b o Henv Hs Hq.
pose proof (qual_D t a b o Henv Hs Hq) as HQ.
pose proof Hs as (S1 & S2 & S3 & S4 & S5).
assert (Ho31 : (Z.abs o <= 2^31)%Z) by (apply abs_31; lia).
destruct (D_ot_o t a b o Henv Hs HQ) as (A1 & A2 & A3).
destruct (ot_combo "DICE" t q a b _ o (otZ_D_eq t q a b) A1 A2 Ho31 A3) as (al & E1 & R1).
assert (HQ' : FR t * IZR (b + a) <= 2 * IZR o * (1 + eps)).
{ replace (b + a)%Z with (a + b)%Z by lia. exact HQ. }
destruct (D_ot_o t b a o Henv (sizes_ok_sym _ _ _ Hs) HQ') as (A1' & A2' & A3').
destruct (ot_combo "DICE" t q b a _ o (otZ_D_eq t q b a) A1' A2' Ho31 A3') as (al' & E2 & R2).
exists al, al'. repeat split; assumption.
Qed.
Print Assumptions F2_D.

Theorem F3_D : F3_stmt "DICE".
Proof.
intros t q a b o Henv Hs Hq.
pose proof (qual_D t a b o Henv Hs Hq) as HQ.
pose proof Hs as (S1 & S2 & S3 & S4 & S5).
destruct (eD_spec t Henv) as (_ & _ & Hez).
assert (Ho31 : (Z.abs o <= 2^31)%Z) by (apply abs_31; lia).
destruct (D_lb_k t a b o Henv Hs HQ a o) as (L1 & L2 & L3); try lia.
destruct (pl_combo "DICE" t q a _ o (plZ_D_eq t q a ltac:(lia) Hez) L1 L2 Ho31 L3) as (pa & E1 & R1).
destruct (D_lb_k t a b o Henv Hs HQ b o) as (L1' & L2' & L3'); try lia.
destruct (pl_combo "DICE" t q b _ o (plZ_D_eq t q b ltac:(lia) Hez) L1' L2' Ho31 L3') as (pb & E2 & R2).
exists pa, pb. repeat split; try assumption; lia.
Qed.
Print Assumptions F3_D.

Theorem F5_D : F5_stmt "DICE".
Proof.
intros t q n Henv Hn.
assert (Hn21 : (1 <= n < 2^21)%Z) by (apply size_21; lia).
assert (Hn31 : (Z.abs n <= 2^31)%Z) by (apply abs_31; lia).
destruct (eD_spec t Henv) as (_ & _ & Hez).
destruct (env_t_R t Henv) as [Ht HT].
assert (Htz : f_is_zero t = false) by (apply fin_pos_nz; [exact Ht | lra]).
destruct (xlbD_spec t n Henv Hn21) as (L1 & _ & L2 & L3).
assert (L3' : FR (xlbD t n) < IZR n + / 20000) by lra.
destruct (lb_combo "DICE" t n _ n (lbZ_D_eq t n Hez) L1 L2 Hn31 L3') as (lb & E1 & R1).
destruct (pl_combo "DICE" t q n _ n (plZ_D_eq t q n ltac:(lia) Hez) L1 L2 Hn31 L3') as (p & E3 & R3).
destruct (xubD_spec t n Henv Hn21) as (U1 & _ & U2 & U3).
assert (U3' : IZR n - / 20000 < FR (xubD t n)) by lra.
destruct (ub_combo "DICE" t n _ n (ubZ_D_eq t n Htz) U1 U2 Hn31 U3') as (ub & E2 & R2).
exists lb, ub, p. repeat split; try assumption; lia.
Qed.
Print Assumptions F5_D.
