(* Evaluation lemmas for the GENERATED per-chunk join loop (Gen/JoinGen.v: set_sim_join_rows):
   tuple / dict component access, the comparison operators of COMP_OP_MAP on numbers, table row
   access, row construction (both the get_output_row_from_tables branch and the two-key
   shortcut), and list / permutation lemmas used by the refinement.  Axiom-free.            *)
From Coq Require Import ZArith Bool List String Lia Permutation.
From SSJ Require Import F64 PyNum FilterUtilsGen HelperGen TokenOrderingGen ValidationGen IndexGen JoinGen
     TokenOrdering Measures Filters Joins Projection ProjSpec ProjectionFacts
     IndexPyFacts IndexBuildFacts IndexProbeFacts.
Import ListNotations.
Open Scope Z_scope.

(* ---------------------------------------------------------------- component access *)
Lemma getitem_tuple5 a b c d e :
  py_getitem (PTuple [a; b; c; d; e]) (PInt 0) = a /\ py_getitem (PTuple [a; b; c; d; e]) (PInt 1) = b /\
  py_getitem (PTuple [a; b; c; d; e]) (PInt 2) = c /\ py_getitem (PTuple [a; b; c; d; e]) (PInt 3) = d /\
  py_getitem (PTuple [a; b; c; d; e]) (PInt 4) = e.
Proof. repeat split; reflexivity. Qed.

Lemma getitem_cached x y :
  py_getitem (PDict [PTuple [PStr "cached_tokens"%string; x]; PTuple [PStr "empty_records"%string; y]])
             (PStr "empty_records"%string) = y /\
  py_getitem (PDict [PTuple [PStr "cached_tokens"%string; x]; PTuple [PStr "empty_records"%string; y]])
             (PStr "cached_tokens"%string) = x.
Proof. split; reflexivity. Qed.

Lemma getitem_pair a b : py_getitem (PTuple [a; b]) (PInt 0) = a /\ py_getitem (PTuple [a; b]) (PInt 1) = b.
Proof. split; reflexivity. Qed.

Lemma getitem_attr_list a b :
  py_getitem (PList [a; b]) (PInt (Z.of_nat 0)) = a /\ py_getitem (PList [a; b]) (PInt (Z.of_nat 1)) = b.
Proof. split; reflexivity. Qed.

(* ---------------------------------------------------------------- measures / validation *)
Definition set_measure (m : string) : Prop :=
  m = "JACCARD"%string \/ m = "COSINE"%string \/ m = "DICE"%string.

Lemma validate_measure_ok m : set_measure m ->
  validate_sim_measure_type (PStr m) = PBool true /\ py_upper (PStr m) = PStr m.
Proof. intros [-> | [-> | ->]]; split; reflexivity. Qed.

(* ---------------------------------------------------------------- COMP_OP_MAP on numbers *)
Lemma comp_fn_bool op cf f t : comp_op_map op = Some cf -> num_of t <> None ->
  exists b, cf (PFloat f) t = PBool b.
Proof.
  intros Hop Ht. unfold comp_op_map in Hop.
  assert (Hne : is_exc t = false) by (destruct t; try reflexivity; cbn in Ht; congruence).
  assert (Hord : forall test, exists b, py_ord test (PFloat f) t = PBool b).
  { intros test. unfold py_ord, strict2, ord_cmp.
    destruct t; cbn [num_of] in *; try congruence;
      match goal with |- context [num_cmp ?x ?y] => destruct (num_cmp x y) end; eexists; reflexivity. }
  assert (Heq : exists b, PBool (pv_eqb (PFloat f) t) = PBool b) by (eexists; reflexivity).
  repeat match type of Hop with
         | (if ?c then _ else _) = _ => destruct c
         end; try discriminate; injection Hop as <-;
    try apply Hord; unfold py_eq, py_ne, strict2; destruct t; try discriminate Hne; eexists; reflexivity.
Qed.

Lemma comp_op_lookup_str op cf : comp_op_map op = Some cf -> comp_op_lookup (PStr op) = inl cf.
Proof. intros H. unfold comp_op_lookup. now rewrite H. Qed.

Lemma cmp_op_cf op cf a b : comp_op_map op = Some cf -> cmp_op op a b = py_truth (cf a b).
Proof. intros H. unfold cmp_op. now rewrite H. Qed.

(* ---------------------------------------------------------------- table rows *)
Lemma getitem_rows (rows : list (list pyval)) (c : Z) : 0 <= c < Z.of_nat (List.length rows) ->
  py_getitem (PList (map PList rows)) (PInt c) = PList (nth (Z.to_nat c) rows []).
Proof.
  intros Hc. unfold py_getitem, strict2, norm_index. rewrite map_length.
  assert (E0 : (c <? 0) = false) by (apply Z.ltb_ge; lia).
  assert (E1 : (c <? Z.of_nat (List.length rows)) = true) by (apply Z.ltb_lt; lia).
  rewrite !E0, E1.
  rewrite (nth_indep (map PList rows) IndexError (PList [])) by (rewrite map_length; lia).
  apply (map_nth PList).
Qed.

(* the cells of one output row (without the score) *)
Definition row_cells (ki kj : nat) (li ri : list nat) (lrow rrow : list pyval) : list pyval :=
  nth ki lrow PNone :: nth kj rrow PNone
  :: (map (fun n => nth n lrow PNone) li ++ map (fun n => nth n rrow PNone) ri)%list.

Definition cols_ok (k j : nat) (is : list nat) (row : list pyval) : Prop :=
  ProjSpec.row_ok row /\ (k < List.length row)%nat /\ (j < List.length row)%nat /\
  forall n, In n is -> (n < List.length row)%nat.

Lemma out_row_has ki kj li ri jl jr lrow rrow :
  cols_ok ki jl li lrow -> cols_ok kj jr ri rrow ->
  get_output_row_from_tables (PList lrow) (PList rrow) (natpy ki) (natpy kj)
                             (PList (map natpy li)) (PList (map natpy ri))
  = PList (row_cells ki kj li ri lrow rrow).
Proof.
  intros (Hl1 & Hl2 & _ & Hl3) (Hr1 & Hr2 & _ & Hr3).
  apply get_output_row_from_tables_idx; try assumption; apply getrow_list.
Qed.

Lemma out_row_nohas ki kj jl jr lrow rrow :
  cols_ok ki jl [] lrow -> cols_ok kj jr [] rrow ->
  PList [py_getitem (PList lrow) (natpy ki); py_getitem (PList rrow) (natpy kj)]
  = PList (row_cells ki kj [] [] lrow rrow).
Proof.
  intros (_ & Hl2 & _) (_ & Hr2 & _). unfold row_cells. cbn [map app].
  rewrite (getrow_list lrow ki Hl2), (getrow_list rrow kj Hr2). reflexivity.
Qed.

Lemma join_cell_ok k j is row : cols_ok k j is row ->
  py_getitem (PList row) (natpy j) = nth j row PNone /\ is_exc (nth j row PNone) = false.
Proof.
  intros (H1 & _ & H2 & _). split; [apply getrow_list; exact H2 | apply row_nth_ok; assumption].
Qed.

Lemma getitem_pints_list (xs : list (list Z)) (c : Z) : 0 <= c < Z.of_nat (List.length xs) ->
  py_getitem (PList (map pints xs)) (PInt c) = pints (nth (Z.to_nat c) xs []).
Proof.
  intros Hc. unfold py_getitem, strict2, norm_index. rewrite map_length.
  assert (E0 : (c <? 0) = false) by (apply Z.ltb_ge; lia).
  assert (E1 : (c <? Z.of_nat (List.length xs)) = true) by (apply Z.ltb_lt; lia).
  rewrite !E0, E1.
  rewrite (nth_indep (map pints xs) IndexError (pints [])) by (rewrite map_length; lia).
  apply (map_nth pints).
Qed.

Lemma py_items_dict d : py_items (PDict d) = PList d.
Proof. reflexivity. Qed.

Lemma py_round2_float f : py_round2 (PFloat f) (PInt 4) = PFloat (f_round_nd f 4).
Proof. reflexivity. Qed.

Lemma map_flat_map {A B C} (h : B -> C) (g : A -> list B) : forall l : list A,
  map h (flat_map g l) = List.concat (map (fun x => map h (g x)) l).
Proof.
  induction l as [|x l IH]; cbn [flat_map map List.concat]; [reflexivity|].
  now rewrite map_app, IH.
Qed.

Lemma append_rows (acc : list (list pyval)) (row : list pyval) :
  py_append (PList (map PList acc)) (PList row) = PList (map PList (acc ++ [row])%list).
Proof. unfold py_append, strict2. now rewrite map_app. Qed.

Lemma f_one_lit : mkF 4503599627370496 (-52) = f_one.
Proof. reflexivity. Qed.

(* ---------------------------------------------------------------- empty records *)
Lemma empty_from_bounds : forall xs c0 c, In c (empty_from c0 xs) -> c0 <= c < c0 + nrows xs.
Proof.
  induction xs as [|x xs IH]; intros c0 c; cbn [empty_from]; [intros []|].
  unfold nrows in *. cbn [List.length].
  destruct (len x =? 0); [intros [<-|H]; [lia|] | intros H]; specialize (IH _ _ H); lia.
Qed.

(* ---------------------------------------------------------------- lists / permutations *)
Lemma fold_left_app_map {A B} (g : B -> list A) : forall (l : list B) (acc : list A),
  fold_left (fun a b => (a ++ g b)%list) l acc = (acc ++ List.concat (map g l))%list.
Proof.
  induction l as [|b l IH]; intros acc; cbn [fold_left map List.concat]; [now rewrite app_nil_r|].
  now rewrite IH, app_assoc.
Qed.

Lemma perm_concat_forall2 {A} : forall (l1 l2 : list (list A)),
  Forall2 (@Permutation A) l1 l2 -> Permutation (List.concat l1) (List.concat l2).
Proof. induction 1; cbn [List.concat]; [constructor | now apply Permutation_app]. Qed.

(* a duplicate-free sublist of keys covers everything that matters: what f produces on the
   remaining elements of the universe is empty *)
Lemma perm_flat_map_keys {A} (f : nat -> list A) : forall (keys : list nat) (n : nat),
  NoDup keys -> (forall c, In c keys -> (c < n)%nat) ->
  (forall c, (c < n)%nat -> ~ In c keys -> f c = []) ->
  Permutation (flat_map f keys) (flat_map f (seq 0 n)).
Proof.
  intros keys n Hnd Hin Hout.
  assert (Hgen : forall (univ : list nat), NoDup univ -> (forall c, In c keys -> In c univ) ->
                   (forall c, In c univ -> ~ In c keys -> f c = []) ->
                   Permutation (flat_map f keys) (flat_map f univ)).
  { clear Hin Hout n. induction keys as [|k keys IH]; intros univ Hu Hsub Hout.
    - cbn [flat_map]. induction univ as [|u univ IHu]; [constructor|].
      cbn [flat_map]. rewrite (Hout u (or_introl eq_refl)) by (intros []). cbn [app].
      apply IHu; [now inversion Hu | intros c []|].
      intros c Hc Hn. apply Hout; [right; exact Hc | exact Hn].
    - inversion Hnd as [|? ? Hk Hnd']; subst.
      destruct (in_split k univ (Hsub k (or_introl eq_refl))) as (u1 & u2 & ->).
      assert (Hp : Permutation (u1 ++ k :: u2) (k :: u1 ++ u2)) by (symmetry; apply Permutation_middle).
      rewrite (Permutation_flat_map f Hp). cbn [flat_map]. apply Permutation_app_head.
      apply (IH Hnd').
      + apply NoDup_remove_1 in Hu. exact Hu.
      + intros c Hc. specialize (Hsub c (or_intror Hc)). apply in_app_or in Hsub.
        apply in_or_app. destruct Hsub as [H|[<-|H]]; [left; exact H | contradiction | right; exact H].
      + intros c Hc Hn. apply Hout.
        * apply in_app_or in Hc. apply in_or_app. destruct Hc; [left | right; right]; assumption.
        * intros [<-|H]; [|exact (Hn H)]. apply NoDup_remove_2 in Hu. exact (Hu Hc). }
  apply Hgen.
  - apply seq_NoDup.
  - intros c Hc. apply in_seq. specialize (Hin c Hc). lia.
  - intros c Hc Hn. apply Hout; [apply in_seq in Hc; lia | exact Hn].
Qed.

(* enumerate = combine (seq 0 n) l *)
Lemma enumerate_from_perm {A B} (f : nat * A -> list B) (g : A -> list B) : forall (l : list A) (s : nat),
  (forall j x, In (j, x) (combine (seq s (List.length l)) l) -> Permutation (g x) (f (j, x))) ->
  Permutation (List.concat (map g l)) (List.concat (map f (combine (seq s (List.length l)) l))).
Proof.
  induction l as [|x l IH]; intros s H; cbn [List.length seq combine map List.concat]; [constructor|].
  apply Permutation_app.
  - apply H. left; reflexivity.
  - apply IH. intros j y Hin. apply H. right; exact Hin.
Qed.

Lemma enumerate_nth {A} (d : A) : forall (l : list A) (s j : nat) (x : A),
  In (j, x) (combine (seq s (List.length l)) l) -> (s <= j)%nat /\ nth (j - s) l d = x.
Proof.
  induction l as [|y l IH]; intros s j x; cbn [List.length seq combine]; [intros []|].
  intros [E|Hin].
  - injection E as <- <-. split; [lia|]. now rewrite Nat.sub_diag.
  - destruct (IH (S s) j x Hin) as [Hle Hn]. split; [lia|].
    replace (j - s)%nat with (S (j - S s)) by lia. exact Hn.
Qed.

Print Assumptions comp_fn_bool.
Print Assumptions perm_flat_map_keys.
Print Assumptions enumerate_from_perm.
