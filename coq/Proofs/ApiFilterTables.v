(* filter_tables of SizeFilter / PrefixFilter / PositionFilter at the API level of the model
   (`j_entry c = EFilter k m`): soundness of the listed rows (C14: prefix/position candidates
   share a token, C09: both-empty pairs, C08: missing pairs), emptiness and missing specs for
   ANY measure and threshold; totality and completeness (C04) generically in two pair-level
   hypotheses (`slices_ok`, `cand_complete`), instantiated here for the OVERLAP measure.
   The JACCARD/COSINE/DICE instance is in ApiFilterJCD.v.  Axiom-free.                      *)
From Coq Require Import ZArith Bool List String Lia.
From SSJ Require Import F64 PyNum HelperGen TokenOrdering Measures Filters Joins Api JoinSpec MetaSpec
                        OrderingFacts OverlapFacts OverlapMeasure FilterRefine
                        CoreLiftBase CoreLift ApiLift ApiFilterBase.
Import ListNotations.
Open Scope string_scope.
Open Scope list_scope.
Open Scope Z_scope.

Definition k3 (k : fkind) : Prop := k = KSize \/ k = KPrefix \/ k = KPosition.

Definition rows_ok (c : jcase) : Prop :=
  (forall l, In l (j_L c) -> NoDup (toks_of l) /\ len (toks_of l) < size_bound) /\
  (forall r, In r (j_R c) -> NoDup (toks_of r) /\ len (toks_of r) < size_bound).

(* every prefix length the filter computes is an integer *)
Definition slices_ok (p : fparams) : Prop :=
  forall n (l : list Z), 0 <= n < size_bound -> exists s, slice0 (g_pl p n) l = Some s.

(* a qualifying pair is a candidate, whatever token universe orders the two rows *)
Definition cand_complete (k : fkind) (p : fparams) : Prop :=
  forall all x y, NoDup x -> NoDup y ->
    (forall w, In w x -> In w all) -> (forall w, In w y -> In w all) ->
    len x < size_bound -> len y < size_bound -> ~ (x = [] /\ y = []) ->
    qualifies (fm p) ">=" (ft p) x y = true ->
    filter_cand k p (order all x) (order all y) = Some true /\ y <> [].

(* ------------------------------------------------------------------ pair-level facts *)
Lemma ft_core_pf c k m all l r : j_entry c = EFilter k m ->
  core_pf c all (rowval l) (rowval r) =
  ft_pair k (jparams c m) (j_allow_empty c) (order all (toks_of l)) (order all (toks_of r)).
Proof. intros He. unfold core_pf. rewrite He. reflexivity. Qed.

Lemma order_nil all : order all [] = [].
Proof. reflexivity. Qed.

Lemma share_nil_l b : share [] b = false.
Proof. reflexivity. Qed.

(* a candidate is never produced for an empty indexed record *)
Lemma filter_cand_true_nonempty k p X Y : k3 k -> filter_cand k p X Y = Some true -> X <> [].
Proof.
  intros [-> | [-> | ->]]; unfold filter_cand; intros H E; subst X.
  - injection H as H. unfold size_cand in H. change (len []) with 0 in H. discriminate.
  - apply prefix_cand_share in H. rewrite share_nil_l in H. discriminate.
  - destruct (pos_cand p [] Y) as [v|] eqn:Ep; [|discriminate]. simpl in H. injection H as H.
    apply Z.ltb_lt in H. destruct (pos_cand_nonempty p [] Y v Ep H) as [H1 _]. unfold len in H1. simpl in H1. lia.
Qed.

Lemma filter_cand_total k p X Y : k3 k -> slices_ok p ->
  len X < size_bound -> len Y < size_bound -> filter_cand k p X Y <> None.
Proof.
  intros Hk Hs Hx Hy.
  assert (Hx' : 0 <= len X < size_bound) by (unfold len in *; lia).
  assert (Hy' : 0 <= len Y < size_bound) by (unfold len in *; lia).
  destruct (Hs (len X) X Hx') as [s1 E1]. destruct (Hs (len Y) Y Hy') as [s2 E2].
  destruct Hk as [-> | [-> | ->]]; unfold filter_cand.
  - discriminate.
  - unfold prefix_cand. rewrite E1, E2. discriminate.
  - unfold pos_cand. rewrite E1, E2. discriminate.
Qed.

Lemma ft_pair_nil_nil k p ae lst : k3 k -> ft_pair k p ae [] [] = Some lst ->
  lst = if ft_handle_empty p ae then [PNone] else [].
Proof.
  intros Hk. unfold ft_pair. change (len [] =? 0) with true. rewrite andb_true_r.
  destruct (ft_handle_empty p ae); [intros H; injection H as <-; reflexivity|].
  destruct (filter_cand k p [] []) as [[|]|] eqn:E; cbn [option_map]; intros H; [|congruence|discriminate].
  exfalso. apply (filter_cand_true_nonempty k p [] [] Hk E). reflexivity.
Qed.

(* ------------------------------------------------------------------ API level, any measure *)
Section FilterApi.
  Hypothesis Hpart : part_hyp.
  Variable c : jcase.
  Variable k : fkind.
  Variable m : string.
  Hypothesis He : j_entry c = EFilter k m.
  Hypothesis Hk : k3 k.
  Hypothesis Hsz : size_ok c.
  Hypothesis Hkeys : keys_ok c.
  Local Notation Lp := (filter present (j_L c)).
  Local Notation Rp := (filter present (j_R c)).

  Lemma lenX Rc l : In l Lp -> len (order (all_of Lp Rc) (toks_of l)) = len (toks_of l).
  Proof. intros H. apply len_order. apply toks_incl_all_l. exact H. Qed.
  Lemma lenY Rc r : In r Rc -> len (order (all_of Lp Rc) (toks_of r)) = len (toks_of r).
  Proof. intros H. apply len_order. apply toks_incl_all_r. exact H. Qed.

  (* C14 / C09 / C08 as far as sound_spec states them: no arithmetic, any measure/threshold *)
  Theorem filter_sound : forall out, api_join c = Some out -> sound_spec c out = true.
  Proof.
    intros out H. apply (sound_spec_lift Hpart c Hsz Hkeys out H).
    intros Rc l r lst s0 Hi Hl Hr Epf Hs. rewrite (ft_core_pf c k m) in Epf by exact He.
    unfold sound_pres. rewrite He. cbv zeta.
    set (X := order (all_of Lp Rc) (toks_of l)) in *. set (Y := order (all_of Lp Rc) (toks_of r)) in *.
    pose proof (lenX Rc l Hl) as HlX. pose proof (lenY Rc r Hr) as HlY. fold X in HlX. fold Y in HlY.
    unfold ft_pair in Epf.
    destruct (ft_handle_empty (jparams c m) (j_allow_empty c) && (len Y =? 0)) eqn:Eh.
    - injection Epf as <-. apply In_if_single in Hs. destruct Hs as [Hx _].
      apply andb_true_iff in Eh. destruct Eh as [Eh Ey].
      rewrite <- HlX, <- HlY, Hx, Ey. cbn [andb]. exact Eh.
    - destruct (filter_cand k (jparams c m) X Y) as [b|] eqn:Ec; [|discriminate].
      cbn [option_map] in Epf. injection Epf as <-. apply In_if_single in Hs. destruct Hs as [-> _].
      pose proof (filter_cand_true_nonempty k _ X Y Hk Ec) as HX.
      destruct (Z.eqb_spec (len (toks_of l)) 0) as [E0|_].
      + exfalso. apply HX. unfold X. assert (E1 : toks_of l = []) by (apply len_zero_nil; rewrite E0; reflexivity).
        rewrite E1. reflexivity.
      + cbn [andb]. destruct Hk as [-> | [-> | ->]]; [reflexivity| |].
        * apply (prefix_cand_share_tokens _ _ _ _ Ec).
        * unfold filter_cand in Ec. destruct (pos_cand (jparams c m) X Y) as [v|] eqn:Ep; [|discriminate].
          simpl in Ec. injection Ec as Ec. apply Z.ltb_lt in Ec.
          apply (pos_cand_share_tokens _ _ _ _ _ Ep Ec).
  Qed.

  Theorem filter_missing : forall out, api_join c = Some out -> missing_spec c out = true.
  Proof. intros out H. apply (missing_spec_holds Hpart c Hsz Hkeys out H). Qed.

  (* C09: both-empty pairs are listed iff allow_empty (never under OVERLAP) *)
  Theorem filter_empty : forall out, api_join c = Some out -> empty_spec c out = true.
  Proof.
    intros out H. apply (empty_spec_lift Hpart c Hsz Hkeys out H).
    intros Rc l r lst Hi Hl Hr Epf. rewrite (ft_core_pf c k m) in Epf by exact He. split.
    - intros Hb b Eb. unfold both_empty in Hb. apply andb_true_iff in Hb. destruct Hb as [H1 H2].
      apply len_zero_nil in H1, H2. rewrite H1, H2, !order_nil in Epf.
      apply (ft_pair_nil_nil k _ _ _ Hk) in Epf. subst lst.
      unfold empty_expected in Eb. rewrite He in Eb. unfold ft_handle_empty. cbn [jparams fm].
      destruct (String.eqb m "OVERLAP"); [injection Eb as <-; rewrite andb_false_r; reflexivity|].
      destruct (String.eqb m "EDIT_DISTANCE"); [discriminate|]. injection Eb as <-.
      rewrite !andb_true_r. destruct (j_allow_empty c); reflexivity.
    - intros _ Ho. unfold is_set_join in Ho. rewrite He, andb_false_r in Ho. discriminate.
  Qed.

  Hypothesis Hrows : rows_ok c.

  Lemma rowsL l : In l Lp -> NoDup (toks_of l) /\ len (toks_of l) < size_bound.
  Proof. intros H. apply filter_In in H. apply (proj1 Hrows). tauto. Qed.
  Lemma rowsR Rc r : incl Rc Rp -> In r Rc -> NoDup (toks_of r) /\ len (toks_of r) < size_bound.
  Proof. intros Hi H. apply Hi in H. apply filter_In in H. apply (proj2 Hrows). tauto. Qed.

  Theorem filter_total_gen : slices_ok (jparams c m) -> exists out, api_join c = Some out.
  Proof.
    intros Hs. apply (api_total Hpart c Hsz); [unfold core_ok; rewrite He; reflexivity|].
    intros Rc l r Hi Hl Hr. rewrite (ft_core_pf c k m) by exact He. unfold ft_pair.
    destruct (ft_handle_empty _ _ && _); [discriminate|].
    destruct (filter_cand k (jparams c m) _ _) as [b|] eqn:Ec; [discriminate|exfalso].
    revert Ec. apply filter_cand_total; [exact Hk|exact Hs| |].
    - rewrite lenX by exact Hl. apply (rowsL l Hl).
    - rewrite lenY by exact Hr. apply (rowsR Rc r Hi Hr).
  Qed.

  (* C04 *)
  Theorem filter_complete_gen : String.eqb m "EDIT_DISTANCE" = false ->
    cand_complete k (jparams c m) ->
    forall out, api_join c = Some out -> complete_spec c out = true.
  Proof.
    intros Hned Hcc out H. apply (complete_spec_lift Hpart c Hsz Hkeys out H).
    intros Rc l r lst Hi Hl Hr Hn Epf. rewrite (ft_core_pf c k m) in Epf by exact He.
    unfold need_pair in Hn. rewrite He, Hned in Hn. cbv zeta in Hn.
    apply andb_true_iff in Hn. destruct Hn as [Hne Hq].
    destruct (rowsL l Hl) as [Hx Ha]. destruct (rowsR Rc r Hi Hr) as [Hy Hb].
    assert (Hne' : ~ (toks_of l = [] /\ toks_of r = [])).
    { intros [E1 E2]. rewrite E1, E2 in Hne. discriminate. }
    destruct (Hcc (all_of Lp Rc) (toks_of l) (toks_of r) Hx Hy (toks_all_l Lp Rc l Hl)
                  (toks_all_r Lp Rc r Hr) Ha Hb Hne' Hq) as [Ec HY].
    unfold ft_pair in Epf. rewrite (lenY Rc r Hr) in Epf.
    destruct (Z.eqb_spec (len (toks_of r)) 0) as [E0|_].
    - exfalso. apply HY. apply len_zero_nil. rewrite E0. reflexivity.
    - rewrite andb_false_r, Ec in Epf. cbn [option_map] in Epf. injection Epf as <-. discriminate.
  Qed.
End FilterApi.

(* ------------------------------------------------------------------ OVERLAP measure *)
Lemma raw_score_overlap x y : raw_score "OVERLAP" x y = PInt (overlap_sets x y).
Proof. reflexivity. Qed.
Lemma reported_score_overlap x y : reported_score "OVERLAP" x y = PInt (overlap_sets x y).
Proof. reflexivity. Qed.

Lemma qualifies_overlap T x y : qualifies "OVERLAP" ">=" (PInt T) x y = true -> T <= overlap_sets x y.
Proof.
  unfold qualifies. rewrite raw_score_overlap, reported_score_overlap, cmp_op_ge_int.
  intros H. apply andb_true_iff in H. destruct H as [H _]. apply Z.leb_le in H. exact H.
Qed.

Lemma size_bound_max : size_bound <= maxsizeZ.
Proof. vm_compute. discriminate. Qed.

Lemma slices_ok_overlap T q : slices_ok (ovp T q).
Proof. intros n l _. rewrite g_pl_ov. unfold slice0. eexists. reflexivity. Qed.

Lemma cand_complete_overlap k T q : k3 k -> 1 <= T -> cand_complete k (ovp T q).
Proof.
  intros Hk HT all x y Hx Hy Hxa Hya Ha Hb _ Hq. cbn [ovp fm ft] in Hq.
  apply qualifies_overlap in Hq. pose proof size_bound_max as Hsb. split.
  - destruct Hk as [-> | [-> | ->]]; unfold filter_cand.
    + rewrite ov_size_cand; try assumption; [reflexivity|lia].
    + apply ov_prefix_cand; assumption.
    + destruct (ov_pos_cand all x y T q Hx Hy Hxa Hya HT Hq) as [v [-> Hv]]; [lia|]. simpl.
      destruct (Z.ltb_spec 0 v); [reflexivity|lia].
  - intros ->. pose proof (overlap_sets_le_r x []) as H. change (len []) with 0 in H. lia.
Qed.

Definition valid_filter_overlap_case (c : jcase) (k : fkind) : Prop :=
  j_entry c = EFilter k "OVERLAP" /\ k3 k /\ size_ok c /\ keys_ok c /\ rows_ok c /\
  exists T, j_t c = PInt T /\ 1 <= T.

Section FilterOverlap.
  Hypothesis Hpart : part_hyp.
  Variable c : jcase.
  Variable k : fkind.
  Hypothesis Hv : valid_filter_overlap_case c k.

  Lemma jparams_ovp : exists T, 1 <= T /\ jparams c "OVERLAP" = ovp T (j_q c).
  Proof.
    destruct Hv as [_ [_ [_ [_ [_ [T [Ht HT]]]]]]]. exists T. split; [exact HT|].
    unfold jparams, ovp. rewrite Ht. reflexivity.
  Qed.

  Theorem filter_total_overlap : exists out, api_join c = Some out.
  Proof.
    destruct Hv as [He [Hk [Hsz [Hkeys [Hrows _]]]]]. destruct jparams_ovp as [T [HT Ep]].
    apply (filter_total_gen Hpart c k "OVERLAP" He Hk Hsz Hrows). rewrite Ep. apply slices_ok_overlap.
  Qed.

  Theorem filter_complete_overlap : forall out, api_join c = Some out -> complete_spec c out = true.
  Proof.
    destruct Hv as [He [Hk [Hsz [Hkeys [Hrows _]]]]]. destruct jparams_ovp as [T [HT Ep]].
    apply (filter_complete_gen Hpart c k "OVERLAP" He Hsz Hkeys Hrows); [reflexivity|].
    rewrite Ep. apply cand_complete_overlap; assumption.
  Qed.
End FilterOverlap.

(* ------------------------------------------------------------------ example *)
Definition flt_ex (k : fkind) : jcase :=
  {| j_entry := EFilter k "OVERLAP"; j_t := PInt 2; j_q := 0; j_op := ">="; j_allow_empty := true;
     j_allow_missing := true; j_with_score := false; j_njobs := 2; j_cpus := 4;
     j_L := [(1, Some ([], [1; 2; 3])); (2, None); (3, Some ([], [])); (4, Some ([], [5; 2; 1]))];
     j_R := [(7, Some ([], [2; 1; 9])); (8, Some ([], [])); (9, None); (6, Some ([], [3; 5]))] |}.

Ltac nodup_c := simpl; repeat constructor; simpl; intuition discriminate.

Example flt_ex_valid k : k3 k -> valid_filter_overlap_case (flt_ex k) k.
Proof.
  intros Hk. split; [reflexivity|]. split; [exact Hk|]. split; [vm_compute; reflexivity|].
  split; [split; nodup_c|]. split.
  - split; intros x Hx; simpl in Hx;
      repeat (destruct Hx as [<-|Hx]; [split; [nodup_c|vm_compute; reflexivity]|]); destruct Hx.
  - exists 2. split; [reflexivity|lia].
Qed.

Example flt_ex_check :
  forallb (fun k => match api_join (flt_ex k) with
                    | Some out => complete_spec (flt_ex k) out && sound_spec (flt_ex k) out &&
                                  missing_spec (flt_ex k) out && empty_spec (flt_ex k) out &&
                                  has_pair 1 7 out && has_pair 4 7 out && negb (has_pair 3 8 out)
                    | None => false
                    end) [KSize; KPrefix; KPosition] = true.
Proof. vm_compute. reflexivity. Qed.

Print Assumptions filter_sound.
Print Assumptions filter_missing.
Print Assumptions filter_empty.
Print Assumptions filter_total_gen.
Print Assumptions filter_complete_gen.
Print Assumptions filter_total_overlap.
Print Assumptions filter_complete_overlap.
