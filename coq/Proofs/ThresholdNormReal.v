(* The float-threshold conditions of Proofs/ThresholdNormFloat.v read on the REAL value FR f of the
   double (Num/F64Spec.v, through Flocq): Python's exact int-vs-float comparisons are the
   comparisons of real numbers, floor / ceil are the mathematical ones, and the C04 corollaries
   restated with  IZR (lev s t) <= FR f  /  FR f <= IZR (overlap).
   Uses the Reals / Flocq standard axioms only (arithmetic file).                            *)
From Coq Require Import ZArith Reals Bool List String Lia Lra SpecFloat.
From Flocq Require Import Core.
From SSJ Require Import F64 PyNum F64Spec FilterUtilsGen HelperGen TokenOrdering Measures Filters Lev Qgram
     OverlapFacts OverlapMeasure EditArith EditFilters ThresholdNorm ThresholdNormFloat.
Import ListNotations.
Open Scope string_scope.
Open Scope Z_scope.

Theorem f_floor_real f : (IZR (f_floor f) <= FR f < IZR (f_floor f) + 1)%R.
Proof. rewrite f_floor_spec. split; [apply Zfloor_lb|apply Zfloor_ub]. Qed.
Theorem f_ceil_real f : (IZR (f_ceil f) - 1 < FR f <= IZR (f_ceil f))%R.
Proof.
  rewrite f_ceil_spec. split; [|apply Zceil_ub].
  pose proof (Zceil_lb (FR f)) as H. lra.
Qed.

Theorem le_floor_real d f : (d <= f_floor f <-> (IZR d <= FR f)%R).
Proof.
  rewrite f_floor_spec. split; intros H.
  - apply Rle_trans with (IZR (Zfloor (FR f))); [apply IZR_le; exact H|apply Zfloor_lb].
  - apply Zfloor_lub. exact H.
Qed.
Theorem ge_ceil_real o f : (f_ceil f <= o <-> (FR f <= IZR o)%R).
Proof.
  rewrite f_ceil_spec. split; intros H.
  - apply Rle_trans with (IZR (Zceil (FR f))); [apply Zceil_ub|apply IZR_le; exact H].
  - apply Zceil_glb. exact H.
Qed.

Section Real.
  Variable f : f64.
  Hypothesis Hfin : f_is_finite f = true.

  Theorem le_thr_real d : le_thr d f <-> (IZR d <= FR f)%R.
  Proof. rewrite (le_thr_floor d f Hfin). apply le_floor_real. Qed.
  Theorem ge_thr_real o : ge_thr o f <-> (FR f <= IZR o)%R.
  Proof. rewrite (ge_thr_ceil o f Hfin). apply ge_ceil_real. Qed.
  Theorem thr_nonneg_real : thr_nonneg f <-> (0 <= FR f)%R.
  Proof. rewrite (thr_nonneg_floor f Hfin). apply (le_floor_real 0 f). Qed.
  Theorem thr_pos_real : thr_pos f <-> (0 < FR f)%R.
  Proof.
    rewrite (thr_pos_ceil f Hfin).
    assert (E : 1 <= f_ceil f <-> ~ (f_ceil f <= 0)) by lia. rewrite E, (ge_ceil_real 0 f).
    split; intros H; lra.
  Qed.
End Real.

(* C04, EDIT_DISTANCE, float threshold, on the real value of the threshold *)
Theorem C04_edit_distance_float_R tk f ae s t : f_is_finite f = true -> 1 <= qq tk ->
  (IZR (lev s t) <= FR f)%R ->
  share (qgram_bag tk s) (qgram_bag tk t) = true ->
  size_filter_pair (edpf (qq tk) f) ae (len (qgram_bag tk s)) (len (qgram_bag tk t)) = false /\
  prefix_filter_pair (edpf (qq tk) f) ae (qgram_bag tk s) (qgram_bag tk t) = Some false /\
  position_filter_pair (edpf (qq tk) f) ae (qgram_bag tk s) (qgram_bag tk t) = Some false.
Proof.
  intros Hfin Hq Hlev Hsh. apply C04_edit_distance_float; try assumption.
  apply le_thr_real; assumption.
Qed.

(* C04, OVERLAP measure, float threshold, on the real value of the threshold *)
Theorem C04_overlap_measure_pair_float_R l r f q ae : f_is_finite f = true ->
  NoDup l -> NoDup r -> (0 < FR f)%R -> (FR f <= IZR (overlap_sets l r))%R -> len r <= maxsizeZ ->
  size_filter_pair (ovpf f q) ae (len l) (len r) = false /\
  prefix_filter_pair (ovpf f q) ae l r = Some false /\
  position_filter_pair (ovpf f q) ae l r = Some false.
Proof.
  intros Hfin Hl Hr Hp Ho Hm. apply C04_overlap_measure_pair_float; try assumption.
  - apply thr_pos_real; assumption.
  - apply ge_thr_real; assumption.
Qed.

(* the thresholds an edit-distance filter with a float threshold really applies *)
Theorem ed_float_threshold_equiv f d : f_is_finite f = true ->
  ((IZR d <= FR f)%R <-> d <= f_floor f).
Proof. intros _. symmetry. apply le_floor_real. Qed.
Theorem ov_float_threshold_equiv f o : f_is_finite f = true ->
  ((FR f <= IZR o)%R <-> f_ceil f <= o).
Proof. intros _. symmetry. apply ge_ceil_real. Qed.

Print Assumptions le_thr_real.
Print Assumptions C04_edit_distance_float_R.
Print Assumptions C04_overlap_measure_pair_float_R.
