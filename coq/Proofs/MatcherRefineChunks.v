(* The GENERATED split_table_frame (Gen/MatcherGen.v: utils/generic_helper.py:split_table applied to a
   DataFrame: table[a:b] = frame_slice, len(table) = frame_len) cuts a string-labelled frame into exactly the
   chunks of Model/Api.v `chunks_of`:

     split_table_frame (sframe cols rows) (PInt k) = PList [sframe cols (slice_nat rows ab) | ab <- split_bs k (len rows)]

   The proof follows WrapperRefineChunks (split_table_eval / split_table_shape / split_table_chunks for the
   list version Gen/WrapperGen.v:split_table): `split_table_frame_eval` (the loop, for any split size whose
   products are finite) is axiom-free; `split_table_frame_chunks` uses the float facts of Proofs/SplitArith.v
   and therefore depends on the standard-library Reals axioms, exactly as split_table_chunks does.
   `split_table_frame_list` states the link with the list version.                                        *)
From Coq Require Import ZArith Reals Lia Bool String List.
From SSJ Require Import F64 F64Spec PyNum HelperGen ArithCommon SplitArith SplitFacts Api Frame WrapperGen
     MatcherGen WrapperRefineFrame WrapperRefineChunks MatcherRefineBase.
Import ListNotations.
Open Scope Z_scope.

Lemma split_table_frame_eval : forall cols rows k s,
  shaped (List.length cols) rows ->
  f_is_zero (f_of_Z k) = false ->
  (forall i, 0 <= i <= k -> f_is_finite (fmul (f_of_Z i) s) = true) ->
  s = fmul (fdiv f_lit1 (f_of_Z k)) (f_of_Z (Z.of_nat (List.length rows))) ->
  split_table_frame (sframe cols rows) (PInt k) =
  PList (map (fun i => frame_slice (sframe cols rows) (PInt (f_round_int (fmul (f_of_Z i) s)))
                                   (PInt (f_round_int (fmul (f_of_Z (i + 1)) s)))) (idx k)).
Proof.
intros cols rows k s Hsh Hz Hfin Hs.
unfold split_table_frame.
fold f_lit1. rewrite frame_len_sframe by exact Hsh. rewrite py_truediv_fi by exact Hz. rewrite py_mul_fi. rewrite <- Hs.
cbn [bindx].
unfold py_range, py_for, py_iter.
rewrite Z.sub_0_r.
set (g := fun x : pyval => match x with
  | PInt i => frame_slice (sframe cols rows) (PInt (f_round_int (fmul (f_of_Z i) s)))
                          (PInt (f_round_int (fmul (f_of_Z (i + 1)) s)))
  | _ => PNone end).
rewrite (fold_append _ g).
- cbn [bindx app]. unfold idx. rewrite !map_map. reflexivity.
- intros a x Hx. apply in_map_iff in Hx. destruct Hx as (j & <- & Hj).
  apply in_seq in Hj.
  assert (Hi : 0 <= Z.of_nat j /\ Z.of_nat j + 1 <= k) by lia.
  change (0 + Z.of_nat j) with (Z.of_nat j).
  set (i := Z.of_nat j) in *.
  cbn [is_exc fst bindx].
  rewrite py_add_ii, !py_mul_if.
  rewrite !py_round1_fin by (apply Hfin; lia).
  rewrite !py_int_int. unfold g.
  assert (Hne : forall a b, is_exc (frame_slice (sframe cols rows) (PInt a) (PInt b)) = false).
  { intros a0 b0. unfold frame_slice. unfold sframe at 1. unfold frame_val at 1. cbv beta iota.
    change (PTuple [PList (map PList (fr_rows {| fr_cols := map PStr cols; fr_rows := rows |}));
                    PList (fr_cols {| fr_cols := map PStr cols; fr_rows := rows |})])
      with (sframe cols rows).
    rewrite with_sframe by exact Hsh. reflexivity. }
  rewrite (ProjectionFacts.py_append_ok a _ (Hne _ _)). reflexivity.
Qed.

Theorem split_table_frame_chunks : forall cols rows k,
  shaped (List.length cols) rows ->
  1 <= k < 2^31 -> Z.of_nat (List.length rows) < 2^31 ->
  split_table_frame (sframe cols rows) (PInt k) =
  PList (map (fun ab => sframe cols (slice_nat rows ab)) (split_bs k (Z.of_nat (List.length rows)))).
Proof.
intros cols rows k Hsh Hk Hl. set (n := Z.of_nat (List.length rows)).
assert (Hn : 0 <= n < 2^31) by (unfold n; lia).
rewrite (split_table_frame_eval cols rows k (ssize k n) Hsh).
- fold (beta k n). unfold split_bs, idx, bnat. rewrite !map_map. f_equal.
  apply map_ext_in. intros j Hj. apply in_seq in Hj.
  change (f_round_int (fmul (f_of_Z (Z.of_nat j)) (ssize k n))) with (beta k n (Z.of_nat j)).
  change (f_round_int (fmul (f_of_Z (Z.of_nat j + 1)) (ssize k n))) with (beta k n (Z.of_nat j + 1)).
  rewrite frame_slice_sframe by (try exact Hsh; apply beta_nonneg; lia).
  now rewrite Nat2Z.inj_succ, <- Z.add_1_r.
- destruct (f_of_31 k ltac:(lia)) as [Fk Rk].
  apply fin_pos_nz; [exact Fk | ]. rewrite Rk. apply IZR_lt. lia.
- intros i Hi. apply fin_finite. apply (prod_spec k n i); lia.
- reflexivity.
Qed.

(* the frames are the chunks that the list version (Gen/WrapperGen.v:split_table, WrapperRefineChunks.
   split_table_chunks) cuts out of the list of rows *)
Corollary split_table_frame_list : forall cols rows k,
  shaped (List.length cols) rows ->
  1 <= k < 2^31 -> Z.of_nat (List.length rows) < 2^31 ->
  exists chs : list (list (list pyval)),
    split_table (PList (map PList rows)) (PInt k) = PList (map (fun ch => PList (map PList ch)) chs)
    /\ split_table_frame (sframe cols rows) (PInt k) = PList (map (sframe cols) chs).
Proof.
intros cols rows k Hsh Hk Hl.
exists (map (slice_nat rows) (split_bs k (Z.of_nat (List.length rows)))). split.
- rewrite split_table_chunks by (try exact Hk; rewrite map_length; exact Hl).
  rewrite map_length, !map_map. f_equal. apply map_ext. intros ab.
  unfold slice_nat. now rewrite <- firstn_map, <- skipn_map.
- rewrite split_table_frame_chunks by assumption. now rewrite map_map.
Qed.

Example split_table_frame_5_2 :
  split_table_frame (sframe ["a"; "b"]%string (map (fun z => [PInt z; PInt (z + 10)]) [1; 2; 3; 4; 5])) (PInt 2) =
  PList [sframe ["a"; "b"]%string (map (fun z => [PInt z; PInt (z + 10)]) [1; 2]);
         sframe ["a"; "b"]%string (map (fun z => [PInt z; PInt (z + 10)]) [3; 4; 5])].
Proof. vm_compute. reflexivity. Qed.

Print Assumptions split_table_frame_eval.    (* closed *)
Print Assumptions split_table_frame_chunks.  (* Reals axioms, through SplitArith *)
