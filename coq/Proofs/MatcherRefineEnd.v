(* End-to-end statement for the GENERATED apply_matcher_rows (Gen/MatcherGen.v, from
   matcher/apply_matcher.py:apply_matcher): on three string-labelled frames satisfying the hypotheses below,

     apply_matcher_rows candset .. ltable rtable ..  =  frame (header_spec c, map e_proj rows)      and
     apply_matcher_model e_sim t op allow_missing out_sim_score e_L e_R n_jobs cpus e_cand = Some rows

   i.e. the rows of the hand-written model Model/Matcher.v (per chunk of Api.chunks_of: matcher_split), mapped
   through the declared output projection e_proj: `_id` (the first cell of the candidate row), the two key
   cells, the requested cells of the two table rows with those keys (key attribute and repeats removed, order
   kept), and the score (NaN when a match value is missing) iff out_sim_score.  For an EMPTY candidate set the
   function returns the candidate set itself (its own columns, no rows).

   The abstraction (e_L, e_R, e_sim, e_cand) is built from the SOURCE tables: a key cell is encoded by any
   kz : pyval -> Z that agrees with Python == on the key cells (zk decodes), the value id of a row is its
   position.  Combines MatcherRefine (control flow of the public function), MatcherRefineLoop (the per-chunk
   loop), MatcherRefineSplit (the model), MatcherRefineBase (dictionaries, token cache) and
   MatcherRefineChunks.split_table_frame_chunks -- the only part that depends on the Reals axioms.      *)
From Coq Require Import ZArith Bool List String Lia.
From SSJ Require Import F64 PyNum HelperGen ValidationGen Filters Api Matcher MatcherFacts Projection ProjSpec
     ProjectionFacts IndexPyFacts JoinGenFacts SplitFacts Frame WrapperGen MatcherGen WrapperRefineFrame
     WrapperRefineCore FilterPairRefineBase MatcherRefineBase MatcherRefineLoop MatcherRefineSplit MatcherRefinePar
     MatcherRefineChunks MatcherRefine MatcherRefineBridge.
Import ListNotations.
Open Scope Z_scope.

Lemma match_row_ext sim1 sim2 t op am ws L R c :
  (forall a b, sim1 a b = sim2 a b) -> match_row sim1 t op am ws L R c = match_row sim2 t op am ws L R c.
Proof.
  intros H. destruct c as [[id lk] rk]. unfold match_row.
  destruct (lookup lk L) as [[a|]|]; destruct (lookup rk R) as [[b|]|]; try reflexivity. now rewrite H.
Qed.
Lemma matcher_split_ext sim1 sim2 t op am ws L R cand :
  (forall a b, sim1 a b = sim2 a b) -> matcher_split sim1 t op am ws L R cand = matcher_split sim2 t op am ws L R cand.
Proof.
  intros H. unfold matcher_split. induction cand as [|c cand IH]; [reflexivity|]. cbn [flat_map].
  now rewrite (match_row_ext sim1 sim2 t op am ws L R c H), IH.
Qed.

Lemma match_list_ne {A B} (l : list A) (a b : B) : l <> [] -> match l with [] => a | _ :: _ => b end = b.
Proof. destruct l; [contradiction | reflexivity]. Qed.
Lemma list_nil_dec {A} (l : list A) : {l = []} + {l <> []}.
Proof. destruct l; [left; reflexivity | right; discriminate]. Qed.

Lemma m_header_spec c :
  m_header (p_lkey c) (p_rkey c) (dedupe_opt (p_lkey c) (p_lout c)) (dedupe_opt (p_rkey c) (p_rout c))
           (p_lpre c) (p_rpre c) (p_score c) = header_spec c.
Proof. unfold m_header, header_spec. rewrite !opt_list_dedupe_opt. cbn [app]. now rewrite <- app_assoc. Qed.

Section End2End.
  Variables (c : pcase) (cc : list string) (clk crk : string).
  Variables (lsrc rsrc csrc : list (list pyval)).
  Variables (op : string) (cf : pyval -> pyval -> pyval) (am : bool) (t tokv showp : pyval) (njobs cpus : Z).
  Variables (tokenize : pyval -> pyval) (sim_fn : pyval -> pyval -> pyval).
  Variables (kz : pyval -> Z) (zk : Z -> pyval).

  (* cells of the source rows *)
  Definition lkeyc (row : list pyval) : pyval := cellv (p_lcols c) row (p_lkey c).
  Definition lvalc (row : list pyval) : pyval := cellv (p_lcols c) row (p_ljoin c).
  Definition rkeyc (row : list pyval) : pyval := cellv (p_rcols c) row (p_rkey c).
  Definition rvalc (row : list pyval) : pyval := cellv (p_rcols c) row (p_rjoin c).
  Definition clkc (crow : list pyval) : pyval := cellv cc crow clk.
  Definition crkc (crow : list pyval) : pyval := cellv cc crow crk.

  (* ---- the inputs of the model ---- *)
  Definition e_tk (cell : pyval) : pyval := if m_tokb tokv then tokenize cell else cell.
  Definition e_sim (a b : Z) : pyval :=
    sim_fn (e_tk (lvalc (nth (Z.to_nat a) lsrc []))) (e_tk (rvalc (nth (Z.to_nat b) rsrc []))).
  Definition e_L : list mrow := src_mrows (p_lcols c) (p_lkey c) (p_ljoin c) lsrc kz.
  Definition e_R : list mrow := src_mrows (p_rcols c) (p_rkey c) (p_rjoin c) rsrc kz.
  Definition e_cand : list crow := map (fun crow => (nth 0 crow PNone, kz (clkc crow), kz (crkc crow))) csrc.
  (* ---- the declared output projection ---- *)
  Definition e_proj (r : pyval * Z * Z * pyval) : list pyval :=
    let '(id, lz, rz, s) := r in
    match find (fun row => kz (lkeyc row) =? lz) lsrc, find (fun row => kz (rkeyc row) =? rz) rsrc with
    | Some lrow, Some rrow =>
        (id :: zk lz :: zk rz
            :: (map (cellv (p_lcols c) lrow) (dedupe_out (p_lkey c) (p_lout c))
                ++ map (cellv (p_rcols c) rrow) (dedupe_out (p_rkey c) (p_rout c))))
        ++ (if p_score c then [if cell_missing (lvalc lrow) || cell_missing (rvalc rrow) then py_nan else s] else [])
    | _, _ => []
    end.

  (* ---- hypotheses ---- *)
  Hypothesis Hwf : well_formed c.
  Hypothesis Hclk : In clk cc.
  Hypothesis Hcrk : In crk cc.
  Hypothesis Hlsrc : forall row, In row lsrc -> List.length row = List.length (p_lcols c) /\ row_ok row.
  Hypothesis Hrsrc : forall row, In row rsrc -> List.length row = List.length (p_rcols c) /\ row_ok row.
  Hypothesis Hcsrc : forall row, In row csrc -> List.length row = List.length cc /\ row_ok row.
  Hypothesis Hvout : is_exc (validate_output_attrs (py_opt_strs (p_lout c)) (py_strs (p_lcols c))
                                                   (py_opt_strs (p_rout c)) (py_strs (p_rcols c))) = false.
  Hypothesis Hop : comp_op_map op = Some cf.
  Hypothesis Htokv : is_exc tokv = false.
  Hypothesis Hn : Z.of_nat (List.length csrc) < 2^31.
  (* key attributes: unique values (validate_key_attr); kz agrees with == on the key cells; zk decodes *)
  Hypothesis HndL : NoDup (map (fun row => kz (lkeyc row)) lsrc).
  Hypothesis HndR : NoDup (map (fun row => kz (rkeyc row)) rsrc).
  Hypothesis HkzL : forall row v, In row lsrc -> In v (map lkeyc lsrc ++ map clkc csrc) ->
    pv_eqb (lkeyc row) v = (kz (lkeyc row) =? kz v).
  Hypothesis HkzR : forall row v, In row rsrc -> In v (map rkeyc rsrc ++ map crkc csrc) ->
    pv_eqb (rkeyc row) v = (kz (rkeyc row) =? kz v).
  Hypothesis Hzk : forall v, In v (map lkeyc lsrc ++ map rkeyc rsrc ++ map clkc csrc ++ map crkc csrc) ->
    zk (kz v) = v.
  (* every key of the candidate set is a key of its table (no KeyError) *)
  Hypothesis Hfound : forall crow, In crow csrc ->
    In (kz (clkc crow)) (map (fun row => kz (lkeyc row)) lsrc) /\
    In (kz (crkc crow)) (map (fun row => kz (rkeyc row)) rsrc).
  (* match values are scalars; tokenising a present one, scoring and comparing raise nothing *)
  Hypothesis HscalL : forall row, In row lsrc -> scalar (lvalc row).
  Hypothesis HscalR : forall row, In row rsrc -> scalar (rvalc row).
  Hypothesis HtokL : m_tokb tokv = true -> forall row, In row lsrc -> cell_missing (lvalc row) = false ->
    is_exc (tokenize (lvalc row)) = false.
  Hypothesis HtokR : m_tokb tokv = true -> forall row, In row rsrc -> cell_missing (rvalc row) = false ->
    is_exc (tokenize (rvalc row)) = false.
  Hypothesis Hsim : forall lrow rrow, In lrow lsrc -> In rrow rsrc ->
    cell_missing (lvalc lrow) = false -> cell_missing (rvalc rrow) = false ->
    is_exc (sim_fn (e_tk (lvalc lrow)) (e_tk (rvalc rrow))) = false /\
    is_exc (cf (sim_fn (e_tk (lvalc lrow)) (e_tk (rvalc rrow))) t) = false.

  (* ---- the projected tables and what the generated code computes on them ---- *)
  Let lproj := am_lproj c.
  Let rproj := am_rproj c.
  Let lrowsP := am_lrows c lsrc.
  Let rrowsP := am_rrows c rsrc.
  Let lo' := dedupe_opt (p_lkey c) (p_lout c).
  Let ro' := dedupe_opt (p_rkey c) (p_rout c).
  Let k := am_k csrc njobs cpus.
  Let bs := split_bs k (Z.of_nat (List.length csrc)).
  Let ltokd := PDict (map (tok_entry lproj (p_lkey c) (p_ljoin c) tokenize) (filter (present_row lproj (p_ljoin c)) lrowsP)).
  Let rtokd := PDict (map (tok_entry rproj (p_rkey c) (p_rjoin c) tokenize) (filter (present_row rproj (p_rjoin c)) rrowsP)).
  Let ltok := am_ltok lsrc rsrc csrc tokv ltokd.
  Let rtok := am_rtok lsrc rsrc csrc tokv rtokd.
  Let chunks := am_chunks csrc njobs cpus bs.

  Let Hlkp : In (p_lkey c) lproj. Proof. left. reflexivity. Qed.
  Let Hlmp : In (p_ljoin c) lproj. Proof. right. left. reflexivity. Qed.
  Let Hrkp : In (p_rkey c) rproj. Proof. left. reflexivity. Qed.
  Let Hrmp : In (p_rjoin c) rproj. Proof. right. left. reflexivity. Qed.
  Let Hlop : forall a, In a (opt_list lo') -> In a lproj.
  Proof. intros a Ha. unfold lo' in Ha. rewrite opt_list_dedupe_opt in Ha. apply proj_list_In. exact Ha. Qed.
  Let Hrop : forall a, In a (opt_list ro') -> In a rproj.
  Proof. intros a Ha. unfold ro' in Ha. rewrite opt_list_dedupe_opt in Ha. apply proj_list_In. exact Ha. Qed.

  Let Hls : shaped (List.length (p_lcols c)) lsrc. Proof. intros r Hr. apply Hlsrc. exact Hr. Qed.
  Let Hrs : shaped (List.length (p_rcols c)) rsrc. Proof. intros r Hr. apply Hrsrc. exact Hr. Qed.
  Let Hcs : shaped (List.length cc) csrc. Proof. intros r Hr. apply Hcsrc. exact Hr. Qed.

  Let HlokP : forall r, In r lrowsP -> row_ok r.
  Proof.
    intros r Hr. unfold lrowsP, am_lrows, project_rows in Hr. apply in_map_iff in Hr. destruct Hr as (row & <- & Hrow).
    destruct (Hlsrc row Hrow) as [Hlen Hok]. apply project_row_ok; [exact Hok | apply (am_lproj_incl c Hwf) | exact Hlen].
  Qed.
  Let HrokP : forall r, In r rrowsP -> row_ok r.
  Proof.
    intros r Hr. unfold rrowsP, am_rrows, project_rows in Hr. apply in_map_iff in Hr. destruct Hr as (row & <- & Hrow).
    destruct (Hrsrc row Hrow) as [Hlen Hok]. apply project_row_ok; [exact Hok | apply (am_rproj_incl c Hwf) | exact Hlen].
  Qed.

  Let HldP : distinct_keys (posn (p_lkey c) lproj) lrowsP.
  Proof.
    apply (distinct_keys_project (p_lcols c) lproj (p_lkey c) lsrc kz Hlkp HndL).
    intros r r' Hr Hr'. apply (HkzL r _ Hr). apply in_or_app. left. exact (in_map lkeyc lsrc r' Hr').
  Qed.
  Let HrdP : distinct_keys (posn (p_rkey c) rproj) rrowsP.
  Proof.
    apply (distinct_keys_project (p_rcols c) rproj (p_rkey c) rsrc kz Hrkp HndR).
    intros r r' Hr Hr'. apply (HkzR r _ Hr). apply in_or_app. left. exact (in_map rkeyc rsrc r' Hr').
  Qed.

  (* ---- the token cache ---- *)
  Lemma e_gen : am_cache lsrc rsrc csrc tokv = true ->
    generate_tokens (sframe lproj lrowsP) (PStr (p_lkey c)) (PStr (p_ljoin c)) tokenize = ltokd /\
    generate_tokens (sframe rproj rrowsP) (PStr (p_rkey c)) (PStr (p_rjoin c)) tokenize = rtokd /\
    is_exc ltokd = false /\ is_exc rtokd = false.
  Proof.
    intros Ec. unfold am_cache in Ec. apply andb_true_iff in Ec. destruct Ec as [Et _].
    split; [|split; [|split; reflexivity]].
    - apply generate_tokens_eq; try assumption.
      + apply project_rows_shaped.
      + intros r Hr. apply (HlokP r Hr). apply nth_In. rewrite (project_rows_shaped _ _ _ r Hr). apply posn_lt. exact Hlkp.
      + intros r Hr. unfold lrowsP, am_lrows, project_rows in Hr. apply in_map_iff in Hr. destruct Hr as (row & <- & Hrow).
        fold lproj. rewrite (positional_index (p_lcols c) row lproj (p_ljoin c) Hlmp). apply (HtokL Et row Hrow).
    - apply generate_tokens_eq; try assumption.
      + apply project_rows_shaped.
      + intros r Hr. apply (HrokP r Hr). apply nth_In. rewrite (project_rows_shaped _ _ _ r Hr). apply posn_lt. exact Hrkp.
      + intros r Hr. unfold rrowsP, am_rrows, project_rows in Hr. apply in_map_iff in Hr. destruct Hr as (row & <- & Hrow).
        fold rproj. rewrite (positional_index (p_rcols c) row rproj (p_rjoin c) Hrmp). apply (HtokR Et row Hrow).
  Qed.

  Lemma cache_get (cols : list string) (key join : string) (rows : list (list pyval)) kc row :
    is_exc kc = false -> find_row (posn key cols) rows kc = Some row ->
    cell_missing (nth (posn join cols) row PNone) = false ->
    py_getitem (PDict (map (tok_entry cols key join tokenize) (filter (present_row cols join) rows))) kc
    = tokenize (nth (posn join cols) row PNone).
  Proof.
    intros Hk F Hp. rewrite (getitem_dict _ _ Hk), tokens_lookup.
    unfold find_row in *. rewrite (find_filter _ (present_row cols join) rows row F).
    - reflexivity.
    - unfold present_row, cellv. now rewrite Hp.
  Qed.

  Lemma cacheb_eq : m_cacheb ltok rtok = am_cache lsrc rsrc csrc tokv.
  Proof. unfold ltok, rtok, am_ltok, am_rtok, m_cacheb. destruct (am_cache lsrc rsrc csrc tokv); reflexivity. Qed.

  (* the source row found for a key cell of the candidate set *)
  Lemma found_l crow : In crow csrc ->
    exists srow, In srow lsrc /\ kz (lkeyc srow) = kz (clkc crow) /\
      find_row (posn (p_lkey c) lproj) lrowsP (clkc crow) = Some (map (cellv (p_lcols c) srow) lproj).
  Proof.
    intros Hc. destruct (Hfound crow Hc) as [Hf _]. apply in_map_iff in Hf. destruct Hf as (s0 & E0 & Hs0).
    assert (Hext : forall row, In row lsrc -> pv_eqb (cellv (p_lcols c) row (p_lkey c)) (clkc crow)
                                               = (kz (lkeyc row) =? kz (clkc crow))).
    { intros row Hrow. apply (HkzL row _ Hrow). apply in_or_app. right. exact (in_map clkc csrc crow Hc). }
    destruct (find_exists (fun row => kz (lkeyc row) =? kz (clkc crow)) lsrc s0 Hs0) as (srow & Fs).
    { apply Z.eqb_eq. exact E0. }
    exists srow. destruct (find_some _ _ Fs) as [Hin Ek]. split; [exact Hin|]. split; [now apply Z.eqb_eq|].
    unfold lrowsP, am_lrows. rewrite (find_row_project (p_lcols c) lproj (p_lkey c) lsrc Hlkp).
    rewrite (find_ext_in _ _ lsrc Hext), Fs. reflexivity.
  Qed.
  Lemma found_r crow : In crow csrc ->
    exists srow, In srow rsrc /\ kz (rkeyc srow) = kz (crkc crow) /\
      find_row (posn (p_rkey c) rproj) rrowsP (crkc crow) = Some (map (cellv (p_rcols c) srow) rproj).
  Proof.
    intros Hc. destruct (Hfound crow Hc) as [_ Hf]. apply in_map_iff in Hf. destruct Hf as (s0 & E0 & Hs0).
    assert (Hext : forall row, In row rsrc -> pv_eqb (cellv (p_rcols c) row (p_rkey c)) (crkc crow)
                                               = (kz (rkeyc row) =? kz (crkc crow))).
    { intros row Hrow. apply (HkzR row _ Hrow). apply in_or_app. right. exact (in_map crkc csrc crow Hc). }
    destruct (find_exists (fun row => kz (rkeyc row) =? kz (crkc crow)) rsrc s0 Hs0) as (srow & Fs).
    { apply Z.eqb_eq. exact E0. }
    exists srow. destruct (find_some _ _ Fs) as [Hin Ek]. split; [exact Hin|]. split; [now apply Z.eqb_eq|].
    unfold rrowsP, am_rrows. rewrite (find_row_project (p_rcols c) rproj (p_rkey c) rsrc Hrkp).
    rewrite (find_ext_in _ _ rsrc Hext), Fs. reflexivity.
  Qed.

  Lemma crow_key_ok crow : In crow csrc -> is_exc (clkc crow) = false /\ is_exc (crkc crow) = false.
  Proof.
    intros Hc. destruct (Hcsrc crow Hc) as [Hlen Hok]. split; apply cellv_ok; assumption.
  Qed.

  (* what is handed to sim_function for a found, present pair is e_tk of the match cell *)
  Lemma prep_l crow srow : In crow csrc -> In srow lsrc ->
    find_row (posn (p_lkey c) lproj) lrowsP (clkc crow) = Some (map (cellv (p_lcols c) srow) lproj) ->
    cell_missing (lvalc srow) = false ->
    prep tokv ltok rtok tokenize ltok (clkc crow) (lvalc srow) = e_tk (lvalc srow).
  Proof.
    intros Hc Hs F Hp. unfold prep, e_tk. destruct (m_tokb tokv); [|reflexivity].
    rewrite cacheb_eq. unfold ltok, am_ltok. destruct (am_cache lsrc rsrc csrc tokv); [|reflexivity].
    unfold ltokd. rewrite (cache_get lproj (p_lkey c) (p_ljoin c) lrowsP _ _ (proj1 (crow_key_ok crow Hc)) F).
    - now rewrite (prow_val (p_lcols c) lproj (p_ljoin c) Hlmp srow).
    - rewrite (prow_val (p_lcols c) lproj (p_ljoin c) Hlmp srow). exact Hp.
  Qed.
  Lemma prep_r crow srow : In crow csrc -> In srow rsrc ->
    find_row (posn (p_rkey c) rproj) rrowsP (crkc crow) = Some (map (cellv (p_rcols c) srow) rproj) ->
    cell_missing (rvalc srow) = false ->
    prep tokv ltok rtok tokenize rtok (crkc crow) (rvalc srow) = e_tk (rvalc srow).
  Proof.
    intros Hc Hs F Hp. unfold prep, e_tk. destruct (m_tokb tokv); [|reflexivity].
    rewrite cacheb_eq. unfold rtok, am_rtok. destruct (am_cache lsrc rsrc csrc tokv); [|reflexivity].
    unfold rtokd. rewrite (cache_get rproj (p_rkey c) (p_rjoin c) rrowsP _ _ (proj2 (crow_key_ok crow Hc)) F).
    - now rewrite (prow_val (p_rcols c) rproj (p_rjoin c) Hrmp srow).
    - rewrite (prow_val (p_rcols c) rproj (p_rjoin c) Hrmp srow). exact Hp.
  Qed.

  Lemma e_tk_ok_l srow : In srow lsrc -> cell_missing (lvalc srow) = false -> is_exc (e_tk (lvalc srow)) = false.
  Proof.
    intros Hs Hp. unfold e_tk. destruct (bool_cases (m_tokb tokv)) as [Et|Et]; rewrite Et; [apply (HtokL Et srow Hs Hp)|].
    destruct (Hlsrc srow Hs) as [Hlen Hok]. apply cellv_ok; try assumption. apply (wf_ljoin c Hwf).
  Qed.
  Lemma e_tk_ok_r srow : In srow rsrc -> cell_missing (rvalc srow) = false -> is_exc (e_tk (rvalc srow)) = false.
  Proof.
    intros Hs Hp. unfold e_tk. destruct (bool_cases (m_tokb tokv)) as [Et|Et]; rewrite Et; [apply (HtokR Et srow Hs Hp)|].
    destruct (Hrsrc srow Hs) as [Hlen Hok]. apply cellv_ok; try assumption. apply (wf_rjoin c Hwf).
  Qed.

  Notation rowhypsP := (row_hyps lproj rproj cc lrowsP rrowsP (p_lkey c) (p_rkey c) (p_ljoin c) (p_rjoin c) clk crk cf t
                                 tokv ltok rtok tokenize sim_fn).
  Notation keyhypsP := (key_hyps lproj rproj cc lrowsP rrowsP (p_lkey c) (p_rkey c) clk crk kz zk).
  Notation cachehypsP := (cache_hyps lproj rproj cc lrowsP rrowsP (p_lkey c) (p_rkey c) (p_ljoin c) (p_rjoin c) clk crk
                                     tokv ltok rtok tokenize).

  Lemma e_row crow : In crow csrc -> rowhypsP crow /\ keyhypsP crow /\ cachehypsP crow.
  Proof.
    intros Hc.
    destruct (found_l crow Hc) as (sl & Hsl & Zl & Fl). destruct (found_r crow Hc) as (sr & Hsr & Zr & Fr).
    split; [|split].
    - exists (map (cellv (p_lcols c) sl) lproj), (map (cellv (p_rcols c) sr) rproj).
      change (nth (m_cki cc clk) crow PNone) with (clkc crow). change (nth (m_ckj cc crk) crow PNone) with (crkc crow).
      split; [exact Fl|]. split; [exact Fr|].
      unfold m_mi, m_mj.
      rewrite (prow_val (p_lcols c) lproj (p_ljoin c) Hlmp sl), (prow_val (p_rcols c) rproj (p_rjoin c) Hrmp sr).
      fold (lvalc sl) (rvalc sr).
      split; [apply HscalL; exact Hsl|]. split; [apply HscalR; exact Hsr|].
      intros Hp. apply orb_false_iff in Hp. destruct Hp as [Hpl Hpr].
      unfold pair_score. change (nth (m_cki cc clk) crow PNone) with (clkc crow).
      change (nth (m_ckj cc crk) crow PNone) with (crkc crow). unfold m_mi, m_mj.
      rewrite (prow_val (p_lcols c) lproj (p_ljoin c) Hlmp sl), (prow_val (p_rcols c) rproj (p_rjoin c) Hrmp sr).
      fold (lvalc sl) (rvalc sr).
      rewrite (prep_l crow sl Hc Hsl Fl Hpl), (prep_r crow sr Hc Hsr Fr Hpr).
      split; [apply e_tk_ok_l; assumption|]. split; [apply e_tk_ok_r; assumption|].
      apply Hsim; assumption.
    - change (nth (m_cki cc clk) crow PNone) with (clkc crow). change (nth (m_ckj cc crk) crow PNone) with (crkc crow).
      split; [|split; [|split]].
      + intros row Hrow. unfold lrowsP, am_lrows, project_rows in Hrow. apply in_map_iff in Hrow.
        destruct Hrow as (srow & <- & Hsrow). unfold m_ki. fold lproj.
        rewrite (prow_key (p_lcols c) lproj (p_lkey c) Hlkp srow).
        apply (HkzL srow _ Hsrow). apply in_or_app. right. exact (in_map clkc csrc crow Hc).
      + intros row Hrow. unfold rrowsP, am_rrows, project_rows in Hrow. apply in_map_iff in Hrow.
        destruct Hrow as (srow & <- & Hsrow). unfold m_kj. fold rproj.
        rewrite (prow_key (p_rcols c) rproj (p_rkey c) Hrkp srow).
        apply (HkzR srow _ Hsrow). apply in_or_app. right. exact (in_map crkc csrc crow Hc).
      + apply Hzk. apply in_or_app. right. apply in_or_app. right. apply in_or_app. left. exact (in_map clkc csrc crow Hc).
      + apply Hzk. apply in_or_app. right. apply in_or_app. right. apply in_or_app. right. exact (in_map crkc csrc crow Hc).
    - intros Et Ec lrow rrow Fl' Fr' Hp.
      change (nth (m_cki cc clk) crow PNone) with (clkc crow) in *.
      change (nth (m_ckj cc crk) crow PNone) with (crkc crow) in *.
      unfold m_ki, m_kj in Fl', Fr'. rewrite Fl in Fl'. rewrite Fr in Fr'.
      assert (El : map (cellv (p_lcols c) sl) lproj = lrow) by congruence.
      assert (Er : map (cellv (p_rcols c) sr) rproj = rrow) by congruence.
      clear Fl' Fr'. subst lrow rrow.
      apply orb_false_iff in Hp. destruct Hp as [Hpl Hpr]. unfold m_mi, m_mj in *.
      rewrite (prow_val (p_lcols c) lproj (p_ljoin c) Hlmp sl) in *.
      rewrite (prow_val (p_rcols c) rproj (p_rjoin c) Hrmp sr) in *.
      pose proof (prep_l crow sl Hc Hsl Fl Hpl) as P1. pose proof (prep_r crow sr Hc Hsr Fr Hpr) as P2.
      unfold prep, e_tk in P1, P2. rewrite Et, Ec in P1, P2. split; assumption.
  Qed.

  Notation rowoutP := (row_out lproj rproj cc lrowsP rrowsP (p_lkey c) (p_rkey c) (p_ljoin c) (p_rjoin c) clk crk
                               lo' ro' (p_score c) am cf t tokv ltok rtok tokenize sim_fn).

  Lemma chunks_incl ch : In ch chunks -> forall row, In row ch -> In row csrc.
  Proof.
    unfold chunks, am_chunks, par_chunks. destruct (am_k csrc njobs cpus <=? 1).
    - intros [<-|[]] row Hrow. exact Hrow.
    - intros Hch row Hrow. apply in_map_iff in Hch. destruct Hch as (ab & <- & _).
      exact (slice_nat_incl csrc ab row Hrow).
  Qed.

  Lemma ltok_ok : is_exc ltok = false /\ is_exc rtok = false.
  Proof. unfold ltok, rtok, am_ltok, am_rtok. destruct (am_cache lsrc rsrc csrc tokv); split; reflexivity. Qed.

  (* the per-chunk function on a chunk *)
  Lemma e_chunk ch sp : In ch chunks ->
    apply_matcher_split_rows (sframe cc ch) (PStr clk) (PStr crk) (sframe lproj lrowsP) (sframe rproj rrowsP)
      (PStr (p_lkey c)) (PStr (p_rkey c)) (PStr (p_ljoin c)) (PStr (p_rjoin c)) tokv t (PStr op) (PBool am)
      (py_opt_strs lo') (py_opt_strs ro') (PStr (p_lpre c)) (PStr (p_rpre c)) (PBool (p_score c)) sp ltok rtok
      tokenize sim_fn
    = sframe (header_spec c) (flat_map rowoutP ch) /\ shaped (List.length (header_spec c)) (flat_map rowoutP ch).
  Proof.
    intros Hch. pose proof (chunks_incl ch Hch) as Hinc. rewrite <- m_header_spec. fold lo' ro'. split.
    - apply (apply_matcher_split_rows_loop lproj rproj cc lrowsP rrowsP ch (p_lkey c) (p_rkey c) (p_ljoin c) (p_rjoin c)
               clk crk lo' ro' (p_lpre c) (p_rpre c) (p_score c) am op cf t sp tokv ltok rtok tokenize sim_fn);
        try assumption.
      + apply project_rows_shaped.
      + apply project_rows_shaped.
      + intros r Hr. apply Hcs. apply Hinc. exact Hr.
      + intros r Hr. apply Hcsrc. apply Hinc. exact Hr.
      + apply ltok_ok.
      + apply ltok_ok.
      + intros crow Hcrow. apply (e_row crow (Hinc crow Hcrow)).
    - apply row_out_shaped; assumption.
  Qed.

  Notation projP := (proj_row lproj rproj lrowsP rrowsP (p_lkey c) (p_rkey c) (p_ljoin c) (p_rjoin c) lo' ro' (p_score c) kz zk).
  Notation simP := (simz lproj rproj lrowsP rrowsP (p_ljoin c) (p_rjoin c) tokv tokenize sim_fn).
  Notation crowofP := (crow_of cc clk crk kz).

  (* projected -> source *)
  Lemma simP_eq a b : simP a b = e_sim a b.
  Proof.
    unfold simz, e_sim, tk, e_tk, m_mi, m_mj, lrowsP, rrowsP, am_lrows, am_rrows. fold lproj rproj.
    rewrite (nth_project_val (p_lcols c) lproj (p_ljoin c) lsrc Hlmp (Z.to_nat a)).
    rewrite (nth_project_val (p_rcols c) rproj (p_rjoin c) rsrc Hrmp (Z.to_nat b)). reflexivity.
  Qed.
  Lemma mrowsL_eq : mrows kz (m_ki lproj (p_lkey c)) (m_mi lproj (p_ljoin c)) lrowsP = e_L.
  Proof. apply (mrows_project (p_lcols c) lproj (p_lkey c) (p_ljoin c) lsrc kz Hlkp Hlmp). Qed.
  Lemma mrowsR_eq : mrows kz (m_kj rproj (p_rkey c)) (m_mj rproj (p_rjoin c)) rrowsP = e_R.
  Proof. apply (mrows_project (p_rcols c) rproj (p_rkey c) (p_rjoin c) rsrc kz Hrkp Hrmp). Qed.
  Lemma crowof_eq : map crowofP csrc = e_cand.
  Proof. reflexivity. Qed.

  Lemma projP_eq r : projP r = e_proj r.
  Proof.
    destruct r as [[[id lz] rz] s]. unfold proj_row, e_proj, m_ki, m_kj, lrowsP, rrowsP, am_lrows, am_rrows.
    fold lproj rproj.
    rewrite (find_key_project (p_lcols c) lproj (p_lkey c) lsrc kz Hlkp lz).
    rewrite (find_key_project (p_rcols c) rproj (p_rkey c) rsrc kz Hrkp rz).
    unfold lkeyc, rkeyc.
    destruct (find (fun row => kz (cellv (p_lcols c) row (p_lkey c)) =? lz) lsrc) as [lrow|]; cbn [option_map]; [|reflexivity].
    destruct (find (fun row => kz (cellv (p_rcols c) row (p_rkey c)) =? rz) rsrc) as [rrow|]; cbn [option_map]; [|reflexivity].
    unfold m_mi, m_mj, m_li, m_ri.
    rewrite (prow_val (p_lcols c) lproj (p_ljoin c) Hlmp lrow), (prow_val (p_rcols c) rproj (p_rjoin c) Hrmp rrow).
    fold (lvalc lrow) (rvalc rrow). unfold lo', ro'. rewrite !opt_list_dedupe_opt, !map_map.
    f_equal. f_equal. f_equal. f_equal. f_equal.
    - apply map_ext_in. intros a Ha. apply (prow_cell (p_lcols c) lproj lrow a). apply proj_list_In. exact Ha.
    - apply map_ext_in. intros a Ha. apply (prow_cell (p_rcols c) rproj rrow a). apply proj_list_In. exact Ha.
  Qed.

  (* the model on the same chunks *)
  Lemma e_model : csrc <> [] ->
    apply_matcher_model e_sim t op am (p_score c) e_L e_R njobs cpus e_cand
    = Some (List.concat (map (fun ch => matcher_split e_sim t op am (p_score c) e_L e_R (map crowofP ch)) chunks)).
  Proof.
    intros Hne. unfold apply_matcher_model. rewrite <- crowof_eq.
    destruct (map crowofP csrc) eqn:Em; [destruct csrc; [contradiction | discriminate Em]|]. rewrite <- Em. clear Em.
    rewrite chunks_of_eval by (rewrite map_length; exact Hn). rewrite map_length.
    fold (am_k csrc njobs cpus). fold k. f_equal.
    unfold chunks, am_chunks, par_chunks. fold k. destruct (k <=? 1).
    - cbn [flat_map map snd List.concat]. reflexivity.
    - rewrite flat_map_concat_map, !map_map. cbn [snd]. f_equal. apply map_ext. intros ab.
      now rewrite slice_nat_map.
  Qed.

  Lemma e_split : 1 < k ->
    List.length bs = Z.to_nat k /\
    split_table_frame (sframe cc csrc) (PInt k) = PList (map (fun ab => sframe cc (slice_nat csrc ab)) bs).
  Proof.
    intros Hk. split.
    - unfold bs, split_bs. now rewrite map_length, seq_length.
    - apply split_table_frame_chunks; [exact Hcs | | exact Hn].
      unfold k, am_k, nchunks in *. lia.
  Qed.

  Theorem apply_matcher_rows_end_to_end :
    exists rows,
      apply_matcher_model e_sim t op am (p_score c) e_L e_R njobs cpus e_cand = Some rows /\
      apply_matcher_rows (sframe cc csrc) (PStr clk) (PStr crk) (sframe (p_lcols c) lsrc) (sframe (p_rcols c) rsrc)
        (PStr (p_lkey c)) (PStr (p_rkey c)) (PStr (p_ljoin c)) (PStr (p_rjoin c)) tokv t (PStr op) (PBool am)
        (py_opt_strs (p_lout c)) (py_opt_strs (p_rout c)) (PStr (p_lpre c)) (PStr (p_rpre c)) (PBool (p_score c))
        (PInt njobs) showp (PInt cpus) tokenize sim_fn
      = sframe (match csrc with [] => cc | _ => header_spec c end) (map e_proj rows).
  Proof using All.
    rewrite (apply_matcher_rows_chunks c cc clk crk lsrc rsrc csrc op cf am t tokv showp njobs cpus tokenize sim_fn
               bs (header_spec c) (flat_map rowoutP) ltokd rtokd Hwf Hclk Hcrk Hls Hrs Hcs Hvout Hop Htokv e_gen).
    2:{ intros ch sp Hch. exact (e_chunk ch sp Hch). }
    2:{ exact e_split. }
    destruct (list_nil_dec csrc) as [Ecs|Hne].
    { exists []. split.
      - unfold apply_matcher_model, e_cand. rewrite Ecs. reflexivity.
      - rewrite Ecs. reflexivity. }
    rewrite !(match_list_ne csrc _ _ Hne).
    eexists. split; [exact (e_model Hne)|].
    f_equal. fold chunks. rewrite concat_map, map_map. f_equal. apply map_ext_in. intros ch Hch.
    pose proof (chunks_incl ch Hch) as Hinc.
    rewrite (split_link lproj rproj cc lrowsP rrowsP (p_lkey c) (p_rkey c) (p_ljoin c) (p_rjoin c) clk crk lo' ro'
               (p_score c) am op cf t tokv ltok rtok tokenize sim_fn kz zk).
    - rewrite mrowsL_eq, mrowsR_eq. rewrite (matcher_split_ext _ _ t op am (p_score c) e_L e_R _ simP_eq).
      apply map_ext. exact projP_eq.
    - unfold lrowsP, am_lrows, project_rows. rewrite map_map.
      erewrite map_ext; [exact HndL|]. intros row. unfold m_ki. fold lproj. now rewrite (prow_key (p_lcols c) lproj (p_lkey c) Hlkp row).
    - unfold rrowsP, am_rrows, project_rows. rewrite map_map.
      erewrite map_ext; [exact HndR|]. intros row. unfold m_kj. fold rproj. now rewrite (prow_key (p_rcols c) rproj (p_rkey c) Hrkp row).
    - intros row Hrow. unfold lrowsP, am_lrows, project_rows in Hrow. apply in_map_iff in Hrow.
      destruct Hrow as (srow & <- & Hsrow). unfold m_ki. fold lproj. rewrite (prow_key (p_lcols c) lproj (p_lkey c) Hlkp srow).
      apply Hzk. apply in_or_app. left. exact (in_map lkeyc lsrc srow Hsrow).
    - intros row Hrow. unfold rrowsP, am_rrows, project_rows in Hrow. apply in_map_iff in Hrow.
      destruct Hrow as (srow & <- & Hsrow). unfold m_kj. fold rproj. rewrite (prow_key (p_rcols c) rproj (p_rkey c) Hrkp srow).
      apply Hzk. apply in_or_app. right. apply in_or_app. left. exact (in_map rkeyc rsrc srow Hsrow).
    - exact Hop.
    - intros crow Hcrow. apply (e_row crow (Hinc crow Hcrow)).
  Qed.
End End2End.

Print Assumptions apply_matcher_rows_end_to_end.
