(* ARITHMETIC companion of the metamorphic laws (uses Flocq / Reals: the usual standard-library
   axioms appear in Print Assumptions).  Discharges, at the float level, the two side conditions
   that Proofs/Laws.v and Proofs/LawsPipe.v leave as hypotheses:
   - round_agrees (law 6): round(round(x,4),4) == round(x,4) for a finite double |x| <= 2^30;
   - laxer (law 4): for finite float thresholds t1 <= t2 and the operators >=, >.           *)
From Coq Require Import ZArith Reals Lia Lra Psatz SpecFloat Bool String List.
From Flocq Require Import Core BinarySingleNaN Relative.
From SSJ Require Import F64 F64Spec PyNum FilterUtilsGen HelperGen TokenOrdering Measures Filters Joins Api
                        JoinSpec MetaSpec LawsSpec Laws LawsPipe CosSelf.
Open Scope string_scope.
Open Scope R_scope.

(* ------------------------------------------------------------------ round4 is idempotent *)
Lemma R4_bound v : Rabs v <= 1073741824 -> Rabs (R4 v) <= 1073741824.
Proof.
  intros Hv. apply Rabs_le_inv in Hv. apply Rabs_le. split.
  - rewrite <- opp_IZR. apply R4_up; [lia|]. rewrite opp_IZR. lra.
  - apply R4_down; [lia|]. lra.
Qed.

Lemma R4_idem v : Rabs v <= 1073741824 -> R4 (R4 v) = R4 v.
Proof.
  intros Hv. unfold R4 at 1. set (N := ZnearestE (v * 10000)).
  assert (R4 v = RN (IZR N / 10000)) as E by reflexivity. rewrite E.
  set (w := IZR N / 10000).
  assert (ZnearestE (RN w * 10000) = N) as HN; [|rewrite HN; reflexivity].
  apply Znearest_imp.
  pose proof (Znearest_half (fun n => negb (Z.even n)) (v * 10000)) as Hh. fold N in Hh.
  apply Rabs_le_inv in Hh. apply Rabs_le_inv in Hv.
  assert (IZR N = w * 10000) as EN by (unfold w; field).
  destruct (Z.eq_dec N 0) as [Z0|NZ].
  - unfold w. rewrite Z0. unfold Rdiv. rewrite Rmult_0_l, RN_0, Rmult_0_l, Rminus_0_r, Rabs_R0. lra.
  - assert (1 <= Rabs (IZR N)) as H1.
    { rewrite <- abs_IZR. apply IZR_le. lia. }
    assert (Rabs w = Rabs (IZR N) / 10000) as Ew.
    { unfold w, Rdiv. rewrite Rabs_mult, (Rabs_pos_eq (/ 10000)) by lra. reflexivity. }
    assert (Rabs (IZR N) <= 10737418240001) as H2.
    { apply Rabs_le. lra. }
    pose proof (RN_rel w) as Hr.
    assert (bpow radix2 (-1022) <= Rabs w) as Hlo.
    { pose proof bpow_m1022_le. rewrite Ew. lra. }
    specialize (Hr Hlo). fold eps in Hr. rewrite eps_val in Hr.
    replace (RN w * 10000 - IZR N) with ((RN w - w) * 10000) by (rewrite EN; ring).
    rewrite Rabs_mult, (Rabs_pos_eq 10000) by lra.
    rewrite Ew in Hr. pose proof (Rabs_pos (RN w - w)). lra.
Qed.

Theorem round4_idem x : fin x -> Rabs (FR x) <= 1073741824 ->
  SFcompare (f_round_nd (f_round_nd x 4) 4) (f_round_nd x 4) = Some Eq.
Proof.
  intros Hx Hb.
  destruct (f_round_4_spec x Hx) as [Fy Ry]; [lra|].
  assert (Rabs (FR (f_round_nd x 4)) <= 1073741824) as Hby by (rewrite Ry; apply R4_bound; exact Hb).
  destruct (f_round_4_spec (f_round_nd x 4) Fy) as [Fz Rz]; [lra|].
  rewrite Ry, (R4_idem _ Hb), <- Ry in Rz.
  pose proof (feqb_spec _ _ Fz Fy) as H. rewrite Rz in H. rewrite Req_bool_true in H by reflexivity.
  unfold feqb, SFeqb in H.
  destruct (SFcompare (f_round_nd (f_round_nd x 4) 4) (f_round_nd x 4)) as [[]|]; try discriminate H.
  reflexivity.
Qed.

(* the hypothesis of pipeline_law for JACCARD / COSINE / DICE, from finiteness of the raw score of
   every reported pair and, for equal token SETS listed in different orders (where the matcher's
   similarity function misses its exact-match shortcut and evaluates the formula at o = a = b),
   from the fact that the formula's value rounds to 1.0 (Proofs/CosSelf.v: self_round_jcd for
   sets of fewer than 2^20 tokens) *)
Theorem round_agrees_jcd c m : is_jcd m = true ->
  (forall x y, cmp_op (j_op c) (reported_score m x y) (j_t c) = true ->
     let f := sim_sizes m (len (dedup x)) (len (dedup y)) (overlap_sets x y) in
     fin f /\ Rabs (FR f) <= 1073741824) ->
  (forall x y, list_eqbZ x y = false ->
     overlap_sets x y = len (dedup x) -> overlap_sets x y = len (dedup y) ->
     f_round_nd (sim_formula m (len (dedup x)) (len (dedup x)) (len (dedup x))) 4 = f_one) ->
  round_agrees c m.
Proof.
  intros Hj H Hself x y Hc.
  destruct (matcher_raw_cases m x y) as [E|(_ & El & E1 & E2 & _ & E)]; rewrite E.
  - destruct (H x y Hc) as [Hf Hb]. unfold reported_score, raw_score, score4. rewrite Hj.
    unfold round_score. simpl. rewrite (round4_idem _ Hf Hb). reflexivity.
  - unfold reported_score, score4, sim_sizes. rewrite Hj. cbv zeta.
    rewrite <- E2, E1, !Z.eqb_refl. cbn [andb round_score].
    rewrite (Hself x y El E1 E2), !round4_one. reflexivity.
Qed.

(* ------------------------------------------------------------------ comparisons of finite doubles *)
Lemma SFcompare_spec x y : fin x -> fin y -> SFcompare x y = Some (Rcompare (FR x) (FR y)).
Proof.
  intros Hx Hy.
  destruct (fin_B x Hx) as (bx & <- & Fx & Rx).
  destruct (fin_B y Hy) as (by_ & <- & Fy & Ry).
  rewrite <- Rx, <- Ry. exact (Bcompare_correct prec emax bx by_ Fx Fy).
Qed.

Lemma cmp_ge_ff v t : fin v -> fin t -> (cmp_op ">=" (PFloat v) (PFloat t) = true <-> FR t <= FR v).
Proof.
  intros Hv Ht. unfold cmp_op. cbn [comp_op_map String.eqb Ascii.eqb Bool.eqb].
  unfold py_ge, py_ord, strict2, ord_cmp. cbn [num_of num_cmp]. rewrite (SFcompare_spec v t Hv Ht).
  destruct (Rcompare_spec (FR v) (FR t)); simpl; split; intros H0; try discriminate; try reflexivity; lra.
Qed.

Lemma cmp_gt_ff v t : fin v -> fin t -> (cmp_op ">" (PFloat v) (PFloat t) = true <-> FR t < FR v).
Proof.
  intros Hv Ht. unfold cmp_op. cbn [comp_op_map String.eqb Ascii.eqb Bool.eqb].
  unfold py_gt, py_ord, strict2, ord_cmp. cbn [num_of num_cmp]. rewrite (SFcompare_spec v t Hv Ht).
  destruct (Rcompare_spec (FR v) (FR t)); simpl; split; intros H0; try discriminate; try reflexivity; lra.
Qed.

(* the hypothesis of refine_law for float thresholds *)
Theorem laxer_float c1 c2 t1 t2 :
  j_t c1 = PFloat t1 -> j_t c2 = PFloat t2 -> fin t1 -> fin t2 -> FR t1 <= FR t2 ->
  (j_op c1 = ">=" \/ j_op c1 = ">") ->
  (forall x y, cmp_op (j_op c1) (exp_sc c1 x y) (PFloat t2) = true ->
               exists f, exp_sc c1 x y = PFloat f /\ fin f) ->
  laxer c1 c2.
Proof.
  intros E1 E2 F1 F2 Hle Hop Hfin x y. rewrite E1, E2. intros Hc.
  destruct (Hfin x y Hc) as [f [Ef Ff]]. rewrite Ef in *. destruct Hop as [Eo|Eo]; rewrite Eo in *.
  - apply (cmp_ge_ff f t1 Ff F1). apply (cmp_ge_ff f t2 Ff F2) in Hc. lra.
  - apply (cmp_gt_ff f t1 Ff F1). apply (cmp_gt_ff f t2 Ff F2) in Hc. lra.
Qed.

Print Assumptions round4_idem.
Print Assumptions round_agrees_jcd.
Print Assumptions laxer_float.
