(* Code-level RELATIONAL property theorems, part 0: what the spec-level laws (Laws*.v) need about ONE call of a
   GENERATED set-similarity wrapper, and the shapes in which results of SEVERAL calls are related.

   (i)   ModelScores.api_join_typed_scores / model_call under the WEAK validity of CodeLevelTight.v
         (valid_join_case_weak: no hypothesis on the cpu count, on the number of left rows, no size_bound
         outside J/C/D) -- the side conditions typed_scores / wf_scores of the laws are facts about the model's
         rows;
   (ii)  the key-level view of the rows of the returned frame IS a permutation of what api_join returns
         (`code_kview_perm`), so these facts hold of the code's view too (`code_call_facts`): they are not
         re-proved for the code;
   (iii) `code_view c kz lhs`: the key-level view computed FROM the returned frame (drop the _id cell of every
         row, then kview); `call_facts jc (code_view c kz lhs)` is the shape every relational theorem consumes. *)
From Coq Require Import ZArith Bool List String Lia Permutation SpecFloat.
From SSJ Require Import F64 PyNum FilterUtilsGen HelperGen TokenOrderingGen ValidationGen IndexGen JoinGen
     TokenOrdering Measures Filters Joins Api JoinSpec MetaSpec Projection ProjSpec IndexPyFacts ProjectionFacts
     JoinGenFacts JoinGenLoop JoinRefine JoinRefineProj SplitFacts Frame WrapperGen FilterWrapperGen
     WrapperRefineFrame WrapperRefineMissing WrapperRefineCore WrapperRefineChunks WrapperRefine WrapperRefineClosed
     WrapperRefineApi WrapperRefineEnd WrapperBody WrapperApiLink WrapperEnd
     OrderingFacts OverlapFacts OverlapMeasure ValidationFacts SetBridge SetPair CoreLiftBase CoreLift ApiLift
     ApiJoinBase ApiJoinPairs ApiJoinSpec PartitionInst LawsBase LawsScore LawsSpec Laws ModelScores
     CodeLevelBase CodeLevelJoins CodeLevelJoins2 CodeLevelTight.
Import ListNotations.
Open Scope string_scope.
Open Scope list_scope.
Open Scope Z_scope.

(* ------------------------------------------------------------------ (i) the model under weak validity *)
Lemma weak_set_case c : valid_join_case_weak c -> set_case c = true.
Proof.
  intros (_ & m & He & Hp & _). unfold set_case. rewrite He. exact (params_set_measure c m Hp).
Qed.

Lemma weak_keys c : valid_join_case_weak c ->
  NoDup (map (@fst Z _) (j_L c)) /\ NoDup (map (@fst Z _) (j_R c)).
Proof. intros (_ & m & _ & _ & HkL & HkR & _). split; assumption. Qed.

Lemma weak_pf_verdicts c m : lower_op (j_op c) -> j_entry c = EJoin m -> join_params_ok c m ->
  tables_ok_weak c m -> pf_verdicts c m.
Proof.
  intros Hop He Hp (HkL & HkR & Hrows & Hlen) Rc l r Hinc Hl Hr.
  assert (Hrow : (NoDup (toks_of l) /\ (is_jcd m = true -> len (toks_of l) < size_bound)) /\
                 (NoDup (toks_of r) /\ (is_jcd m = true -> len (toks_of r) < size_bound))).
  { pose proof (Hinc r Hr) as Hr'. apply filter_In in Hl. apply filter_In in Hr'.
    split; apply Hrows; tauto. }
  destruct Hrow as [[Hndl Hll] [Hndr Hlr]].
  destruct Hp as [[Hm (t & Ht & Henv)] | [[-> (_ & T & Ht & HT)] | [-> Hpos]]].
  - rewrite (core_pf_jcd c m _ _ _ He Hm). cbn [rowval snd].
    apply (verdict_jcd c m t); try assumption; auto.
    + apply toks_incl_all_l. exact Hl.
    + apply toks_incl_all_r. exact Hr.
  - rewrite (core_pf_overlap c _ _ _ He). cbn [rowval snd]. eexists. split; [reflexivity|].
    apply (verdict_overlap c T); assumption.
  - rewrite (core_pf_ovc c _ _ _ He). cbn [rowval snd]. eexists. split; [reflexivity|].
    apply verdict_ovc; assumption.
Qed.

Theorem api_join_typed_scores_weak : forall c out,
  valid_join_case_weak c -> api_join c = Some out -> typed_scores c out = true.
Proof.
  intros c out Hv Hout. pose proof (weak_set_case c Hv) as Hset.
  destruct Hv as (Hop & m & He & Hp & Htab).
  pose proof (weak_pf_verdicts c m Hop He Hp Htab) as Hpf.
  destruct Htab as (HkL & HkR & _ & HlenR).
  destruct (hpart_bounded row (j_njobs c) (j_cpus c) (filter present (j_R c)) HlenR) as [chs [Hchs Hcat]].
  rewrite api_join_eq, Hchs in Hout.
  destruct (opt_concat _) as [rows|] eqn:Hrows; [|discriminate].
  simpl in Hout. injection Hout as <-.
  unfold typed_scores. apply forallb_forall. intros [[lk rk] s] Ho. cbn [snd].
  apply g_out_In in Ho. destruct Ho as [[s0 [Ho Hs]]|[_ Ho]].
  - destruct (j_with_score c); [|rewrite Hs; reflexivity]. subst s.
    apply (chunks_rows_In _ _ _ _ Hrows) in Ho.
    destruct Ho as [ch [l [r [lst [Hch [Hl [Hr [_ [_ [E Hin]]]]]]]]]].
    destruct (Hpf (snd ch) l r (g_chunk_incl c chs Hcat ch Hch) Hl Hr) as [lst' [E' [_ [Hsnd _]]]].
    assert (lst' = lst) by congruence. subst lst'. specialize (Hsnd s0 Hin).
    rewrite (int_case_join c m He).
    destruct ((len (toks_of l) =? 0) && (len (toks_of r) =? 0)).
    + destruct Hsnd as [_ [Hmo ->]]. rewrite Hmo. reflexivity.
    + destruct Hsnd as [Hcmp [-> _]].
      pose proof (exp_sc_shape c (toks_of l) (toks_of r) Hset) as S.
      unfold exp_sc in S. rewrite He, (int_case_join c m He) in S.
      destruct (String.eqb m "OVERLAP").
      * rewrite S. reflexivity.
      * destruct S as [[f ->]|[e Ee]]; [reflexivity|].
        rewrite Ee, (cmp_exc_false _ _ _ Hop) in Hcmp. discriminate.
  - destruct (missing_key _ _ _ Ho) as [l [r [_ [_ [Eo _]]]]]. injection Eo as _ _ ->. reflexivity.
Qed.

(* everything the laws need about one call (ModelScores.model_call_facts), under weak validity *)
Theorem model_call_weak : forall c out,
  valid_join_case_weak c -> api_join c = Some out -> model_call_facts c out.
Proof.
  intros c out Hv Ho.
  destruct (proj2 (api_join_set_joins_weak c Hv) out Ho) as (H1 & H2 & H3 & H4).
  pose proof (api_join_typed_scores_weak c out Hv Ho) as H5.
  pose proof (typed_wf c out H5) as H6.
  repeat split; assumption.
Qed.

(* ------------------------------------------------------------------ (ii) the code's view and the model's rows *)
Lemma typed_scores_perm c a b : Permutation a b -> typed_scores c a = typed_scores c b.
Proof. intros P. unfold typed_scores. apply CodeLevelBase.forallb_perm. exact P. Qed.
Lemma wf_scores_perm c a b : Permutation a b -> wf_scores c a = wf_scores c b.
Proof. intros P. unfold wf_scores. f_equal. apply CodeLevelBase.forallb_perm. exact P. Qed.

Lemma model_call_facts_invariant c : perm_invariant (model_call_facts c).
Proof.
  intros a b P (H1 & H2 & H3 & H4 & H5 & H6).
  rewrite (complete_spec_perm c a b P) in H1. rewrite (sound_spec_perm c a b P) in H2.
  rewrite (missing_spec_perm c a b P) in H3. rewrite (empty_spec_perm c a b P) in H4.
  rewrite (typed_scores_perm c a b P) in H5. rewrite (wf_scores_perm c a b P) in H6.
  repeat split; assumption.
Qed.

Section KviewPerm.
  Variables (c : pcase) (am : bool) (lsrc rsrc : list (list pyval)).
  Variables (toks str : pyval -> list Z) (kz : pyval -> Z).
  Variable jc : jcase.
  Hypothesis Hjs : j_with_score jc = p_score c.
  Hypothesis Hse : scored_entry jc.

  (* the rows of the returned frame, viewed at key level, are a permutation of the model's rows *)
  Theorem code_kview_perm lhs :
    end_to_end_flat c am lsrc rsrc toks str kz jc lhs ->
    (forall out, api_join jc = Some out -> sound_spec jc out = true) ->
    exists (rows : list (list pyval)) (out : list Api.out_row),
      lhs = sframe (header_spec c) (numbered rows) /\ api_join jc = Some out /\
      Permutation out (map (kview c kz) rows).
  Proof using Hjs Hse.
    intros He Hs. destruct (flat_code_obs c am lsrc rsrc toks str kz jc lhs He) as (main & out & E1 & E2 & Pm).
    exists (main ++ mv_part c am lsrc rsrc), out. split; [exact E1|]. split; [exact E2|].
    rewrite (code_obs_kview c am lsrc rsrc kz jc Hjs Hse main); [exact Pm|].
    rewrite <- (sound_spec_perm jc out _ Pm). exact (Hs out E2).
  Qed.
End KviewPerm.

(* ------------------------------------------------------------------ (iii) the view computed from the frame *)
Definition frame_rows_of (v : pyval) : list (list pyval) :=
  match v with
  | PTuple [PList rows; _] => map (fun r => match r with PList cells => cells | _ => [] end) rows
  | _ => []
  end.
(* the key-level view of a returned frame: every row without its leading _id cell, through kview *)
Definition code_view (c : pcase) (kz : pyval -> Z) (lhs : pyval) : list Api.out_row :=
  map (kview c kz) (map (@tl pyval) (frame_rows_of lhs)).
(* the _id column of a returned frame *)
Definition code_ids (lhs : pyval) : list Z := map id_of (frame_rows_of lhs).

Lemma frame_rows_sframe hdr rows : frame_rows_of (sframe hdr rows) = rows.
Proof.
  unfold sframe, frame_val, frame_rows_of. cbn [fr_rows fr_cols]. rewrite map_map.
  induction rows as [|r rows IH]; [reflexivity|]. cbn [map]. now rewrite IH.
Qed.
Lemma code_view_sframe c kz hdr rows : code_view c kz (sframe hdr (numbered rows)) = map (kview c kz) rows.
Proof. unfold code_view. now rewrite frame_rows_sframe, numbered_tl. Qed.
Lemma code_ids_sframe hdr rows : ids_ok (code_ids (sframe hdr (numbered rows))) = true.
Proof. unfold code_ids. rewrite frame_rows_sframe. apply numbered_ids_ok. Qed.

(* the view depends on the projection case only through the score flag *)
Lemma kview_score_ext c c' kz : p_score c' = p_score c -> forall r, kview c' kz r = kview c kz r.
Proof. intros E r. unfold kview. now rewrite E. Qed.
Lemma code_view_score_ext c c' kz lhs : p_score c' = p_score c -> code_view c' kz lhs = code_view c kz lhs.
Proof. intros E. unfold code_view. apply map_ext. apply kview_score_ext. exact E. Qed.

(* what ONE call of a generated wrapper gives to the relational laws: a well-numbered frame whose header is
   header_spec, whose key-level view has the six facts of ModelScores.model_call_facts *)
Definition call_facts (c : pcase) (kz : pyval -> Z) (jc : jcase) (lhs : pyval) : Prop :=
  (exists rows, lhs = sframe (header_spec c) (numbered rows)) /\
  ids_ok (code_ids lhs) = true /\
  model_call_facts jc (code_view c kz lhs).

(* ... and additionally the model's rows themselves, up to order *)
Definition call_model (c : pcase) (kz : pyval -> Z) (jc : jcase) (lhs : pyval) : Prop :=
  exists out, api_join jc = Some out /\ Permutation out (code_view c kz lhs).

Section CallFacts.
  Variables (c : pcase) (am : bool) (lsrc rsrc : list (list pyval)).
  Variables (toks : pyval -> list Z) (kz : pyval -> Z).
  Variable jc : jcase.
  Hypothesis Hjs : j_with_score jc = p_score c.

  Theorem code_call_facts lhs :
    match j_entry jc with EJoin _ => True | _ => False end ->
    end_to_end_flat c am lsrc rsrc toks (fun _ => []) kz jc lhs ->
    valid_join_case_weak jc ->
    call_facts c kz jc lhs /\ call_model c kz jc lhs.
  Proof using Hjs.
    intros Hent HA Hv.
    assert (Hse : scored_entry jc).
    { unfold scored_entry. destruct (j_entry jc); [exact I | destruct Hent | exact I]. }
    destruct (code_kview_perm c am lsrc rsrc toks (fun _ => []) kz jc Hjs Hse lhs HA) as (rows & out & E1 & E2 & Pm).
    { intros out Ho. exact (proj1 (proj2 (proj2 (api_join_set_joins_weak jc Hv) out Ho))). }
    subst lhs. split; [split; [|split]|].
    - exists rows. reflexivity.
    - apply code_ids_sframe.
    - rewrite code_view_sframe.
      exact (model_call_facts_invariant jc out _ Pm (model_call_weak jc out Hv E2)).
    - exists out. split; [exact E2|]. rewrite code_view_sframe. exact Pm.
  Qed.
End CallFacts.

(* ------------------------------------------------------------------ the validity of the five set joins, from the
   hypotheses of the tight code-level theorems (CodeLevelTight.v), as ONE proposition per wrapper *)
Section JcdCall.
  Variables (c : pcase) (p : fparams) (op : string) (ae am : bool) (njobs cpus : Z).
  Variables (lsrc rsrc : list (list pyval)) (showp : pyval).
  Variables (tokenize : pyval -> pyval) (sim_fn : pyval -> pyval -> pyval).
  Variables (toks : pyval -> list Z) (cf : pyval -> pyval -> pyval) (kz : pyval -> Z).

  (* the hypotheses of C01_C02_code_{jaccard,cosine,dice}_tight about one call *)
  Definition jcd_call_hyps : Prop :=
    jcd_e2e_hyps c p op lsrc rsrc tokenize toks cf /\
    Z.of_nat (List.length (rpresent c rsrc)) < 2^31 /\
    (forall x y, sim_fn (pints x) (pints y) = PFloat (sim_tok (fm p) x y)) /\
    (exists t, ft p = PFloat t /\ env_t t = true) /\
    keys_unique c kz lsrc rsrc /\ set_cells c toks lsrc rsrc.

  (* the generated wrapper of the measure fm p *)
  Definition jcd_wrapper_call : pyval :=
    if String.eqb (fm p) "JACCARD" then jcd_call c p op ae am njobs cpus lsrc rsrc showp tokenize sim_fn jaccard_join_rows
    else if String.eqb (fm p) "COSINE" then jcd_call c p op ae am njobs cpus lsrc rsrc showp tokenize sim_fn cosine_join_rows
    else jcd_call c p op ae am njobs cpus lsrc rsrc showp tokenize sim_fn dice_join_rows.

  Hypothesis H : jcd_call_hyps.

  Lemma jcd_call_valid : valid_join_case_weak (jcd_jcase c p op ae am njobs cpus lsrc rsrc toks kz).
  Proof using H.
    destruct H as (He2e & Hn & Hsim & Hthr & Hkeys & Hset).
    exact (tight_jcd_valid c p op ae am njobs cpus lsrc rsrc tokenize toks cf kz He2e Hn Hthr Hkeys Hset).
  Qed.

  Lemma jcd_call_flat :
    end_to_end_flat c am lsrc rsrc toks (fun _ => []) kz (jcd_jcase c p op ae am njobs cpus lsrc rsrc toks kz)
      jcd_wrapper_call.
  Proof using H.
    destruct H as (He2e & Hn & Hsim & Hthr & Hkeys & Hset).
    assert (Hnum : num_of (ft p) <> None) by (destruct Hthr as (t & Et & _); rewrite Et; discriminate).
    pose proof He2e as (Hwf & Hl & Hr & HtL & HtR & Hm & Hvt & Hvop & Hvout & Hop & Hid).
    assert (Hcore : forall ch, In ch (wchunks c njobs cpus rsrc
               (split_bs (kjobs c njobs cpus rsrc) (Z.of_nat (List.length (rpresent c rsrc))))) ->
               core_hyps c p ae lsrc sim_fn toks ch).
    { intros ch Hin. apply (tight_jcd_core c p op ae lsrc rsrc tokenize sim_fn toks cf He2e Hsim Hthr Hset).
      exact (wchunks_in c njobs cpus rsrc _ ch Hin). }
    unfold jcd_wrapper_call. pose proof Hm as Hm'. destruct Hm' as [Hm' | [Hm' | Hm']]; rewrite Hm' at 1;
      cbn [String.eqb Ascii.eqb Bool.eqb andb]; try (rewrite Hm' at 1; cbn [String.eqb Ascii.eqb Bool.eqb andb]); apply e2e_flat.
    - apply (jaccard_join_rows_end_to_end c p op ae am njobs cpus lsrc rsrc showp tokenize sim_fn toks cf kz);
        assumption.
    - apply (cosine_join_rows_end_to_end c p op ae am njobs cpus lsrc rsrc showp tokenize sim_fn toks cf kz);
        assumption.
    - apply (dice_join_rows_end_to_end c p op ae am njobs cpus lsrc rsrc showp tokenize sim_fn toks cf kz);
        assumption.
  Qed.

  Theorem jcd_call_facts :
    call_facts c kz (jcd_jcase c p op ae am njobs cpus lsrc rsrc toks kz) jcd_wrapper_call /\
    call_model c kz (jcd_jcase c p op ae am njobs cpus lsrc rsrc toks kz) jcd_wrapper_call.
  Proof using H.
    apply (code_call_facts c am lsrc rsrc toks kz (jcd_jcase c p op ae am njobs cpus lsrc rsrc toks kz) eq_refl);
      [exact I | exact jcd_call_flat | exact jcd_call_valid].
  Qed.
End JcdCall.

Print Assumptions api_join_typed_scores_weak.
Print Assumptions model_call_weak.
Print Assumptions code_kview_perm.
Print Assumptions code_call_facts.
Print Assumptions jcd_call_facts.
