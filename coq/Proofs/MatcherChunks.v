(* n_jobs independence of apply_matcher and filter_candset (C10) WITHOUT a partition hypothesis:
   the bounded chunk-partition fact `hpart_bounded` (Proofs/PartitionInst.v) replaces the
   unbounded Section hypothesis of Proofs/MatcherFacts.v; the price is a premise bounding the
   number of candidate rows by 2^31.  The `_h` theorems take the bounded partition fact as a
   premise and are axiom-free; the `_b` theorems instantiate it (and inherit the real-number
   axioms of the float arithmetic in split_table).                                          *)
From Coq Require Import ZArith Bool List String Lia.
From SSJ Require Import F64 PyNum HelperGen Filters Joins Api Matcher MatcherFacts
                        SplitArith SplitFacts PartitionInst.
Import ListNotations.
Open Scope string_scope.
Open Scope list_scope.
Open Scope Z_scope.

(* the shape of `hpart_bounded` *)
Definition hpart_b : Prop :=
  forall (A : Type) (njobs cpus : Z) (Rp : list A),
    Z.of_nat (List.length Rp) < 2^31 ->
    exists chs, chunks_of njobs cpus Rp = Some chs /\ List.concat (map snd chs) = Rp.

Theorem apply_matcher_njobs_h : hpart_b ->
  forall sim t op am ws L R njobs cpus cand,
  Z.of_nat (List.length cand) < 2^31 ->
  apply_matcher_model sim t op am ws L R njobs cpus cand = Some (matcher_split sim t op am ws L R cand).
Proof.
  intros Hp sim t op am ws L R njobs cpus cand Hlen. unfold apply_matcher_model.
  destruct cand as [|c0 cand']; [reflexivity|].
  destruct (Hp crow njobs cpus (c0 :: cand') Hlen) as [chs [E Hc]]. rewrite E. f_equal.
  rewrite (flat_map_concat_chunks (matcher_split sim t op am ws L R) chs
             (matcher_split_app sim t op am ws L R) eq_refl), Hc.
  reflexivity.
Qed.

Theorem filter_candset_njobs_h : hpart_b ->
  forall dropped njobs cpus cand,
  Z.of_nat (List.length cand) < 2^31 ->
  filter_candset_model dropped njobs cpus cand = Some (candset_split dropped cand).
Proof.
  intros Hp dropped njobs cpus cand Hlen. unfold filter_candset_model.
  destruct cand as [|c0 cand']; [reflexivity|].
  destruct (Hp _ njobs cpus (c0 :: cand') Hlen) as [chs [E Hc]]. rewrite E. f_equal.
  rewrite (flat_map_concat_chunks (candset_split dropped) chs (candset_split_app dropped) eq_refl), Hc.
  reflexivity.
Qed.

(* ------------------------------------------------------------------ closed forms *)
Theorem apply_matcher_njobs_b : forall sim t op am ws L R njobs cpus cand,
  Z.of_nat (List.length cand) < 2^31 ->
  apply_matcher_model sim t op am ws L R njobs cpus cand = Some (matcher_split sim t op am ws L R cand).
Proof. exact (apply_matcher_njobs_h hpart_bounded). Qed.

Corollary apply_matcher_njobs_indep_b : forall sim t op am ws L R n1 c1 n2 c2 cand,
  Z.of_nat (List.length cand) < 2^31 ->
  apply_matcher_model sim t op am ws L R n1 c1 cand = apply_matcher_model sim t op am ws L R n2 c2 cand.
Proof. intros. rewrite !apply_matcher_njobs_b by assumption. reflexivity. Qed.

(* C05/C06 combined with C10: for every n_jobs the result is the candidate set filtered, in order *)
Corollary apply_matcher_rows_b : forall sim t op am ws L R njobs cpus cand,
  Z.of_nat (List.length cand) < 2^31 ->
  apply_matcher_model sim t op am ws L R njobs cpus cand =
  Some (map (out sim ws L R) (filter (keep sim t op am L R) cand)).
Proof. intros. rewrite apply_matcher_njobs_b by assumption. rewrite matcher_rows. reflexivity. Qed.

Theorem filter_candset_njobs_b : forall dropped njobs cpus cand,
  Z.of_nat (List.length cand) < 2^31 ->
  filter_candset_model dropped njobs cpus cand = Some (candset_split dropped cand).
Proof. exact (filter_candset_njobs_h hpart_bounded). Qed.

Corollary filter_candset_njobs_indep_b : forall dropped n1 c1 n2 c2 cand,
  Z.of_nat (List.length cand) < 2^31 ->
  filter_candset_model dropped n1 c1 cand = filter_candset_model dropped n2 c2 cand.
Proof. intros. rewrite !filter_candset_njobs_b by assumption. reflexivity. Qed.

Example apply_matcher_chunks_ex :
  let L := [(1, Some 10); (2, None); (3, Some 30)] in
  let R := [(7, Some 10); (8, Some 30)] in
  let sim := fun a b => PInt (a + b) in
  let cand := [(PInt 0, 1, 7); (PInt 1, 2, 7); (PInt 2, 3, 8); (PInt 3, 1, 8)] in
  apply_matcher_model sim (PInt 40) ">=" true true L R 3 4 cand =
  Some (matcher_split sim (PInt 40) ">=" true true L R cand) /\
  filter_candset_model (fun a b => a <? b) 2 4 [(0%nat, 1, 2); (1%nat, 5, 2); (2%nat, 3, 3)]
  = Some [1%nat; 2%nat].
Proof. vm_compute. split; reflexivity. Qed.

Print Assumptions apply_matcher_njobs_h.
Print Assumptions filter_candset_njobs_h.
Print Assumptions apply_matcher_njobs_b.
Print Assumptions apply_matcher_njobs_indep_b.
Print Assumptions apply_matcher_rows_b.
Print Assumptions filter_candset_njobs_b.
Print Assumptions filter_candset_njobs_indep_b.
