(* Soundness of the two skeleton checkers: if `flag_safe sk` then, for EVERY oracle (which
   validations raise, which WORK statements raise, which early returns fire) and every initial flag, a run of sk ends --
   by return, by raise, or by falling off the end -- with the tokenizer flag it started with;
   if `validations_first sk` then a run that raises has done no work.  Plus the generic
   consequence: calls that hand the flag back behave in any sequence as they do in isolation. *)
From Coq Require Import Bool List String Arith Lia.
From SSJ Require Import SkeletonLang.
Import ListNotations.

(* relation between the abstract state and a concrete one, f0 = flag at entry *)
Definition Rel (f0 : bool) (a : astate) (st : cstate) : Prop :=
  match a with
  | AClean => flag st = f0
  | AFlipped b => (saved st = true /\ flag st = b /\ f0 = negb b) \/
                  (saved st = false /\ flag st = f0 /\ f0 = b)
  end.

Lemma check_ev_sound o n f0 a a' st e :
  check_ev a e = Some a' -> Rel f0 a st ->
  let '(s, st') := run_ev o n st e in
  (s = Running -> Rel f0 a' st') /\ (s <> Running -> flag st' = f0).
Proof.
  intros Hc HR. destruct e.
  - (* Validate: only in the clean state *)
    destruct a as [|b']; simpl in Hc; [|discriminate]. injection Hc as <-. simpl.
    destruct (o n); split; intros; try congruence; exact HR.
  - (* Pure *) simpl in Hc. injection Hc as <-. simpl. split; intros; [exact HR|congruence].
  - (* Work: may raise, hence only in the clean state (or inside try/finally, see check_item) *)
    destruct a as [|b']; simpl in Hc; [|discriminate]. injection Hc as <-. simpl.
    destruct (o n); split; intros; try congruence; exact HR.
  - (* FlipTo in clean *)
    destruct a as [|b']; simpl in Hc; [|discriminate]. injection Hc as <-. simpl.
    split; [intros _|congruence]. simpl in HR. unfold Rel.
    destruct (Bool.eqb (flag st) b) eqn:E; simpl.
    + right. apply eqb_prop in E. repeat split; congruence.
    + left. apply eqb_false_iff in E. repeat split; try reflexivity.
      destruct (flag st), b, f0; simpl in *; congruence.
  - (* Restore in flipped *)
    destruct a as [|b']; simpl in Hc; [discriminate|].
    destruct (Bool.eqb b (negb b')) eqn:E; [|discriminate]. injection Hc as <-.
    apply eqb_prop in E. simpl. split; [intros _|congruence]. simpl.
    destruct HR as [[Hs [Hf H0]]|[Hs [Hf H0]]]; rewrite Hs; simpl; congruence.
  - (* EarlyRet clean *)
    destruct a as [|b']; simpl in Hc; [|discriminate]. injection Hc as <-. simpl.
    destruct (o n); split; intros; try congruence; exact HR.
  - (* Ret clean *)
    destruct a as [|b']; simpl in Hc; [|discriminate]. injection Hc as <-. simpl.
    split; intros; [congruence|exact HR].
  - (* Begin *) simpl in Hc. injection Hc as <-. simpl. split; intros; [exact HR|congruence].
  - (* End *) simpl in Hc. injection Hc as <-. simpl. split; intros; [exact HR|congruence].
Qed.

(* neutral events never touch the flag or the saved variable *)
Lemma neutral_run_ev o n st e :
  neutral e = true -> flag (snd (run_ev o n st e)) = flag st /\ saved (snd (run_ev o n st e)) = saved st.
Proof. destruct e; simpl; intros H; try discriminate; try destruct (o n); split; reflexivity. Qed.

Lemma neutral_run_evs o : forall l n st,
  forallb neutral l = true ->
  let '(s, st', n') := run_evs o n st l in flag st' = flag st /\ saved st' = saved st.
Proof.
  induction l as [|e l IH]; intros n st H; simpl; [split; reflexivity|].
  simpl in H. apply andb_prop in H. destruct H as [He Hl].
  pose proof (neutral_run_ev o n st e He) as [Hf Hs].
  destruct (run_ev o n st e) as [s st'] eqn:E. simpl in Hf, Hs.
  destruct s.
  - specialize (IH (S n) st' Hl). destruct (run_evs o (S n) st' l) as [[s2 st2] n2].
    destruct IH; split; congruence.
  - split; assumption.
  - split; assumption.
Qed.

Lemma check_item_sound o n f0 a a' st i :
  check_item a i = Some a' -> Rel f0 a st ->
  let '(s, st', n') := run_item o n st i in
  (s = Running -> Rel f0 a' st') /\ (s <> Running -> flag st' = f0).
Proof.
  intros Hc HR. destruct i as [e|body fin].
  - simpl in Hc. pose proof (check_ev_sound o n f0 a a' st e Hc HR) as H. simpl.
    destruct (run_ev o n st e) as [s st']. exact H.
  - simpl in Hc. destruct a as [|b']; [discriminate|].
    destruct fin as [|r fin']; [discriminate|]. destruct r; try discriminate.
    destruct fin'; [|discriminate].
    destruct (forallb neutral body && Bool.eqb b (negb b')) eqn:E; [|discriminate].
    injection Hc as <-. apply andb_prop in E. destruct E as [Hn Hb]. apply eqb_prop in Hb.
    simpl. pose proof (neutral_run_evs o body n st Hn) as H1.
    destruct (run_evs o n st body) as [[s1 st1] n1]. destruct H1 as [Hf Hs].
    simpl.
    assert (Hfin : flag (if saved st1 then {| flag := b; saved := saved st1; work_done := work_done st1 |} else st1) = f0).
    { destruct HR as [[Hsv [Hfl H0]]|[Hsv [Hfl H0]]].
      - rewrite Hs, Hsv. simpl. congruence.
      - rewrite Hs, Hsv. congruence. }
    destruct s1; (split; [intros _; exact Hfin | intros _; exact Hfin]).
Qed.

Lemma check_from_sound o f0 : forall sk n a a' st,
  check_from a sk = Some a' -> Rel f0 a st ->
  let '(s, st') := run o n st sk in
  (s = Running -> Rel f0 a' st') /\ (s <> Running -> flag st' = f0).
Proof.
  induction sk as [|i sk IH]; intros n a a' st Hc HR; simpl in *.
  - injection Hc as <-. split; [intros _; exact HR|congruence].
  - destruct (check_item a i) as [a1|] eqn:E; [|discriminate].
    pose proof (check_item_sound o n f0 a a1 st i E HR) as H.
    destruct (run_item o n st i) as [[s st1] n1]. destruct H as [H1 H2].
    destruct s.
    + apply (IH n1 a1 a' st1 Hc (H1 eq_refl)).
    + split; [congruence|intros _; apply H2; congruence].
    + split; [congruence|intros _; apply H2; congruence].
Qed.

(* Theorem 1: the flag is handed back on every exit, for every oracle *)
Theorem flag_safe_sound (sk : skeleton) :
  flag_safe sk = true ->
  forall (o : oracle) (f0 s0 : bool) (w0 : nat),
    flag (snd (run o 0 {| flag := f0; saved := s0; work_done := w0 |} sk)) = f0.
Proof.
  unfold flag_safe. intros H o f0 s0 w0.
  destruct (check_from AClean sk) as [a|] eqn:E; [|discriminate]. destruct a; [|discriminate].
  pose proof (check_from_sound o f0 sk 0 AClean AClean
                {| flag := f0; saved := s0; work_done := w0 |} E eq_refl) as H1.
  destruct (run o 0 {| flag := f0; saved := s0; work_done := w0 |} sk) as [s st']. simpl.
  destruct H1 as [H1 H2]. destruct s; [apply H1; reflexivity | apply H2; congruence | apply H2; congruence].
Qed.

(* ---- validations first: a raised run has done no work ---- *)
(* For this statement the run is taken over the flattened event list (try/finally does not
   matter for *where* a validation raises). *)
Fixpoint run_flat (o : oracle) (n : nat) (w : nat) (l : list ev) : status * nat :=
  match l with
  | [] => (Running, w)
  | Validate _ :: l' => if o n then (Raised, w) else run_flat o (S n) w l'
  | Work :: l' => run_flat o (S n) (S w) l'
  | EarlyRet :: l' => if o n then (Returned, w) else run_flat o (S n) w l'
  | Ret :: _ => (Returned, w)
  | _ :: l' => run_flat o (S n) w l'
  end.

Lemma vfirst_sound o : forall l n w,
  vfirst (negb (Nat.eqb w 0)) l = true ->
  fst (run_flat o n w l) = Raised -> snd (run_flat o n w l) = 0.
Proof.
  induction l as [|e l IH]; intros n w Hv Hr; simpl in *; [discriminate|].
  destruct e; simpl in *; try (apply IH; assumption).
  - apply andb_prop in Hv. destruct Hv as [Hw Hv].
    destruct (o n); simpl in *.
    + destruct w; [reflexivity|discriminate].
    + apply IH; assumption.
  - destruct (o n); simpl in *; [discriminate|apply IH; assumption].
  - discriminate.
Qed.

Theorem validations_first_sound (sk : skeleton) :
  validations_first sk = true ->
  forall o, fst (run_flat o 0 0 (flat_map evs_of sk)) = Raised ->
            snd (run_flat o 0 0 (flat_map evs_of sk)) = 0.
Proof. intros H o. apply vfirst_sound. exact H. Qed.

(* ---- history independence ---- *)
(* An API call, as far as the shared tokenizer is concerned, maps the flag at entry to a
   result and the flag at exit. *)
Section History.
  Variable Res : Type.
  Definition call := bool -> Res * bool.
  Definition preserves (c : call) : Prop := forall f, snd (c f) = f.

  Fixpoint run_seq (cs : list call) (f : bool) : list Res * bool :=
    match cs with
    | [] => ([], f)
    | c :: cs' => let (r, f') := c f in let (rs, f'') := run_seq cs' f' in (r :: rs, f'')
    end.

  Theorem history_independent (cs : list call) :
    Forall preserves cs ->
    forall f, run_seq cs f = (map (fun c => fst (c f)) cs, f).
  Proof.
    induction 1 as [|c cs Hc _ IH]; intros f; simpl; [reflexivity|].
    specialize (Hc f). destruct (c f) as [r f'] eqn:E. simpl in Hc. subst f'.
    rewrite IH. reflexivity.
  Qed.
End History.
