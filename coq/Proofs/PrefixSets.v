(* The prefix-filter principle for SETS (strictly sorted lists), stated with `hits`:
   if the two prefixes share no value, the overlap is at most max(|suffix X|, |suffix Y|). *)
From Coq Require Import ZArith Bool List Lia Sorted.
From SSJ Require Import Prefix PositionSafe.
Import ListNotations.
Open Scope Z_scope.

Lemma hits_zero_disjoint X Y : hits X Y = 0%nat -> forall v, In v Y -> In v X -> False.
Proof.
  unfold hits. intros H v HY HX.
  assert (Hin : In v (filter (fun y => mem y X) Y)).
  { apply filter_In. split; [exact HY|]. apply mem_In. exact HX. }
  destruct (filter (fun y => mem y X) Y); [destruct Hin | discriminate].
Qed.

Lemma ssorted_last_max P : forall S, P <> [] -> StronglySorted Z.lt (P ++ S) ->
  In (last P 0) P /\ (forall v, In v P -> v <= last P 0) /\ (forall v, In v S -> last P 0 < v).
Proof.
  intros S Hne Hs. destruct (exists_last Hne) as [l [a E]]. subst P. rewrite last_last.
  split; [apply in_or_app; right; left; reflexivity|]. split.
  - intros v Hv. apply in_app_or in Hv. destruct Hv as [Hv|[->|[]]]; [|lia].
    rewrite <- app_assoc in Hs. simpl in Hs.
    assert (v < a) by (eapply (ssorted_app_lt l); [exact Hs|exact Hv|left; reflexivity]). lia.
  - intros v Hv. eapply (ssorted_app_lt (l ++ [a])); [exact Hs| |exact Hv].
    apply in_or_app; right; left; reflexivity.
Qed.

Theorem prefix_hits PX SX PY SY :
  StronglySorted Z.lt (PX ++ SX) -> StronglySorted Z.lt (PY ++ SY) ->
  PX <> [] -> PY <> [] -> hits PX PY = 0%nat ->
  (hits (PX ++ SX) (PY ++ SY) <= Nat.max (length SX) (length SY))%nat.
Proof.
  intros HsX HsY HnX HnY Hz.
  pose proof (hits_zero_disjoint PX PY Hz) as Hdisj.
  destruct (ssorted_last_max PX SX HnX HsX) as [HlX [HmaxX HgtX]].
  destruct (ssorted_last_max PY SY HnY HsY) as [HlY [HmaxY HgtY]].
  set (lx := last PX 0) in *. set (ly := last PY 0) in *.
  destruct (Z_le_gt_dec lx ly) as [Hle|Hgt].
  - (* no element of PX occurs in Y: every hit lies in SX *)
    assert (H : (hits (PX ++ SX) (PY ++ SY) <= length SX)%nat).
    { apply hits_bound_incl; [apply ssorted_nodup; exact HsY|].
      intros y HyY HyX. apply in_app_or in HyX. destruct HyX as [HyP|HyS]; [|exact HyS].
      exfalso. apply in_app_or in HyY. destruct HyY as [HyPY|HySY].
      - exact (Hdisj y HyPY HyP).
      - specialize (HgtY y HySY). specialize (HmaxX y HyP). lia. }
    lia.
  - (* no element of PY occurs in X *)
    rewrite hits_app.
    assert (H0 : hits (PX ++ SX) PY = 0%nat).
    { apply hits_none. intros v Hv Hin. apply in_app_or in Hin. destruct Hin as [HP|HS].
      - exact (Hdisj v Hv HP).
      - specialize (HgtX v HS). specialize (HmaxY v Hv). lia. }
    pose proof (hits_le (PX ++ SX) SY). lia.
Qed.
