(* The three GENERATED _filter_tables_split functions (Gen/JoinGen.v) refine
   Joins.filter_tables_core: summary + concrete instances.
     size_filter_tables_split_rows_refines      (SplitRefineFilterSize.v)      KSize
     prefix_filter_tables_split_rows_refines    (SplitRefineFilterPrefix.v)    KPrefix
     position_filter_tables_split_rows_refines  (SplitRefineFilterPosition.v)  KPosition
   Each: under the row / tokenizer / formulas_ok hypotheses there are T and rows with
     filter_tables_core K p allow_empty L R = Some T,
     <generated function> ... = PTuple [PList (map PList rows); PList hdr],
     Permutation rows (map (triple_row false lrows rrows ki kj li ri) T)      (no score column).
   Below every hypothesis is discharged by computation on one instance (JACCARD, threshold 0.5,
   allow_empty, output attributes on both sides).  Axiom-free.                           *)
From Coq Require Import ZArith Bool List String Lia Permutation.
From SSJ Require Import F64 PyNum FilterUtilsGen HelperGen TokenOrderingGen ValidationGen IndexGen JoinGen
     TokenOrdering Measures Filters Joins Projection ProjSpec ProjectionFacts OrderingFacts OrderingGenFacts
     IndexPyFacts IndexBuildFacts IndexProbeFacts IndexRefine IndexInverted IndexPrefix IndexSize IndexGlue
     JoinGenFacts JoinGenLoop JoinRefine SplitRefineBase SplitRefineFilterBase
     SplitRefineFilterSize SplitRefineFilterPrefix SplitRefineFilterPosition.
Import ListNotations.
Open Scope Z_scope.

Definition fx_p : fparams := {| fm := "JACCARD"; ft := PFloat (mkF 1 (-1)); fq := 0 |}.
Definition fx_lrows : list (list pyval) :=
  [[PInt 1; PStr "a b"]; [PInt 2; PStr "b c"]; [PInt 3; PStr ""]; [PInt 4; PStr "a b c"]].
Definition fx_rrows : list (list pyval) := [[PInt 5; PStr "b"]; [PInt 6; PStr "a b c"]; [PInt 7; PStr ""]].
Definition fx_lcols : pyval := PList [PStr "id"; PStr "s"].
Definition fx_rcols : pyval := PList [PStr "rid"; PStr "t"].
Definition fx_tk (r : list pyval) : list Z := sx_toks (nth 1 r PNone).
Definition fx_hdr : list pyval := [PStr "l_id"; PStr "r_rid"; PStr "l_s"; PStr "r_t"].

(* the four formulas are total on probes of fewer than 4 tokens *)
Lemma fx_formulas : formulas_ok fx_p 4.
Proof.
  intros n Hn. assert (En : n = 0 \/ n = 1 \/ n = 2 \/ n = 3) by lia.
  destruct En as [-> | [-> | [-> | ->]]].
  - exists 0, 0, 0. repeat (split; [vm_compute; reflexivity|]).
    intros s H0 Hs. assert (Es : s = 0) by lia. subst s. vm_compute. discriminate.
  - exists 1, 2, 1. repeat (split; [vm_compute; reflexivity|]).
    intros s H0 Hs. assert (Es : s = 1 \/ s = 2) by lia.
    destruct Es as [-> | ->]; vm_compute; discriminate.
  - exists 1, 4, 2. repeat (split; [vm_compute; reflexivity|]).
    intros s H0 Hs. assert (Es : s = 1 \/ s = 2 \/ s = 3 \/ s = 4) by lia.
    destruct Es as [-> | [-> | [-> | ->]]]; vm_compute; discriminate.
  - exists 2, 6, 2. repeat (split; [vm_compute; reflexivity|]).
    intros s H0 Hs. assert (Es : s = 2 \/ s = 3 \/ s = 4 \/ s = 5 \/ s = 6) by lia.
    destruct Es as [-> | [-> | [-> | [-> | ->]]]]; vm_compute; discriminate.
Qed.

Lemma fx_lrows_ok : forall r, In r fx_lrows -> cols_ok 0 1 [1%nat] r.
Proof.
  intros r Hr. repeat (destruct Hr as [<-|Hr]; [repeat split; try (apply row_okb_sound; reflexivity); cbn; try lia;
                                                   intros n [<-|[]]; cbn; lia|]). destruct Hr.
Qed.
Lemma fx_rrows_ok : forall r, In r fx_rrows -> cols_ok 0 1 [1%nat] r.
Proof.
  intros r Hr. repeat (destruct Hr as [<-|Hr]; [repeat split; try (apply row_okb_sound; reflexivity); cbn; try lia;
                                                   intros n [<-|[]]; cbn; lia|]). destruct Hr.
Qed.
Lemma fx_size_l : forall r, In r fx_lrows -> len (fx_tk r) < 4.
Proof. intros r Hr. repeat (destruct Hr as [<-|Hr]; [vm_compute; reflexivity|]). destruct Hr. Qed.
Lemma fx_size_r : forall r, In r fx_rrows -> len (fx_tk r) < 4.
Proof. intros r Hr. repeat (destruct Hr as [<-|Hr]; [vm_compute; reflexivity|]). destruct Hr. Qed.

Example fx_size_refines :
  exists T rows,
    filter_tables_core KSize fx_p true (map fx_tk fx_lrows) (map fx_tk fx_rrows) = Some T /\
    size_filter_tables_split_rows (PList (map PList fx_lrows)) (PList (map PList fx_rrows)) fx_lcols fx_rcols
      (PStr "id") (PStr "rid") (PStr "s") (PStr "t") (PStr "JACCARD") (ft fx_p) (PBool true)
      (PList [PStr "s"]) (PList [PStr "t"]) (PStr "l_") (PStr "r_") (PBool false) sx_tokenize
    = PTuple [PList (map PList rows); PList fx_hdr] /\
    Permutation rows (map (triple_row false fx_lrows fx_rrows 0 0 [1%nat] [1%nat]) T).
Proof.
  destruct (size_filter_tables_split_rows_refines fx_p true 4 fx_lrows fx_rrows fx_lcols fx_rcols
              (PStr "id") (PStr "rid") (PStr "s") (PStr "t") (PList [PStr "s"]) (PList [PStr "t"])
              (PStr "l_") (PStr "r_") (PBool false) 0 1 0 1 [1%nat] [1%nat] true fx_hdr sx_tokenize fx_tk fx_tk)
    as (T & rows & H1 & H2 & H3 & _); try reflexivity;
    [discriminate | exact fx_lrows_ok | exact fx_rrows_ok | exact fx_formulas | exact fx_size_r |].
  exists T, rows. repeat split; assumption.
Qed.

Example fx_prefix_refines :
  exists T rows,
    filter_tables_core KPrefix fx_p true (map fx_tk fx_lrows) (map fx_tk fx_rrows) = Some T /\
    prefix_filter_tables_split_rows (PList (map PList fx_lrows)) (PList (map PList fx_rrows)) fx_lcols fx_rcols
      (PStr "id") (PStr "rid") (PStr "s") (PStr "t") (PStr "JACCARD") (ft fx_p) (PBool true)
      (PList [PStr "s"]) (PList [PStr "t"]) (PStr "l_") (PStr "r_") (PBool false) (PInt 0) sx_tokenize
    = PTuple [PList (map PList rows); PList fx_hdr] /\
    Permutation rows (map (triple_row false fx_lrows fx_rrows 0 0 [1%nat] [1%nat]) T).
Proof.
  destruct (prefix_filter_tables_split_rows_refines fx_p true 4 fx_lrows fx_rrows fx_lcols fx_rcols
              (PStr "id") (PStr "rid") (PStr "s") (PStr "t") (PList [PStr "s"]) (PList [PStr "t"])
              (PStr "l_") (PStr "r_") (PBool false) 0 1 0 1 [1%nat] [1%nat] true fx_hdr sx_tokenize fx_tk fx_tk)
    as (T & rows & H1 & H2 & H3 & _); try reflexivity;
    [discriminate | exact fx_lrows_ok | exact fx_rrows_ok | exact fx_formulas | exact fx_size_l | exact fx_size_r |].
  exists T, rows. repeat split; assumption.
Qed.

Example fx_position_refines :
  exists T rows,
    filter_tables_core KPosition fx_p true (map fx_tk fx_lrows) (map fx_tk fx_rrows) = Some T /\
    position_filter_tables_split_rows (PList (map PList fx_lrows)) (PList (map PList fx_rrows)) fx_lcols fx_rcols
      (PStr "id") (PStr "rid") (PStr "s") (PStr "t") (PStr "JACCARD") (ft fx_p) (PBool true)
      (PList [PStr "s"]) (PList [PStr "t"]) (PStr "l_") (PStr "r_") (PBool false) (PInt 0) sx_tokenize
    = PTuple [PList (map PList rows); PList fx_hdr] /\
    Permutation rows (map (triple_row false fx_lrows fx_rrows 0 0 [1%nat] [1%nat]) T).
Proof.
  destruct (position_filter_tables_split_rows_refines fx_p true 4 fx_lrows fx_rrows fx_lcols fx_rcols
              (PStr "id") (PStr "rid") (PStr "s") (PStr "t") (PList [PStr "s"]) (PList [PStr "t"])
              (PStr "l_") (PStr "r_") (PBool false) 0 1 0 1 [1%nat] [1%nat] true fx_hdr sx_tokenize fx_tk fx_tk)
    as (T & rows & H1 & H2 & H3 & _); try reflexivity;
    [discriminate | exact fx_lrows_ok | exact fx_rrows_ok | exact fx_formulas | exact fx_size_l | exact fx_size_r |].
  exists T, rows. repeat split; assumption.
Qed.

(* the values: what the generated functions return, and the rows of the model's triples *)
Eval vm_compute in
  size_filter_tables_split_rows (PList (map PList fx_lrows)) (PList (map PList fx_rrows)) fx_lcols fx_rcols
    (PStr "id") (PStr "rid") (PStr "s") (PStr "t") (PStr "JACCARD") (ft fx_p) (PBool true)
    (PList [PStr "s"]) (PList [PStr "t"]) (PStr "l_") (PStr "r_") (PBool false) sx_tokenize.
Eval vm_compute in
  option_map (map (triple_row false fx_lrows fx_rrows 0 0 [1%nat] [1%nat]))
    (filter_tables_core KSize fx_p true (map fx_tk fx_lrows) (map fx_tk fx_rrows)).
Eval vm_compute in
  prefix_filter_tables_split_rows (PList (map PList fx_lrows)) (PList (map PList fx_rrows)) fx_lcols fx_rcols
    (PStr "id") (PStr "rid") (PStr "s") (PStr "t") (PStr "JACCARD") (ft fx_p) (PBool true)
    (PList [PStr "s"]) (PList [PStr "t"]) (PStr "l_") (PStr "r_") (PBool false) (PInt 0) sx_tokenize.
Eval vm_compute in
  option_map (map (triple_row false fx_lrows fx_rrows 0 0 [1%nat] [1%nat]))
    (filter_tables_core KPrefix fx_p true (map fx_tk fx_lrows) (map fx_tk fx_rrows)).
Eval vm_compute in
  position_filter_tables_split_rows (PList (map PList fx_lrows)) (PList (map PList fx_rrows)) fx_lcols fx_rcols
    (PStr "id") (PStr "rid") (PStr "s") (PStr "t") (PStr "JACCARD") (ft fx_p) (PBool true)
    (PList [PStr "s"]) (PList [PStr "t"]) (PStr "l_") (PStr "r_") (PBool false) (PInt 0) sx_tokenize.
Eval vm_compute in
  option_map (map (triple_row false fx_lrows fx_rrows 0 0 [1%nat] [1%nat]))
    (filter_tables_core KPosition fx_p true (map fx_tk fx_lrows) (map fx_tk fx_rrows)).

Print Assumptions size_filter_tables_split_rows_refines.
Print Assumptions prefix_filter_tables_split_rows_refines.
Print Assumptions position_filter_tables_split_rows_refines.
Print Assumptions fx_size_refines.
Print Assumptions fx_prefix_refines.
Print Assumptions fx_position_refines.
