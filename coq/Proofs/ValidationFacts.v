(* Facts about the GENERATED validation.py functions. *)
From Coq Require Import ZArith Bool List String Lia.
From SSJ Require Import F64 PyNum ValidationGen PyFacts.
Import ListNotations.
Open Scope string_scope.
Open Scope Z_scope.

Definition ok := PBool true.
Definition rejected := PExc "AssertionError".

Lemma vt_edit_distance z :
  validate_threshold (PInt z) (PStr "EDIT_DISTANCE") = if z <? 0 then rejected else ok.
Proof.
  unfold validate_threshold. cbn.
  destruct (Z.compare_spec z 0); destruct (Z.ltb_spec z 0); try lia; reflexivity.
Qed.
Lemma vt_overlap z :
  validate_threshold (PInt z) (PStr "OVERLAP") = if z <=? 0 then rejected else ok.
Proof.
  unfold validate_threshold. cbn.
  destruct (Z.compare_spec z 0); destruct (Z.leb_spec z 0); try lia; reflexivity.
Qed.
Lemma vt_unit z m :
  String.eqb m "EDIT_DISTANCE" = false -> String.eqb m "OVERLAP" = false ->
  validate_threshold (PInt z) (PStr m) = if (z <=? 0) || (1 <? z) then rejected else ok.
Proof.
  intros H1 H2. unfold validate_threshold. cbn [py_eq strict2 pv_eqb bindx py_truth].
  rewrite H1, H2. cbn.
  destruct (Z.compare_spec z 0); destruct (Z.leb_spec z 0); try lia; cbn; try reflexivity.
  destruct (Z.compare_spec z 1); destruct (Z.ltb_spec 1 z); try lia; reflexivity.
Qed.

(* integer thresholds: exactly the documented ranges *)
Theorem threshold_int_ranges (z : Z) :
  (validate_threshold (PInt z) (PStr "EDIT_DISTANCE") = ok <-> 0 <= z) /\
  (validate_threshold (PInt z) (PStr "OVERLAP") = ok <-> 0 < z) /\
  (forall m, String.eqb m "EDIT_DISTANCE" = false -> String.eqb m "OVERLAP" = false ->
             (validate_threshold (PInt z) (PStr m) = ok <-> z = 1)) /\
  (forall m, validate_threshold (PInt z) (PStr m) = ok \/ validate_threshold (PInt z) (PStr m) = rejected).
Proof.
  split; [|split; [|split]].
  - rewrite vt_edit_distance. destruct (Z.ltb_spec z 0); split; intros; try discriminate; try reflexivity; lia.
  - rewrite vt_overlap. destruct (Z.leb_spec z 0); split; intros; try discriminate; try reflexivity; lia.
  - intros m H1 H2. rewrite (vt_unit z m H1 H2).
    destruct (Z.leb_spec z 0); destruct (Z.ltb_spec 1 z); cbn; split; intros; try discriminate; try reflexivity; lia.
  - intros m. destruct (String.eqb m "EDIT_DISTANCE") eqn:E1.
    + apply String.eqb_eq in E1. subst. rewrite vt_edit_distance. destruct (z <? 0); auto.
    + destruct (String.eqb m "OVERLAP") eqn:E2.
      * apply String.eqb_eq in E2. subst. rewrite vt_overlap. destruct (z <=? 0); auto.
      * rewrite (vt_unit z m E1 E2). destruct ((z <=? 0) || (1 <? z)); auto.
Qed.

(* operators *)
Local Arguments String.eqb : simpl never.

Lemma vco_edit op :
  validate_comp_op_for_sim_measure (PStr op) (PStr "EDIT_DISTANCE") =
  if String.eqb "<=" op || (String.eqb "<" op || (String.eqb "=" op || false)) then ok else rejected.
Proof.
  unfold validate_comp_op_for_sim_measure. cbn. rewrite String.eqb_refl. cbn.
  destruct (String.eqb "<=" op || (String.eqb "<" op || (String.eqb "=" op || false))); reflexivity.
Qed.
Lemma vco_other op m : String.eqb m "EDIT_DISTANCE" = false ->
  validate_comp_op_for_sim_measure (PStr op) (PStr m) =
  if String.eqb ">=" op || (String.eqb ">" op || (String.eqb "=" op || false)) then ok else rejected.
Proof.
  intros Hm. unfold validate_comp_op_for_sim_measure. cbn. rewrite Hm. cbn.
  destruct (String.eqb ">=" op || (String.eqb ">" op || (String.eqb "=" op || false))); reflexivity.
Qed.

Theorem comp_op_sets (op : string) :
  (validate_comp_op_for_sim_measure (PStr op) (PStr "EDIT_DISTANCE") = ok <->
     op = "<=" \/ op = "<" \/ op = "=") /\
  (forall m, String.eqb m "EDIT_DISTANCE" = false ->
     (validate_comp_op_for_sim_measure (PStr op) (PStr m) = ok <-> op = ">=" \/ op = ">" \/ op = "=")).
Proof.
  split.
  - rewrite vco_edit.
    destruct (String.eqb_spec "<=" op) as [<-|N1]; cbn; [split; auto|].
    destruct (String.eqb_spec "<" op) as [<-|N2]; cbn; [split; auto|].
    destruct (String.eqb_spec "=" op) as [<-|N3]; cbn; [split; auto|].
    split; [discriminate|]. intros [->|[->| ->]]; congruence.
  - intros m Hm. rewrite (vco_other op m Hm).
    destruct (String.eqb_spec ">=" op) as [<-|N1]; cbn; [split; auto|].
    destruct (String.eqb_spec ">" op) as [<-|N2]; cbn; [split; auto|].
    destruct (String.eqb_spec "=" op) as [<-|N3]; cbn; [split; auto|].
    split; [discriminate|]. intros [->|[->| ->]]; congruence.
Qed.
